"""Differential test for C13 refactoring (spectral indices / true_color).

Usage:  cd <worktree> && PYTHONPATH=<worktree> python equiv.py [--record]

Runs the affected public functions of xrspatial.multispectral on a
deterministic family of inputs (several dtypes, NaN, zeros, equal bands, odd
shapes, numpy and dask with awkward chunking) and checks

  1. sha256 digests (dtype + shape + raw bytes) against values recorded from
     the UNMODIFIED tree (embedded below in RECORDED),
  2. an independent numpy evaluation of the published band formulas
     (bit-exact, NaN-aware),
  3. dask result == numpy result bit-for-bit, output type/name/coords/attrs.

Exit 0 if everything is identical, 1 otherwise.
"""
import hashlib
import sys
import warnings

import dask.array as da
import numpy as np
import xarray as xr

import xrspatial
from xrspatial import multispectral as ms

AFFECTED = ['nbr', 'nbr2', 'ndvi', 'ndmi']

RECORDED = {'nbr/swap|float32/13x11': 'ecf1b89023ae038e9c1d',
 'nbr/swap|float32/1x1': 'd9f317de3544663ea1c4',
 'nbr/swap|float32/1x7': '66642f76479f9858d3b9',
 'nbr/swap|float32/3x5': '084c0a395092bd514e7e',
 'nbr/swap|float32/7x4': 'e311a846061157926612',
 'nbr/swap|float64/13x11': '7fe322bed5a83c2d82cd',
 'nbr/swap|float64/1x1': 'd9f317de3544663ea1c4',
 'nbr/swap|float64/1x7': '543c5b7343df2d0db627',
 'nbr/swap|float64/3x5': '3a7428c52bf2009bad54',
 'nbr/swap|float64/7x4': 'bf5d7d17cdbf8cd9c84c',
 'nbr/swap|int32/13x11': '04a7af8a04d4fd5fed58',
 'nbr/swap|int32/1x1': '3d8106d92e9af40a7249',
 'nbr/swap|int32/1x7': '6064f2e49921709c4024',
 'nbr/swap|int32/3x5': '7b78e6e185b690ef4268',
 'nbr/swap|int32/7x4': '079b4ec2c807a6e20044',
 'nbr/swap|int64/13x11': 'befb271b650839698dda',
 'nbr/swap|int64/1x1': '3d8106d92e9af40a7249',
 'nbr/swap|int64/1x7': '3f01a0284a32c3f3b431',
 'nbr/swap|int64/3x5': '96d9accd1cebeb1771ed',
 'nbr/swap|int64/7x4': '57763c3b6bdef83e9a14',
 'nbr/swap|uint16/13x11': 'd2e13aef11afa6d3a1ef',
 'nbr/swap|uint16/1x1': '3d8106d92e9af40a7249',
 'nbr/swap|uint16/1x7': 'd18e73ed100fa9d7c30d',
 'nbr/swap|uint16/3x5': 'db8960c560edb4923463',
 'nbr/swap|uint16/7x4': 'a697ef07ba53439e4ec7',
 'nbr/swap|uint8/13x11': '4778a9f75bd933b97757',
 'nbr/swap|uint8/1x1': '3d8106d92e9af40a7249',
 'nbr/swap|uint8/1x7': 'e89e50e7696e194ea829',
 'nbr/swap|uint8/3x5': '7e37d6eaef212ba0f852',
 'nbr/swap|uint8/7x4': '6eeedf146199b8fc5911',
 'nbr2/swap|float32/13x11': 'ecf1b89023ae038e9c1d',
 'nbr2/swap|float32/1x1': 'd9f317de3544663ea1c4',
 'nbr2/swap|float32/1x7': '66642f76479f9858d3b9',
 'nbr2/swap|float32/3x5': '084c0a395092bd514e7e',
 'nbr2/swap|float32/7x4': 'e311a846061157926612',
 'nbr2/swap|float64/13x11': '7fe322bed5a83c2d82cd',
 'nbr2/swap|float64/1x1': 'd9f317de3544663ea1c4',
 'nbr2/swap|float64/1x7': '543c5b7343df2d0db627',
 'nbr2/swap|float64/3x5': '3a7428c52bf2009bad54',
 'nbr2/swap|float64/7x4': 'bf5d7d17cdbf8cd9c84c',
 'nbr2/swap|int32/13x11': '04a7af8a04d4fd5fed58',
 'nbr2/swap|int32/1x1': '3d8106d92e9af40a7249',
 'nbr2/swap|int32/1x7': '6064f2e49921709c4024',
 'nbr2/swap|int32/3x5': '7b78e6e185b690ef4268',
 'nbr2/swap|int32/7x4': '079b4ec2c807a6e20044',
 'nbr2/swap|int64/13x11': 'befb271b650839698dda',
 'nbr2/swap|int64/1x1': '3d8106d92e9af40a7249',
 'nbr2/swap|int64/1x7': '3f01a0284a32c3f3b431',
 'nbr2/swap|int64/3x5': '96d9accd1cebeb1771ed',
 'nbr2/swap|int64/7x4': '57763c3b6bdef83e9a14',
 'nbr2/swap|uint16/13x11': 'd2e13aef11afa6d3a1ef',
 'nbr2/swap|uint16/1x1': '3d8106d92e9af40a7249',
 'nbr2/swap|uint16/1x7': 'd18e73ed100fa9d7c30d',
 'nbr2/swap|uint16/3x5': 'db8960c560edb4923463',
 'nbr2/swap|uint16/7x4': 'a697ef07ba53439e4ec7',
 'nbr2/swap|uint8/13x11': '4778a9f75bd933b97757',
 'nbr2/swap|uint8/1x1': '3d8106d92e9af40a7249',
 'nbr2/swap|uint8/1x7': 'e89e50e7696e194ea829',
 'nbr2/swap|uint8/3x5': '7e37d6eaef212ba0f852',
 'nbr2/swap|uint8/7x4': '6eeedf146199b8fc5911',
 'nbr2|float32/13x11': 'b64f8c3b9ca255302187',
 'nbr2|float32/1x1': '3d8106d92e9af40a7249',
 'nbr2|float32/1x7': '7bcbf782f26509de5f86',
 'nbr2|float32/3x5': '3ba018c0d7b2c6de43a4',
 'nbr2|float32/7x4': '7b5f27bdf7c10b487588',
 'nbr2|float64/13x11': 'e86a5155efd785a6827a',
 'nbr2|float64/1x1': '3d8106d92e9af40a7249',
 'nbr2|float64/1x7': '02af5f90e724adff0b4a',
 'nbr2|float64/3x5': '55cbb06cb402dba918f5',
 'nbr2|float64/7x4': '24cc3a03c6f1ea5915ce',
 'nbr2|int32/13x11': '00d5d8d2b9e131359d78',
 'nbr2|int32/1x1': '3d8106d92e9af40a7249',
 'nbr2|int32/1x7': '1f6390bc46eefa2870d9',
 'nbr2|int32/3x5': '9781e0f056989b7f1d94',
 'nbr2|int32/7x4': 'e0a5b40d296f0b575ca4',
 'nbr2|int64/13x11': '15a37137071b6fbe719e',
 'nbr2|int64/1x1': '3d8106d92e9af40a7249',
 'nbr2|int64/1x7': '59061d0261a7748b6e82',
 'nbr2|int64/3x5': 'd57d310e7c769218647f',
 'nbr2|int64/7x4': 'e7bec8d379ff550789a0',
 'nbr2|uint16/13x11': '570accdddbd9d0ad661e',
 'nbr2|uint16/1x1': '3d8106d92e9af40a7249',
 'nbr2|uint16/1x7': '0dfc2290f3c924367de3',
 'nbr2|uint16/3x5': 'b9129cbfaf3ea4bac6eb',
 'nbr2|uint16/7x4': '87ff651f432913957375',
 'nbr2|uint8/13x11': '358e5b84d6c42af1e8db',
 'nbr2|uint8/1x1': '3d8106d92e9af40a7249',
 'nbr2|uint8/1x7': 'ba7e24fd23a8ab4e0985',
 'nbr2|uint8/3x5': '36189290ad1e5563619e',
 'nbr2|uint8/7x4': '9e34b63e50a7b81edb07',
 'nbr|float32/13x11': 'b64f8c3b9ca255302187',
 'nbr|float32/1x1': '3d8106d92e9af40a7249',
 'nbr|float32/1x7': '7bcbf782f26509de5f86',
 'nbr|float32/3x5': '3ba018c0d7b2c6de43a4',
 'nbr|float32/7x4': '7b5f27bdf7c10b487588',
 'nbr|float64/13x11': 'e86a5155efd785a6827a',
 'nbr|float64/1x1': '3d8106d92e9af40a7249',
 'nbr|float64/1x7': '02af5f90e724adff0b4a',
 'nbr|float64/3x5': '55cbb06cb402dba918f5',
 'nbr|float64/7x4': '24cc3a03c6f1ea5915ce',
 'nbr|int32/13x11': '00d5d8d2b9e131359d78',
 'nbr|int32/1x1': '3d8106d92e9af40a7249',
 'nbr|int32/1x7': '1f6390bc46eefa2870d9',
 'nbr|int32/3x5': '9781e0f056989b7f1d94',
 'nbr|int32/7x4': 'e0a5b40d296f0b575ca4',
 'nbr|int64/13x11': '15a37137071b6fbe719e',
 'nbr|int64/1x1': '3d8106d92e9af40a7249',
 'nbr|int64/1x7': '59061d0261a7748b6e82',
 'nbr|int64/3x5': 'd57d310e7c769218647f',
 'nbr|int64/7x4': 'e7bec8d379ff550789a0',
 'nbr|uint16/13x11': '570accdddbd9d0ad661e',
 'nbr|uint16/1x1': '3d8106d92e9af40a7249',
 'nbr|uint16/1x7': '0dfc2290f3c924367de3',
 'nbr|uint16/3x5': 'b9129cbfaf3ea4bac6eb',
 'nbr|uint16/7x4': '87ff651f432913957375',
 'nbr|uint8/13x11': '358e5b84d6c42af1e8db',
 'nbr|uint8/1x1': '3d8106d92e9af40a7249',
 'nbr|uint8/1x7': 'ba7e24fd23a8ab4e0985',
 'nbr|uint8/3x5': '36189290ad1e5563619e',
 'nbr|uint8/7x4': '9e34b63e50a7b81edb07',
 'ndmi/swap|float32/13x11': 'ecf1b89023ae038e9c1d',
 'ndmi/swap|float32/1x1': 'd9f317de3544663ea1c4',
 'ndmi/swap|float32/1x7': '66642f76479f9858d3b9',
 'ndmi/swap|float32/3x5': '084c0a395092bd514e7e',
 'ndmi/swap|float32/7x4': 'e311a846061157926612',
 'ndmi/swap|float64/13x11': '7fe322bed5a83c2d82cd',
 'ndmi/swap|float64/1x1': 'd9f317de3544663ea1c4',
 'ndmi/swap|float64/1x7': '543c5b7343df2d0db627',
 'ndmi/swap|float64/3x5': '3a7428c52bf2009bad54',
 'ndmi/swap|float64/7x4': 'bf5d7d17cdbf8cd9c84c',
 'ndmi/swap|int32/13x11': '04a7af8a04d4fd5fed58',
 'ndmi/swap|int32/1x1': '3d8106d92e9af40a7249',
 'ndmi/swap|int32/1x7': '6064f2e49921709c4024',
 'ndmi/swap|int32/3x5': '7b78e6e185b690ef4268',
 'ndmi/swap|int32/7x4': '079b4ec2c807a6e20044',
 'ndmi/swap|int64/13x11': 'befb271b650839698dda',
 'ndmi/swap|int64/1x1': '3d8106d92e9af40a7249',
 'ndmi/swap|int64/1x7': '3f01a0284a32c3f3b431',
 'ndmi/swap|int64/3x5': '96d9accd1cebeb1771ed',
 'ndmi/swap|int64/7x4': '57763c3b6bdef83e9a14',
 'ndmi/swap|uint16/13x11': 'd2e13aef11afa6d3a1ef',
 'ndmi/swap|uint16/1x1': '3d8106d92e9af40a7249',
 'ndmi/swap|uint16/1x7': 'd18e73ed100fa9d7c30d',
 'ndmi/swap|uint16/3x5': 'db8960c560edb4923463',
 'ndmi/swap|uint16/7x4': 'a697ef07ba53439e4ec7',
 'ndmi/swap|uint8/13x11': '4778a9f75bd933b97757',
 'ndmi/swap|uint8/1x1': '3d8106d92e9af40a7249',
 'ndmi/swap|uint8/1x7': 'e89e50e7696e194ea829',
 'ndmi/swap|uint8/3x5': '7e37d6eaef212ba0f852',
 'ndmi/swap|uint8/7x4': '6eeedf146199b8fc5911',
 'ndmi|float32/13x11': 'b64f8c3b9ca255302187',
 'ndmi|float32/1x1': '3d8106d92e9af40a7249',
 'ndmi|float32/1x7': '7bcbf782f26509de5f86',
 'ndmi|float32/3x5': '3ba018c0d7b2c6de43a4',
 'ndmi|float32/7x4': '7b5f27bdf7c10b487588',
 'ndmi|float64/13x11': 'e86a5155efd785a6827a',
 'ndmi|float64/1x1': '3d8106d92e9af40a7249',
 'ndmi|float64/1x7': '02af5f90e724adff0b4a',
 'ndmi|float64/3x5': '55cbb06cb402dba918f5',
 'ndmi|float64/7x4': '24cc3a03c6f1ea5915ce',
 'ndmi|int32/13x11': '00d5d8d2b9e131359d78',
 'ndmi|int32/1x1': '3d8106d92e9af40a7249',
 'ndmi|int32/1x7': '1f6390bc46eefa2870d9',
 'ndmi|int32/3x5': '9781e0f056989b7f1d94',
 'ndmi|int32/7x4': 'e0a5b40d296f0b575ca4',
 'ndmi|int64/13x11': '15a37137071b6fbe719e',
 'ndmi|int64/1x1': '3d8106d92e9af40a7249',
 'ndmi|int64/1x7': '59061d0261a7748b6e82',
 'ndmi|int64/3x5': 'd57d310e7c769218647f',
 'ndmi|int64/7x4': 'e7bec8d379ff550789a0',
 'ndmi|uint16/13x11': '570accdddbd9d0ad661e',
 'ndmi|uint16/1x1': '3d8106d92e9af40a7249',
 'ndmi|uint16/1x7': '0dfc2290f3c924367de3',
 'ndmi|uint16/3x5': 'b9129cbfaf3ea4bac6eb',
 'ndmi|uint16/7x4': '87ff651f432913957375',
 'ndmi|uint8/13x11': '358e5b84d6c42af1e8db',
 'ndmi|uint8/1x1': '3d8106d92e9af40a7249',
 'ndmi|uint8/1x7': 'ba7e24fd23a8ab4e0985',
 'ndmi|uint8/3x5': '36189290ad1e5563619e',
 'ndmi|uint8/7x4': '9e34b63e50a7b81edb07',
 'ndvi/swap|float32/13x11': 'ecf1b89023ae038e9c1d',
 'ndvi/swap|float32/1x1': 'd9f317de3544663ea1c4',
 'ndvi/swap|float32/1x7': '66642f76479f9858d3b9',
 'ndvi/swap|float32/3x5': '084c0a395092bd514e7e',
 'ndvi/swap|float32/7x4': 'e311a846061157926612',
 'ndvi/swap|float64/13x11': '7fe322bed5a83c2d82cd',
 'ndvi/swap|float64/1x1': 'd9f317de3544663ea1c4',
 'ndvi/swap|float64/1x7': '543c5b7343df2d0db627',
 'ndvi/swap|float64/3x5': '3a7428c52bf2009bad54',
 'ndvi/swap|float64/7x4': 'bf5d7d17cdbf8cd9c84c',
 'ndvi/swap|int32/13x11': '04a7af8a04d4fd5fed58',
 'ndvi/swap|int32/1x1': '3d8106d92e9af40a7249',
 'ndvi/swap|int32/1x7': '6064f2e49921709c4024',
 'ndvi/swap|int32/3x5': '7b78e6e185b690ef4268',
 'ndvi/swap|int32/7x4': '079b4ec2c807a6e20044',
 'ndvi/swap|int64/13x11': 'befb271b650839698dda',
 'ndvi/swap|int64/1x1': '3d8106d92e9af40a7249',
 'ndvi/swap|int64/1x7': '3f01a0284a32c3f3b431',
 'ndvi/swap|int64/3x5': '96d9accd1cebeb1771ed',
 'ndvi/swap|int64/7x4': '57763c3b6bdef83e9a14',
 'ndvi/swap|uint16/13x11': 'd2e13aef11afa6d3a1ef',
 'ndvi/swap|uint16/1x1': '3d8106d92e9af40a7249',
 'ndvi/swap|uint16/1x7': 'd18e73ed100fa9d7c30d',
 'ndvi/swap|uint16/3x5': 'db8960c560edb4923463',
 'ndvi/swap|uint16/7x4': 'a697ef07ba53439e4ec7',
 'ndvi/swap|uint8/13x11': '4778a9f75bd933b97757',
 'ndvi/swap|uint8/1x1': '3d8106d92e9af40a7249',
 'ndvi/swap|uint8/1x7': 'e89e50e7696e194ea829',
 'ndvi/swap|uint8/3x5': '7e37d6eaef212ba0f852',
 'ndvi/swap|uint8/7x4': '6eeedf146199b8fc5911',
 'ndvi|float32/13x11': 'b64f8c3b9ca255302187',
 'ndvi|float32/1x1': '3d8106d92e9af40a7249',
 'ndvi|float32/1x7': '7bcbf782f26509de5f86',
 'ndvi|float32/3x5': '3ba018c0d7b2c6de43a4',
 'ndvi|float32/7x4': '7b5f27bdf7c10b487588',
 'ndvi|float64/13x11': 'e86a5155efd785a6827a',
 'ndvi|float64/1x1': '3d8106d92e9af40a7249',
 'ndvi|float64/1x7': '02af5f90e724adff0b4a',
 'ndvi|float64/3x5': '55cbb06cb402dba918f5',
 'ndvi|float64/7x4': '24cc3a03c6f1ea5915ce',
 'ndvi|int32/13x11': '00d5d8d2b9e131359d78',
 'ndvi|int32/1x1': '3d8106d92e9af40a7249',
 'ndvi|int32/1x7': '1f6390bc46eefa2870d9',
 'ndvi|int32/3x5': '9781e0f056989b7f1d94',
 'ndvi|int32/7x4': 'e0a5b40d296f0b575ca4',
 'ndvi|int64/13x11': '15a37137071b6fbe719e',
 'ndvi|int64/1x1': '3d8106d92e9af40a7249',
 'ndvi|int64/1x7': '59061d0261a7748b6e82',
 'ndvi|int64/3x5': 'd57d310e7c769218647f',
 'ndvi|int64/7x4': 'e7bec8d379ff550789a0',
 'ndvi|uint16/13x11': '570accdddbd9d0ad661e',
 'ndvi|uint16/1x1': '3d8106d92e9af40a7249',
 'ndvi|uint16/1x7': '0dfc2290f3c924367de3',
 'ndvi|uint16/3x5': 'b9129cbfaf3ea4bac6eb',
 'ndvi|uint16/7x4': '87ff651f432913957375',
 'ndvi|uint8/13x11': '358e5b84d6c42af1e8db',
 'ndvi|uint8/1x1': '3d8106d92e9af40a7249',
 'ndvi|uint8/1x7': 'ba7e24fd23a8ab4e0985',
 'ndvi|uint8/3x5': '36189290ad1e5563619e',
 'ndvi|uint8/7x4': '9e34b63e50a7b81edb07'}

DTYPES = ['uint8', 'uint16', 'int32', 'int64', 'float32', 'float64']
SHAPES = [(1, 1), (1, 7), (3, 5), (7, 4), (13, 11)]
CHUNKS = {(1, 1): (1, 1), (1, 7): (1, 3), (3, 5): (2, 3), (7, 4): (3, 3), (13, 11): (5, 4)}


def make_bands(dtype, shape, seed, n=3):
    """n band arrays of given dtype/shape with zeros, equal cells and NaNs."""
    rs = np.random.RandomState(seed)
    size = shape[0] * shape[1]
    bands = []
    for k in range(n):
        if dtype.startswith('float'):
            a = rs.uniform(0, 3000, size=shape)
            if k == 1 and seed % 2:
                a = rs.uniform(-5, 5, size=shape)       # negative values too
        elif dtype == 'uint8':
            a = rs.randint(0, 256, size=shape)
        else:
            a = rs.randint(0, 6000, size=shape)
        bands.append(a.astype(dtype))
    flat = [b.reshape(-1) for b in bands]
    # zero cells in all bands -> zero denominators
    idx = rs.choice(size, max(1, size // 6), replace=False)
    for f in flat:
        f[idx] = 0
    # equal cells across bands (nir == red etc.)
    idx = rs.choice(size, max(1, size // 6), replace=False)
    for f in flat[1:]:
        f[idx] = flat[0][idx]
    if dtype.startswith('float'):
        for k, f in enumerate(flat):
            idx = rs.choice(size, max(1, size // 8), replace=False)
            f[idx] = np.nan
        # opposite-sign cells: a + b == 0 with a != 0
        idx = rs.choice(size, max(1, size // 8), replace=False)
        flat[1][idx] = -flat[0][idx]
    return [f.reshape(shape) for f in flat]


def to_agg(arr, backend, chunks):
    h, w = arr.shape
    data = arr if backend == 'numpy' else da.from_array(arr, chunks=chunks)
    return xr.DataArray(data, dims=['y', 'x'],
                        coords={'y': np.arange(h)[::-1] * 10.0, 'x': np.arange(w) * 10.0},
                        attrs={'res': (10.0, 10.0), 'tag': 'band'})


def digest(a):
    a = np.ascontiguousarray(a)
    h = hashlib.sha256()
    h.update(str(a.dtype).encode())
    h.update(str(a.shape).encode())
    h.update(a.tobytes())
    return h.hexdigest()[:20]


# ---------------------------------------------------------------- references
f4 = np.float32
f8 = np.float64


def _guard(num, den):
    """num/den where den != 0 (NaN den passes the test -> NaN), NaN elsewhere; f4 out."""
    out = np.full(num.shape, np.nan, dtype=f4)
    with np.errstate(all='ignore'):
        m = den != 0
        out[m] = (num[m] / den[m]).astype(f4)
    return out


def ref_norm(a, b):
    a = a.astype(f4); b = b.astype(f4)
    return _guard(a - b, a + b)


def ref_arvi(nir, red, blue):
    nir = nir.astype(f4).astype(f8); red = red.astype(f4).astype(f8); blue = blue.astype(f4).astype(f8)
    return _guard(nir - 2.0 * red + blue, nir + 2.0 * red + blue)


def ref_evi(nir, red, blue, c1, c2, L, G):
    nir = nir.astype(f4); red = red.astype(f4); blue = blue.astype(f4)
    num = (nir - red).astype(f8)
    den = nir.astype(f8) + f8(c1) * red.astype(f8) - f8(c2) * blue.astype(f8) + f8(L)
    out = np.full(nir.shape, np.nan, dtype=f4)
    with np.errstate(all='ignore'):
        m = den != 0
        out[m] = (f8(G) * (num[m] / den[m])).astype(f4)
    return out


def ref_gci(nir, green):
    nir = nir.astype(f4); green = green.astype(f4)
    out = np.full(nir.shape, np.nan, dtype=f4)
    with np.errstate(all='ignore'):
        m = green != 0
        out[m] = ((nir[m] / green[m]).astype(f8) - 1).astype(f4)
    return out


def ref_savi(nir, red, L):
    nir = nir.astype(f4); red = red.astype(f4)
    num = (nir - red).astype(f8)
    den = ((nir + red).astype(f8) + f8(L)) * (1.0 + f8(L))
    return _guard(num, den)


def ref_sipi(nir, red, blue):
    nir = nir.astype(f4); red = red.astype(f4); blue = blue.astype(f4)
    return _guard(nir - blue, nir - red)


def ref_ebbi(red, swir, tir):
    red = red.astype(f4); swir = swir.astype(f4); tir = tir.astype(f4)
    with np.errstate(all='ignore'):
        den = 10 * np.sqrt(swir + tir).astype(f8)
    return _guard((swir - red).astype(f8), den)


def same(a, b):
    return a.dtype == b.dtype and a.shape == b.shape and np.array_equal(a, b, equal_nan=True) \
        and np.array_equal(np.signbit(a), np.signbit(b))


# ---------------------------------------------------------------- cases
EVI_PARAMS = [(6.0, 7.5, 1.0, 2.5), (0.0, 0.0, 0.0, 0.0), (1, 2, -1.0, 1), (2.5, 0.5, 0.5, 3.0),
              (6.0, 7.5, -0.25, 0.5)]
SAVI_PARAMS = [1.0, 0.0, -1.0, 0.5, -0.5, 1, 0, 0.3]


def index_cases():
    """yield (case_id, func_name, callable(aggs)->DataArray, ref(arrs)->ndarray, nbands)"""
    two = {'nbr': ms.nbr, 'nbr2': ms.nbr2, 'ndvi': ms.ndvi, 'ndmi': ms.ndmi}
    for nm, fn in two.items():
        yield nm, nm, (lambda ag, fn=fn: fn(ag[0], ag[1])), (lambda ar: ref_norm(ar[0], ar[1]))
        yield nm + '/swap', nm, (lambda ag, fn=fn: fn(ag[1], ag[0], name='zz')), \
            (lambda ar: ref_norm(ar[1], ar[0]))
    yield 'arvi', 'arvi', (lambda ag: ms.arvi(ag[0], ag[1], ag[2])), (lambda ar: ref_arvi(*ar))
    yield 'sipi', 'sipi', (lambda ag: ms.sipi(ag[0], ag[1], ag[2])), (lambda ar: ref_sipi(*ar))
    yield 'ebbi', 'ebbi', (lambda ag: ms.ebbi(ag[0], ag[1], ag[2])), (lambda ar: ref_ebbi(*ar))
    yield 'gci', 'gci', (lambda ag: ms.gci(ag[0], ag[1])), (lambda ar: ref_gci(ar[0], ar[1]))
    for p in EVI_PARAMS:
        yield 'evi/%r' % (p,), 'evi', \
            (lambda ag, p=p: ms.evi(ag[0], ag[1], ag[2], c1=p[0], c2=p[1], soil_factor=p[2], gain=p[3])), \
            (lambda ar, p=p: ref_evi(ar[0], ar[1], ar[2], *p))
    for L in SAVI_PARAMS:
        yield 'savi/%r' % (L,), 'savi', (lambda ag, L=L: ms.savi(ag[0], ag[1], soil_factor=L)), \
            (lambda ar, L=L: ref_savi(ar[0], ar[1], L))


TC_PARAMS = [dict(), dict(nodata=0), dict(nodata=100.5, c=5.0, th=0.3), dict(nodata=-1, c=20.0, th=0.0)]


def main():
    record = '--record' in sys.argv
    print('xrspatial from', xrspatial.__file__)
    got = {}
    fails = []

    def check(cond, msg):
        if not cond:
            fails.append(msg)

    seed = 0
    for dtype in DTYPES:
        for shape in SHAPES:
            seed += 1
            arrs = make_bands(dtype, shape, seed)
            aggs_np = [to_agg(a, 'numpy', None) for a in arrs]

            def fresh_dask():
                # bands deliberately chunked differently (validate_arrays rechunks)
                return [to_agg(a, 'dask', CHUNKS[shape] if k != 1 else shape)
                        for k, a in enumerate(arrs)]
            tag = '%s/%dx%d' % (dtype, shape[0], shape[1])

            for cid, fname, call, ref in index_cases():
                if fname not in AFFECTED:
                    continue
                key = '%s|%s' % (cid, tag)
                r_np = call(aggs_np)
                r_da = call(fresh_dask())
                check(isinstance(r_np.data, np.ndarray), key + ': numpy backend type')
                check(isinstance(r_da.data, da.Array), key + ': dask backend type')
                v_np = r_np.data
                v_da = r_da.data.compute()
                check(v_np.dtype == np.float32, key + ': dtype %s' % v_np.dtype)
                check(not np.isinf(v_np).any(), key + ': inf in output')
                check(same(v_np, v_da), key + ': dask != numpy')
                check(same(v_np, ref(arrs)), key + ': != independent formula')
                for r in (r_np, r_da):
                    first = aggs_np[1] if cid.endswith('/swap') else aggs_np[0]
                    check(r.name == ('zz' if cid.endswith('/swap') else fname), key + ': name')
                    check(r.dims == first.dims and r.attrs == first.attrs, key + ': dims/attrs')
                    check(all(np.array_equal(r[c].values, first[c].values) for c in ('y', 'x')),
                          key + ': coords')
                got[key] = digest(v_np)

            if 'true_color' in AFFECTED:
                for i, kw in enumerate(TC_PARAMS):
                    key = 'true_color/%d|%s' % (i, tag)
                    with warnings.catch_warnings():
                        warnings.simplefilter('ignore')
                        r_np = ms.true_color(*aggs_np, **kw)
                        r_da = ms.true_color(*fresh_dask(), **kw)
                        v_np = np.asarray(r_np.data)
                        v_da = np.asarray(r_da.data.compute())
                    check(isinstance(r_np.data, np.ndarray), key + ': numpy backend type')
                    check(isinstance(r_da.data, da.Array), key + ': dask backend type')
                    check(v_np.dtype == np.uint8 and v_da.dtype == np.uint8, key + ': dtype')
                    check(v_np.shape == shape + (4,) and v_da.shape == shape + (4,), key + ': shape')
                    nodata = kw.get('nodata', 1)
                    red = arrs[0]
                    with np.errstate(all='ignore'):
                        exp_alpha = np.where(np.isnan(red.astype('f8')) | (red <= nodata), 0, 255)
                    check(np.array_equal(v_np[..., 3], exp_alpha), key + ': alpha numpy')
                    check(np.array_equal(v_da[..., 3], exp_alpha), key + ': alpha dask')
                    for r in (r_np, r_da):
                        check(r.name == 'true_color' and r.dims == ('y', 'x', 'band'), key + ': name/dims')
                        check(r.attrs == aggs_np[0].attrs, key + ': attrs')
                        check(list(r['band'].values) == [0, 1, 2, 3], key + ': band coord')
                        check(np.array_equal(r['y'].values, aggs_np[0]['y'].values), key + ': y')
                    got[key + '|np'] = digest(v_np)
                    got[key + '|da'] = digest(v_da)

    # error paths / validation must be unchanged
    a = to_agg(np.ones((3, 4), 'f4'), 'numpy', None)
    b = to_agg(np.ones((4, 3), 'f4'), 'numpy', None)
    d = to_agg(np.ones((3, 4), 'f4'), 'dask', (2, 2))

    def raises(exc, fn, *args, **kw):
        try:
            fn(*args, **kw)
        except exc:
            return True
        except Exception as e:  # noqa
            return False
        return False

    if 'ndvi' in AFFECTED:
        for fn in (ms.ndvi, ms.ndmi, ms.nbr, ms.nbr2):
            check(raises(ValueError, fn, a, b), fn.__name__ + ': shape mismatch must raise ValueError')
            check(raises(ValueError, fn, a, d), fn.__name__ + ': mixed backends must raise ValueError')
    if 'savi' in AFFECTED:
        check(raises(ValueError, ms.savi, a, a, soil_factor=1.5), 'savi soil_factor range')
        check(raises(ValueError, ms.savi, a, b), 'savi shape mismatch')
    if 'arvi' in AFFECTED:
        check(raises(ValueError, ms.arvi, a, a, b), 'arvi shape mismatch')

    if record:
        import pprint
        print('RECORDED = ' + pprint.pformat(got, width=110))
        return 0

    if set(got) != set(RECORDED):
        fails.append('case set differs from recorded: %d vs %d' % (len(got), len(RECORDED)))
    for k in sorted(got):
        if RECORDED.get(k) != got[k]:
            fails.append('%s: digest %s != recorded %s' % (k, got[k], RECORDED.get(k)))

    print('%d cases, %d failures' % (len(got), len(fails)))
    for f in fails[:40]:
        print('FAIL', f)
    return 1 if fails else 0


if __name__ == '__main__':
    sys.exit(main())
