"""Differential test for the xrspatial.local operators (property C17).

Two independent checks:
  1. every public local operator is compared, bit for bit (values, dtype, shape,
     attrs), against an oracle written here from the definitions;
  2. a digest of all outputs (including the error type/message for bad inputs)
     is compared against the digest recorded from the unmodified tree.
Exit status 0 iff everything is identical.
"""
import hashlib
import itertools
import sys
import warnings

import numpy as np
import xarray as xr

import xrspatial
from xrspatial import local as L

warnings.filterwarnings('ignore')

EXPECTED_DIGEST = "21b5d3ce8aff8646b8c80fff39d538a50422a432b3b72aad11167a56c27f59c5"

try:
    import dask.array as da
except Exception:  # pragma: no cover
    da = None


# --------------------------------------------------------------------------
# oracle
# --------------------------------------------------------------------------
def _isnan(v):
    return v != v


def _cells(arrs):
    shape = arrs[0].shape
    for idx in np.ndindex(*shape):
        yield [a[idx].item() for a in arrs]


def _refs(ref):
    # the reference value keeps its numpy scalar type (numpy comparison rules)
    for idx in np.ndindex(*ref.shape):
        yield [ref[idx]]


def _finish(vals, arrs):
    return np.array(vals).reshape(-1, arrs[0].shape[1])


NPF = dict(max=np.max, mean=np.mean, median=np.median, min=np.min,
           std=np.std, sum=np.sum)


def o_cell_stats(arrs, func):
    return _finish([NPF[func](np.array(v)) for v in _cells(arrs)], arrs)


def o_combine(arrs):
    ids = {}
    vals = []
    for v in _cells(arrs):
        if any(_isnan(x) for x in v):
            vals.append(float('nan'))
        else:
            t = tuple(v)
            if t not in ids:
                ids[t] = len(ids) + 1
            vals.append(ids[t])
    key = {i: t for t, i in ids.items()}
    return _finish(vals, arrs), key


def o_freq(arrs, ref, op):
    vals = []
    for v, r in zip(_cells(arrs), _refs(ref)):
        if any(_isnan(x) for x in v):
            vals.append(float('nan'))
        else:
            vals.append(len([x for x in v if op(r[0], x)]))
    return _finish(vals, arrs)


def o_position(arrs, lowest):
    vals = []
    for v in _cells(arrs):
        if any(_isnan(x) for x in v):
            vals.append(float('nan'))
            continue
        best = 0
        for i in range(1, len(v)):
            if (v[i] < v[best]) if lowest else (v[i] > v[best]):
                best = i
        vals.append(best + 1)
    return _finish(vals, arrs)


def o_rank(arrs, ref):
    vals = []
    for v, r in zip(_cells(arrs), _refs(ref)):
        k = r[0] - 1
        if any(_isnan(x) for x in v) or k >= len(v):
            vals.append(float('nan'))
        else:
            vals.append(sorted(v)[k])
    return _finish(vals, arrs)


def o_popularity(arrs, ref):
    vals = []
    for v, r in zip(_cells(arrs), _refs(ref)):
        k = r[0] - 1
        if any(_isnan(x) for x in v):
            vals.append(float('nan'))
            continue
        uniq = sorted(set(np.array(v).tolist()))
        uniq = [np.array(v).dtype.type(u) for u in uniq]
        if len(uniq) >= len(v):
            vals.append(float('nan'))
        elif len(uniq) == 1:
            vals.append(uniq[0])
        elif k >= len(uniq):
            vals.append(float('nan'))
        else:
            vals.append(uniq[k])
    return _finish(vals, arrs)


# --------------------------------------------------------------------------
# inputs
# --------------------------------------------------------------------------
def make_cases():
    rng = np.random.default_rng(20240517)
    cases = []
    shapes = [(1, 1), (1, 5), (5, 1), (3, 4), (4, 3), (2, 7), (6, 5)]
    dtypes = [np.int64, np.int32, np.int8, np.uint8, np.float64, np.float32]
    for n, shape in itertools.product(range(2, 7), shapes):
        for variant in range(3):
            layers = []
            for i in range(n):
                dt = dtypes[int(rng.integers(len(dtypes)))]
                if variant == 0:            # many ties
                    a = rng.integers(0, 3, size=shape)
                elif variant == 1:          # wide
                    a = rng.integers(0, 100, size=shape)
                else:                       # floats with ties
                    a = rng.integers(-4, 5, size=shape) / 2.0
                    if dt not in (np.float64, np.float32):
                        dt = np.float64
                a = a.astype(dt)
                if a.dtype.kind == 'f' and rng.random() < 0.6:
                    m = rng.random(shape) < 0.2
                    a[m] = np.nan
                    if rng.random() < 0.3:
                        a[rng.random(shape) < 0.1] = np.inf
                layers.append(a)
            ref = rng.integers(1, n + 1, size=shape).astype(
                [np.int64, np.int32, np.uint8][int(rng.integers(3))])
            cases.append((layers, ref))
    # hand-made edge cases
    nan = np.nan
    cases.append(([np.array([[1, 1], [2, 2]]), np.array([[1.0, 1.0], [2.0, nan]])],
                  np.array([[1, 2], [2, 1]])))
    cases.append(([np.full((2, 3), nan), np.zeros((2, 3))], np.ones((2, 3), dtype=int)))
    cases.append(([np.array([[-np.inf, np.inf, 0.0]]), np.array([[np.inf, -np.inf, -0.0]]),
                   np.array([[0.0, 0.0, 0.0]])], np.array([[3, 1, 2]])))
    cases.append(([np.array([[2**53 + 1, 5]]), np.array([[2.0**53, 5.0]]),
                   np.array([[2**53, 5]])], np.array([[1, 3]])))
    return cases


def make_ds(layers, ref, dask=False, perm=None):
    names = ['v%d' % i for i in range(len(layers))]
    items = list(zip(names, layers)) + [('ref', ref)]
    if perm is not None:
        items = [items[i] for i in perm]
    dv = {}
    for k, a in items:
        if dask:
            chunks = tuple(max(1, s // 2) for s in a.shape)
            a = da.from_array(a, chunks=chunks)
        dv[k] = (('y', 'x'), a)
    return xr.Dataset(dv), names


# --------------------------------------------------------------------------
# comparison
# --------------------------------------------------------------------------
failures = []
H = hashlib.sha256()


def feed(tag, arr, attrs=None):
    arr = np.asarray(arr)
    H.update(repr((tag, str(arr.dtype), arr.shape)).encode())
    H.update(np.ascontiguousarray(arr).tobytes())
    if attrs is not None:
        H.update(repr(attrs).encode())


def same(tag, got, exp, got_attrs=None, exp_attrs=None):
    g = np.asarray(got.data)
    ok = (isinstance(got, xr.DataArray) and g.dtype == exp.dtype
          and g.shape == exp.shape and g.tobytes() == exp.tobytes())
    if exp_attrs is not None:
        ok = ok and list(got_attrs.items()) == list(exp_attrs.items())
        ok = ok and all(type(a) is type(b) for k in exp_attrs
                        for a, b in zip(got_attrs[k], exp_attrs[k]))
    else:
        ok = ok and dict(got.attrs) == {}
    if not ok:
        failures.append(tag)
    feed(tag, g, None if exp_attrs is None else
         [(k, v, [type(x).__name__ for x in v]) for k, v in got_attrs.items()])


def run_case(ci, layers, ref, dask):
    n = len(layers)
    ds, names = make_ds(layers, ref, dask=dask)
    # subsets / orders of data_vars
    selections = [None, names, names[::-1], names[:2]]
    if n >= 3:
        selections.append([names[2], names[0]])
        selections.append(names[1:][::-1])
    for si, sel in enumerate(selections):
        tag = (ci, dask, si)
        used = names if sel is None else sel
        arrs = [layers[names.index(k)] for k in used]
        # functions without a reference layer
        if sel is None:
            ds2 = ds[names]
        else:
            ds2 = ds
        for f in sorted(NPF):
            same(tag + ('cell_stats', f), L.cell_stats(ds2, sel, f),
                 o_cell_stats(arrs, f))
        same(tag + ('cell_stats_default',), L.cell_stats(ds2, sel),
             o_cell_stats(arrs, 'sum'))
        got = L.combine(ds2, sel)
        exp, key = o_combine(arrs)
        same(tag + ('combine',), got, exp, got.attrs['key'], key)
        if list(got.attrs) != ['key']:
            failures.append(tag + ('combine-attrs',))
        same(tag + ('lowest',), L.lowest_position(ds2, sel), o_position(arrs, True))
        same(tag + ('highest',), L.highest_position(ds2, sel), o_position(arrs, False))
        # functions with a reference layer
        lt = L.lesser_frequency(ds, 'ref', sel)
        eq = L.equal_frequency(ds, 'ref', sel)
        gt = L.greater_frequency(ds, 'ref', sel)
        same(tag + ('lesser',), lt, o_freq(arrs, ref, lambda r, x: r > x))
        same(tag + ('equal',), eq, o_freq(arrs, ref, lambda r, x: r == x))
        same(tag + ('greater',), gt, o_freq(arrs, ref, lambda r, x: r < x))
        tot = np.asarray((lt + eq + gt).data)
        m = ~np.isnan(tot)
        if not (tot[m] == len(arrs)).all():
            failures.append(tag + ('freq-sum',))
        same(tag + ('rank',), L.rank(ds, 'ref', sel), o_rank(arrs, ref))
        same(tag + ('popularity',), L.popularity(ds, 'ref', sel),
             o_popularity(arrs, ref))
    # another layer as the reference (values outside 1..n allowed for frequencies)
    other = names[0]
    rest = names[1:]
    arrs = [layers[names.index(k)] for k in rest]
    oref = layers[0]
    if n >= 3:
        same((ci, dask, 'oref', 'lesser'), L.lesser_frequency(ds, other, rest),
             o_freq(arrs, oref, lambda r, x: r > x))
        same((ci, dask, 'oref', 'equal'), L.equal_frequency(ds, other, rest),
             o_freq(arrs, oref, lambda r, x: r == x))
        same((ci, dask, 'oref', 'greater'), L.greater_frequency(ds, other, rest),
             o_freq(arrs, oref, lambda r, x: r < x))
    # ref variable not last in the dataset, data_vars=None
    perm = [n] + list(range(n))
    dsp, _ = make_ds(layers, ref, dask=dask, perm=perm)
    same((ci, dask, 'perm', 'rank'), L.rank(dsp, 'ref'), o_rank(layers, ref))
    same((ci, dask, 'perm', 'lesser'), L.lesser_frequency(dsp, 'ref'),
         o_freq(layers, ref, lambda r, x: r > x))


def errors():
    a = np.arange(6.0).reshape(2, 3)
    ds = xr.Dataset({'a': (('y', 'x'), a), 'b': (('y', 'x'), a[::-1].copy()),
                     'r': (('y', 'x'), np.ones((2, 3), dtype=int))})
    one = [L.cell_stats, L.combine, L.lowest_position, L.highest_position]
    two = [L.lesser_frequency, L.equal_frequency, L.greater_frequency,
           L.popularity, L.rank]
    calls = []
    for f in one:
        calls += [(f, (ds['a'],)), (f, (ds, 'a')), (f, (ds, ['a'])), (f, (ds, ['a', 1])),
                  (f, (ds, ['a', 'zz'])), (f, (a,)), (f, (ds['a'], 'a'))]
    calls += [(L.cell_stats, (ds, ['a'], 'mode')), (L.cell_stats, (ds['a'], 3, 'mode')),
              (L.cell_stats, (ds, 'a', 'mode'))]
    for f in two:
        calls += [(f, (ds['a'], 'r')), (f, (ds, 1)), (f, (ds, 'zz')),
                  (f, (ds, 'r', 'a')), (f, (ds, 'r', ['a', 2])),
                  (f, (ds, 'r', ['a', 'zz'])), (f, (ds, 'r', ['a', 'r'])),
                  (f, (ds['a'], 1, 'a')), (f, (ds, 1, 'a')), (f, (ds, 'zz', ['r', 'zz'])),
                  (f, (ds[['r']], 'r')), (f, (ds, 'r', ['a']))]
    for i, (f, args) in enumerate(calls):
        try:
            f(*args)
            res = 'no error'
        except Exception as e:  # noqa
            res = '%s: %s' % (type(e).__name__, e)
        H.update(repr((i, f.__name__, res)).encode())
        if res == 'no error':
            failures.append(('errors', i, f.__name__))


def three_d():
    rng = np.random.default_rng(7)
    a = rng.integers(0, 3, size=(2, 3, 4)).astype(float)
    b = rng.integers(0, 3, size=(2, 3, 4)).astype(float)
    b[0, 1, 2] = np.nan
    ds = xr.Dataset({'a': (('t', 'y', 'x'), a), 'b': (('t', 'y', 'x'), b)})
    for f in (L.cell_stats, L.combine, L.lowest_position, L.highest_position):
        r = f(ds)
        feed(('3d', f.__name__), r.data, dict(r.attrs))
    exp, key = o_combine([a, b])
    got = L.combine(ds)
    same(('3d', 'combine'), got, exp, got.attrs['key'], key)
    same(('3d', 'lowest'), L.lowest_position(ds), o_position([a, b], True))
    same(('3d', 'highest'), L.highest_position(ds), o_position([a, b], False))
    same(('3d', 'mean'), L.cell_stats(ds, func='mean'), o_cell_stats([a, b], 'mean'))


def main():
    cases = make_cases()
    for ci, (layers, ref) in enumerate(cases):
        run_case(ci, layers, ref, dask=False)
        if da is not None and ci % 9 == 0 and layers[0].size <= 12:
            run_case(ci, layers, ref, dask=True)
    errors()
    three_d()
    digest = H.hexdigest()
    print('xrspatial from', xrspatial.__file__)
    print('cases:', len(cases), 'digest:', digest)
    if failures:
        print('ORACLE MISMATCHES:', len(failures), failures[:10])
        return 1
    if len(EXPECTED_DIGEST) != 64:
        print('no recorded digest')
        return 2
    if digest != EXPECTED_DIGEST:
        print('DIGEST MISMATCH; expected', EXPECTED_DIGEST)
        return 1
    print('OK')
    return 0


if __name__ == '__main__':
    sys.exit(main())
