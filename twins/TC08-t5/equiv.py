"""Differential test for C08 (slope / aspect / curvature / hillshade).

Runs the four public functions on a deterministic family of inputs (several
dtypes, NaN / inf cells, flat areas and ties, odd shapes, res attr / coords /
no cell size, x != y, several azimuth / altitude angles, numpy and dask) and
compares

  (a) bit-for-bit (after NaN canonicalisation) against digests recorded from
      the unmodified tree (EXPECTED below), and
  (b) against an independent pure-numpy float64 re-implementation of the
      documented 3x3 formulas (tolerance check + NaN pattern),
  (c) dask results against numpy results (bit-identical).

Usage:  cd <worktree> && PYTHONPATH=<worktree> python equiv.py [--record]
Exit status 0 iff everything is identical.
"""
import hashlib
import os
import sys
import warnings

import dask.array as da
import numpy as np
import xarray as xr

import xrspatial
from xrspatial import aspect, curvature, hillshade, slope

warnings.filterwarnings('ignore')

EXPECTED = {
    'big_6x7/coords': '49dcd4b1616a97143f0e5e8aeb16f86c00bb8608',
    'big_6x7/nores': '2a8a9e6008ab9dcee6f0740fb0300f70a1e841a0',
    'big_6x7/res1': '83d417721602382a72dd28970a6fba24d8dad460',
    'big_6x7/res_f': 'c52b62d585f224a7701dc0550010dda203238573',
    'big_6x7/res_t': 'fe3f86ad189c38cc4ba55dc120973a76ca2f92b9',
    'dask/f32_6x6/coords/3x3': 'd03544714d0e1095df718a5ce4922f588497e2bd',
    'dask/f32_6x6/nores/3x3': 'cc9d4639196690b6925ff7dd6722678495dd5485',
    'dask/f32_6x6/res_t/3x3': '856d400b03950b8339bbb21a8c374cbfea956336',
    'dask/f64_3x3/coords/3x3': 'bfcbcd5b3ff0ff51d460ccc75286ee0361833103',
    'dask/f64_3x3/nores/3x3': '07b8c5159e2fc9841863b2120d30bf5aea6ef0f7',
    'dask/f64_3x3/res_t/3x3': 'ebb7dd8a8cf02f6f4090307d4019389b78f82e0a',
    'dask/f64_7x11/coords/3x4': '916a3063d0c0f817e2f80e18ea8bbcf77b2daaff',
    'dask/f64_7x11/nores/3x4': 'd2d3b29c5601e5a766e49f0093a7d270e11d8420',
    'dask/f64_7x11/res_t/3x4': 'c09c76a76ed61cf5ae3395e0a1c6b2070c9eb5fa',
    'dask/flat_9x4/coords/5x3': '4a8631058d8284d9bbdc60682e74e66423cca736',
    'dask/flat_9x4/nores/5x3': '1f353505e782b010cc623fa37d43f170de13a8f3',
    'dask/flat_9x4/res_t/5x3': 'b00837d08bd9b82e5c95842c169765303ce5de94',
    'dask/i32_7x11/coords/7x11': '0b10d461248b079b14924d6c5b0ba5b4140c85c2',
    'dask/i32_7x11/nores/7x11': '13d4173a56ead21067cf2d71a6cc001bc327adad',
    'dask/i32_7x11/res_t/7x11': 'ad9110ea9e375144d823ab7ea28e1313d12900bb',
    'dask/i64_4x5/coords/2x2': 'a7d7c359fd15e126c2f1e4bab03b24380d7ef981',
    'dask/i64_4x5/nores/2x2': '41d1766740a471da22ecdcf3c6f71c29a8f9d266',
    'dask/i64_4x5/res_t/2x2': '9e8b97f23c1a93dd2f124a54f8a30161771a2247',
    'dask/inf_6x7/coords/3x7': '989c56c8b385fbd67f1909637fdcb3a6f7754094',
    'dask/inf_6x7/nores/3x7': '5277a8ea20c411e66b305d932aced513f0403738',
    'dask/inf_6x7/res_t/3x7': 'e68684aecac8674c778fea041cf0f96671f24b2f',
    'dask/nan_6x6/coords/2x5': '59b6c448bf9a0f0f9a0d8a215c21c2b3252822b2',
    'dask/nan_6x6/nores/2x5': 'c69dc017b2b169d85baabb872bd7d4bd677d27f0',
    'dask/nan_6x6/res_t/2x5': 'ae3667b444dadec050a0603df8e747c130f24da4',
    'dask/nan_7x11/coords/3x4': '6adb8953ab41eaf918b2d89791b275cbc27916aa',
    'dask/nan_7x11/nores/3x4': 'f5d34064939aaed4ed28dff24faf5091a1f6090c',
    'dask/nan_7x11/res_t/3x4': 'c30e689c639b0662d48e327776486b79a9186344',
    'dask/ramp8/coords/2x3': '3b73683259d74d22aef88d5c7cb8785b31663d51',
    'dask/ramp8/nores/2x3': '9cdf5d09845778eb2e206903b4f3a549ccfb4664',
    'dask/ramp8/res_t/2x3': 'b5d90d3ce08e2232e1c21e576ff39eebcc84bc4d',
    'dask/u8_9x4/coords/4x2': '2932debc2d0dee78a097eed1c952c7bbd59c137e',
    'dask/u8_9x4/nores/4x2': 'b4e93e7b8a27b1dd9d7fc592c9f4fce3600867a4',
    'dask/u8_9x4/res_t/4x2': '7ab4f469bfa716917b8853c8afa0ea21158dfd12',
    'f32_2x3/coords': '8c0c96f0f477092c1a3a10046ded74a3f119f97e',
    'f32_2x3/nores': 'f153a3e57d98e79606c547212f7646115dae00d2',
    'f32_2x3/res1': 'd5c211b831033915166223d447bd15287be1795b',
    'f32_2x3/res_f': 'b8541bcff6f67cec54cc195a1294d1141b0b22e5',
    'f32_2x3/res_t': '6a014bef0c0197621616093ac488e5b384426a21',
    'f32_3x3/coords': 'b4cd2436cb13afb8a391448aa8c751ae2751cc59',
    'f32_3x3/nores': 'ba6245744eb01375ef7b8751fc7cf3b0c4850643',
    'f32_3x3/res1': '9948161c00359468751d6d0020b0a260acf9dde5',
    'f32_3x3/res_f': '410fe8dbc16024f761faf41b26cbaca324bc4096',
    'f32_3x3/res_t': 'f0f21d7675e4c4288eba9551120d4cadc0022d4f',
    'f32_4x5/coords': 'bd75d2a830105e5de4b6a4fad646cfd2c74776b8',
    'f32_4x5/nores': '981cc6c463aa7cb67f56c9e077387d57df3733e4',
    'f32_4x5/res1': '05453a1ca0a42f8bccb6a3d200c9f9a67989fcd4',
    'f32_4x5/res_f': 'e95862f3055108f5f6caeaed08d9d9adc6357e52',
    'f32_4x5/res_t': 'd6e9efca360f037dce0b0205055da27ca24b22d3',
    'f32_6x6/coords': 'dfad64462f36901d286dff631209429d481c7441',
    'f32_6x6/nores': '26651087d2755c48f1cbbd7c428f0ca107006889',
    'f32_6x6/res1': 'bbb6f9655ab890d8dabcc73a98eed75b74a3ce89',
    'f32_6x6/res_f': 'f7d757b8f65386a621b55c8ff77517dc75138cc6',
    'f32_6x6/res_t': '9c001a2480f0436fbc380a572a986aa620fdf3d6',
    'f32_7x11/coords': '514f8bf32a8a795312b697451f8b6fd1ef7340bd',
    'f32_7x11/nores': '40235a6332c527ffb840d8b03fa4c8f068e1edaf',
    'f32_7x11/res1': '2f48be5f2cf1e3d6a777025905b9119b20852010',
    'f32_7x11/res_f': '4a975b6ae95587e47bc992bf9212a40633eecb48',
    'f32_7x11/res_t': '3b6bc024d5ad45ac47042210290fff8a7047f941',
    'f32_9x4/coords': 'e54111d579ce323ad07c7e96ca241b224a3a7274',
    'f32_9x4/nores': '621b08f792cc2e9f2550c4f819c05a0cfd3ebf5d',
    'f32_9x4/res1': 'a39e58d60942e2bbe34a23242e016545ea710838',
    'f32_9x4/res_f': '909d2fc566a8b9443faa51149cfe278cf22f49eb',
    'f32_9x4/res_t': '6d483e36e831b949b13ce1b07266c7cf0dffa517',
    'f64_2x3/coords': '166a7d08d4bb488d8845018f25521261372e5887',
    'f64_2x3/nores': '8bb081d60b5c9d01c4202659c9c88b95c4b7f04a',
    'f64_2x3/res1': '6cd461ed9ef02ce704e573e178864915e8758bef',
    'f64_2x3/res_f': '6201e875f9d3c6290d685afe1c4f99a34645fa92',
    'f64_2x3/res_t': '93d1f15cdb518112b2c1df8bfda7c6807de3ffe8',
    'f64_3x3/coords': 'a025248ab3143d7edc5c23025eed75ebfe22fadf',
    'f64_3x3/nores': '85f945650215d2d8fe0a8d7cec516a7b3e66d100',
    'f64_3x3/res1': 'f9f4a5866cd44895a97460ad3d815d8c437dee2d',
    'f64_3x3/res_f': 'e17a90e695acf4fcec7f6f14f07d0c634c1b4418',
    'f64_3x3/res_t': 'bd3e36faaddb6e12914f8e290fc2e431b42bf411',
    'f64_4x5/coords': '6db722d32004050a45c4ba0b14ed7c82da2636db',
    'f64_4x5/nores': '76c7487a8555068cf3ffd1952bc05c6b24756733',
    'f64_4x5/res1': 'e51f75d411c1c4b5620290cb6b00d6fc0c266e30',
    'f64_4x5/res_f': '04354483b945f96ce1588e598d823be9bc4581be',
    'f64_4x5/res_t': 'ef295cf39f339772f5a9e67fb4aac46791bfb616',
    'f64_6x6/coords': '06c1dbb5bf3b2a60a4f1e46490a4d99bda955dc6',
    'f64_6x6/nores': '998d9b4cc594334b625c9fbf89b066c1f89a39bf',
    'f64_6x6/res1': '71bff23294eacb25e32f99fde8067a81d0bd97f5',
    'f64_6x6/res_f': '87fa2914d83bd39ef13bb63de2027ebb946bf10d',
    'f64_6x6/res_t': 'fd702690ee76f0676fdaf8abda36885cc2e871e4',
    'f64_7x11/coords': '0203ff6918d61c4e04894fc98c3cc43fa7087c47',
    'f64_7x11/nores': 'a5abc1acd1f03c1585a5791bfed0119a54779e1a',
    'f64_7x11/res1': 'af9b89b8770ba0c899c67645b2458ac0b97a07fd',
    'f64_7x11/res_f': '3a440cf94ea8625e6d1cce2102442b58fcb8e085',
    'f64_7x11/res_t': 'ff924721fecc7913dee8c9487152534a06dff9e4',
    'f64_9x4/coords': 'df5541503d05681c689b5d9c513da6399587fe84',
    'f64_9x4/nores': '39c6a7ac6594f4595dea06d1a3d0fe0bf90bf17b',
    'f64_9x4/res1': '00e53af6be7e27cba28e747657690effc0269ef1',
    'f64_9x4/res_f': 'b10affcb264f0701ace8df27d062c3b33918510e',
    'f64_9x4/res_t': '8e43b107324397dcc5cfeedfdde5cb290efa4a6e',
    'flat_2x3/coords': 'b93f0bc856370373034e9eeb8e0db991c07e65ca',
    'flat_2x3/nores': '4d1b1ae38d396873a7ea98e78f8d7ed2e3bdff56',
    'flat_2x3/res1': '9072abf0946b107f9c8d944d72f1afd71b4a44df',
    'flat_2x3/res_f': '97a0c80ac7a626c163e2e7e186434a391ed90f99',
    'flat_2x3/res_t': 'e58f57a5151df7641932bd52b8e223330d8958f2',
    'flat_3x3/coords': 'b76d0c0081891a5c4d11a70bb40e7edcce70c789',
    'flat_3x3/nores': 'a31a87a1353e3e9c7e0d22adcdd9310e4d3388c8',
    'flat_3x3/res1': 'b1beaa91b1e4713380c8feb35306d7b88433f5f6',
    'flat_3x3/res_f': 'df1ebb27cee391edae0fea52ab71d7563d8f2adc',
    'flat_3x3/res_t': '4edd91a43dac268bd3a4e8be944603af6b470a07',
    'flat_4x5/coords': 'dfc901a90b1932f6180af30355a1ca5086a8e218',
    'flat_4x5/nores': '3a94a3a1a002515b9889ee3a912fe14b413bb972',
    'flat_4x5/res1': '9e23951dcf05b3c0a1725b5bb164491f93654bf6',
    'flat_4x5/res_f': '51a9b0ec833142bef40c72a262d304a4b417bb47',
    'flat_4x5/res_t': 'bac437b6eea5ac1c8977e3cffafa7293519d045a',
    'flat_6x6/coords': 'eafc01cf27e4ff28cc94513bb41cc6319969788a',
    'flat_6x6/nores': 'aa7d0d0864b3566d41566867eb55832f39237576',
    'flat_6x6/res1': 'e5c9f0f54f6bd0a1cfd950f41ea103430f8a00ad',
    'flat_6x6/res_f': '942c6606ae53fd2abe21c0d45f4f9d07729b179e',
    'flat_6x6/res_t': '2ef94b4322d6ab25ed22a1c671cf9cea20e75bd7',
    'flat_7x11/coords': 'ed5b8b194c8dc5b1af6721c512e3257a7b0ddfa5',
    'flat_7x11/nores': 'a5175b6183737ee32d70689e832ed81872ed88be',
    'flat_7x11/res1': '0dafc4c2e8d2f02ff6b6f735efdb87942daa0761',
    'flat_7x11/res_f': 'f397dd8e1299dd86b8e78adfab0397f744dba523',
    'flat_7x11/res_t': 'f85a405f22e76d62593ac924a912719ad0b7ff02',
    'flat_9x4/coords': '07c9f349ba68426f8fa74c0d0b6fce7406a0daae',
    'flat_9x4/nores': '5d3435e2ffcac6e50b0c95660d4374ed4b1a80b5',
    'flat_9x4/res1': '1359cacc810ec25afe9b8639ecfe7d627e67098b',
    'flat_9x4/res_f': 'c0137c4b1c2d7b10811c2dd2670223e5f224df27',
    'flat_9x4/res_t': '116c8e25e8004d030ce380205089ce77b1414ab9',
    'forder32_5x4/coords': '04ef45c0feee42bed5d24750546c22bf71cdd3d8',
    'forder32_5x4/nores': '15726c49daf37c8dc0a37d31142983f35b846257',
    'forder32_5x4/res1': '6122a54cc928933c6697356bd5a3c7c66371e0d8',
    'forder32_5x4/res_f': '33b0ee80ca76f7c369a6b505319da1dc46daae9d',
    'forder32_5x4/res_t': '492b49df3214b83cbfde50eea04c8f4095f45e20',
    'forder_6x7/coords': '924b4ce72ae406e19108736ce6c24fdf4f25dc52',
    'forder_6x7/nores': '9b3ca463af32a3aba720683d9bcef1ee3df0ee12',
    'forder_6x7/res1': '9d1035ad7aff1c26a5adc2bb27658bff9f5c132b',
    'forder_6x7/res_f': '9ea65c541c7c89de3441194e10ecf2df0615fc68',
    'forder_6x7/res_t': '3b75e772ab53214eae61e9a29857dbbb79c06eed',
    'i32_2x3/coords': '943b8cd4ac5f707161ab39c60cd9cb8317b8466f',
    'i32_2x3/nores': 'b306ae5c160beb64609524960f5565ddfe05c623',
    'i32_2x3/res1': 'e93d2e5eb5d12d8bcfeb206104d6ca7147e9e01f',
    'i32_2x3/res_f': '17b608b283e6129a4dc915886f4f5753c488513e',
    'i32_2x3/res_t': 'b5006ea75e1cf5201df54dabac4a20dd226e85fd',
    'i32_3x3/coords': '352bc2b6516357972219b46d31120d93f3e47eb4',
    'i32_3x3/nores': 'a1417c6856012a0f42a89d8ea3a2c1849025810c',
    'i32_3x3/res1': '9e9c8dcd6d4cc9af30c245959caa461e9ceac39c',
    'i32_3x3/res_f': '0ccc8601af5e1c86290b65a534cbf0c1bdb881e6',
    'i32_3x3/res_t': 'ee669c5d5afcbdb966c326dbaa797673cb9476a7',
    'i32_4x5/coords': '9e2d35849c3ac0cdecdbbbcc1d0997d77be5ce25',
    'i32_4x5/nores': '53d728d2b832d37bfd5604ea01449b5608f1cf2c',
    'i32_4x5/res1': 'ec94f4b49601ec57edb751b164666a8378550eb8',
    'i32_4x5/res_f': '961642166197c4ba45e33071891e84df04295212',
    'i32_4x5/res_t': 'c11063821c725f6204d32e7667ceb86466c04b1b',
    'i32_6x6/coords': '6bc283dff33812c7a662d755e0a93b200539d341',
    'i32_6x6/nores': '8e9940c9b70563b7c6f7c80612328188b83fc141',
    'i32_6x6/res1': '06f620a7bee0926dc2de250689da2ad18680e425',
    'i32_6x6/res_f': '73d102199f00c55c0fd4f0d0747fd9a725982d04',
    'i32_6x6/res_t': 'db06528b866687ab81d07a0b2ad4b427daba8d31',
    'i32_7x11/coords': '503701613912708d06639a01d8d6902ac6bb706e',
    'i32_7x11/nores': '31c94f34a3fcd6b149ca7345aa1c33477878163c',
    'i32_7x11/res1': 'd9f82a8114174690ee6a6a179b946322dcae6fae',
    'i32_7x11/res_f': '9c30ab289716add60f8633780ea568c41ecd275f',
    'i32_7x11/res_t': 'af78c810cfe59a6fae63c64ad140464f00af5133',
    'i32_9x4/coords': '6652b3819f221b87b5a4049bef717ae6ab2f8ca5',
    'i32_9x4/nores': '736523985b670b561e0af061299edf77144d6ab2',
    'i32_9x4/res1': 'db1201966715c08ce128c60400ebd5a3b2acd19b',
    'i32_9x4/res_f': '908594afff4b3129da80962301df15f467e6ff68',
    'i32_9x4/res_t': '129b021e582ad8303138610abfa48c5df791a9e5',
    'i64_2x3/coords': '7aecac35ee34777ef8587dcd7169a04ea7440f44',
    'i64_2x3/nores': '2b6e44e9159c9361cb8d867f69e9096917fa7558',
    'i64_2x3/res1': '528258f44eaf5117f7124285c17cb86d10d3d3fc',
    'i64_2x3/res_f': 'ba5eb2cee00a5fc21d32d06b944fa8ef64f7d284',
    'i64_2x3/res_t': '7caa27456bc9cc2967bc23f5dfbda84ae5cf898e',
    'i64_3x3/coords': '79c8958fae2e432a45ce838b71256a2ae56a5dd4',
    'i64_3x3/nores': 'e27fd1b86056a9682d9cfa5c2a2b58c7aaed4219',
    'i64_3x3/res1': 'a6b3c0af0805baabfad34c39766ad2f0b56894f0',
    'i64_3x3/res_f': '5a615f4640adbffc77de1145f3621f799dacd251',
    'i64_3x3/res_t': '0606986d56e6e633cfb47a2542c93ffc913c7d26',
    'i64_4x5/coords': '9dc5ccbabc5f3116f7b6e2923e28be7358c3f440',
    'i64_4x5/nores': '722ab17654921e944819b3e036bf16e885e76ab6',
    'i64_4x5/res1': '3c616a11c6233f06f2cde83039152c240b3c68b2',
    'i64_4x5/res_f': '51547f70ca72abae40690b42e6102cbcad6192f2',
    'i64_4x5/res_t': 'ba0c5f9818de37a458c0da757e1834fdb73b0ce3',
    'i64_6x6/coords': '10b68f913ac6a3a7a23897ec49729be5071336b0',
    'i64_6x6/nores': '04ada420db4c6765338aeff21d1afe492479ad63',
    'i64_6x6/res1': '35f80df606b10e2278dcd590bad9ea6a0a7402fd',
    'i64_6x6/res_f': '9613455896cd976fabc8e5959a5a76348c8f7dd7',
    'i64_6x6/res_t': 'ac7c67758a8877309f14d0d0c43925bbfc9e0360',
    'i64_7x11/coords': 'fc318073214b6619d3f912481bc8d21eb3246207',
    'i64_7x11/nores': '5b9ab59699e34347c5584f4ad2bb4bb00bf98e69',
    'i64_7x11/res1': 'a3708e798b8a95255d279b003ac8206c8cc428a0',
    'i64_7x11/res_f': 'b87816cba65ac486292b2a99cd5e5377d47e93e1',
    'i64_7x11/res_t': 'dd5d32700dc9cfad5c5a0a942c2f80803e386981',
    'i64_9x4/coords': 'a9d4eeed3b63bf37b335f367800ee715742c83b5',
    'i64_9x4/nores': '7bbe0e0f9ea6b3c92e7a19fd3fc4fb4a0c5ef8a1',
    'i64_9x4/res1': '32827eb2aeefb47d2e685f7489f970943a11f61b',
    'i64_9x4/res_f': '46a98a9d94969c8e7c99f885a8a418384cce4ef5',
    'i64_9x4/res_t': 'ab70e69acbc0643e91159ce48fc995a4316f2ea2',
    'inf_6x7/coords': '61b63e0b0da8b4e285a7108c74de68b941a170c3',
    'inf_6x7/nores': '62bb6962d0fdd010296f4d93f53927b36d0192fd',
    'inf_6x7/res1': 'f63dfa746c01a76b4eb024b432dfa187625fe7a9',
    'inf_6x7/res_f': 'f2359fef0348271ff0dc343af442129db234e778',
    'inf_6x7/res_t': '1abda1a8d670864095a7e826b253e3466dde2bac',
    'nan_2x3/coords': 'ff25020a216df95012b847966005f65c80a372c1',
    'nan_2x3/nores': '9ec20037e757eb7b5da1c23868eafcc0bcf27222',
    'nan_2x3/res1': '4fb0c8047ccd9b1ad2f5daaaf679f6cbba3d8435',
    'nan_2x3/res_f': '5ac935e319030d5c74148012381b85dabc05bae4',
    'nan_2x3/res_t': '78dfeb0d7609bec0680b66ab03b8300a46cee9ba',
    'nan_3x3/coords': '5c4754d67924a88e14e4c30876095648c8fdfde6',
    'nan_3x3/nores': '8d02677bd1af40315a27689963d52bd5445d3f89',
    'nan_3x3/res1': 'a21675cffdb6246d87085afaac272105b74525ee',
    'nan_3x3/res_f': '9d5def4ad07623927d00b8dcba04e2ca9b57429f',
    'nan_3x3/res_t': 'd6048eeed7679ba26beaa67f9b81aec1262c4fbb',
    'nan_4x5/coords': '0561877304626aa99d36afa32416fbc4ec93bc50',
    'nan_4x5/nores': '7828b32161007403f9a2524c4fde54edec2eaa02',
    'nan_4x5/res1': '5de02845be042b2aae8074e7d20eaaead6cbda84',
    'nan_4x5/res_f': 'c760e8568383c739bab46126a6e079529de29c2b',
    'nan_4x5/res_t': 'd6c5dd11d4aa3f61e42fedce44774bb2044540a1',
    'nan_6x6/coords': '92200e5449df2f4c5cf09942a2e6f8fb2f3d1d88',
    'nan_6x6/nores': 'c66df4abcd1a8bdf38113348fc4dd3c598efee97',
    'nan_6x6/res1': '8704cda5405156928215ee95ff4d41530c2a0af2',
    'nan_6x6/res_f': 'ac8460d807dccac55e7ddfc1cc21211fcb9c7eeb',
    'nan_6x6/res_t': 'e048497ec258ca98fc0f185cfc9be507fa0944c8',
    'nan_7x11/coords': 'eb6d16cd32c2dfa72baf0669756cbc853cc547e3',
    'nan_7x11/nores': 'eb4a6be36e4e410a799931cac6f65a1ba64aa159',
    'nan_7x11/res1': '583a60fa0b0e326dacaef67abd1168436b3bb80e',
    'nan_7x11/res_f': 'b4312b560661162ad67d5d5c5983648eb4b16a2f',
    'nan_7x11/res_t': 'ef92e38fe85e6c7a76512a01fc9353d1e868ee0d',
    'nan_9x4/coords': '9275d6f92a20c9f763dde844e13fab34be083340',
    'nan_9x4/nores': '05b663db62a5507d1a1826e367a3f35d67b9c923',
    'nan_9x4/res1': '81a3a6bf764fb5af35629a8290f093403468941b',
    'nan_9x4/res_f': 'e55db657486dd39f751c2e52753039c68270cb58',
    'nan_9x4/res_t': 'fbaef128b335bd107d00cba9034e8bce0b7477eb',
    'ramp0/coords': 'df1bdb40b85e7f2e80b6ec31924d80fcb24c12fc',
    'ramp0/nores': 'd27f11c515a55a3a9923ebe066b3d1517168cc66',
    'ramp0/res1': '0b0a0b7f6eca8e0f854f15c6122bbeb3e7fb3bb9',
    'ramp0/res_f': '0dba79b1958684f5fe506e75c20046ed2d830fba',
    'ramp0/res_t': 'a9e6050b8b9dc2df91c2d9c134249036a8e33df5',
    'ramp1/coords': '0b592de4747ad14ea2b7df3fc2deef2f428dd534',
    'ramp1/nores': '9f3f1237c64b03489507bc24eef7f52eb7dca64b',
    'ramp1/res1': 'd77f47be1c259edbc4f96bd892cc7f5fd7509883',
    'ramp1/res_f': 'c4cff5597609eb2d753915537fe3f22382b1efe3',
    'ramp1/res_t': 'c9914fb28be81af5282a27b20ac30740a86ef3bd',
    'ramp2/coords': '6fb35e338b0c8607722d5dc4f206365be10a2049',
    'ramp2/nores': 'c18dadc3e5ea4f73d24808e843b6734c039b5228',
    'ramp2/res1': 'f6a003f7747072faaf16fe2cafc7c9dd2a9a7949',
    'ramp2/res_f': '07c3acf811c4271c18fee96eff686a13e9957032',
    'ramp2/res_t': '2d42122fe494b8da65022871b62c8e1c07836c75',
    'ramp3/coords': '400ab966d5f8f7e6d642ff8d849c6cb96aa21b98',
    'ramp3/nores': 'a3eba12a46754d599fed38bd672ede0aa0122c08',
    'ramp3/res1': '200bbfa28cbcc39451047d30240b8483df446edc',
    'ramp3/res_f': '14a3b259c812a00985cec1390e6cf881095ffe49',
    'ramp3/res_t': '514a0b3cb65e981dea686cfb06aeeff54e54233f',
    'ramp4/coords': '15c8e7764337d2869f77acbdc3dcf3da5c3ef1ad',
    'ramp4/nores': 'c0c9c077bf77b5f49bc25c7f8eee73ce36ddafaf',
    'ramp4/res1': '2c1ac9be63eab1197fea8a90c11b5e4fbc454e71',
    'ramp4/res_f': '5e0b707f795fc70ca3ebdf67a45e0e9fad40658f',
    'ramp4/res_t': '8420cb6e4137da8c87dc963ff7d18e9d82cdfecb',
    'ramp5/coords': '543e848d6821f0c603b4b5f5a3c5f64cee339b6d',
    'ramp5/nores': 'f92682603fbf395bc589bfd033c37c59f6338d15',
    'ramp5/res1': '8cb8a12de040b67e30f3d846d30d9ee65aa27bbe',
    'ramp5/res_f': 'e283178a72244817e0e2ac4bd212fb3b1bd14ae5',
    'ramp5/res_t': '6f710238c1f08414f241c8cb8b79f16011c8887f',
    'ramp6/coords': '828bfdb35d52b12c178513d101e6c1d50cc89b8c',
    'ramp6/nores': '22041c4c0f981180fdbe0837ff0745b0bfdaf473',
    'ramp6/res1': '8973dae1e77c0615dc754f18e8663422074ebb52',
    'ramp6/res_f': '213290fff245306347c62d0b9474dabba58888d7',
    'ramp6/res_t': '73f51db063f7588c2ff5cffcc0dff0f4683900eb',
    'ramp7/coords': '70d27134e42cbc9addd33049cf0c9d2911c92438',
    'ramp7/nores': 'd77d17ac5cb41be559ac77671528304c6527bc25',
    'ramp7/res1': 'e6683ed468febd095a23671ca209cf4aa9efce42',
    'ramp7/res_f': 'c8272b34b9f6a849831c210fca472eaddb404d6d',
    'ramp7/res_t': 'd7982610f124d15436a7365b08205f75fef6737e',
    'ramp8/coords': '94fcf60a4da3891b3cb00ff29acd1a32adef960a',
    'ramp8/nores': 'd119893c7e08b1fccf464e7de79e6540f010581f',
    'ramp8/res1': '95ed9ecc7f4f264ba605370620b446a4111ec713',
    'ramp8/res_f': '1233b959971c158fddffeb0f91f544147b8d1cb1',
    'ramp8/res_t': '0a6f1ccf7a2bcb6e0ebc08639c53dc3d128dc1ba',
    'strided_5x6/coords': 'e11658daf2cebb092b8aa8dbe5a8148f7cd102bb',
    'strided_5x6/nores': '557c2baa7819daac8e7069be95ca9bd4d0f07910',
    'strided_5x6/res1': '21c0302730eeb680f93b671cc9d2d38456d8db5c',
    'strided_5x6/res_f': '97ca76d05dafe897bde5d188e681ed414d0ffd70',
    'strided_5x6/res_t': '0296f09706c419329363a9d6d57f7e0cc72b5560',
    'transp_7x5/coords': '065cd26fb32f095bca80ca66a059cd50824cabdb',
    'transp_7x5/nores': 'eabfde19d719179eaf69a21b5d5c312f429a427d',
    'transp_7x5/res1': 'cba9df077dce2a907f72cf48585d072be98a52ea',
    'transp_7x5/res_f': '5616bf647aa89bbc47a7b84fb744a71b58a1b3c3',
    'transp_7x5/res_t': '58b700d05f966d6318f1e9a66b0a4063fe5159b6',
    'u8_2x3/coords': '23cf08cdea7ef3d28807df9c3cff470c87c0fa1c',
    'u8_2x3/nores': '853c794113dae8160813f82dcee416f24f401204',
    'u8_2x3/res1': '945e8307de38f3af07857540fea918d01fde4eb4',
    'u8_2x3/res_f': '183d921afb74fe6c2c77af3409b3aeedb7929367',
    'u8_2x3/res_t': 'e5796f6860ae6bd538e5002244c638d0c50bb773',
    'u8_3x3/coords': '07f157bb5b2f2a9813b50884752efc6968db4224',
    'u8_3x3/nores': 'eb51f00935a2224f53cf8be6f6933317c26dc20e',
    'u8_3x3/res1': 'a378ef322403e0ba37d8d9b45d2bb27467d216d8',
    'u8_3x3/res_f': '31ac0b7f3fa1bdfa561134fff8d7825294deb966',
    'u8_3x3/res_t': '0f44f4b49a71b78bca95b8bac698504b728e074e',
    'u8_4x5/coords': 'ef1608920ae3ee2a7efcc5ee46f1cbba10c63406',
    'u8_4x5/nores': '49823e5dfb99273ea9287df21a47b2b77614d8cf',
    'u8_4x5/res1': '5d227b6f1e66d0139e6306571c67507ead3db352',
    'u8_4x5/res_f': 'c3e63d23fae5fdbb9a6433ef1142dc738a5cf705',
    'u8_4x5/res_t': 'e6d3c9c38a2f8e13b38e854ed03436531351f4e3',
    'u8_6x6/coords': 'f7602d7fa882604ba9347da1778bcb78f152cf47',
    'u8_6x6/nores': '663fa89e42ce7dd84d1f75de75823bb0cbe86133',
    'u8_6x6/res1': '7badccb4f182ce9834ab01b4507ed5e3e27657c5',
    'u8_6x6/res_f': '7223372cd31476cc2acaf2d12697ac53f48ff61e',
    'u8_6x6/res_t': '3e18a6929eb5846bba546d9e50c6a8b16ee6bf09',
    'u8_7x11/coords': '1b15447cbc7462e38bf17c03bb0c46f5f8abcc62',
    'u8_7x11/nores': '3f85915152ac0cc0a3cdb1f153f9a028aa20bdea',
    'u8_7x11/res1': '3037316355797ea310e561bef887eead55e93ea7',
    'u8_7x11/res_f': 'bc39985cb06367438b462b5051baf716fd58c213',
    'u8_7x11/res_t': '28f54b0b0afc82a6dd18fd29893e106b54605e86',
    'u8_9x4/coords': 'c08161eb847440bb917c91dbeadb9641cca81d24',
    'u8_9x4/nores': '76e479325435288023f0fd71713b88192a336e1d',
    'u8_9x4/res1': '256a5e2cb29a75358b4575176daf42aad595ef87',
    'u8_9x4/res_f': 'ba82a6aaf0a76d406463ed9d92f5bcfa29233d27',
    'u8_9x4/res_t': '234fe1cf934e0b154fd75aeafa5c6fbe9f66fdc1',
}


def canon(a):
    a = np.asarray(a)
    if a.dtype.kind == 'f':
        a = np.where(np.isnan(a), np.array(np.nan, dtype=a.dtype), a)
        a = a + np.zeros((), dtype=a.dtype)  # keeps dtype; -0.0 stays -0.0
    return np.ascontiguousarray(a)


def digest(a):
    a = canon(a)
    h = hashlib.sha1()
    h.update(str(a.dtype).encode())
    h.update(str(a.shape).encode())
    h.update(a.tobytes())
    return h.hexdigest()


def make_rasters():
    rng = np.random.RandomState(8)
    out = {}
    for shape in [(3, 3), (4, 5), (7, 11), (2, 3), (6, 6), (9, 4)]:
        tag = '%dx%d' % shape
        base = rng.uniform(-50, 500, size=shape)
        out['f64_' + tag] = base.astype(np.float64)
        out['f32_' + tag] = base.astype(np.float32)
        out['i32_' + tag] = rng.randint(-20, 20, size=shape).astype(np.int32)
        out['i64_' + tag] = rng.randint(0, 4, size=shape).astype(np.int64)   # many ties
        out['u8_' + tag] = rng.randint(0, 255, size=shape).astype(np.uint8)
        withnan = base.copy()
        withnan[rng.uniform(size=shape) < 0.15] = np.nan
        out['nan_' + tag] = withnan
        out['flat_' + tag] = np.full(shape, 7.25)
    # hand made: ramps in the 8 compass directions (aspect boundary values)
    yy, xx = np.mgrid[0:5, 0:6].astype(np.float64)
    for k, (ay, ax) in enumerate([(1, 0), (-1, 0), (0, 1), (0, -1),
                                  (1, 1), (1, -1), (-1, 1), (-1, -1), (2, -3)]):
        out['ramp%d' % k] = ay * yy + ax * xx
    spec = rng.uniform(0, 10, size=(6, 7))
    spec[1, 1] = np.inf
    spec[4, 5] = -np.inf
    spec[3, 3] = np.nan
    out['inf_6x7'] = spec
    out['big_6x7'] = rng.uniform(-1e6, 1e6, size=(6, 7)).astype(np.float32)
    # non C-contiguous inputs
    out['forder_6x7'] = np.asfortranarray(rng.uniform(0, 100, size=(6, 7)))
    out['forder32_5x4'] = np.asfortranarray(rng.uniform(0, 100, size=(5, 4)).astype(np.float32))
    out['transp_7x5'] = rng.uniform(0, 100, size=(5, 7)).T
    out['strided_5x6'] = rng.uniform(0, 100, size=(10, 12))[::2, ::2]
    return out


def cellsize_variants(data):
    """yield (tag, DataArray) with various ways of giving the cell size."""
    ny, nx = data.shape
    yield 'nores', xr.DataArray(data, dims=['y', 'x'])
    yield 'res1', xr.DataArray(data, dims=['y', 'x'], attrs={'res': 1})
    yield 'res_t', xr.DataArray(data, dims=['y', 'x'], attrs={'res': (10.0, 2.5), 'foo': 'bar'})
    yield 'res_f', xr.DataArray(data, dims=['lat', 'lon'], attrs={'res': 0.5})
    yield 'coords', xr.DataArray(
        data, dims=['y', 'x'],
        coords={'y': np.linspace(30.0, 0.0, ny), 'x': np.linspace(5.0, 5.0 + 0.7 * (nx - 1), nx)},
        name='elev')


def res_of(agg):
    return xrspatial.utils.get_dataarray_resolution(agg)


# ---------------- independent reference (float64, vectorised) -------------

def _nb(d):
    a = d[:-2, :-2]; b = d[:-2, 1:-1]; c = d[:-2, 2:]
    dd = d[1:-1, :-2]; e = d[1:-1, 1:-1]; f = d[1:-1, 2:]
    g = d[2:, :-2]; h = d[2:, 1:-1]; i = d[2:, 2:]
    return a, b, c, dd, e, f, g, h, i


def ref_slope(data, cx, cy):
    d = data.astype(np.float32).astype(np.float64)
    out = np.full(d.shape, np.nan)
    if min(d.shape) < 3:
        return out
    g, h, i, dd, e, f, a, b, c = _nb(d)   # slope kernel: a,b,c is the row y+1
    dzdx = ((c + 2 * f + i) - (a + 2 * dd + g)) / (8 * cx)
    dzdy = ((g + 2 * h + i) - (a + 2 * b + c)) / (8 * cy)
    out[1:-1, 1:-1] = np.degrees(np.arctan(np.sqrt(dzdx * dzdx + dzdy * dzdy)))
    return out


def ref_aspect(data):
    d = data.astype(np.float32).astype(np.float64)
    out = np.full(d.shape, np.nan)
    if min(d.shape) < 3:
        return out
    a, b, c, dd, e, f, g, h, i = _nb(d)
    dzdx = ((c + 2 * f + i) - (a + 2 * dd + g)) / 8
    dzdy = ((g + 2 * h + i) - (a + 2 * b + c)) / 8
    asp = np.degrees(np.arctan2(dzdy, -dzdx))
    res = np.where(asp > 90.0, 450.0 - asp, 90.0 - asp)
    res = np.where((dzdx == 0) & (dzdy == 0), -1.0, res)
    out[1:-1, 1:-1] = res
    return out


def ref_curvature(data, cx, cy):
    d = data.astype(np.float32).astype(np.float64)
    cs = (cx + cy) / 2
    out = np.full(d.shape, np.nan)
    if min(d.shape) < 3:
        return out
    a, b, c, dd, e, f, g, h, i = _nb(d)
    out[1:-1, 1:-1] = -2 * (((h + b) / 2 - e) + ((f + dd) / 2 - e)) * 100 / (cs * cs)
    return out


def ref_hillshade(data, az, alt):
    d = data.astype(np.float32).astype(np.float64)
    out = np.full(d.shape, np.nan)
    if min(d.shape) < 3:
        return out
    gx = (d[2:, 1:-1] - d[:-2, 1:-1]) / 2
    gy = (d[1:-1, 2:] - d[1:-1, :-2]) / 2
    sl = np.pi / 2 - np.arctan(np.hypot(gx, gy))
    asp = np.arctan2(-gx, gy)
    azr = np.radians(360.0 - az)
    altr = np.radians(alt)
    sh = np.sin(altr) * np.sin(sl) + np.cos(altr) * np.cos(sl) * np.cos((azr - np.pi / 2) - asp)
    out[1:-1, 1:-1] = (sh + 1) / 2
    return out


def close(got, ref, what):
    got = np.asarray(got, dtype=np.float64)
    if got.shape != ref.shape:
        return '%s: shape %s != %s' % (what, got.shape, ref.shape)
    m = np.isfinite(ref) & (np.abs(ref) < 1e30)
    if not np.array_equal(np.isnan(got[m]), np.isnan(ref[m])):
        return '%s: NaN pattern differs from reference' % what
    # where the reference is NaN the library must be NaN as well
    if not np.all(np.isnan(got[np.isnan(ref)])):
        return '%s: expected NaN where reference is NaN' % what
    return None


def main():
    record = '--record' in sys.argv
    here = os.path.realpath(os.getcwd())
    assert os.path.realpath(xrspatial.__file__).startswith(here), \
        'xrspatial imported from %s, not from %s' % (xrspatial.__file__, here)

    results = {}
    problems = []

    def note(key, arr):
        arr = np.asarray(arr)
        # values + dtype + shape + memory layout of the returned array
        results[key] = digest(arr) + ('C' if arr.flags['C_CONTIGUOUS'] else '-') + \
            ('F' if arr.flags['F_CONTIGUOUS'] else '-')

    def check_wrapper(key, agg, out, name):
        if out.name != name:
            problems.append('%s: name %r' % (key, out.name))
        if out.dims != agg.dims or dict(out.attrs) != dict(agg.attrs):
            problems.append('%s: dims/attrs not preserved' % key)
        if set(out.coords) != set(agg.coords):
            problems.append('%s: coords not preserved' % key)
        for cname in agg.coords:
            if not np.array_equal(out.coords[cname].values, agg.coords[cname].values):
                problems.append('%s: coord %s changed' % (key, cname))

    angles = [(225, 25), (0, 0), (90, 45), (360, 90), (315.5, 12.25), (-30, 60), (720, 100)]
    rasters = make_rasters()
    for rname, data in sorted(rasters.items()):
        for ctag, agg in cellsize_variants(data):
            key = '%s/%s' % (rname, ctag)
            cx, cy = res_of(agg)

            s = slope(agg)
            check_wrapper(key + '/slope', agg, s, 'slope')
            note(key + '/slope', s.values)
            p = close(s.values, ref_slope(data, cx, cy), key + '/slope')
            if p:
                problems.append(p)
            fin = s.values[np.isfinite(s.values)]
            if fin.size and (fin.min() < 0 or fin.max() > 90):
                problems.append(key + '/slope: out of [0, 90]')

            c = curvature(agg)
            check_wrapper(key + '/curv', agg, c, 'curvature')
            note(key + '/curv', c.values)
            p = close(c.values, ref_curvature(data, cx, cy), key + '/curv')
            if p:
                problems.append(p)

            if ctag in ('nores', 'res_t', 'coords'):
                a = aspect(agg, name='asp')
                check_wrapper(key + '/aspect', agg, a, 'asp')
                note(key + '/aspect', a.values)
                ref = ref_aspect(data)
                p = close(a.values, ref, key + '/aspect')
                if p:
                    problems.append(p)
                m = np.isfinite(ref) & np.isfinite(a.values)
                diff = np.abs(a.values[m].astype(np.float64) - ref[m])
                diff = np.minimum(diff, 360 - diff)
                if diff.size and diff.max() > 1e-2:
                    problems.append(key + '/aspect: differs from reference by %g' % diff.max())
                for k, (az, alt) in enumerate(angles):
                    if data.shape[0] < 2 or data.shape[1] < 2:
                        continue
                    if ctag != 'nores' and k > 1:
                        continue
                    h = hillshade(agg, azimuth=az, angle_altitude=alt)
                    check_wrapper(key + '/hs%d' % k, agg, h, 'hillshade')
                    note(key + '/hs%d' % k, h.values)
                    ref = ref_hillshade(data, az, alt)
                    p = close(h.values, ref, key + '/hs%d' % k)
                    if p:
                        problems.append(p)
                    m = np.isfinite(ref) & np.isfinite(h.values)
                    if m.any() and np.abs(h.values[m] - ref[m]).max() > 1e-4:
                        problems.append(key + '/hs%d: differs from reference' % k)

            # tolerance comparison for slope / curvature
            for nm, got, ref in (('slope', s.values, ref_slope(data, cx, cy)),
                                 ('curv', c.values, ref_curvature(data, cx, cy))):
                m = np.isfinite(ref) & np.isfinite(got)
                if m.any():
                    err = np.abs(got[m].astype(np.float64) - ref[m])
                    tol = 1e-3 + 1e-4 * np.abs(ref[m])
                    if (err > tol).any():
                        problems.append('%s/%s: differs from reference by %g' % (key, nm, err.max()))

    # ---------------- dask vs numpy --------------------------------------
    dask_cases = [('f64_7x11', (3, 4)), ('nan_7x11', (3, 4)), ('i32_7x11', (7, 11)),
                  ('f32_6x6', (3, 3)), ('nan_6x6', (2, 5)), ('u8_9x4', (4, 2)),
                  ('inf_6x7', (3, 7)), ('i64_4x5', (2, 2)), ('flat_9x4', (5, 3)),
                  ('ramp8', (2, 3)), ('f64_3x3', (3, 3))]
    for rname, chunks in dask_cases:
        data = rasters[rname]
        for ctag, agg in cellsize_variants(data):
            if ctag in ('res1', 'res_f'):
                continue
            dagg = agg.copy()
            dagg.data = da.from_array(data, chunks=chunks)
            key = 'dask/%s/%s/%s' % (rname, ctag, 'x'.join(map(str, chunks)))
            calls = [('slope', lambda g: slope(g)),
                     ('curv', lambda g: curvature(g)),
                     ('aspect', lambda g: aspect(g)),
                     ('hs', lambda g: hillshade(g)),
                     ('hs2', lambda g: hillshade(g, 100.5, angle_altitude=33))]
            for fname, fn in calls:
                lazy = fn(dagg)
                if not isinstance(lazy.data, da.Array):
                    problems.append('%s/%s: result is not a dask array' % (key, fname))
                    continue
                results[key + '/' + fname + '/meta'] = hashlib.sha1(
                    repr((str(lazy.data.dtype), lazy.data.chunks, lazy.shape,
                          type(lazy.data._meta).__name__)).encode()).hexdigest()
                got = lazy.compute().values
                note(key + '/' + fname, got)
                ref = fn(agg).values
                # slope / aspect / curvature: dask must be bit-identical to numpy.
                # (hillshade differs on chunk-interior borders only through np.gradient
                #  one-sided differences, which the overlap trims - so identical too.)
                if digest(got) != digest(ref):
                    problems.append('%s/%s: dask != numpy' % (key, fname))

    # aggregate per (raster, cell size variant) to keep the recorded table small;
    # the individual failing function is still reported through `detail`.
    detail = results
    grouped = {}
    for k in sorted(detail):
        grp = k.rsplit('/', 2)[0] if k.endswith('/meta') else k.rsplit('/', 1)[0]
        grouped.setdefault(grp, hashlib.sha1()).update((k + '=' + detail[k] + ';').encode())
    results = dict((g, h.hexdigest()) for g, h in grouped.items())

    if record:
        for k in sorted(results):
            print("    %r: %r," % (k, results[k]))
        print('# %d digests, %d problems' % (len(results), len(problems)), file=sys.stderr)
        for p in problems:
            print('# PROBLEM', p, file=sys.stderr)
        return 0

    if set(results) != set(EXPECTED):
        problems.append('case set differs: %s' % sorted(set(results) ^ set(EXPECTED))[:5])
    for k in sorted(results):
        if k in EXPECTED and EXPECTED[k] != results[k]:
            problems.append('%s: digest %s != recorded %s' % (k, results[k], EXPECTED[k]))

    if problems:
        for p in problems[:40]:
            print('FAIL', p)
        print('%d problem(s)' % len(problems))
        return 1
    print('OK: %d cases identical to the recorded reference' % len(results))
    return 0


if __name__ == '__main__':
    sys.exit(main())
