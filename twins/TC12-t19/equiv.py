import hashlib
import sys
import warnings

import dask.array as da
import numpy as np
import xarray as xr

import xrspatial
from xrspatial import classify as C

WORKTREE = '/tmp/t5/TC12'
assert xrspatial.__file__.startswith(WORKTREE), xrspatial.__file__


def digest(res):
    """dtype/shape/bytes fingerprint of a DataArray or ndarray result."""
    arr = res.data if isinstance(res, xr.DataArray) else res
    if isinstance(arr, da.Array):
        arr = arr.compute()
    arr = np.ascontiguousarray(arr)
    h = hashlib.sha256()
    h.update(str(arr.dtype).encode())
    h.update(str(arr.shape).encode())
    h.update(arr.tobytes())
    return h.hexdigest()[:20]


def rasters():
    """name -> 2-D ndarray; deterministic, several dtypes/shapes, NaN/inf/ties."""
    rng = np.random.RandomState(20240612)
    out = {}
    a = rng.uniform(-50, 200, size=(7, 9))
    out['f64_rand_7x9'] = a.copy()
    b = a.copy()
    b[0, 0] = np.nan
    b[3, 4] = np.inf
    b[6, 8] = -np.inf
    b[2, 2] = np.nan
    out['f64_naninf_7x9'] = b
    out['f32_naninf_7x9'] = b.astype(np.float32)
    out['i32_5x6'] = rng.randint(-20, 40, size=(5, 6)).astype(np.int32)
    out['i64_ties_4x11'] = rng.randint(0, 4, size=(4, 11)).astype(np.int64)
    t = np.round(rng.uniform(0, 5, size=(6, 6)))  # many ties
    t[1, 1] = np.nan
    out['f64_ties_6x6'] = t
    out['f64_1x13'] = np.sort(rng.normal(size=(1, 13)) * 1e3)
    out['f64_13x1'] = (rng.normal(size=(13, 1)) * 1e-3)
    # values not representable in float32
    big = 16777216.0 + np.arange(30, dtype=np.float64).reshape(5, 6)
    big[4, 5] = np.nan
    out['f64_nonf32_5x6'] = big
    out['f64_tiny_steps_3x5'] = 1.0 + np.arange(15, dtype=np.float64).reshape(3, 5) * 2.0 ** -40
    doc = np.arange(25, dtype=np.float64).reshape(5, 5)
    doc[0, 0] = np.nan
    doc[4, 4] = np.inf
    out['f64_doc_5x5'] = doc
    out['f32_doc_5x5'] = doc.astype(np.float32)
    c = rng.gamma(2.0, 30.0, size=(17, 23))
    c[rng.uniform(size=c.shape) < 0.1] = np.nan
    out['f64_gamma_17x23'] = c
    out['f32_gamma_17x23'] = c.astype(np.float32)
    out['f64_const_3x3'] = np.full((3, 3), 4.25)
    two = np.array([[1.0, 2.0, 1.0], [2.0, np.nan, 1.0]])
    out['f64_two_values_2x3'] = two
    return out


def chunkings(shape):
    r, c = shape
    return [(max(1, r // 2), max(1, c // 2)), (r, c), (1, c), (max(1, r - 1), 2)]


def call(fn, *args, **kwargs):
    """Run fn, capturing warnings and stdout noise; exceptions become part of the result."""
    import contextlib
    import io
    buf = io.StringIO()
    with warnings.catch_warnings(record=True) as w:
        warnings.simplefilter('always')
        with contextlib.redirect_stdout(buf):
            try:
                res = digest(fn(*args, **kwargs))
            except Exception as e:  # recorded, must match too
                res = 'EXC:' + type(e).__name__ + ':' + str(e)[:60]
    msgs = sorted(str(x.message)[:80] for x in w if x.category is Warning or 'natural_breaks' in str(x.message))
    return res + '|' + hashlib.sha256(('#'.join(msgs) + '@' + buf.getvalue()).encode()).hexdigest()[:8]


def run(collect, expected):
    got = collect()
    if '--record' in sys.argv:
        print('EXPECTED = {')
        for k in sorted(got):
            print('    %r: %r,' % (k, got[k]))
        print('}')
        return 0
    bad = 0
    for k in sorted(set(got) | set(expected)):
        if got.get(k) != expected.get(k):
            bad += 1
            print('MISMATCH', k, got.get(k), expected.get(k))
    print('%d cases, %d mismatches' % (len(got), bad))
    return 1 if bad else 0


def collect():
    got = {}
    for name, arr in rasters().items():
        for k in (2, 3, 5, 8):
            for ns in (20000, None, 10, 37):
                agg = xr.DataArray(arr.copy(), dims=['y', 'x'], attrs={'res': (1, 1)})
                got['nb|%s|k%d|ns%s' % (name, k, ns)] = call(
                    C.natural_breaks, agg, num_sample=ns, k=k)
        # input must not be modified
        agg = xr.DataArray(arr.copy())
        before = digest(agg)
        call(C.natural_breaks, agg, k=3)
        got['nb_input_untouched|%s' % name] = str(before == digest(agg))
    # the fitting kernels directly (private, same names in both trees)
    rng = np.random.RandomState(7)
    for n in (2, 3, 10, 57, 200):
        for dt in (np.float64, np.float32, np.int64):
            base = np.sort((rng.uniform(-1e3, 1e3, size=n)).astype(dt))
            for k in (2, 3, 6):
                if k > n:
                    continue
                lcl, vc = C._run_numpy_jenks_matrices(base.copy(), k)
                got['jm|%d|%s|%d' % (n, np.dtype(dt).name, k)] = digest(lcl) + digest(vc)
                got['jk|%d|%s|%d' % (n, np.dtype(dt).name, k)] = digest(
                    C._run_jenks(base[::-1].copy(), k))
    # independent check: natural_breaks partition attains minimum SSD (float32 data, brute force)
    import itertools
    vals = np.array([1, 2, 3, 10, 11, 12, 30, 31, 50], dtype=np.float64)
    agg = xr.DataArray(vals.reshape(3, 3))
    for k in (2, 3, 4):
        res = C.natural_breaks(agg, k=k).data.ravel()

        def ssd(labels):
            return sum(((vals[labels == c] - vals[labels == c].mean()) ** 2).sum()
                       for c in np.unique(labels))
        best = min(
            ssd(np.searchsorted(np.array(cut), np.arange(len(vals)), side='right'))
            for cut in itertools.combinations(range(1, len(vals)), k - 1))
        got['nb_opt|k%d' % k] = str(bool(abs(ssd(res) - best) < 1e-9))
    return got


EXPECTED = {
    'jk|10|float32|2': 'db7cdeaf75801235544d',
    'jk|10|float32|3': 'ab5df5ea9d8007cafecd',
    'jk|10|float32|6': 'a97c3f63b4bee02f9313',
    'jk|10|float64|2': '18d1a294cd979fd256b1',
    'jk|10|float64|3': '8ba95c2d4a67c881dbad',
    'jk|10|float64|6': '30d31d262b02d023c124',
    'jk|10|int64|2': 'c228530f9cf61ab2e45d',
    'jk|10|int64|3': '1aa74b8d09bb2f920371',
    'jk|10|int64|6': '1b71fd454f93bbdde397',
    'jk|200|float32|2': '8f902aca97502e5108a9',
    'jk|200|float32|3': 'c0338c415151eaaa1263',
    'jk|200|float32|6': 'f7fefa4553e8ccc537ed',
    'jk|200|float64|2': 'f97a5c2e59b3833d2a10',
    'jk|200|float64|3': '34bedc5ac54a6e0e663a',
    'jk|200|float64|6': 'a1638dad98ff08d44636',
    'jk|200|int64|2': '41d3ab996fe12dd4a0a7',
    'jk|200|int64|3': '7911504c729c4a9f9b17',
    'jk|200|int64|6': 'ffde6a59d677603a16cf',
    'jk|2|float32|2': 'fe00a8eb41b5d783e806',
    'jk|2|float64|2': '7be36290e761b2e5aedb',
    'jk|2|int64|2': 'ba3e5a34ec0529775c2a',
    'jk|3|float32|2': '3abef9a4def0fa661b95',
    'jk|3|float32|3': 'ad63e9fff7ea05edce91',
    'jk|3|float64|2': 'bb9319be7e48cc496373',
    'jk|3|float64|3': '1d081333f1fa93e20286',
    'jk|3|int64|2': '1193f61dee6dab66b568',
    'jk|3|int64|3': '8fa63ac8bc39910fddc4',
    'jk|57|float32|2': '718e2e4ffd5e07694dd7',
    'jk|57|float32|3': '1d1b2a6a2e72cab2faf7',
    'jk|57|float32|6': 'd185d51a8f15a847011a',
    'jk|57|float64|2': '1c76c36f4c1111360828',
    'jk|57|float64|3': '0a9584b7a9968d15e3e5',
    'jk|57|float64|6': '863c64ae7d8f5c04cf99',
    'jk|57|int64|2': 'deac0b5691297ddf86d3',
    'jk|57|int64|3': 'ce667c76f82ece5207db',
    'jk|57|int64|6': 'feff7f5cb30da6513e6b',
    'jm|10|float32|2': '06eae735f93a12a62b1f299db31229562d1b7ee3',
    'jm|10|float32|3': '7b8866b020617b44f34c3ac4062b36d10a89bf25',
    'jm|10|float32|6': '20059ec5cb426c7e793a89bea7e87ce5bcee5aea',
    'jm|10|float64|2': '7ff32a7214d2823fbe690284a35514464fde569d',
    'jm|10|float64|3': '5a5db9fd0a8ad7d4a1cc6cd9835cfb8ae1c6362e',
    'jm|10|float64|6': 'cd5aeff36dbc78c8bb8b19a3301ec3b7ae8eab89',
    'jm|10|int64|2': '2e77ac7e3286dd2b027ed2a28cdc38f584ad1d4e',
    'jm|10|int64|3': '1e2e1eec449f30d7e693d04ed616d4243dc4b28f',
    'jm|10|int64|6': '15b587880998ae2ac6f43ee1e3f0923062fb90d4',
    'jm|200|float32|2': '0a7623f91587d0838f155540af70ac2a782e8e2c',
    'jm|200|float32|3': 'f4f4aa03f1d815a2d021719240e79c845fac5c50',
    'jm|200|float32|6': '501ffeb6ed55b5b164f05b06fe89daa78512e248',
    'jm|200|float64|2': '9e43826b1ec50c42531c61d9cd133872f516a45f',
    'jm|200|float64|3': '16cd65a60fad68866a4b3e26b72634634bc363ad',
    'jm|200|float64|6': '69c8de30b604b4f8def0d1218b28c80d9cb0512f',
    'jm|200|int64|2': 'aa6a8fc8e2368b844b850068e3faac98284c2978',
    'jm|200|int64|3': '28a1e7d04bdb2b5018fc5d41b44ceeb1c834a942',
    'jm|200|int64|6': '21bee9cf8d888e5e88906411d99acb505bc51461',
    'jm|2|float32|2': 'f10a68e88c4dd46efdbed83082b9487585a95791',
    'jm|2|float64|2': 'f10a68e88c4dd46efdbea4a4bc35c9f6745351ce',
    'jm|2|int64|2': 'f10a68e88c4dd46efdbe76219028c0fa2828b81c',
    'jm|3|float32|2': '97bd742b160658824509c8be0314505e3b521c55',
    'jm|3|float32|3': '977f5ba10a079b946824c388dbafecdb90016162',
    'jm|3|float64|2': '31e5f0788ae95a67f0eef1132b7fb605aecf7f06',
    'jm|3|float64|3': '59e733bbe7ad6b64347fccc6caca5a6cfe5b3ca7',
    'jm|3|int64|2': '97bd742b16065882450952e3b0a5c968ac0404c0',
    'jm|3|int64|3': '977f5ba10a079b94682450772ed91be0fc275966',
    'jm|57|float32|2': '65b35d6bfcae8b46534e9aca4e26724607a76dca',
    'jm|57|float32|3': 'fea261640e1a3ee6587c55ca4db7782d6a258362',
    'jm|57|float32|6': '01d10226085264832b15be160ba965b9f50ab07a',
    'jm|57|float64|2': '48e8fedfee8a8b9a3204a59ef71e5c6b1a362a68',
    'jm|57|float64|3': '6a22381bec60eacd8202338c2a12e40da64d44f7',
    'jm|57|float64|6': '1bf68adbc5ed419aa215dc1f2c26f2656b09970b',
    'jm|57|int64|2': 'f5e10526c84fae8da3893b2a8e027ef828004afa',
    'jm|57|int64|3': '475fcc6015d2a6f749018256c88b3be5d32e6fed',
    'jm|57|int64|6': '25844b2da9e465649f0dfba032e70b97f21720b2',
    'nb_input_untouched|f32_doc_5x5': 'True',
    'nb_input_untouched|f32_gamma_17x23': 'True',
    'nb_input_untouched|f32_naninf_7x9': 'True',
    'nb_input_untouched|f64_13x1': 'True',
    'nb_input_untouched|f64_1x13': 'True',
    'nb_input_untouched|f64_const_3x3': 'True',
    'nb_input_untouched|f64_doc_5x5': 'True',
    'nb_input_untouched|f64_gamma_17x23': 'True',
    'nb_input_untouched|f64_naninf_7x9': 'True',
    'nb_input_untouched|f64_nonf32_5x6': 'True',
    'nb_input_untouched|f64_rand_7x9': 'True',
    'nb_input_untouched|f64_ties_6x6': 'True',
    'nb_input_untouched|f64_tiny_steps_3x5': 'True',
    'nb_input_untouched|f64_two_values_2x3': 'True',
    'nb_input_untouched|i32_5x6': 'True',
    'nb_input_untouched|i64_ties_4x11': 'True',
    'nb_opt|k2': 'True',
    'nb_opt|k3': 'True',
    'nb_opt|k4': 'True',
    'nb|f32_doc_5x5|k2|ns10': '31ed6b07420fa3a361e7|c3641f85',
    'nb|f32_doc_5x5|k2|ns20000': 'ee322f0f9be5ddc78e1a|c3641f85',
    'nb|f32_doc_5x5|k2|ns37': 'ee322f0f9be5ddc78e1a|c3641f85',
    'nb|f32_doc_5x5|k2|nsNone': 'ee322f0f9be5ddc78e1a|c3641f85',
    'nb|f32_doc_5x5|k3|ns10': 'd6e032add3dcfaaa8b3c|c3641f85',
    'nb|f32_doc_5x5|k3|ns20000': '3c18f3dec226fa2f0e80|c3641f85',
    'nb|f32_doc_5x5|k3|ns37': '3c18f3dec226fa2f0e80|c3641f85',
    'nb|f32_doc_5x5|k3|nsNone': '3c18f3dec226fa2f0e80|c3641f85',
    'nb|f32_doc_5x5|k5|ns10': '5d3beb48468f4c732627|c3641f85',
    'nb|f32_doc_5x5|k5|ns20000': 'e883abb4bb2bbb5a825c|c3641f85',
    'nb|f32_doc_5x5|k5|ns37': 'e883abb4bb2bbb5a825c|c3641f85',
    'nb|f32_doc_5x5|k5|nsNone': 'e883abb4bb2bbb5a825c|c3641f85',
    'nb|f32_doc_5x5|k8|ns10': 'd590791f0a00500bd660|c3641f85',
    'nb|f32_doc_5x5|k8|ns20000': '906eea0c1932d7f9818f|c3641f85',
    'nb|f32_doc_5x5|k8|ns37': '906eea0c1932d7f9818f|c3641f85',
    'nb|f32_doc_5x5|k8|nsNone': '906eea0c1932d7f9818f|c3641f85',
    'nb|f32_gamma_17x23|k2|ns10': 'b2ffceebc467c4a98bf6|c3641f85',
    'nb|f32_gamma_17x23|k2|ns20000': 'f081275dbb7fe35fc627|c3641f85',
    'nb|f32_gamma_17x23|k2|ns37': 'ba55968652f46fa4489f|c3641f85',
    'nb|f32_gamma_17x23|k2|nsNone': 'f081275dbb7fe35fc627|c3641f85',
    'nb|f32_gamma_17x23|k3|ns10': '387e1a9d8d91cc6c6f50|c3641f85',
    'nb|f32_gamma_17x23|k3|ns20000': 'cf85d9b0d51412abefa7|c3641f85',
    'nb|f32_gamma_17x23|k3|ns37': 'a888255b639579fbad7d|c3641f85',
    'nb|f32_gamma_17x23|k3|nsNone': 'cf85d9b0d51412abefa7|c3641f85',
    'nb|f32_gamma_17x23|k5|ns10': '84055738840c7ac488c6|c3641f85',
    'nb|f32_gamma_17x23|k5|ns20000': 'f94eb732ea37366642dc|c3641f85',
    'nb|f32_gamma_17x23|k5|ns37': 'f068eaa3bf981f126907|c3641f85',
    'nb|f32_gamma_17x23|k5|nsNone': 'f94eb732ea37366642dc|c3641f85',
    'nb|f32_gamma_17x23|k8|ns10': '97c74b1123fb220efbcc|c3641f85',
    'nb|f32_gamma_17x23|k8|ns20000': '358f488e7b2cdafc5e9c|c3641f85',
    'nb|f32_gamma_17x23|k8|ns37': '9ac6fd8892887f9ef3ae|c3641f85',
    'nb|f32_gamma_17x23|k8|nsNone': '358f488e7b2cdafc5e9c|c3641f85',
    'nb|f32_naninf_7x9|k2|ns10': 'deb984e11d1ee99d7f54|c3641f85',
    'nb|f32_naninf_7x9|k2|ns20000': '7faac1dc2ac5bfd10d64|c3641f85',
    'nb|f32_naninf_7x9|k2|ns37': 'deb984e11d1ee99d7f54|c3641f85',
    'nb|f32_naninf_7x9|k2|nsNone': '7faac1dc2ac5bfd10d64|c3641f85',
    'nb|f32_naninf_7x9|k3|ns10': '54f293ba1f6b32292553|c3641f85',
    'nb|f32_naninf_7x9|k3|ns20000': 'f16ee4d36d4aeb63d77e|c3641f85',
    'nb|f32_naninf_7x9|k3|ns37': '6a13a45fc1c70de399b9|c3641f85',
    'nb|f32_naninf_7x9|k3|nsNone': 'f16ee4d36d4aeb63d77e|c3641f85',
    'nb|f32_naninf_7x9|k5|ns10': '6eb9cfbb20aafbc1e8cd|c3641f85',
    'nb|f32_naninf_7x9|k5|ns20000': '9d279ce9f552ad4063b5|c3641f85',
    'nb|f32_naninf_7x9|k5|ns37': '548f039bb8134320b4c1|c3641f85',
    'nb|f32_naninf_7x9|k5|nsNone': '9d279ce9f552ad4063b5|c3641f85',
    'nb|f32_naninf_7x9|k8|ns10': '8a817ec9600e61026239|c3641f85',
    'nb|f32_naninf_7x9|k8|ns20000': '1d0cf9ddac56d1ed82b0|c3641f85',
    'nb|f32_naninf_7x9|k8|ns37': '992e0ced30801d684baf|c3641f85',
    'nb|f32_naninf_7x9|k8|nsNone': '1d0cf9ddac56d1ed82b0|c3641f85',
    'nb|f64_13x1|k2|ns10': '71ae03d1580c91a37b9e|c3641f85',
    'nb|f64_13x1|k2|ns20000': '71ae03d1580c91a37b9e|c3641f85',
    'nb|f64_13x1|k2|ns37': '71ae03d1580c91a37b9e|c3641f85',
    'nb|f64_13x1|k2|nsNone': '71ae03d1580c91a37b9e|c3641f85',
    'nb|f64_13x1|k3|ns10': '18c3eb2459be3d8e77c1|c3641f85',
    'nb|f64_13x1|k3|ns20000': '18c3eb2459be3d8e77c1|c3641f85',
    'nb|f64_13x1|k3|ns37': '18c3eb2459be3d8e77c1|c3641f85',
    'nb|f64_13x1|k3|nsNone': '18c3eb2459be3d8e77c1|c3641f85',
    'nb|f64_13x1|k5|ns10': '2fa89b547ee9b33a1361|c3641f85',
    'nb|f64_13x1|k5|ns20000': 'ee8fb8dfb80e11769aa5|c3641f85',
    'nb|f64_13x1|k5|ns37': 'ee8fb8dfb80e11769aa5|c3641f85',
    'nb|f64_13x1|k5|nsNone': 'ee8fb8dfb80e11769aa5|c3641f85',
    'nb|f64_13x1|k8|ns10': 'b821e4d5038360225592|c3641f85',
    'nb|f64_13x1|k8|ns20000': '31ee0959f8655daaa652|c3641f85',
    'nb|f64_13x1|k8|ns37': '31ee0959f8655daaa652|c3641f85',
    'nb|f64_13x1|k8|nsNone': '31ee0959f8655daaa652|c3641f85',
    'nb|f64_1x13|k2|ns10': 'c7a5dcefc8095c0bea4c|c3641f85',
    'nb|f64_1x13|k2|ns20000': 'd0eb7d73703700ee8d15|c3641f85',
    'nb|f64_1x13|k2|ns37': 'd0eb7d73703700ee8d15|c3641f85',
    'nb|f64_1x13|k2|nsNone': 'd0eb7d73703700ee8d15|c3641f85',
    'nb|f64_1x13|k3|ns10': 'a884e7a563a1506c7f5d|c3641f85',
    'nb|f64_1x13|k3|ns20000': '82eba4652651ef87aa95|c3641f85',
    'nb|f64_1x13|k3|ns37': '82eba4652651ef87aa95|c3641f85',
    'nb|f64_1x13|k3|nsNone': '82eba4652651ef87aa95|c3641f85',
    'nb|f64_1x13|k5|ns10': '23eca7b56a00949aeff8|c3641f85',
    'nb|f64_1x13|k5|ns20000': '0d08ff29bfd096cbede8|c3641f85',
    'nb|f64_1x13|k5|ns37': '0d08ff29bfd096cbede8|c3641f85',
    'nb|f64_1x13|k5|nsNone': '0d08ff29bfd096cbede8|c3641f85',
    'nb|f64_1x13|k8|ns10': '4b77b16f262c409153ba|c3641f85',
    'nb|f64_1x13|k8|ns20000': '0272cdf4456d6543a7b2|c3641f85',
    'nb|f64_1x13|k8|ns37': '0272cdf4456d6543a7b2|c3641f85',
    'nb|f64_1x13|k8|nsNone': '0272cdf4456d6543a7b2|c3641f85',
    'nb|f64_const_3x3|k2|ns10': 'bef01b04eb416f9453f0|1a7fc66e',
    'nb|f64_const_3x3|k2|ns20000': 'bef01b04eb416f9453f0|1a7fc66e',
    'nb|f64_const_3x3|k2|ns37': 'bef01b04eb416f9453f0|1a7fc66e',
    'nb|f64_const_3x3|k2|nsNone': 'bef01b04eb416f9453f0|1a7fc66e',
    'nb|f64_const_3x3|k3|ns10': 'bef01b04eb416f9453f0|47bc57c7',
    'nb|f64_const_3x3|k3|ns20000': 'bef01b04eb416f9453f0|47bc57c7',
    'nb|f64_const_3x3|k3|ns37': 'bef01b04eb416f9453f0|47bc57c7',
    'nb|f64_const_3x3|k3|nsNone': 'bef01b04eb416f9453f0|47bc57c7',
    'nb|f64_const_3x3|k5|ns10': 'bef01b04eb416f9453f0|5466d6b3',
    'nb|f64_const_3x3|k5|ns20000': 'bef01b04eb416f9453f0|5466d6b3',
    'nb|f64_const_3x3|k5|ns37': 'bef01b04eb416f9453f0|5466d6b3',
    'nb|f64_const_3x3|k5|nsNone': 'bef01b04eb416f9453f0|5466d6b3',
    'nb|f64_const_3x3|k8|ns10': 'bef01b04eb416f9453f0|3358f1c1',
    'nb|f64_const_3x3|k8|ns20000': 'bef01b04eb416f9453f0|3358f1c1',
    'nb|f64_const_3x3|k8|ns37': 'bef01b04eb416f9453f0|3358f1c1',
    'nb|f64_const_3x3|k8|nsNone': 'bef01b04eb416f9453f0|3358f1c1',
    'nb|f64_doc_5x5|k2|ns10': '31ed6b07420fa3a361e7|c3641f85',
    'nb|f64_doc_5x5|k2|ns20000': 'ee322f0f9be5ddc78e1a|c3641f85',
    'nb|f64_doc_5x5|k2|ns37': 'ee322f0f9be5ddc78e1a|c3641f85',
    'nb|f64_doc_5x5|k2|nsNone': 'ee322f0f9be5ddc78e1a|c3641f85',
    'nb|f64_doc_5x5|k3|ns10': 'd6e032add3dcfaaa8b3c|c3641f85',
    'nb|f64_doc_5x5|k3|ns20000': '3c18f3dec226fa2f0e80|c3641f85',
    'nb|f64_doc_5x5|k3|ns37': '3c18f3dec226fa2f0e80|c3641f85',
    'nb|f64_doc_5x5|k3|nsNone': '3c18f3dec226fa2f0e80|c3641f85',
    'nb|f64_doc_5x5|k5|ns10': '5d3beb48468f4c732627|c3641f85',
    'nb|f64_doc_5x5|k5|ns20000': 'e883abb4bb2bbb5a825c|c3641f85',
    'nb|f64_doc_5x5|k5|ns37': 'e883abb4bb2bbb5a825c|c3641f85',
    'nb|f64_doc_5x5|k5|nsNone': 'e883abb4bb2bbb5a825c|c3641f85',
    'nb|f64_doc_5x5|k8|ns10': 'd590791f0a00500bd660|c3641f85',
    'nb|f64_doc_5x5|k8|ns20000': '906eea0c1932d7f9818f|c3641f85',
    'nb|f64_doc_5x5|k8|ns37': '906eea0c1932d7f9818f|c3641f85',
    'nb|f64_doc_5x5|k8|nsNone': '906eea0c1932d7f9818f|c3641f85',
    'nb|f64_gamma_17x23|k2|ns10': 'b2ffceebc467c4a98bf6|c3641f85',
    'nb|f64_gamma_17x23|k2|ns20000': 'f081275dbb7fe35fc627|c3641f85',
    'nb|f64_gamma_17x23|k2|ns37': 'ba55968652f46fa4489f|c3641f85',
    'nb|f64_gamma_17x23|k2|nsNone': 'f081275dbb7fe35fc627|c3641f85',
    'nb|f64_gamma_17x23|k3|ns10': '387e1a9d8d91cc6c6f50|c3641f85',
    'nb|f64_gamma_17x23|k3|ns20000': 'cf85d9b0d51412abefa7|c3641f85',
    'nb|f64_gamma_17x23|k3|ns37': 'a888255b639579fbad7d|c3641f85',
    'nb|f64_gamma_17x23|k3|nsNone': 'cf85d9b0d51412abefa7|c3641f85',
    'nb|f64_gamma_17x23|k5|ns10': '84055738840c7ac488c6|c3641f85',
    'nb|f64_gamma_17x23|k5|ns20000': 'f94eb732ea37366642dc|c3641f85',
    'nb|f64_gamma_17x23|k5|ns37': 'f068eaa3bf981f126907|c3641f85',
    'nb|f64_gamma_17x23|k5|nsNone': 'f94eb732ea37366642dc|c3641f85',
    'nb|f64_gamma_17x23|k8|ns10': '97c74b1123fb220efbcc|c3641f85',
    'nb|f64_gamma_17x23|k8|ns20000': '358f488e7b2cdafc5e9c|c3641f85',
    'nb|f64_gamma_17x23|k8|ns37': '9ac6fd8892887f9ef3ae|c3641f85',
    'nb|f64_gamma_17x23|k8|nsNone': '358f488e7b2cdafc5e9c|c3641f85',
    'nb|f64_naninf_7x9|k2|ns10': 'deb984e11d1ee99d7f54|c3641f85',
    'nb|f64_naninf_7x9|k2|ns20000': '7faac1dc2ac5bfd10d64|c3641f85',
    'nb|f64_naninf_7x9|k2|ns37': 'deb984e11d1ee99d7f54|c3641f85',
    'nb|f64_naninf_7x9|k2|nsNone': '7faac1dc2ac5bfd10d64|c3641f85',
    'nb|f64_naninf_7x9|k3|ns10': '54f293ba1f6b32292553|c3641f85',
    'nb|f64_naninf_7x9|k3|ns20000': 'f16ee4d36d4aeb63d77e|c3641f85',
    'nb|f64_naninf_7x9|k3|ns37': '6a13a45fc1c70de399b9|c3641f85',
    'nb|f64_naninf_7x9|k3|nsNone': 'f16ee4d36d4aeb63d77e|c3641f85',
    'nb|f64_naninf_7x9|k5|ns10': '6eb9cfbb20aafbc1e8cd|c3641f85',
    'nb|f64_naninf_7x9|k5|ns20000': '9d279ce9f552ad4063b5|c3641f85',
    'nb|f64_naninf_7x9|k5|ns37': '548f039bb8134320b4c1|c3641f85',
    'nb|f64_naninf_7x9|k5|nsNone': '9d279ce9f552ad4063b5|c3641f85',
    'nb|f64_naninf_7x9|k8|ns10': '8a817ec9600e61026239|c3641f85',
    'nb|f64_naninf_7x9|k8|ns20000': '1d0cf9ddac56d1ed82b0|c3641f85',
    'nb|f64_naninf_7x9|k8|ns37': '992e0ced30801d684baf|c3641f85',
    'nb|f64_naninf_7x9|k8|nsNone': '1d0cf9ddac56d1ed82b0|c3641f85',
    'nb|f64_nonf32_5x6|k2|ns10': '26f013c497fa79594120|c3641f85',
    'nb|f64_nonf32_5x6|k2|ns20000': 'f5f0bda4856093ef4cfa|c3641f85',
    'nb|f64_nonf32_5x6|k2|ns37': 'f5f0bda4856093ef4cfa|c3641f85',
    'nb|f64_nonf32_5x6|k2|nsNone': 'f5f0bda4856093ef4cfa|c3641f85',
    'nb|f64_nonf32_5x6|k3|ns10': '59a85cfc81717f26652e|c3641f85',
    'nb|f64_nonf32_5x6|k3|ns20000': '00199a8f0dc809e3ff86|c3641f85',
    'nb|f64_nonf32_5x6|k3|ns37': '00199a8f0dc809e3ff86|c3641f85',
    'nb|f64_nonf32_5x6|k3|nsNone': '00199a8f0dc809e3ff86|c3641f85',
    'nb|f64_nonf32_5x6|k5|ns10': 'bbe486777ee0d0035762|c3641f85',
    'nb|f64_nonf32_5x6|k5|ns20000': 'fa85ea2d02a5cc63bdcd|c3641f85',
    'nb|f64_nonf32_5x6|k5|ns37': 'fa85ea2d02a5cc63bdcd|c3641f85',
    'nb|f64_nonf32_5x6|k5|nsNone': 'fa85ea2d02a5cc63bdcd|c3641f85',
    'nb|f64_nonf32_5x6|k8|ns10': '081f3a800d308695ae0e|c3641f85',
    'nb|f64_nonf32_5x6|k8|ns20000': '377a0d908b2fe1e84e5a|c3641f85',
    'nb|f64_nonf32_5x6|k8|ns37': '377a0d908b2fe1e84e5a|c3641f85',
    'nb|f64_nonf32_5x6|k8|nsNone': '377a0d908b2fe1e84e5a|c3641f85',
    'nb|f64_rand_7x9|k2|ns10': 'be1bcc186a73eac41723|c3641f85',
    'nb|f64_rand_7x9|k2|ns20000': '31b8ca0f662ee60f9782|c3641f85',
    'nb|f64_rand_7x9|k2|ns37': 'be1bcc186a73eac41723|c3641f85',
    'nb|f64_rand_7x9|k2|nsNone': '31b8ca0f662ee60f9782|c3641f85',
    'nb|f64_rand_7x9|k3|ns10': 'fa64a2c615d944edacbe|c3641f85',
    'nb|f64_rand_7x9|k3|ns20000': 'e20aeb23c62d49e178bf|c3641f85',
    'nb|f64_rand_7x9|k3|ns37': '20892e2dcf3827613cb5|c3641f85',
    'nb|f64_rand_7x9|k3|nsNone': 'e20aeb23c62d49e178bf|c3641f85',
    'nb|f64_rand_7x9|k5|ns10': '1646c247c22463b0c6b7|c3641f85',
    'nb|f64_rand_7x9|k5|ns20000': 'f65d6510715cf56d86ba|c3641f85',
    'nb|f64_rand_7x9|k5|ns37': '048811dd5cea3ba6e1cc|c3641f85',
    'nb|f64_rand_7x9|k5|nsNone': 'f65d6510715cf56d86ba|c3641f85',
    'nb|f64_rand_7x9|k8|ns10': 'ef7900230809d09a92d4|c3641f85',
    'nb|f64_rand_7x9|k8|ns20000': '146e2ce2d50bc15c0740|c3641f85',
    'nb|f64_rand_7x9|k8|ns37': '2e886d0e3899fa159648|c3641f85',
    'nb|f64_rand_7x9|k8|nsNone': '146e2ce2d50bc15c0740|c3641f85',
    'nb|f64_ties_6x6|k2|ns10': '7a5ae5c663a60000801e|c3641f85',
    'nb|f64_ties_6x6|k2|ns20000': '3c7380944204326b17b1|c3641f85',
    'nb|f64_ties_6x6|k2|ns37': '3c7380944204326b17b1|c3641f85',
    'nb|f64_ties_6x6|k2|nsNone': '3c7380944204326b17b1|c3641f85',
    'nb|f64_ties_6x6|k3|ns10': '4fad0c3672112d4ce477|c3641f85',
    'nb|f64_ties_6x6|k3|ns20000': '29797cceabd424d430fa|c3641f85',
    'nb|f64_ties_6x6|k3|ns37': '29797cceabd424d430fa|c3641f85',
    'nb|f64_ties_6x6|k3|nsNone': '29797cceabd424d430fa|c3641f85',
    'nb|f64_ties_6x6|k5|ns10': '6369796576219a7c9131|5466d6b3',
    'nb|f64_ties_6x6|k5|ns20000': 'd3e72147d550e6904d19|c3641f85',
    'nb|f64_ties_6x6|k5|ns37': 'd3e72147d550e6904d19|c3641f85',
    'nb|f64_ties_6x6|k5|nsNone': 'd3e72147d550e6904d19|c3641f85',
    'nb|f64_ties_6x6|k8|ns10': '6369796576219a7c9131|3358f1c1',
    'nb|f64_ties_6x6|k8|ns20000': '0fd5b75fa6395787d878|3358f1c1',
    'nb|f64_ties_6x6|k8|ns37': '0fd5b75fa6395787d878|3358f1c1',
    'nb|f64_ties_6x6|k8|nsNone': '0fd5b75fa6395787d878|3358f1c1',
    'nb|f64_tiny_steps_3x5|k2|ns10': '4c5018c4f72546e19a35|c3641f85',
    'nb|f64_tiny_steps_3x5|k2|ns20000': '4c5018c4f72546e19a35|c3641f85',
    'nb|f64_tiny_steps_3x5|k2|ns37': '4c5018c4f72546e19a35|c3641f85',
    'nb|f64_tiny_steps_3x5|k2|nsNone': '4c5018c4f72546e19a35|c3641f85',
    'nb|f64_tiny_steps_3x5|k3|ns10': 'bda39908da504be92e6f|c3641f85',
    'nb|f64_tiny_steps_3x5|k3|ns20000': 'bda39908da504be92e6f|c3641f85',
    'nb|f64_tiny_steps_3x5|k3|ns37': 'bda39908da504be92e6f|c3641f85',
    'nb|f64_tiny_steps_3x5|k3|nsNone': 'bda39908da504be92e6f|c3641f85',
    'nb|f64_tiny_steps_3x5|k5|ns10': '76e5e0f590c5948ab424|c3641f85',
    'nb|f64_tiny_steps_3x5|k5|ns20000': '76e5e0f590c5948ab424|c3641f85',
    'nb|f64_tiny_steps_3x5|k5|ns37': '76e5e0f590c5948ab424|c3641f85',
    'nb|f64_tiny_steps_3x5|k5|nsNone': '76e5e0f590c5948ab424|c3641f85',
    'nb|f64_tiny_steps_3x5|k8|ns10': 'a78dd641b89641684cc4|c3641f85',
    'nb|f64_tiny_steps_3x5|k8|ns20000': 'a78dd641b89641684cc4|c3641f85',
    'nb|f64_tiny_steps_3x5|k8|ns37': 'a78dd641b89641684cc4|c3641f85',
    'nb|f64_tiny_steps_3x5|k8|nsNone': 'a78dd641b89641684cc4|c3641f85',
    'nb|f64_two_values_2x3|k2|ns10': '443227afcf6a13f8216c|c3641f85',
    'nb|f64_two_values_2x3|k2|ns20000': '443227afcf6a13f8216c|c3641f85',
    'nb|f64_two_values_2x3|k2|ns37': '443227afcf6a13f8216c|c3641f85',
    'nb|f64_two_values_2x3|k2|nsNone': '443227afcf6a13f8216c|c3641f85',
    'nb|f64_two_values_2x3|k3|ns10': '443227afcf6a13f8216c|47bc57c7',
    'nb|f64_two_values_2x3|k3|ns20000': '443227afcf6a13f8216c|47bc57c7',
    'nb|f64_two_values_2x3|k3|ns37': '443227afcf6a13f8216c|47bc57c7',
    'nb|f64_two_values_2x3|k3|nsNone': '443227afcf6a13f8216c|47bc57c7',
    'nb|f64_two_values_2x3|k5|ns10': '443227afcf6a13f8216c|5466d6b3',
    'nb|f64_two_values_2x3|k5|ns20000': '443227afcf6a13f8216c|5466d6b3',
    'nb|f64_two_values_2x3|k5|ns37': '443227afcf6a13f8216c|5466d6b3',
    'nb|f64_two_values_2x3|k5|nsNone': '443227afcf6a13f8216c|5466d6b3',
    'nb|f64_two_values_2x3|k8|ns10': '443227afcf6a13f8216c|3358f1c1',
    'nb|f64_two_values_2x3|k8|ns20000': '443227afcf6a13f8216c|3358f1c1',
    'nb|f64_two_values_2x3|k8|ns37': '443227afcf6a13f8216c|3358f1c1',
    'nb|f64_two_values_2x3|k8|nsNone': '443227afcf6a13f8216c|3358f1c1',
    'nb|i32_5x6|k2|ns10': '4cdcd28f903a8ea723fe|c3641f85',
    'nb|i32_5x6|k2|ns20000': 'fa11aa6deecb6d7db52e|c3641f85',
    'nb|i32_5x6|k2|ns37': 'fa11aa6deecb6d7db52e|c3641f85',
    'nb|i32_5x6|k2|nsNone': 'fa11aa6deecb6d7db52e|c3641f85',
    'nb|i32_5x6|k3|ns10': '6ade9adbcad9aa0438ee|c3641f85',
    'nb|i32_5x6|k3|ns20000': 'a616dc1f0d6c53f49663|c3641f85',
    'nb|i32_5x6|k3|ns37': 'a616dc1f0d6c53f49663|c3641f85',
    'nb|i32_5x6|k3|nsNone': 'a616dc1f0d6c53f49663|c3641f85',
    'nb|i32_5x6|k5|ns10': 'adb848195c83cc866cd3|c3641f85',
    'nb|i32_5x6|k5|ns20000': '567643a5ae308a064954|c3641f85',
    'nb|i32_5x6|k5|ns37': '567643a5ae308a064954|c3641f85',
    'nb|i32_5x6|k5|nsNone': '567643a5ae308a064954|c3641f85',
    'nb|i32_5x6|k8|ns10': '1b34a43eeb73b5bea0cf|c3641f85',
    'nb|i32_5x6|k8|ns20000': '4e5247ee0e0570be7497|c3641f85',
    'nb|i32_5x6|k8|ns37': '4e5247ee0e0570be7497|c3641f85',
    'nb|i32_5x6|k8|nsNone': '4e5247ee0e0570be7497|c3641f85',
    'nb|i64_ties_4x11|k2|ns10': 'a68336d504d239e34df3|c3641f85',
    'nb|i64_ties_4x11|k2|ns20000': 'a68336d504d239e34df3|c3641f85',
    'nb|i64_ties_4x11|k2|ns37': 'a68336d504d239e34df3|c3641f85',
    'nb|i64_ties_4x11|k2|nsNone': 'a68336d504d239e34df3|c3641f85',
    'nb|i64_ties_4x11|k3|ns10': '4743b668430cad647661|c3641f85',
    'nb|i64_ties_4x11|k3|ns20000': 'a17de0e39964a2f64d9e|c3641f85',
    'nb|i64_ties_4x11|k3|ns37': 'a17de0e39964a2f64d9e|c3641f85',
    'nb|i64_ties_4x11|k3|nsNone': 'a17de0e39964a2f64d9e|c3641f85',
    'nb|i64_ties_4x11|k5|ns10': '15db26b176c49828e3d0|5466d6b3',
    'nb|i64_ties_4x11|k5|ns20000': '15db26b176c49828e3d0|5466d6b3',
    'nb|i64_ties_4x11|k5|ns37': '15db26b176c49828e3d0|5466d6b3',
    'nb|i64_ties_4x11|k5|nsNone': '15db26b176c49828e3d0|5466d6b3',
    'nb|i64_ties_4x11|k8|ns10': '15db26b176c49828e3d0|3358f1c1',
    'nb|i64_ties_4x11|k8|ns20000': '15db26b176c49828e3d0|3358f1c1',
    'nb|i64_ties_4x11|k8|ns37': '15db26b176c49828e3d0|3358f1c1',
    'nb|i64_ties_4x11|k8|nsNone': '15db26b176c49828e3d0|3358f1c1',
}

if __name__ == "__main__":
    sys.exit(run(collect, EXPECTED))
