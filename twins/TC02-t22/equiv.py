"""Differential test for zonal.stats (property C02).

Runs xrspatial.zonal.stats on a deterministic family of inputs (numpy and dask,
DataFrame and DataArray return types), and checks
  (a) a sha256 digest of every result against digests recorded on the
      unmodified tree (bit-identical values, dtypes, column names, row order),
  (b) the results against an independent brute-force implementation.
Exit code 0 iff everything matches.  `--record` prints the digests.
"""
import hashlib
import sys
import warnings

import dask.array as da
import numpy as np
import pandas as pd
import xarray as xr

import xrspatial
from xrspatial.zonal import stats

warnings.filterwarnings('ignore')

ALL = ['mean', 'max', 'min', 'sum', 'std', 'var', 'count']


def make_cases():
    rng = np.random.RandomState(20240917)
    cases = []
    shapes = [(1, 1), (1, 7), (5, 1), (4, 6), (7, 5), (9, 11)]
    zone_kinds = ['int', 'negint', 'float', 'frac_nan', 'inf_nan']
    value_kinds = ['int32', 'int64', 'float32', 'float64', 'float_nan_inf']
    k = 0
    for shape in shapes:
        for zk in zone_kinds:
            for vk in value_kinds:
                k += 1
                n = shape[0] * shape[1]
                if zk == 'int':
                    z = rng.randint(0, 5, size=shape).astype(np.int64)
                elif zk == 'negint':
                    z = (rng.randint(-3, 4, size=shape) * 7).astype(np.int32)
                elif zk == 'float':
                    z = rng.randint(0, 4, size=shape).astype(np.float64) * 10.
                elif zk == 'frac_nan':
                    z = rng.choice([-1.5, 0.25, 0.5, 3.0, np.nan], size=shape)
                else:
                    z = rng.choice([-2.0, 0.0, 1.0, np.nan, np.inf, -np.inf],
                                   size=shape).astype(np.float32)
                if vk.startswith('int'):
                    v = rng.randint(-4, 9, size=shape).astype(vk)
                elif vk == 'float_nan_inf':
                    v = rng.choice([-2.5, 0.0, 1.0, 3.0, 7.75, np.nan, np.inf, -np.inf],
                                   size=shape)
                else:
                    v = (rng.randint(-20, 20, size=shape) / 4.).astype(vk)
                nodata = [None, 0, 3, 1.0][k % 4]
                present = [x for x in np.unique(z[np.isfinite(z)])]
                zsel = [None,
                        present[::-1][:2] + [99],
                        [99, -77],
                        present[1:] + [12345.5]][k % 4]
                sf = [ALL, ['count', 'mean'], ['var', 'max'], ['std'],
                      ['sum', 'min', 'count']][k % 5]
                cases.append((k, z, v, nodata, zsel, sf))
    return cases


def digest_df(df):
    h = hashlib.sha256()
    h.update(repr(list(df.columns)).encode())
    h.update(repr(list(df.index)).encode())
    for c in df.columns:
        a = np.ascontiguousarray(np.asarray(df[c]))
        h.update(str(a.dtype).encode())
        h.update(repr(a.shape).encode())
        h.update(a.tobytes())
    return h.hexdigest()


def digest_da(arr):
    h = hashlib.sha256()
    a = np.ascontiguousarray(arr.values)
    h.update(str(a.dtype).encode() + repr(a.shape).encode() + a.tobytes())
    h.update(repr(arr.dims).encode())
    h.update(repr(list(arr.coords['stats'].values)).encode())
    h.update(repr(sorted(arr.attrs.items())).encode())
    return h.hexdigest()


def brute(z, v, nodata, zsel, sf, reducers):
    uz = np.unique(z[np.isfinite(z)])
    if zsel is not None:
        uz = np.array([u for u in uz if u in zsel])
    rows = {'zone': list(uz)}
    for s in sf:
        col = []
        for u in uz:
            m = (z == u) & np.isfinite(v)
            if nodata is not None:
                m &= (v != nodata)
            cells = v[m]
            col.append(reducers[s](cells) if cells.size else np.nan)
        rows[s] = col
    return rows


REF = {
    'mean': lambda c: np.mean(c.astype(np.float64)),
    'max': lambda c: c.max(), 'min': lambda c: c.min(),
    'sum': lambda c: np.sum(c.astype(np.float64)),
    'std': lambda c: np.std(c.astype(np.float64)),
    'var': lambda c: np.var(c.astype(np.float64)),
    'count': lambda c: c.size,
    'rng': lambda c: float(c.max()) - float(c.min()),
    'n_pos': lambda c: int((c > 0).sum()),
}
CUSTOM = {'rng': lambda c: float(c.max()) - float(c.min()),
          'n_pos': lambda c: int((c > 0).sum()),
          'sum': lambda c: c.sum()}


def close(a, b):
    a = np.asarray(a, dtype=np.float64)
    b = np.asarray(b, dtype=np.float64)
    return a.shape == b.shape and np.allclose(a, b, rtol=1e-6, atol=1e-6, equal_nan=True)


def run():
    out = {}
    bad = []
    for k, z, v, nodata, zsel, sf in make_cases():
        attrs = {'res': 1, 'k': k}
        zx = xr.DataArray(z, dims=['y', 'x'])
        vx = xr.DataArray(v, dims=['y', 'x'], attrs=attrs)
        kw = dict(zone_ids=zsel, nodata_values=nodata)
        # numpy / DataFrame
        df = stats(zx, vx, stats_funcs=sf, **kw)
        out['np-df-%d' % k] = digest_df(df)
        exp = brute(z, v, nodata, zsel, sf, REF)
        if list(df.columns) != ['zone'] + sf or not all(
                close(df[c], exp[c]) for c in df.columns):
            bad.append(('np-df', k))
        # numpy / custom reducers
        dfc = stats(zx, vx, stats_funcs=CUSTOM, **kw)
        out['np-custom-%d' % k] = digest_df(dfc)
        expc = brute(z, v, nodata, zsel, list(CUSTOM), REF)
        if not all(close(dfc[c], expc[c]) for c in dfc.columns):
            bad.append(('np-custom', k))
        # numpy / DataArray
        xa = stats(zx, vx, stats_funcs=sf, return_type='xarray.DataArray', **kw)
        out['np-da-%d' % k] = digest_da(xa)
        for si, s in enumerate(sf):
            want = np.full(z.shape, np.nan)
            for u, val in zip(exp['zone'], exp[s]):
                want[z == u] = val
            if not close(xa.values[si], want):
                bad.append(('np-da', k, s))
        # dask / DataFrame
        for ci, chunks in enumerate([(2, 3), (3, 2)]):
            # dask graphs are slow to build: only a sub-family of the cases
            if k % 7 != 0 or (ci == 1 and k % 2 != 0):
                continue
            zd = xr.DataArray(da.from_array(z, chunks=chunks), dims=['y', 'x'])
            vd = xr.DataArray(da.from_array(v, chunks=chunks), dims=['y', 'x'], attrs=attrs)
            try:
                ddf = stats(zd, vd, stats_funcs=sf, **kw)
                cols = list(ddf.columns)
                ddf = ddf.compute()
            except Exception as e:  # the error must be stable as well
                out['dask-df-%d-%d' % (k, ci)] = 'EXC:' + type(e).__name__
                continue
            out['dask-df-%d-%d' % (k, ci)] = digest_df(ddf) + repr(cols)
            if list(ddf.columns) != ['zone'] + sf or not all(
                    close(ddf[c], exp[c]) for c in ddf.columns):
                bad.append(('dask-df', k, ci))
    # argument validation
    for name, call in {
        'badstat': lambda: stats(xr.DataArray(np.zeros((2, 2), int)),
                                 xr.DataArray(np.ones((2, 2))), stats_funcs=['median']),
        'boolzones': lambda: stats(xr.DataArray(np.zeros((2, 2), bool)),
                                   xr.DataArray(np.ones((2, 2)))),
        'boolvalues': lambda: stats(xr.DataArray(np.zeros((2, 2), int)),
                                    xr.DataArray(np.ones((2, 2), bool))),
        'daskdict': lambda: stats(
            xr.DataArray(da.zeros((2, 2), dtype=int)), xr.DataArray(da.ones((2, 2))),
            stats_funcs={'s': lambda c: c.sum()}),
    }.items():
        try:
            call()
            out['err-' + name] = 'no error'
        except Exception as e:
            out['err-' + name] = type(e).__name__ + ':' + str(e)
    return out, bad


EXPECTED = {'dask-df-105-0': "fc29788392b447e5b6c24858256db799b26a93c56edeaac185db7ce016dfc71e['zone', 'mean', 'max', "
                  "'min', 'sum', 'std', 'var', 'count']",
 'dask-df-112-0': "b6eccbb58065670f276544efa0a55a8f964bdc44cc274353ea58c3da7db3010b['zone', 'var', 'max']",
 'dask-df-112-1': "b6eccbb58065670f276544efa0a55a8f964bdc44cc274353ea58c3da7db3010b['zone', 'var', 'max']",
 'dask-df-119-0': "bb982fdb563d4e89452d32785e2ac0c745a350a5ad0cff7ca03c981e4f861dc5['zone', 'sum', 'min', "
                  "'count']",
 'dask-df-126-0': 'EXC:ValueError',
 'dask-df-126-1': 'EXC:ValueError',
 'dask-df-133-0': "f2f54c319eae7375d2a0b1940d2d92d497e91d5ee59c518ee809796a4f075e60['zone', 'std']",
 'dask-df-14-0': 'EXC:ValueError',
 'dask-df-14-1': 'EXC:ValueError',
 'dask-df-140-0': "7922475a9194769c342a1c6217419836a8e255ad40c2b7f64f84b2ba1f103044['zone', 'mean', 'max', "
                  "'min', 'sum', 'std', 'var', 'count']",
 'dask-df-140-1': "7922475a9194769c342a1c6217419836a8e255ad40c2b7f64f84b2ba1f103044['zone', 'mean', 'max', "
                  "'min', 'sum', 'std', 'var', 'count']",
 'dask-df-147-0': "ff8f11b871d30294d1039b6bbd101cca964a91019e9686c51b6280aa3141c3ee['zone', 'var', 'max']",
 'dask-df-21-0': "9b7985c657306981ba3539cd1cd70b6c4cdc9c014cc335da78f25a16ac6714d8['zone', 'count', 'mean']",
 'dask-df-28-0': "8b187981824d77f0b3b4152426f93f37ffb4ca105da8c87dc9b024aee4dce684['zone', 'std']",
 'dask-df-28-1': "8b187981824d77f0b3b4152426f93f37ffb4ca105da8c87dc9b024aee4dce684['zone', 'std']",
 'dask-df-35-0': "76090a3f36c38fe71d790c36f3ae79960a7f2daf21ac6966b69fb96f7939c39e['zone', 'mean', 'max', "
                 "'min', 'sum', 'std', 'var', 'count']",
 'dask-df-42-0': 'EXC:ValueError',
 'dask-df-42-1': 'EXC:ValueError',
 'dask-df-49-0': "c9bb68feb48d7472de60b772b215341e45fcbe2bf2e7136c483f6befbe436043['zone', 'sum', 'min', "
                 "'count']",
 'dask-df-56-0': "1bc0ef46d1ca328561fe3d1879681be8077e20506beb026c9238a0f6145ee8a6['zone', 'count', 'mean']",
 'dask-df-56-1': "1bc0ef46d1ca328561fe3d1879681be8077e20506beb026c9238a0f6145ee8a6['zone', 'count', 'mean']",
 'dask-df-63-0': "2f3629211b79c23c1888a32bb2057a1eb2887e941e4a2f2c0105effd8a961cde['zone', 'std']",
 'dask-df-7-0': 'EXC:ValueError',
 'dask-df-70-0': 'EXC:ValueError',
 'dask-df-70-1': 'EXC:ValueError',
 'dask-df-77-0': "d4e1b40c333af0ea686b9b618653b9f8d1a2df0075828145d0660ec38c99bdea['zone', 'var', 'max']",
 'dask-df-84-0': "560da983c4c00be10a1daee7ce212868c98765dd3b71cca02dd21679be1aea40['zone', 'sum', 'min', "
                 "'count']",
 'dask-df-84-1': "560da983c4c00be10a1daee7ce212868c98765dd3b71cca02dd21679be1aea40['zone', 'sum', 'min', "
                 "'count']",
 'dask-df-91-0': "58bab9618b1b2dcb3a757f6056714decb99ea55f7ce5912e0a226a19b2fba5bf['zone', 'count', 'mean']",
 'dask-df-98-0': 'EXC:ValueError',
 'dask-df-98-1': 'EXC:ValueError',
 'err-badstat': 'ValueError:Invalid stat name. median option not supported.',
 'err-boolvalues': 'ValueError:`values` must be an array of integers or floats.',
 'err-boolzones': 'ValueError:`zones` must be an array of integers or floats.',
 'err-daskdict': 'ValueError:Got dask-backed DataArray as `values` aggregate. `stats_funcs` must be a subset '
                 "of default supported stats `['mean', 'max', 'min', 'sum', 'std', 'var', 'count']`",
 'np-custom-1': 'a55b72c1de98e88048b869ca67b14ec447d0a2c3ffa4563271325e335a06e4ed',
 'np-custom-10': '265066d98ad0f9e268ec0e4f41d2dccc8118df6a0aa2244810488a4527160c60',
 'np-custom-100': 'ca832003725d8306421aea34b01f018c792572fbaa5fb42222934a5ec6c1c1c5',
 'np-custom-101': '6bbf3a642fb6dcb8c8dd0d3fd5bc68979d3879cf4e13bea7d54dc254376bfa5c',
 'np-custom-102': '265066d98ad0f9e268ec0e4f41d2dccc8118df6a0aa2244810488a4527160c60',
 'np-custom-103': '28cdc8daed7fb8b9fdbe9487ddb82fb11ced2d5126756aa61ada6d9873f5101b',
 'np-custom-104': 'cfedd78bde0ada6327e87980b77ae2d4e2266698909d18c226bdcfa2d9d03367',
 'np-custom-105': '2ae35a9a37982e3cd04ca57ca4fdde76bf9c5bae351bed9903aefa75a0a1b57b',
 'np-custom-106': '265066d98ad0f9e268ec0e4f41d2dccc8118df6a0aa2244810488a4527160c60',
 'np-custom-107': '55cdcec7888c174b2c5c7b3fd4d403873943248a7394125a56ea3c5438f11710',
 'np-custom-108': 'd4cc5804b6d202bc274c23fca087f4112a6b97d96edc4b162917ddba15a694d4',
 'np-custom-109': '36b3bf8f7a5d65dab43f7798d834e343b29bcab63c3c4bc1664ad39e4cbb52a8',
 'np-custom-11': '265066d98ad0f9e268ec0e4f41d2dccc8118df6a0aa2244810488a4527160c60',
 'np-custom-110': '265066d98ad0f9e268ec0e4f41d2dccc8118df6a0aa2244810488a4527160c60',
 'np-custom-111': '159e7426b8eddfd986538641072fa709bf20bd6370e354a6a61e60d1494afc79',
 'np-custom-112': '3494fab30775aaf0fcaa1da1cd9680d93dae1411e131e9de8fd560c4b8d6917d',
 'np-custom-113': 'c18c45e787c0d9ac3dcd7b396d36c46fb2f24ef55c607362ca87f1ec848876e0',
 'np-custom-114': '265066d98ad0f9e268ec0e4f41d2dccc8118df6a0aa2244810488a4527160c60',
 'np-custom-115': '46559c509571a26af011cbb55e7ad6dcfe81b21cfac4ff040d173f41a21a8470',
 'np-custom-116': 'a5ace1a19e46e061ecfe2e46966aee459ce954366185ea1beb43214d35680bd3',
 'np-custom-117': '6951cb407f99e612489245b02b92d725eb8962c648f64a834ec2fb1fe658ee50',
 'np-custom-118': '265066d98ad0f9e268ec0e4f41d2dccc8118df6a0aa2244810488a4527160c60',
 'np-custom-119': '8648f6f3e13d62cec75da3e13617839d3ff3bd2101862214b6e37fa656690037',
 'np-custom-12': '4bbf8149b05880abb3d94e4f218bf5176418fca981cd34e252c0fdf3d969601d',
 'np-custom-120': 'ed2ee9123893071db509fcce37c59fbecff739b24bf44010acd387cda65e28d2',
 'np-custom-121': '4e614c58e1c248f863d849a27e5b1759b8c8618c9d71daa468fe91391ae6ec48',
 'np-custom-122': '265066d98ad0f9e268ec0e4f41d2dccc8118df6a0aa2244810488a4527160c60',
 'np-custom-123': '2ab1eec0b24347e6a276d16a9ca3c8ddaa1c9c5de7dc0d350d6db61a89efadf4',
 'np-custom-124': 'c06ff72dbfa77952b9eb46cbd82045052dd3428c228b1cc3ec1e6a05f28490ca',
 'np-custom-125': '1486c390b58d3890f443d16a061ed1233abf4e8d833144bdacc8c6a1517b4342',
 'np-custom-126': '265066d98ad0f9e268ec0e4f41d2dccc8118df6a0aa2244810488a4527160c60',
 'np-custom-127': '127b2dfc3277cb81d8dd133e35b03816ae94765e0db047620cd9323db2bcd814',
 'np-custom-128': '5dee591d604be9ba00bc592f938af3d0d8edf42a15777e6b49393a3bb71dd6fc',
 'np-custom-129': 'bfc1e8eef0d748ba716e7bfab7c69124625b2bb40fd27a7babd063e3f2c27ad4',
 'np-custom-13': '4469c2c6d8f5295a83348bcfd5a5f5d1aa6f988a316456ded0d5ca8f50498fad',
 'np-custom-130': '265066d98ad0f9e268ec0e4f41d2dccc8118df6a0aa2244810488a4527160c60',
 'np-custom-131': '93d023438e1fbd3414d2ed26d2474e3c5da5e540820b0a7f6a19e09e7679584c',
 'np-custom-132': '371bc6090551700b9f5cbe243d1ff55289860e3f81147c5747fa0d3a67cc34f5',
 'np-custom-133': 'c0e78ddd7a396c6f58107d3e81a314033be63eeb250c3af44390016c004a7ce5',
 'np-custom-134': '265066d98ad0f9e268ec0e4f41d2dccc8118df6a0aa2244810488a4527160c60',
 'np-custom-135': '2bfa975c4a3f298968f12468186bf6020246c72fb3cab47678c9a80ed792e8f3',
 'np-custom-136': 'c03c926b87ce8edb8e9dc02c785300d7eda1836d96321049b5ed8d0b65bf34bf',
 'np-custom-137': '8c445b0b00e1912ead355283920770ab24821a9c62f3d169a0bdcbf304293a0f',
 'np-custom-138': '265066d98ad0f9e268ec0e4f41d2dccc8118df6a0aa2244810488a4527160c60',
 'np-custom-139': 'c8105fccd249fb21ebeabbbc7c2786f9032c0c403f7e6e69031c1bdf91a6b7ab',
 'np-custom-14': '265066d98ad0f9e268ec0e4f41d2dccc8118df6a0aa2244810488a4527160c60',
 'np-custom-140': '34d4b5d3f327f984632dcc063f988fc113e6fe55ec2438ae2887716654b01722',
 'np-custom-141': '1e2e2324dd93e5db141d2ef37f06daa7c042ebb0b591481db9be05320b498d77',
 'np-custom-142': '265066d98ad0f9e268ec0e4f41d2dccc8118df6a0aa2244810488a4527160c60',
 'np-custom-143': '3dffd4492cc6cc497e9cca6eb65d35d493ce907b7c67ae9d76d496743a946da6',
 'np-custom-144': '6d576836d991dcae4266ef8e9ac9bd701775d209c527b2dfc22d66980adf45d8',
 'np-custom-145': 'e8e6b59ef7571cbb7ff8d45c99fafea112992106388bca944067f1a5ef1217c2',
 'np-custom-146': '265066d98ad0f9e268ec0e4f41d2dccc8118df6a0aa2244810488a4527160c60',
 'np-custom-147': '1e541a94ae38374ae6542757765848a17da31b239407eb88503965c40b9bd96e',
 'np-custom-148': '7942ed6364ee25835d5df203bc8d4a60c720dbb17fb309c02fadecf1b0203055',
 'np-custom-149': '966e3fab10d7becd0a7da306670da35b7e577b65f8e6b8b71c2b8b4c34bcdad6',
 'np-custom-15': '265066d98ad0f9e268ec0e4f41d2dccc8118df6a0aa2244810488a4527160c60',
 'np-custom-150': '265066d98ad0f9e268ec0e4f41d2dccc8118df6a0aa2244810488a4527160c60',
 'np-custom-16': '1453d35cdccfdecd575497823874b18eeba51d9e26fdca49226c01a248a719cb',
 'np-custom-17': '1a6e572fb5ad0574e2a831f35709ee4d84f40f733bc4ac1914f1866ac1104cb2',
 'np-custom-18': '265066d98ad0f9e268ec0e4f41d2dccc8118df6a0aa2244810488a4527160c60',
 'np-custom-19': '265066d98ad0f9e268ec0e4f41d2dccc8118df6a0aa2244810488a4527160c60',
 'np-custom-2': '265066d98ad0f9e268ec0e4f41d2dccc8118df6a0aa2244810488a4527160c60',
 'np-custom-20': '51a5ce484e959864e6bada64e1dd0acbec183616e192a9f9c633987c55e53144',
 'np-custom-21': '2c16006a53312e7bebd90d075a54d58763fe3e4900e75bfd3644b0acc2643f53',
 'np-custom-22': '265066d98ad0f9e268ec0e4f41d2dccc8118df6a0aa2244810488a4527160c60',
 'np-custom-23': '265066d98ad0f9e268ec0e4f41d2dccc8118df6a0aa2244810488a4527160c60',
 'np-custom-24': 'e2ce04f5658bc321a38842efd63c86a40efa9db7ffcd1727a36d1e1a1a229c2d',
 'np-custom-25': '265066d98ad0f9e268ec0e4f41d2dccc8118df6a0aa2244810488a4527160c60',
 'np-custom-26': '265066d98ad0f9e268ec0e4f41d2dccc8118df6a0aa2244810488a4527160c60',
 'np-custom-27': '0c80f697cc117fc538f331560fa767f8bd1d0e48bf2b45d23e9cfec27c93fda1',
 'np-custom-28': 'adb4cc448dc115635786be64480fce87636d54fd251c21cee7270d46e1b189a3',
 'np-custom-29': '8981c4da9098e69047e0c1741f85eced4df8b1f7fd14df06aa24389256f5bcf6',
 'np-custom-3': '265066d98ad0f9e268ec0e4f41d2dccc8118df6a0aa2244810488a4527160c60',
 'np-custom-30': '265066d98ad0f9e268ec0e4f41d2dccc8118df6a0aa2244810488a4527160c60',
 'np-custom-31': '60d2c18fa12687e8ca77f49c401720c42ec6f401887868cad52501e972833fba',
 'np-custom-32': '1a0dae0e3bd330e67fe78e0f5cc46b0c91bbfb91fc15fa1c37a9088150d90781',
 'np-custom-33': '4e270d387b6a53a3bae5d386560eac1a5dda1935dfa52503da897cf37e176248',
 'np-custom-34': '265066d98ad0f9e268ec0e4f41d2dccc8118df6a0aa2244810488a4527160c60',
 'np-custom-35': 'fc94f0389932ffbbb5b7d92b94864e6f6f47f8de03bcf4ecbf69bc136aa3b91b',
 'np-custom-36': '70819f5cc9ffe8b32d7f68860505f2337ba2f4797158271c16acf174bc734502',
 'np-custom-37': 'd44f531258bb92dc95a9cb9e2f4d0c65506308b6af2b6b733faa2a9f28a4fc5f',
 'np-custom-38': '265066d98ad0f9e268ec0e4f41d2dccc8118df6a0aa2244810488a4527160c60',
 'np-custom-39': '556a069fed7722a13a681bad724e08c28dc0f9bd56a029ee0104d112b360b93f',
 'np-custom-4': '04435b8c8d0093dca8f1a6226eff72f7b0728fa6445d7164ae7615136ef36f86',
 'np-custom-40': '50a2ac2cc4bb467a3b66fb21a29c8930d3a532186a2f2b53f0bb27470188efcb',
 'np-custom-41': '842e4a418af51c0c12105ed320aa4d6d1b5a009f680f36c18c878bd5c1e64861',
 'np-custom-42': '265066d98ad0f9e268ec0e4f41d2dccc8118df6a0aa2244810488a4527160c60',
 'np-custom-43': '15b34a98fa1bce73b8373f218f35ec378fe555649cf7861a15ba5d23bfed82f7',
 'np-custom-44': 'f485e30d148a90ef78ef66cae5f8738d8647df8e77437a2bf0bbbdd6acc433ea',
 'np-custom-45': '719163cc9c07cc8d16c47515b33ec58c92267f4c9a724a116a78e92678fa72bb',
 'np-custom-46': '265066d98ad0f9e268ec0e4f41d2dccc8118df6a0aa2244810488a4527160c60',
 'np-custom-47': '87a02df5083907fc4cb73fae5d36a8b40efb42f1886ebb1c91cbc145eb22ee50',
 'np-custom-48': 'c7674006ae2ef400a51d1b3bef3bc816a4ad88cd1511e172ee37522a1c7930de',
 'np-custom-49': '0d739e1c7e4bf5cdb4ad70059161faf9b002587a1900b915dad45c16f8585820',
 'np-custom-5': 'a9ee06cf3e2e4fee36bad8cfb923bc2f3fcbf92a5b4b213f14b5005ef654b697',
 'np-custom-50': '265066d98ad0f9e268ec0e4f41d2dccc8118df6a0aa2244810488a4527160c60',
 'np-custom-51': '99b1062ae50d8a5a3f564911a44661eaef4023ff4be700062ae11f61dc1e5457',
 'np-custom-52': '6a65e0e3dde7dcc9556c3e557bd5e8e98716102487985a70a6cbf7f224eef631',
 'np-custom-53': 'f59917bb2dc523796c2f96ef03c6c6903f9edf0c19fbc0c1fc6fb972b14e2858',
 'np-custom-54': '265066d98ad0f9e268ec0e4f41d2dccc8118df6a0aa2244810488a4527160c60',
 'np-custom-55': 'd70bc837f8b466fe6f934d3cf638db10a33cd9a57a456dc482a36d92f8f7b0a9',
 'np-custom-56': '0926b64a939fa17c13607838a158474238640262cfcda98b13acaf153fc6610f',
 'np-custom-57': 'c6bf9bc0997a8fe20782e48f1feced96f215d5add4a0f31ff84e80ef0e663009',
 'np-custom-58': '265066d98ad0f9e268ec0e4f41d2dccc8118df6a0aa2244810488a4527160c60',
 'np-custom-59': '91b0391e47ac8b6ab5bb526eb5719701a414e028c127d8db7ef5ac8e0a7dfa2f',
 'np-custom-6': '265066d98ad0f9e268ec0e4f41d2dccc8118df6a0aa2244810488a4527160c60',
 'np-custom-60': 'cdb68b65f3b5aed33640b0f95d2ed5e7a01722e96a8b90e41597342028104659',
 'np-custom-61': 'fd1088ae39beb63de08bffcc8ba959e7b951c27231cf6ebdcc67609dbbd1382d',
 'np-custom-62': '265066d98ad0f9e268ec0e4f41d2dccc8118df6a0aa2244810488a4527160c60',
 'np-custom-63': '0d6c7afdb7f4f5275139255cd57fa5db777c7adbb74ce57607f7e2351139a194',
 'np-custom-64': 'd438887f7a33875bb290c14822c22b462e9c34f57ef9bd141e64aa2831af1e49',
 'np-custom-65': 'c518e6d85c85248464a64c35dd5a06ddd1f527cebae8e8979d1e81c9a04cd7cb',
 'np-custom-66': '265066d98ad0f9e268ec0e4f41d2dccc8118df6a0aa2244810488a4527160c60',
 'np-custom-67': 'a2dc38296dfccafd3b53752c1f9e14d3382063fe5ef5b74392dbade4c10a3c2f',
 'np-custom-68': '157cdf133bb6fbd5c4d69764af9ed966a7760c96a1f74fd3e0874b1745326b72',
 'np-custom-69': 'a669fff30eafa95a86d6634f207cd5aa38ac0622dbb900c75bcd9827fdccb03a',
 'np-custom-7': '265066d98ad0f9e268ec0e4f41d2dccc8118df6a0aa2244810488a4527160c60',
 'np-custom-70': '265066d98ad0f9e268ec0e4f41d2dccc8118df6a0aa2244810488a4527160c60',
 'np-custom-71': '1ff5734992190c671a3a912a5a31795cc518885fa0e7cedb738deceda8933665',
 'np-custom-72': 'ae86d8b71c0b035542b246357eec1a62b718ca3b8d4b6ad639a3a05790175b6b',
 'np-custom-73': '98b8e4be4dd56e3e67fed87309eaeee5303126fcf1e451cdc6f09bc7d4a222c3',
 'np-custom-74': '265066d98ad0f9e268ec0e4f41d2dccc8118df6a0aa2244810488a4527160c60',
 'np-custom-75': '2c16006a53312e7bebd90d075a54d58763fe3e4900e75bfd3644b0acc2643f53',
 'np-custom-76': '2dd0b7fc4766eaaecec7151ee7d459ecea203497612b5b3eed6404a41c34328e',
 'np-custom-77': '8a1453db6a1321260a7eeab19faa0ce5cd396d8ad1141394d3d718c966af0103',
 'np-custom-78': '265066d98ad0f9e268ec0e4f41d2dccc8118df6a0aa2244810488a4527160c60',
 'np-custom-79': 'bcc7dd4b41212b9318d139daf4f4c34358d109e2f9fbb0b205763bfbf7f519cd',
 'np-custom-8': '9f27be9158d399e6b21a2e1f4db473b903b0c368947baa75014ea52a57e62818',
 'np-custom-80': 'd3f8956d789b564ab862dbe3221c84c45ba4dc25fe05bf60d0ae247a12fad702',
 'np-custom-81': 'e413ee83858adc6bc6b3d7c521cbfe2373d1d4eb7307f9ce9f2a634413bde362',
 'np-custom-82': '265066d98ad0f9e268ec0e4f41d2dccc8118df6a0aa2244810488a4527160c60',
 'np-custom-83': '19a7dfaf8fd9b4cde4fedc31e9a62245e2fd656f0151223acd6df61ba75daed4',
 'np-custom-84': '7a3e1999f2552e328fa72b43b74ef8d5ffcd8a703cc41ab7c843c95497b17d04',
 'np-custom-85': '73f8fdc9fdb0d9bc4bf997cb824d8231648d670cf498d1ca9a0b27000e386343',
 'np-custom-86': '265066d98ad0f9e268ec0e4f41d2dccc8118df6a0aa2244810488a4527160c60',
 'np-custom-87': '73e9114b935365eb4499b097b76e75d64a2f3723dfaeef7ccd461068a1c66632',
 'np-custom-88': '20ddb2059b67e49fa28651f053ca460d68c0ed9e68a2427e6962ad94092113ab',
 'np-custom-89': 'f9180aab99c13352db5a92ff20cef16d78c035bad7383eda8c40b9bb979d8302',
 'np-custom-9': '4b87564b311283c31b29a6133c14209080db5b8b4b27ed3a0da8360eb717ed7b',
 'np-custom-90': '265066d98ad0f9e268ec0e4f41d2dccc8118df6a0aa2244810488a4527160c60',
 'np-custom-91': '98fbb5c0abf1efab3fa4839b4f654f170eaa186f8782e1a6be47415682adce30',
 'np-custom-92': 'e1d6d6a69c6e98dcdf9d564b2bde1eb72d52ad37fed5d29e2b6e86e967005090',
 'np-custom-93': '498c54401ad7e023063c54145e1acfed5df05c1c465538d8cdd3dbafd54e3b1f',
 'np-custom-94': '265066d98ad0f9e268ec0e4f41d2dccc8118df6a0aa2244810488a4527160c60',
 'np-custom-95': 'e6e8f82e80b2fa7179e2938279f91329d60b51016fe64c7b006a1545cbd462b5',
 'np-custom-96': 'b51d7159c12c25536f0e0baf8348b92d341639f5c437f93ba6ce2cd421026912',
 'np-custom-97': 'af3e7feba53fd9fbd56b722014d02084f8dfba5f1406fc8371bd0d78953b1b8d',
 'np-custom-98': '265066d98ad0f9e268ec0e4f41d2dccc8118df6a0aa2244810488a4527160c60',
 'np-custom-99': '3e5f0db1b13673e4bce6ed5e865f516a957ece47e1b4e6b59540078723035af5',
 'np-da-1': '00b7154fa9287b488b937b57e773a9762b85226fbd9df280bafa213322fee825',
 'np-da-10': 'c8d77ef81e74d984c516118925c5eb412235d994cd7146ba62135a3178c8454b',
 'np-da-100': '02734f4d44eaeeea1bef09207c5388340274fa3c0c9f6853895f7b3c0ec70968',
 'np-da-101': 'faa0c7160f4e87748af0d5f33e10cbdb73e76f1685d73ed54905d400beecdea7',
 'np-da-102': '948ef5d88ec4642c2359a735d1050ac53f884a5e31678a730701d93a842fbdab',
 'np-da-103': 'dffe7879c6a834c4da4b2cfc9cc246ea1a02e933bcba26ea4ad4545f47a18964',
 'np-da-104': 'e0976695f91d207d6d6f2315a9805c2f936bf97cf4494f0e90fa61319da509df',
 'np-da-105': 'e57cef7185ce0e62afaac70121c49bf60ccb127e4927b605ed8b928badc62efd',
 'np-da-106': 'b7145ea84f7ab7403d6601501d2655f9ed226a539a5732a018d5011bd42522bc',
 'np-da-107': '88163253c70575099929507e7e5faa6d998624e2e9fb255096c77eca5e452fe0',
 'np-da-108': 'bda5eb3252488ad1448cfd6ff815cfc3c5a20429692dfc92dce5e1f960f59d26',
 'np-da-109': 'ebe8b18750d8c3ac87cbeb7a445b1094a502f9690c09adf291097b6ff6dd31b3',
 'np-da-11': '9bdfc155aef42ad5dfcef6dcb5deb05546fb53d1aec5e440081610902c5cf128',
 'np-da-110': 'ef0f4699d33c1a13ddde3757e65596903d239c9ee716b2fdff4e1a535921ac8e',
 'np-da-111': 'ac2f4f4c38084c9615bcc6d951948ea2c4f947dddc371356ab4ac1cd82bdd9d7',
 'np-da-112': '4d4aa7a1a7d6309c037b4d8770c6e5c1361d336e193fa92faf3abb0bb3e20027',
 'np-da-113': '0a9258bc4e988aa24d6c62c1a62cfac4aefa9fb1fbbe6c4cef6412e90beb5f7c',
 'np-da-114': 'a8a6416254a8dd2c91229673b116dd1333e92b24e6911232ff4f50dcc86a2f1f',
 'np-da-115': '32f43466e433260f1dd4d31ffbaaf9817bb38c7ed92f496cfc9aa53107d60b88',
 'np-da-116': 'deb6686e999b978a1fec23486649c98e94d13ecf634d76c56650b3b70e280a0d',
 'np-da-117': 'e11cd3e75f77b40ddf632a43f5a6523775fbdd89c91390107106f367405d5d46',
 'np-da-118': 'b1d73d0bb199d60e4d70a21b28c6983a5a50b31b94d5630568ab8c3397c0e281',
 'np-da-119': '432cf686a8dc260938f8232a713908b0e18e8d09c55bbe4ab38962333483ce26',
 'np-da-12': '3d418b42e026e82e285e8e3b694bda72dd736ac0c9d18903eebca4ec707a766f',
 'np-da-120': '3b99499005f91609a8c85d9609a69e2929347c60e7f3b85e7f6355d3b63d1a56',
 'np-da-121': '17622d6cacf0efd3ef6e335c0a0d222849658b073610d8096493a1043c9b1917',
 'np-da-122': '549b0f148f6be63459ef04708f646dddbbf9f99f72a0b481cbd25f887a0e767f',
 'np-da-123': 'ccf9bd04e87a1e7f3ce58f21e9f0d9fe6615fe529ac1f327a51d3b00e21f17e3',
 'np-da-124': 'fcc8b9e0d42219f599bfbe238383da93597ae6e0768be3dcc1e7060721be8429',
 'np-da-125': '56c5f4dacc8a6994f1c4d38ec56686f0a5cfe4d07e7c6e0fcec91f998d58450f',
 'np-da-126': '9872c0a41050fbd849da58fdc29143ff1825c8cbf50fdafa5678176e991a08f3',
 'np-da-127': '584c69c4ea7e6b57afd7da3fb643c270ce4595ea8492366a06d631dfd5d72cfe',
 'np-da-128': '7a4363f2d0c3abc093c0c445f5c424d7646286e4aaa9c5b76e7590531f1e8818',
 'np-da-129': '4b45abd77b81678a9c575f629f34b1ae278ee4fe10898e56f6ca40e2239ccb16',
 'np-da-13': '862aa8d22e3ded73bc75d86bcff73c24a6edfd305536c4a1eeb772bebfa54344',
 'np-da-130': '117c3fe11bb15316cdd971ce75f5265f0935b383c713ccb5df6b2a8b4a7d9dc8',
 'np-da-131': '8e5aa5cbc36bf337c055354d4b73782a60618f6d1805c29e1b9f2bf30505438d',
 'np-da-132': '0a3a54a485ee419c03542975bfc0f3fbbcb0badc822752942e9205b3bac25f5e',
 'np-da-133': '3a28fa52b94e7443d086e2d368ff8d79b48986999ac5a72bbb7549ea95539d0d',
 'np-da-134': '629b3e84bd02903381ad5e80b9a3343eaf6a478791c9dc9df54fdacc9889a209',
 'np-da-135': 'b77a86a243bd96135821d30200bc8a8c4cfe05123474efe8a5c79371c1994de5',
 'np-da-136': 'b64fc8884ea7a90950ead3094cf268122ac80e0e7abbe336d2be1f2328630210',
 'np-da-137': 'a102c006a322a1c86d2d1a348023dfbdf20e9d7af86ac639c5cff0cd7b79023b',
 'np-da-138': '31096bf925832ad8c1df5617610dbfe976d9ed376595b1c8b3921507bafbb7b9',
 'np-da-139': '921a0c143fbc3deb8372218fec6d26078f8c9aef3d1a11a81b13d8609b8ed679',
 'np-da-14': '818d0cfd162850645faf3a6ac60a961bf586bc4f75cf69c887465b1cacf8cf15',
 'np-da-140': '27646dea17293e91915412bc1dec1fa660f17c2097244f4b8ef9947f33124513',
 'np-da-141': '020763be52493bc2df95f1ed657eba0938bd97f535863e63e30420a15666ea71',
 'np-da-142': '23d8c366561756d40043a30af18efa370a59c93f72de30cd504bc72a1a1c1b5c',
 'np-da-143': '161105d3da0ecfe515c73ca410e31a4b70007c17fa1f4e8736f71b894932dd4e',
 'np-da-144': '1a1db75abc01de63a9750643b2fbe0319911f8ea4ae9af1f2b28d4c3da35c872',
 'np-da-145': '0dd4e7656aa6d153c484cd8a6ea00dfd5d30b27c3d48d7a213856d4eac916ea7',
 'np-da-146': '426a85890f145cd1fb5ae1746b250948feccdd411ad3b2f1c06bef02e6206156',
 'np-da-147': 'ab4212567277a71e281b9b770d5db68278c1582b4b5b5e5e2b6a2c0641b71610',
 'np-da-148': '242d986b9cdc547b061165d8edd1dea25183adf3dabe3485ee0ff41da03df2c3',
 'np-da-149': 'ace1223065d880ee074c0d07ed2f575145547affc3e671f162c82c57a91136ad',
 'np-da-15': 'd48a1025050730a8dc5a12ee50f31cfb56f97bf7aa9082774a169cc54e7552fd',
 'np-da-150': 'dd3ff6e3d982b27d6627d076436699601e12add89e22203fc58408202e3ad69d',
 'np-da-16': 'b78edd2062ff9640939ea1c460dc14bdcba172f3fdfd67df2e6017d0d7ffbf2b',
 'np-da-17': 'c148a12d9ab70e8947471dd50355b2e137d2c7cb682eb90cba286f821a2c2878',
 'np-da-18': 'f96de4ad0297a1223e1347da611ade3adf6e232e04b6cf5546382b2e72621b6e',
 'np-da-19': '5258f700b7540279c69ed4650b5f5c6183367c2ba0b720dec8eb2aa19a36b863',
 'np-da-2': '80cdc5f2c04a367a6230f97551b3f184378dbebc14768be89a70420522b898e3',
 'np-da-20': '6888b5e252746dc7446396be67277860b47e4da1be08544305b7671025d9ec6f',
 'np-da-21': '2746232ae39d7d6a248d1a7f1e904cf5346af9bd90fe3a62b342d5e3c295b7ec',
 'np-da-22': '0a7cd6bbaef3c2e933977dafa3daa936f8a31cadd9134ced4e1145faa0e27848',
 'np-da-23': 'eeeb576a742a9ffbf6d24d7a149940c4796eef70e8622cc7febd597af9c6f01d',
 'np-da-24': '88d57f86324f1c6feeb1b6712a060715704ad4f33c6d8aba7e0a1257c9ed6417',
 'np-da-25': '0cdb7ead69928fba77d26b77d933f7c795698199a7e1397f768f1033e17c33ef',
 'np-da-26': 'd29f5428baa09fd959467d9e931fa6806b45ddad3a3ac1b93fb06d887a246ac9',
 'np-da-27': '17b674c3b15d9e2d931ab48c6cba8e560dabf90fedb0ba0d580b793e7df0b55f',
 'np-da-28': '67e8d5d6c3d92110d49123e3d7014d79499ab56c5ea44006462fa4a87e3e7640',
 'np-da-29': 'a08e9bee70e603456cba9ba9e99895a7bf1de2159d9499ee7dbfae0ac2f5844b',
 'np-da-3': '88e7151fd10f2ec579bc42a4e260a69b37181f43c3b71c3dc71aaaef7373043f',
 'np-da-30': 'de57c7a60e3bb97591f4772d379a795e759214b5e66594970e34785588554453',
 'np-da-31': 'a6d1152010dc00f5e86562c853830134ad517d2a39c581b5849528f2eed9e33f',
 'np-da-32': 'dedf82e67e564821e5b4536613d80826767f7454075f2e71c1be11d68916724f',
 'np-da-33': '46ce813c2b3bc10f501c8f866af7049bab0013567107bc14e6fb96f3ec431194',
 'np-da-34': '4cffa3f13bf5103b46a1a267dd962c6c33b7e8ac1f17f1a44d67cb8fb603454c',
 'np-da-35': '66829c4dea65eb1e164c0d4fb2b2ef4a8a3d294042f4214cca70900684161b74',
 'np-da-36': '112cd412ac8e02d316b377e8b2b1ab7d145c4a3eb0ff48c332140597bf45f766',
 'np-da-37': 'eda560d69f0fa494b46f0f220615b42a7b6190e2dbfd606473e992bcb89ae382',
 'np-da-38': 'ac368e67d31a69c4561737a03d4c9f47235edffca48e34ac19d997b48d7f1be6',
 'np-da-39': '4aa3f6cd6ef8692b2dae3ad03db41e641babf8b1f3e10e47f98319b867228d85',
 'np-da-4': '8519ee577947ba21ba95e9834ea893665eb111a990bc864bb3b5deae1889d023',
 'np-da-40': '2a40b9e4807f24e704757e8d449bfa83eb0486312e6756051ea6f3517ffba09d',
 'np-da-41': '5219fa9c567c74ecb68b23dbe3af7b93a910fddb18adc4f37809329aa932321f',
 'np-da-42': '37d468c564b895359c2bc62092e4d71ffca3d730ae56faf145abe6611cff06ff',
 'np-da-43': '313fbf2058c29e3a3b01b90176122e8eadb70de0bf20894203830dfd53e9ab87',
 'np-da-44': '5a09259a2be0c79e6346d130234e0af704be9e420afdbf7f4f9ae62dd51f5f90',
 'np-da-45': '1dd4cfcf0365edcd8e620e0bb557481c3229f8377612e5e2ca5a87b05a036653',
 'np-da-46': '01e8d095bfe4cb77bad28a918a86d6b7c5ca97d83bee1d035fd5dbb983a58d88',
 'np-da-47': '3d2f01cfb690b5eeedbb344ef205e2b91b28a594cf1f9ac73f12ae1cb2c4fb43',
 'np-da-48': '2b8e5f2e5d96fd8efe485eeeb5449622c8ad1fa7cd8b13512763e20b472ae051',
 'np-da-49': '1d55d9916b5e75c5644551cfa80d7772ef4e0fe07be031e4141deebf4ea3a733',
 'np-da-5': 'b40575cc1244cf9d4377460149f1dd5fe98b085b922a22e23ac4bea28bb46e96',
 'np-da-50': '3560a14eb162de96e84c00adbb9591b7b4322328b225d1ac87be899812b069a5',
 'np-da-51': 'b2a524ee2e0cf1171f9d841800ee1d8bcf915343abfa27c9357cd7b67e67a91c',
 'np-da-52': '931d6e0274013c4ab8582b469c25b6deedd4fd0bd2291b7be3a41e2ae19ea947',
 'np-da-53': 'b664a9e4ce284bfae159a76b2216b00dcebd96c2ba0f2853793a7a19b9e93fb4',
 'np-da-54': '40d9a02215a7fbf4f985062a1aad664f5f08df4c448434798d8d1693fc0e6383',
 'np-da-55': 'f4836d7d585810f8f6f3ac33fa7d8f77e5246d4147b12d3f9eccc5e5a5789390',
 'np-da-56': 'f3c15be81cd0fe7db9aab78100223528ba4fecdaf1952b2125e4d353b9bb1534',
 'np-da-57': '61f065051f37caab4e822a238485862c0a62744000b216269f36f8533e393648',
 'np-da-58': '60592202345111504d7a850c41f97a8ab2350be8a1cac145fb236151ea036672',
 'np-da-59': '83f96ebec1e97f63ce915097174109bc28b4c7ceb53ab198cbac378b3c08d46b',
 'np-da-6': '5f4474a168b8d3e2bace4e5d5a38cba0399da18902f0551619dd7c3580a768e5',
 'np-da-60': 'adca62ec176e051a0ca3b22e4f1fa2c02fb26b08fe2b57a407744400309af484',
 'np-da-61': '5e07ea15a61a6b16e18a67f80f46465cadc2a2bfc14ba427ce90bec3c9a6473e',
 'np-da-62': 'cf715731093f64b17534368cdadfb029f2fac97ecab007b6e0ada7e7d9dacbaa',
 'np-da-63': '97b24052712392c3449a840e024afbbedec99b6113856f668ec5c1c201226eb6',
 'np-da-64': 'd7bd5a9508e17e175f6d64f89e5345c182d898605df715f75a0c84f2b43a7607',
 'np-da-65': '01e14f3ebce0457cc7fcd0cc63faa631ea1c150e16c1a914214703a5a673e7ed',
 'np-da-66': 'bf6b3604067355f388cbfd77901fc46342af28d53e663ccd2301a082e88c4560',
 'np-da-67': '06c3b535e0218b38aab607845971b7ec71b43136b3859525397c413cbe5fb3c9',
 'np-da-68': '7f89f5e8c5d8a190bd100771e715ee66811b71b7aa7f56cf5808f7d5f77ceee8',
 'np-da-69': 'c1134e9b191c99fc960c4a0fcf31f203fe02957f03a03935dec453a6502ea9cf',
 'np-da-7': '8aad2c20cef4b28babfcddaccd737e91825a413869bbc5c23edc6a82fba68b74',
 'np-da-70': 'eb8e0a1d152a4a6d294dd3071643f9dc82574f4315cec2b7477644c3a3db31cb',
 'np-da-71': 'dce88ff2066feb153e693584c1cf0e23698f6315f62b9786fddcacd0e05bb0ec',
 'np-da-72': '87f18c5a36f0d60075346212069c40f98670a67e1c624c5f6f0333a97095df8f',
 'np-da-73': '89a86d404182c11d3707afdc9a2aa233cfafe892fd74675e20f5662b9c1ab920',
 'np-da-74': 'db64ffc06d6ec795bcb0fca25a90e6d8895e572a68cb0e7f713387fe8c867f09',
 'np-da-75': 'ad89cb138464e86e473b96d69f8fe5c54d5d1fc665c5e677c2f88f46f1585623',
 'np-da-76': 'd86f3143749ca00a139f23ce516d69801cda4cacbe8dfe34e03c1d37f7cd1b92',
 'np-da-77': '6ad676c61a124e11934c9a47e9e997e39930d1b61eea16e2b4225cd21eaf283d',
 'np-da-78': '53dbac5767cc7dbeb5fce7602f0983ec706ce567194d8cf90227156d183d34d7',
 'np-da-79': 'dd10a2f96a1b312d59c8262623ac0dbb18e2538d025454ab81a7538687ff63a6',
 'np-da-8': 'ca7f5b8e604bf45feaaf57781f104d651e44bdc5d33caa8f05eb09810ec2b33c',
 'np-da-80': '8bba7871a4d91062007117ae3dc0f0c07accdf83f5dad0519530f507c8d6a0d5',
 'np-da-81': '0f324e0ddf0e460bae5f08acf8ec64d9f122cb7aea7160e564b3f933221a2965',
 'np-da-82': '59112fe26be3fc824f735cba6bf99e9623771c7f2e3693576caf65a873077a0a',
 'np-da-83': '88d482dc0755fc71b3ee4aa87ceff136d8b630287b4efd6afd67527f6c169933',
 'np-da-84': '1f88a061c264a24140456eb45f0cd32693e05bb4a4babfdb532072ed3d17c28e',
 'np-da-85': '4d5101971c3c5db726524866865bb3158ba367fc1ca35971b619590edb095d63',
 'np-da-86': '8fe520de024c60c4730cc59b0a40616615a0f203e1db8726f76b770acde269f8',
 'np-da-87': 'db7e508342f2a5c98a13cf04b83419c2221604e4b15229d302e98de78a33b8c6',
 'np-da-88': 'a5484b6b33feed8a28ed6af50d71595ce752d3044b3ca4debccd76dcf98af9ed',
 'np-da-89': '46842e221ac1737afe8a5947561c30031f9e34944f13b88659be46db059dd29e',
 'np-da-9': 'e02cc71c1906dc0390193e54708f5822c4abc02882e808d9e7975bfe96df0036',
 'np-da-90': 'a761d0461c5d0aefed596dae526306028d22b64fa933e1b2a6d9d6e05e160b67',
 'np-da-91': '4f4885d0a08c096ca35f3e883522c30c0525ea3c86376ccec0c6b0277993982b',
 'np-da-92': '450ce0312f08241ecc38b091b44832dc20c889825e506815d95ad845e5ff998b',
 'np-da-93': 'c70ab7701d971fae278b9e599a11ee4a8da83f161207e286b08935ee7151e6e0',
 'np-da-94': '004124ac415c6b12fe650c8e3e9596a01c0513c5eba24f584c20f95efe548d59',
 'np-da-95': '19a9769ad27d2820b2cbd7c58d513a9df3a18522a3fc7a94308a1bdb30e9e2ca',
 'np-da-96': '234e3f84e531521628a40cb5cf199a074d2c701506e8bc080ebb8b7766be4a5a',
 'np-da-97': '3831f2bcc644168c5ed6b41a7c78e5b3838d2c6fed877e2b26c17f7938aae902',
 'np-da-98': 'e4da5b57384b3b21a31b66a6377122f0c5ce56e22266f1b04f31dd9f0777b50d',
 'np-da-99': '2ea3b26eb726f13732d01b1f8b52e0563bcc68569b740a39c0f3ff1166421ac4',
 'np-df-1': 'dc7f80a0ac1032e6c70fb85c7bf8df1ac26cb81cc8fca757e4e504520935eeb4',
 'np-df-10': 'a179dec6c3d4d86340f865d5fe4eb30d69cc5f6d707683155e80b6a2972273fe',
 'np-df-100': '4685d4d9c0992762c90f5dae9fb9ceffaf5c6bcd9547f6c4f674d249d00223ef',
 'np-df-101': '6b1291e7ec9dff59d78496331f6a7aa8ece6c95560f8056b522a6defa15e4987',
 'np-df-102': '01b81d867bee6924f3cd33ede9b618df1e843129d558e8af06ef11b7baa6d603',
 'np-df-103': 'b800779059fe5d62c0a457b6977b476991cf3776cd458b17eeb86b935f6f1390',
 'np-df-104': '0872bb2d8bdda24826c9443801c8329e1462f52639223c34f262f98f362c2380',
 'np-df-105': '6b7b5907b923141b4873a4ef7004350b1b804abb67d5bc2f66ede034060e71b3',
 'np-df-106': 'fab7c53a68e0bd92f159cc4ba42277786ea3c62b596d796bfc5d5212309cd3c9',
 'np-df-107': '5243e44585fd5d5dbc9179211600d36a5347e9170c440f3ceb9b7ce47a637cca',
 'np-df-108': 'cc1b35aa89e3358c7a1718c80bb5aa23641b0423dca49c4400bcf735e8113bb0',
 'np-df-109': 'dd8eb94115d8932c1af2b1322c2f18761f0959d8d071f2ff4f89aff43cd23e2a',
 'np-df-11': 'fab7c53a68e0bd92f159cc4ba42277786ea3c62b596d796bfc5d5212309cd3c9',
 'np-df-110': 'a179dec6c3d4d86340f865d5fe4eb30d69cc5f6d707683155e80b6a2972273fe',
 'np-df-111': 'c8a049c52aa1372f36a9ce9c92c94b1733ccca2759c15b9b04b6a205126efd21',
 'np-df-112': 'd9c5a5336eddc9971c4a97526f8bdcd47261e711486c1b97d8e6e48d85fc9244',
 'np-df-113': 'aa8ad6dca75b515e6b0a276065f37ae8fd38c2ed31ff1241301c186288bad735',
 'np-df-114': '8662881ba0e6ddf03b2a0fd8fee0882acce57f496117e2a8d77e863360f71252',
 'np-df-115': '776d75bff074c71da9c5acd3fbddd7283ca58af8bd43e958643c52cbdfa31931',
 'np-df-116': '4a78ccca2fa379e639079cecc695d41a90c2b10f8bd6ea61ec446f0f5f427884',
 'np-df-117': '8d73a1d653baab5e6f39c32e774879531ec335a7673fab66b68072365b8b88d2',
 'np-df-118': '1333cef3cf6e798926a0a31e38726edc6b0e4755d18ad28e684553d2607efccf',
 'np-df-119': 'e120e02569a552a9ed684dcd41d551ed668a20c27ad7f04650722637ee80fde1',
 'np-df-12': '342ae533efe8ff5b093d63c970dbd1170f441d0d7384d04f5c6b0dc96367c1b4',
 'np-df-120': '454b78c27d08b58f33d50c35f1022d3bd501fa764105dc6d5d60c4477ec4fbb9',
 'np-df-121': '5178a29aded6cd2ecffceaa9dd71202f6cfe6964f04dc59b6941d732adc0fb39',
 'np-df-122': '01b81d867bee6924f3cd33ede9b618df1e843129d558e8af06ef11b7baa6d603',
 'np-df-123': '914ccf5263faf8fc851fa11684332a73ee93569dc5d63d752e7f51a26d369b58',
 'np-df-124': '425f55693554be2c462bd64dc64a0059b75348e911a178d427ec6d1da75eadb8',
 'np-df-125': '3a6d0a481a80500b7ce6d9c9cabe9ca32c72a06aef4298cc097b0c2a69b74d0c',
 'np-df-126': 'fab7c53a68e0bd92f159cc4ba42277786ea3c62b596d796bfc5d5212309cd3c9',
 'np-df-127': 'f2df7f58ae8314950a2d85a733010c2ea422e1edff651d8c9d5fd73d3fe050c2',
 'np-df-128': 'a56f18c93e0324ef047a25a9bf76adef959beb0911a14124f05d615afb2ed2b1',
 'np-df-129': '039716c440f2dc1497056ff4050723715507b9e4f01804a31636508dbd5b3ce5',
 'np-df-13': '0a9e63f42143841e13bb157e5bd4b7c621696821f5b7dadccdd94ab513c99828',
 'np-df-130': 'a179dec6c3d4d86340f865d5fe4eb30d69cc5f6d707683155e80b6a2972273fe',
 'np-df-131': 'aa24162add8f263f8a006ae1fad1ade42b8967c27d9ce88e5c74b7f9e0310f16',
 'np-df-132': '8dead3848aad7bca18aaa16111954e4ebf759f7f5460b357a1c8b62c75dd33f5',
 'np-df-133': 'ca2d932ae25942de6f3a243298f8a967c354eb4fd84072bd563bac1aa67606a6',
 'np-df-134': '8662881ba0e6ddf03b2a0fd8fee0882acce57f496117e2a8d77e863360f71252',
 'np-df-135': '239a300a57e2c7be66eeb7b24285d80036e9af297e9d45b21786c133a47c279a',
 'np-df-136': '975d2357a265ebe422c2b24628e13ac13ab0497aca686fdbef65e90fe22ba5b8',
 'np-df-137': '7efc3c5161ea63de0568661b08e235a878a60206e910e12a417387d2d90b2242',
 'np-df-138': '1333cef3cf6e798926a0a31e38726edc6b0e4755d18ad28e684553d2607efccf',
 'np-df-139': '9311e349b5d6724b9c84236fced8665f82b20743678665589f3b39fa4e53e912',
 'np-df-14': '8662881ba0e6ddf03b2a0fd8fee0882acce57f496117e2a8d77e863360f71252',
 'np-df-140': 'da578a38fb65b4fa2e5bf2739cd3e0f76846f74154b7e81474f16dcdd207ac5f',
 'np-df-141': '8282cbec7632bea8869f93073f9428ffa924bc5cec506501e1aa924cc9fdf211',
 'np-df-142': '01b81d867bee6924f3cd33ede9b618df1e843129d558e8af06ef11b7baa6d603',
 'np-df-143': '45e8c3f6a25db27862f75bdbcb92f8f5fd25231aacbba0178edc226eee1f32df',
 'np-df-144': '4b6dda9e240e6852542210428be9cba97e06be311c02c2d78142ce37b3ea9bc1',
 'np-df-145': 'a1aa08b0f2d50ad823618eadea4886a51499eb675304ddb2d2740d5a5f7cfb04',
 'np-df-146': 'fab7c53a68e0bd92f159cc4ba42277786ea3c62b596d796bfc5d5212309cd3c9',
 'np-df-147': '3b7f58ffda5cb66f20c83e10055d5b507e3656656f2320826970a77f4fdd1a9c',
 'np-df-148': '129245c20bf840bda82466cfaa179f948153e053e0e023c6976c3ae039539dda',
 'np-df-149': '5c649b1c0856929a2f202a1fc5ff1c3e33dffd32bb254b052f6bf8757bfeb389',
 'np-df-15': 'a179dec6c3d4d86340f865d5fe4eb30d69cc5f6d707683155e80b6a2972273fe',
 'np-df-150': 'a179dec6c3d4d86340f865d5fe4eb30d69cc5f6d707683155e80b6a2972273fe',
 'np-df-16': 'dbf87a210b178bd6151096cf86491da779b6d2223243c9399509ddc7bf134ec3',
 'np-df-17': '3ef635fdd368872182c80603c64acc7ffba7234b5e8d9b0f7531c2bf98920100',
 'np-df-18': '1333cef3cf6e798926a0a31e38726edc6b0e4755d18ad28e684553d2607efccf',
 'np-df-19': '8662881ba0e6ddf03b2a0fd8fee0882acce57f496117e2a8d77e863360f71252',
 'np-df-2': '01b81d867bee6924f3cd33ede9b618df1e843129d558e8af06ef11b7baa6d603',
 'np-df-20': 'f695c8f7016660c8e427c7c42b6a5e9d932f5be8fa8cbe1b8038d413fb5fbceb',
 'np-df-21': 'eb35c207f9a26f9b0ba101aaaa45422762105926bb4f9952e3ab204c040fd214',
 'np-df-22': '01b81d867bee6924f3cd33ede9b618df1e843129d558e8af06ef11b7baa6d603',
 'np-df-23': '1333cef3cf6e798926a0a31e38726edc6b0e4755d18ad28e684553d2607efccf',
 'np-df-24': '0b3400a546c55059a5f5568bd219613633de67b380094dd74a393335f78dcb35',
 'np-df-25': 'a179dec6c3d4d86340f865d5fe4eb30d69cc5f6d707683155e80b6a2972273fe',
 'np-df-26': 'fab7c53a68e0bd92f159cc4ba42277786ea3c62b596d796bfc5d5212309cd3c9',
 'np-df-27': '58d6ab29c6862c3ceab475b1b651f1b708f95dc649c83b93f2c95808a86e7823',
 'np-df-28': '8b187981824d77f0b3b4152426f93f37ffb4ca105da8c87dc9b024aee4dce684',
 'np-df-29': '70671509ad0651415facaba218b2ed803538b8f93870a386275a5fdbe82d4e4a',
 'np-df-3': '1333cef3cf6e798926a0a31e38726edc6b0e4755d18ad28e684553d2607efccf',
 'np-df-30': 'a179dec6c3d4d86340f865d5fe4eb30d69cc5f6d707683155e80b6a2972273fe',
 'np-df-31': '602c872909a2fe69cff8a6e3f281a81bfeb94480c424385b409c21469f815b17',
 'np-df-32': '2392947ef0d13803bac83fe222671e6f02c91cdcfa426571dbaad1b52adbc266',
 'np-df-33': '1dab26eb8745b24932a7346a91a8937e1a6231ffa6bfaaf9c9523db1779602d2',
 'np-df-34': '8662881ba0e6ddf03b2a0fd8fee0882acce57f496117e2a8d77e863360f71252',
 'np-df-35': 'a8a4bd7d0a78f6af105d445d0dc5d55610390e6d19d87350df2e5307a6a1c8e8',
 'np-df-36': 'd27ed9940488c2830253915519b907542acdbd1993931f978fed1572b5b270f2',
 'np-df-37': 'eb95762431dae555c4da72f13e3d38e7b53c7dd516d32c37ed441336e93205fc',
 'np-df-38': '1333cef3cf6e798926a0a31e38726edc6b0e4755d18ad28e684553d2607efccf',
 'np-df-39': 'fce6a12cc20518d914f2657b6b9abda55031b37d9db79e2f696432493545dac8',
 'np-df-4': '456be52a8f5db1c07a1b4d24ac212cf324360d405454ff655f3796ca71220c0e',
 'np-df-40': '58fad902abaff4f7386c02190b6a1a9dd37a5305e5fffa5afc911564f666b094',
 'np-df-41': '29758f10ab2d4a931e41baaf980ac5e64fc9726c429287212d7c013f1ca1fb24',
 'np-df-42': '01b81d867bee6924f3cd33ede9b618df1e843129d558e8af06ef11b7baa6d603',
 'np-df-43': 'ee323dc801fea14fd448314288f714e561353b76413be85ddc5e3836b17aad91',
 'np-df-44': 'f3cf96ad060554b2abfb328176fc7e46496af10d817d847d80b3547c4d643633',
 'np-df-45': 'eccb28df905b1fa6b5c5e0294db18d51f2e2257154182448437321d56ad39949',
 'np-df-46': 'fab7c53a68e0bd92f159cc4ba42277786ea3c62b596d796bfc5d5212309cd3c9',
 'np-df-47': 'b42515938db9814c746a2b092a596dd90ef6bc24f879e7e2b31352408062eec7',
 'np-df-48': '2435e24370c1e6175a7b522fbdfb59d47b40e8df22213ffae30cd2b560f98543',
 'np-df-49': '4603719aeb53fd67d34471451b9e2c61aa4cc45d462c5d50d04730a19d417ade',
 'np-df-5': '49790db9665cb2f83d81c5283d62d74e24cc2cdab42a0db1e63776677205a92d',
 'np-df-50': 'a179dec6c3d4d86340f865d5fe4eb30d69cc5f6d707683155e80b6a2972273fe',
 'np-df-51': '849dad5bc03ed974dd91ce556776a5e7f1409352779f39a20902929b467f7edd',
 'np-df-52': 'e843c38f19f195f5249aeceb9311c5b102a8151f68714fd5ebe013dcd2e665bc',
 'np-df-53': '62c24523e511ada815d6ce32dab7778c218fb3a4475967d802133017acfb664f',
 'np-df-54': '8662881ba0e6ddf03b2a0fd8fee0882acce57f496117e2a8d77e863360f71252',
 'np-df-55': '81d68bb53075a0c243794f9eed4c548cd269782bc403b5ccf26a503066585faa',
 'np-df-56': '1bc0ef46d1ca328561fe3d1879681be8077e20506beb026c9238a0f6145ee8a6',
 'np-df-57': 'c1fa609c83055120a368bef5af248b02729d325fea6cda534b756ec46c6c045a',
 'np-df-58': '1333cef3cf6e798926a0a31e38726edc6b0e4755d18ad28e684553d2607efccf',
 'np-df-59': '8d84cb03e3d9028ce4ea88deaa9b69ac93f7ff067b4785c06b520b4108901128',
 'np-df-6': 'fab7c53a68e0bd92f159cc4ba42277786ea3c62b596d796bfc5d5212309cd3c9',
 'np-df-60': '866124287ac47d5623ae450c0fc0b1ebd740566811ffdc6c50ee2e2ce478bd88',
 'np-df-61': '6348cb4581ddd3ec6a67064a481aea4767064139e97f44f66b9ad667f3ebeefb',
 'np-df-62': '01b81d867bee6924f3cd33ede9b618df1e843129d558e8af06ef11b7baa6d603',
 'np-df-63': '2a6a811331fb66cb019ca56e2bf72643ea8155b83d9ea80f7589e924e1783c2f',
 'np-df-64': '086c883ac853c46b5b40eb07b38497466b974d89f06ed5e896c73d2e3820323f',
 'np-df-65': 'afb51cb0d364991dd464396b82aa3b447d790746eed334fd942f8b6e8e688e27',
 'np-df-66': 'fab7c53a68e0bd92f159cc4ba42277786ea3c62b596d796bfc5d5212309cd3c9',
 'np-df-67': '57f89baa42034964bfc0573a3d0af9726cbfe2271369bc05b5fcef0314418ff2',
 'np-df-68': 'ea07a95d23a316ce18c2c240a8d42ff6494b8e319734ab344cf4913416f76026',
 'np-df-69': '792f0a49158b9cd12f8f86f40e4cfa18f85b9dd172ace5bf852f3ddc21c945a7',
 'np-df-7': '01b81d867bee6924f3cd33ede9b618df1e843129d558e8af06ef11b7baa6d603',
 'np-df-70': 'a179dec6c3d4d86340f865d5fe4eb30d69cc5f6d707683155e80b6a2972273fe',
 'np-df-71': 'e1f094c7e29d6bd65510ce1c99887efb375fa603047a328d23d0c361b933c3ec',
 'np-df-72': 'df7fa8555d13b789de8f93410232a4b67d1cfeb2336c492f42d2b6dfea7e0fba',
 'np-df-73': 'e7eef5ad1bd11caee630a8ad1139979fc6c6b78bfb916ecba15aa1bee96d111d',
 'np-df-74': '8662881ba0e6ddf03b2a0fd8fee0882acce57f496117e2a8d77e863360f71252',
 'np-df-75': 'd576ba4ca17de107302f69ac810ece0a7c445cd8f4d7a3a22bff3590bc533419',
 'np-df-76': '548c7b9f40341fabdacf72b8377e2183d6c1b0c4dda31014b73a41d8efd86b8e',
 'np-df-77': '92f460ffdd7ed9094aa610034d0a2870e1ade369b98c22951b88799b4312f8a1',
 'np-df-78': '1333cef3cf6e798926a0a31e38726edc6b0e4755d18ad28e684553d2607efccf',
 'np-df-79': 'c5b1821d437c9a0661add8d5cd1b448fd94f94c24c4b35b1514569b834d6b0dc',
 'np-df-8': '9d4b7fd5f82f38341ace01fac2c588950b41c0ca7bf024e1b2e8548f92b74ef5',
 'np-df-80': '93bc577f0aa0590c960dd5380cbbfe2417df7fffe180829e61402b3d158fea88',
 'np-df-81': 'ac9a4a770315c252dfa33ac985fcc92d1d88b7714ea35f020121539890b00fb2',
 'np-df-82': '01b81d867bee6924f3cd33ede9b618df1e843129d558e8af06ef11b7baa6d603',
 'np-df-83': 'bd89cd158326ad16efc9638a0bda05e3b410947523645b30804777bacc10b071',
 'np-df-84': '560da983c4c00be10a1daee7ce212868c98765dd3b71cca02dd21679be1aea40',
 'np-df-85': '4685bade0a00f8277f6b03570a92fecafd73e59c7c713b49994292dd4306d859',
 'np-df-86': 'fab7c53a68e0bd92f159cc4ba42277786ea3c62b596d796bfc5d5212309cd3c9',
 'np-df-87': 'bbbf16ab1252e379cb3233ad7052297da9dba763fa64fa584140be8b765c5782',
 'np-df-88': '93093f301db6c27e82da908abc84f6571b9d4a5ccf3d22208394db27f8105c11',
 'np-df-89': 'a2c7ad0e9083f14cb98ae6fbeb8d1011719944fa66300b131bcb31d23111c713',
 'np-df-9': '599369817b1d67430184f99baed4afb8480d48eb50f92944b763fb1e04540d06',
 'np-df-90': 'a179dec6c3d4d86340f865d5fe4eb30d69cc5f6d707683155e80b6a2972273fe',
 'np-df-91': '01d7fa06141eb440673b286c5d6740512358273ae2b8e3966c82ae66403a734f',
 'np-df-92': '6168c058bf49ba462a18950c8957351396a3305e22ecf92fab3a56a1136c4465',
 'np-df-93': '616a465045e824e91afed588a995c4939a49114ef25f0be64f948d42d324d92f',
 'np-df-94': '8662881ba0e6ddf03b2a0fd8fee0882acce57f496117e2a8d77e863360f71252',
 'np-df-95': 'e23b96132eb7ac4fda92974f47c385a8ebae11efa6599ac62d7a4963b5725605',
 'np-df-96': 'e83dfb11a7fda0cbcd17dfd7c917ec2b512e10f02ccacf83091bbdacdce2483c',
 'np-df-97': 'd4a87873d0dc2575e6744a848bd7a421580b67f08412201269e17df22864a753',
 'np-df-98': '1333cef3cf6e798926a0a31e38726edc6b0e4755d18ad28e684553d2607efccf',
 'np-df-99': 'cdd5991d989b696f83569328425c73aa211ce53774912110f695e83800712470'}


if __name__ == '__main__':
    print('xrspatial from', xrspatial.__file__)
    out, bad = run()
    if '--record' in sys.argv:
        import pprint
        pprint.pprint(out, width=120)
        sys.exit(0)
    rc = 0
    if bad:
        print('brute-force mismatches:', bad[:20])
        rc = 1
    if set(out) != set(EXPECTED):
        print('case set differs')
        rc = 1
    diff = [key for key in out if EXPECTED.get(key) != out[key]]
    if diff:
        print('%d digests differ, e.g. %s' % (len(diff), diff[:10]))
        rc = 1
    print('cases: %d  ->  %s' % (len(out), 'IDENTICAL' if rc == 0 else 'DIFFERENT'))
    sys.exit(rc)
