"""Differential test for TC19-t19 (circle/annulus kernel construction).

Runs circle_kernel / annulus_kernel / _ellipse_kernel (and the focal functions
that consume them) over a grid of radii, cell sizes and units, and compares
 (a) against an independent pure-Python re-implementation of the ellipse mask, and
 (b) against a digest recorded from the unmodified tree (values, dtypes, shapes,
     exception types and messages).
Exit code 0 when everything is identical.
"""
import hashlib
import itertools
import sys

import numpy as np
import xarray as xr

import xrspatial
from xrspatial import convolution as cv

EXPECTED_DIGEST = "5a166838ac6ed4862aeb1abe95e860e2395105a16bb2a8e02089ec4882a58caa"

UNIT = {'': 1, 'm': 1, 'km': 1000, 'ft': 0.3048, 'ml': 1609.344, ' Meters': 1,
        'KM': 1000, 'feet': 0.3048, 'miles': 1609.344}

h = hashlib.sha256()
fails = []


def feed(tag, obj):
    if isinstance(obj, np.ndarray):
        h.update(repr((tag, str(obj.dtype), obj.shape)).encode())
        h.update(np.ascontiguousarray(obj).tobytes())
    else:
        h.update(repr((tag, obj)).encode())


def call(tag, f, *a, **k):
    try:
        r = f(*a, **k)
    except Exception as e:  # noqa
        feed(tag, ('EXC', type(e).__name__, str(e)))
        return None
    feed(tag, r)
    return r


def ref_circle(csx, csy, metres):
    hw = int(metres / csx)
    hh = int(metres / csy)
    out = np.zeros((2 * hh + 1, 2 * hw + 1), dtype=np.float64)
    for i, y in enumerate(range(-hh, hh + 1)):
        for j, x in enumerate(range(-hw, hw + 1)):
            if (x * hh) ** 2 + (y * hw) ** 2 <= (hw * hh) ** 2:
                out[i, j] = 1.0
    return out


cellsizes = [1, 2, 3, 0.5, 0.3, 1.7, 10, 30.0, 250]
radii = [1, 2, 3, 4.5, 7, 10, 12.25, 31, 60]
units = list(UNIT)

# ---- circle kernels vs. independent reference
for csx, csy, r, u in itertools.product(cellsizes[:7], cellsizes[:7], radii, units):
    rad = '%s%s' % (r, u) if u else r
    metres = float(r) * UNIT[u]
    if int(metres / csx) > 300 or int(metres / csy) > 300:
        continue   # keep kernels small
    k = call(('circle', csx, csy, rad), cv.circle_kernel, csx, csy, rad)
    exp = ref_circle(csx, csy, metres)
    if k is None or k.dtype != np.float64 or k.shape != exp.shape or not np.array_equal(k, exp):
        fails.append(('circle', csx, csy, rad))
    else:
        if k.shape[0] % 2 != 1 or k.shape[1] % 2 != 1:
            fails.append(('odd', csx, csy, rad))
        if not (np.array_equal(k, k[::-1]) and np.array_equal(k, k[:, ::-1])):
            fails.append(('flip', csx, csy, rad))

# ---- annulus kernels vs. independent reference
for csx, csy in [(1, 1), (1, 2), (2, 1), (0.5, 0.3), (3, 1.7), (10, 30.0), (250, 250)]:
    for ro, ri in itertools.product(['3', 5, '7.5', '40ft', '0.1km', '2 km', '1ml', 900],
                                    [1, '2', 2.5, '3m', '10ft', '0.05km', '0.5ml', 5, 1000]):
        def met(v):
            s = str(v)
            for u in ('km', 'ml', 'ft', 'm'):
                if s.replace(' ', '').endswith(u):
                    return float(s.replace(' ', '')[:-len(u)]) * UNIT[u]
            return float(s)
        if max(met(ro), met(ri)) / min(csx, csy) > 700:
            continue   # keep kernels small
        k = call(('annulus', csx, csy, ro, ri), cv.annulus_kernel, csx, csy, ro, ri)
        if k is None:
            continue
        o = ref_circle(csx, csy, met(ro))
        i = ref_circle(csx, csy, met(ri))
        pr = (o.shape[0] - i.shape[0]) // 2
        pc = (o.shape[1] - i.shape[1]) // 2
        exp = o.copy()
        exp[pr:pr + i.shape[0], pc:pc + i.shape[1]] -= i
        if k.dtype != np.float64 or k.shape != exp.shape or not np.array_equal(k, exp):
            fails.append(('annulus', csx, csy, ro, ri))
        if k.min() < 0:
            fails.append(('annulus-negative', csx, csy, ro, ri))

# ---- private helper, including degenerate / error inputs
for hw, hh in [(0, 0), (0, 3), (3, 0), (1, 1), (5, 2), (2, 5), (40, 17), (-1, 2), (2, -1),
               (3000000, 0), (0, 3000000)]:
    call(('ellipse', hw, hh), cv._ellipse_kernel, hw, hh)

# ---- error behaviour of the public functions
for args in [(1, 1, 0), (1, 1, -3), (1, 1, 'abc'), (1, 1, '3 parsecs'), (1, 1, '1e3'),
             (1, 1, '3km2'), (0, 1, 3), (1, 0, 3), (-1, 1, 3), (1, -1, 3), (1, 1, 'nan'),
             (1, 1, 'inf'), (1, 1, '0.2km'), (1, 1, None), (1, 1, ''), (1, 1, '.5'), (1, 1, '5.'),
             (np.float32(0.5), np.int64(2), np.float64(7.5)), (1, 1, True)]:
    call(('circle-err', repr(args)), cv.circle_kernel, *args)
for args in [(1, 1, 1, 3), (1, 1, 3, 3), (1, 1, 3, 0), (1, 1, 'x', 1), (2, 1, 2, 5),
             (1, 2, 4, 9), (1, 1, 4, '0.3km'), (-1, 1, 4, 2), (1, 1, 0.5, 0.25)]:
    call(('annulus-err', repr(args)), cv.annulus_kernel, *args)

# ---- consumers: focal mean/apply/hotspots with these kernels on numpy and dask
import dask.array as da  # noqa
from xrspatial import focal  # noqa

rng = np.random.RandomState(19)
base = rng.rand(17, 23) * 100
base[3, 4] = np.nan
base[10, 20] = np.nan
for dt in (np.float64, np.float32, np.int32):
    data = base.astype(dt) if dt != np.int32 else np.nan_to_num(base).astype(dt)
    for kern in (cv.circle_kernel(1, 1, 2), cv.annulus_kernel(1, 2, 4, 1),
                 cv.annulus_kernel(1, 1, 3, 1)):
        agg_np = xr.DataArray(data, dims=['y', 'x'])
        agg_da = xr.DataArray(da.from_array(data, chunks=(6, 8)), dims=['y', 'x'])
        r_np = call(('apply-np', str(dt), kern.shape), lambda: focal.apply(agg_np, kern).values)
        r_da = call(('apply-da', str(dt), kern.shape),
                    lambda: focal.apply(agg_da, kern).compute().values)
        if r_np is None or r_da is None or not np.array_equal(r_np, r_da, equal_nan=True):
            fails.append(('apply np/dask', str(dt), kern.shape))
        call(('fstats-np', str(dt), kern.shape),
             lambda: focal.focal_stats(agg_np, kern, stats_funcs=['mean', 'sum']).values)
        call(('hotspots-np', str(dt), kern.shape), lambda: focal.hotspots(agg_np, kern).values)

digest = h.hexdigest()
print('xrspatial from', xrspatial.__file__)
print('digest', digest)
if fails:
    print('INDEPENDENT REFERENCE MISMATCHES:', fails[:20], len(fails))
    sys.exit(1)
if EXPECTED_DIGEST.startswith('@@'):
    print('no digest recorded')
    sys.exit(2)
if digest != EXPECTED_DIGEST:
    print('DIGEST MISMATCH, expected', EXPECTED_DIGEST)
    sys.exit(1)
print('OK')
