"""Differential test for C18 (zonal.trim / zonal.crop).

Expected windows are computed by an independent pure-Python reference
(ref_trim_bounds / ref_crop_bounds) that mirrors the documented scan
semantics, including the degenerate "nothing kept" windows; error behaviour
is compared against exception type names recorded from the unmodified tree.
Run from inside the worktree:
    cd <worktree> && PYTHONPATH=<worktree> /venv/bin/python equiv.py
Exit code 0 = identical, 1 = mismatch.
"""
import itertools
import math
import sys
import warnings

import numpy as np
import xarray as xr

warnings.filterwarnings("ignore")

import xrspatial  # noqa: E402
from xrspatial.zonal import crop, trim  # noqa: E402

FAILS = []


def fail(msg):
    FAILS.append(msg)
    print("MISMATCH:", msg)


# --------------------------------------------------------------------------
# independent reference
# --------------------------------------------------------------------------
def _isnan(v):
    try:
        return math.isnan(v)
    except TypeError:
        return False


def ref_keep_trim(data, excludes):
    rows, cols = data.shape
    keep = [[True] * cols for _ in range(rows)]
    for y in range(rows):
        for x in range(cols):
            v = data[y, x].item()
            for e in excludes:
                if e == v or (_isnan(e) and _isnan(v)):
                    keep[y][x] = False
    return keep


def ref_keep_crop(data, ids):
    rows, cols = data.shape
    keep = [[False] * cols for _ in range(rows)]
    for y in range(rows):
        for x in range(cols):
            v = data[y, x].item()
            for e in ids:
                if e == v:
                    keep[y][x] = True
    return keep


def ref_bounds(keep, rows, cols):
    krows = [y for y in range(rows) if any(keep[y])]
    kcols = [x for x in range(cols) if any(keep[y][x] for y in range(rows))]
    # nothing kept: the forward scans run off the far end, the backward
    # scans run down to index 0
    top = krows[0] if krows else max(rows - 1, 0)
    bottom = krows[-1] if krows else 0
    left = kcols[0] if kcols else max(cols - 1, 0)
    right = kcols[-1] if kcols else 0
    return top, bottom, left, right


def same_da(got, exp, label):
    if not isinstance(got, xr.DataArray):
        fail(f"{label}: result type {type(got)}")
        return
    if got.dims != exp.dims:
        fail(f"{label}: dims {got.dims} != {exp.dims}")
    if got.shape != exp.shape:
        fail(f"{label}: shape {got.shape} != {exp.shape}")
        return
    if got.dtype != exp.dtype:
        fail(f"{label}: dtype {got.dtype} != {exp.dtype}")
    if type(got.data) is not type(exp.data):
        fail(f"{label}: backend {type(got.data)} != {type(exp.data)}")
    g = np.asarray(got.data)
    e = np.asarray(exp.data)
    if g.tobytes() != e.tobytes():
        fail(f"{label}: values differ")
    if dict(got.attrs) != dict(exp.attrs):
        fail(f"{label}: attrs differ")
    if set(got.coords) != set(exp.coords):
        fail(f"{label}: coord names differ")
    for c in exp.coords:
        if c in got.coords:
            gc, ec = got.coords[c], exp.coords[c]
            if gc.dims != ec.dims or gc.values.tobytes() != ec.values.tobytes() \
                    or gc.dtype != ec.dtype:
                fail(f"{label}: coord {c} differs")


def mk(data, ydim="y", xdim="x", reverse_y=False):
    rows, cols = data.shape
    ys = np.linspace(40.0, 41.0, rows) if rows else np.zeros(0)
    if reverse_y:
        ys = ys[::-1].copy()
    xs = np.arange(cols) * 2.5 - 7.0
    da_ = xr.DataArray(
        data, dims=[ydim, xdim],
        coords={ydim: ys, xdim: xs, "band": 3,
                "lab": (xdim, np.array([f"c{i}" for i in range(cols)], dtype=object))},
        attrs={"res": (2.5, 0.1), "crs": "EPSG:4326", "nested": {"a": [1, 2]}},
        name="orig",
    )
    return da_


def check_trim(data, excludes, label, **kw):
    raster = mk(data, **kw)
    before = raster.copy(deep=True)
    t, b, l, r = ref_bounds(ref_keep_trim(data, excludes), *data.shape)
    exp = raster[t:b + 1, l:r + 1]
    for name in (None, "my_trim"):
        if name is None:
            got = trim(raster, excludes)
            exp_name = "trim"
        else:
            got = trim(raster=raster, values=excludes, name=name)
            exp_name = name
        same_da(got, exp, label)
        if got.name != exp_name:
            fail(f"{label}: name {got.name!r}")
    if raster.name != "orig" or not raster.identical(before):
        fail(f"{label}: input modified")


def check_crop(zdata, vdata, ids, label):
    zones = mk(zdata)
    values = mk(vdata, ydim="lat", xdim="lon", reverse_y=True)
    t, b, l, r = ref_bounds(ref_keep_crop(zdata, ids), *zdata.shape)
    exp = values[t:b + 1, l:r + 1]
    got = crop(zones, values, ids)
    same_da(got, exp, label)
    if got.name != "crop":
        fail(f"{label}: name {got.name!r}")
    got = crop(zones=zones, values=values, zones_ids=ids, name="cc")
    same_da(got, exp, label + "/kw")
    if got.name != "cc":
        fail(f"{label}: name {got.name!r}")
    if values.name != "orig" or zones.name != "orig":
        fail(f"{label}: input renamed")


def exc_name(f):
    try:
        f()
    except Exception as e:  # noqa
        return type(e).__name__
    return "ok"


# --------------------------------------------------------------------------
# inputs
# --------------------------------------------------------------------------
rng = np.random.RandomState(1807)
nan = np.nan

shapes = [(1, 1), (1, 7), (6, 1), (2, 2), (3, 5), (7, 4), (9, 11)]
n_cases = 0

# 1. systematic: kept block touching any subset of the four borders
for (rows, cols) in shapes:
    for t_, b_, l_, r_ in itertools.product((0, 1), repeat=4):
        top = 0 if t_ else min(1, rows - 1)
        bottom = rows - 1 if b_ else max(rows - 2, top)
        left = 0 if l_ else min(2, cols - 1)
        right = cols - 1 if r_ else max(cols - 2, left)
        for dtype in (np.float64, np.float32, np.int32, np.int64, np.uint8):
            floaty = np.issubdtype(dtype, np.floating)
            bg = nan if floaty else 0
            d = np.full((rows, cols), bg, dtype=dtype)
            # only the corners of the block are kept, interior is mixed
            blk = rng.randint(0, 3, size=(bottom - top + 1, right - left + 1)).astype(dtype)
            if floaty:
                blk[blk == 0] = nan
            d[top:bottom + 1, left:right + 1] = blk
            d[top, left] = 5
            d[bottom, right] = 6
            lab = f"sys{(rows, cols)}{(t_, b_, l_, r_)}{np.dtype(dtype).name}"
            if floaty:
                check_trim(d, (nan,), lab + "/nan")
                check_trim(d, [nan, 1.0], lab + "/nan,1")
                check_trim(d, [5.0, nan], lab + "/5,nan")
                check_trim(d, [2.0], lab + "/2")
                check_crop(d, d * 2, [5.0, 6.0], lab + "/crop56")
                check_crop(d, d, [1.0], lab + "/crop1")
                check_crop(d, d, [nan], lab + "/cropnan")   # NaN never matches
            else:
                check_trim(d, [0], lab + "/0")
                check_trim(d, (0, 1), lab + "/0,1")
                check_trim(d, [0, 5], lab + "/0,5")
                check_trim(d, (nan,), lab + "/nan-on-int")
                check_trim(d, [0.0, 1.0], lab + "/float-excl")
                check_trim(d, [0.5], lab + "/0.5")
                check_crop(d, d.astype("f4") / 3, [5, 6], lab + "/crop56")
                check_crop(d, d, (2,), lab + "/crop2")
                check_crop(d, d, [5.0], lab + "/crop5.0")
                check_crop(d, d, [1.5], lab + "/crop1.5")
            n_cases += 1

# 2. random rasters
for i in range(150):
    rows, cols = rng.randint(1, 9), rng.randint(1, 9)
    p = rng.choice([0.1, 0.5, 0.9, 1.0])
    d = rng.randint(1, 4, size=(rows, cols)).astype(float)
    d[rng.rand(rows, cols) < p] = nan
    d[rng.rand(rows, cols) < 0.2] = np.inf
    check_trim(d, (nan,), f"rnd{i}/nan")
    check_trim(d, [nan, np.inf], f"rnd{i}/nan,inf")
    check_trim(d, [1.0, 2.0, 3.0, np.inf], f"rnd{i}/123inf")
    check_trim(d, [-np.inf, 7.0], f"rnd{i}/none")
    check_trim(d.astype("f4"), (nan, 3.0), f"rnd{i}/f4")
    z = rng.randint(0, 5, size=(rows, cols))
    v = rng.rand(rows + 1, cols + 2)          # values larger than zones
    check_crop(z, v, [1, 3], f"rnd{i}/crop13")
    check_crop(z, v[:max(rows - 1, 1), :max(cols - 1, 1)], [4], f"rnd{i}/cropsmall")
    check_crop(z, v, [9], f"rnd{i}/cropnone")
    check_crop(z.astype("i2"), v.astype("f4"), (0, 4, 2), f"rnd{i}/cropi2")
    check_crop(d, v, [np.inf, 2.0], f"rnd{i}/cropfloatzones")
    n_cases += 1

# 3. degenerate / special rasters
check_trim(np.zeros((0, 3)), (nan,), "empty rows")
check_trim(np.zeros((3, 0)), (nan,), "empty cols")
check_trim(np.zeros((0, 0)), [0.0], "empty")
check_trim(np.full((4, 4), nan), (nan,), "all nan 4x4")
check_trim(np.full((1, 4), nan), (nan,), "all nan 1x4")
check_trim(np.full((4, 1), nan), (nan,), "all nan 4x1")
check_trim(np.full((1, 1), nan), (nan,), "all nan 1x1")
check_trim(np.zeros((3, 3), dtype=bool), [0], "bool zeros")
check_trim(np.eye(4, dtype=bool), [False], "bool eye")
check_trim(np.array([[0.0, -0.0], [-0.0, 1.0]]), [0.0], "neg zero")
check_trim(np.asfortranarray(np.pad(np.ones((2, 3)), 2)), [0.0], "fortran order")
check_trim(np.pad(np.ones((2, 3)), 3)[::2, ::-1], [0.0], "strided view")
check_crop(np.zeros((0, 3)), np.zeros((2, 2)), [1.0], "crop empty zones")
check_crop(np.zeros((4, 4), dtype=int), np.arange(16.).reshape(4, 4), [1], "crop none 4x4")
check_crop(np.zeros((1, 4), dtype=int), np.arange(4.).reshape(1, 4), [1], "crop none 1x4")
check_crop(np.eye(5, dtype=bool), np.arange(25).reshape(5, 5), [True], "crop bool")
check_crop(np.asfortranarray(np.pad(np.ones((2, 3)), 2)), np.arange(49).reshape(7, 7), [1.0],
           "crop fortran")

# docstring-style example
arr = np.array([[nan, nan, nan, nan],
                [nan, 4, 0, nan],
                [nan, 0, 1, nan],
                [nan, nan, nan, nan]])
got = trim(xr.DataArray(arr, dims=["y", "x"]))
if got.shape != (2, 2) or got.values.tolist() != [[4.0, 0.0], [0.0, 1.0]]:
    fail("literal trim example")
got = crop(xr.DataArray(arr, dims=["y", "x"]), xr.DataArray(arr * 10, dims=["y", "x"]), [0.0])
if got.values.tolist() != [[40.0, 0.0], [0.0, 10.0]]:
    fail("literal crop example")

# 4. error behaviour, exception type names recorded on the unmodified tree
import dask.array as da  # noqa: E402

dsk = xr.DataArray(da.from_array(np.arange(12.).reshape(3, 4), chunks=2), dims=["y", "x"])
z33 = xr.DataArray(np.zeros((3, 3)), dims=["y", "x"])
recorded = [
    ("trim dask", lambda: trim(dsk), "TypingError"),
    ("crop dask", lambda: crop(dsk, dsk, [1.0]), "TypingError"),
    ("crop dask values only", lambda: crop(z33, dsk, [0.0]).shape, "ok"),
    ("trim empty list", lambda: trim(z33, []), "ValueError"),
    ("crop empty list", lambda: crop(z33, z33, []), "ValueError"),
    ("trim 1d", lambda: trim(xr.DataArray(np.zeros(3))), "TypingError"),
    ("crop 1d", lambda: crop(xr.DataArray(np.zeros(3)), z33, [0.0]), "TypingError"),
    ("trim 3d", lambda: trim(xr.DataArray(np.zeros((2, 2, 2)))), "TypingError"),
    ("trim hetero list", lambda: trim(z33, [0, nan]), "TypeError"),
    ("trim hetero tuple", lambda: trim(z33, (0, 1.5)), "TypingError"),
    ("trim complex", lambda: trim(xr.DataArray(np.zeros((3, 3), dtype=complex)), (0.0,)).shape,
     "ok"),
    ("trim str excl", lambda: trim(z33, ["a"]), "TypingError"),
    ("trim ndarray input", lambda: trim(np.zeros((3, 3))), "AttributeError"),
    ("crop values ndarray", lambda: crop(z33, np.zeros((3, 3)), [0.0]), "AttributeError"),
    ("trim scalar values", lambda: trim(z33, 0.0), "TypingError"),
]
for label, f, exp in recorded:
    got = exc_name(f)
    if got != exp:
        fail(f"error case {label}: {got} (recorded {exp})")

# dask-backed `values` with numpy zones keeps the lazy backend and window
got = crop(xr.DataArray(np.array([[0, 0, 0], [0, 1, 1], [0, 0, 0]]), dims=["y", "x"]),
           dsk[:, :3], [1])
if not isinstance(got.data, da.Array) or got.compute().values.tolist() != [[5.0, 6.0]]:
    fail("crop with dask values")

# the private kernels must stay reachable from xrspatial.zonal
import xrspatial.zonal as zonal  # noqa: E402

for fn, args in ((zonal._trim, (np.array([[nan, 1.0, nan]]), (nan,))),
                 (zonal._crop, (np.array([[0, 1, 0]]), [1]))):
    res = tuple(int(i) for i in fn(*args))
    if res != (0, 0, 1, 1):
        fail(f"{fn} bounds {res}")

print(f"xrspatial from {xrspatial.__file__}; {n_cases} raster groups checked; "
      f"{len(FAILS)} mismatches")
sys.exit(1 if FAILS else 0)
