"""Differential test for C18 (trim / crop return the minimal window).

Expected results are computed by an independent pure-numpy reference
(`ref_window`) that mirrors the documented behaviour, including the
degenerate case in which no cell is kept (recorded from the unmodified
tree: top = rows - 1, bottom = 0, left = cols - 1, right = 0, hence an
empty or single-cell slice).  Exit code 0 iff everything is identical.
"""
import itertools
import sys

import numpy as np
import xarray as xr

import xrspatial
from xrspatial import crop, trim
from xrspatial import zonal

FAILS = []


def check(cond, msg):
    if not cond:
        FAILS.append(msg)


def in_set(arr, vals, nan_matches):
    m = np.zeros(arr.shape, dtype=bool)
    for v in vals:
        m |= (arr == v)
        if nan_matches and isinstance(v, float) and np.isnan(v):
            if arr.dtype.kind == 'f':
                m |= np.isnan(arr)
    return m


def ref_window(keep):
    """window (top, bottom, left, right) inclusive, from boolean keep mask"""
    rows, cols = keep.shape
    assert rows > 0 and cols > 0
    if not keep.any():
        return rows - 1, 0, cols - 1, 0
    r = np.flatnonzero(keep.any(axis=1))
    c = np.flatnonzero(keep.any(axis=0))
    return int(r[0]), int(r[-1]), int(c[0]), int(c[-1])


def make(arr, name='src'):
    rows, cols = arr.shape
    return xr.DataArray(
        arr, dims=['lat', 'lon'], name=name,
        coords={'lat': np.linspace(50.0, 40.0, rows) if rows else np.zeros(0),
                'lon': np.arange(cols) * 2.5 + 100.0},
        attrs={'res': (2.5, 1.0), 'units': 'km'})


def same_da(got, exp, label):
    check(isinstance(got, xr.DataArray), label + ': type')
    check(got.shape == exp.shape, label + ': shape %s vs %s' % (got.shape, exp.shape))
    check(got.dtype == exp.dtype, label + ': dtype')
    check(got.dims == exp.dims, label + ': dims')
    check(got.attrs == exp.attrs, label + ': attrs')
    if got.shape == exp.shape:
        check(np.array_equal(got.data, exp.data, equal_nan=(exp.dtype.kind == 'f')),
              label + ': data')
        for d in exp.dims:
            check(np.array_equal(got[d].values, exp[d].values), label + ': coord ' + d)


def run_trim(arr, vals, label):
    raster = make(arr)
    before = raster.copy(deep=True)
    got = trim(raster, values=vals, name='tt')
    keep = ~in_set(arr, vals, nan_matches=True)
    t, b, l, r = ref_window(keep)
    exp = raster[t:b + 1, l:r + 1]
    same_da(got, exp, 'trim ' + label)
    check(got.name == 'tt', 'trim name ' + label)
    # kernel bounds themselves
    check(tuple(int(v) for v in zonal._trim(arr, vals)) == (t, b, l, r),
          'trim bounds ' + label)
    # input untouched
    check(raster.name == 'src' and raster.identical(before), 'trim mutated input ' + label)


def run_crop(zarr, varr, ids, label):
    zones = make(zarr, 'z')
    values = make(varr, 'v')
    before = values.copy(deep=True)
    got = crop(zones, values, ids, name='cc')
    keep = in_set(zarr, ids, nan_matches=False)
    t, b, l, r = ref_window(keep)
    exp = values[t:b + 1, l:r + 1]
    same_da(got, exp, 'crop ' + label)
    check(got.name == 'cc', 'crop name ' + label)
    check(tuple(int(v) for v in zonal._crop(zarr, ids)) == (t, b, l, r),
          'crop bounds ' + label)
    check(values.name == 'v' and values.identical(before), 'crop mutated input ' + label)


def main():
    assert xrspatial.__file__.startswith('/tmp/t5/TC18/'), xrspatial.__file__
    rng = np.random.RandomState(1807)

    shapes = [(1, 1), (1, 6), (7, 1), (2, 2), (3, 5), (6, 4), (9, 11)]

    # ---- hand-made border cases: kept block touching every subset of borders
    for rows, cols in [(5, 6), (1, 5), (5, 1), (2, 3)]:
        for tt, bb, ll, rr in itertools.product([0, 1], repeat=4):
            t = 0 if tt else min(1, rows - 1)
            b = rows - 1 if bb else max(rows - 2, t)
            l = 0 if ll else min(1, cols - 1)
            r = cols - 1 if rr else max(cols - 2, l)
            for dt in (np.int32, np.int64, np.float32, np.float64):
                arr = np.zeros((rows, cols), dtype=dt)
                arr[t, l] = 3
                arr[b, r] = 4
                lab = 'border %s %s %s' % ((rows, cols), (tt, bb, ll, rr), np.dtype(dt).name)
                run_trim(arr, (0,), lab)
                run_trim(arr, [0], lab + ' list')
                run_crop(arr, (arr * 2).astype(np.float32), (3, 4), lab)
                run_crop(arr, arr, [4], lab + ' one id')
                if np.dtype(dt).kind == 'f':
                    arrn = arr.copy()
                    arrn[arrn == 0] = np.nan
                    run_trim(arrn, (np.nan,), lab + ' nan')
                    run_trim(arrn, [np.nan, 3.0], lab + ' nan+3')
                    run_crop(arrn, arr, (3.0, 4.0), lab + ' nan zones')
                    run_crop(arrn, arr, (np.nan,), lab + ' nan id (never matches)')

    # ---- random rasters
    for shape in shapes:
        for dt in (np.int8, np.int32, np.int64, np.uint8, np.float32, np.float64):
            for density in (0.0, 0.08, 0.3, 0.9, 1.0):
                for rep in range(3):
                    arr = (rng.rand(*shape) < density).astype(dt) * \
                        rng.randint(1, 5, size=shape).astype(dt)
                    lab = 'rand %s %s d=%s #%d' % (shape, np.dtype(dt).name, density, rep)
                    run_trim(arr, (0,), lab)
                    run_trim(arr, (0, 1), lab + ' (0,1)')
                    run_trim(arr, [2, 0, 4], lab + ' [2,0,4]')
                    run_crop(arr, rng.rand(*shape), (1,), lab + ' ids (1,)')
                    run_crop(arr, rng.rand(*shape).astype(np.float32), [2, 3], lab + ' ids [2,3]')
                    run_crop(arr, arr, (7,), lab + ' absent id')
                    if np.dtype(dt).kind == 'f':
                        arrn = arr.copy()
                        arrn[arr == 0] = np.nan
                        arrn[arr == 4] = np.inf
                        run_trim(arrn, (np.nan,), lab + ' nan default-like')
                        got = trim(make(arrn))  # default values / default name
                        t, b, l, r = ref_window(~np.isnan(arrn))
                        same_da(got, make(arrn)[t:b + 1, l:r + 1], 'trim default ' + lab)
                        check(got.name == 'trim', 'trim default name ' + lab)
                        run_trim(arrn, (np.nan, np.inf), lab + ' nan,inf')
                        run_trim(arrn, (1.0,), lab + ' nan kept')
                        run_trim(arrn, [np.inf, 1.0, 2.0, 3.0], lab + ' all but nan')
                        run_crop(arrn, arr, (np.inf, 1.0), lab + ' inf ids')
                        run_crop(arrn, arr, [np.nan, 2.0], lab + ' nan+2 ids')
                    else:
                        # float exclusion list against integer raster
                        run_trim(arr, (0.0,), lab + ' float excl')
                        run_trim(arr, (np.nan,), lab + ' nan excl on ints')
                        run_crop(arr, arr, (1.0, 2.5), lab + ' float ids')

    # ---- default name of crop
    z = np.array([[0, 1, 0], [0, 0, 2]], dtype=np.int64)
    got = crop(make(z), make(z * 10.0), (1, 2))
    check(got.name == 'crop', 'crop default name')
    same_da(got, make(z * 10.0)[0:2, 1:3], 'crop default')

    # ---- recorded behaviour on empty rasters (unmodified tree)
    for shp in [(0, 3), (3, 0), (0, 0)]:
        e = np.zeros(shp)
        g = trim(xr.DataArray(e), values=(0.0,))
        check(g.shape == (0, 0), 'trim empty %s -> %s' % (shp, g.shape))
        g = crop(xr.DataArray(e), xr.DataArray(e), (1.0,))
        check(g.shape == (0, 0), 'crop empty %s -> %s' % (shp, g.shape))
    check(tuple(int(v) for v in zonal._trim(np.zeros((0, 3)), (0.0,))) == (0, 0, 2, 0), 'e1')
    check(tuple(int(v) for v in zonal._trim(np.zeros((3, 0)), (0.0,))) == (2, 0, 0, 0), 'e2')
    check(tuple(int(v) for v in zonal._crop(np.zeros((0, 3)), (0.0,))) == (0, 0, 2, 0), 'e3')
    check(tuple(int(v) for v in zonal._crop(np.zeros((3, 0)), (0.0,))) == (2, 0, 0, 0), 'e4')

    # ---- recorded error behaviour: dask-backed and mixed-type tuples are rejected by numba
    import dask.array as da
    from numba.core.errors import TypingError
    a = np.arange(12.0).reshape(3, 4)
    for fn in (lambda: trim(xr.DataArray(da.from_array(a, chunks=(2, 2)))),
               lambda: crop(xr.DataArray(da.from_array(a, chunks=(2, 2))), xr.DataArray(a), (1.0,)),
               lambda: trim(xr.DataArray(a), values=(0, np.nan))):
        try:
            fn()
            check(False, 'expected TypingError')
        except TypingError:
            pass
        except Exception as ex:  # noqa
            check(False, 'expected TypingError, got %r' % type(ex))

    # ---- private numpy helper _bool_crop (flag vectors -> window), independent expectation
    for shape in shapes:
        for rep in range(6):
            a = rng.rand(*shape)
            rf = rng.rand(shape[0]) < 0.4
            cf = rng.rand(shape[1]) < 0.4
            rf[rng.randint(shape[0])] = True
            cf[rng.randint(shape[1])] = True
            got = zonal._bool_crop(a, rf, cf)
            ri = [i for i in range(shape[0]) if rf[i]]
            ci = [j for j in range(shape[1]) if cf[j]]
            exp = a[min(ri):max(ri) + 1, min(ci):max(ci) + 1]
            check(got.shape == exp.shape and np.array_equal(got, exp),
                  '_bool_crop %s #%d' % (shape, rep))
            got = zonal._bool_crop(make(a), rf, cf)
            same_da(got, make(a)[min(ri):max(ri) + 1, min(ci):max(ci) + 1],
                    '_bool_crop DataArray %s #%d' % (shape, rep))
    try:
        zonal._bool_crop(np.zeros((2, 2)), np.zeros(2, bool), np.ones(2, bool))
        check(False, '_bool_crop without flagged rows should raise IndexError')
    except IndexError:
        pass

    # ---- public API
    import inspect
    check(str(inspect.signature(trim)).startswith(
        "(raster: xarray.core.dataarray.DataArray, values: Union[list, tuple] = (nan,), "
        "name: str = 'trim')"), 'trim signature ' + str(inspect.signature(trim)))
    check(list(inspect.signature(crop).parameters) == ['zones', 'values', 'zones_ids', 'name'],
          'crop params')
    check(inspect.signature(crop).parameters['name'].default == 'crop', 'crop default')

    if FAILS:
        print('FAILED (%d):' % len(FAILS))
        for f in FAILS[:30]:
            print('  ', f)
        return 1
    print('OK')
    return 0


if __name__ == '__main__':
    sys.exit(main())
