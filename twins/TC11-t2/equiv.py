"""Differential test for the proximity.py refactoring (C11).

Calls proximity / allocation / direction in one process in an interleaved
sequence varying targets, max_distance, metric, dtype, shape and backend
(numpy / dask with several chunkings and schedulers).  Every result (dtype,
shape, raw bytes incl. NaN pattern) is hashed and compared with digests
recorded from the unmodified tree; additionally every call is repeated later in
the sequence (after other calls) and must reproduce its own first result.

Usage: cd <worktree> && PYTHONPATH=<worktree> python equiv.py      (exit 0 = identical)
       RECORD=1 ... python equiv.py                              (print digests)
"""
import hashlib
import os
import sys
import warnings

import numpy as np
import xarray as xr
import dask
import dask.array as da

import xrspatial
from xrspatial import proximity, allocation, direction

warnings.simplefilter('ignore')
FUNCS = {'prox': proximity, 'alloc': allocation, 'dir': direction}


def digest(a):
    a = np.asarray(a)
    h = hashlib.sha256()
    h.update(str(a.dtype).encode())
    h.update(str(a.shape).encode())
    h.update(np.ascontiguousarray(a).tobytes())
    return h.hexdigest()[:20]


def make_raster(shape, dtname, geo, rs):
    h, w = shape
    vals = rs.randint(0, 4, size=shape)
    # keep it sparse so that max_distance matters
    vals[rs.rand(h, w) < 0.6] = 0
    data = vals.astype(dtname)
    if np.dtype(dtname).kind == 'f' and data.size > 3:
        flat = data.reshape(-1)
        flat[rs.randint(0, flat.size)] = np.nan
        flat[rs.randint(0, flat.size)] = np.inf
        flat[rs.randint(0, flat.size)] = -np.inf
    if geo == 'lonlat':
        xs = np.linspace(-170, 175, w)
        ys = np.linspace(80, -85, h)
    elif geo == 'desc':
        xs = np.arange(w, dtype=np.float64) * 0.5 + 3
        ys = np.arange(h, dtype=np.float64)[::-1] * 2.0
    else:  # uneven, integer coords
        xs = np.cumsum(np.arange(1, w + 1))
        ys = np.cumsum(np.arange(1, h + 1))
    return data, xs, ys


SHAPES = [(9, 11), (1, 7), (6, 1), (13, 4), (2, 2), (17, 15)]
DTYPES = ['float64', 'float32', 'int32', 'int64', 'uint8']
TARGETS = [[], [1], [2, 3], [1.0, 3.0], [7], np.array([1, 0], dtype=np.int32)]
MAXD = {'EUCLIDEAN': [np.inf, None, 2, 0.5, 3.5, 1e3],
        'MANHATTAN': [np.inf, 3, 1, 4.5],
        'GREAT_CIRCLE': [np.inf, 2.0e6, 5.0e5, 1.0e7],
        'bogus': [np.inf, 2]}


def build_cases():
    rs = np.random.RandomState(20240611)
    cases = []
    for n in range(78):
        shape = SHAPES[rs.randint(len(SHAPES))]
        dt = DTYPES[rs.randint(len(DTYPES))]
        metric = ['EUCLIDEAN', 'MANHATTAN', 'GREAT_CIRCLE', 'EUCLIDEAN', 'bogus'][rs.randint(5)]
        geo = 'lonlat' if metric == 'GREAT_CIRCLE' else ['desc', 'uneven'][rs.randint(2)]
        md = MAXD[metric][rs.randint(len(MAXD[metric]))]
        tg = TARGETS[rs.randint(len(TARGETS))]
        fn = ['prox', 'alloc', 'dir'][rs.randint(3)]
        backend = ['np', 'np', 'da1', 'da2'][rs.randint(4)]
        seed = int(rs.randint(1 << 30))
        cases.append((n, fn, shape, dt, geo, metric, md, tg, backend, seed))
    return cases


def run(case, sched=None):
    # errors raised by the library for a given input are part of its behaviour
    try:
        return _run(case, sched)
    except AssertionError:
        raise
    except Exception as e:
        return 'EXC:%s:%s' % (type(e).__name__, str(e)[:80])


def _run(case, sched=None):
    n, fn, shape, dt, geo, metric, md, tg, backend, seed = case
    data, xs, ys = make_raster(shape, dt, geo, np.random.RandomState(seed))
    if backend == 'np':
        arr = data
    elif backend == 'da1':
        arr = da.from_array(data, chunks=(max(1, shape[0] // 2), max(1, shape[1] // 3)))
    else:
        arr = da.from_array(data, chunks=(3, 4))
    raster = xr.DataArray(arr, dims=['lat', 'lon'], coords={'lat': ys, 'lon': xs},
                          attrs={'res': 1, 'tag': 'a'})
    kw = dict(x='lon', y='lat', target_values=tg, distance_metric=metric)
    if md is not None or n % 2:
        kw['max_distance'] = md
    out = FUNCS[fn](raster, **kw)
    assert out.dims == ('lat', 'lon') and out.attrs == {'res': 1, 'tag': 'a'}
    if backend != 'np':
        assert isinstance(out.data, da.Array)
        with dask.config.set(**(sched or {'scheduler': 'synchronous'})):
            val = out.data.compute()
    else:
        assert isinstance(out.data, np.ndarray)
        val = out.data
    return digest(val)


def key(case):
    n, fn, shape, dt, geo, metric, md, tg, backend, seed = case
    return '%02d|%s|%s|%s|%s|%s|%s|%s|%s' % (n, fn, shape, dt, geo, metric, md, list(tg), backend)


def main():
    cases = build_cases()
    got = {}
    ok = True
    for c in cases:
        got[key(c)] = run(c)
    # second pass in a different order, dask under thread pools of varying size:
    # each call must reproduce its own first result
    order = np.random.RandomState(3).permutation(len(cases))
    scheds = [{'scheduler': 'threads', 'num_workers': k} for k in (1, 2, 4, 16)]
    for j, i in enumerate(order[:40]):
        c = cases[i]
        v = run(c, scheds[j % 4])
        if v != got[key(c)]:
            print('REPEAT MISMATCH', key(c))
            ok = False

    if os.environ.get('RECORD'):
        print('EXPECTED = {')
        for k in got:
            print('    %r: %r,' % (k, got[k]))
        print('}')
        return 0
    for k, v in EXPECTED.items():
        if got.get(k) != v:
            print('MISMATCH', k, got.get(k), v)
            ok = False
    if set(got) != set(EXPECTED):
        print('KEY SET DIFFERS', set(got) ^ set(EXPECTED))
        ok = False
    print('xrspatial from', xrspatial.__file__)
    print('OK' if ok else 'FAIL', len(EXPECTED), 'digests')
    return 0 if ok else 1


EXPECTED = {
    '00|dir|(6, 1)|float64|uneven|bogus|2|[2, 3]|da1': 'EXC:ValueError:The overlapping depth 2 is larger than your array 1.',
    '01|prox|(6, 1)|uint8|desc|EUCLIDEAN|0.5|[1]|da2': 'b0beda72bcdda20b98d3',
    '02|prox|(9, 11)|float64|uneven|EUCLIDEAN|None|[1.0, 3.0]|np': 'dd088334b0ae21d378f5',
    '03|alloc|(13, 4)|int32|desc|EUCLIDEAN|None|[]|np': '7194bde06f26b7c4270c',
    '04|prox|(17, 15)|int32|uneven|EUCLIDEAN|1000.0|[1]|np': 'ee873137434a0bfe6aff',
    '05|prox|(2, 2)|float64|uneven|EUCLIDEAN|1000.0|[7]|np': '906f49a2ea297ae9244e',
    '06|alloc|(2, 2)|int32|desc|MANHATTAN|inf|[2, 3]|da2': 'c0e9106067f54003f2eb',
    '07|dir|(13, 4)|int64|lonlat|GREAT_CIRCLE|500000.0|[2, 3]|da1': 'EXC:ValueError:The overlapping depth 500000 is larger than your array 13.',
    '08|alloc|(2, 2)|int32|uneven|EUCLIDEAN|0.5|[]|np': '906f49a2ea297ae9244e',
    '09|prox|(17, 15)|int64|uneven|EUCLIDEAN|None|[2, 3]|da2': '721ef1189a2ac22c3cac',
    '10|alloc|(6, 1)|uint8|uneven|EUCLIDEAN|None|[1]|np': '9fc2b463b203452770b9',
    '11|prox|(13, 4)|float32|uneven|MANHATTAN|4.5|[]|da2': 'EXC:ValueError:The overlapping depth 5 is larger than your array 4.',
    '12|prox|(13, 4)|float64|desc|bogus|inf|[1]|da2': 'd50a35fe3ff0bb571786',
    '13|prox|(6, 1)|float64|uneven|EUCLIDEAN|0.5|[]|da2': 'c354c52e49ccdcb70f9d',
    '14|prox|(9, 11)|uint8|lonlat|GREAT_CIRCLE|500000.0|[1]|np': 'edc381408f6636b49528',
    '15|alloc|(17, 15)|int32|uneven|MANHATTAN|4.5|[1.0, 3.0]|da1': '44abc6a51a78242527e8',
    '16|prox|(2, 2)|float32|uneven|EUCLIDEAN|inf|[1.0, 3.0]|np': '906f49a2ea297ae9244e',
    '17|dir|(2, 2)|uint8|lonlat|GREAT_CIRCLE|2000000.0|[7]|da1': 'EXC:ValueError:The overlapping depth 2000000 is larger than your array 2.',
    '18|dir|(1, 7)|float32|uneven|EUCLIDEAN|1000.0|[]|np': '28f42df74ea583cef862',
    '19|prox|(9, 11)|float64|desc|EUCLIDEAN|0.5|[np.int32(1), np.int32(0)]|da1': '4e6b392e11642157a9ce',
    '20|alloc|(2, 2)|float64|uneven|EUCLIDEAN|1000.0|[7]|da2': '906f49a2ea297ae9244e',
    '21|dir|(13, 4)|float64|uneven|bogus|2|[1.0, 3.0]|da1': '93f5f1e11457fe5aee8d',
    '22|dir|(2, 2)|uint8|uneven|MANHATTAN|inf|[np.int32(1), np.int32(0)]|da2': 'b03f282c91a5db51bafd',
    '23|dir|(13, 4)|float64|desc|EUCLIDEAN|inf|[]|da1': '1c8ce7444eddc73692c8',
    '24|alloc|(13, 4)|float32|uneven|EUCLIDEAN|1000.0|[]|da1': '1d22527c3c325b655137',
    '25|dir|(1, 7)|int64|uneven|bogus|inf|[7]|np': '28f42df74ea583cef862',
    '26|dir|(2, 2)|float32|lonlat|GREAT_CIRCLE|500000.0|[7]|da1': 'EXC:ValueError:The overlapping depth 500000 is larger than your array 2.',
    '27|dir|(13, 4)|int32|desc|MANHATTAN|1|[np.int32(1), np.int32(0)]|np': '3bb7cad2864f20351d95',
    '28|dir|(6, 1)|int64|uneven|MANHATTAN|1|[2, 3]|np': '563f6b53f45e35e47c83',
    '29|prox|(9, 11)|int64|uneven|EUCLIDEAN|0.5|[np.int32(1), np.int32(0)]|np': '26d6217274b4bf58f16f',
    '30|dir|(13, 4)|uint8|lonlat|GREAT_CIRCLE|10000000.0|[]|np': 'dddd1dff041ff9d57b43',
    '31|prox|(6, 1)|float64|lonlat|GREAT_CIRCLE|inf|[1]|np': 'b0beda72bcdda20b98d3',
    '32|alloc|(17, 15)|uint8|lonlat|GREAT_CIRCLE|500000.0|[2, 3]|da2': 'EXC:ValueError:The overlapping depth 500000 is larger than your array 17.',
    '33|alloc|(2, 2)|int32|uneven|MANHATTAN|3|[2, 3]|np': '906f49a2ea297ae9244e',
    '34|dir|(17, 15)|int32|desc|EUCLIDEAN|inf|[7]|da2': '2acd8ebbb6c5ca703226',
    '35|prox|(1, 7)|float64|desc|bogus|inf|[1.0, 3.0]|np': '28f42df74ea583cef862',
    '36|prox|(9, 11)|float64|desc|EUCLIDEAN|None|[7]|np': 'b759cbef5902e03030c9',
    '37|prox|(13, 4)|int64|lonlat|GREAT_CIRCLE|2000000.0|[np.int32(1), np.int32(0)]|da1': 'EXC:ValueError:The overlapping depth 2000000 is larger than your array 13.',
    '38|dir|(9, 11)|int64|desc|bogus|inf|[np.int32(1), np.int32(0)]|np': '7148b5dc164d79d1ede5',
    '39|dir|(13, 4)|float64|desc|MANHATTAN|inf|[1.0, 3.0]|da1': 'db6a80567b8b0fa444f3',
    '40|prox|(2, 2)|int32|desc|EUCLIDEAN|1000.0|[1.0, 3.0]|da2': '906f49a2ea297ae9244e',
    '41|alloc|(13, 4)|uint8|lonlat|GREAT_CIRCLE|10000000.0|[np.int32(1), np.int32(0)]|da1': 'EXC:ValueError:The overlapping depth 10000000 is larger than your array 13.',
    '42|dir|(6, 1)|int32|uneven|bogus|inf|[np.int32(1), np.int32(0)]|np': 'a29c90f6d97516f40c6c',
    '43|prox|(6, 1)|uint8|desc|bogus|2|[1.0, 3.0]|np': 'f7436d753bfbde44f5ea',
    '44|dir|(9, 11)|uint8|desc|EUCLIDEAN|1000.0|[np.int32(1), np.int32(0)]|da2': '2b461018372f6f0f092a',
    '45|dir|(13, 4)|float64|desc|MANHATTAN|3|[1]|da1': 'a2cf90f9acb8c96a9423',
    '46|prox|(13, 4)|uint8|uneven|MANHATTAN|inf|[1]|np': '9085845e050788609622',
    '47|prox|(2, 2)|int32|lonlat|GREAT_CIRCLE|500000.0|[1.0, 3.0]|np': '906f49a2ea297ae9244e',
    '48|alloc|(2, 2)|int64|uneven|bogus|2|[7]|da1': '906f49a2ea297ae9244e',
    '49|alloc|(9, 11)|int64|desc|MANHATTAN|3|[1]|np': '4fcbd66e2173beaf67f1',
    '50|prox|(2, 2)|float64|uneven|EUCLIDEAN|3.5|[]|np': '820bfaf5e2ac93ac4944',
    '51|dir|(9, 11)|uint8|uneven|bogus|inf|[]|da1': '224940909d145cbdadb5',
    '52|alloc|(17, 15)|int32|uneven|EUCLIDEAN|inf|[np.int32(1), np.int32(0)]|np': '6a89024007ea0913a22b',
    '53|dir|(9, 11)|uint8|uneven|EUCLIDEAN|inf|[1]|da2': '36941ae10cbe6ea3630f',
    '54|dir|(13, 4)|int64|uneven|EUCLIDEAN|3.5|[np.int32(1), np.int32(0)]|np': 'fd70d858e59c0777e15e',
    '55|alloc|(1, 7)|float32|uneven|EUCLIDEAN|1000.0|[1.0, 3.0]|np': '28f42df74ea583cef862',
    '56|dir|(13, 4)|int32|uneven|EUCLIDEAN|2|[1.0, 3.0]|np': 'f5759ac6d5a6bfcf7adc',
    '57|dir|(9, 11)|float64|desc|bogus|inf|[]|np': 'a7699b580d65c974f9ff',
    '58|alloc|(9, 11)|float64|desc|bogus|2|[7]|np': 'b759cbef5902e03030c9',
    '59|alloc|(2, 2)|uint8|desc|MANHATTAN|3|[2, 3]|np': '906f49a2ea297ae9244e',
    '60|alloc|(2, 2)|uint8|lonlat|GREAT_CIRCLE|2000000.0|[1]|da1': 'EXC:ValueError:The overlapping depth 2000000 is larger than your array 2.',
    '61|prox|(1, 7)|int64|desc|EUCLIDEAN|2|[np.int32(1), np.int32(0)]|da1': 'EXC:ValueError:The overlapping depth 2 is larger than your array 1.',
    '62|dir|(17, 15)|int64|desc|bogus|2|[np.int32(1), np.int32(0)]|np': '913b25b45cff291f9426',
    '63|alloc|(2, 2)|float32|uneven|EUCLIDEAN|inf|[]|da1': '906f49a2ea297ae9244e',
    '64|alloc|(17, 15)|uint8|desc|bogus|inf|[2, 3]|np': 'd3bb44828136fd3fb029',
    '65|alloc|(13, 4)|int32|uneven|EUCLIDEAN|None|[np.int32(1), np.int32(0)]|np': '16d473111c84131d4dec',
    '66|alloc|(6, 1)|uint8|lonlat|GREAT_CIRCLE|2000000.0|[1]|da2': 'EXC:ValueError:The overlapping depth 2000000 is larger than your array 6.',
    '67|prox|(6, 1)|float64|desc|bogus|2|[1]|np': 'b0beda72bcdda20b98d3',
    '68|alloc|(17, 15)|int64|desc|bogus|2|[np.int32(1), np.int32(0)]|da1': '81eb5192fdd9fafeb5be',
    '69|dir|(13, 4)|float64|lonlat|GREAT_CIRCLE|2000000.0|[1.0, 3.0]|np': '535128d499b22d529924',
    '70|alloc|(6, 1)|int32|lonlat|GREAT_CIRCLE|10000000.0|[1]|np': '67bc5f53c078296e2ac5',
    '71|dir|(2, 2)|uint8|lonlat|GREAT_CIRCLE|10000000.0|[1]|da2': 'EXC:ValueError:The overlapping depth 10000000 is larger than your array 2.',
    '72|prox|(13, 4)|int32|desc|bogus|inf|[2, 3]|da1': '5a495fcce15ddf28003d',
    '73|dir|(1, 7)|int64|lonlat|GREAT_CIRCLE|inf|[np.int32(1), np.int32(0)]|np': '97c02af4920ac8391f1a',
    '74|dir|(2, 2)|int64|desc|EUCLIDEAN|1000.0|[1]|da1': '906f49a2ea297ae9244e',
    '75|alloc|(17, 15)|float32|uneven|EUCLIDEAN|inf|[7]|da1': '2acd8ebbb6c5ca703226',
    '76|dir|(1, 7)|uint8|uneven|bogus|2|[1.0, 3.0]|np': '683276ed195b803548a1',
    '77|prox|(13, 4)|int32|desc|bogus|inf|[1]|da1': '4757bd124aba548d4ee4',
}

if __name__ == '__main__':
    sys.exit(main())
