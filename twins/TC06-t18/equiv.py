"""Differential test for proximity / allocation / direction (property C06).

Runs the three public functions on a deterministic family of rasters
(several dtypes, NaN / inf cells, odd shapes, ascending / descending and
non-square coordinates, numpy and dask backends, all metrics, several
max_distance values) and compares
  (a) a sha256 digest of (dtype, shape, raw bytes) of every result against the
      digest recorded on the unmodified tree (bit-exact, NaN included), and
  (b) single-target proximity against an independent brute-force computation.
Also checks error messages, the fallback for unknown metrics, laziness of the
dask result, coords / attrs propagation and the (existing) side effect on the
input raster's chunks.
Exit code 0 iff everything is identical.   `--record` prints the digests.
"""
import hashlib
import sys

import dask.array as da
import numpy as np
import xarray as xr

import xrspatial
from xrspatial import allocation, direction, proximity
from xrspatial.proximity import (_calc_direction, _distance, euclidean_distance,
                                 great_circle_distance, manhattan_distance)

PMOD = sys.modules['xrspatial.proximity']
FUNCS = {'proximity': proximity, 'allocation': allocation, 'direction': direction}


def digest(arr):
    arr = np.ascontiguousarray(arr)
    h = hashlib.sha256()
    h.update(str(arr.dtype).encode())
    h.update(str(arr.shape).encode())
    h.update(arr.tobytes())
    return h.hexdigest()[:16]


def make_data(shape, dtype, seed, special):
    rng = np.random.RandomState(seed)
    h, w = shape
    data = rng.choice([0, 0, 0, 0, 1, 2, 3], size=shape).astype(np.float64)
    if special and np.dtype(dtype).kind == 'f':
        flat = data.ravel()
        n = flat.size
        if n > 2:
            flat[rng.randint(n)] = np.nan
            flat[rng.randint(n)] = np.inf
        if n > 6:
            flat[rng.randint(n)] = -np.inf
            flat[rng.randint(n)] = -2.5
        data = flat.reshape(shape)
    return data.astype(dtype)


def make_raster(data, xdir, ydir, resx, resy, x0=0.0, y0=0.0, chunks=None,
                dims=('y', 'x')):
    h, w = data.shape
    xs = x0 + np.arange(w) * resx
    ys = y0 + np.arange(h) * resy
    if xdir < 0:
        xs = xs[::-1]
    if ydir < 0:
        ys = ys[::-1]
    if chunks is not None:
        data = da.from_array(data, chunks=chunks)
    r = xr.DataArray(data, dims=list(dims), name='r',
                     attrs={'res': (resx, resy), 'k': 'v'})
    r[dims[0]] = ys
    r[dims[1]] = xs
    return r


# (shape, dtype, seed, special, xdir, ydir, resx, resy, chunks)
RASTERS = [
    ((1, 1), 'float64', 1, False, 1, 1, 1.0, 1.0, None),
    ((1, 7), 'float32', 2, True, 1, -1, 1.0, 1.0, None),
    ((6, 1), 'int32', 3, False, 1, -1, 1.0, 2.0, None),
    ((5, 5), 'float64', 4, True, 1, -1, 1.0, 1.0, None),
    ((7, 4), 'int64', 5, False, -1, 1, 0.5, 1.5, None),
    ((3, 9), 'uint8', 6, False, 1, 1, 2.0, 1.0, None),
    ((8, 6), 'float32', 7, True, -1, -1, 1.0, 0.25, None),
    ((5, 5), 'float64', 4, True, 1, -1, 1.0, 1.0, (2, 3)),
    ((7, 4), 'int64', 5, False, -1, 1, 0.5, 1.5, (3, 2)),
    ((8, 6), 'float32', 7, True, -1, -1, 1.0, 0.25, (8, 6)),
    ((9, 10), 'float64', 8, True, 1, -1, 1.0, 1.0, (4, 5)),
    ((9, 10), 'float64', 8, True, 1, -1, 1.0, 1.0, None),
]

# (target_values, max_distance, metric)
PARAMS = [
    ([], np.inf, 'EUCLIDEAN'),
    ([], None, 'MANHATTAN'),
    ([1, 3], 2, 'EUCLIDEAN'),
    ([2.0], 1.5, 'MANHATTAN'),
    ([], 0, 'EUCLIDEAN'),
    ([7], np.inf, 'EUCLIDEAN'),
    ([], 2.5, 'no-such-metric'),
    ([np.nan, 1], 3.0, 'EUCLIDEAN'),
]


def cases():
    out = []
    k = 0
    for ri, rspec in enumerate(RASTERS):
        for pi, pspec in enumerate(PARAMS):
            # thin the product deterministically, but keep every raster with
            # the default call and every parameter set on some raster
            if not (pi == 0 or (ri + pi) % 4 == 0):
                continue
            for fname in ('proximity', 'allocation', 'direction'):
                k += 1
                if pi != 0 and k % 3 == 0:
                    continue
                out.append((ri, pi, fname))
    return out


def run_case(ri, pi, fname):
    shape, dtype, seed, special, xdir, ydir, resx, resy, chunks = RASTERS[ri]
    tv, md, metric = PARAMS[pi]
    data = make_data(shape, dtype, seed, special)
    r = make_raster(data, xdir, ydir, resx, resy, chunks=chunks)
    kw = dict(target_values=tv, distance_metric=metric)
    if md is not None or pi % 2:
        kw['max_distance'] = md
    res = FUNCS[fname](r, **kw)
    assert isinstance(res, xr.DataArray)
    extra = []
    if chunks is not None:
        assert isinstance(res.data, da.Array), 'dask result must stay lazy'
        extra.append(str(res.data.chunks))
        extra.append(str(r.data.chunks))  # input side effect (rechunk) kept
    else:
        assert isinstance(res.data, np.ndarray)
    assert res.dims == r.dims and res.attrs == r.attrs
    assert list(res.coords) == list(r.coords)
    for c in r.coords:
        assert np.array_equal(res[c].values, r[c].values)
    val = res.values
    return digest(val) + '|' + '|'.join(extra)


def great_circle_cases():
    out = {}
    rng = np.random.RandomState(11)
    for idx, (shape, chunks, md, tv) in enumerate([
        ((5, 6), None, np.inf, []),
        ((5, 6), (2, 3), np.inf, []),
        ((4, 7), None, 250000.0, [1]),
        ((4, 7), (2, 4), 250000.0, [1]),
        ((4, 7), (2, 4), 1.2, [1]),
        ((1, 5), None, None, []),
    ]):
        data = rng.choice([0, 0, 0, 1, 2], size=shape).astype('float64')
        data[0, 0] = np.nan
        data[-1, -1] = 2
        for fname in ('proximity', 'allocation', 'direction'):
            r = make_raster(data.copy(), 1, -1, 1.5, 2.0, x0=-4.0, y0=40.0,
                            chunks=chunks)
            kw = dict(target_values=tv, distance_metric='GREAT_CIRCLE')
            if md is not None:
                kw['max_distance'] = md
            try:
                res = FUNCS[fname](r, **kw)
                out['gc-%d-%s' % (idx, fname)] = digest(res.values)
            except Exception as e:  # noqa
                out['gc-%d-%s' % (idx, fname)] = (
                    'EXC ' + type(e).__name__ + ':' + str(e)[:80])
    return out


def brute_single_target():
    """Independent check: single target => exact nearest-target distance."""
    ok = True
    for (h, w, ty, tx, resx, resy, xdir, ydir, metric) in [
        (6, 7, 2, 3, 1.0, 1.0, 1, -1, 'EUCLIDEAN'),
        (5, 4, 0, 0, 0.5, 2.0, -1, 1, 'EUCLIDEAN'),
        (4, 9, 3, 8, 2.0, 1.0, 1, 1, 'MANHATTAN'),
        (1, 6, 0, 4, 1.0, 1.0, 1, 1, 'MANHATTAN'),
    ]:
        data = np.zeros((h, w))
        data[ty, tx] = 5.0
        for chunks in (None, (2, 3)):
            r = make_raster(data.copy(), xdir, ydir, resx, resy, chunks=chunks)
            xs, ys = np.meshgrid(r['x'].values, r['y'].values)
            dx = xs - xs[ty, tx]
            dy = ys - ys[ty, tx]
            if metric == 'EUCLIDEAN':
                exp = np.sqrt(dx * dx + dy * dy)
            else:
                exp = np.abs(dx) + np.abs(dy)
            exp = exp.astype(np.float32)
            p = proximity(r, distance_metric=metric).values
            a = allocation(r, distance_metric=metric).values
            if p.dtype != np.float32 or not np.array_equal(p, exp):
                print('BRUTE proximity mismatch', h, w, metric, chunks)
                ok = False
            if not np.array_equal(a, np.full((h, w), 5.0, dtype=np.float32)):
                print('BRUTE allocation mismatch', h, w, metric, chunks)
                ok = False
            if p[ty, tx] != 0:
                ok = False
    return ok


def misc():
    out = {}
    # error message for wrongly named dims
    data = np.eye(3)
    r = make_raster(data, 1, -1, 1.0, 1.0, dims=('lat', 'lon'))
    for fname, f in FUNCS.items():
        try:
            f(r)
            out['err-dims-' + fname] = 'no error'
        except Exception as e:  # noqa
            out['err-dims-' + fname] = type(e).__name__ + ':' + str(e)
        try:
            f(r, x='lon', y='lat').values
            out['ok-dims-' + fname] = digest(f(r, x='lon', y='lat').values)
        except Exception as e:  # noqa
            out['ok-dims-' + fname] = type(e).__name__ + ':' + str(e)
        try:
            f(r, 'lat', 'lon')
            out['err-swapped-' + fname] = 'no error'
        except Exception as e:  # noqa
            out['err-swapped-' + fname] = type(e).__name__ + ':' + str(e)
    # great circle with coordinates out of range
    r = make_raster(np.eye(3), 1, -1, 100.0, 1.0)
    try:
        proximity(r, distance_metric='GREAT_CIRCLE')
        out['err-gc'] = 'no error'
    except Exception as e:  # noqa
        out['err-gc'] = type(e).__name__ + ':' + str(e)
    # unhashable metric
    try:
        proximity(make_raster(np.eye(3), 1, -1, 1.0, 1.0), distance_metric=['E'])
        out['err-metric'] = 'no error'
    except Exception as e:  # noqa
        out['err-metric'] = type(e).__name__
    # unsupported backend container
    try:
        r = make_raster(np.eye(3), 1, -1, 1.0, 1.0)
        r2 = r.copy()
        r2.data = da.from_array(np.eye(3), chunks=(2, 2))
        out['dask-eye'] = digest(proximity(r2, max_distance=1).values)
    except Exception as e:  # noqa
        out['dask-eye'] = type(e).__name__ + ':' + str(e)
    # module level objects
    out['metrics'] = repr(sorted(PMOD.DISTANCE_METRICS.items()))
    out['consts'] = repr((PMOD.EUCLIDEAN,
                          PMOD.GREAT_CIRCLE,
                          PMOD.MANHATTAN,
                          PMOD.PROXIMITY,
                          PMOD.ALLOCATION,
                          PMOD.DIRECTION))
    # scalar helpers
    pts = [(0.0, 0.0, 0.0, 0.0), (1.0, 4.0, -2.0, 2.0), (142.32, 312.54 - 200, 23.23, 43.2),
           (np.nan, 1.0, 0.0, 2.0), (-3.5, 3.5, 1e-3, 7.0)]
    vals = []
    for p in pts:
        vals.append(repr(float(euclidean_distance(*p))))
        vals.append(repr(float(manhattan_distance(*p))))
        vals.append(repr(float(great_circle_distance(*p))))
        for m in (0, 1, 2):
            d = _distance(p[0], p[1], p[2], p[3], m)
            vals.append(type(d).__name__ + repr(float(d)))
        d = _calc_direction(*p)
        vals.append(type(d).__name__ + repr(float(d)))
    out['scalars'] = hashlib.sha256('|'.join(vals).encode()).hexdigest()[:16]
    for bad in [(181.0, 0.0, 0.0, 0.0), (0.0, -181.0, 0.0, 0.0),
                (0.0, 0.0, 91.0, 0.0), (0.0, 0.0, 0.0, -91.0)]:
        try:
            great_circle_distance(*bad)
            out['gc-bad-%r' % (bad,)] = 'no error'
        except Exception as e:  # noqa
            out['gc-bad-%r' % (bad,)] = type(e).__name__ + ':' + str(e)
    return out


def collect():
    got = {}
    for (ri, pi, fname) in cases():
        key = 'r%d-p%d-%s' % (ri, pi, fname)
        try:
            got[key] = run_case(ri, pi, fname)
        except AssertionError:
            raise
        except Exception as e:  # noqa
            got[key] = 'EXC ' + type(e).__name__ + ':' + str(e)[:80]
    got.update(great_circle_cases())
    got.update(misc())
    return got


def main():
    assert '/tmp/t5/TC06' in xrspatial.__file__ or '--anywhere' in sys.argv, \
        xrspatial.__file__
    got = collect()
    if '--record' in sys.argv:
        print('EXPECTED = {')
        for k in sorted(got):
            print('    %r: %r,' % (k, got[k]))
        print('}')
        return 0
    bad = 0
    for k in sorted(set(got) | set(EXPECTED)):
        if got.get(k) != EXPECTED.get(k):
            print('MISMATCH', k, got.get(k), EXPECTED.get(k))
            bad += 1
    if not brute_single_target():
        bad += 1
    print('%d cases compared, %d mismatches' % (len(got), bad))
    return 1 if bad else 0


EXPECTED = {
    'consts': '(0, 1, 2, 0, 1, 2)',
    'dask-eye': '0a360e9a9f98b7f0',
    'err-dims-allocation': 'ValueError:raster.coords should be named as coordinates:(y, x)',
    'err-dims-direction': 'ValueError:raster.coords should be named as coordinates:(y, x)',
    'err-dims-proximity': 'ValueError:raster.coords should be named as coordinates:(y, x)',
    'err-gc': 'ValueError:Invalid x-coordinate of the second point.Must be in the range [-180, 180]',
    'err-metric': 'TypeError',
    'err-swapped-allocation': 'ValueError:raster.coords should be named as coordinates:(lon, lat)',
    'err-swapped-direction': 'ValueError:raster.coords should be named as coordinates:(lon, lat)',
    'err-swapped-proximity': 'ValueError:raster.coords should be named as coordinates:(lon, lat)',
    'gc-0-allocation': '3595b201b22a236b',
    'gc-0-direction': '570288e390e4a0f1',
    'gc-0-proximity': '7d78cc7da17a622b',
    'gc-1-allocation': '90979a60cd11ed7f',
    'gc-1-direction': '8366e4aae3e8480f',
    'gc-1-proximity': '7eb059ef55da9300',
    'gc-2-allocation': 'd801d8f2a4abc802',
    'gc-2-direction': '1a9248b87491ade7',
    'gc-2-proximity': '1015b27509dfd12d',
    'gc-3-allocation': 'EXC ValueError:The overlapping depth 125000 is larger than your array 4.',
    'gc-3-direction': 'EXC ValueError:The overlapping depth 125000 is larger than your array 4.',
    'gc-3-proximity': 'EXC ValueError:The overlapping depth 125000 is larger than your array 4.',
    'gc-4-allocation': '8367fe8376f5f6c3',
    'gc-4-direction': 'ced8ed3460ec8396',
    'gc-4-proximity': 'ced8ed3460ec8396',
    'gc-5-allocation': 'ef847e4e13559beb',
    'gc-5-direction': 'd18c06ceb163c722',
    'gc-5-proximity': '7d3497fe2989f5b7',
    'gc-bad-(0.0, -181.0, 0.0, 0.0)': 'ValueError:Invalid x-coordinate of the second point.Must be in the range [-180, 180]',
    'gc-bad-(0.0, 0.0, 0.0, -91.0)': 'ValueError:Invalid y-coordinate of the second point.Must be in the range [-90, 90]',
    'gc-bad-(0.0, 0.0, 91.0, 0.0)': 'ValueError:Invalid y-coordinate of the first point.Must be in the range [-90, 90]',
    'gc-bad-(181.0, 0.0, 0.0, 0.0)': 'ValueError:Invalid x-coordinate of the first point.Must be in the range [-180, 180]',
    'metrics': "[('EUCLIDEAN', 0), ('GREAT_CIRCLE', 1), ('MANHATTAN', 2)]",
    'ok-dims-allocation': 'e6864e394a6969e4',
    'ok-dims-direction': 'b9dd40a5041227e8',
    'ok-dims-proximity': 'f003f573bd0fb569',
    'r0-p0-allocation': 'c076640afeb7e425|',
    'r0-p0-direction': '5d73d8bac17f2753|',
    'r0-p0-proximity': '5d73d8bac17f2753|',
    'r0-p4-allocation': 'c076640afeb7e425|',
    'r0-p4-proximity': '5d73d8bac17f2753|',
    'r1-p0-allocation': 'b8b47578054be3c5|',
    'r1-p0-direction': '2f220059232045be|',
    'r1-p0-proximity': 'bb5a22f629e7c857|',
    'r1-p3-allocation': '28f42df74ea583ce|',
    'r1-p3-proximity': '28f42df74ea583ce|',
    'r1-p7-allocation': '28f42df74ea583ce|',
    'r1-p7-proximity': '28f42df74ea583ce|',
    'r10-p0-allocation': '7ef5c3e7ba424621|((9,), (10,))|((9,), (10,))',
    'r10-p0-direction': '967f98cf7e59fe40|((9,), (10,))|((9,), (10,))',
    'r10-p0-proximity': 'd79040b5ad4274fa|((9,), (10,))|((9,), (10,))',
    'r10-p2-allocation': '989aef0237ec7035|((4, 3, 2), (5, 5))|((4, 4, 1), (5, 5))',
    'r10-p2-proximity': 'e71effb8921fcb2c|((4, 3, 2), (5, 5))|((4, 4, 1), (5, 5))',
    'r10-p6-allocation': '7ef5c3e7ba424621|((4, 5), (5, 5))|((4, 4, 1), (5, 5))',
    'r10-p6-proximity': 'd79040b5ad4274fa|((4, 5), (5, 5))|((4, 4, 1), (5, 5))',
    'r11-p0-allocation': '7ef5c3e7ba424621|',
    'r11-p0-direction': '967f98cf7e59fe40|',
    'r11-p0-proximity': 'd79040b5ad4274fa|',
    'r11-p1-allocation': 'f332f50c080d8256|',
    'r11-p1-proximity': '4fee25222bf08a13|',
    'r11-p5-allocation': '148c9ddb9019bedf|',
    'r11-p5-proximity': '148c9ddb9019bedf|',
    'r2-p0-allocation': 'b0beda72bcdda20b|',
    'r2-p0-direction': 'b0beda72bcdda20b|',
    'r2-p0-proximity': 'b0beda72bcdda20b|',
    'r2-p2-allocation': 'b0beda72bcdda20b|',
    'r2-p2-proximity': 'b0beda72bcdda20b|',
    'r2-p6-allocation': 'b0beda72bcdda20b|',
    'r2-p6-proximity': 'b0beda72bcdda20b|',
    'r3-p0-allocation': '916df83395c50492|',
    'r3-p0-direction': '4d086d6dca4845a1|',
    'r3-p0-proximity': '5d6b79c9b7c7bac9|',
    'r3-p1-allocation': '916df83395c50492|',
    'r3-p1-proximity': '77247f438a8ce2ff|',
    'r3-p5-allocation': 'ea188eeaa11e53d9|',
    'r3-p5-proximity': 'ea188eeaa11e53d9|',
    'r4-p0-allocation': '5a4cdce2b8cc0088|',
    'r4-p0-direction': '2755dd8d686b0c9f|',
    'r4-p0-proximity': '075d22e77c27dd58|',
    'r4-p4-allocation': '7abd644d14f727bf|',
    'r4-p4-proximity': '986a9697999d8c73|',
    'r5-p0-allocation': '144cd1be2b737da1|',
    'r5-p0-direction': 'ce5542dbb3f4a0ff|',
    'r5-p0-proximity': '21bb66d953914b58|',
    'r5-p3-allocation': '246a45526423bb36|',
    'r5-p3-proximity': '1debbaae87a9fbb4|',
    'r5-p7-allocation': '60c906954f6ae665|',
    'r5-p7-proximity': '8b755afcd92e02af|',
    'r6-p0-allocation': 'bfd09bd5bc2dd8c3|',
    'r6-p0-direction': 'b6ff8faf789efb97|',
    'r6-p0-proximity': '4557d16e21ecfffe|',
    'r6-p2-allocation': '3409345bfbbe30b2|',
    'r6-p2-proximity': 'a18df44f062a1834|',
    'r6-p6-allocation': 'bfd09bd5bc2dd8c3|',
    'r6-p6-proximity': '4557d16e21ecfffe|',
    'r7-p0-allocation': '916df83395c50492|((5,), (5,))|((5,), (5,))',
    'r7-p0-direction': '4d086d6dca4845a1|((5,), (5,))|((5,), (5,))',
    'r7-p0-proximity': '5d6b79c9b7c7bac9|((5,), (5,))|((5,), (5,))',
    'r7-p1-allocation': '916df83395c50492|((5,), (5,))|((5,), (5,))',
    'r7-p1-proximity': '77247f438a8ce2ff|((5,), (5,))|((5,), (5,))',
    'r7-p5-allocation': 'ea188eeaa11e53d9|((5,), (5,))|((5,), (5,))',
    'r7-p5-proximity': 'ea188eeaa11e53d9|((5,), (5,))|((5,), (5,))',
    'r8-p0-allocation': '5a4cdce2b8cc0088|((7,), (4,))|((7,), (4,))',
    'r8-p0-direction': '2755dd8d686b0c9f|((7,), (4,))|((7,), (4,))',
    'r8-p0-proximity': '075d22e77c27dd58|((7,), (4,))|((7,), (4,))',
    'r8-p4-allocation': '7abd644d14f727bf|((3, 3, 1), (2, 2))|((3, 3, 1), (2, 2))',
    'r8-p4-proximity': '986a9697999d8c73|((3, 3, 1), (2, 2))|((3, 3, 1), (2, 2))',
    'r9-p0-allocation': 'bfd09bd5bc2dd8c3|((8,), (6,))|((8,), (6,))',
    'r9-p0-direction': 'b6ff8faf789efb97|((8,), (6,))|((8,), (6,))',
    'r9-p0-proximity': '4557d16e21ecfffe|((8,), (6,))|((8,), (6,))',
    'r9-p3-allocation': '6b05ef7b7349b179|((8,), (6,))|((8,), (6,))',
    'r9-p3-proximity': '0e1f94b1bbf3f3c6|((8,), (6,))|((8,), (6,))',
    'r9-p7-allocation': 'EXC ValueError:The overlapping depth 12 is larger than your array 8.',
    'r9-p7-proximity': 'EXC ValueError:The overlapping depth 12 is larger than your array 8.',
    'scalars': 'b2eea58bf335e5bc',
}


if __name__ == "__main__":
    sys.exit(main())
