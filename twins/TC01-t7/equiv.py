"""Differential test for refactoring t7 (signature-level):
  * xrspatial/slope.py        : _cpu(data, cellsize_x, cellsize_y) -> _cpu(elev, res_y, res_x)
  * xrspatial/multispectral.py: _normalize_data_cpu(data, min_val, max_val, pixel_max, c, th)
                                -> _normalize_data_cpu(data, lo, hi, contrast, brightness, scale=255)

Checks, for slope() and true_color():
  1. sha256 digests of the results equal the digests recorded on the UNMODIFIED tree
     (numpy backend, several dtypes / NaN / inf / odd shapes / non-square cells),
  2. dask results (many chunkings, two schedulers) are bit-identical to numpy results
     and stay lazy until computed,
  3. an independent pure-numpy reference agrees (tight tolerance).

Run:  cd <worktree> && PYTHONPATH=<worktree> python equiv.py          (exit 0 == identical)
      ... equiv.py --record   prints the digest table (used once on the unmodified tree)
"""
import hashlib
import sys
import warnings

import dask
import dask.array as da
import numpy as np
import xarray as xr

import xrspatial
from xrspatial import slope
from xrspatial.multispectral import true_color

warnings.simplefilter('ignore')

EXPECTED = {}  # filled below (recorded on the unmodified tree)

FAILS = []
DIGESTS = {}


def digest(arr):
    arr = np.ascontiguousarray(arr)
    h = hashlib.sha256()
    h.update(str(arr.dtype).encode())
    h.update(str(arr.shape).encode())
    h.update(arr.tobytes())
    return h.hexdigest()[:24]


def same(a, b):
    return a.dtype == b.dtype and a.shape == b.shape and \
        np.array_equal(a.view(np.uint8) if a.dtype.kind == 'f' else a,
                       b.view(np.uint8) if b.dtype.kind == 'f' else b)


def check(cond, msg):
    if not cond:
        FAILS.append(msg)
        print('FAIL', msg)


def make_rasters():
    rng = np.random.RandomState(1234)
    out = {}
    base = rng.uniform(-500, 3000, size=(7, 9))
    out['f64_7x9'] = base.copy()
    out['f32_7x9'] = base.astype(np.float32)
    out['i32_7x9'] = (base * 3).astype(np.int32)
    out['i64_5x4'] = rng.randint(-50, 50, size=(5, 4)).astype(np.int64)
    out['u8_6x6'] = rng.randint(0, 255, size=(6, 6)).astype(np.uint8)
    nanny = rng.uniform(0, 100, size=(8, 5))
    nanny[1, 1] = np.nan
    nanny[4, 3] = np.inf
    nanny[6, 0] = -np.inf
    nanny[7, 4] = np.nan
    out['f64_nan_8x5'] = nanny
    out['f32_nan_8x5'] = nanny.astype(np.float32)
    out['f64_3x3'] = rng.uniform(0, 10, size=(3, 3))
    out['f64_2x6'] = rng.uniform(0, 10, size=(2, 6))
    out['f64_1x5'] = rng.uniform(0, 10, size=(1, 5))
    out['f64_flat_4x4'] = np.full((4, 4), 3.5)
    return out


RES = {
    'unit': (1, 1),
    'nonsq': (0.5, 2.0),
    'nonsq2': (30.0, 10.0),
    'int_nonsq': (3, 7),
    'neg_y': (2.5, -4.0),
}


def chunkings(h, w):
    cands = [(1, 1), (h, w), (2, 3), (3, 2), (1, w), (h, 1), (4, 5),
             ((1,) * h, (w,)), ]
    # an uneven composition
    if h >= 4 and w >= 4:
        cands.append(((1, 2, h - 3), (3, 1, w - 4) if w > 4 else (3, 1)))
    return cands


def slope_reference(data, cx, cy):
    d = data.astype(np.float32).astype(np.float64)
    out = np.full(d.shape, np.nan, dtype=np.float32)
    if d.shape[0] < 3 or d.shape[1] < 3:
        return out
    a = d[2:, :-2]
    b = d[2:, 1:-1]
    c = d[2:, 2:]
    dd = d[1:-1, :-2]
    f = d[1:-1, 2:]
    g = d[:-2, :-2]
    h = d[:-2, 1:-1]
    i = d[:-2, 2:]
    with np.errstate(all='ignore'):
        dz_dx = ((c + 2 * f + i) - (a + 2 * dd + g)) / (8 * cx)
        dz_dy = ((g + 2 * h + i) - (a + 2 * b + c)) / (8 * cy)
        p = np.sqrt(dz_dx * dz_dx + dz_dy * dz_dy)
        out[1:-1, 1:-1] = np.arctan(p) * 57.29578
    return out


def run_slope():
    for rname, data in make_rasters().items():
        for resname, res in RES.items():
            key = 'slope/%s/%s' % (rname, resname)
            agg = xr.DataArray(data, dims=['y', 'x'], attrs={'res': res})
            r = slope(agg)
            check(isinstance(r.data, np.ndarray), key + ' numpy backend kept')
            rn = r.data
            DIGESTS[key] = digest(rn)
            ref = slope_reference(data, res[0], res[1])
            check(rn.dtype == np.float32, key + ' dtype')
            check(np.allclose(rn, ref, rtol=2e-6, atol=1e-5, equal_nan=True),
                  key + ' independent reference')
            check(np.array_equal(np.isnan(rn), np.isnan(ref)), key + ' nan pattern vs reference')
            if resname not in ('nonsq', 'int_nonsq', 'unit'):
                continue
            for ch in chunkings(*data.shape):
                for sched, kw in (('synchronous', {}), ('threads', {'num_workers': 3})):
                    dagg = xr.DataArray(da.from_array(data, chunks=ch), dims=['y', 'x'],
                                        attrs={'res': res})
                    rd = slope(dagg)
                    check(isinstance(rd.data, da.Array), key + ' dask stays lazy')
                    with dask.config.set(scheduler=sched, **kw):
                        got = rd.data.compute()
                    check(same(got, rn), '%s dask chunks=%s sched=%s' % (key, ch, sched))


def tc_reference(r, g, b, nodata, c, th):
    def norm(band):
        band = band.astype('f4')
        lo = np.nanmin(band)
        hi = np.nanmax(band)
        out = np.full(band.shape, np.nan, dtype=np.float32)
        if hi - lo != 0:
            n = (band - lo) / (hi - lo)
            n = 1 / (1 + np.exp(c * (th - n)))
            out[:] = n * 255
        return out.astype(np.uint8)
    with np.errstate(all='ignore'):
        a = np.where(np.logical_or(np.isnan(r), r <= nodata), 0, 255).astype(np.uint8)
        return np.stack([norm(r), norm(g), norm(b), a], axis=-1)


def run_true_color():
    rng = np.random.RandomState(99)
    cases = {}
    for nm, shape, dt in (('f64', (6, 7), np.float64), ('f32', (5, 3), np.float32),
                          ('u16', (4, 9), np.uint16), ('i32', (7, 2), np.int32),
                          ('f64_1x1', (1, 1), np.float64)):
        bands = []
        for k in range(3):
            v = rng.uniform(0, 4000, size=shape)
            if dt in (np.float64, np.float32) and shape[0] > 2:
                v[1, 1] = np.nan
                v[0, k % shape[1]] = 0.5
            bands.append(v.astype(dt))
        cases[nm] = bands
    # constant band -> range 0 -> all-NaN normalised band
    const = [np.full((4, 4), 7.0), rng.uniform(0, 10, (4, 4)), np.full((4, 4), 2.0)]
    cases['const'] = const
    params = {'default': {}, 'p1': dict(nodata=100, c=5.0, th=0.3), 'p2': dict(nodata=0, c=20, th=0.05)}
    for nm, bands in cases.items():
        h, w = bands[0].shape
        coords = {'y': np.arange(h)[::-1] * 2.0, 'x': np.arange(w) * 3.0}
        for pn, kw in params.items():
            key = 'true_color/%s/%s' % (nm, pn)
            aggs = [xr.DataArray(x, dims=['y', 'x'], coords=coords) for x in bands]
            r = true_color(*aggs, **kw)
            rn = r.data
            check(isinstance(rn, np.ndarray) and rn.dtype == np.uint8, key + ' numpy/uint8')
            DIGESTS[key] = digest(rn)
            full = dict(nodata=1, c=10.0, th=0.125)
            full.update(kw)
            with warnings.catch_warnings():
                warnings.simplefilter('ignore')
                ref = tc_reference(bands[0], bands[1], bands[2], full['nodata'], full['c'],
                                   full['th'])
            # reference uses numpy exp (numba uses libm exp): allow off-by-one after truncation
            diff = np.abs(rn.astype(int) - ref.astype(int))
            check(diff.max() <= 1 and (diff > 0).mean() < 0.05, key + ' independent reference')
            for ch in chunkings(h, w)[:6]:
                for sched, skw in (('synchronous', {}), ('threads', {'num_workers': 2})):
                    daggs = [xr.DataArray(da.from_array(x, chunks=ch), dims=['y', 'x'],
                                          coords=coords) for x in bands]
                    rd = true_color(*daggs, **kw)
                    check(isinstance(rd.data, da.Array), key + ' dask stays lazy')
                    with dask.config.set(scheduler=sched, **skw):
                        got = rd.data.compute()
                    check(same(got, rn), '%s dask chunks=%s sched=%s' % (key, ch, sched))


EXPECTED = {
'slope/f32_7x9/int_nonsq': '1ff4f56d32194cd16750d0bc',
    'slope/f32_7x9/neg_y': '5d39ae4c3f5baa8f825bb860',
    'slope/f32_7x9/nonsq': '91c087b9a0125e79d2013af8',
    'slope/f32_7x9/nonsq2': 'd0bb6599ded3ab5fb64ef161',
    'slope/f32_7x9/unit': 'b3671e7795c846439bbb04a6',
    'slope/f32_nan_8x5/int_nonsq': 'ecd9d04dc57d0c6c02443378',
    'slope/f32_nan_8x5/neg_y': '89b92d8020e0596dc62d0a40',
    'slope/f32_nan_8x5/nonsq': '4a4783a161dd1209716db5df',
    'slope/f32_nan_8x5/nonsq2': 'c1af9831212baf1d86a3155c',
    'slope/f32_nan_8x5/unit': '285661fc461c4825f4a54e06',
    'slope/f64_1x5/int_nonsq': 'af4e079385bd31302bc014c3',
    'slope/f64_1x5/neg_y': 'af4e079385bd31302bc014c3',
    'slope/f64_1x5/nonsq': 'af4e079385bd31302bc014c3',
    'slope/f64_1x5/nonsq2': 'af4e079385bd31302bc014c3',
    'slope/f64_1x5/unit': 'af4e079385bd31302bc014c3',
    'slope/f64_2x6/int_nonsq': 'f27db84ca8195769ef93cf09',
    'slope/f64_2x6/neg_y': 'f27db84ca8195769ef93cf09',
    'slope/f64_2x6/nonsq': 'f27db84ca8195769ef93cf09',
    'slope/f64_2x6/nonsq2': 'f27db84ca8195769ef93cf09',
    'slope/f64_2x6/unit': 'f27db84ca8195769ef93cf09',
    'slope/f64_3x3/int_nonsq': '6c22a9de1ddec501391132ee',
    'slope/f64_3x3/neg_y': 'c7aa2d9a4362675f5c23a036',
    'slope/f64_3x3/nonsq': 'a46266ea49822ee2bf31cee9',
    'slope/f64_3x3/nonsq2': 'ce0013ab0d65fc346237ae6b',
    'slope/f64_3x3/unit': 'ff9f13763a99d6d3694099b6',
    'slope/f64_7x9/int_nonsq': '1ff4f56d32194cd16750d0bc',
    'slope/f64_7x9/neg_y': '5d39ae4c3f5baa8f825bb860',
    'slope/f64_7x9/nonsq': '91c087b9a0125e79d2013af8',
    'slope/f64_7x9/nonsq2': 'd0bb6599ded3ab5fb64ef161',
    'slope/f64_7x9/unit': 'b3671e7795c846439bbb04a6',
    'slope/f64_flat_4x4/int_nonsq': '47426130deaa23beaa17d3df',
    'slope/f64_flat_4x4/neg_y': '47426130deaa23beaa17d3df',
    'slope/f64_flat_4x4/nonsq': '47426130deaa23beaa17d3df',
    'slope/f64_flat_4x4/nonsq2': '47426130deaa23beaa17d3df',
    'slope/f64_flat_4x4/unit': '47426130deaa23beaa17d3df',
    'slope/f64_nan_8x5/int_nonsq': 'ecd9d04dc57d0c6c02443378',
    'slope/f64_nan_8x5/neg_y': '89b92d8020e0596dc62d0a40',
    'slope/f64_nan_8x5/nonsq': '4a4783a161dd1209716db5df',
    'slope/f64_nan_8x5/nonsq2': 'c1af9831212baf1d86a3155c',
    'slope/f64_nan_8x5/unit': '285661fc461c4825f4a54e06',
    'slope/i32_7x9/int_nonsq': '65633fdb426a86122d949ea2',
    'slope/i32_7x9/neg_y': 'fa9702a8d90a26b6aeaf6908',
    'slope/i32_7x9/nonsq': '528699d8d246cf2d8f24ee7b',
    'slope/i32_7x9/nonsq2': '25c098e2bfeca88735a56a90',
    'slope/i32_7x9/unit': '076475b7336cfbc25ecfb709',
    'slope/i64_5x4/int_nonsq': '8a16bac907c6167656329f20',
    'slope/i64_5x4/neg_y': '31010c4504b8e5738507139d',
    'slope/i64_5x4/nonsq': '164225b16244012d740ee807',
    'slope/i64_5x4/nonsq2': '0d3b33d652c7adbe1d3c4d77',
    'slope/i64_5x4/unit': '086aeb590d464bead5e6dddb',
    'slope/u8_6x6/int_nonsq': '8ace5501232dccd8083d7d8f',
    'slope/u8_6x6/neg_y': '38410e0a54d2ccffb8aae54c',
    'slope/u8_6x6/nonsq': '77a9026e4902c42599ee3694',
    'slope/u8_6x6/nonsq2': '21a6e8229b84c39ac6e5f908',
    'slope/u8_6x6/unit': '61cafe2929f7f88417080af5',
    'true_color/const/default': 'eafd38ae507ade38ddf9cd60',
    'true_color/const/p1': 'f7e294361059a06d53358e6b',
    'true_color/const/p2': '3dbcebe28b02d95108a7c81b',
    'true_color/f32/default': 'd971be0456a19c04bdfe82c6',
    'true_color/f32/p1': '135d27c988cb12c6fb0bb9bd',
    'true_color/f32/p2': '6e9c7a566fa95deed2429b69',
    'true_color/f64/default': 'f11cfa4e6e035f78c1f29555',
    'true_color/f64/p1': '8e46095b12c07c94ad1052cb',
    'true_color/f64/p2': 'ecbff147d3aecd21bf5ab18b',
    'true_color/f64_1x1/default': 'a6ab1aa09ccdbd2abc492f46',
    'true_color/f64_1x1/p1': 'a6ab1aa09ccdbd2abc492f46',
    'true_color/f64_1x1/p2': 'f8790b091027ae22f94c1fc4',
    'true_color/i32/default': 'be6b20625b40dc461c752278',
    'true_color/i32/p1': 'ebd003b68872f17f830e7237',
    'true_color/i32/p2': 'a853fd21f7363315a4db92b9',
    'true_color/u16/default': 'ffe5c69dd4d3f5e37936bf5f',
    'true_color/u16/p1': 'e1c099b49f8b1435df006d3a',
    'true_color/u16/p2': '2cc23899b8c859d4a7745495',
}


def main():
    print('xrspatial from', xrspatial.__file__)
    run_slope()
    run_true_color()
    if '--record' in sys.argv:
        for k in sorted(DIGESTS):
            print("    %r: %r," % (k, DIGESTS[k]))
        return 1 if FAILS else 0
    check(set(EXPECTED) == set(DIGESTS), 'digest key sets differ')
    for k in sorted(DIGESTS):
        check(EXPECTED.get(k) == DIGESTS[k], 'digest mismatch vs unmodified tree: ' + k)
    print('%d cases, %d failures' % (len(DIGESTS), len(FAILS)))
    return 1 if FAILS else 0


if __name__ == '__main__':
    sys.exit(main())
