"""Differential test for the hillshade.py split of _run_numpy (C10 / t8).

Run from inside the worktree:
    cd /tmp/t4/TC10 && PYTHONPATH=/tmp/t4/TC10 /venv/bin/python /tmp/t4/out/TC10-t8/equiv.py
`--record` prints the digest table (used once on the unmodified tree).
"""
import hashlib
import sys
import warnings

import dask.array as da
import numpy as np
import xarray as xr

import xrspatial
from xrspatial import hillshade

warnings.filterwarnings('ignore')

DTYPES = ['int8', 'int16', 'int32', 'int64', 'uint8', 'uint16', 'uint32', 'uint64',
          'float32', 'float64']
SHAPES = [(1, 4), (2, 2), (3, 3), (2, 5), (5, 8), (9, 4), (7, 7)]


def make(shape, dtype, seed):
    rng = np.random.RandomState(seed)
    a = rng.randint(0, 120, size=shape).astype(dtype)
    if np.dtype(dtype).kind == 'f':
        a = a + rng.rand(*shape).astype(dtype)
        flat = a.ravel()
        n = flat.size
        if n > 3:
            flat[rng.randint(n)] = np.nan
            flat[rng.randint(n)] = np.inf
            flat[rng.randint(n)] = -np.inf
        a = flat.reshape(shape)
    return a


def layouts(a):
    yield 'C', np.ascontiguousarray(a)
    yield 'F', np.asfortranarray(a)
    big = np.zeros((a.shape[0] * 2, a.shape[1] * 2), dtype=a.dtype)
    big[::2, ::2] = a
    yield 'view', big[::2, ::2]
    ro = a.copy()
    ro.setflags(write=False)
    yield 'ro', ro


def wrap(data, backend):
    h, w = data.shape
    if backend == 'dask':
        data = da.from_array(data, chunks=(max(1, h // 2 + 1), max(1, w // 2 + 1)))
    agg = xr.DataArray(data, dims=['lat', 'lon'],
                       coords={'lat': np.linspace(5, 6, h), 'lon': np.linspace(-3, 3, w),
                               'band': 7},
                       attrs={'res': (0.5, 0.25), 'crs': 'EPSG:4326', 'nodata': -1},
                       name='src')
    return agg


def digest(arr):
    arr = np.asarray(arr)
    m = hashlib.sha256()
    m.update(str(arr.dtype).encode())
    m.update(str(arr.shape).encode())
    # canonicalise NaN payloads
    if arr.dtype.kind == 'f':
        arr = np.where(np.isnan(arr), np.array(np.nan, dtype=arr.dtype), arr)
    m.update(np.ascontiguousarray(arr).tobytes())
    return m.hexdigest()[:16]


# ---- independent reference ------------------------------------------------
def ref_hillshade(a, azimuth=225, angle_altitude=25):
    # central differences on the interior only (border is NaN in the result anyway)
    d = np.asarray(a).astype(np.float32)
    gx = np.zeros_like(d)
    gy = np.zeros_like(d)
    gx[1:-1, :] = (d[2:, :] - d[:-2, :]) / np.float32(2.0)
    gy[:, 1:-1] = (d[:, 2:] - d[:, :-2]) / np.float32(2.0)
    slope = np.pi / 2. - np.arctan(np.sqrt(gx * gx + gy * gy))
    aspect = np.arctan2(-gx, gy)
    az = (360.0 - azimuth) * np.pi / 180.
    alt = angle_altitude * np.pi / 180.
    shaded = np.sin(alt) * np.sin(slope) + np.cos(alt) * np.cos(slope) * np.cos((az - np.pi / 2.) - aspect)
    res = (shaded + 1) / 2
    res[0, :] = np.nan
    res[-1, :] = np.nan
    res[:, 0] = np.nan
    res[:, -1] = np.nan
    return res


def same(a, b):
    a = np.asarray(a)
    b = np.asarray(b)
    return a.dtype == b.dtype and a.shape == b.shape and np.array_equal(a, b, equal_nan=True)


FAIL = []


def check_identity(tag, agg, before, result):
    """C10 checks: input untouched, identity kept, no shared writable memory."""
    after = np.asarray(agg.data)
    if not (after.dtype == before.dtype and np.array_equal(after, before, equal_nan=before.dtype.kind == 'f')):
        FAIL.append(tag + ': input values modified')
    if result.dims != agg.dims or result.shape != agg.shape:
        FAIL.append(tag + ': dims/shape')
    if dict(result.attrs) != {'res': (0.5, 0.25), 'crs': 'EPSG:4326', 'nodata': -1}:
        FAIL.append(tag + ': attrs')
    for c in ('lat', 'lon', 'band'):
        if c not in result.coords or not np.array_equal(result.coords[c].values,
                                                        agg.coords[c].values):
            FAIL.append(tag + ': coord ' + c)
    if isinstance(agg.data, da.Array) != isinstance(result.data, da.Array):
        FAIL.append(tag + ': backend')
    if isinstance(result.data, np.ndarray):
        if np.shares_memory(result.data, agg.data):
            FAIL.append(tag + ': shares memory')
        if result.data.flags.writeable:
            result.data[...] = 0
            after = np.asarray(agg.data)
            if not np.array_equal(after, before, equal_nan=before.dtype.kind == 'f'):
                FAIL.append(tag + ': write-through')


PARAMS = [dict(), dict(azimuth=0, angle_altitude=90), dict(azimuth=315, angle_altitude=45),
          dict(azimuth=17.5, angle_altitude=0, name='hs2')]


def run_all():
    table = {}
    seed = 100
    for dtype in DTYPES:
        for shape in SHAPES:
            seed += 1
            base = make(shape, dtype, seed)
            for lname, arr in layouts(base):
                for backend in ('numpy', 'dask'):
                    for pi, kw in enumerate(PARAMS):
                        key = '%s|%s|%s|%s|p%d' % (dtype, 'x'.join(map(str, shape)), lname,
                                                   backend, pi)
                        before = np.array(arr, copy=True)
                        agg = wrap(arr, backend)
                        try:
                            r = hillshade(agg, **kw)
                            got = np.asarray(r.data)
                        except Exception as e:
                            table[key] = 'EXC:' + type(e).__name__ + ':' + str(e)[:60]
                            if not np.array_equal(np.asarray(agg.data), before,
                                                  equal_nan=before.dtype.kind == 'f'):
                                FAIL.append(key + ': input modified on error path')
                            continue
                        table[key] = digest(got)
                        args = {k: v for k, v in kw.items() if k != 'name'}
                        if not same(got, ref_hillshade(before, **args)):
                            FAIL.append(key + ': hillshade != reference')
                        if r.name != kw.get('name', 'hillshade'):
                            FAIL.append(key + ': name')
                        check_identity(key, agg, before, r)
    # shadows without rtx keeps raising first
    try:
        hillshade(wrap(make((4, 4), 'float64', 1), 'numpy'), shadows=True)
        FAIL.append('shadows=True did not raise')
    except RuntimeError:
        pass
    return table


def overall(table):
    m = hashlib.sha256()
    for k in sorted(table):
        m.update((k + '=' + table[k] + ';').encode())
    return m.hexdigest()


# recorded on the unmodified tree with --record
EXPECTED_N = 2240
EXPECTED = '4523a7db200a8f66d4c9017e8c398477444da4abb9378741bdb6788186496ff0'


def main():
    assert xrspatial.__file__.startswith('/tmp/t4/TC10/'), xrspatial.__file__
    table = run_all()
    if '--record' in sys.argv:
        print('EXPECTED_N = %d' % len(table))
        print('EXPECTED = %r' % overall(table))
        return 0
    if EXPECTED is not None:
        if len(table) != EXPECTED_N or overall(table) != EXPECTED:
            FAIL.append('digest of all outputs differs from the recorded baseline '
                        '(%d cases, %s)' % (len(table), overall(table)))
    for f in FAIL[:40]:
        print('FAIL', f)
    print('cases: %d  failures: %d' % (len(table), len(FAIL)))
    return 1 if FAIL else 0


if __name__ == '__main__':
    sys.exit(main())
