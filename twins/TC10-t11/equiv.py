"""Differential test for TC10-t11 (focal.py: bookkeeping clean-up of hotspots()).

Runs xrspatial.focal.hotspots on numpy and dask rasters (all integer / float
dtypes, NaNs, odd shapes, C / F / strided / read-only layouts, several kernels)
and compares

  * the bit pattern (dtype, shape, bytes) of every result - or the type and
    message of the exception raised - with what was recorded on the unmodified
    tree (EXPECTED below),
  * the values with an independent pure-NumPy re-computation of the hot spot
    classes (reference() below),
  * dask results with numpy results,
  * the C10 side conditions (inputs unchanged, no shared memory, dims / coords /
    backend kept, attrs = input attrs + unit).

usage: equiv.py            compare, exit 0 if identical
       equiv.py --record   print the table of the current tree
"""
import hashlib
import sys
import warnings

import dask.array as da
import numpy as np
import xarray as xr

import xrspatial
from xrspatial.convolution import annulus_kernel, circle_kernel, custom_kernel
from xrspatial.focal import hotspots

EXPECTED = {
    '(1, 7)|float32|circle1|C|da-whole': 'd4678c2efee553d00f88/((1,), (7,))',
    '(1, 7)|float32|circle1|C|np': 'd4678c2efee553d00f88',
    '(1, 7)|float32|one|C|da-whole': '9896981a0a982a330598/((1,), (7,))',
    '(1, 7)|float32|one|C|np': '9896981a0a982a330598',
    '(1, 7)|float32|row|C|da-whole': 'd4678c2efee553d00f88/((1,), (7,))',
    '(1, 7)|float32|row|C|np': 'd4678c2efee553d00f88',
    '(1, 7)|int32|circle1|C|da-whole': 'd4678c2efee553d00f88/((1,), (7,))',
    '(1, 7)|int32|circle1|C|np': 'd4678c2efee553d00f88',
    '(1, 7)|int32|one|C|da-whole': '9896981a0a982a330598/((1,), (7,))',
    '(1, 7)|int32|one|C|np': '9896981a0a982a330598',
    '(1, 7)|int32|row|C|da-whole': 'd4678c2efee553d00f88/((1,), (7,))',
    '(1, 7)|int32|row|C|np': 'd4678c2efee553d00f88',
    '(2, 5)|float32|circle1|C|da-whole': 'a5e8ff48a569c0b6bf5f/((2,), (5,))',
    '(2, 5)|float32|circle1|C|np': 'a5e8ff48a569c0b6bf5f',
    '(2, 5)|float32|one|C|da-whole': '686cca08a4d625a994bd/((2,), (5,))',
    '(2, 5)|float32|one|C|np': '686cca08a4d625a994bd',
    '(2, 5)|float32|row|C|da-whole': 'a5e8ff48a569c0b6bf5f/((2,), (5,))',
    '(2, 5)|float32|row|C|np': 'a5e8ff48a569c0b6bf5f',
    '(2, 5)|int32|circle1|C|da-whole': 'a5e8ff48a569c0b6bf5f/((2,), (5,))',
    '(2, 5)|int32|circle1|C|np': 'a5e8ff48a569c0b6bf5f',
    '(2, 5)|int32|one|C|da-whole': '686cca08a4d625a994bd/((2,), (5,))',
    '(2, 5)|int32|one|C|np': '686cca08a4d625a994bd',
    '(2, 5)|int32|row|C|da-whole': 'a5e8ff48a569c0b6bf5f/((2,), (5,))',
    '(2, 5)|int32|row|C|np': 'a5e8ff48a569c0b6bf5f',
    '(3, 3)|float32|circle1|C|da-whole': '3316e3d9eeb84a1a091d/((3,), (3,))',
    '(3, 3)|float32|circle1|C|np': '3316e3d9eeb84a1a091d',
    '(3, 3)|float32|one|C|da-whole': '4ab5c848be83b1de3400/((3,), (3,))',
    '(3, 3)|float32|one|C|np': '4ab5c848be83b1de3400',
    '(3, 3)|float32|row|C|da-whole': '3316e3d9eeb84a1a091d/((3,), (3,))',
    '(3, 3)|float32|row|C|np': '3316e3d9eeb84a1a091d',
    '(3, 3)|int32|circle1|C|da-whole': '3316e3d9eeb84a1a091d/((3,), (3,))',
    '(3, 3)|int32|circle1|C|np': '3316e3d9eeb84a1a091d',
    '(3, 3)|int32|one|C|da-whole': '4ab5c848be83b1de3400/((3,), (3,))',
    '(3, 3)|int32|one|C|np': '4ab5c848be83b1de3400',
    '(3, 3)|int32|row|C|da-whole': '3316e3d9eeb84a1a091d/((3,), (3,))',
    '(3, 3)|int32|row|C|np': '3316e3d9eeb84a1a091d',
    '(5, 4)|float32|circle1|C|da-split': 'b90e1837b80e4b57ce28/((2, 2, 1), (2, 2))',
    '(5, 4)|float32|circle1|C|da-whole': 'b90e1837b80e4b57ce28/((5,), (4,))',
    '(5, 4)|float32|circle1|C|np': 'b90e1837b80e4b57ce28',
    '(5, 4)|float32|one|C|da-split': 'c3542b36f060afb9e99f/((2, 2, 1), (2, 2))',
    '(5, 4)|float32|one|C|da-whole': 'c3542b36f060afb9e99f/((5,), (4,))',
    '(5, 4)|float32|one|C|np': 'c3542b36f060afb9e99f',
    '(5, 4)|float32|row|C|da-split': 'f7b6343d0e8fda4b739f/((2, 2, 1), (2, 2))',
    '(5, 4)|float32|row|C|da-whole': 'f7b6343d0e8fda4b739f/((5,), (4,))',
    '(5, 4)|float32|row|C|np': 'f7b6343d0e8fda4b739f',
    '(5, 4)|int32|circle1|C|da-split': 'b90e1837b80e4b57ce28/((2, 2, 1), (2, 2))',
    '(5, 4)|int32|circle1|C|da-whole': 'b90e1837b80e4b57ce28/((5,), (4,))',
    '(5, 4)|int32|circle1|C|np': 'b90e1837b80e4b57ce28',
    '(5, 4)|int32|one|C|da-split': 'c3542b36f060afb9e99f/((2, 2, 1), (2, 2))',
    '(5, 4)|int32|one|C|da-whole': 'c3542b36f060afb9e99f/((5,), (4,))',
    '(5, 4)|int32|one|C|np': 'c3542b36f060afb9e99f',
    '(5, 4)|int32|row|C|da-split': 'f7b6343d0e8fda4b739f/((2, 2, 1), (2, 2))',
    '(5, 4)|int32|row|C|da-whole': 'f7b6343d0e8fda4b739f/((5,), (4,))',
    '(5, 4)|int32|row|C|np': 'f7b6343d0e8fda4b739f',
    '(6, 1)|float32|circle1|C|da-whole': '035b8ca08a7a36ba577d/((6,), (1,))',
    '(6, 1)|float32|circle1|C|np': '035b8ca08a7a36ba577d',
    '(6, 1)|float32|one|C|da-whole': '035b8ca08a7a36ba577d/((6,), (1,))',
    '(6, 1)|float32|one|C|np': '035b8ca08a7a36ba577d',
    '(6, 1)|float32|row|C|da-whole': '035b8ca08a7a36ba577d/((6,), (1,))',
    '(6, 1)|float32|row|C|np': '035b8ca08a7a36ba577d',
    '(6, 1)|int32|circle1|C|da-whole': '035b8ca08a7a36ba577d/((6,), (1,))',
    '(6, 1)|int32|circle1|C|np': '035b8ca08a7a36ba577d',
    '(6, 1)|int32|one|C|da-whole': '035b8ca08a7a36ba577d/((6,), (1,))',
    '(6, 1)|int32|one|C|np': '035b8ca08a7a36ba577d',
    '(6, 1)|int32|row|C|da-whole': '035b8ca08a7a36ba577d/((6,), (1,))',
    '(6, 1)|int32|row|C|np': '035b8ca08a7a36ba577d',
    '(9, 11)|float32|annulus|C|da-split': '200ae1e877d199123816/((4, 3, 2), (3, 3, 3, 2))',
    '(9, 11)|float32|annulus|C|da-whole': '200ae1e877d199123816/((9,), (11,))',
    '(9, 11)|float32|annulus|C|np': '200ae1e877d199123816',
    '(9, 11)|float32|asym|C|da-split': 'b571fe688a009a020758/((4, 4, 1), (3, 3, 3, 2))',
    '(9, 11)|float32|asym|C|da-whole': 'b571fe688a009a020758/((9,), (11,))',
    '(9, 11)|float32|asym|C|np': 'b571fe688a009a020758',
    '(9, 11)|float32|circle1|C|da-split': '96e3491425f24854064f/((4, 4, 1), (3, 3, 3, 2))',
    '(9, 11)|float32|circle1|C|da-whole': '96e3491425f24854064f/((9,), (11,))',
    '(9, 11)|float32|circle1|C|np': '96e3491425f24854064f',
    '(9, 11)|float32|circle2|F|np': '200ae1e877d199123816',
    '(9, 11)|float32|circle2|readonly|np': '200ae1e877d199123816',
    '(9, 11)|float32|circle2|strided|np': '200ae1e877d199123816',
    '(9, 11)|float64|annulus|C|da-split': '200ae1e877d199123816/((4, 3, 2), (3, 3, 3, 2))',
    '(9, 11)|float64|annulus|C|da-whole': '200ae1e877d199123816/((9,), (11,))',
    '(9, 11)|float64|annulus|C|np': '200ae1e877d199123816',
    '(9, 11)|float64|asym|C|da-split': 'b571fe688a009a020758/((4, 4, 1), (3, 3, 3, 2))',
    '(9, 11)|float64|asym|C|da-whole': 'b571fe688a009a020758/((9,), (11,))',
    '(9, 11)|float64|asym|C|np': 'b571fe688a009a020758',
    '(9, 11)|float64|circle1|C|da-split': '96e3491425f24854064f/((4, 4, 1), (3, 3, 3, 2))',
    '(9, 11)|float64|circle1|C|da-whole': '96e3491425f24854064f/((9,), (11,))',
    '(9, 11)|float64|circle1|C|np': '96e3491425f24854064f',
    '(9, 11)|float64|circle2|C|da-split': '200ae1e877d199123816/((4, 3, 2), (3, 3, 3, 2))',
    '(9, 11)|float64|circle2|C|da-whole': '200ae1e877d199123816/((9,), (11,))',
    '(9, 11)|float64|circle2|C|np': '200ae1e877d199123816',
    '(9, 11)|float64|circle2|F|np': '200ae1e877d199123816',
    '(9, 11)|float64|circle2|readonly|np': '200ae1e877d199123816',
    '(9, 11)|float64|circle2|strided|np': '200ae1e877d199123816',
    '(9, 11)|float64|one|C|da-split': 'b9cdf6895faf5f75cc06/((4, 4, 1), (3, 3, 3, 2))',
    '(9, 11)|float64|one|C|da-whole': 'b9cdf6895faf5f75cc06/((9,), (11,))',
    '(9, 11)|float64|one|C|np': 'b9cdf6895faf5f75cc06',
    '(9, 11)|float64|row|C|da-split': '3e3dc0d8c4e017abe67e/((4, 4, 1), (3, 3, 3, 2))',
    '(9, 11)|float64|row|C|da-whole': '3e3dc0d8c4e017abe67e/((9,), (11,))',
    '(9, 11)|float64|row|C|np': '3e3dc0d8c4e017abe67e',
    '(9, 11)|int16|annulus|C|da-split': '200ae1e877d199123816/((4, 3, 2), (3, 3, 3, 2))',
    '(9, 11)|int16|annulus|C|da-whole': '200ae1e877d199123816/((9,), (11,))',
    '(9, 11)|int16|annulus|C|np': '200ae1e877d199123816',
    '(9, 11)|int16|asym|C|da-split': 'b571fe688a009a020758/((4, 4, 1), (3, 3, 3, 2))',
    '(9, 11)|int16|asym|C|da-whole': 'b571fe688a009a020758/((9,), (11,))',
    '(9, 11)|int16|asym|C|np': 'b571fe688a009a020758',
    '(9, 11)|int16|circle1|C|da-split': '96e3491425f24854064f/((4, 4, 1), (3, 3, 3, 2))',
    '(9, 11)|int16|circle1|C|da-whole': '96e3491425f24854064f/((9,), (11,))',
    '(9, 11)|int16|circle1|C|np': '96e3491425f24854064f',
    '(9, 11)|int16|circle2|F|np': '200ae1e877d199123816',
    '(9, 11)|int16|circle2|readonly|np': '200ae1e877d199123816',
    '(9, 11)|int16|circle2|strided|np': '200ae1e877d199123816',
    '(9, 11)|int32|annulus|C|da-split': '200ae1e877d199123816/((4, 3, 2), (3, 3, 3, 2))',
    '(9, 11)|int32|annulus|C|da-whole': '200ae1e877d199123816/((9,), (11,))',
    '(9, 11)|int32|annulus|C|np': '200ae1e877d199123816',
    '(9, 11)|int32|asym|C|da-split': 'b571fe688a009a020758/((4, 4, 1), (3, 3, 3, 2))',
    '(9, 11)|int32|asym|C|da-whole': 'b571fe688a009a020758/((9,), (11,))',
    '(9, 11)|int32|asym|C|np': 'b571fe688a009a020758',
    '(9, 11)|int32|circle1|C|da-split': '96e3491425f24854064f/((4, 4, 1), (3, 3, 3, 2))',
    '(9, 11)|int32|circle1|C|da-whole': '96e3491425f24854064f/((9,), (11,))',
    '(9, 11)|int32|circle1|C|np': '96e3491425f24854064f',
    '(9, 11)|int64|annulus|C|da-split': '200ae1e877d199123816/((4, 3, 2), (3, 3, 3, 2))',
    '(9, 11)|int64|annulus|C|da-whole': '200ae1e877d199123816/((9,), (11,))',
    '(9, 11)|int64|annulus|C|np': '200ae1e877d199123816',
    '(9, 11)|int64|asym|C|da-split': 'b571fe688a009a020758/((4, 4, 1), (3, 3, 3, 2))',
    '(9, 11)|int64|asym|C|da-whole': 'b571fe688a009a020758/((9,), (11,))',
    '(9, 11)|int64|asym|C|np': 'b571fe688a009a020758',
    '(9, 11)|int64|circle1|C|da-split': '96e3491425f24854064f/((4, 4, 1), (3, 3, 3, 2))',
    '(9, 11)|int64|circle1|C|da-whole': '96e3491425f24854064f/((9,), (11,))',
    '(9, 11)|int64|circle1|C|np': '96e3491425f24854064f',
    '(9, 11)|int8|annulus|C|da-split': '200ae1e877d199123816/((4, 3, 2), (3, 3, 3, 2))',
    '(9, 11)|int8|annulus|C|da-whole': '200ae1e877d199123816/((9,), (11,))',
    '(9, 11)|int8|annulus|C|np': '200ae1e877d199123816',
    '(9, 11)|int8|asym|C|da-split': 'b571fe688a009a020758/((4, 4, 1), (3, 3, 3, 2))',
    '(9, 11)|int8|asym|C|da-whole': 'b571fe688a009a020758/((9,), (11,))',
    '(9, 11)|int8|asym|C|np': 'b571fe688a009a020758',
    '(9, 11)|int8|circle1|C|da-split': '96e3491425f24854064f/((4, 4, 1), (3, 3, 3, 2))',
    '(9, 11)|int8|circle1|C|da-whole': '96e3491425f24854064f/((9,), (11,))',
    '(9, 11)|int8|circle1|C|np': '96e3491425f24854064f',
    '(9, 11)|uint16|annulus|C|da-split': '200ae1e877d199123816/((4, 3, 2), (3, 3, 3, 2))',
    '(9, 11)|uint16|annulus|C|da-whole': '200ae1e877d199123816/((9,), (11,))',
    '(9, 11)|uint16|annulus|C|np': '200ae1e877d199123816',
    '(9, 11)|uint16|asym|C|da-split': 'b571fe688a009a020758/((4, 4, 1), (3, 3, 3, 2))',
    '(9, 11)|uint16|asym|C|da-whole': 'b571fe688a009a020758/((9,), (11,))',
    '(9, 11)|uint16|asym|C|np': 'b571fe688a009a020758',
    '(9, 11)|uint16|circle1|C|da-split': '96e3491425f24854064f/((4, 4, 1), (3, 3, 3, 2))',
    '(9, 11)|uint16|circle1|C|da-whole': '96e3491425f24854064f/((9,), (11,))',
    '(9, 11)|uint16|circle1|C|np': '96e3491425f24854064f',
    '(9, 11)|uint32|annulus|C|da-split': '200ae1e877d199123816/((4, 3, 2), (3, 3, 3, 2))',
    '(9, 11)|uint32|annulus|C|da-whole': '200ae1e877d199123816/((9,), (11,))',
    '(9, 11)|uint32|annulus|C|np': '200ae1e877d199123816',
    '(9, 11)|uint32|asym|C|da-split': 'b571fe688a009a020758/((4, 4, 1), (3, 3, 3, 2))',
    '(9, 11)|uint32|asym|C|da-whole': 'b571fe688a009a020758/((9,), (11,))',
    '(9, 11)|uint32|asym|C|np': 'b571fe688a009a020758',
    '(9, 11)|uint32|circle1|C|da-split': '96e3491425f24854064f/((4, 4, 1), (3, 3, 3, 2))',
    '(9, 11)|uint32|circle1|C|da-whole': '96e3491425f24854064f/((9,), (11,))',
    '(9, 11)|uint32|circle1|C|np': '96e3491425f24854064f',
    '(9, 11)|uint64|annulus|C|da-split': '200ae1e877d199123816/((4, 3, 2), (3, 3, 3, 2))',
    '(9, 11)|uint64|annulus|C|da-whole': '200ae1e877d199123816/((9,), (11,))',
    '(9, 11)|uint64|annulus|C|np': '200ae1e877d199123816',
    '(9, 11)|uint64|asym|C|da-split': 'b571fe688a009a020758/((4, 4, 1), (3, 3, 3, 2))',
    '(9, 11)|uint64|asym|C|da-whole': 'b571fe688a009a020758/((9,), (11,))',
    '(9, 11)|uint64|asym|C|np': 'b571fe688a009a020758',
    '(9, 11)|uint64|circle1|C|da-split': '96e3491425f24854064f/((4, 4, 1), (3, 3, 3, 2))',
    '(9, 11)|uint64|circle1|C|da-whole': '96e3491425f24854064f/((9,), (11,))',
    '(9, 11)|uint64|circle1|C|np': '96e3491425f24854064f',
    '(9, 11)|uint8|annulus|C|da-split': '200ae1e877d199123816/((4, 3, 2), (3, 3, 3, 2))',
    '(9, 11)|uint8|annulus|C|da-whole': '200ae1e877d199123816/((9,), (11,))',
    '(9, 11)|uint8|annulus|C|np': '200ae1e877d199123816',
    '(9, 11)|uint8|asym|C|da-split': 'b571fe688a009a020758/((4, 4, 1), (3, 3, 3, 2))',
    '(9, 11)|uint8|asym|C|da-whole': 'b571fe688a009a020758/((9,), (11,))',
    '(9, 11)|uint8|asym|C|np': 'b571fe688a009a020758',
    '(9, 11)|uint8|circle1|C|da-split': '96e3491425f24854064f/((4, 4, 1), (3, 3, 3, 2))',
    '(9, 11)|uint8|circle1|C|da-whole': '96e3491425f24854064f/((9,), (11,))',
    '(9, 11)|uint8|circle1|C|np': '96e3491425f24854064f',
    'allnan|float32|circle1|C|da-split': '1af6c087d1b3f5ff9fc4/((2, 2, 1), (2, 2, 2))',
    'allnan|float32|circle1|C|da-whole': '1af6c087d1b3f5ff9fc4/((5,), (6,))',
    'allnan|float32|circle1|C|np': '1af6c087d1b3f5ff9fc4',
    'bool|circle1|da-split': 'd08315328832c8e66b8c/((2, 2, 1), (2, 2, 1))',
    'bool|circle1|da-whole': 'd08315328832c8e66b8c/((5,), (5,))',
    'bool|circle1|np': 'ValueError: data type must be integer or float',
    'complex|circle1|da-split': 'd08315328832c8e66b8c/((2, 2, 1), (2, 2, 1))',
    'complex|circle1|da-whole': 'd08315328832c8e66b8c/((5,), (5,))',
    'complex|circle1|np': 'ValueError: data type must be integer or float',
    'const|float64|row|C|da-split': '1af6c087d1b3f5ff9fc4/((2, 2, 1), (2, 2, 2))',
    'const|float64|row|C|da-whole': '1af6c087d1b3f5ff9fc4/((5,), (6,))',
    'const|float64|row|C|np': 'ZeroDivisionError: Standard deviation of the input raster values is 0.',
    'const|int32|circle1|C|da-split': '1af6c087d1b3f5ff9fc4/((2, 2, 1), (2, 2, 2))',
    'const|int32|circle1|C|da-whole': '1af6c087d1b3f5ff9fc4/((5,), (6,))',
    'const|int32|circle1|C|np': 'ZeroDivisionError: Standard deviation of the input raster values is 0.',
    'datetime|circle1|da-split': 'd08315328832c8e66b8c/((2, 2, 1), (2, 2, 1))',
    'datetime|circle1|da-whole': 'd08315328832c8e66b8c/((5,), (5,))',
    'datetime|circle1|np': 'ValueError: data type must be integer or float',
    'validate|1d': 'ValueError: `raster` must be 2D',
    'validate|3d': 'ValueError: `raster` must be 2D',
    'validate|list': 'TypeError: `raster` must be instance of DataArray',
    'validate|ndarray': 'TypeError: `raster` must be instance of DataArray',
}


def digest(arr):
    arr = np.asarray(arr)
    h = hashlib.sha256()
    h.update(str(arr.dtype).encode())
    h.update(str(arr.shape).encode())
    h.update(np.ascontiguousarray(arr).tobytes())
    return h.hexdigest()[:20]


def reference(values, kernel):
    """independent (float64 bookkeeping, float32 data) hot spot classes; cells
    whose z-score sits within 1e-4 of a class boundary are reported as
    undecided (-1 in the mask)."""
    data = values.astype(np.float32)
    k = (kernel / kernel.sum())
    h, w = data.shape
    kh, kw = k.shape
    ph, pw = kh // 2, kw // 2
    mean = np.full((h, w), np.nan)
    for i in range(ph, h - ph):
        for j in range(pw, w - pw):
            win = data[i - ph:i + ph + 1, j - pw:j + pw + 1].astype(np.float64)
            mean[i, j] = np.sum(k * win)
    gm = np.nanmean(data.astype(np.float64))
    gs = np.nanstd(data.astype(np.float64))
    z = (mean - gm) / gs
    out = np.zeros((h, w), dtype=np.int8)
    az = np.abs(z)
    conf = np.where(az > 2.58, 99, np.where(az > 1.96, 95, np.where(az > 1.65, 90, 0)))
    out[...] = np.where(np.isnan(z), 0, np.sign(np.nan_to_num(z)) * conf)
    undecided = np.zeros((h, w), dtype=bool)
    for b in (2.58, 1.96, 1.65, 0.0):
        undecided |= np.abs(az - b) < 1e-4
    return out, undecided


def layouts(values, dtype):
    v = values.astype(dtype)
    yield 'C', np.ascontiguousarray(v)
    yield 'F', np.asfortranarray(v)
    big = np.zeros((v.shape[0] * 2, v.shape[1] * 3), dtype=dtype)
    big[::2, ::3] = v
    yield 'strided', big[::2, ::3]
    ro = v.copy()
    ro.setflags(write=False)
    yield 'readonly', ro


def make(data):
    h, w = data.shape
    agg = xr.DataArray(data, dims=['northing', 'easting'],
                       coords={'northing': np.arange(h)[::-1] * 2.0,
                               'easting': np.arange(w) * 0.5 + 100},
                       attrs={'res': (0.5, 2.0), 'unit': 'm', 'nested': {'a': [1, 2]}},
                       name='src')
    return agg.assign_coords(spatial_ref=0, band=np.int16(3))


def snapshot(agg):
    return dict(values=np.array(agg.values, copy=True),
                coords={k: np.array(v.values, copy=True) for k, v in agg.coords.items()},
                attrs=repr(agg.attrs), dims=agg.dims, dtype=agg.dtype, shape=agg.shape)


def check_identity(label, agg, before, out, is_dask):
    errs = []
    if not np.array_equal(before['values'], agg.values, equal_nan=True):
        errs.append('input values changed')
    if agg.dtype != before['dtype'] or agg.shape != before['shape']:
        errs.append('input dtype/shape changed')
    if repr(agg.attrs) != before['attrs'] or agg.dims != before['dims']:
        errs.append('input attrs/dims changed')
    for k, v in before['coords'].items():
        if k not in agg.coords or not np.array_equal(agg.coords[k].values, v):
            errs.append('input coord %s changed' % k)
    if out.shape != agg.shape or out.dims != agg.dims:
        errs.append('output shape/dims differ')
    if set(out.coords) != set(agg.coords):
        errs.append('output coords differ: %s' % sorted(out.coords))
    else:
        for k in agg.coords:
            if not np.array_equal(out.coords[k].values, agg.coords[k].values):
                errs.append('output coord %s differs' % k)
    if out.attrs != dict(agg.attrs, unit='%'):
        errs.append('output attrs differ: %r' % (out.attrs,))
    if out.attrs.get('nested') is agg.attrs.get('nested'):
        errs.append('output attrs share a mutable value with the input attrs')
    # (a dask-backed result is named after its graph key, a per-process token)
    if not is_dask and out.name is not None:
        errs.append('output name %r' % (out.name,))
    if is_dask != isinstance(out.data, da.Array):
        errs.append('backend changed')
    if not is_dask and np.shares_memory(out.data, agg.data):
        errs.append('output shares memory with input')
    return ['%s: %s' % (label, e) for e in errs]


def base_values(shape, seed):
    rng = np.random.RandomState(seed)
    v = rng.randint(0, 20, size=shape).astype(np.float64)
    # a few strong clusters so that every class shows up
    h, w = shape
    v[:max(1, h // 3), :max(1, w // 3)] += 100
    v[-max(1, h // 3):, -max(1, w // 3):] -= 0  # keep low
    v[h // 2:, : max(1, w // 4)] = 0
    return v


def kernels():
    yield 'circle1', circle_kernel(1, 1, 1)
    yield 'circle2', circle_kernel(1, 1, 2)
    yield 'annulus', annulus_kernel(1, 1, 2, 1)
    yield 'row', custom_kernel(np.array([[1, 1, 0]]))
    yield 'asym', custom_kernel(np.array([[1, 0, 0], [1, 1, 0], [0, 0, 2.0]]))
    yield 'one', custom_kernel(np.array([[1.0]]))


def cases():
    dtypes = ['int8', 'uint8', 'int16', 'uint16', 'int32', 'uint32', 'int64',
              'uint64', 'float32', 'float64']
    kers = dict(kernels())
    shape = (9, 11)
    vals = base_values(shape, 3)

    def values_for(dt, v=vals):
        v = v.copy()
        if dt.startswith('float'):
            v.flat[5] = np.nan
            v[4, 4] = np.nan
            v[-1, -1] = -7.5
        return v.astype(dt)

    for dt in dtypes:
        for kn in ('circle1', 'annulus', 'asym'):
            yield '%s|%s|%s|C' % (shape, dt, kn), np.ascontiguousarray(values_for(dt)), kers[kn], True
    for dt in ('int16', 'float32', 'float64'):
        for lname, arr in layouts(values_for(dt).astype(np.float64), dt):
            if lname != 'C':
                yield '%s|%s|%s|%s' % (shape, dt, 'circle2', lname), arr, kers['circle2'], False
    for kn in kers:
        yield '%s|float64|%s|C' % (shape, kn), np.ascontiguousarray(values_for('float64')), kers[kn], True
    for si, shp in enumerate([(1, 7), (6, 1), (3, 3), (2, 5), (5, 4)]):
        v = base_values(shp, 40 + si)
        for dt in ('int32', 'float32'):
            for kn in ('circle1', 'row', 'one'):
                yield '%s|%s|%s|C' % (shp, dt, kn), np.ascontiguousarray(v.astype(dt)), kers[kn], True
    # constant raster: zero standard deviation; all-NaN raster
    yield 'const|int32|circle1|C', np.full((5, 6), 4, dtype='int32'), kers['circle1'], True
    yield 'const|float64|row|C', np.full((5, 6), 2.5), kers['row'], True
    yield 'allnan|float32|circle1|C', np.full((5, 6), np.nan, dtype='float32'), kers['circle1'], True
    # rejected dtypes
    yield 'bool|circle1', np.eye(5, dtype=bool), kers['circle1'], True
    yield 'complex|circle1', np.eye(5, dtype=complex), kers['circle1'], True
    yield 'datetime|circle1', np.arange(25).reshape(5, 5).astype('M8[s]'), kers['circle1'], True


def run(func):
    try:
        return func(), None
    except Exception as e:  # noqa
        return None, '%s: %s' % (type(e).__name__, e)


def chunkings(shape):
    h, w = shape
    yield 'whole', (h, w)
    if h >= 4 and w >= 4:
        yield 'split', (max(2, h // 2), max(2, w // 3))


def main(record):
    assert xrspatial.__file__.startswith('/tmp/t5/TC10/'), xrspatial.__file__
    warnings.simplefilter('ignore')
    table = {}
    errors = []
    for label, arr, kernel, with_dask in cases():
        kernel_before = kernel.copy()
        agg = make(arr)
        before = snapshot(agg)
        out, exc = run(lambda: hotspots(agg, kernel))
        np_res = None
        if exc is not None:
            table[label + '|np'] = exc
            if not np.array_equal(before['values'], agg.values, equal_nan=True):
                errors.append(label + ': input changed by a failing call')
        else:
            errors += check_identity(label + '|np', agg, before, out, False)
            np_res = np.array(out.data)
            table[label + '|np'] = digest(np_res)
            if arr.dtype.kind in 'iuf' and arr.ndim == 2 and not label.startswith(('const', 'allnan')):
                ref, undecided = reference(arr, kernel)
                bad = (ref != np_res) & ~undecided
                if np_res.dtype != np.int8 or bad.any():
                    errors.append(label + ': differs from the independent reference at %s'
                                  % (np.argwhere(bad)[:3].tolist(),))
            out.data[...] = 7
            out.attrs['nested']['a'].append(3)
            out.attrs['res'] = None
            if not np.array_equal(before['values'], agg.values, equal_nan=True) \
                    or repr(agg.attrs) != before['attrs']:
                errors.append(label + ': writing to the output changed the input')
        if not np.array_equal(kernel, kernel_before):
            errors.append(label + ': kernel changed')
        if not (with_dask and arr.flags.c_contiguous):
            continue
        for cname, chunks in chunkings(arr.shape):
            key = label + '|da-' + cname
            dagg = make(da.from_array(arr, chunks=chunks))
            before = snapshot(dagg)

            def call():
                o = hotspots(dagg, kernel)
                return o, o.data.compute()
            got, exc = run(call)
            if exc is not None:
                table[key] = exc
                continue
            dout, res = got
            errors += check_identity(key, dagg, before, dout, True)
            table[key] = '%s/%r' % (digest(res), dout.data.chunks)
            if np_res is not None and digest(res) != digest(np_res):
                errors.append(key + ': dask result differs from numpy result')
            if dagg.data.chunks != da.from_array(arr, chunks=chunks).chunks:
                errors.append(key + ': input chunks changed')

    # argument validation of the public wrapper
    k = circle_kernel(1, 1, 1)
    for name, arg in [('ndarray', np.eye(4)), ('3d', xr.DataArray(np.zeros((2, 3, 3)))),
                      ('1d', xr.DataArray(np.zeros(4))), ('list', [[1, 2], [3, 4]])]:
        _, exc = run(lambda: hotspots(arg, k))
        table['validate|' + name] = exc

    if record:
        for key in sorted(table):
            print('    %r: %r,' % (key, table[key]))
        return 0
    for key in sorted(set(table) | set(EXPECTED)):
        if table.get(key) != EXPECTED.get(key):
            errors.append('%s: got %s expected %s' % (key, table.get(key), EXPECTED.get(key)))
    for e in errors[:40]:
        print('DIFF', e)
    print('%d cases, %d differences' % (len(table), len(errors)))
    return 1 if errors else 0


if __name__ == '__main__':
    sys.exit(main('--record' in sys.argv))
