"""Differential test for refactoring t22 (perlin / terrain permutation-table helper).

Run from inside the worktree:
    cd /tmp/t5/TC11 && PYTHONPATH=/tmp/t5/TC11 /venv/bin/python /tmp/t9/out/TC11-t22/equiv.py
Digests in EXPECTED were recorded on the unmodified tree (RECORD=1 prints them).
"""
import hashlib
import json
import os
import sys

import dask.array as da
import numpy as np
import xarray as xr

import xrspatial
from xrspatial import generate_terrain, perlin

print("xrspatial from", xrspatial.__file__)


def digest(a):
    a = np.asarray(a)
    h = hashlib.sha256()
    h.update(str(a.dtype).encode())
    h.update(str(a.shape).encode())
    h.update(np.ascontiguousarray(a).tobytes())
    return h.hexdigest()[:24]


def rng_digest():
    st = np.random.get_state()
    return digest(st[1]) + ":%d" % st[2]


def mk(shape, dtype, backend, chunks=None):
    data = np.zeros(shape, dtype=dtype)
    if backend == "dask":
        data = da.from_array(data, chunks=chunks or (max(1, shape[0] // 2), max(1, shape[1] // 3)))
    return xr.DataArray(data, dims=["y", "x"], attrs={"res": 1, "foo": "bar"})


def run():
    res = {}
    shapes = [(3, 4), (7, 5), (1, 9), (16, 16), (13, 31)]
    dtypes = [np.float32, np.float64, np.int32, np.uint8]
    for shape in shapes:
        for dt in dtypes:
            for backend in ("numpy", "dask"):
                for freq, seed in (((1, 1), 5), ((3, 2), 0), ((0.5, 7), 12345)):
                    key = "perlin|%s|%s|%s|%s|%s" % (shape, np.dtype(dt).name, backend, freq, seed)
                    np.random.seed(99)  # pre-existing global state must not matter
                    np.random.rand(3)
                    out = perlin(mk(shape, dt, backend), freq=freq, seed=seed, name="nm")
                    assert out.name == "nm" and out.dims == ("y", "x")
                    assert out.attrs == {"res": 1, "foo": "bar"}
                    assert isinstance(out.data, da.Array) == (backend == "dask")
                    res[key] = digest(out.values) + "|" + rng_digest()
    # terrain (uses the same permutation tables, seed+i per layer)
    for shape in [(4, 6), (9, 5), (20, 17)]:
        for dt in (np.float32, np.float64, np.int64):
            for backend in ("numpy", "dask"):
                for seed, xr_, yr_, z in ((10, (0, 500), (0, 500), 4000),
                                          (3, (-20, 20), (5, 45), 1),
                                          (0, (0, 1), (0, 1), 7)):
                    key = "terrain|%s|%s|%s|%s|%s|%s|%s" % (
                        shape, np.dtype(dt).name, backend, seed, xr_, yr_, z)
                    out = generate_terrain(mk(shape, dt, backend), x_range=xr_,
                                           y_range=yr_, seed=seed, zfactor=z)
                    res[key] = digest(out.values) + "|" + rng_digest()
    # interleaving / repetition: same call repeated after other calls
    a = perlin(mk((8, 8), np.float32, "numpy"), seed=1).values
    generate_terrain(mk((5, 5), np.float32, "numpy"), seed=4).values
    perlin(mk((8, 8), np.float32, "dask"), seed=2).values
    b = perlin(mk((8, 8), np.float32, "numpy"), seed=1).values
    assert a.tobytes() == b.tobytes()
    res["repeat"] = digest(b)
    return res


EXPECTED = json.loads(r'''
{"perlin|(1, 9)|float32|dask|(0.5, 7)|12345": "71f524f56a21253009b84f11|5ae30f28ed125ab8d80f8e42:616",
"perlin|(1, 9)|float32|dask|(1, 1)|5": "1a2aa21835ba9fdb2b3efb6e|b54daa1b5bcea11203dfcfa3:307",
"perlin|(1, 9)|float32|dask|(3, 2)|0": "763e7725d7654f8cbd6e9c3e|b3e656adcff2c69ca1e5e19e:551",
"perlin|(1, 9)|float32|numpy|(0.5, 7)|12345": "a172c02eb40d35c471dabdcf|5ae30f28ed125ab8d80f8e42:616",
"perlin|(1, 9)|float32|numpy|(1, 1)|5": "5edae876466cbead20a6ac3b|b54daa1b5bcea11203dfcfa3:307",
"perlin|(1, 9)|float32|numpy|(3, 2)|0": "d23cdfa5630cbf1df30d4f48|b3e656adcff2c69ca1e5e19e:551",
"perlin|(1, 9)|float64|dask|(0.5, 7)|12345": "71f524f56a21253009b84f11|5ae30f28ed125ab8d80f8e42:616",
"perlin|(1, 9)|float64|dask|(1, 1)|5": "1a2aa21835ba9fdb2b3efb6e|b54daa1b5bcea11203dfcfa3:307",
"perlin|(1, 9)|float64|dask|(3, 2)|0": "763e7725d7654f8cbd6e9c3e|b3e656adcff2c69ca1e5e19e:551",
"perlin|(1, 9)|float64|numpy|(0.5, 7)|12345": "a172c02eb40d35c471dabdcf|5ae30f28ed125ab8d80f8e42:616",
"perlin|(1, 9)|float64|numpy|(1, 1)|5": "5edae876466cbead20a6ac3b|b54daa1b5bcea11203dfcfa3:307",
"perlin|(1, 9)|float64|numpy|(3, 2)|0": "d23cdfa5630cbf1df30d4f48|b3e656adcff2c69ca1e5e19e:551",
"perlin|(1, 9)|int32|dask|(0.5, 7)|12345": "71f524f56a21253009b84f11|5ae30f28ed125ab8d80f8e42:616",
"perlin|(1, 9)|int32|dask|(1, 1)|5": "1a2aa21835ba9fdb2b3efb6e|b54daa1b5bcea11203dfcfa3:307",
"perlin|(1, 9)|int32|dask|(3, 2)|0": "763e7725d7654f8cbd6e9c3e|b3e656adcff2c69ca1e5e19e:551",
"perlin|(1, 9)|int32|numpy|(0.5, 7)|12345": "a172c02eb40d35c471dabdcf|5ae30f28ed125ab8d80f8e42:616",
"perlin|(1, 9)|int32|numpy|(1, 1)|5": "5edae876466cbead20a6ac3b|b54daa1b5bcea11203dfcfa3:307",
"perlin|(1, 9)|int32|numpy|(3, 2)|0": "d23cdfa5630cbf1df30d4f48|b3e656adcff2c69ca1e5e19e:551",
"perlin|(1, 9)|uint8|dask|(0.5, 7)|12345": "71f524f56a21253009b84f11|5ae30f28ed125ab8d80f8e42:616",
"perlin|(1, 9)|uint8|dask|(1, 1)|5": "1a2aa21835ba9fdb2b3efb6e|b54daa1b5bcea11203dfcfa3:307",
"perlin|(1, 9)|uint8|dask|(3, 2)|0": "763e7725d7654f8cbd6e9c3e|b3e656adcff2c69ca1e5e19e:551",
"perlin|(1, 9)|uint8|numpy|(0.5, 7)|12345": "a172c02eb40d35c471dabdcf|5ae30f28ed125ab8d80f8e42:616",
"perlin|(1, 9)|uint8|numpy|(1, 1)|5": "5edae876466cbead20a6ac3b|b54daa1b5bcea11203dfcfa3:307",
"perlin|(1, 9)|uint8|numpy|(3, 2)|0": "d23cdfa5630cbf1df30d4f48|b3e656adcff2c69ca1e5e19e:551",
"perlin|(13, 31)|float32|dask|(0.5, 7)|12345": "c76f344a2ada717bcef74d7a|5ae30f28ed125ab8d80f8e42:616",
"perlin|(13, 31)|float32|dask|(1, 1)|5": "7e4e1b120375b6fb9e1e48fc|b54daa1b5bcea11203dfcfa3:307",
"perlin|(13, 31)|float32|dask|(3, 2)|0": "40e805cdfc338c371275699b|b3e656adcff2c69ca1e5e19e:551",
"perlin|(13, 31)|float32|numpy|(0.5, 7)|12345": "19630e62b5a4d07b46f80ed8|5ae30f28ed125ab8d80f8e42:616",
"perlin|(13, 31)|float32|numpy|(1, 1)|5": "7c6f0d57f1efcaa553d274e3|b54daa1b5bcea11203dfcfa3:307",
"perlin|(13, 31)|float32|numpy|(3, 2)|0": "1c17363579174d4fac87e56e|b3e656adcff2c69ca1e5e19e:551",
"perlin|(13, 31)|float64|dask|(0.5, 7)|12345": "c76f344a2ada717bcef74d7a|5ae30f28ed125ab8d80f8e42:616",
"perlin|(13, 31)|float64|dask|(1, 1)|5": "7e4e1b120375b6fb9e1e48fc|b54daa1b5bcea11203dfcfa3:307",
"perlin|(13, 31)|float64|dask|(3, 2)|0": "40e805cdfc338c371275699b|b3e656adcff2c69ca1e5e19e:551",
"perlin|(13, 31)|float64|numpy|(0.5, 7)|12345": "19630e62b5a4d07b46f80ed8|5ae30f28ed125ab8d80f8e42:616",
"perlin|(13, 31)|float64|numpy|(1, 1)|5": "7c6f0d57f1efcaa553d274e3|b54daa1b5bcea11203dfcfa3:307",
"perlin|(13, 31)|float64|numpy|(3, 2)|0": "1c17363579174d4fac87e56e|b3e656adcff2c69ca1e5e19e:551",
"perlin|(13, 31)|int32|dask|(0.5, 7)|12345": "c76f344a2ada717bcef74d7a|5ae30f28ed125ab8d80f8e42:616",
"perlin|(13, 31)|int32|dask|(1, 1)|5": "7e4e1b120375b6fb9e1e48fc|b54daa1b5bcea11203dfcfa3:307",
"perlin|(13, 31)|int32|dask|(3, 2)|0": "40e805cdfc338c371275699b|b3e656adcff2c69ca1e5e19e:551",
"perlin|(13, 31)|int32|numpy|(0.5, 7)|12345": "19630e62b5a4d07b46f80ed8|5ae30f28ed125ab8d80f8e42:616",
"perlin|(13, 31)|int32|numpy|(1, 1)|5": "7c6f0d57f1efcaa553d274e3|b54daa1b5bcea11203dfcfa3:307",
"perlin|(13, 31)|int32|numpy|(3, 2)|0": "1c17363579174d4fac87e56e|b3e656adcff2c69ca1e5e19e:551",
"perlin|(13, 31)|uint8|dask|(0.5, 7)|12345": "c76f344a2ada717bcef74d7a|5ae30f28ed125ab8d80f8e42:616",
"perlin|(13, 31)|uint8|dask|(1, 1)|5": "7e4e1b120375b6fb9e1e48fc|b54daa1b5bcea11203dfcfa3:307",
"perlin|(13, 31)|uint8|dask|(3, 2)|0": "40e805cdfc338c371275699b|b3e656adcff2c69ca1e5e19e:551",
"perlin|(13, 31)|uint8|numpy|(0.5, 7)|12345": "19630e62b5a4d07b46f80ed8|5ae30f28ed125ab8d80f8e42:616",
"perlin|(13, 31)|uint8|numpy|(1, 1)|5": "7c6f0d57f1efcaa553d274e3|b54daa1b5bcea11203dfcfa3:307",
"perlin|(13, 31)|uint8|numpy|(3, 2)|0": "1c17363579174d4fac87e56e|b3e656adcff2c69ca1e5e19e:551",
"perlin|(16, 16)|float32|dask|(0.5, 7)|12345": "bee90d593e8589b03c4f7b04|5ae30f28ed125ab8d80f8e42:616",
"perlin|(16, 16)|float32|dask|(1, 1)|5": "e103727c6c04beb824305ed2|b54daa1b5bcea11203dfcfa3:307",
"perlin|(16, 16)|float32|dask|(3, 2)|0": "c2bdcdcd42ae9ea6b33a4e9c|b3e656adcff2c69ca1e5e19e:551",
"perlin|(16, 16)|float32|numpy|(0.5, 7)|12345": "24d0ade8c76b39f58c0146e2|5ae30f28ed125ab8d80f8e42:616",
"perlin|(16, 16)|float32|numpy|(1, 1)|5": "35a3b2dbda9406b4eb3e063d|b54daa1b5bcea11203dfcfa3:307",
"perlin|(16, 16)|float32|numpy|(3, 2)|0": "d093ca785f52f7303347b932|b3e656adcff2c69ca1e5e19e:551",
"perlin|(16, 16)|float64|dask|(0.5, 7)|12345": "bee90d593e8589b03c4f7b04|5ae30f28ed125ab8d80f8e42:616",
"perlin|(16, 16)|float64|dask|(1, 1)|5": "e103727c6c04beb824305ed2|b54daa1b5bcea11203dfcfa3:307",
"perlin|(16, 16)|float64|dask|(3, 2)|0": "c2bdcdcd42ae9ea6b33a4e9c|b3e656adcff2c69ca1e5e19e:551",
"perlin|(16, 16)|float64|numpy|(0.5, 7)|12345": "24d0ade8c76b39f58c0146e2|5ae30f28ed125ab8d80f8e42:616",
"perlin|(16, 16)|float64|numpy|(1, 1)|5": "35a3b2dbda9406b4eb3e063d|b54daa1b5bcea11203dfcfa3:307",
"perlin|(16, 16)|float64|numpy|(3, 2)|0": "d093ca785f52f7303347b932|b3e656adcff2c69ca1e5e19e:551",
"perlin|(16, 16)|int32|dask|(0.5, 7)|12345": "bee90d593e8589b03c4f7b04|5ae30f28ed125ab8d80f8e42:616",
"perlin|(16, 16)|int32|dask|(1, 1)|5": "e103727c6c04beb824305ed2|b54daa1b5bcea11203dfcfa3:307",
"perlin|(16, 16)|int32|dask|(3, 2)|0": "c2bdcdcd42ae9ea6b33a4e9c|b3e656adcff2c69ca1e5e19e:551",
"perlin|(16, 16)|int32|numpy|(0.5, 7)|12345": "24d0ade8c76b39f58c0146e2|5ae30f28ed125ab8d80f8e42:616",
"perlin|(16, 16)|int32|numpy|(1, 1)|5": "35a3b2dbda9406b4eb3e063d|b54daa1b5bcea11203dfcfa3:307",
"perlin|(16, 16)|int32|numpy|(3, 2)|0": "d093ca785f52f7303347b932|b3e656adcff2c69ca1e5e19e:551",
"perlin|(16, 16)|uint8|dask|(0.5, 7)|12345": "bee90d593e8589b03c4f7b04|5ae30f28ed125ab8d80f8e42:616",
"perlin|(16, 16)|uint8|dask|(1, 1)|5": "e103727c6c04beb824305ed2|b54daa1b5bcea11203dfcfa3:307",
"perlin|(16, 16)|uint8|dask|(3, 2)|0": "c2bdcdcd42ae9ea6b33a4e9c|b3e656adcff2c69ca1e5e19e:551",
"perlin|(16, 16)|uint8|numpy|(0.5, 7)|12345": "24d0ade8c76b39f58c0146e2|5ae30f28ed125ab8d80f8e42:616",
"perlin|(16, 16)|uint8|numpy|(1, 1)|5": "35a3b2dbda9406b4eb3e063d|b54daa1b5bcea11203dfcfa3:307",
"perlin|(16, 16)|uint8|numpy|(3, 2)|0": "d093ca785f52f7303347b932|b3e656adcff2c69ca1e5e19e:551",
"perlin|(3, 4)|float32|dask|(0.5, 7)|12345": "dbe1c9602d8fb968e266350c|5ae30f28ed125ab8d80f8e42:616",
"perlin|(3, 4)|float32|dask|(1, 1)|5": "0333dcd0b77d582e3dad03da|b54daa1b5bcea11203dfcfa3:307",
"perlin|(3, 4)|float32|dask|(3, 2)|0": "0bd41715d04e476c7a05fc8e|b3e656adcff2c69ca1e5e19e:551",
"perlin|(3, 4)|float32|numpy|(0.5, 7)|12345": "c2c39e4dd2ec0733847b8a74|5ae30f28ed125ab8d80f8e42:616",
"perlin|(3, 4)|float32|numpy|(1, 1)|5": "5100272ccf222fd9e0d10744|b54daa1b5bcea11203dfcfa3:307",
"perlin|(3, 4)|float32|numpy|(3, 2)|0": "1c0d060acb27180d24abf81b|b3e656adcff2c69ca1e5e19e:551",
"perlin|(3, 4)|float64|dask|(0.5, 7)|12345": "dbe1c9602d8fb968e266350c|5ae30f28ed125ab8d80f8e42:616",
"perlin|(3, 4)|float64|dask|(1, 1)|5": "0333dcd0b77d582e3dad03da|b54daa1b5bcea11203dfcfa3:307",
"perlin|(3, 4)|float64|dask|(3, 2)|0": "0bd41715d04e476c7a05fc8e|b3e656adcff2c69ca1e5e19e:551",
"perlin|(3, 4)|float64|numpy|(0.5, 7)|12345": "c2c39e4dd2ec0733847b8a74|5ae30f28ed125ab8d80f8e42:616",
"perlin|(3, 4)|float64|numpy|(1, 1)|5": "5100272ccf222fd9e0d10744|b54daa1b5bcea11203dfcfa3:307",
"perlin|(3, 4)|float64|numpy|(3, 2)|0": "1c0d060acb27180d24abf81b|b3e656adcff2c69ca1e5e19e:551",
"perlin|(3, 4)|int32|dask|(0.5, 7)|12345": "dbe1c9602d8fb968e266350c|5ae30f28ed125ab8d80f8e42:616",
"perlin|(3, 4)|int32|dask|(1, 1)|5": "0333dcd0b77d582e3dad03da|b54daa1b5bcea11203dfcfa3:307",
"perlin|(3, 4)|int32|dask|(3, 2)|0": "0bd41715d04e476c7a05fc8e|b3e656adcff2c69ca1e5e19e:551",
"perlin|(3, 4)|int32|numpy|(0.5, 7)|12345": "c2c39e4dd2ec0733847b8a74|5ae30f28ed125ab8d80f8e42:616",
"perlin|(3, 4)|int32|numpy|(1, 1)|5": "5100272ccf222fd9e0d10744|b54daa1b5bcea11203dfcfa3:307",
"perlin|(3, 4)|int32|numpy|(3, 2)|0": "1c0d060acb27180d24abf81b|b3e656adcff2c69ca1e5e19e:551",
"perlin|(3, 4)|uint8|dask|(0.5, 7)|12345": "dbe1c9602d8fb968e266350c|5ae30f28ed125ab8d80f8e42:616",
"perlin|(3, 4)|uint8|dask|(1, 1)|5": "0333dcd0b77d582e3dad03da|b54daa1b5bcea11203dfcfa3:307",
"perlin|(3, 4)|uint8|dask|(3, 2)|0": "0bd41715d04e476c7a05fc8e|b3e656adcff2c69ca1e5e19e:551",
"perlin|(3, 4)|uint8|numpy|(0.5, 7)|12345": "c2c39e4dd2ec0733847b8a74|5ae30f28ed125ab8d80f8e42:616",
"perlin|(3, 4)|uint8|numpy|(1, 1)|5": "5100272ccf222fd9e0d10744|b54daa1b5bcea11203dfcfa3:307",
"perlin|(3, 4)|uint8|numpy|(3, 2)|0": "1c0d060acb27180d24abf81b|b3e656adcff2c69ca1e5e19e:551",
"perlin|(7, 5)|float32|dask|(0.5, 7)|12345": "a7759bb24909d91e615d9e12|5ae30f28ed125ab8d80f8e42:616",
"perlin|(7, 5)|float32|dask|(1, 1)|5": "9a4f1f5f06ca8b9781e941cb|b54daa1b5bcea11203dfcfa3:307",
"perlin|(7, 5)|float32|dask|(3, 2)|0": "5c5c3bee0763252e689c5552|b3e656adcff2c69ca1e5e19e:551",
"perlin|(7, 5)|float32|numpy|(0.5, 7)|12345": "82a71b951db534ece26ea17d|5ae30f28ed125ab8d80f8e42:616",
"perlin|(7, 5)|float32|numpy|(1, 1)|5": "5aee8b1657f1f5aaa9a2aca7|b54daa1b5bcea11203dfcfa3:307",
"perlin|(7, 5)|float32|numpy|(3, 2)|0": "27c91b7a821465e1731f942c|b3e656adcff2c69ca1e5e19e:551",
"perlin|(7, 5)|float64|dask|(0.5, 7)|12345": "a7759bb24909d91e615d9e12|5ae30f28ed125ab8d80f8e42:616",
"perlin|(7, 5)|float64|dask|(1, 1)|5": "9a4f1f5f06ca8b9781e941cb|b54daa1b5bcea11203dfcfa3:307",
"perlin|(7, 5)|float64|dask|(3, 2)|0": "5c5c3bee0763252e689c5552|b3e656adcff2c69ca1e5e19e:551",
"perlin|(7, 5)|float64|numpy|(0.5, 7)|12345": "82a71b951db534ece26ea17d|5ae30f28ed125ab8d80f8e42:616",
"perlin|(7, 5)|float64|numpy|(1, 1)|5": "5aee8b1657f1f5aaa9a2aca7|b54daa1b5bcea11203dfcfa3:307",
"perlin|(7, 5)|float64|numpy|(3, 2)|0": "27c91b7a821465e1731f942c|b3e656adcff2c69ca1e5e19e:551",
"perlin|(7, 5)|int32|dask|(0.5, 7)|12345": "a7759bb24909d91e615d9e12|5ae30f28ed125ab8d80f8e42:616",
"perlin|(7, 5)|int32|dask|(1, 1)|5": "9a4f1f5f06ca8b9781e941cb|b54daa1b5bcea11203dfcfa3:307",
"perlin|(7, 5)|int32|dask|(3, 2)|0": "5c5c3bee0763252e689c5552|b3e656adcff2c69ca1e5e19e:551",
"perlin|(7, 5)|int32|numpy|(0.5, 7)|12345": "82a71b951db534ece26ea17d|5ae30f28ed125ab8d80f8e42:616",
"perlin|(7, 5)|int32|numpy|(1, 1)|5": "5aee8b1657f1f5aaa9a2aca7|b54daa1b5bcea11203dfcfa3:307",
"perlin|(7, 5)|int32|numpy|(3, 2)|0": "27c91b7a821465e1731f942c|b3e656adcff2c69ca1e5e19e:551",
"perlin|(7, 5)|uint8|dask|(0.5, 7)|12345": "a7759bb24909d91e615d9e12|5ae30f28ed125ab8d80f8e42:616",
"perlin|(7, 5)|uint8|dask|(1, 1)|5": "9a4f1f5f06ca8b9781e941cb|b54daa1b5bcea11203dfcfa3:307",
"perlin|(7, 5)|uint8|dask|(3, 2)|0": "5c5c3bee0763252e689c5552|b3e656adcff2c69ca1e5e19e:551",
"perlin|(7, 5)|uint8|numpy|(0.5, 7)|12345": "82a71b951db534ece26ea17d|5ae30f28ed125ab8d80f8e42:616",
"perlin|(7, 5)|uint8|numpy|(1, 1)|5": "5aee8b1657f1f5aaa9a2aca7|b54daa1b5bcea11203dfcfa3:307",
"perlin|(7, 5)|uint8|numpy|(3, 2)|0": "27c91b7a821465e1731f942c|b3e656adcff2c69ca1e5e19e:551",
"repeat": "003fd531a9473268e1d6824e",
"terrain|(20, 17)|float32|dask|0|(0, 1)|(0, 1)|7": "d29ae23184c01ce6210d594a|a4225f6cd3b478a0b3d0f813:530",
"terrain|(20, 17)|float32|dask|10|(0, 500)|(0, 500)|4000": "f70ea03de0e03aab822f28c3|7b1bf3057ea8324f9c69afd6:142",
"terrain|(20, 17)|float32|dask|3|(-20, 20)|(5, 45)|1": "4ae3eb1e52bd202007d3744a|d47cbcc52a8f83fefc119d00:596",
"terrain|(20, 17)|float32|numpy|0|(0, 1)|(0, 1)|7": "93e8c945e688fdbfe3e1c10d|a4225f6cd3b478a0b3d0f813:530",
"terrain|(20, 17)|float32|numpy|10|(0, 500)|(0, 500)|4000": "01cdc9a76edb1bc72b09557f|7b1bf3057ea8324f9c69afd6:142",
"terrain|(20, 17)|float32|numpy|3|(-20, 20)|(5, 45)|1": "1986e02631e142bd76ae1e01|d47cbcc52a8f83fefc119d00:596",
"terrain|(20, 17)|float64|dask|0|(0, 1)|(0, 1)|7": "f8de71015a4c5e56323fd1da|a4225f6cd3b478a0b3d0f813:530",
"terrain|(20, 17)|float64|dask|10|(0, 500)|(0, 500)|4000": "96d2b880a3de3c9da04869b6|7b1bf3057ea8324f9c69afd6:142",
"terrain|(20, 17)|float64|dask|3|(-20, 20)|(5, 45)|1": "fdf88c93285af2af30640b73|d47cbcc52a8f83fefc119d00:596",
"terrain|(20, 17)|float64|numpy|0|(0, 1)|(0, 1)|7": "f8de71015a4c5e56323fd1da|a4225f6cd3b478a0b3d0f813:530",
"terrain|(20, 17)|float64|numpy|10|(0, 500)|(0, 500)|4000": "96d2b880a3de3c9da04869b6|7b1bf3057ea8324f9c69afd6:142",
"terrain|(20, 17)|float64|numpy|3|(-20, 20)|(5, 45)|1": "fdf88c93285af2af30640b73|d47cbcc52a8f83fefc119d00:596",
"terrain|(20, 17)|int64|dask|0|(0, 1)|(0, 1)|7": "f8de71015a4c5e56323fd1da|a4225f6cd3b478a0b3d0f813:530",
"terrain|(20, 17)|int64|dask|10|(0, 500)|(0, 500)|4000": "96d2b880a3de3c9da04869b6|7b1bf3057ea8324f9c69afd6:142",
"terrain|(20, 17)|int64|dask|3|(-20, 20)|(5, 45)|1": "fdf88c93285af2af30640b73|d47cbcc52a8f83fefc119d00:596",
"terrain|(20, 17)|int64|numpy|0|(0, 1)|(0, 1)|7": "f8de71015a4c5e56323fd1da|a4225f6cd3b478a0b3d0f813:530",
"terrain|(20, 17)|int64|numpy|10|(0, 500)|(0, 500)|4000": "96d2b880a3de3c9da04869b6|7b1bf3057ea8324f9c69afd6:142",
"terrain|(20, 17)|int64|numpy|3|(-20, 20)|(5, 45)|1": "fdf88c93285af2af30640b73|d47cbcc52a8f83fefc119d00:596",
"terrain|(4, 6)|float32|dask|0|(0, 1)|(0, 1)|7": "942c000a400abd3c2d97ae9a|a4225f6cd3b478a0b3d0f813:530",
"terrain|(4, 6)|float32|dask|10|(0, 500)|(0, 500)|4000": "dfc5b1de5d753ec8d7f743a1|7b1bf3057ea8324f9c69afd6:142",
"terrain|(4, 6)|float32|dask|3|(-20, 20)|(5, 45)|1": "d4af22408e819c1459cdd630|d47cbcc52a8f83fefc119d00:596",
"terrain|(4, 6)|float32|numpy|0|(0, 1)|(0, 1)|7": "3333024b7da8144c551f1ea6|a4225f6cd3b478a0b3d0f813:530",
"terrain|(4, 6)|float32|numpy|10|(0, 500)|(0, 500)|4000": "3695c8cf3ff7e679facebdd0|7b1bf3057ea8324f9c69afd6:142",
"terrain|(4, 6)|float32|numpy|3|(-20, 20)|(5, 45)|1": "c0d82d32ba90c7d2f8f99d4f|d47cbcc52a8f83fefc119d00:596",
"terrain|(4, 6)|float64|dask|0|(0, 1)|(0, 1)|7": "b3978916c999841c449bca31|a4225f6cd3b478a0b3d0f813:530",
"terrain|(4, 6)|float64|dask|10|(0, 500)|(0, 500)|4000": "bee2ec4eb1d1e4d382d6a517|7b1bf3057ea8324f9c69afd6:142",
"terrain|(4, 6)|float64|dask|3|(-20, 20)|(5, 45)|1": "405b36ff2cb894e2279b6768|d47cbcc52a8f83fefc119d00:596",
"terrain|(4, 6)|float64|numpy|0|(0, 1)|(0, 1)|7": "b3978916c999841c449bca31|a4225f6cd3b478a0b3d0f813:530",
"terrain|(4, 6)|float64|numpy|10|(0, 500)|(0, 500)|4000": "bee2ec4eb1d1e4d382d6a517|7b1bf3057ea8324f9c69afd6:142",
"terrain|(4, 6)|float64|numpy|3|(-20, 20)|(5, 45)|1": "405b36ff2cb894e2279b6768|d47cbcc52a8f83fefc119d00:596",
"terrain|(4, 6)|int64|dask|0|(0, 1)|(0, 1)|7": "b3978916c999841c449bca31|a4225f6cd3b478a0b3d0f813:530",
"terrain|(4, 6)|int64|dask|10|(0, 500)|(0, 500)|4000": "bee2ec4eb1d1e4d382d6a517|7b1bf3057ea8324f9c69afd6:142",
"terrain|(4, 6)|int64|dask|3|(-20, 20)|(5, 45)|1": "405b36ff2cb894e2279b6768|d47cbcc52a8f83fefc119d00:596",
"terrain|(4, 6)|int64|numpy|0|(0, 1)|(0, 1)|7": "b3978916c999841c449bca31|a4225f6cd3b478a0b3d0f813:530",
"terrain|(4, 6)|int64|numpy|10|(0, 500)|(0, 500)|4000": "bee2ec4eb1d1e4d382d6a517|7b1bf3057ea8324f9c69afd6:142",
"terrain|(4, 6)|int64|numpy|3|(-20, 20)|(5, 45)|1": "405b36ff2cb894e2279b6768|d47cbcc52a8f83fefc119d00:596",
"terrain|(9, 5)|float32|dask|0|(0, 1)|(0, 1)|7": "eb89c20423d8fa34729e741b|a4225f6cd3b478a0b3d0f813:530",
"terrain|(9, 5)|float32|dask|10|(0, 500)|(0, 500)|4000": "1321bfd1277668467da465d8|7b1bf3057ea8324f9c69afd6:142",
"terrain|(9, 5)|float32|dask|3|(-20, 20)|(5, 45)|1": "b741363e4e64f1c08d5085d8|d47cbcc52a8f83fefc119d00:596",
"terrain|(9, 5)|float32|numpy|0|(0, 1)|(0, 1)|7": "e17a4e9f3fc0ba44573a448e|a4225f6cd3b478a0b3d0f813:530",
"terrain|(9, 5)|float32|numpy|10|(0, 500)|(0, 500)|4000": "4c079bdf2a494453384ae0c4|7b1bf3057ea8324f9c69afd6:142",
"terrain|(9, 5)|float32|numpy|3|(-20, 20)|(5, 45)|1": "4d2f481793149904ed41d32d|d47cbcc52a8f83fefc119d00:596",
"terrain|(9, 5)|float64|dask|0|(0, 1)|(0, 1)|7": "9573be578004def194b2e5ed|a4225f6cd3b478a0b3d0f813:530",
"terrain|(9, 5)|float64|dask|10|(0, 500)|(0, 500)|4000": "26f033eef76bafa4e709399b|7b1bf3057ea8324f9c69afd6:142",
"terrain|(9, 5)|float64|dask|3|(-20, 20)|(5, 45)|1": "face141e409f10e9b3619e57|d47cbcc52a8f83fefc119d00:596",
"terrain|(9, 5)|float64|numpy|0|(0, 1)|(0, 1)|7": "9573be578004def194b2e5ed|a4225f6cd3b478a0b3d0f813:530",
"terrain|(9, 5)|float64|numpy|10|(0, 500)|(0, 500)|4000": "26f033eef76bafa4e709399b|7b1bf3057ea8324f9c69afd6:142",
"terrain|(9, 5)|float64|numpy|3|(-20, 20)|(5, 45)|1": "face141e409f10e9b3619e57|d47cbcc52a8f83fefc119d00:596",
"terrain|(9, 5)|int64|dask|0|(0, 1)|(0, 1)|7": "9573be578004def194b2e5ed|a4225f6cd3b478a0b3d0f813:530",
"terrain|(9, 5)|int64|dask|10|(0, 500)|(0, 500)|4000": "26f033eef76bafa4e709399b|7b1bf3057ea8324f9c69afd6:142",
"terrain|(9, 5)|int64|dask|3|(-20, 20)|(5, 45)|1": "face141e409f10e9b3619e57|d47cbcc52a8f83fefc119d00:596",
"terrain|(9, 5)|int64|numpy|0|(0, 1)|(0, 1)|7": "9573be578004def194b2e5ed|a4225f6cd3b478a0b3d0f813:530",
"terrain|(9, 5)|int64|numpy|10|(0, 500)|(0, 500)|4000": "26f033eef76bafa4e709399b|7b1bf3057ea8324f9c69afd6:142",
"terrain|(9, 5)|int64|numpy|3|(-20, 20)|(5, 45)|1": "face141e409f10e9b3619e57|d47cbcc52a8f83fefc119d00:596"}
''')

if __name__ == "__main__":
    got = run()
    if os.environ.get("RECORD"):
        print("JSON:" + json.dumps(got, sort_keys=True))
        sys.exit(0)
    bad = [k for k in sorted(set(got) | set(EXPECTED)) if got.get(k) != EXPECTED.get(k)]
    for k in bad[:20]:
        print("MISMATCH", k, got.get(k), EXPECTED.get(k))
    print("%d cases, %d mismatches" % (len(got), len(bad)))
    sys.exit(1 if bad else 0)
