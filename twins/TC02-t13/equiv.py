"""Differential test for xrspatial.zonal.stats (property C02).

Runs stats() (and crosstab(), which shares the sort/stride kernels) over a
grid of deterministic inputs, on numpy and dask, and checks

  1. a digest of every result (values bytes, dtypes, column names, index)
     against digests recorded from the unmodified tree, and
  2. the numpy results against a brute-force oracle written here.

exit 0 when everything is identical, 1 otherwise.
`python equiv.py --record` prints the digest table instead of checking.
"""
import hashlib
import sys
import warnings

import dask.array as da
import numpy as np
import pandas as pd
import xarray as xr

import xrspatial
from xrspatial.zonal import crosstab, stats

warnings.filterwarnings('ignore')

FOCUS = 'argument handling of stats()'
EXPECTED = {
    "('np', 'small_f8', None, None, 0, 'df')": 'e3587e1d98a3defe',
    "('np', 'small_f8', None, None, 0, 'xr')": '822ab25ab84d8216',
    "('np', 'small_f8', None, None, 1, 'df')": '336f9b8d1a93c823',
    "('np', 'small_f8', None, None, 1, 'xr')": '440d79750607023e',
    "('np', 'small_f8', None, None, 2, 'df')": '1ac1ad33907d8d56',
    "('np', 'small_f8', None, None, 2, 'xr')": '11083d2a303639d2',
    "('np', 'small_f8', None, None, 3, 'df')": 'c63f16a998184c7b',
    "('np', 'small_f8', None, None, 3, 'xr')": '64ee710a05396810',
    "('np', 'small_f8', None, None, 4, 'df')": 'fc0b4cbf454e9893',
    "('np', 'small_f8', None, None, 4, 'xr')": 'daad712110a5a4a2',
    "('np', 'small_f8', None, None, 5, 'df')": 'ee460969481d9b46',
    "('np', 'small_f8', None, None, 5, 'xr')": 'd038972492dbfbc7',
    "('np', 'small_f8', None, None, 'custom', 'df')": '8a125dd4cc535cac',
    "('np', 'small_f8', None, None, 'custom', 'xr')": 'aa4bd0885d0ca5eb',
    "('np', 'small_f8', None, [4, 0], 0, 'df')": '9a9cc48f31a2076f',
    "('np', 'small_f8', None, [4, 0], 0, 'xr')": 'f58af984e586a647',
    "('np', 'small_f8', None, [4, 0], 1, 'df')": '4ac060ec72a51e44',
    "('np', 'small_f8', None, [4, 0], 1, 'xr')": 'f1983da970d29371',
    "('np', 'small_f8', None, [4, 0], 2, 'df')": 'b23ef97f0cdd250f',
    "('np', 'small_f8', None, [4, 0], 2, 'xr')": 'd51d743cca4ca5c7',
    "('np', 'small_f8', None, [4, 0], 3, 'df')": '0f64d10873e9e9a6',
    "('np', 'small_f8', None, [4, 0], 3, 'xr')": '81729fa5681d2e5e',
    "('np', 'small_f8', None, [4, 0], 4, 'df')": '7db6aa1f3ac86115',
    "('np', 'small_f8', None, [4, 0], 4, 'xr')": '513e399976ab7123',
    "('np', 'small_f8', None, [4, 0], 5, 'df')": '4901a14ec2e8a8ac',
    "('np', 'small_f8', None, [4, 0], 5, 'xr')": '5b5d2df17e7738b1',
    "('np', 'small_f8', None, [4, 0], 'custom', 'df')": '61173023a5df11c6',
    "('np', 'small_f8', None, [4, 0], 'custom', 'xr')": '90514d2c36db8ee6',
    "('np', 'small_f8', None, [1, 3, 99], 0, 'df')": '4986b4b5696967e4',
    "('np', 'small_f8', None, [1, 3, 99], 0, 'xr')": '41b36e8fe0098d20',
    "('np', 'small_f8', None, [1, 3, 99], 1, 'df')": 'a500dbd4d6473f04',
    "('np', 'small_f8', None, [1, 3, 99], 1, 'xr')": '4c55451d021d2c24',
    "('np', 'small_f8', None, [1, 3, 99], 2, 'df')": '13f651df2931a5db',
    "('np', 'small_f8', None, [1, 3, 99], 2, 'xr')": 'a33340a4d9b120e4',
    "('np', 'small_f8', None, [1, 3, 99], 3, 'df')": '3b59abe91a5294eb',
    "('np', 'small_f8', None, [1, 3, 99], 3, 'xr')": '2b9b20039c9e1a84',
    "('np', 'small_f8', None, [1, 3, 99], 4, 'df')": '7250f20b6cd56974',
    "('np', 'small_f8', None, [1, 3, 99], 4, 'xr')": '3c8566fbc098097f',
    "('np', 'small_f8', None, [1, 3, 99], 5, 'df')": '25866419af7cbcdd',
    "('np', 'small_f8', None, [1, 3, 99], 5, 'xr')": 'ff17df41b7b8d334',
    "('np', 'small_f8', None, [1, 3, 99], 'custom', 'df')": 'c4db06431e395b49',
    "('np', 'small_f8', None, [1, 3, 99], 'custom', 'xr')": 'c97cbe7c2c9e60f8',
    "('np', 'small_f8', None, [], 0, 'df')": 'c45e9aa7bfc40dcb',
    "('np', 'small_f8', None, [], 0, 'xr')": 'e7367af3d9035545',
    "('np', 'small_f8', None, [], 1, 'df')": 'e259c5ffd45bd3d8',
    "('np', 'small_f8', None, [], 1, 'xr')": '59fc796a197e1de4',
    "('np', 'small_f8', None, [], 2, 'df')": '5e74bf587095224c',
    "('np', 'small_f8', None, [], 2, 'xr')": '72ce7cf03c650cc1',
    "('np', 'small_f8', None, [], 3, 'df')": '78cc73f22ecb5a82',
    "('np', 'small_f8', None, [], 3, 'xr')": '8141a8635ddb5f79',
    "('np', 'small_f8', None, [], 4, 'df')": 'de67d0d09170cf24',
    "('np', 'small_f8', None, [], 4, 'xr')": '2844303d1dbe59af',
    "('np', 'small_f8', None, [], 5, 'df')": '4b4062b4661a4d1f',
    "('np', 'small_f8', None, [], 5, 'xr')": 'bcd13b46a9c885aa',
    "('np', 'small_f8', None, [], 'custom', 'df')": '2f560002af76dcbc',
    "('np', 'small_f8', None, [], 'custom', 'xr')": '539b126267e4bd14',
    "('np', 'small_f8', 0, None, 0, 'df')": 'b2cddc67552ac876',
    "('np', 'small_f8', 0, None, 0, 'xr')": '2947adc4373cd986',
    "('np', 'small_f8', 0, None, 1, 'df')": '5ed09b8cc236b4de',
    "('np', 'small_f8', 0, None, 1, 'xr')": '32d42f741a1ac752',
    "('np', 'small_f8', 0, None, 2, 'df')": '01f125dc324ac74d',
    "('np', 'small_f8', 0, None, 2, 'xr')": '1b6d2743cd0ac697',
    "('np', 'small_f8', 0, None, 3, 'df')": '150ca83f895d5c71',
    "('np', 'small_f8', 0, None, 3, 'xr')": '2f4056306d6d5d7c',
    "('np', 'small_f8', 0, None, 4, 'df')": '14be4ce6408df595',
    "('np', 'small_f8', 0, None, 4, 'xr')": '89d52f526f0c7cf6',
    "('np', 'small_f8', 0, None, 5, 'df')": '4156560bd570241c',
    "('np', 'small_f8', 0, None, 5, 'xr')": '85e7609f99b0b9de',
    "('np', 'small_f8', 0, None, 'custom', 'df')": 'd7edb3e40b8665e9',
    "('np', 'small_f8', 0, None, 'custom', 'xr')": '1334a86c9560cb93',
    "('np', 'small_f8', 0, [4, 0], 0, 'df')": 'fdc49baa3ff6ab6d',
    "('np', 'small_f8', 0, [4, 0], 0, 'xr')": '35597ca68706dd2f',
    "('np', 'small_f8', 0, [4, 0], 1, 'df')": 'a00af03bcd685bf9',
    "('np', 'small_f8', 0, [4, 0], 1, 'xr')": '505b18e3579cbcd5',
    "('np', 'small_f8', 0, [4, 0], 2, 'df')": 'd8028396ce1c6cbe',
    "('np', 'small_f8', 0, [4, 0], 2, 'xr')": 'a67795c28d75eb58',
    "('np', 'small_f8', 0, [4, 0], 3, 'df')": '47df225d0a713995',
    "('np', 'small_f8', 0, [4, 0], 3, 'xr')": '0ce0c5542bbad87b',
    "('np', 'small_f8', 0, [4, 0], 4, 'df')": '0faa61bd4c1bd01d',
    "('np', 'small_f8', 0, [4, 0], 4, 'xr')": 'accbfcebd9f0d2a2',
    "('np', 'small_f8', 0, [4, 0], 5, 'df')": '45ecc883badd4883',
    "('np', 'small_f8', 0, [4, 0], 5, 'xr')": '5dad4258c2c3c6ff',
    "('np', 'small_f8', 0, [4, 0], 'custom', 'df')": '0181725a430b092a',
    "('np', 'small_f8', 0, [4, 0], 'custom', 'xr')": '2919ce895b077e1c',
    "('np', 'small_f8', 0, [1, 3, 99], 0, 'df')": '4986b4b5696967e4',
    "('np', 'small_f8', 0, [1, 3, 99], 0, 'xr')": '41b36e8fe0098d20',
    "('np', 'small_f8', 0, [1, 3, 99], 1, 'df')": 'a500dbd4d6473f04',
    "('np', 'small_f8', 0, [1, 3, 99], 1, 'xr')": '4c55451d021d2c24',
    "('np', 'small_f8', 0, [1, 3, 99], 2, 'df')": '13f651df2931a5db',
    "('np', 'small_f8', 0, [1, 3, 99], 2, 'xr')": 'a33340a4d9b120e4',
    "('np', 'small_f8', 0, [1, 3, 99], 3, 'df')": '3b59abe91a5294eb',
    "('np', 'small_f8', 0, [1, 3, 99], 3, 'xr')": '2b9b20039c9e1a84',
    "('np', 'small_f8', 0, [1, 3, 99], 4, 'df')": '7250f20b6cd56974',
    "('np', 'small_f8', 0, [1, 3, 99], 4, 'xr')": '3c8566fbc098097f',
    "('np', 'small_f8', 0, [1, 3, 99], 5, 'df')": '25866419af7cbcdd',
    "('np', 'small_f8', 0, [1, 3, 99], 5, 'xr')": 'ff17df41b7b8d334',
    "('np', 'small_f8', 0, [1, 3, 99], 'custom', 'df')": 'c4db06431e395b49',
    "('np', 'small_f8', 0, [1, 3, 99], 'custom', 'xr')": 'c97cbe7c2c9e60f8',
    "('np', 'small_f8', 0, [], 0, 'df')": 'c45e9aa7bfc40dcb',
    "('np', 'small_f8', 0, [], 0, 'xr')": 'e7367af3d9035545',
    "('np', 'small_f8', 0, [], 1, 'df')": 'e259c5ffd45bd3d8',
    "('np', 'small_f8', 0, [], 1, 'xr')": '59fc796a197e1de4',
    "('np', 'small_f8', 0, [], 2, 'df')": '5e74bf587095224c',
    "('np', 'small_f8', 0, [], 2, 'xr')": '72ce7cf03c650cc1',
    "('np', 'small_f8', 0, [], 3, 'df')": '78cc73f22ecb5a82',
    "('np', 'small_f8', 0, [], 3, 'xr')": '8141a8635ddb5f79',
    "('np', 'small_f8', 0, [], 4, 'df')": 'de67d0d09170cf24',
    "('np', 'small_f8', 0, [], 4, 'xr')": '2844303d1dbe59af',
    "('np', 'small_f8', 0, [], 5, 'df')": '4b4062b4661a4d1f',
    "('np', 'small_f8', 0, [], 5, 'xr')": 'bcd13b46a9c885aa',
    "('np', 'small_f8', 0, [], 'custom', 'df')": '2f560002af76dcbc',
    "('np', 'small_f8', 0, [], 'custom', 'xr')": '539b126267e4bd14',
    "('np', 'small_f8', 4.0, None, 0, 'df')": '29b402dd0b495dff',
    "('np', 'small_f8', 4.0, None, 0, 'xr')": '46d922c2b80fdfb6',
    "('np', 'small_f8', 4.0, None, 1, 'df')": '40e434d82551a0d8',
    "('np', 'small_f8', 4.0, None, 1, 'xr')": '60ede98ec4a7283d',
    "('np', 'small_f8', 4.0, None, 2, 'df')": '78367d6c3bcef72d',
    "('np', 'small_f8', 4.0, None, 2, 'xr')": '06596a641f82aa1f',
    "('np', 'small_f8', 4.0, None, 3, 'df')": '7d7beddaadfd1927',
    "('np', 'small_f8', 4.0, None, 3, 'xr')": '34610b2bc283041c',
    "('np', 'small_f8', 4.0, None, 4, 'df')": 'c4d60d393cff7e3c',
    "('np', 'small_f8', 4.0, None, 4, 'xr')": '2b2a49ed840ffb6a',
    "('np', 'small_f8', 4.0, None, 5, 'df')": '5bb28f7df93183c6',
    "('np', 'small_f8', 4.0, None, 5, 'xr')": '0bd77b7e40990541',
    "('np', 'small_f8', 4.0, None, 'custom', 'df')": 'de5a79a6f82f971c',
    "('np', 'small_f8', 4.0, None, 'custom', 'xr')": '852bdb6ba8dff0af',
    "('np', 'small_f8', 4.0, [4, 0], 0, 'df')": '6bf1ec19e0bfcce7',
    "('np', 'small_f8', 4.0, [4, 0], 0, 'xr')": 'b19c0e87da61df8d',
    "('np', 'small_f8', 4.0, [4, 0], 1, 'df')": '7337750e62558732',
    "('np', 'small_f8', 4.0, [4, 0], 1, 'xr')": '7b1982d1c28dc8ac',
    "('np', 'small_f8', 4.0, [4, 0], 2, 'df')": '3fd8bae832d279be',
    "('np', 'small_f8', 4.0, [4, 0], 2, 'xr')": '48631371f86c33b5',
    "('np', 'small_f8', 4.0, [4, 0], 3, 'df')": '42b67f8b641ae47f',
    "('np', 'small_f8', 4.0, [4, 0], 3, 'xr')": '632d8d593bd27e30',
    "('np', 'small_f8', 4.0, [4, 0], 4, 'df')": 'e19ea0bd40540790',
    "('np', 'small_f8', 4.0, [4, 0], 4, 'xr')": 'da10749da0f9e312',
    "('np', 'small_f8', 4.0, [4, 0], 5, 'df')": '9de9ab484da8dfb4',
    "('np', 'small_f8', 4.0, [4, 0], 5, 'xr')": '19dd7bca88e8b579',
    "('np', 'small_f8', 4.0, [4, 0], 'custom', 'df')": 'ff03358c990a9db5',
    "('np', 'small_f8', 4.0, [4, 0], 'custom', 'xr')": '6702cd5bd50ab8f3',
    "('np', 'small_f8', 4.0, [1, 3, 99], 0, 'df')": '4986b4b5696967e4',
    "('np', 'small_f8', 4.0, [1, 3, 99], 0, 'xr')": '41b36e8fe0098d20',
    "('np', 'small_f8', 4.0, [1, 3, 99], 1, 'df')": 'a500dbd4d6473f04',
    "('np', 'small_f8', 4.0, [1, 3, 99], 1, 'xr')": '4c55451d021d2c24',
    "('np', 'small_f8', 4.0, [1, 3, 99], 2, 'df')": '13f651df2931a5db',
    "('np', 'small_f8', 4.0, [1, 3, 99], 2, 'xr')": 'a33340a4d9b120e4',
    "('np', 'small_f8', 4.0, [1, 3, 99], 3, 'df')": '3b59abe91a5294eb',
    "('np', 'small_f8', 4.0, [1, 3, 99], 3, 'xr')": '2b9b20039c9e1a84',
    "('np', 'small_f8', 4.0, [1, 3, 99], 4, 'df')": '7250f20b6cd56974',
    "('np', 'small_f8', 4.0, [1, 3, 99], 4, 'xr')": '3c8566fbc098097f',
    "('np', 'small_f8', 4.0, [1, 3, 99], 5, 'df')": '25866419af7cbcdd',
    "('np', 'small_f8', 4.0, [1, 3, 99], 5, 'xr')": 'ff17df41b7b8d334',
    "('np', 'small_f8', 4.0, [1, 3, 99], 'custom', 'df')": 'c4db06431e395b49',
    "('np', 'small_f8', 4.0, [1, 3, 99], 'custom', 'xr')": 'c97cbe7c2c9e60f8',
    "('np', 'small_f8', 4.0, [], 0, 'df')": 'c45e9aa7bfc40dcb',
    "('np', 'small_f8', 4.0, [], 0, 'xr')": 'e7367af3d9035545',
    "('np', 'small_f8', 4.0, [], 1, 'df')": 'e259c5ffd45bd3d8',
    "('np', 'small_f8', 4.0, [], 1, 'xr')": '59fc796a197e1de4',
    "('np', 'small_f8', 4.0, [], 2, 'df')": '5e74bf587095224c',
    "('np', 'small_f8', 4.0, [], 2, 'xr')": '72ce7cf03c650cc1',
    "('np', 'small_f8', 4.0, [], 3, 'df')": '78cc73f22ecb5a82',
    "('np', 'small_f8', 4.0, [], 3, 'xr')": '8141a8635ddb5f79',
    "('np', 'small_f8', 4.0, [], 4, 'df')": 'de67d0d09170cf24',
    "('np', 'small_f8', 4.0, [], 4, 'xr')": '2844303d1dbe59af',
    "('np', 'small_f8', 4.0, [], 5, 'df')": '4b4062b4661a4d1f',
    "('np', 'small_f8', 4.0, [], 5, 'xr')": 'bcd13b46a9c885aa',
    "('np', 'small_f8', 4.0, [], 'custom', 'df')": '2f560002af76dcbc',
    "('np', 'small_f8', 4.0, [], 'custom', 'xr')": '539b126267e4bd14',
    "('np', 'small_f8', 'defaults')": 'e3587e1d98a3defe',
    "('da', 'small_f8', (3, 8), None, None, 0)": '0da7060dd247d7b0',
    "('da', 'small_f8', (3, 8), None, None, 2)": '66fc6ab06bb342b0',
    "('da', 'small_f8', (3, 8), None, [4, 0], 0)": '7e40b96db4cf1fc7',
    "('da', 'small_f8', (3, 8), None, [4, 0], 3)": 'f56bc7a176d5b861',
    "('da', 'small_f8', (3, 8), 0, None, 0)": 'ecabd46315ae09e3',
    "('da', 'small_f8', (3, 8), 0, None, 4)": 'ec5e93445a6efcf6',
    "('da', 'small_f8', (3, 8), 0, [4, 0], 0)": '1cc3880e25820a0c',
    "('da', 'small_f8', (3, 8), 0, [4, 0], 5)": '008ff9067c9f4945',
    "('da', 'small_f8', (3, 8), 'defaults')": '0da7060dd247d7b0',
    "('da', 'small_f8', (2, 4), None, None, 0)": '0da7060dd247d7b0',
    "('da', 'small_f8', (2, 4), None, None, 1)": '721b9c59d90034f8',
    "('da', 'small_f8', (2, 4), None, [4, 0], 0)": '7e40b96db4cf1fc7',
    "('da', 'small_f8', (2, 4), None, [4, 0], 2)": '791e7a58d7527e82',
    "('da', 'small_f8', (2, 4), 0, None, 0)": 'ecabd46315ae09e3',
    "('da', 'small_f8', (2, 4), 0, None, 3)": '7e8bb53cc69af8ad',
    "('da', 'small_f8', (2, 4), 0, [4, 0], 0)": '1cc3880e25820a0c',
    "('da', 'small_f8', (2, 4), 0, [4, 0], 4)": '2eb13f8036fc0068',
    "('da', 'small_f8', (2, 4), 'defaults')": '0da7060dd247d7b0',
    "('da', 'small_f8', (2, 3), None, None, 0)": '0da7060dd247d7b0',
    "('da', 'small_f8', (2, 3), None, None, 5)": '726fe300b229de79',
    "('da', 'small_f8', (2, 3), None, [4, 0], 0)": '7e40b96db4cf1fc7',
    "('da', 'small_f8', (2, 3), None, [4, 0], 1)": '61b98b29778fea46',
    "('da', 'small_f8', (2, 3), 0, None, 0)": 'ecabd46315ae09e3',
    "('da', 'small_f8', (2, 3), 0, None, 2)": 'e87527a2949e4fa9',
    "('da', 'small_f8', (2, 3), 0, [4, 0], 0)": '1cc3880e25820a0c',
    "('da', 'small_f8', (2, 3), 0, [4, 0], 3)": '0893615c2af53e7a',
    "('da', 'small_f8', (2, 3), 'defaults')": '0da7060dd247d7b0',
    "('da', 'small_f8', 'rechunk')": '1ec5835e3dd33da3',
    "('np', 'int_neg', None, None, 0, 'df')": '78734e86302b56b7',
    "('np', 'int_neg', None, None, 0, 'xr')": '4eb4580448c9cb3a',
    "('np', 'int_neg', None, None, 1, 'df')": '903152a86690c8c0',
    "('np', 'int_neg', None, None, 1, 'xr')": 'd0ce3e15f7d73448',
    "('np', 'int_neg', None, None, 2, 'df')": '40f7dc76bf091019',
    "('np', 'int_neg', None, None, 2, 'xr')": '2ad07344fc2e2d77',
    "('np', 'int_neg', None, None, 3, 'df')": 'cfac42192aebed58',
    "('np', 'int_neg', None, None, 3, 'xr')": '001e151b01f4f30a',
    "('np', 'int_neg', None, None, 4, 'df')": 'b4f8b5d8763436b1',
    "('np', 'int_neg', None, None, 4, 'xr')": '5ed4d7a66ba6a6b0',
    "('np', 'int_neg', None, None, 5, 'df')": '767768de20328006',
    "('np', 'int_neg', None, None, 5, 'xr')": '7642455b460d2e2a',
    "('np', 'int_neg', None, None, 'custom', 'df')": 'a23312b63941480e',
    "('np', 'int_neg', None, None, 'custom', 'xr')": 'b4f8aa2fb468e2d7',
    "('np', 'int_neg', None, [3, -3, 0], 0, 'df')": '4f5fcc8e836042db',
    "('np', 'int_neg', None, [3, -3, 0], 0, 'xr')": 'ac07e12e81de28e7',
    "('np', 'int_neg', None, [3, -3, 0], 1, 'df')": 'c90b8ec928705617',
    "('np', 'int_neg', None, [3, -3, 0], 1, 'xr')": 'd7c93ba441f7acc3',
    "('np', 'int_neg', None, [3, -3, 0], 2, 'df')": '5ba50db786d4b0a2',
    "('np', 'int_neg', None, [3, -3, 0], 2, 'xr')": '05abe55909ac44e3',
    "('np', 'int_neg', None, [3, -3, 0], 3, 'df')": 'ecac1ac1a10c924f',
    "('np', 'int_neg', None, [3, -3, 0], 3, 'xr')": 'b0943c667928f7f4',
    "('np', 'int_neg', None, [3, -3, 0], 4, 'df')": '98a1ce28ae8a0d51',
    "('np', 'int_neg', None, [3, -3, 0], 4, 'xr')": 'cf33dcf5dbb92046',
    "('np', 'int_neg', None, [3, -3, 0], 5, 'df')": '737a9f6ff4e26ccf',
    "('np', 'int_neg', None, [3, -3, 0], 5, 'xr')": '4b5d668bdb5131d1',
    "('np', 'int_neg', None, [3, -3, 0], 'custom', 'df')": '3e6bda55fe27238b',
    "('np', 'int_neg', None, [3, -3, 0], 'custom', 'xr')": '88b86975b0166f72',
    "('np', 'int_neg', None, [-1], 0, 'df')": '2341f3daa18f1ee1',
    "('np', 'int_neg', None, [-1], 0, 'xr')": 'f5e2206bae7f7230',
    "('np', 'int_neg', None, [-1], 1, 'df')": '8b319808b8cda634',
    "('np', 'int_neg', None, [-1], 1, 'xr')": '7ab71f1f93a63a2e',
    "('np', 'int_neg', None, [-1], 2, 'df')": '1ebd8863e2979b6d',
    "('np', 'int_neg', None, [-1], 2, 'xr')": '2ff3b9a818820363',
    "('np', 'int_neg', None, [-1], 3, 'df')": 'b4a11681b3938218',
    "('np', 'int_neg', None, [-1], 3, 'xr')": '9bf4b187a046c747',
    "('np', 'int_neg', None, [-1], 4, 'df')": 'ee4e432c070faffe',
    "('np', 'int_neg', None, [-1], 4, 'xr')": 'b4109b95645bdfea',
    "('np', 'int_neg', None, [-1], 5, 'df')": '2e502d593475116e',
    "('np', 'int_neg', None, [-1], 5, 'xr')": '57f815a2e3cf81ad',
    "('np', 'int_neg', None, [-1], 'custom', 'df')": '2d1d7799459f3943',
    "('np', 'int_neg', None, [-1], 'custom', 'xr')": '6b9787ece8bb3aab',
    "('np', 'int_neg', None, [2, 2, 100], 0, 'df')": 'a8f488527b80c965',
    "('np', 'int_neg', None, [2, 2, 100], 0, 'xr')": 'b3bcc53265b68c1f',
    "('np', 'int_neg', None, [2, 2, 100], 1, 'df')": '7a9408ff921117c8',
    "('np', 'int_neg', None, [2, 2, 100], 1, 'xr')": '7f8100b484c7fb22',
    "('np', 'int_neg', None, [2, 2, 100], 2, 'df')": '01a10af2ceea4f1f',
    "('np', 'int_neg', None, [2, 2, 100], 2, 'xr')": 'c49346090646a8dc',
    "('np', 'int_neg', None, [2, 2, 100], 3, 'df')": '8eebc41ce9c1c086',
    "('np', 'int_neg', None, [2, 2, 100], 3, 'xr')": 'ede25b782f0c3564',
    "('np', 'int_neg', None, [2, 2, 100], 4, 'df')": 'b088c5c3374dc44e',
    "('np', 'int_neg', None, [2, 2, 100], 4, 'xr')": '8ede5f8e5d2c51b4',
    "('np', 'int_neg', None, [2, 2, 100], 5, 'df')": 'd13851bed1799f8f',
    "('np', 'int_neg', None, [2, 2, 100], 5, 'xr')": '66284c3e16d38e50',
    "('np', 'int_neg', None, [2, 2, 100], 'custom', 'df')": '3c1eeebed0da9f82',
    "('np', 'int_neg', None, [2, 2, 100], 'custom', 'xr')": '15ffe9087608bd08',
    "('np', 'int_neg', 0, None, 0, 'df')": '94e772145f037411',
    "('np', 'int_neg', 0, None, 0, 'xr')": 'a753964b9de6bac0',
    "('np', 'int_neg', 0, None, 1, 'df')": '38804ca91da70cfa',
    "('np', 'int_neg', 0, None, 1, 'xr')": '81a1ff8b0dc3a13e',
    "('np', 'int_neg', 0, None, 2, 'df')": '40f7dc76bf091019',
    "('np', 'int_neg', 0, None, 2, 'xr')": '2ad07344fc2e2d77',
    "('np', 'int_neg', 0, None, 3, 'df')": '2e6d11eef3ea375c',
    "('np', 'int_neg', 0, None, 3, 'xr')": '31932d7650f50049',
    "('np', 'int_neg', 0, None, 4, 'df')": '8072b100e4ac6eb7',
    "('np', 'int_neg', 0, None, 4, 'xr')": '5b5fefdef0a593bc',
    "('np', 'int_neg', 0, None, 5, 'df')": '3e3a063b5decbca5',
    "('np', 'int_neg', 0, None, 5, 'xr')": 'c034f51e2f374af6',
    "('np', 'int_neg', 0, None, 'custom', 'df')": '154acb19517f1ab4',
    "('np', 'int_neg', 0, None, 'custom', 'xr')": '33e3b14ff96d734f',
    "('np', 'int_neg', 0, [3, -3, 0], 0, 'df')": '15c98c810f9dd431',
    "('np', 'int_neg', 0, [3, -3, 0], 0, 'xr')": 'b07de2a2b8c11636',
    "('np', 'int_neg', 0, [3, -3, 0], 1, 'df')": '03fdd38ed955d5f0',
    "('np', 'int_neg', 0, [3, -3, 0], 1, 'xr')": 'd6746ba22fa7d12a',
    "('np', 'int_neg', 0, [3, -3, 0], 2, 'df')": '5ba50db786d4b0a2',
    "('np', 'int_neg', 0, [3, -3, 0], 2, 'xr')": '05abe55909ac44e3',
    "('np', 'int_neg', 0, [3, -3, 0], 3, 'df')": '1f5563b1c06a28ae',
    "('np', 'int_neg', 0, [3, -3, 0], 3, 'xr')": '258cba83b9a1c1af',
    "('np', 'int_neg', 0, [3, -3, 0], 4, 'df')": 'aba01a2c6d06aa92',
    "('np', 'int_neg', 0, [3, -3, 0], 4, 'xr')": '12dc416340e78f91',
    "('np', 'int_neg', 0, [3, -3, 0], 5, 'df')": '9d7a465945650bce',
    "('np', 'int_neg', 0, [3, -3, 0], 5, 'xr')": '90a66ee025e85633',
    "('np', 'int_neg', 0, [3, -3, 0], 'custom', 'df')": '58fc4ee78714bb27',
    "('np', 'int_neg', 0, [3, -3, 0], 'custom', 'xr')": '6cf1840e52b95c38',
    "('np', 'int_neg', 0, [-1], 0, 'df')": '2341f3daa18f1ee1',
    "('np', 'int_neg', 0, [-1], 0, 'xr')": 'f5e2206bae7f7230',
    "('np', 'int_neg', 0, [-1], 1, 'df')": '8b319808b8cda634',
    "('np', 'int_neg', 0, [-1], 1, 'xr')": '7ab71f1f93a63a2e',
    "('np', 'int_neg', 0, [-1], 2, 'df')": '1ebd8863e2979b6d',
    "('np', 'int_neg', 0, [-1], 2, 'xr')": '2ff3b9a818820363',
    "('np', 'int_neg', 0, [-1], 3, 'df')": 'b4a11681b3938218',
    "('np', 'int_neg', 0, [-1], 3, 'xr')": '9bf4b187a046c747',
    "('np', 'int_neg', 0, [-1], 4, 'df')": 'ee4e432c070faffe',
    "('np', 'int_neg', 0, [-1], 4, 'xr')": 'b4109b95645bdfea',
    "('np', 'int_neg', 0, [-1], 5, 'df')": '2e502d593475116e',
    "('np', 'int_neg', 0, [-1], 5, 'xr')": '57f815a2e3cf81ad',
    "('np', 'int_neg', 0, [-1], 'custom', 'df')": '2d1d7799459f3943',
    "('np', 'int_neg', 0, [-1], 'custom', 'xr')": '6b9787ece8bb3aab',
    "('np', 'int_neg', 0, [2, 2, 100], 0, 'df')": 'a8f488527b80c965',
    "('np', 'int_neg', 0, [2, 2, 100], 0, 'xr')": 'b3bcc53265b68c1f',
    "('np', 'int_neg', 0, [2, 2, 100], 1, 'df')": '7a9408ff921117c8',
    "('np', 'int_neg', 0, [2, 2, 100], 1, 'xr')": '7f8100b484c7fb22',
    "('np', 'int_neg', 0, [2, 2, 100], 2, 'df')": '01a10af2ceea4f1f',
    "('np', 'int_neg', 0, [2, 2, 100], 2, 'xr')": 'c49346090646a8dc',
    "('np', 'int_neg', 0, [2, 2, 100], 3, 'df')": '8eebc41ce9c1c086',
    "('np', 'int_neg', 0, [2, 2, 100], 3, 'xr')": 'ede25b782f0c3564',
    "('np', 'int_neg', 0, [2, 2, 100], 4, 'df')": 'b088c5c3374dc44e',
    "('np', 'int_neg', 0, [2, 2, 100], 4, 'xr')": '8ede5f8e5d2c51b4',
    "('np', 'int_neg', 0, [2, 2, 100], 5, 'df')": 'd13851bed1799f8f',
    "('np', 'int_neg', 0, [2, 2, 100], 5, 'xr')": '66284c3e16d38e50',
    "('np', 'int_neg', 0, [2, 2, 100], 'custom', 'df')": '3c1eeebed0da9f82',
    "('np', 'int_neg', 0, [2, 2, 100], 'custom', 'xr')": '15ffe9087608bd08',
    "('np', 'int_neg', -10, None, 0, 'df')": 'e4f10511a80f7260',
    "('np', 'int_neg', -10, None, 0, 'xr')": 'c3b4d118e5031c21',
    "('np', 'int_neg', -10, None, 1, 'df')": 'e34daa8070c91ee7',
    "('np', 'int_neg', -10, None, 1, 'xr')": '27aed778b0033456',
    "('np', 'int_neg', -10, None, 2, 'df')": '33c7a501b7ccfd40',
    "('np', 'int_neg', -10, None, 2, 'xr')": '01446ed977fd12fa',
    "('np', 'int_neg', -10, None, 3, 'df')": '92a2c71ef44e5318',
    "('np', 'int_neg', -10, None, 3, 'xr')": 'aeeb69ecde12e7a0',
    "('np', 'int_neg', -10, None, 4, 'df')": '7e16f60f8b694204',
    "('np', 'int_neg', -10, None, 4, 'xr')": '51362fe73066e208',
    "('np', 'int_neg', -10, None, 5, 'df')": '062c92fb76c919c8',
    "('np', 'int_neg', -10, None, 5, 'xr')": 'e19c47463832a4d4',
    "('np', 'int_neg', -10, None, 'custom', 'df')": '4959fec1eeddc088',
    "('np', 'int_neg', -10, None, 'custom', 'xr')": '4cb217daad7afbf0',
    "('np', 'int_neg', -10, [3, -3, 0], 0, 'df')": 'c92860b37311e59c',
    "('np', 'int_neg', -10, [3, -3, 0], 0, 'xr')": '538e6b0657adfca8',
    "('np', 'int_neg', -10, [3, -3, 0], 1, 'df')": '03fdd38ed955d5f0',
    "('np', 'int_neg', -10, [3, -3, 0], 1, 'xr')": 'd6746ba22fa7d12a',
    "('np', 'int_neg', -10, [3, -3, 0], 2, 'df')": 'c39867f6e5d52b3a',
    "('np', 'int_neg', -10, [3, -3, 0], 2, 'xr')": '1fc7ff0896d2d139',
    "('np', 'int_neg', -10, [3, -3, 0], 3, 'df')": '3c6d68a078a803ca',
    "('np', 'int_neg', -10, [3, -3, 0], 3, 'xr')": '46cd4f2293139b06',
    "('np', 'int_neg', -10, [3, -3, 0], 4, 'df')": 'b7a96779f1e9a595',
    "('np', 'int_neg', -10, [3, -3, 0], 4, 'xr')": '3b1876f1f8293bc7',
    "('np', 'int_neg', -10, [3, -3, 0], 5, 'df')": '6c460323f42b5967',
    "('np', 'int_neg', -10, [3, -3, 0], 5, 'xr')": '9be4c54e072556ea',
    "('np', 'int_neg', -10, [3, -3, 0], 'custom', 'df')": '799e81976f5689be',
    "('np', 'int_neg', -10, [3, -3, 0], 'custom', 'xr')": 'c41d0cec2cda9734',
    "('np', 'int_neg', -10, [-1], 0, 'df')": '2341f3daa18f1ee1',
    "('np', 'int_neg', -10, [-1], 0, 'xr')": 'f5e2206bae7f7230',
    "('np', 'int_neg', -10, [-1], 1, 'df')": '8b319808b8cda634',
    "('np', 'int_neg', -10, [-1], 1, 'xr')": '7ab71f1f93a63a2e',
    "('np', 'int_neg', -10, [-1], 2, 'df')": '1ebd8863e2979b6d',
    "('np', 'int_neg', -10, [-1], 2, 'xr')": '2ff3b9a818820363',
    "('np', 'int_neg', -10, [-1], 3, 'df')": 'b4a11681b3938218',
    "('np', 'int_neg', -10, [-1], 3, 'xr')": '9bf4b187a046c747',
    "('np', 'int_neg', -10, [-1], 4, 'df')": 'ee4e432c070faffe',
    "('np', 'int_neg', -10, [-1], 4, 'xr')": 'b4109b95645bdfea',
    "('np', 'int_neg', -10, [-1], 5, 'df')": '2e502d593475116e',
    "('np', 'int_neg', -10, [-1], 5, 'xr')": '57f815a2e3cf81ad',
    "('np', 'int_neg', -10, [-1], 'custom', 'df')": '2d1d7799459f3943',
    "('np', 'int_neg', -10, [-1], 'custom', 'xr')": '6b9787ece8bb3aab',
    "('np', 'int_neg', -10, [2, 2, 100], 0, 'df')": 'bd7de48333de7da3',
    "('np', 'int_neg', -10, [2, 2, 100], 0, 'xr')": '4937594ffcb2f7a4',
    "('np', 'int_neg', -10, [2, 2, 100], 1, 'df')": '650c959c5db9cc6a',
    "('np', 'int_neg', -10, [2, 2, 100], 1, 'xr')": '8d567c95e4b140a6',
    "('np', 'int_neg', -10, [2, 2, 100], 2, 'df')": '2a193688b4e5ef81',
    "('np', 'int_neg', -10, [2, 2, 100], 2, 'xr')": '047faeb6239e1bbd',
    "('np', 'int_neg', -10, [2, 2, 100], 3, 'df')": '8e78ded60ebba109',
    "('np', 'int_neg', -10, [2, 2, 100], 3, 'xr')": '8facdf35a20de3b2',
    "('np', 'int_neg', -10, [2, 2, 100], 4, 'df')": '059d5b26b82ef28c',
    "('np', 'int_neg', -10, [2, 2, 100], 4, 'xr')": 'ee05282d791f9e56',
    "('np', 'int_neg', -10, [2, 2, 100], 5, 'df')": '88c966fa6417cb27',
    "('np', 'int_neg', -10, [2, 2, 100], 5, 'xr')": '3d14b8e364c1df4e',
    "('np', 'int_neg', -10, [2, 2, 100], 'custom', 'df')": 'c01b9a2e89719ef8',
    "('np', 'int_neg', -10, [2, 2, 100], 'custom', 'xr')": 'e498a5d76bda19a7',
    "('np', 'int_neg', 'defaults')": '78734e86302b56b7',
    "('da', 'int_neg', (7, 5), None, None, 0)": '3512b2145791ad66',
    "('da', 'int_neg', (7, 5), None, None, 2)": '8d94d3c8eaee6fb0',
    "('da', 'int_neg', (7, 5), None, [3, -3, 0], 0)": '1fa8c66c699cb203',
    "('da', 'int_neg', (7, 5), None, [3, -3, 0], 3)": '94e0a29425b7722f',
    "('da', 'int_neg', (7, 5), 0, None, 0)": '69ecc04bbe252b78',
    "('da', 'int_neg', (7, 5), 0, None, 4)": 'ab4ec8d718622801',
    "('da', 'int_neg', (7, 5), 0, [3, -3, 0], 0)": '046a6df4a80f5811',
    "('da', 'int_neg', (7, 5), 0, [3, -3, 0], 5)": 'e37c7b1c3ae1e286',
    "('da', 'int_neg', (7, 5), 'defaults')": '3512b2145791ad66',
    "('da', 'int_neg', (4, 3), None, None, 0)": '3512b2145791ad66',
    "('da', 'int_neg', (4, 3), None, None, 1)": '035c025788894a8b',
    "('da', 'int_neg', (4, 3), None, [3, -3, 0], 0)": '1fa8c66c699cb203',
    "('da', 'int_neg', (4, 3), None, [3, -3, 0], 2)": 'ef112de3172fcd82',
    "('da', 'int_neg', (4, 3), 0, None, 0)": '69ecc04bbe252b78',
    "('da', 'int_neg', (4, 3), 0, None, 3)": '7c9f332ad040605b',
    "('da', 'int_neg', (4, 3), 0, [3, -3, 0], 0)": '046a6df4a80f5811',
    "('da', 'int_neg', (4, 3), 0, [3, -3, 0], 4)": '3af6923cc6114ef4',
    "('da', 'int_neg', (4, 3), 'defaults')": '3512b2145791ad66',
    "('da', 'int_neg', 'rechunk')": '2126b8f44ea6567e',
    "('np', 'frac_f4', None, None, 0, 'df')": '48055f8969c7472c',
    "('np', 'frac_f4', None, None, 0, 'xr')": '027afb17cf1549d9',
    "('np', 'frac_f4', None, None, 1, 'df')": 'ec7aed89f43df51e',
    "('np', 'frac_f4', None, None, 1, 'xr')": '2695e1109d0ae3d2',
    "('np', 'frac_f4', None, None, 2, 'df')": '3fa55dc464f63a2a',
    "('np', 'frac_f4', None, None, 2, 'xr')": 'f60475271b0e0589',
    "('np', 'frac_f4', None, None, 3, 'df')": 'bbd0df5f5062ebae',
    "('np', 'frac_f4', None, None, 3, 'xr')": 'd2db4d84874b0a2f',
    "('np', 'frac_f4', None, None, 4, 'df')": '5fc621f6dc74c3c4',
    "('np', 'frac_f4', None, None, 4, 'xr')": '9a504093ce133f50',
    "('np', 'frac_f4', None, None, 5, 'df')": 'e9483346731e386f',
    "('np', 'frac_f4', None, None, 5, 'xr')": 'dc5d28f35bf081da',
    "('np', 'frac_f4', None, None, 'custom', 'df')": '541460047ea46be1',
    "('np', 'frac_f4', None, None, 'custom', 'xr')": 'be72989d55bc3bee',
    "('np', 'frac_f4', None, [7.75, -2.5, 0.25], 0, 'df')": '8b7da0af8992b486',
    "('np', 'frac_f4', None, [7.75, -2.5, 0.25], 0, 'xr')": '8a10e96f617bb3cc',
    "('np', 'frac_f4', None, [7.75, -2.5, 0.25], 1, 'df')": '713988ce0387aa13',
    "('np', 'frac_f4', None, [7.75, -2.5, 0.25], 1, 'xr')": '8c35b83d1941121d',
    "('np', 'frac_f4', None, [7.75, -2.5, 0.25], 2, 'df')": 'e7ec199066125aba',
    "('np', 'frac_f4', None, [7.75, -2.5, 0.25], 2, 'xr')": '3ff635997f7879f2',
    "('np', 'frac_f4', None, [7.75, -2.5, 0.25], 3, 'df')": '8603e0ebd3d361c4',
    "('np', 'frac_f4', None, [7.75, -2.5, 0.25], 3, 'xr')": '1ac045295be05540',
    "('np', 'frac_f4', None, [7.75, -2.5, 0.25], 4, 'df')": '17bd33fc18f49cdd',
    "('np', 'frac_f4', None, [7.75, -2.5, 0.25], 4, 'xr')": '966e19de9582c3b4',
    "('np', 'frac_f4', None, [7.75, -2.5, 0.25], 5, 'df')": '09f1783bdd1a6181',
    "('np', 'frac_f4', None, [7.75, -2.5, 0.25], 5, 'xr')": 'b8b6f9f386b0f22b',
    "('np', 'frac_f4', None, [7.75, -2.5, 0.25], 'custom', 'df')": '521ddb3827753b8d',
    "('np', 'frac_f4', None, [7.75, -2.5, 0.25], 'custom', 'xr')": '93385e9258e02309',
    "('np', 'frac_f4', None, [1.0], 0, 'df')": 'c45e9aa7bfc40dcb',
    "('np', 'frac_f4', None, [1.0], 0, 'xr')": 'b9d7a15f355bb198',
    "('np', 'frac_f4', None, [1.0], 1, 'df')": 'e259c5ffd45bd3d8',
    "('np', 'frac_f4', None, [1.0], 1, 'xr')": '1ab6a231119efd8f',
    "('np', 'frac_f4', None, [1.0], 2, 'df')": '5e74bf587095224c',
    "('np', 'frac_f4', None, [1.0], 2, 'xr')": 'c793a8f9271113c3',
    "('np', 'frac_f4', None, [1.0], 3, 'df')": '78cc73f22ecb5a82',
    "('np', 'frac_f4', None, [1.0], 3, 'xr')": '0ab2272cb49a2eee',
    "('np', 'frac_f4', None, [1.0], 4, 'df')": 'de67d0d09170cf24',
    "('np', 'frac_f4', None, [1.0], 4, 'xr')": 'c46003e0edc8897b',
    "('np', 'frac_f4', None, [1.0], 5, 'df')": '4b4062b4661a4d1f',
    "('np', 'frac_f4', None, [1.0], 5, 'xr')": 'a4fac1c88456d3ba',
    "('np', 'frac_f4', None, [1.0], 'custom', 'df')": '2f560002af76dcbc',
    "('np', 'frac_f4', None, [1.0], 'custom', 'xr')": '8a4a9f20de75e3de',
    "('np', 'frac_f4', None, [3], 0, 'df')": '0a3875307b2eada4',
    "('np', 'frac_f4', None, [3], 0, 'xr')": '261ceca0de2c3f0c',
    "('np', 'frac_f4', None, [3], 1, 'df')": 'b6039628985c1a07',
    "('np', 'frac_f4', None, [3], 1, 'xr')": 'e763492efbbd9dfc',
    "('np', 'frac_f4', None, [3], 2, 'df')": '415399dce3e09dee',
    "('np', 'frac_f4', None, [3], 2, 'xr')": 'fdfa3ceec30da1cf',
    "('np', 'frac_f4', None, [3], 3, 'df')": '5cb927a6815ecfa7',
    "('np', 'frac_f4', None, [3], 3, 'xr')": 'ebecc02fb1a6c6d2',
    "('np', 'frac_f4', None, [3], 4, 'df')": 'ed63a1384ca5c13f',
    "('np', 'frac_f4', None, [3], 4, 'xr')": '2704af585811e302',
    "('np', 'frac_f4', None, [3], 5, 'df')": 'd2108638abec0370',
    "('np', 'frac_f4', None, [3], 5, 'xr')": 'c72165b82ebcb263',
    "('np', 'frac_f4', None, [3], 'custom', 'df')": '4d7ce71e0a08b07f',
    "('np', 'frac_f4', None, [3], 'custom', 'xr')": '258e94b291c784ba',
    "('np', 'frac_f4', 0, None, 0, 'df')": '48055f8969c7472c',
    "('np', 'frac_f4', 0, None, 0, 'xr')": '027afb17cf1549d9',
    "('np', 'frac_f4', 0, None, 1, 'df')": 'ec7aed89f43df51e',
    "('np', 'frac_f4', 0, None, 1, 'xr')": '2695e1109d0ae3d2',
    "('np', 'frac_f4', 0, None, 2, 'df')": '3fa55dc464f63a2a',
    "('np', 'frac_f4', 0, None, 2, 'xr')": 'f60475271b0e0589',
    "('np', 'frac_f4', 0, None, 3, 'df')": 'bbd0df5f5062ebae',
    "('np', 'frac_f4', 0, None, 3, 'xr')": 'd2db4d84874b0a2f',
    "('np', 'frac_f4', 0, None, 4, 'df')": '5fc621f6dc74c3c4',
    "('np', 'frac_f4', 0, None, 4, 'xr')": '9a504093ce133f50',
    "('np', 'frac_f4', 0, None, 5, 'df')": 'e9483346731e386f',
    "('np', 'frac_f4', 0, None, 5, 'xr')": 'dc5d28f35bf081da',
    "('np', 'frac_f4', 0, None, 'custom', 'df')": '541460047ea46be1',
    "('np', 'frac_f4', 0, None, 'custom', 'xr')": 'be72989d55bc3bee',
    "('np', 'frac_f4', 0, [7.75, -2.5, 0.25], 0, 'df')": '8b7da0af8992b486',
    "('np', 'frac_f4', 0, [7.75, -2.5, 0.25], 0, 'xr')": '8a10e96f617bb3cc',
    "('np', 'frac_f4', 0, [7.75, -2.5, 0.25], 1, 'df')": '713988ce0387aa13',
    "('np', 'frac_f4', 0, [7.75, -2.5, 0.25], 1, 'xr')": '8c35b83d1941121d',
    "('np', 'frac_f4', 0, [7.75, -2.5, 0.25], 2, 'df')": 'e7ec199066125aba',
    "('np', 'frac_f4', 0, [7.75, -2.5, 0.25], 2, 'xr')": '3ff635997f7879f2',
    "('np', 'frac_f4', 0, [7.75, -2.5, 0.25], 3, 'df')": '8603e0ebd3d361c4',
    "('np', 'frac_f4', 0, [7.75, -2.5, 0.25], 3, 'xr')": '1ac045295be05540',
    "('np', 'frac_f4', 0, [7.75, -2.5, 0.25], 4, 'df')": '17bd33fc18f49cdd',
    "('np', 'frac_f4', 0, [7.75, -2.5, 0.25], 4, 'xr')": '966e19de9582c3b4',
    "('np', 'frac_f4', 0, [7.75, -2.5, 0.25], 5, 'df')": '09f1783bdd1a6181',
    "('np', 'frac_f4', 0, [7.75, -2.5, 0.25], 5, 'xr')": 'b8b6f9f386b0f22b',
    "('np', 'frac_f4', 0, [7.75, -2.5, 0.25], 'custom', 'df')": '521ddb3827753b8d',
    "('np', 'frac_f4', 0, [7.75, -2.5, 0.25], 'custom', 'xr')": '93385e9258e02309',
    "('np', 'frac_f4', 0, [1.0], 0, 'df')": 'c45e9aa7bfc40dcb',
    "('np', 'frac_f4', 0, [1.0], 0, 'xr')": 'b9d7a15f355bb198',
    "('np', 'frac_f4', 0, [1.0], 1, 'df')": 'e259c5ffd45bd3d8',
    "('np', 'frac_f4', 0, [1.0], 1, 'xr')": '1ab6a231119efd8f',
    "('np', 'frac_f4', 0, [1.0], 2, 'df')": '5e74bf587095224c',
    "('np', 'frac_f4', 0, [1.0], 2, 'xr')": 'c793a8f9271113c3',
    "('np', 'frac_f4', 0, [1.0], 3, 'df')": '78cc73f22ecb5a82',
    "('np', 'frac_f4', 0, [1.0], 3, 'xr')": '0ab2272cb49a2eee',
    "('np', 'frac_f4', 0, [1.0], 4, 'df')": 'de67d0d09170cf24',
    "('np', 'frac_f4', 0, [1.0], 4, 'xr')": 'c46003e0edc8897b',
    "('np', 'frac_f4', 0, [1.0], 5, 'df')": '4b4062b4661a4d1f',
    "('np', 'frac_f4', 0, [1.0], 5, 'xr')": 'a4fac1c88456d3ba',
    "('np', 'frac_f4', 0, [1.0], 'custom', 'df')": '2f560002af76dcbc',
    "('np', 'frac_f4', 0, [1.0], 'custom', 'xr')": '8a4a9f20de75e3de',
    "('np', 'frac_f4', 0, [3], 0, 'df')": '0a3875307b2eada4',
    "('np', 'frac_f4', 0, [3], 0, 'xr')": '261ceca0de2c3f0c',
    "('np', 'frac_f4', 0, [3], 1, 'df')": 'b6039628985c1a07',
    "('np', 'frac_f4', 0, [3], 1, 'xr')": 'e763492efbbd9dfc',
    "('np', 'frac_f4', 0, [3], 2, 'df')": '415399dce3e09dee',
    "('np', 'frac_f4', 0, [3], 2, 'xr')": 'fdfa3ceec30da1cf',
    "('np', 'frac_f4', 0, [3], 3, 'df')": '5cb927a6815ecfa7',
    "('np', 'frac_f4', 0, [3], 3, 'xr')": 'ebecc02fb1a6c6d2',
    "('np', 'frac_f4', 0, [3], 4, 'df')": 'ed63a1384ca5c13f',
    "('np', 'frac_f4', 0, [3], 4, 'xr')": '2704af585811e302',
    "('np', 'frac_f4', 0, [3], 5, 'df')": 'd2108638abec0370',
    "('np', 'frac_f4', 0, [3], 5, 'xr')": 'c72165b82ebcb263',
    "('np', 'frac_f4', 0, [3], 'custom', 'df')": '4d7ce71e0a08b07f',
    "('np', 'frac_f4', 0, [3], 'custom', 'xr')": '258e94b291c784ba',
    "('np', 'frac_f4', 'defaults')": '48055f8969c7472c',
    "('da', 'frac_f4', (3, 9), None, None, 0)": '7a799c23322a7e8b',
    "('da', 'frac_f4', (3, 9), None, None, 2)": 'fdb5a16e342804c7',
    "('da', 'frac_f4', (3, 9), None, [7.75, -2.5, 0.25], 0)": '68bf279fd6805c9e',
    "('da', 'frac_f4', (3, 9), None, [7.75, -2.5, 0.25], 3)": '95708809a1a37f7e',
    "('da', 'frac_f4', (3, 9), 0, None, 0)": '7a799c23322a7e8b',
    "('da', 'frac_f4', (3, 9), 0, None, 4)": '306c6a00c51a4c42',
    "('da', 'frac_f4', (3, 9), 0, [7.75, -2.5, 0.25], 0)": '68bf279fd6805c9e',
    "('da', 'frac_f4', (3, 9), 0, [7.75, -2.5, 0.25], 5)": 'ef3d618367e029b5',
    "('da', 'frac_f4', (3, 9), 'defaults')": '7a799c23322a7e8b',
    "('da', 'frac_f4', (4, 5), None, None, 0)": '523d1402b222e556',
    "('da', 'frac_f4', (4, 5), None, None, 1)": '61664f94b755213b',
    "('da', 'frac_f4', (4, 5), None, [7.75, -2.5, 0.25], 0)": '75e4145804d612b9',
    "('da', 'frac_f4', (4, 5), None, [7.75, -2.5, 0.25], 2)": '174f657f8492bc01',
    "('da', 'frac_f4', (4, 5), 0, None, 0)": '523d1402b222e556',
    "('da', 'frac_f4', (4, 5), 0, None, 3)": '929f182a7616a8fa',
    "('da', 'frac_f4', (4, 5), 0, [7.75, -2.5, 0.25], 0)": '75e4145804d612b9',
    "('da', 'frac_f4', (4, 5), 0, [7.75, -2.5, 0.25], 4)": 'f310fcde403a0a54',
    "('da', 'frac_f4', (4, 5), 'defaults')": '523d1402b222e556',
    "('da', 'frac_f4', 'rechunk')": '3b3d3816e2f9be31',
    "('np', 'empty_zone', None, None, 0, 'df')": '7f3dac0c159086fb',
    "('np', 'empty_zone', None, None, 0, 'xr')": 'cb353228b8af871d',
    "('np', 'empty_zone', None, None, 1, 'df')": '88e54ac33c36a36d',
    "('np', 'empty_zone', None, None, 1, 'xr')": 'b2370eb95d1b562c',
    "('np', 'empty_zone', None, None, 2, 'df')": '9bd15fbbde194032',
    "('np', 'empty_zone', None, None, 2, 'xr')": '6980cedb71e97beb',
    "('np', 'empty_zone', None, None, 3, 'df')": '21e4cc5ee497c4a0',
    "('np', 'empty_zone', None, None, 3, 'xr')": 'a595f826e2cbf226',
    "('np', 'empty_zone', None, None, 4, 'df')": 'c5b500e410023502',
    "('np', 'empty_zone', None, None, 4, 'xr')": '8fea51fcbd8391d3',
    "('np', 'empty_zone', None, None, 5, 'df')": 'f13559274bb425a4',
    "('np', 'empty_zone', None, None, 5, 'xr')": 'bbb091f70adfc62c',
    "('np', 'empty_zone', None, None, 'custom', 'df')": '896c4adc0effcb4b',
    "('np', 'empty_zone', None, None, 'custom', 'xr')": '2b62696c0162610b',
    "('np', 'empty_zone', None, [2, 3], 0, 'df')": 'e2709244c868ec7f',
    "('np', 'empty_zone', None, [2, 3], 0, 'xr')": '63bed56e6b5617d3',
    "('np', 'empty_zone', None, [2, 3], 1, 'df')": '67eb073d16230104',
    "('np', 'empty_zone', None, [2, 3], 1, 'xr')": '38c61c6844bdcf0f',
    "('np', 'empty_zone', None, [2, 3], 2, 'df')": '64c20b0eb9ca51b4',
    "('np', 'empty_zone', None, [2, 3], 2, 'xr')": '5d684c2357fbfdad',
    "('np', 'empty_zone', None, [2, 3], 3, 'df')": 'd45d128b5316c6ce',
    "('np', 'empty_zone', None, [2, 3], 3, 'xr')": '179af73202444875',
    "('np', 'empty_zone', None, [2, 3], 4, 'df')": 'b4dcdee2134d8e81',
    "('np', 'empty_zone', None, [2, 3], 4, 'xr')": 'b839afdd3d98bca6',
    "('np', 'empty_zone', None, [2, 3], 5, 'df')": '5afff88e306e86fb',
    "('np', 'empty_zone', None, [2, 3], 5, 'xr')": '1d0212413b740199',
    "('np', 'empty_zone', None, [2, 3], 'custom', 'df')": '2a6ba090af98484d',
    "('np', 'empty_zone', None, [2, 3], 'custom', 'xr')": '3110f9cb3473985d',
    "('np', 'empty_zone', None, [9, 1], 0, 'df')": '798e6e0b82a63c52',
    "('np', 'empty_zone', None, [9, 1], 0, 'xr')": '1605046c089b646a',
    "('np', 'empty_zone', None, [9, 1], 1, 'df')": 'b30ed4efaec8a09c',
    "('np', 'empty_zone', None, [9, 1], 1, 'xr')": '43e59d248a0ab1df',
    "('np', 'empty_zone', None, [9, 1], 2, 'df')": 'aa499c1c94d107a5',
    "('np', 'empty_zone', None, [9, 1], 2, 'xr')": '9f172e2273c219db',
    "('np', 'empty_zone', None, [9, 1], 3, 'df')": '39b610ee76708e33',
    "('np', 'empty_zone', None, [9, 1], 3, 'xr')": 'be997a86e868ce42',
    "('np', 'empty_zone', None, [9, 1], 4, 'df')": 'd8da72ceb631490b',
    "('np', 'empty_zone', None, [9, 1], 4, 'xr')": 'da110a4f4ff8b637',
    "('np', 'empty_zone', None, [9, 1], 5, 'df')": '4140f79b8bd84605',
    "('np', 'empty_zone', None, [9, 1], 5, 'xr')": '0f299452ac4eb46f',
    "('np', 'empty_zone', None, [9, 1], 'custom', 'df')": '64d5b36118f117a5',
    "('np', 'empty_zone', None, [9, 1], 'custom', 'xr')": '4ec6baf836e9ebe4',
    "('np', 'empty_zone', -9999, None, 0, 'df')": 'b0350c663bb5a2ba',
    "('np', 'empty_zone', -9999, None, 0, 'xr')": '15f51b98fb2baf08',
    "('np', 'empty_zone', -9999, None, 1, 'df')": '351a0e33c9f8e416',
    "('np', 'empty_zone', -9999, None, 1, 'xr')": 'f19750aac4aebfcb',
    "('np', 'empty_zone', -9999, None, 2, 'df')": '79bb5dcb0021a8bb',
    "('np', 'empty_zone', -9999, None, 2, 'xr')": '193292ccac1c648e',
    "('np', 'empty_zone', -9999, None, 3, 'df')": '47cb43ec938bad9b',
    "('np', 'empty_zone', -9999, None, 3, 'xr')": '39fa33cf11923632',
    "('np', 'empty_zone', -9999, None, 4, 'df')": 'b35df7e5b9473224',
    "('np', 'empty_zone', -9999, None, 4, 'xr')": '90c6841e2c831152',
    "('np', 'empty_zone', -9999, None, 5, 'df')": 'b7336211ce3ad86a',
    "('np', 'empty_zone', -9999, None, 5, 'xr')": 'c9445dd7918caec5',
    "('np', 'empty_zone', -9999, None, 'custom', 'df')": 'c3202bdc85513076',
    "('np', 'empty_zone', -9999, None, 'custom', 'xr')": '39583a48df47c967',
    "('np', 'empty_zone', -9999, [2, 3], 0, 'df')": 'b45c950e22521ea1',
    "('np', 'empty_zone', -9999, [2, 3], 0, 'xr')": '4117f3b4e43a7bc6',
    "('np', 'empty_zone', -9999, [2, 3], 1, 'df')": '904d777ae2d27213',
    "('np', 'empty_zone', -9999, [2, 3], 1, 'xr')": 'a347cf58a89f6557',
    "('np', 'empty_zone', -9999, [2, 3], 2, 'df')": '2b2bbbe78a2c8691',
    "('np', 'empty_zone', -9999, [2, 3], 2, 'xr')": '5fc02b72b2ec4bae',
    "('np', 'empty_zone', -9999, [2, 3], 3, 'df')": 'a542f22c9df11019',
    "('np', 'empty_zone', -9999, [2, 3], 3, 'xr')": '844dac62d99066c4',
    "('np', 'empty_zone', -9999, [2, 3], 4, 'df')": '86f81d81976395e1',
    "('np', 'empty_zone', -9999, [2, 3], 4, 'xr')": '4f41463732522458',
    "('np', 'empty_zone', -9999, [2, 3], 5, 'df')": 'fabd71c9e6aafb10',
    "('np', 'empty_zone', -9999, [2, 3], 5, 'xr')": 'c4798414fcab5a16',
    "('np', 'empty_zone', -9999, [2, 3], 'custom', 'df')": 'b07e50d604843523',
    "('np', 'empty_zone', -9999, [2, 3], 'custom', 'xr')": '4c179e0a3c22addc',
    "('np', 'empty_zone', -9999, [9, 1], 0, 'df')": '4134da97b16984a0',
    "('np', 'empty_zone', -9999, [9, 1], 0, 'xr')": '33f202f326ed5ef3',
    "('np', 'empty_zone', -9999, [9, 1], 1, 'df')": '7841d78f526ff7fb',
    "('np', 'empty_zone', -9999, [9, 1], 1, 'xr')": 'c5ad3dbc100a433d',
    "('np', 'empty_zone', -9999, [9, 1], 2, 'df')": 'cefb264394efe6a0',
    "('np', 'empty_zone', -9999, [9, 1], 2, 'xr')": 'd90de68f94aa55a2',
    "('np', 'empty_zone', -9999, [9, 1], 3, 'df')": 'f4c517b5036db1c7',
    "('np', 'empty_zone', -9999, [9, 1], 3, 'xr')": '6306a48737cdab29',
    "('np', 'empty_zone', -9999, [9, 1], 4, 'df')": '2f2334e731e2b688',
    "('np', 'empty_zone', -9999, [9, 1], 4, 'xr')": '74e6ff0d1a2a5488',
    "('np', 'empty_zone', -9999, [9, 1], 5, 'df')": '899c34fa9b1f1a5f',
    "('np', 'empty_zone', -9999, [9, 1], 5, 'xr')": '3e93eb2babaa68d7',
    "('np', 'empty_zone', -9999, [9, 1], 'custom', 'df')": '80ec635de47d81c3',
    "('np', 'empty_zone', -9999, [9, 1], 'custom', 'xr')": 'b5446229c634f439',
    "('np', 'empty_zone', 'defaults')": '7f3dac0c159086fb',
    "('da', 'empty_zone', (2, 3), None, None, 0)": '422fc2828cbbd320',
    "('da', 'empty_zone', (2, 3), None, None, 2)": '1009b2fe436f5678',
    "('da', 'empty_zone', (2, 3), None, [2, 3], 0)": 'd3822f8638f145e8',
    "('da', 'empty_zone', (2, 3), None, [2, 3], 3)": '2f54bb2290d05fc5',
    "('da', 'empty_zone', (2, 3), -9999, None, 0)": 'bad618707ce102b1',
    "('da', 'empty_zone', (2, 3), -9999, None, 4)": 'f353546fbc796932',
    "('da', 'empty_zone', (2, 3), -9999, [2, 3], 0)": 'cda0dee9d90b4606',
    "('da', 'empty_zone', (2, 3), -9999, [2, 3], 5)": 'e7096604f5b349d0',
    "('da', 'empty_zone', (2, 3), 'defaults')": '422fc2828cbbd320',
    "('da', 'empty_zone', 'rechunk')": 'ba0aab5ff89636d9',
    "('np', 'row_u1', None, None, 0, 'df')": '60f6abc7c1c597ce',
    "('np', 'row_u1', None, None, 0, 'xr')": 'c0fac5ab07cb8dc7',
    "('np', 'row_u1', None, None, 1, 'df')": '3c20603b7fd6d03e',
    "('np', 'row_u1', None, None, 1, 'xr')": 'bf59649c0fa6fec3',
    "('np', 'row_u1', None, None, 2, 'df')": '9ee30ed4439fc4d0',
    "('np', 'row_u1', None, None, 2, 'xr')": 'fbc3aba3e061a049',
    "('np', 'row_u1', None, None, 3, 'df')": '2fe515d856f12a67',
    "('np', 'row_u1', None, None, 3, 'xr')": 'a6ebdd074539c760',
    "('np', 'row_u1', None, None, 4, 'df')": '530793122eb21c3e',
    "('np', 'row_u1', None, None, 4, 'xr')": '66971d8e37b39155',
    "('np', 'row_u1', None, None, 5, 'df')": '68584d6375f37d78',
    "('np', 'row_u1', None, None, 5, 'xr')": '0f38533785a310ba',
    "('np', 'row_u1', None, None, 'custom', 'df')": '3a8f37291b4576f9',
    "('np', 'row_u1', None, None, 'custom', 'xr')": 'adc1d9c0833904f6',
    "('np', 'row_u1', None, [2, 0], 0, 'df')": '3f8ba9ac79114186',
    "('np', 'row_u1', None, [2, 0], 0, 'xr')": '9654bef93d220d94',
    "('np', 'row_u1', None, [2, 0], 1, 'df')": '1561c589b7a32abd',
    "('np', 'row_u1', None, [2, 0], 1, 'xr')": '538f21f2f958abfb',
    "('np', 'row_u1', None, [2, 0], 2, 'df')": '59b4f4678cf32432',
    "('np', 'row_u1', None, [2, 0], 2, 'xr')": '8227200521719a41',
    "('np', 'row_u1', None, [2, 0], 3, 'df')": '7d8a502691d2c72e',
    "('np', 'row_u1', None, [2, 0], 3, 'xr')": 'e1aab54dd1aa53be',
    "('np', 'row_u1', None, [2, 0], 4, 'df')": '3a07efe87ee3982d',
    "('np', 'row_u1', None, [2, 0], 4, 'xr')": 'cb090659f2ea7147',
    "('np', 'row_u1', None, [2, 0], 5, 'df')": '3b3b28d9519d31fd',
    "('np', 'row_u1', None, [2, 0], 5, 'xr')": 'be34b0306b7d62f0',
    "('np', 'row_u1', None, [2, 0], 'custom', 'df')": 'e4e7f6f1d853feb5',
    "('np', 'row_u1', None, [2, 0], 'custom', 'xr')": '00bf83721fe49921',
    "('np', 'row_u1', 3, None, 0, 'df')": '60f6abc7c1c597ce',
    "('np', 'row_u1', 3, None, 0, 'xr')": 'c0fac5ab07cb8dc7',
    "('np', 'row_u1', 3, None, 1, 'df')": '3c20603b7fd6d03e',
    "('np', 'row_u1', 3, None, 1, 'xr')": 'bf59649c0fa6fec3',
    "('np', 'row_u1', 3, None, 2, 'df')": '9ee30ed4439fc4d0',
    "('np', 'row_u1', 3, None, 2, 'xr')": 'fbc3aba3e061a049',
    "('np', 'row_u1', 3, None, 3, 'df')": '2fe515d856f12a67',
    "('np', 'row_u1', 3, None, 3, 'xr')": 'a6ebdd074539c760',
    "('np', 'row_u1', 3, None, 4, 'df')": '530793122eb21c3e',
    "('np', 'row_u1', 3, None, 4, 'xr')": '66971d8e37b39155',
    "('np', 'row_u1', 3, None, 5, 'df')": '68584d6375f37d78',
    "('np', 'row_u1', 3, None, 5, 'xr')": '0f38533785a310ba',
    "('np', 'row_u1', 3, None, 'custom', 'df')": '3a8f37291b4576f9',
    "('np', 'row_u1', 3, None, 'custom', 'xr')": 'adc1d9c0833904f6',
    "('np', 'row_u1', 3, [2, 0], 0, 'df')": '3f8ba9ac79114186',
    "('np', 'row_u1', 3, [2, 0], 0, 'xr')": '9654bef93d220d94',
    "('np', 'row_u1', 3, [2, 0], 1, 'df')": '1561c589b7a32abd',
    "('np', 'row_u1', 3, [2, 0], 1, 'xr')": '538f21f2f958abfb',
    "('np', 'row_u1', 3, [2, 0], 2, 'df')": '59b4f4678cf32432',
    "('np', 'row_u1', 3, [2, 0], 2, 'xr')": '8227200521719a41',
    "('np', 'row_u1', 3, [2, 0], 3, 'df')": '7d8a502691d2c72e',
    "('np', 'row_u1', 3, [2, 0], 3, 'xr')": 'e1aab54dd1aa53be',
    "('np', 'row_u1', 3, [2, 0], 4, 'df')": '3a07efe87ee3982d',
    "('np', 'row_u1', 3, [2, 0], 4, 'xr')": 'cb090659f2ea7147',
    "('np', 'row_u1', 3, [2, 0], 5, 'df')": '3b3b28d9519d31fd',
    "('np', 'row_u1', 3, [2, 0], 5, 'xr')": 'be34b0306b7d62f0',
    "('np', 'row_u1', 3, [2, 0], 'custom', 'df')": 'e4e7f6f1d853feb5',
    "('np', 'row_u1', 3, [2, 0], 'custom', 'xr')": '00bf83721fe49921',
    "('np', 'row_u1', 'defaults')": '60f6abc7c1c597ce',
    "('da', 'row_u1', (1, 4), None, None, 0)": '213bf118e373808b',
    "('da', 'row_u1', (1, 4), None, None, 2)": '2a90e718ac92cfdc',
    "('da', 'row_u1', (1, 4), None, [2, 0], 0)": 'd2ba5f0b0c4ea973',
    "('da', 'row_u1', (1, 4), None, [2, 0], 3)": '9ce7a3e7afd8e013',
    "('da', 'row_u1', (1, 4), 3, None, 0)": '213bf118e373808b',
    "('da', 'row_u1', (1, 4), 3, None, 4)": 'e11173b95fc7e6bc',
    "('da', 'row_u1', (1, 4), 3, [2, 0], 0)": 'd2ba5f0b0c4ea973',
    "('da', 'row_u1', (1, 4), 3, [2, 0], 5)": '143ce413d69f70e2',
    "('da', 'row_u1', (1, 4), 'defaults')": '213bf118e373808b',
    "('da', 'row_u1', 'rechunk')": '883e59c18b0c86e2',
    "('np', 'col_f8', None, None, 0, 'df')": '81e146a26b70e09e',
    "('np', 'col_f8', None, None, 0, 'xr')": '8f3437aea6c420a8',
    "('np', 'col_f8', None, None, 1, 'df')": 'ec77fd1dc9b14777',
    "('np', 'col_f8', None, None, 1, 'xr')": '3c760c1cff433c33',
    "('np', 'col_f8', None, None, 2, 'df')": 'b2827357fa12591c',
    "('np', 'col_f8', None, None, 2, 'xr')": 'f6db0c9d2596bf63',
    "('np', 'col_f8', None, None, 3, 'df')": '3779b50aaab09721',
    "('np', 'col_f8', None, None, 3, 'xr')": '90874c5a9dda1234',
    "('np', 'col_f8', None, None, 4, 'df')": '80d64981befe86e1',
    "('np', 'col_f8', None, None, 4, 'xr')": 'a5129887a3993944',
    "('np', 'col_f8', None, None, 5, 'df')": '8a2c8dee1cf4ee19',
    "('np', 'col_f8', None, None, 5, 'xr')": 'b298e0fa059884f2',
    "('np', 'col_f8', None, None, 'custom', 'df')": '5479a764c56abeca',
    "('np', 'col_f8', None, None, 'custom', 'xr')": '799af04ee2d15d5e',
    "('np', 'col_f8', None, [12], 0, 'df')": 'c983011ced045ab3',
    "('np', 'col_f8', None, [12], 0, 'xr')": '6ed95a75af339c9b',
    "('np', 'col_f8', None, [12], 1, 'df')": '8b76cae6a11351a0',
    "('np', 'col_f8', None, [12], 1, 'xr')": 'af11d0115207d1be',
    "('np', 'col_f8', None, [12], 2, 'df')": 'eca5e424cfcb0776',
    "('np', 'col_f8', None, [12], 2, 'xr')": '685a039ac8df1d23',
    "('np', 'col_f8', None, [12], 3, 'df')": '0ee0f7ec7de688f6',
    "('np', 'col_f8', None, [12], 3, 'xr')": 'f9de6f6e2149d67a',
    "('np', 'col_f8', None, [12], 4, 'df')": 'b321bd36cb9c485c',
    "('np', 'col_f8', None, [12], 4, 'xr')": 'cfb46090e144c983',
    "('np', 'col_f8', None, [12], 5, 'df')": '0ab24104cfe5fd1e',
    "('np', 'col_f8', None, [12], 5, 'xr')": '1629f4313c406faf',
    "('np', 'col_f8', None, [12], 'custom', 'df')": '20c246a7703efee7',
    "('np', 'col_f8', None, [12], 'custom', 'xr')": '3857a36544a2b050',
    "('np', 'col_f8', 'defaults')": '81e146a26b70e09e',
    "('da', 'col_f8', (5, 1), None, None, 0)": '0c06e278d0ba0d1c',
    "('da', 'col_f8', (5, 1), None, None, 2)": '7e2caaa10e01c294',
    "('da', 'col_f8', (5, 1), None, [12], 0)": '72312b97abf6138d',
    "('da', 'col_f8', (5, 1), None, [12], 3)": '605773394a56d800',
    "('da', 'col_f8', (5, 1), 'defaults')": '0c06e278d0ba0d1c',
    "('da', 'col_f8', 'rechunk')": '04d8cd821107dce8',
    "('np', 'one_cell', None, None, 0, 'df')": 'eef1ea60ac2a5b09',
    "('np', 'one_cell', None, None, 0, 'xr')": '952ac5b1b3330d5e',
    "('np', 'one_cell', None, None, 1, 'df')": '4d0dcc19866dc2b9',
    "('np', 'one_cell', None, None, 1, 'xr')": '54c21d0f2afc4681',
    "('np', 'one_cell', None, None, 2, 'df')": '50b7d44aa2fb169d',
    "('np', 'one_cell', None, None, 2, 'xr')": '2c30459085258026',
    "('np', 'one_cell', None, None, 3, 'df')": '49e9cfd1f326149b',
    "('np', 'one_cell', None, None, 3, 'xr')": '0d4af7d805b0aa30',
    "('np', 'one_cell', None, None, 4, 'df')": '08dfd4542f70a402',
    "('np', 'one_cell', None, None, 4, 'xr')": 'e2eb67b8262c4ead',
    "('np', 'one_cell', None, None, 5, 'df')": '46f6f3a1edb8852e',
    "('np', 'one_cell', None, None, 5, 'xr')": 'aab7b517ea636f3b',
    "('np', 'one_cell', None, None, 'custom', 'df')": '2d61f2d2ad2bf1f7',
    "('np', 'one_cell', None, None, 'custom', 'xr')": '157150035701cecc',
    "('np', 'one_cell', None, [4], 0, 'df')": 'aa9e344bb044e8a9',
    "('np', 'one_cell', None, [4], 0, 'xr')": '952ac5b1b3330d5e',
    "('np', 'one_cell', None, [4], 1, 'df')": '94969903bf4fdc65',
    "('np', 'one_cell', None, [4], 1, 'xr')": '54c21d0f2afc4681',
    "('np', 'one_cell', None, [4], 2, 'df')": '0cee1350bd658b80',
    "('np', 'one_cell', None, [4], 2, 'xr')": '2c30459085258026',
    "('np', 'one_cell', None, [4], 3, 'df')": '6ab96b4dea77f3f8',
    "('np', 'one_cell', None, [4], 3, 'xr')": '0d4af7d805b0aa30',
    "('np', 'one_cell', None, [4], 4, 'df')": '89c22ee8efcdfb7e',
    "('np', 'one_cell', None, [4], 4, 'xr')": 'e2eb67b8262c4ead',
    "('np', 'one_cell', None, [4], 5, 'df')": '70284f2594993627',
    "('np', 'one_cell', None, [4], 5, 'xr')": 'aab7b517ea636f3b',
    "('np', 'one_cell', None, [4], 'custom', 'df')": '95c1bc46624a4e4b',
    "('np', 'one_cell', None, [4], 'custom', 'xr')": '157150035701cecc',
    "('np', 'one_cell', None, [5], 0, 'df')": 'c45e9aa7bfc40dcb',
    "('np', 'one_cell', None, [5], 0, 'xr')": 'f0fdf31776a59faa',
    "('np', 'one_cell', None, [5], 1, 'df')": 'e259c5ffd45bd3d8',
    "('np', 'one_cell', None, [5], 1, 'xr')": '30f5017583950f4c',
    "('np', 'one_cell', None, [5], 2, 'df')": '5e74bf587095224c',
    "('np', 'one_cell', None, [5], 2, 'xr')": 'c99a1bbc2659af53',
    "('np', 'one_cell', None, [5], 3, 'df')": '78cc73f22ecb5a82',
    "('np', 'one_cell', None, [5], 3, 'xr')": '6a303fad9fdd7db3',
    "('np', 'one_cell', None, [5], 4, 'df')": 'de67d0d09170cf24',
    "('np', 'one_cell', None, [5], 4, 'xr')": 'b525154b4a3344d6',
    "('np', 'one_cell', None, [5], 5, 'df')": '4b4062b4661a4d1f',
    "('np', 'one_cell', None, [5], 5, 'xr')": '11e1289736bc8c10',
    "('np', 'one_cell', None, [5], 'custom', 'df')": '2f560002af76dcbc',
    "('np', 'one_cell', None, [5], 'custom', 'xr')": 'cfc727fd1a199550',
    "('np', 'one_cell', 2.5, None, 0, 'df')": 'a52b06cb5f3bf574',
    "('np', 'one_cell', 2.5, None, 0, 'xr')": 'f0fdf31776a59faa',
    "('np', 'one_cell', 2.5, None, 1, 'df')": '337d5113ed50e13f',
    "('np', 'one_cell', 2.5, None, 1, 'xr')": '30f5017583950f4c',
    "('np', 'one_cell', 2.5, None, 2, 'df')": 'c462f44eace2c6a6',
    "('np', 'one_cell', 2.5, None, 2, 'xr')": 'c99a1bbc2659af53',
    "('np', 'one_cell', 2.5, None, 3, 'df')": '351915816e68322b',
    "('np', 'one_cell', 2.5, None, 3, 'xr')": '6a303fad9fdd7db3',
    "('np', 'one_cell', 2.5, None, 4, 'df')": '46ee6001cf0f2d9a',
    "('np', 'one_cell', 2.5, None, 4, 'xr')": 'b525154b4a3344d6',
    "('np', 'one_cell', 2.5, None, 5, 'df')": '70ec6e332516d716',
    "('np', 'one_cell', 2.5, None, 5, 'xr')": '11e1289736bc8c10',
    "('np', 'one_cell', 2.5, None, 'custom', 'df')": '281a36724f193996',
    "('np', 'one_cell', 2.5, None, 'custom', 'xr')": 'cfc727fd1a199550',
    "('np', 'one_cell', 2.5, [4], 0, 'df')": '8e662c2df2a5f79c',
    "('np', 'one_cell', 2.5, [4], 0, 'xr')": 'f0fdf31776a59faa',
    "('np', 'one_cell', 2.5, [4], 1, 'df')": 'dd5c749edeace36b',
    "('np', 'one_cell', 2.5, [4], 1, 'xr')": '30f5017583950f4c',
    "('np', 'one_cell', 2.5, [4], 2, 'df')": '8395531de4832fe2',
    "('np', 'one_cell', 2.5, [4], 2, 'xr')": 'c99a1bbc2659af53',
    "('np', 'one_cell', 2.5, [4], 3, 'df')": '326bb90414b29365',
    "('np', 'one_cell', 2.5, [4], 3, 'xr')": '6a303fad9fdd7db3',
    "('np', 'one_cell', 2.5, [4], 4, 'df')": '1a728761f50d3e35',
    "('np', 'one_cell', 2.5, [4], 4, 'xr')": 'b525154b4a3344d6',
    "('np', 'one_cell', 2.5, [4], 5, 'df')": '4df165799528759c',
    "('np', 'one_cell', 2.5, [4], 5, 'xr')": '11e1289736bc8c10',
    "('np', 'one_cell', 2.5, [4], 'custom', 'df')": 'a69196ff5ac68754',
    "('np', 'one_cell', 2.5, [4], 'custom', 'xr')": 'cfc727fd1a199550',
    "('np', 'one_cell', 2.5, [5], 0, 'df')": 'c45e9aa7bfc40dcb',
    "('np', 'one_cell', 2.5, [5], 0, 'xr')": 'f0fdf31776a59faa',
    "('np', 'one_cell', 2.5, [5], 1, 'df')": 'e259c5ffd45bd3d8',
    "('np', 'one_cell', 2.5, [5], 1, 'xr')": '30f5017583950f4c',
    "('np', 'one_cell', 2.5, [5], 2, 'df')": '5e74bf587095224c',
    "('np', 'one_cell', 2.5, [5], 2, 'xr')": 'c99a1bbc2659af53',
    "('np', 'one_cell', 2.5, [5], 3, 'df')": '78cc73f22ecb5a82',
    "('np', 'one_cell', 2.5, [5], 3, 'xr')": '6a303fad9fdd7db3',
    "('np', 'one_cell', 2.5, [5], 4, 'df')": 'de67d0d09170cf24',
    "('np', 'one_cell', 2.5, [5], 4, 'xr')": 'b525154b4a3344d6',
    "('np', 'one_cell', 2.5, [5], 5, 'df')": '4b4062b4661a4d1f',
    "('np', 'one_cell', 2.5, [5], 5, 'xr')": '11e1289736bc8c10',
    "('np', 'one_cell', 2.5, [5], 'custom', 'df')": '2f560002af76dcbc',
    "('np', 'one_cell', 2.5, [5], 'custom', 'xr')": 'cfc727fd1a199550',
    "('np', 'one_cell', 'defaults')": 'eef1ea60ac2a5b09',
    "('da', 'one_cell', (1, 1), None, None, 0)": '597cb8636a57f7bf',
    "('da', 'one_cell', (1, 1), None, None, 2)": '5a04c5d9c065a563',
    "('da', 'one_cell', (1, 1), None, [4], 0)": '597cb8636a57f7bf',
    "('da', 'one_cell', (1, 1), None, [4], 3)": '9470a0c456c50281',
    "('da', 'one_cell', (1, 1), 2.5, None, 0)": 'd6d7434ef82e6cc7',
    "('da', 'one_cell', (1, 1), 2.5, None, 4)": '8736c89ce50fada2',
    "('da', 'one_cell', (1, 1), 2.5, [4], 0)": 'd6d7434ef82e6cc7',
    "('da', 'one_cell', (1, 1), 2.5, [4], 5)": 'd7150084836c82e5',
    "('da', 'one_cell', (1, 1), 'defaults')": '597cb8636a57f7bf',
    "('da', 'one_cell', 'rechunk')": 'de810b0ff756319e',
    "('np', 'big_i8', None, None, 0, 'df')": '83ae78cf8d206e0b',
    "('np', 'big_i8', None, None, 0, 'xr')": 'ba20849dad7947fd',
    "('np', 'big_i8', None, None, 1, 'df')": '92239cbed97f3987',
    "('np', 'big_i8', None, None, 1, 'xr')": '2bdb70963ed08ff2',
    "('np', 'big_i8', None, None, 2, 'df')": 'c1867dbb0d704651',
    "('np', 'big_i8', None, None, 2, 'xr')": '7f9012d788d96e89',
    "('np', 'big_i8', None, None, 3, 'df')": 'ceee110ac600d043',
    "('np', 'big_i8', None, None, 3, 'xr')": 'e24a1568169a5fa1',
    "('np', 'big_i8', None, None, 4, 'df')": 'b78b26ebc34eb366',
    "('np', 'big_i8', None, None, 4, 'xr')": 'cd337f3d6d79e951',
    "('np', 'big_i8', None, None, 5, 'df')": '42dc3c32c6cddf10',
    "('np', 'big_i8', None, None, 5, 'xr')": '938dbf93a37ff61b',
    "('np', 'big_i8', None, None, 'custom', 'df')": 'fa2f28f2910b9b9f',
    "('np', 'big_i8', None, None, 'custom', 'xr')": 'ed0d1b04992f0b33',
    "('np', 'big_i8', None, [50, 10, 30], 0, 'df')": 'b48d98e0001a84c3',
    "('np', 'big_i8', None, [50, 10, 30], 0, 'xr')": 'cd87442f1f44fcb1',
    "('np', 'big_i8', None, [50, 10, 30], 1, 'df')": '6ee2c659b73dea84',
    "('np', 'big_i8', None, [50, 10, 30], 1, 'xr')": 'ecc6b8d1e49ff285',
    "('np', 'big_i8', None, [50, 10, 30], 2, 'df')": 'f66308e1b9b52d4b',
    "('np', 'big_i8', None, [50, 10, 30], 2, 'xr')": 'f3a65c25fce54cf6',
    "('np', 'big_i8', None, [50, 10, 30], 3, 'df')": 'f637b9f8094bd503',
    "('np', 'big_i8', None, [50, 10, 30], 3, 'xr')": '906f50209abaef9f',
    "('np', 'big_i8', None, [50, 10, 30], 4, 'df')": '4b88284027c20369',
    "('np', 'big_i8', None, [50, 10, 30], 4, 'xr')": '07f09801d7f1bf71',
    "('np', 'big_i8', None, [50, 10, 30], 5, 'df')": '23ace810e3828b70',
    "('np', 'big_i8', None, [50, 10, 30], 5, 'xr')": '05aff92235d4df03',
    "('np', 'big_i8', None, [50, 10, 30], 'custom', 'df')": '6c8af907f56736a0',
    "('np', 'big_i8', None, [50, 10, 30], 'custom', 'xr')": '8446a684fa1bac80',
    "('np', 'big_i8', None, [20, 15], 0, 'df')": '5d737fe1052bd8f4',
    "('np', 'big_i8', None, [20, 15], 0, 'xr')": '8d3a84150be44f9d',
    "('np', 'big_i8', None, [20, 15], 1, 'df')": '204a774b5b0c50d6',
    "('np', 'big_i8', None, [20, 15], 1, 'xr')": '46891f8bf6290a59',
    "('np', 'big_i8', None, [20, 15], 2, 'df')": '2e6630ed43315c30',
    "('np', 'big_i8', None, [20, 15], 2, 'xr')": '13a6061788ee29e5',
    "('np', 'big_i8', None, [20, 15], 3, 'df')": 'bae3ea4e92101dc8',
    "('np', 'big_i8', None, [20, 15], 3, 'xr')": '155c2ca07d44ee1a',
    "('np', 'big_i8', None, [20, 15], 4, 'df')": 'a0dbd6f6288de733',
    "('np', 'big_i8', None, [20, 15], 4, 'xr')": '6799a1f63ed68a30',
    "('np', 'big_i8', None, [20, 15], 5, 'df')": '8280b33ca53b25b4',
    "('np', 'big_i8', None, [20, 15], 5, 'xr')": '25546ee30906da87',
    "('np', 'big_i8', None, [20, 15], 'custom', 'df')": '5e8d9bab1e1fe315',
    "('np', 'big_i8', None, [20, 15], 'custom', 'xr')": '5aa32cd9c20eebf8',
    "('np', 'big_i8', 0, None, 0, 'df')": '6f2a145a2063c254',
    "('np', 'big_i8', 0, None, 0, 'xr')": 'd83c3424d8261aed',
    "('np', 'big_i8', 0, None, 1, 'df')": 'f641f666db5132a5',
    "('np', 'big_i8', 0, None, 1, 'xr')": '5e11e489a8c8b05e',
    "('np', 'big_i8', 0, None, 2, 'df')": '55ff5f0bbf015d6c',
    "('np', 'big_i8', 0, None, 2, 'xr')": '38b09072fa7e7931',
    "('np', 'big_i8', 0, None, 3, 'df')": '47a2402af31478c9',
    "('np', 'big_i8', 0, None, 3, 'xr')": '5ad236e22310c35e',
    "('np', 'big_i8', 0, None, 4, 'df')": '53863344f2a2f081',
    "('np', 'big_i8', 0, None, 4, 'xr')": 'd75cf91f5a6a54a5',
    "('np', 'big_i8', 0, None, 5, 'df')": 'f4c688aac7c3fab6',
    "('np', 'big_i8', 0, None, 5, 'xr')": '34acb1588e157c9a',
    "('np', 'big_i8', 0, None, 'custom', 'df')": '28743c12d6aed648',
    "('np', 'big_i8', 0, None, 'custom', 'xr')": '07a9b3157689ff5b',
    "('np', 'big_i8', 0, [50, 10, 30], 0, 'df')": '1ce8d5f0b30bbcc5',
    "('np', 'big_i8', 0, [50, 10, 30], 0, 'xr')": '9580baaccfff675d',
    "('np', 'big_i8', 0, [50, 10, 30], 1, 'df')": 'd0b5f13f80c23e7f',
    "('np', 'big_i8', 0, [50, 10, 30], 1, 'xr')": '3984199ad564fbbf',
    "('np', 'big_i8', 0, [50, 10, 30], 2, 'df')": 'e9f01898cbd4ee26',
    "('np', 'big_i8', 0, [50, 10, 30], 2, 'xr')": 'cb8aa64af9573018',
    "('np', 'big_i8', 0, [50, 10, 30], 3, 'df')": 'b6ea78397b31982b',
    "('np', 'big_i8', 0, [50, 10, 30], 3, 'xr')": '4e5bf9b592ea094f',
    "('np', 'big_i8', 0, [50, 10, 30], 4, 'df')": '064239e054ddfef1',
    "('np', 'big_i8', 0, [50, 10, 30], 4, 'xr')": '43550759aca4b144',
    "('np', 'big_i8', 0, [50, 10, 30], 5, 'df')": '9771ae80267cac1d',
    "('np', 'big_i8', 0, [50, 10, 30], 5, 'xr')": '8945202009fd6bbf',
    "('np', 'big_i8', 0, [50, 10, 30], 'custom', 'df')": '8d82d69050b67899',
    "('np', 'big_i8', 0, [50, 10, 30], 'custom', 'xr')": 'fb40f3656ddada2f',
    "('np', 'big_i8', 0, [20, 15], 0, 'df')": '9a28bf1f19ba5783',
    "('np', 'big_i8', 0, [20, 15], 0, 'xr')": '2eda150303199a2f',
    "('np', 'big_i8', 0, [20, 15], 1, 'df')": 'cb53fb72176c91cf',
    "('np', 'big_i8', 0, [20, 15], 1, 'xr')": '074ee89feacc5dd7',
    "('np', 'big_i8', 0, [20, 15], 2, 'df')": '6b6c4589c5aa9d9e',
    "('np', 'big_i8', 0, [20, 15], 2, 'xr')": '876d33129178e9f2',
    "('np', 'big_i8', 0, [20, 15], 3, 'df')": 'f98b8fc9c27fdf9e',
    "('np', 'big_i8', 0, [20, 15], 3, 'xr')": '53d1653281acc633',
    "('np', 'big_i8', 0, [20, 15], 4, 'df')": '7ca3adaf2ed310c0',
    "('np', 'big_i8', 0, [20, 15], 4, 'xr')": 'e1bf4e7a55750f68',
    "('np', 'big_i8', 0, [20, 15], 5, 'df')": 'b82e4b417e9d36da',
    "('np', 'big_i8', 0, [20, 15], 5, 'xr')": '5ec32db31f3f46c3',
    "('np', 'big_i8', 0, [20, 15], 'custom', 'df')": 'a0aacdd8ad5e340a',
    "('np', 'big_i8', 0, [20, 15], 'custom', 'xr')": '13d1fd7735a9b233',
    "('np', 'big_i8', 7, None, 0, 'df')": '3e5dbf8e8eb0afcd',
    "('np', 'big_i8', 7, None, 0, 'xr')": 'b783a283c1b1773a',
    "('np', 'big_i8', 7, None, 1, 'df')": 'c225d24f9798a69c',
    "('np', 'big_i8', 7, None, 1, 'xr')": '790ebfddcf6132a3',
    "('np', 'big_i8', 7, None, 2, 'df')": '533be4c946e6c647',
    "('np', 'big_i8', 7, None, 2, 'xr')": '33937ee45a4b6e4e',
    "('np', 'big_i8', 7, None, 3, 'df')": '7b78a9da943baa3c',
    "('np', 'big_i8', 7, None, 3, 'xr')": 'aba9f1b57090d7ab',
    "('np', 'big_i8', 7, None, 4, 'df')": '80e7c9c3d9edb833',
    "('np', 'big_i8', 7, None, 4, 'xr')": '5e030ddff2ccd583',
    "('np', 'big_i8', 7, None, 5, 'df')": '1369ecc4b8bcb482',
    "('np', 'big_i8', 7, None, 5, 'xr')": 'e54b7e560d63745a',
    "('np', 'big_i8', 7, None, 'custom', 'df')": '94e5a3f8db212eaa',
    "('np', 'big_i8', 7, None, 'custom', 'xr')": 'c2a5c0f5f95cdf0e',
    "('np', 'big_i8', 7, [50, 10, 30], 0, 'df')": 'cd254648c027dd28',
    "('np', 'big_i8', 7, [50, 10, 30], 0, 'xr')": 'dc7db38175b35d37',
    "('np', 'big_i8', 7, [50, 10, 30], 1, 'df')": '161fc130f83a8b54',
    "('np', 'big_i8', 7, [50, 10, 30], 1, 'xr')": 'f7e7d366702d3a3d',
    "('np', 'big_i8', 7, [50, 10, 30], 2, 'df')": 'e4fc70a71ae89b43',
    "('np', 'big_i8', 7, [50, 10, 30], 2, 'xr')": 'bbd9ec333474f7e8',
    "('np', 'big_i8', 7, [50, 10, 30], 3, 'df')": '21d3489283334c04',
    "('np', 'big_i8', 7, [50, 10, 30], 3, 'xr')": '4e39c1f01ad5a711',
    "('np', 'big_i8', 7, [50, 10, 30], 4, 'df')": '89266a684da1dabe',
    "('np', 'big_i8', 7, [50, 10, 30], 4, 'xr')": 'c57b8078bf757dd0',
    "('np', 'big_i8', 7, [50, 10, 30], 5, 'df')": 'e51d22a8f965d318',
    "('np', 'big_i8', 7, [50, 10, 30], 5, 'xr')": '1be462224deb7863',
    "('np', 'big_i8', 7, [50, 10, 30], 'custom', 'df')": 'febcdf9b3b4a6573',
    "('np', 'big_i8', 7, [50, 10, 30], 'custom', 'xr')": 'fd5a7c915dc33513',
    "('np', 'big_i8', 7, [20, 15], 0, 'df')": '75313a1101b6ea69',
    "('np', 'big_i8', 7, [20, 15], 0, 'xr')": 'b6adfcf72c03e57e',
    "('np', 'big_i8', 7, [20, 15], 1, 'df')": '0808cef408ff3b70',
    "('np', 'big_i8', 7, [20, 15], 1, 'xr')": 'cf59f0ec4aba2b7b',
    "('np', 'big_i8', 7, [20, 15], 2, 'df')": '6b3946370958861c',
    "('np', 'big_i8', 7, [20, 15], 2, 'xr')": 'ed4df1789c19e58a',
    "('np', 'big_i8', 7, [20, 15], 3, 'df')": '391071dfa42f7d09',
    "('np', 'big_i8', 7, [20, 15], 3, 'xr')": 'd1df53acd6cab761',
    "('np', 'big_i8', 7, [20, 15], 4, 'df')": '9863b47a79fb30e5',
    "('np', 'big_i8', 7, [20, 15], 4, 'xr')": '00900e534f9b5c9d',
    "('np', 'big_i8', 7, [20, 15], 5, 'df')": 'f63d60e226a6b526',
    "('np', 'big_i8', 7, [20, 15], 5, 'xr')": '575ff23a339b7c38',
    "('np', 'big_i8', 7, [20, 15], 'custom', 'df')": 'b8768e1057f39775',
    "('np', 'big_i8', 7, [20, 15], 'custom', 'xr')": 'd214ef31b14c015a',
    "('np', 'big_i8', 'defaults')": '83ae78cf8d206e0b',
    "('da', 'big_i8', (9, 12), None, None, 0)": 'c284a338aa330f48',
    "('da', 'big_i8', (9, 12), None, None, 2)": 'e3c97c6b2fdd4db3',
    "('da', 'big_i8', (9, 12), None, [50, 10, 30], 0)": '4491503928804ae2',
    "('da', 'big_i8', (9, 12), None, [50, 10, 30], 3)": 'f78dfcb15ba994f9',
    "('da', 'big_i8', (9, 12), 0, None, 0)": 'e304eb0aaac62008',
    "('da', 'big_i8', (9, 12), 0, None, 4)": 'c25333c9fbe72645',
    "('da', 'big_i8', (9, 12), 0, [50, 10, 30], 0)": '442a0bcdda03ca8e',
    "('da', 'big_i8', (9, 12), 0, [50, 10, 30], 5)": 'b20519e6962dd4dc',
    "('da', 'big_i8', (9, 12), 'defaults')": 'c284a338aa330f48',
    "('da', 'big_i8', (17, 8), None, None, 0)": 'c284a338aa330f48',
    "('da', 'big_i8', (17, 8), None, None, 1)": '55f9b14f201cacb3',
    "('da', 'big_i8', (17, 8), None, [50, 10, 30], 0)": '4491503928804ae2',
    "('da', 'big_i8', (17, 8), None, [50, 10, 30], 2)": '6513337aa32ae6eb',
    "('da', 'big_i8', (17, 8), 0, None, 0)": 'e304eb0aaac62008',
    "('da', 'big_i8', (17, 8), 0, None, 3)": '49946833a3a3d5fe',
    "('da', 'big_i8', (17, 8), 0, [50, 10, 30], 0)": '442a0bcdda03ca8e',
    "('da', 'big_i8', (17, 8), 0, [50, 10, 30], 4)": '282d45cd673fa5cc',
    "('da', 'big_i8', (17, 8), 'defaults')": 'c284a338aa330f48',
    "('da', 'big_i8', 'rechunk')": '54eb2bc186e9ce1d',
    "('np', 'all_nan_zones', None, None, 0, 'df')": 'c45e9aa7bfc40dcb',
    "('np', 'all_nan_zones', None, None, 0, 'xr')": '4b061fb4b5fb99fe',
    "('np', 'all_nan_zones', None, None, 1, 'df')": 'e259c5ffd45bd3d8',
    "('np', 'all_nan_zones', None, None, 1, 'xr')": 'd2958d1a2fde735a',
    "('np', 'all_nan_zones', None, None, 2, 'df')": '5e74bf587095224c',
    "('np', 'all_nan_zones', None, None, 2, 'xr')": '158733c5b315483b',
    "('np', 'all_nan_zones', None, None, 3, 'df')": '78cc73f22ecb5a82',
    "('np', 'all_nan_zones', None, None, 3, 'xr')": 'b0216afde2d79de0',
    "('np', 'all_nan_zones', None, None, 4, 'df')": 'de67d0d09170cf24',
    "('np', 'all_nan_zones', None, None, 4, 'xr')": '8b368ffc295652f9',
    "('np', 'all_nan_zones', None, None, 5, 'df')": '4b4062b4661a4d1f',
    "('np', 'all_nan_zones', None, None, 5, 'xr')": '15acabff90f2a621',
    "('np', 'all_nan_zones', None, None, 'custom', 'df')": '2f560002af76dcbc',
    "('np', 'all_nan_zones', None, None, 'custom', 'xr')": '55215aaa46311865',
    "('np', 'all_nan_zones', None, [1], 0, 'df')": 'c45e9aa7bfc40dcb',
    "('np', 'all_nan_zones', None, [1], 0, 'xr')": '4b061fb4b5fb99fe',
    "('np', 'all_nan_zones', None, [1], 1, 'df')": 'e259c5ffd45bd3d8',
    "('np', 'all_nan_zones', None, [1], 1, 'xr')": 'd2958d1a2fde735a',
    "('np', 'all_nan_zones', None, [1], 2, 'df')": '5e74bf587095224c',
    "('np', 'all_nan_zones', None, [1], 2, 'xr')": '158733c5b315483b',
    "('np', 'all_nan_zones', None, [1], 3, 'df')": '78cc73f22ecb5a82',
    "('np', 'all_nan_zones', None, [1], 3, 'xr')": 'b0216afde2d79de0',
    "('np', 'all_nan_zones', None, [1], 4, 'df')": 'de67d0d09170cf24',
    "('np', 'all_nan_zones', None, [1], 4, 'xr')": '8b368ffc295652f9',
    "('np', 'all_nan_zones', None, [1], 5, 'df')": '4b4062b4661a4d1f',
    "('np', 'all_nan_zones', None, [1], 5, 'xr')": '15acabff90f2a621',
    "('np', 'all_nan_zones', None, [1], 'custom', 'df')": '2f560002af76dcbc',
    "('np', 'all_nan_zones', None, [1], 'custom', 'xr')": '55215aaa46311865',
    "('np', 'all_nan_zones', 'defaults')": 'c45e9aa7bfc40dcb',
    "('da', 'all_nan_zones', (2, 2), None, None, 0)": '8ef68415b7e0b909',
    "('da', 'all_nan_zones', (2, 2), None, None, 2)": '32278748c0ae8eea',
    "('da', 'all_nan_zones', (2, 2), None, [1], 0)": 'EXC:ValueError:No objects to concatenate',
    "('da', 'all_nan_zones', (2, 2), None, [1], 3)": 'EXC:ValueError:No objects to concatenate',
    "('da', 'all_nan_zones', (2, 2), 'defaults')": '8ef68415b7e0b909',
    "('da', 'all_nan_zones', 'rechunk')": '92367bce052c882e',
    "('arg', 'shape')": 'EXC:ValueError:input arrays must have equal shapes',
    "('arg', 'type_mix')": 'EXC:ValueError:input arrays must have same type',
    "('arg', 'type_mix2')": 'EXC:ValueError:input arrays must have same type',
    "('arg', 'zones_bool')": 'EXC:ValueError:`zones` must be an array of integers or floats.',
    "('arg', 'values_bool')": 'EXC:ValueError:`values` must be an array of integers or floats.',
    "('arg', 'both_bool')": 'EXC:ValueError:`zones` must be an array of integers or floats.',
    "('arg', 'zones_complex')": 'EXC:ValueError:`zones` must be an array of integers or floats.',
    "('arg', 'values_str')": 'EXC:ValueError:`values` must be an array of integers or floats.',
    "('arg', 'zones_bool_badstat')": 'EXC:ValueError:`zones` must be an array of integers or floats.',
    "('arg', 'values_bool_dask_dict')": 'EXC:ValueError:`values` must be an array of integers or floats.',
    "('arg', 'dask_dict')": 'EXC:ValueError:Got dask-backed DataArray as `values` aggregate. `stats_funcs` must be a subset ',
    "('arg', 'dask_tuple')": 'EXC:ValueError:Got dask-backed DataArray as `values` aggregate. `stats_funcs` must be a subset ',
    "('arg', 'dask_badstat')": 'EXC:ValueError:Invalid stat name. nope option not supported.',
    "('arg', 'badstat')": 'EXC:ValueError:Invalid stat name. median option not supported.',
    "('arg', 'badstat_first')": 'EXC:ValueError:Invalid stat name. nope option not supported.',
    "('arg', 'tuple_stats')": "EXC:UnboundLocalError:cannot access local variable 'stats_funcs_dict' where it is not associated with ",
    "('arg', 'str_stats')": "EXC:UnboundLocalError:cannot access local variable 'stats_funcs_dict' where it is not associated with ",
    "('arg', 'none_stats')": "EXC:UnboundLocalError:cannot access local variable 'stats_funcs_dict' where it is not associated with ",
    "('arg', 'empty_list')": '587733885efdb6c4',
    "('arg', 'empty_dict')": '587733885efdb6c4',
    "('arg', 'dict_noncallable')": "EXC:TypeError:'int' object is not callable",
    "('arg', 'shape_and_bool')": 'EXC:ValueError:input arrays must have equal shapes',
    "('arg', 'bad_return_type')": 'b0267e1aa4b37180',
    "('arg', 'dask_xr_return')": 'EXC:ValueError:different number of dimensions on data and dims: 2 vs 3',
    "('arg', 'dup_stats')": 'c66748e7f04224ca',
    "('arg', 'zone_ids_tuple')": '04cb8ef37297bab5',
    "('arg', 'zone_ids_array')": '3c5b354fda775fdb',
    "('arg', 'zone_ids_array_xr')": '37fda8da8227685b',
    "('arg', 'numpy_inputs')": "EXC:AttributeError:'memoryview' object has no attribute 'dtype'",
    "('arg', 'no_mutation')": '3149575c23b38f24',
    "('arg', 'signature')": '1506573ed8ff98e1',
    "('ct', 'small_f8', None, None, 'count')": '2326a49508edca32',
    "('ctda', 'small_f8', None, None, 'count')": 'd14ebb511d3e69d1',
    "('ct', 'small_f8', None, None, 'percentage')": '2327a31cf3d22941',
    "('ctda', 'small_f8', None, None, 'percentage')": '82763fe8d63f048f',
    "('ct', 'small_f8', None, [4, 0], 'count')": '427368f7649c7fac',
    "('ctda', 'small_f8', None, [4, 0], 'count')": 'f341c078bb1bfa22',
    "('ct', 'small_f8', None, [4, 0], 'percentage')": 'd73bb3a24427413a',
    "('ctda', 'small_f8', None, [4, 0], 'percentage')": '445054a6e9df1f5a',
    "('ct', 'small_f8', 0, None, 'count')": 'e5ed78739405f08b',
    "('ctda', 'small_f8', 0, None, 'count')": 'c3dbd351a5672a5c',
    "('ct', 'small_f8', 0, None, 'percentage')": '5f3fe9659e59bc65',
    "('ctda', 'small_f8', 0, None, 'percentage')": 'a5a0ec6412faf476',
    "('ct', 'small_f8', 0, [4, 0], 'count')": '16ec8de7f0a049ba',
    "('ctda', 'small_f8', 0, [4, 0], 'count')": 'e52313322910a9b8',
    "('ct', 'small_f8', 0, [4, 0], 'percentage')": '6cc8d6a703ac8bd7',
    "('ctda', 'small_f8', 0, [4, 0], 'percentage')": 'bf86f6afd51c8f62',
    "('ct', 'int_neg', None, None, 'count')": '1e6015825b8be948',
    "('ctda', 'int_neg', None, None, 'count')": '46aa40211592f27c',
    "('ct', 'int_neg', None, None, 'percentage')": '214f92ed3e224b40',
    "('ctda', 'int_neg', None, None, 'percentage')": '984da4bc033eeb01',
    "('ct', 'int_neg', None, [3, -3, 0], 'count')": '8e74f210025b0d0d',
    "('ctda', 'int_neg', None, [3, -3, 0], 'count')": 'fc16864b2be08ee8',
    "('ct', 'int_neg', None, [3, -3, 0], 'percentage')": '9292f662b6acc856',
    "('ctda', 'int_neg', None, [3, -3, 0], 'percentage')": 'b6253b1be20ba2e3',
    "('ct', 'int_neg', 0, None, 'count')": '2d5842f10fb92d07',
    "('ctda', 'int_neg', 0, None, 'count')": '1213ae1e9ef1ab9a',
    "('ct', 'int_neg', 0, None, 'percentage')": '53ad9d62314cb6e5',
    "('ctda', 'int_neg', 0, None, 'percentage')": 'dd5145addc545777',
    "('ct', 'int_neg', 0, [3, -3, 0], 'count')": '881573da0046ca5a',
    "('ctda', 'int_neg', 0, [3, -3, 0], 'count')": 'b2ac42e2e4a179af',
    "('ct', 'int_neg', 0, [3, -3, 0], 'percentage')": '2a1eb9738665277d',
    "('ctda', 'int_neg', 0, [3, -3, 0], 'percentage')": '13f1a680e35f42ed',
    "('ct', 'big_i8', None, None, 'count')": 'c4c741283e602097',
    "('ctda', 'big_i8', None, None, 'count')": '8320e16153766144',
    "('ct', 'big_i8', None, None, 'percentage')": 'd0c253d372400eab',
    "('ctda', 'big_i8', None, None, 'percentage')": 'cc4e96650b9efcb7',
    "('ct', 'big_i8', None, [50, 10, 30], 'count')": 'ba2b4ee3723bb8c7',
    "('ctda', 'big_i8', None, [50, 10, 30], 'count')": '47e49e04e82f1cb8',
    "('ct', 'big_i8', None, [50, 10, 30], 'percentage')": 'fabbc6f93b4dd82f',
    "('ctda', 'big_i8', None, [50, 10, 30], 'percentage')": '8554fc1e28160bfa',
    "('ct', 'big_i8', 0, None, 'count')": '83c59b3dcd081559',
    "('ctda', 'big_i8', 0, None, 'count')": '74a7d0094029580c',
    "('ct', 'big_i8', 0, None, 'percentage')": 'e9d820b7c37a3200',
    "('ctda', 'big_i8', 0, None, 'percentage')": '6c303422f7c0edd6',
    "('ct', 'big_i8', 0, [50, 10, 30], 'count')": 'e00474c9715034ea',
    "('ctda', 'big_i8', 0, [50, 10, 30], 'count')": '8b652e199cef21ae',
    "('ct', 'big_i8', 0, [50, 10, 30], 'percentage')": '501dc2afabe3a405',
    "('ctda', 'big_i8', 0, [50, 10, 30], 'percentage')": '4a68a0ea0d16f949',
    "('ct', 'empty_zone', None, None, 'count')": '3b3b408be6ea9475',
    "('ctda', 'empty_zone', None, None, 'count')": 'cd163281d825fb6d',
    "('ct', 'empty_zone', None, None, 'percentage')": '93b72613b929e010',
    "('ctda', 'empty_zone', None, None, 'percentage')": 'e3436ac982ef0aec',
    "('ct', 'empty_zone', None, [2, 3], 'count')": 'e47c68a2128a684c',
    "('ctda', 'empty_zone', None, [2, 3], 'count')": '0f45b7def26ba737',
    "('ct', 'empty_zone', None, [2, 3], 'percentage')": '739b9b7e02a38d18',
    "('ctda', 'empty_zone', None, [2, 3], 'percentage')": '9adbcf34c9975132',
    "('ct', 'empty_zone', -9999, None, 'count')": '203727438015feca',
    "('ctda', 'empty_zone', -9999, None, 'count')": '197f3441d89bfa7a',
    "('ct', 'empty_zone', -9999, None, 'percentage')": '8663194e8188c7f7',
    "('ctda', 'empty_zone', -9999, None, 'percentage')": '6b385841f97926a8',
    "('ct', 'empty_zone', -9999, [2, 3], 'count')": '2bdaf59ef2e1f7f8',
    "('ctda', 'empty_zone', -9999, [2, 3], 'count')": 'b16832b20be8f7ab',
    "('ct', 'empty_zone', -9999, [2, 3], 'percentage')": '870c344acd062ab5',
    "('ctda', 'empty_zone', -9999, [2, 3], 'percentage')": 'd0d54c7cd0adde3f',
    "('ct3', 'min')": 'e6171ef2df8c363c',
    "('ct3', 'max')": 'faf6d7f688dffea9',
    "('ct3', 'mean')": '014182197f7f89cf',
    "('ct3', 'sum')": '75d32030fc26a99e',
    "('ct3', 'std')": '7ad6b828f94eae32',
    "('ct3', 'var')": '17d8545e5ddc7aa7',
    "('ct3', 'count')": 'a54b62e4a65b51ae',
}

ALL_STATS = ['mean', 'max', 'min', 'sum', 'std', 'var', 'count']


# ----------------------------------------------------------------- digest
def _h(*parts):
    m = hashlib.sha256()
    for p in parts:
        if isinstance(p, np.ndarray):
            m.update(str(p.dtype).encode())
            m.update(str(p.shape).encode())
            if p.dtype == object:
                m.update(repr(p.tolist()).encode())
            else:
                m.update(np.ascontiguousarray(p).tobytes())
        else:
            m.update(repr(p).encode())
        m.update(b'|')
    return m.hexdigest()[:16]


def digest(res):
    if hasattr(res, 'compute') and not isinstance(res, xr.DataArray):
        kind = type(res).__module__.split('.')[0] + '.' + type(res).__name__
        res = res.compute()
        return _h(kind, digest(res))
    if isinstance(res, pd.DataFrame):
        parts = ['df', [str(c) for c in res.columns],
                 [type(c).__name__ for c in res.columns],
                 np.asarray(res.index)]
        for c in res.columns:
            parts.append(np.asarray(res[c]))
        return _h(*parts)
    if isinstance(res, xr.DataArray):
        parts = ['xr', res.dims, sorted(res.attrs.items()), type(res.data).__name__,
                 np.asarray(res.data)]
        for k in res.coords:
            parts += [str(k), np.asarray(res.coords[k].values)]
        return _h(*parts)
    if isinstance(res, np.ndarray):
        return _h('np', res)
    return _h('obj', res)


def run(fn):
    try:
        return digest(fn())
    except BaseException as e:  # noqa
        return 'EXC:%s:%s' % (type(e).__name__, str(e)[:80])


# ----------------------------------------------------------------- inputs
def make_inputs():
    rng = np.random.RandomState(20240)
    out = {}

    z = np.array([[0, 0, 1, 1, 2, 2, 4, 4],
                  [0, 0, 1, 1, 2, 2, 4, 4],
                  [0, 0, 1, 1, 2, np.nan, 4, 4]], dtype=np.float64)
    v = np.array([[0, 0, 1, 1, 2, 2, 4, 4],
                  [0, 0, 1, 1, 2, 2, 4, 4],
                  [0, 0, 1, 1, 2, 2, np.nan, np.inf]], dtype=np.float64)
    out['small_f8'] = (z, v)

    # integer zones with negative ids, interleaved, int values
    z = rng.randint(-3, 4, size=(7, 5)).astype(np.int64)
    v = rng.randint(-10, 11, size=(7, 5)).astype(np.int32)
    out['int_neg'] = (z, v)

    # fractional and negative ids, nan / +-inf zone cells, float32 values
    z = rng.choice(np.array([-2.5, -0.5, 0.0, 0.25, 3.0, 7.75]), size=(6, 9))
    z[0, 0] = np.nan
    z[2, 3] = np.inf
    z[3, 1] = -np.inf
    z[5, 8] = np.nan
    v = rng.uniform(-5, 5, size=(6, 9)).astype(np.float32)
    v[1, 1] = np.nan
    v[4, 4] = np.inf
    v[0, 5] = -np.inf
    out['frac_f4'] = (z, v)

    # a zone made only of invalid cells
    z = np.array([[1, 1, 2, 2, 3],
                  [1, 1, 2, 2, 3],
                  [5, 5, 5, 9, 9]], dtype=np.float32)
    v = np.array([[1.5, 2.5, np.nan, np.nan, -9999],
                  [3.5, -9999, np.nan, np.inf, -9999],
                  [7.0, 8.0, 9.0, 1.0, 2.0]], dtype=np.float64)
    out['empty_zone'] = (z, v)

    # odd shapes
    z = rng.randint(0, 3, size=(1, 11)).astype(np.int16)
    v = rng.randint(0, 100, size=(1, 11)).astype(np.uint8)
    out['row_u1'] = (z, v)
    z = rng.randint(10, 13, size=(13, 1)).astype(np.uint8)
    v = rng.uniform(0, 1, size=(13, 1)).astype(np.float64)
    out['col_f8'] = (z, v)
    z = np.array([[4]], dtype=np.int32)
    v = np.array([[2.5]], dtype=np.float64)
    out['one_cell'] = (z, v)

    # larger random, int64 values with a nodata sentinel
    z = rng.randint(0, 6, size=(17, 23)).astype(np.float64) * 10
    z[rng.uniform(size=z.shape) < 0.05] = np.nan
    v = rng.randint(0, 8, size=(17, 23)).astype(np.int64)
    out['big_i8'] = (z, v)

    # all-nan zones
    z = np.full((3, 4), np.nan)
    v = np.arange(12, dtype=np.float64).reshape(3, 4)
    out['all_nan_zones'] = (z, v)
    return out


NODATA = {
    'small_f8': [None, 0, 4.0],
    'int_neg': [None, 0, -10],
    'frac_f4': [None, 0],
    'empty_zone': [None, -9999],
    'row_u1': [None, 3],
    'col_f8': [None],
    'one_cell': [None, 2.5],
    'big_i8': [None, 0, 7],
    'all_nan_zones': [None],
}

ZONE_IDS = {
    'small_f8': [None, [4, 0], [1, 3, 99], []],
    'int_neg': [None, [3, -3, 0], [-1], [2, 2, 100]],
    'frac_f4': [None, [7.75, -2.5, 0.25], [1.0], [3]],
    'empty_zone': [None, [2, 3], [9, 1]],
    'row_u1': [None, [2, 0]],
    'col_f8': [None, [12]],
    'one_cell': [None, [4], [5]],
    'big_i8': [None, [50, 10, 30], [20, 15]],
    'all_nan_zones': [None, [1]],
}

# the dask path costs ~0.3 s per block and statistic: keep the block count small
CHUNKS = {
    'small_f8': [(3, 8), (2, 4), (2, 3)],
    'int_neg': [(7, 5), (4, 3)],
    'frac_f4': [(3, 9), (4, 5)],
    'empty_zone': [(2, 3)],
    'row_u1': [(1, 4)],
    'col_f8': [(5, 1)],
    'one_cell': [(1, 1)],
    'big_i8': [(9, 12), (17, 8)],
    'all_nan_zones': [(2, 2)],
}

STAT_SUBSETS = [
    ALL_STATS,
    ['count'],
    ['max', 'min'],
    ['var', 'mean'],
    ['std'],
    ['sum', 'count', 'max'],
]

CUSTOM = {
    'double_sum': lambda a: a.sum() * 2,
    'range': lambda a: a.max() - a.min(),
    'n': lambda a: len(a),
    'median': lambda a: np.median(a),
}


def xa(arr, dask_chunks=None, name=None):
    data = arr if dask_chunks is None else da.from_array(arr, chunks=dask_chunks)
    r = xr.DataArray(
        data, dims=('y', 'x'),
        coords={'y': np.arange(arr.shape[0])[::-1] * 2.0, 'x': np.arange(arr.shape[1]) + 0.5},
        attrs={'res': 1, 'crs': 'x'},
    )
    if name:
        r.name = name
    return r


# ----------------------------------------------------------------- oracle
_ORACLE = dict(
    mean=lambda a: a.mean(), max=lambda a: a.max(), min=lambda a: a.min(),
    sum=lambda a: a.sum(), std=lambda a: a.std(), var=lambda a: a.var(),
    count=lambda a: a.size,
)


def _rtol(v):
    return 1e-5 if v.dtype == np.float32 else 1e-10


def oracle_rows(z, v, zone_ids, funcs, nodata):
    zf = z.ravel()
    vf = v.ravel()
    ids = sorted(set(float(t) for t in zf[np.isfinite(zf)]))
    if zone_ids is not None:
        ids = [i for i in ids if any(i == q for q in zone_ids)]
    rows = []
    for i in ids:
        cells = vf[zf == i]
        if cells.dtype == np.float32:
            cells = cells.astype(np.float64)
        ok = np.isfinite(cells)
        if nodata is not None:
            ok &= cells != nodata
        cells = cells[ok]
        rows.append([i] + [funcs[k](cells) if cells.size else np.nan for k in funcs])
    return ids, rows


def check_oracle(tag, z, v, zone_ids, names, nodata, failures):
    funcs = {k: _ORACLE[k] for k in names}
    df = stats(xa(z), xa(v), zone_ids=zone_ids, stats_funcs=list(names), nodata_values=nodata)
    ids, rows = oracle_rows(z, v, zone_ids, funcs, nodata)
    if list(df.columns) != ['zone'] + list(names):
        failures.append((tag, 'columns', list(df.columns)))
        return
    got = np.asarray(df, dtype=np.float64).reshape(len(df), 1 + len(names))
    exp = np.asarray(rows, dtype=np.float64).reshape(len(rows), 1 + len(names))
    if got.shape != exp.shape or not np.allclose(got, exp, rtol=_rtol(v), atol=1e-12, equal_nan=True):
        failures.append((tag, 'oracle-df', got.tolist(), exp.tolist()))
        return
    # raster form
    ra = stats(xa(z), xa(v), zone_ids=zone_ids, stats_funcs=list(names), nodata_values=nodata,
               return_type='xarray.DataArray')
    exp_r = np.full((len(names),) + z.shape, np.nan)
    for r, i in zip(rows, ids):
        for k in range(len(names)):
            exp_r[k][z == i] = r[1 + k]
    if ra.shape != exp_r.shape or not np.allclose(ra.values, exp_r, rtol=_rtol(v), atol=1e-12,
                                                  equal_nan=True):
        failures.append((tag, 'oracle-raster'))


# ----------------------------------------------------------------- cases
def cases():
    inputs = make_inputs()
    light = FOCUS  # every focus runs everything; kept for readability
    for name, (z, v) in inputs.items():
        for nd in NODATA[name]:
            for zi in ZONE_IDS[name]:
                for si, names in enumerate(STAT_SUBSETS):
                    tag = ('np', name, nd, zi, si)
                    yield tag + ('df',), (lambda z=z, v=v, nd=nd, zi=zi, names=names: stats(
                        xa(z), xa(v), zone_ids=zi, stats_funcs=list(names), nodata_values=nd))
                    yield tag + ('xr',), (lambda z=z, v=v, nd=nd, zi=zi, names=names: stats(
                        zones=xa(z, name='zz'), values=xa(v, name='vv'), zone_ids=zi,
                        stats_funcs=list(names), nodata_values=nd,
                        return_type='xarray.DataArray'))
                # user reducers (dict)
                yield ('np', name, nd, zi, 'custom', 'df'), (
                    lambda z=z, v=v, nd=nd, zi=zi: stats(xa(z), xa(v), zi, dict(CUSTOM), nd))
                yield ('np', name, nd, zi, 'custom', 'xr'), (
                    lambda z=z, v=v, nd=nd, zi=zi: stats(
                        xa(z), xa(v), zi, dict(CUSTOM), nd, 'xarray.DataArray'))
        # default arguments
        yield ('np', name, 'defaults'), (lambda z=z, v=v: stats(xa(z), xa(v)))
        # dask
        k = 0
        for ch in CHUNKS[name]:
            for nd in NODATA[name][:2]:
                for zi in ZONE_IDS[name][:2]:
                    k += 1
                    for si in (0, 1 + k % (len(STAT_SUBSETS) - 1)):
                        names = STAT_SUBSETS[si]
                        yield ('da', name, ch, nd, zi, si), (
                            lambda z=z, v=v, nd=nd, zi=zi, names=names, ch=ch: stats(
                                xa(z, ch), xa(v, ch), zone_ids=zi, stats_funcs=list(names),
                                nodata_values=nd))
            yield ('da', name, ch, 'defaults'), (
                lambda z=z, v=v, ch=ch: stats(xa(z, ch), xa(v, ch)))
        # mismatching chunks: values are rechunked like zones
        ch = CHUNKS[name][-1]
        yield ('da', name, 'rechunk'), (
            lambda z=z, v=v, ch=ch: stats(xa(z, ch), xa(v, z.shape), stats_funcs=['sum', 'count']))

    # argument errors and their precedence
    z, v = inputs['small_f8']
    zi8, vi8 = inputs['int_neg']
    bad = {
        'shape': lambda: stats(xa(z), xa(v[:, :4])),
        'type_mix': lambda: stats(xa(z, (2, 3)), xa(v)),
        'type_mix2': lambda: stats(xa(z), xa(v, (2, 3))),
        'zones_bool': lambda: stats(xa(z > 1), xa(v)),
        'values_bool': lambda: stats(xa(z), xa(v > 1)),
        'both_bool': lambda: stats(xa(z > 1), xa(v > 1)),
        'zones_complex': lambda: stats(xa(z.astype(complex)), xa(v)),
        'values_str': lambda: stats(xa(z), xa(v.astype(str))),
        'zones_bool_badstat': lambda: stats(xa(z > 1), xa(v), stats_funcs=['nope']),
        'values_bool_dask_dict': lambda: stats(xa(z, (2, 3)), xa(v > 1, (2, 3)),
                                               stats_funcs=dict(CUSTOM)),
        'dask_dict': lambda: stats(xa(z, (2, 3)), xa(v, (2, 3)), stats_funcs=dict(CUSTOM)),
        'dask_tuple': lambda: stats(xa(z, (2, 3)), xa(v, (2, 3)), stats_funcs=('mean',)),
        'dask_badstat': lambda: stats(xa(z, (2, 3)), xa(v, (2, 3)), stats_funcs=['mean', 'nope']),
        'badstat': lambda: stats(xa(z), xa(v), stats_funcs=['mean', 'median', 'nope']),
        'badstat_first': lambda: stats(xa(z), xa(v), stats_funcs=['nope', 'median']),
        'tuple_stats': lambda: stats(xa(z), xa(v), stats_funcs=('mean',)),
        'str_stats': lambda: stats(xa(z), xa(v), stats_funcs='mean'),
        'none_stats': lambda: stats(xa(z), xa(v), stats_funcs=None),
        'empty_list': lambda: stats(xa(z), xa(v), stats_funcs=[]),
        'empty_dict': lambda: stats(xa(z), xa(v), stats_funcs={}),
        'dict_noncallable': lambda: stats(xa(z), xa(v), stats_funcs={'a': 3}),
        'shape_and_bool': lambda: stats(xa(z > 1), xa(v[:, :4])),
        'bad_return_type': lambda: stats(xa(z), xa(v), return_type='nope'),
        'dask_xr_return': lambda: stats(xa(z, (2, 3)), xa(v, (2, 3)),
                                        return_type='xarray.DataArray'),
        'dup_stats': lambda: stats(xa(zi8), xa(vi8), stats_funcs=['sum', 'sum', 'min']),
        'zone_ids_tuple': lambda: stats(xa(zi8), xa(vi8), zone_ids=(1, -1)),
        'zone_ids_array': lambda: stats(xa(zi8), xa(vi8), zone_ids=np.array([2, 0])),
        'zone_ids_array_xr': lambda: stats(xa(zi8), xa(vi8), zone_ids=np.array([2, 0]),
                                           return_type='xarray.DataArray'),
        'numpy_inputs': lambda: stats(z, v),
    }
    for k, fn in bad.items():
        yield ('arg', k), fn

    # the dict given by the caller is not modified, the default list neither
    def _no_mutation():
        d = dict(CUSTOM)
        keys = list(d)
        stats(xa(z), xa(v), stats_funcs=d)
        lst = ['mean', 'count']
        stats(xa(z), xa(v), stats_funcs=lst)
        import inspect
        dflt = inspect.signature(stats).parameters['stats_funcs'].default
        return np.array([list(d) == keys, lst == ['mean', 'count'], dflt == ALL_STATS])
    yield ('arg', 'no_mutation'), _no_mutation

    def _signature():
        import inspect
        return str(inspect.signature(stats))
    yield ('arg', 'signature'), _signature

    # crosstab shares _sort_and_stride/_strides with stats
    for name in ('small_f8', 'int_neg', 'big_i8', 'empty_zone'):
        z, v = inputs[name]
        for nd in NODATA[name][:2]:
            for zi in ZONE_IDS[name][:2]:
                for agg in ('count', 'percentage'):
                    yield ('ct', name, nd, zi, agg), (
                        lambda z=z, v=v, nd=nd, zi=zi, agg=agg: crosstab(
                            xa(z), xa(v), zone_ids=zi, nodata_values=nd, agg=agg))
                    ch = CHUNKS[name][-1]
                    yield ('ctda', name, nd, zi, agg), (
                        lambda z=z, v=v, nd=nd, zi=zi, agg=agg, ch=ch: crosstab(
                            xa(z, ch), xa(v, ch), zone_ids=zi, nodata_values=nd, agg=agg))
    # 3D crosstab (values_by_zones 2D branch of _sort_and_stride)
    rng = np.random.RandomState(7)
    z = rng.randint(0, 4, size=(5, 6)).astype(np.float64)
    z[1, 1] = np.nan
    v3 = rng.uniform(0, 9, size=(3, 5, 6))
    v3[0, 2, 2] = np.nan
    for agg in ('min', 'max', 'mean', 'sum', 'std', 'var', 'count'):
        def _ct3(agg=agg):
            zz = xr.DataArray(z, dims=('y', 'x'))
            vv = xr.DataArray(v3, dims=('b', 'y', 'x'), coords={'b': ['p', 'q', 'r']})
            return crosstab(zz, vv, layer=0, agg=agg)
        yield ('ct3', agg), _ct3


def main():
    assert '/tmp/t5/TC02/' in xrspatial.__file__, xrspatial.__file__
    record = '--record' in sys.argv
    got = {}
    for tag, fn in cases():
        got[repr(tag)] = run(fn)
    if record:
        print('EXPECTED = {')
        for k in got:
            print('    %r: %r,' % (k, got[k]))
        print('}')
        return 0

    failures = []
    if set(got) != set(EXPECTED):
        failures.append(('case set differs', len(got), len(EXPECTED)))
    for k, d in got.items():
        if EXPECTED.get(k) != d:
            failures.append((k, d, EXPECTED.get(k)))

    # brute-force oracle on the numpy backend
    inputs = make_inputs()
    n_oracle = 0
    for name, (z, v) in inputs.items():
        for nd in NODATA[name]:
            for zi in ZONE_IDS[name]:
                for names in STAT_SUBSETS:
                    check_oracle((name, nd, zi, tuple(names)), z, v, zi, names, nd, failures)
                    n_oracle += 1

    n_exc = sum(1 for d in got.values() if d.startswith('EXC:'))
    print('focus: %s; xrspatial from %s' % (FOCUS, xrspatial.__file__))
    print('digest cases: %d (of which raising: %d), oracle cases: %d, failures: %d'
          % (len(got), n_exc, n_oracle, len(failures)))
    for f in failures[:20]:
        print('FAIL', f)
    return 1 if failures else 0


if __name__ == '__main__':
    sys.exit(main())
