"""Differential test for property C09 (focal / convolution / hotspots).

Runs the public focal functions on a deterministic battery of inputs and
compares every result (dtype, shape, raw bytes) with digests recorded from
the unmodified tree, plus a few independent pure-numpy reference checks.

    python equiv.py            -> exit 0 if identical, 1 otherwise
    python equiv.py --record   -> print the digest table (used once, on the
                                  unmodified tree, to fill RECORDED below)
    python equiv.py --ref-only -> only the (fast) independent reference checks
    python equiv.py --dump     -> additionally print every per-case digest
"""
import hashlib
import sys
import warnings

import dask
import dask.array as da
import numpy as np
import xarray as xr

import xrspatial
from xrspatial import focal
from xrspatial.convolution import (annulus_kernel, circle_kernel, convolution_2d, convolve_2d,
                                   custom_kernel)
from xrspatial.utils import ngjit

warnings.filterwarnings('ignore')
dask.config.set(scheduler='synchronous')  # deterministic and much cheaper for tiny chunks

# digests recorded from the unmodified tree (python equiv.py --record)
RECORDED = {
    'apply|allnan_4x5': '6d235b41b2fc11a14d0fa3aa',
    'apply|const_4x4': '5eaecf9bf0334e2abda5aa36',
    'apply|f32nan_5x7': '81149efd149ebcef2c01549d',
    'apply|f32nan_9x2': 'e3bdf0abc92ae427ce38f098',
    'apply|f64_5x7': 'f559f1e494a8126f52c0f352',
    'apply|f64_9x2': 'c8c225583aa6cb33d485d5be',
    'apply|f64nan_1x9': '5146da300fd7516254865403',
    'apply|f64nan_3x3': 'e44f58ce2b45fe5bee1f4ff6',
    'apply|f64nan_5x7': '2f0607281a0ca56a16bc18d7',
    'apply|f64nan_8x6': '496746630bf709e05709c71e',
    'apply|f64nan_9x2': '6d552dfefaf7f973eab28b22',
    'apply|i32_1x9': '86e749bf44ed64d6913317d0',
    'apply|i32_3x3': 'f11427ecbf0b01430e622333',
    'apply|i32_5x7': 'e01ab9e4ee679c3a7928a5b5',
    'apply|i32_8x6': '944f0bfa741045f56ed20f4c',
    'apply|i32_9x2': 'e2f5d66042974d6c7f864fe0',
    'apply|i64_5x7': '00c0fb2a7a5f5e3d060eada6',
    'apply|i64_9x2': 'b776aa59168c97415b963535',
    'apply|spikes_12x14': 'ccde20e039c95e54c6661eb6',
    'apply|spikes_i_12x14': '96faa9315d3ffe8a85ea7370',
    'apply|u8_5x7': '5b27d1e3f385930f40941f06',
    'apply|u8_9x2': 'a84e6fcce37c4a8240262b5d',
    'conv2da|allnan_4x5': 'd5512ef3c1df525981d3ad44',
    'conv2da|const_4x4': 'c96b8226706925c235c38f43',
    'conv2da|f32nan_5x7': 'e0e94d8014f4f5d80d3f929f',
    'conv2da|f32nan_9x2': '1951be1354b6a8ed6c16952e',
    'conv2da|f64_5x7': 'c69929b0745319dae7e91e1c',
    'conv2da|f64_9x2': 'd2e8549b02a02372009996fa',
    'conv2da|f64nan_1x9': '3db4755baaf22c041e1baeb7',
    'conv2da|f64nan_3x3': '6bf9fd0081bfee4f28facddf',
    'conv2da|f64nan_5x7': 'c6782ff2b6cbead02b76196b',
    'conv2da|f64nan_8x6': '779b88638ac9ccf4e3250d3d',
    'conv2da|f64nan_9x2': 'bdcbacb809c1ef62a0e87b84',
    'conv2da|i32_1x9': 'd373d4737984b43749c2bfbe',
    'conv2da|i32_3x3': 'eb586be64ed9b2daa36fc737',
    'conv2da|i32_5x7': '1108867f81bd86c541c7a6f8',
    'conv2da|i32_8x6': '38af7e9d1718ab97f828c403',
    'conv2da|i32_9x2': '36ea339cbf593b5021928503',
    'conv2da|i64_5x7': 'f0af35f91e94862c652e7ec5',
    'conv2da|i64_9x2': '746ba9a2098c86bd99874ec4',
    'conv2da|spikes_12x14': '6c1bb98f9d1862370a59a63f',
    'conv2da|spikes_i_12x14': '4c2959a96da2075d5ed49f4a',
    'conv2da|u8_5x7': 'ae12a5f3175fa1a309ad3d71',
    'conv2da|u8_9x2': '5b30558cba2eaa81f3c1c660',
    'conv2|allnan_4x5': 'f568528bf333f3b8a4c4c668',
    'conv2|const_4x4': '1dad54e657bc911f67a968da',
    'conv2|f32nan_5x7': 'e123984aeeda55caa4748eb7',
    'conv2|f32nan_9x2': 'f7afbbbe063178b2dde3e03f',
    'conv2|f64_5x7': 'e45ff60e81601771923306de',
    'conv2|f64_9x2': '35a0d7f1d1c48c2a336a7eac',
    'conv2|f64nan_1x9': '0d548e746a2b119e959ef1fd',
    'conv2|f64nan_3x3': '819247916351c9efc58cfc89',
    'conv2|f64nan_5x7': '1f85ae4e5a64e498451082b9',
    'conv2|f64nan_8x6': 'a61f4e03f15e4198cef6ffe4',
    'conv2|f64nan_9x2': '23daf815558d402f67b65108',
    'conv2|i32_1x9': '83bd6c48c7cd9b620bf7169a',
    'conv2|i32_3x3': '9ab6b682fa8319ed184d08ad',
    'conv2|i32_5x7': 'e9e9a848fb3bfe41140cb6a4',
    'conv2|i32_8x6': 'e4fa951507e785c8ab7fb29c',
    'conv2|i32_9x2': 'f38552dca408a9ba86ba9b81',
    'conv2|i64_5x7': '619186f6a0e9b0e2bb5c57d0',
    'conv2|i64_9x2': 'b8f4015b74422f70516857bc',
    'conv2|spikes_12x14': '3a1d4ac0249d5537b36a3c80',
    'conv2|spikes_i_12x14': 'e353da8f84303493d21e3400',
    'conv2|u8_5x7': 'd11ddfd5014e348815bc1b17',
    'conv2|u8_9x2': '4b568266bf0de8aeb268073c',
    'conv|allnan_4x5': '5677229450cbbee44dbb9dff',
    'conv|const_4x4': 'a4367c26d810e2b165e7357c',
    'conv|f32nan_5x7': 'a1ac8a9097ea9f48dd326cb5',
    'conv|f32nan_9x2': '5952c5c45cc65d0dca57d899',
    'conv|f64_5x7': 'be626ac13adb24be1ae128c5',
    'conv|f64_9x2': 'b669b3f326c39eec004045d8',
    'conv|f64nan_1x9': '2a30d55c3f3df05ee1b8d7a7',
    'conv|f64nan_3x3': 'ee99da2a6f32d15ab25b84e2',
    'conv|f64nan_5x7': '935fd94c0e402e5769036109',
    'conv|f64nan_8x6': '01aaa08e62bb6c28f6e49571',
    'conv|f64nan_9x2': '783bdef9372b77e1498bbf06',
    'conv|i32_1x9': '4d8d02146646bd131fa98cde',
    'conv|i32_3x3': '50348f68839876cf990254ba',
    'conv|i32_5x7': 'f9c544b3b320f50a552d59cb',
    'conv|i32_8x6': '94b946268f04aa5b2a92d6b6',
    'conv|i32_9x2': '7bf4632adf90d514bc0741aa',
    'conv|i64_5x7': 'd15d17f4d0ec97a3c9a9c199',
    'conv|i64_9x2': '2d3fbe0af671cff638621331',
    'conv|spikes_12x14': '6ec4779f6ba60111c96570ac',
    'conv|spikes_i_12x14': '4487a65a056b5953b71f5752',
    'conv|u8_5x7': 'c7667c21886f82b8de15eed8',
    'conv|u8_9x2': 'f8d814b26d09771a3652fccc',
    'errk|apply': '091476fc2fd686accf2f9132',
    'errk|conv': '112ac8a0786443c5c9505287',
    'errk|custom': '928212d036d1f5efcdf9c930',
    'errk|hot': '93a60ac9030eeaa8e54ea701',
    'errk|stats': '83dab4ae33e071e3c1afeb08',
    'err|apply': '881a6983d2fb2381e8ad461b',
    'err|conv': '7a5e91d41153b528dc570e57',
    'err|hot': '05d1cd3c83b5f265c51540a1',
    'err|mean': 'cce8581b4b8004031f753a9d',
    'err|stats': '3da867e2cec4af5d25750939',
    'hotbig|0': 'f075afe4049f8d9a852b0ff1',
    'hotbig|1': '9c62713083710c108ee816e8',
    'hotbig|2': 'aff3315cc3debfad0ed7336c',
    'hotneg|allnan_4x5': 'd81e4af34c39a47124cc4d16',
    'hotneg|const_4x4': '70e3e86881b692b9061c1073',
    'hotneg|f32nan_5x7': '2d51dcd2f02d4d96f502a09c',
    'hotneg|f32nan_9x2': '3b1d084e482ea262745cae1a',
    'hotneg|f64_5x7': '6294a945c98bd3777c9daae7',
    'hotneg|f64_9x2': 'f58e9c503aef729e06593108',
    'hotneg|f64nan_1x9': '6f8f0859ec88ebc2a7727035',
    'hotneg|f64nan_3x3': '13920cd5277c10ccbfe26d59',
    'hotneg|f64nan_5x7': '2d3a49430f442ff868174126',
    'hotneg|f64nan_8x6': '70eff6139e6f711fa004be20',
    'hotneg|f64nan_9x2': 'c1fb6dece41c447610f08a67',
    'hotneg|i32_1x9': '8d49cdcd9f5291423ac8d178',
    'hotneg|i32_3x3': '690416884017eb80178085d9',
    'hotneg|i32_5x7': 'fdce898d1f487ee1bd4a30d3',
    'hotneg|i32_8x6': '287b24f3ae2ed3e7552bdbad',
    'hotneg|i32_9x2': 'df883477ffefd0f14a8766d8',
    'hotneg|i64_5x7': '0d29bff743ee7dffc3f486e0',
    'hotneg|i64_9x2': '20516339f7f9292eaca4c2c7',
    'hotneg|spikes_12x14': '3964b4d36f2f72ca1d88edca',
    'hotneg|spikes_i_12x14': '9a33e4318b78e512a59c4b7b',
    'hot|allnan_4x5': 'b0d077f2e580d8439569ba30',
    'hot|const_4x4': 'cdb24bae9044168112653cc5',
    'hot|f32nan_5x7': 'cc6a7199e32ba1fa8a928cf7',
    'hot|f32nan_9x2': '60c05e39db13e429095890fa',
    'hot|f64_5x7': '7e29c790220c37db2b157625',
    'hot|f64_9x2': '4b570c96e005d956a2af7cb0',
    'hot|f64nan_1x9': '3303a4c49a4b1d4e9583f867',
    'hot|f64nan_3x3': 'eadd834ff089095d87fd39e9',
    'hot|f64nan_5x7': 'f4bcd41ad5de05f178abba61',
    'hot|f64nan_8x6': 'dd7f1643a7f3717ebf42142d',
    'hot|f64nan_9x2': 'c5e95a4219ceda05677ff787',
    'hot|i32_1x9': '4f4d0b1223f55d3279f021ac',
    'hot|i32_3x3': 'd5da1ed0b7a9a74f57c7170f',
    'hot|i32_5x7': 'f2e4b6106aed6803022aa526',
    'hot|i32_8x6': 'a82e4f1cefe29f9827902043',
    'hot|i32_9x2': 'a6c3efa84d77078b031a8aa7',
    'hot|i64_5x7': 'ecab60d21f922f52d7c6c15e',
    'hot|i64_9x2': '28ec4b4395d3725ed2d52f37',
    'hot|spikes_12x14': '2f3f31ebb618e7a11addddee',
    'hot|spikes_i_12x14': '7de6a27e920e12e60de15605',
    'hot|u8_5x7': 'ca33b12adb168f51398eb13a',
    'hot|u8_9x2': '02be1059fcf6230aeaacf24b',
    'mean|allnan_4x5': '08c4b33e5d9040b1ea4a2955',
    'mean|const_4x4': '4c01175be39eda9c6b42d5f6',
    'mean|f32nan_5x7': 'a92296347b1e4f4eaf36f1b4',
    'mean|f32nan_9x2': 'fb673711f1576f4f47d92380',
    'mean|f64_5x7': '55dc1cf58c9887cfcbf15e2d',
    'mean|f64_9x2': '86ca156474e9d2404291c65d',
    'mean|f64nan_1x9': '20f1ee2be5023623f6eb55d6',
    'mean|f64nan_3x3': 'b8445a3497b12a202b304252',
    'mean|f64nan_5x7': 'aebdfc8b997495494c115951',
    'mean|f64nan_8x6': '53073622f6127ddc5776abf3',
    'mean|f64nan_9x2': '533a6abd306e608cedd07f9c',
    'mean|i32_1x9': '12b2f0b0fc6c20f9ed44c31e',
    'mean|i32_3x3': '8bbe10af6499909dcfc8e9eb',
    'mean|i32_5x7': '53e481e17e60411854375df4',
    'mean|i32_8x6': '785cf0bc0acaffefde13b378',
    'mean|i32_9x2': '8ecf66f46f8e076f83bd72fd',
    'mean|i64_5x7': '2a2a1cceb57c2ea73d5f155e',
    'mean|i64_9x2': 'b93cd38175b2c710aff62b93',
    'mean|spikes_12x14': '09aab189104744a8176928d5',
    'mean|spikes_i_12x14': '95847a66241b1cc7777966f9',
    'mean|u8_5x7': '1bd126a9b23f2fec43e5f462',
    'mean|u8_9x2': '94cade94d5e261729421b097',
    'stats|allnan_4x5': 'd4ec6df001ed2961e6906957',
    'stats|badstat': 'f9af5f140f9d33c8d6cfe2f1',
    'stats|const_4x4': '510eaf922c0f6c40654a523c',
    'stats|empty': '4927cb1c5ea206380079e0e9',
    'stats|f32nan_5x7': 'e274090b86a51cdcd30d3788',
    'stats|f32nan_9x2': '95e1a4627002af3787454a22',
    'stats|f64_5x7': '0822c20552c8ad739a5250f7',
    'stats|f64_9x2': 'e34578dacb05a4d66b629325',
    'stats|f64nan_1x9': '6110ad2bbd0bdee0d79637dd',
    'stats|f64nan_3x3': 'ae582119d83e23d46d426f35',
    'stats|f64nan_5x7': 'e176b1ed2fcc25a909e60be3',
    'stats|f64nan_8x6': '0fb73e2925a518fc28ad2646',
    'stats|f64nan_9x2': 'b401b261da6e8e50ef52c977',
    'stats|i32_1x9': 'cfeb7073dc0c9f9d6c0bc3f4',
    'stats|i32_3x3': 'fcd8b6a4be3b4f8923471ff7',
    'stats|i32_5x7': '939cc1172ec50c62fbdbc873',
    'stats|i32_8x6': '66018e3794c619fc961e633a',
    'stats|i32_9x2': '77513ee3e64bb730f9fdc3f8',
    'stats|i64_5x7': '3b3252088e7453ad7d97bd9f',
    'stats|i64_9x2': 'c568ddfea31656f5ea565861',
    'stats|spikes_12x14': '2e840280fb97c5e2825005f1',
    'stats|spikes_i_12x14': 'add747b67d249db5b3566113',
    'stats|u8_5x7': '713d2bca8474c3a0c7f1209d',
    'stats|u8_9x2': 'ca6642fda7d7e63b87b46891',
}


# ----------------------------------------------------------------------------
# helpers
# ----------------------------------------------------------------------------
def digest(arr):
    arr = np.ascontiguousarray(np.asarray(arr))
    h = hashlib.sha256()
    h.update(str(arr.dtype).encode())
    h.update(str(arr.shape).encode())
    h.update(arr.tobytes())
    return h.hexdigest()[:20]


def run(fn):
    """Return digest of the (computed) result or the exception type name."""
    try:
        res = fn()
        if isinstance(res, xr.DataArray):
            data = res.data
            name = res.name
            if isinstance(data, da.Array) and name == data.name:
                name = '<dask token>'  # xarray borrows the (random) dask name
            extra = '|'.join([str(name), str(res.dims), str(sorted(res.attrs.items())),
                              type(res.data).__module__.split('.')[0]])
            if isinstance(data, da.Array):
                extra += '|' + str(data.dtype) + str(data.chunks)
                data = data.compute()
            if 'stats' in res.coords:
                extra += '|' + ','.join(map(str, res.coords['stats'].values))
            return digest(data) + ':' + hashlib.sha256(extra.encode()).hexdigest()[:8]
        if isinstance(res, da.Array):
            return 'da:' + digest(res.compute())
        return digest(res)
    except Exception as e:  # noqa
        return 'EXC:' + type(e).__name__


def make_rasters():
    rng = np.random.default_rng(20240909)
    out = {}
    shapes = [(5, 7), (8, 6), (3, 3), (1, 9), (9, 2)]
    for shape in shapes:
        base = rng.normal(0, 50, size=shape)
        nanmask = rng.random(shape) < 0.2
        f64_nan = base.copy()
        f64_nan[nanmask] = np.nan
        out['f64nan_%dx%d' % shape] = f64_nan
        out['i32_%dx%d' % shape] = rng.integers(-20, 20, size=shape).astype(np.int32)
        if shape in ((5, 7), (9, 2)):
            out['f64_%dx%d' % shape] = base.copy()
            out['f32nan_%dx%d' % shape] = f64_nan.astype(np.float32)
            out['i64_%dx%d' % shape] = rng.integers(0, 5, size=shape).astype(np.int64)
            out['u8_%dx%d' % shape] = rng.integers(0, 255, size=shape).astype(np.uint8)
    spikes = np.zeros((12, 14))
    spikes[2:5, 2:5] = 1000.
    spikes[8:11, 9:13] = -1000.
    spikes[6, 6] = np.nan
    out['spikes_12x14'] = spikes
    out['spikes_i_12x14'] = np.nan_to_num(spikes).astype(np.int64)
    out['const_4x4'] = np.full((4, 4), 3.0)
    out['allnan_4x5'] = np.full((4, 5), np.nan)
    return out


def make_kernels():
    rng = np.random.default_rng(7)
    ks = {
        'full3': np.ones((3, 3)),
        'cross3': np.array([[0, 1, 0], [1, 1, 1], [0, 1, 0]], dtype=float),
        'row_110': np.array([[1, 1, 0]]),
        'col_011': np.array([[0], [1], [1]]),
        'one1': np.array([[1.0]]),
        'asym5x3': (rng.random((5, 3)) < 0.5).astype(np.int64),
        'asym3x5': (rng.random((3, 5)) < 0.6).astype(float),
        'asym7x5': (rng.random((7, 5)) < 0.4).astype(np.int32),
        'full5x7': np.ones((5, 7)),
        'circle3': circle_kernel(1, 1, 3),
        'circle_1_2_3': circle_kernel(1, 2, 3),
        'annulus': annulus_kernel(1, 1, 3, 1),
        'zeros3': np.zeros((3, 3)),
        'nocentre': np.array([[1, 0, 0], [0, 0, 0], [0, 0, 1]], dtype=float),
    }
    return ks


def make_weighted_kernels():
    rng = np.random.default_rng(11)
    return {
        'w3': rng.normal(size=(3, 3)),
        'w3x5': rng.normal(size=(3, 5)).astype(np.float32),
        'w5x1': rng.integers(-3, 4, size=(5, 1)),
        'sobel': np.array([[1, 0, -1], [2, 0, -2], [1, 0, -1]]),
        'w7': rng.random((7, 7)),
        'nan_w': np.array([[0.5, np.nan, 0.5]]),
    }


@ngjit
def red_weighted(w):
    s = 0.0
    n = 0
    for i in range(w.shape[0]):
        for j in range(w.shape[1]):
            if not np.isnan(w[i, j]):
                s += w[i, j] * (1 + i * w.shape[1] + j)
                n += 1
    return s - n


@ngjit
def red_count(w):
    n = 0
    for v in w.flat:
        if not np.isnan(v):
            n += 1
    return n


@ngjit
def red_first(w):
    # depends on the exact position of values inside the window
    return w[0, 0]


REDUCERS = {
    'default': None,
    'mean': focal._calc_mean, 'sum': focal._calc_sum, 'min': focal._calc_min,
    'max': focal._calc_max, 'std': focal._calc_std, 'range': focal._calc_range,
    'var': focal._calc_var,
    'weighted': red_weighted, 'count': red_count, 'first': red_first,
}


def wrap(arr, dask_chunks=None, with_coords=False):
    data = arr if dask_chunks is None else da.from_array(arr, chunks=dask_chunks)
    kw = dict(dims=['y', 'x'], attrs={'res': (1, 1), 'tag': 'T'}, name='src')
    agg = xr.DataArray(data, **kw)
    if with_coords:
        agg['y'] = np.linspace(arr.shape[0] - 1, 0, arr.shape[0])
        agg['x'] = np.linspace(0, arr.shape[1] - 1, arr.shape[1])
    return agg


def backends(arr):
    yield 'np', wrap(arr, with_coords=True)
    yield 'da', wrap(arr, (max(1, arr.shape[0] // 2 + 1), max(1, arr.shape[1] // 2)))
    yield 'da1', wrap(arr, arr.shape)


# ----------------------------------------------------------------------------
# the battery
# ----------------------------------------------------------------------------
def collect():
    R = {}
    rasters = make_rasters()
    kernels = make_kernels()
    wkernels = make_weighted_kernels()

    # --- focal.apply -------------------------------------------------------
    for rn, arr in rasters.items():
        for kn, k in kernels.items():
            for bn, agg in backends(arr):
                if bn == 'da1' and kn not in ('cross3', 'asym5x3'):
                    continue
                if bn == 'da' and kn not in ('cross3', 'row_110', 'col_011', 'asym5x3', 'asym3x5',
                                             'full5x7', 'nocentre', 'one1'):
                    continue
                red_names = ['default', 'weighted', 'first']
                if bn == 'np' and arr.dtype == np.float64 and k.dtype == np.float64:
                    red_names = list(REDUCERS)  # (limits the number of numba compilations)
                for fn in red_names:
                    key = 'apply|%s|%s|%s|%s' % (rn, kn, bn, fn)
                    if REDUCERS[fn] is None:
                        R[key] = run(lambda: focal.apply(agg, k))
                    else:
                        R[key] = run(lambda: focal.apply(agg, k, REDUCERS[fn], name='nm'))

    # --- focal.focal_stats --------------------------------------------------
    for rn, arr in rasters.items():
        for kn in ('full3', 'cross3', 'row_110', 'asym5x3', 'asym3x5', 'circle3', 'nocentre'):
            for bn, agg in backends(arr):
                if bn == 'da1':
                    continue
                R['stats|%s|%s|%s|all' % (rn, kn, bn)] = run(
                    lambda: focal.focal_stats(agg, kernels[kn]))
                R['stats|%s|%s|%s|sub' % (rn, kn, bn)] = run(
                    lambda: focal.focal_stats(agg, kernels[kn], stats_funcs=['sum', 'min', 'sum']))
    R['stats|badstat'] = run(lambda: focal.focal_stats(wrap(rasters['f64_5x7']), kernels['full3'],
                                                       stats_funcs=['median']))
    R['stats|empty'] = run(lambda: focal.focal_stats(wrap(rasters['f64_5x7']), kernels['full3'],
                                                     stats_funcs=[]))

    # --- focal.mean -----------------------------------------------------------
    excl = {'nan': [np.nan], 'nan0': [np.nan, 0.0], 'three': [3.0], 'default': None,
            'ints': [0, 1], 'empty': []}
    for rn, arr in rasters.items():
        for bn, agg in backends(arr):
            for passes in ((0, 1, 2, 4) if bn != 'da1' else (1, 2)):
                for en, ex in excl.items():
                    key = 'mean|%s|%s|p%d|%s' % (rn, bn, passes, en)
                    if en == 'empty' and rn != 'f64nan_5x7':
                        continue  # numba cannot type an empty tuple: one raster is enough
                    if ex is None:
                        R[key] = run(lambda: focal.mean(agg, passes=passes))
                    else:
                        R[key] = run(lambda: focal.mean(agg, passes, ex, name='m'))

    # --- convolution ------------------------------------------------------------
    allk = dict(kernels)
    allk.update(wkernels)
    for rn, arr in rasters.items():
        for kn, k in allk.items():
            for bn, agg in backends(arr):
                if bn == 'da1' and kn not in ('w3', 'w5x1', 'asym3x5'):
                    continue
                R['conv|%s|%s|%s' % (rn, kn, bn)] = run(lambda: convolution_2d(agg, k))
            R['conv2|%s|%s' % (rn, kn)] = run(lambda: convolve_2d(arr, k))
            R['conv2da|%s|%s' % (rn, kn)] = run(
                lambda: convolve_2d(da.from_array(arr, chunks=(3, 3)), k))

    # --- hotspots -----------------------------------------------------------------
    for rn, arr in rasters.items():
        for kn in ('full3', 'cross3', 'row_110', 'col_011', 'one1', 'asym5x3', 'asym3x5',
                   'circle3', 'annulus', 'nocentre', 'zeros3'):
            for bn, agg in backends(arr):
                if bn == 'da1' and kn not in ('cross3', 'row_110'):
                    continue
                R['hot|%s|%s|%s' % (rn, kn, bn)] = run(lambda: focal.hotspots(agg, kernels[kn]))
                if arr.dtype.kind != 'u':
                    R['hotneg|%s|%s|%s' % (rn, kn, bn)] = run(
                        lambda: focal.hotspots(-agg, kernels[kn]))
    # scaled rasters so that every confidence class shows up
    rng = np.random.default_rng(5)
    for i, scale in enumerate((1, 3, 10)):
        arr = rng.normal(size=(20, 20)) ** 3 * scale
        arr[rng.random(arr.shape) < 0.05] = np.nan
        for kn in ('one1', 'row_110', 'cross3', 'full3'):
            for bn, agg in backends(arr):
                R['hotbig|%d|%s|%s' % (i, kn, bn)] = run(lambda: focal.hotspots(agg, kernels[kn]))

    # --- validation / error behaviour ------------------------------------------------
    good = wrap(rasters['f64_5x7'])
    k3 = kernels['full3']
    bad_inputs = {
        'ndarray': rasters['f64_5x7'],
        '3d': xr.DataArray(np.zeros((2, 3, 3))),
        '1d': xr.DataArray(np.zeros(5)),
        'bool': xr.DataArray(np.zeros((4, 4), dtype=bool)),
        'str': xr.DataArray(np.array([['a', 'b'], ['c', 'd']])),
    }
    bad_kernels = {
        'even': np.ones((2, 3)), 'even2': np.ones((3, 4)), 'list': [[1, 1, 1]],
        '1dk': np.ones(3), 'none': None,
    }
    for bn, b in bad_inputs.items():
        for kn, k in [('k3', k3)] + list(bad_kernels.items()):
            R['err|apply|%s|%s' % (bn, kn)] = run(lambda: focal.apply(b, k))
            R['err|stats|%s|%s' % (bn, kn)] = run(lambda: focal.focal_stats(b, k))
            R['err|hot|%s|%s' % (bn, kn)] = run(lambda: focal.hotspots(b, k))
            R['err|conv|%s|%s' % (bn, kn)] = run(lambda: convolution_2d(b, k))
        R['err|mean|%s' % bn] = run(lambda: focal.mean(b))
    for kn, k in bad_kernels.items():
        R['errk|apply|%s' % kn] = run(lambda: focal.apply(good, k))
        R['errk|stats|%s' % kn] = run(lambda: focal.focal_stats(good, k))
        R['errk|hot|%s' % kn] = run(lambda: focal.hotspots(good, k))
        R['errk|conv|%s' % kn] = run(lambda: convolution_2d(good, k))
        R['errk|custom|%s' % kn] = run(lambda: custom_kernel(k))
    R['err|hot|const'] = run(lambda: focal.hotspots(wrap(rasters['const_4x4']), k3))
    R['err|hot|const_da'] = run(
        lambda: focal.hotspots(wrap(rasters['const_4x4'], (2, 2)), k3))
    R['err|hot|allnan'] = run(lambda: focal.hotspots(wrap(rasters['allnan_4x5']), k3))
    return R


# ----------------------------------------------------------------------------
# independent pure-numpy references (tolerant, the digests are the exact check)
# ----------------------------------------------------------------------------
def ref_apply(arr, kernel, stat):
    arr = arr.astype(np.float32)
    rows, cols = arr.shape
    kr, kc = kernel.shape
    hr, hc = kr // 2, kc // 2
    out = np.full(arr.shape, np.nan, dtype=np.float64)
    for y in range(rows):
        for x in range(cols):
            vals = []
            for a in range(kr):
                for b in range(kc):
                    yy, xx = y + a - hr, x + b - hc
                    if kernel[a, b] == 1 and 0 <= yy < rows and 0 <= xx < cols \
                            and not np.isnan(arr[yy, xx]):
                        vals.append(np.float64(arr[yy, xx]))
            if vals:
                out[y, x] = stat(vals)
            elif stat is sum:
                out[y, x] = 0.0
    return out


def ref_conv(arr, kernel):
    arr = arr.astype(np.float32)
    rows, cols = arr.shape
    kr, kc = kernel.shape
    hr, hc = kr // 2, kc // 2
    out = np.full(arr.shape, np.nan)
    for y in range(hr, rows - hr):
        for x in range(hc, cols - hc):
            out[y, x] = np.sum(kernel * arr[y - hr:y + hr + 1, x - hc:x + hc + 1].astype(float))
    return out


def ref_mean(arr, passes):
    out = arr.astype(float)
    for _ in range(passes):
        new = out.copy()
        for y in range(out.shape[0]):
            for x in range(out.shape[1]):
                if np.isnan(out[y, x]):
                    continue
                win = out[max(y - 1, 0):y + 2, max(x - 1, 0):x + 2]
                new[y, x] = np.nanmean(win)
        out = new
    return out


def reference_checks():
    problems = []
    rasters = make_rasters()
    kernels = make_kernels()
    wk = make_weighted_kernels()
    stats = {'mean': np.mean, 'sum': sum, 'min': min, 'max': max}
    for rn in ('f64nan_5x7', 'f64nan_8x6', 'i32_1x9', 'u8_9x2', 'f32nan_9x2'):
        arr = rasters[rn]
        for kn in ('cross3', 'row_110', 'asym5x3', 'asym3x5', 'asym7x5', 'nocentre'):
            k = kernels[kn]
            for sn, sf in stats.items():
                exp = ref_apply(arr, k, sf)
                for bn, agg in backends(arr):
                    try:
                        got = np.asarray(focal.apply(agg, k, REDUCERS[sn]).data)
                    except ValueError:
                        if bn == 'np':
                            raise
                        continue  # dask refuses overlap depths larger than the array
                    if not np.allclose(got, exp, rtol=1e-4, atol=1e-3, equal_nan=True):
                        problems.append('ref apply %s %s %s %s' % (rn, kn, sn, bn))
            got = focal.focal_stats(wrap(arr), k, stats_funcs=['sum', 'max']).data
            if not (np.allclose(got[0], ref_apply(arr, k, sum), rtol=1e-4, atol=1e-3,
                                equal_nan=True)
                    and np.allclose(got[1], ref_apply(arr, k, max), rtol=1e-4, atol=1e-3,
                                    equal_nan=True)):
                problems.append('ref stats %s %s' % (rn, kn))
        for kn in ('w3', 'w3x5', 'w5x1', 'sobel'):
            exp = ref_conv(arr, wk[kn])
            for bn, agg in backends(arr):
                try:
                    got = np.asarray(convolution_2d(agg, wk[kn]).data)
                except ValueError:
                    if bn == 'np':
                        raise
                    continue
                if not np.allclose(got, exp, rtol=1e-3, atol=1e-2, equal_nan=True):
                    problems.append('ref conv %s %s %s' % (rn, kn, bn))
        for passes in (0, 1, 3):
            exp = ref_mean(arr, passes)
            for bn, agg in backends(arr):
                got = np.asarray(focal.mean(agg, passes=passes).data)
                if not np.allclose(got, exp, rtol=1e-9, atol=1e-9, equal_nan=True):
                    problems.append('ref mean %s p%d %s' % (rn, passes, bn))
    # hotspots: value set, antisymmetry and classification of the z-scores
    rng = np.random.default_rng(5)
    arr = rng.normal(size=(20, 20)) ** 3
    seen = set()
    for kn in ('one1', 'row_110', 'cross3'):
        k = kernels[kn]
        data32 = arr.astype(np.float32)
        nb_mean = ref_conv(arr, k / k.sum())
        z = (nb_mean - np.nanmean(data32)) / np.nanstd(data32)
        exp = np.zeros(arr.shape, dtype=np.int8)
        for thr, conf in ((1.65, 90), (1.96, 95), (2.58, 99)):
            exp[np.abs(z) > thr] = conf
        exp = (exp * np.sign(np.nan_to_num(z))).astype(np.int8)
        near = np.zeros(arr.shape, dtype=bool)  # float32 rounding next to a threshold
        for thr in (1.65, 1.96, 2.58):
            near |= np.abs(np.abs(z) - thr) < 1e-4
        for bn, agg in backends(arr):
            h = np.asarray(focal.hotspots(agg, kernels[kn]).data)
            hn = np.asarray(focal.hotspots(-agg, kernels[kn]).data)
            seen |= set(np.unique(h).tolist())
            if not np.array_equal(h[~near], exp[~near]):
                problems.append('ref hotspots classes %s %s' % (kn, bn))
            if h.dtype != np.int8 or not set(np.unique(h)) <= {0, 90, 95, 99, -90, -95, -99}:
                problems.append('ref hotspots values %s %s' % (kn, bn))
            if not np.array_equal(h, -hn):
                problems.append('ref hotspots antisym %s %s' % (kn, bn))
    if seen != {0, 90, 95, 99, -90, -95, -99}:
        problems.append('ref hotspots: not every class exercised: %s' % sorted(seen))
    return problems


def main():
    print('xrspatial from', xrspatial.__file__)
    detailed = {} if '--ref-only' in sys.argv else collect()
    # aggregate to one digest per (function, raster) group to keep the table small
    groups = {}
    for k in sorted(detailed):
        g = '|'.join(k.split('|')[:2])
        groups.setdefault(g, hashlib.sha256()).update((k + '=' + detailed[k] + ';').encode())
    got = {g: h.hexdigest()[:24] for g, h in groups.items()}
    if '--dump' in sys.argv:
        for k in sorted(detailed):
            print('D', k, detailed[k])
    if '--record' in sys.argv:
        print('RECORDED = {')
        for k in sorted(got):
            print('    %r: %r,' % (k, got[k]))
        print('}')
        return 0
    bad = []
    for k in sorted(set(got) | (set() if '--ref-only' in sys.argv else set(RECORDED))):
        if got.get(k) != RECORDED.get(k):
            bad.append((k, RECORDED.get(k), got.get(k)))
    for b in bad[:40]:
        print('MISMATCH', *b)
    problems = reference_checks()
    for p in problems[:40]:
        print('REFERENCE FAIL', p)
    n_exc = sum(1 for v in detailed.values() if v.startswith('EXC:'))
    print('%d cases (%d raising) in %d groups, %d group mismatches, %d reference failures'
          % (len(detailed), n_exc, len(got), len(bad), len(problems)))
    return 1 if (bad or problems) else 0


if __name__ == '__main__':
    sys.exit(main())
