"""Demo for C08 (slope): compare xrspatial.slope with a brute-force oracle."""
import math
import sys

import dask.array as da
import numpy as np
import xarray as xr

from xrspatial import slope


def oracle(values, cx, cy):
    z = np.asarray(values).astype(np.float32).astype(np.float64)
    rows, cols = z.shape
    out = np.full((rows, cols), np.nan, dtype=np.float32)
    for r in range(1, rows - 1):
        for k in range(1, cols - 1):
            w = z[r - 1:r + 2, k - 1:k + 2]
            g, h, i = w[0]
            d, _, f = w[1]
            a, b, c = w[2]
            dx = ((c + 2 * f + i) - (a + 2 * d + g)) / (8 * cx)
            dy = ((g + 2 * h + i) - (a + 2 * b + c)) / (8 * cy)
            p = math.sqrt(dx * dx + dy * dy) if not (math.isnan(dx) or math.isnan(dy)) else math.nan
            out[r, k] = math.atan(p) * 57.29578
    return out


def check(tag, values, cx, cy, chunks=None):
    data = da.from_array(values, chunks=chunks) if chunks else values
    agg = xr.DataArray(data, dims=['y', 'x'], attrs={'res': (cx, cy)})
    res = slope(agg)
    got = np.asarray(res.data.compute() if chunks else res.data)
    exp = oracle(values, cx, cy)
    ok = (got.dtype == np.float32 and got.shape == exp.shape
          and np.array_equal(np.isnan(got), np.isnan(exp))
          and np.allclose(got, exp, rtol=1e-5, atol=1e-5, equal_nan=True)
          and res.attrs == agg.attrs and res.dims == agg.dims and res.name == 'slope')
    fin = got[~np.isnan(got)]
    ok = ok and bool(np.all((fin >= 0) & (fin <= 90)))
    print(('ok   ' if ok else 'FAIL ') + tag)
    return ok


def main():
    rng = np.random.default_rng(8)
    good = True
    for dt in (np.int8, np.uint16, np.int32, np.int64, np.float32, np.float64):
        v = rng.integers(0, 100, size=(5, 9)).astype(dt)
        good &= check(f'random {np.dtype(dt).name} 5x9', v, 1, 1)
        good &= check(f'random {np.dtype(dt).name} 9x4 res(0.5,3)', v.T[:, :4].copy(), 0.5, 3.0)
    v = rng.normal(size=(7, 11)) * 50
    v[0, 0] = v[3, 4] = v[6, 10] = v[2, 9] = np.nan
    good &= check('float64 with NaN 7x11', v, 2.0, 0.25)
    good &= check('dask float64 with NaN 7x11', v, 2.0, 0.25, chunks=(3, 4))
    good &= check('float32 NaN, non-contiguous view', v.astype(np.float32)[:, ::2], 10, 30)
    good &= check('flat (all ties)', np.full((4, 6), 7, dtype=np.int16), 1, 1)
    good &= check('ties / plateaus', rng.integers(0, 2, size=(8, 5)).astype(np.float64), 1, 2)
    good &= check('3x3 minimum', np.arange(9, dtype=np.float64).reshape(3, 3) ** 2, 1, 1)
    good &= check('2x7 (no interior)', np.ones((2, 7)), 1, 1)
    good &= check('1x1', np.ones((1, 1)), 1, 1)
    good &= check('inf cell', np.array([[0, 1, 2, 3], [4, np.inf, 6, 7], [8, 9, 1, 2.]]), 1, 1)

    # coords-derived cell size, x != y
    v = rng.normal(size=(6, 8))
    agg = xr.DataArray(v, dims=['y', 'x'],
                       coords={'y': np.arange(6) * 4.0, 'x': np.arange(8) * 0.5})
    r = slope(agg)
    ok = np.allclose(r.data, oracle(v, 0.5, 4.0), rtol=1e-5, atol=1e-5, equal_nan=True) \
        and all(np.array_equal(r[c], agg[c]) for c in ('x', 'y'))
    print(('ok   ' if ok else 'FAIL ') + 'coords-derived cellsize')
    good &= ok

    # constant shift, locality of a single changed cell, flat window -> 0
    vi = rng.integers(0, 50, size=(7, 7)).astype(np.int32)
    base = slope(xr.DataArray(vi, attrs={'res': (1, 1)})).data
    shifted = slope(xr.DataArray(vi + 1000, attrs={'res': (1, 1)})).data
    ok = np.array_equal(base, shifted, equal_nan=True)
    vf = vi.astype(np.float64)
    vf[3, 2] = np.nan
    ch = slope(xr.DataArray(vf, attrs={'res': (1, 1)})).data
    diff = ~((base == ch) | (np.isnan(base) & np.isnan(ch)))
    outside = diff.copy()
    outside[2:5, 1:4] = False
    ok = ok and not outside.any()
    flat = slope(xr.DataArray(np.zeros((5, 5)), attrs={'res': (3, 2)})).data
    ok = ok and np.all(flat[1:-1, 1:-1] == 0) and np.isnan(flat[0]).all() and np.isnan(flat[:, -1]).all()
    print(('ok   ' if ok else 'FAIL ') + 'shift / locality / flat')
    good &= bool(ok)

    # quarter turn on square cells: slope turns with the raster
    vq = rng.normal(size=(6, 9))
    s0 = slope(xr.DataArray(vq, attrs={'res': (2, 2)})).data
    s1 = slope(xr.DataArray(np.rot90(vq).copy(), attrs={'res': (2, 2)})).data
    ok = np.allclose(np.rot90(s0), s1, rtol=1e-5, atol=1e-5, equal_nan=True)
    print(('ok   ' if ok else 'FAIL ') + 'quarter turn')
    good &= bool(ok)
    return 0 if good else 1


if __name__ == '__main__':
    sys.exit(main())
