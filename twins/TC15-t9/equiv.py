"""Differential test for xrspatial.experimental.polygonize (property C15).

Runs polygonize on a deterministic battery of rasters (exhaustive small ones,
random larger ones, int/float dtypes, NaNs, masks, connectivity 4/8, 1xN, Nx1,
1x1, nested holes, spirals, diagonal pinches, transforms) and
  (a) checks every result independently by re-rasterising the polygons
      (even-odd rule on cell centres, area == cell count, ring closure and
      orientation, axis parallel edges),
  (b) compares a sha256 digest of ALL outputs (values, dtypes, every vertex)
      with the digest recorded from the unmodified tree.
Exit 0 if identical, non-zero otherwise.  `--record` prints the digest.
"""
import hashlib
import itertools
import sys

import numpy as np
import xarray as xr

import xrspatial
from xrspatial.experimental.polygonize import polygonize

EXPECTED_DIGEST = "6269c9f64a22c63d39ff5f4717fe9d875c581a5970b61d42aef30e1f30fa8368"
EXPECTED_NCASES = 4380


def signed_area(ring):
    x = ring[:, 0]
    y = ring[:, 1]
    return 0.5 * float(np.sum(x[:-1] * y[1:] - x[1:] * y[:-1]))


def inside_grid(ring, ny, nx):
    # even-odd ray casting of all cell centres at once; ring is closed.
    px = (np.arange(nx) + 0.5)[None, :]
    py = (np.arange(ny) + 0.5)[:, None]
    c = np.zeros((ny, nx), dtype=bool)
    for k in range(len(ring) - 1):
        x0, y0 = ring[k]
        x1, y1 = ring[k + 1]
        if y0 == y1:
            continue
        cross = (y0 > py) != (y1 > py)
        xi = x0 + (py - y0) * (x1 - x0) / (y1 - y0)
        c ^= cross & (px < xi)
    return c


def close(a, b):
    if isinstance(a, (int, np.integer)) and isinstance(b, (int, np.integer)):
        return a == b
    return abs(b - a) <= 1e-8 + 1e-5 * abs(a)


def check_lossless(values, mask, column, polys, exact):
    ny, nx = values.shape
    assert len(column) == len(polys)
    owner = -np.ones((ny, nx), dtype=int)
    count = np.zeros((ny, nx), dtype=int)
    for p, rings in enumerate(polys):
        ext = rings[0]
        assert rings[0].dtype == np.float64
        for r, ring in enumerate(rings):
            assert ring.ndim == 2 and ring.shape[1] == 2
            assert np.array_equal(ring[0], ring[-1])
            assert np.array_equal(ring, np.round(ring))
            d = np.diff(ring, axis=0)
            assert np.all((d[:, 0] == 0) != (d[:, 1] == 0))
            a = signed_area(ring)
            assert (a > 0) if r == 0 else (a < 0)
        area = sum(signed_area(r) for r in rings)
        cells = inside_grid(ext, ny, nx)
        for hole in rings[1:]:
            hc = inside_grid(hole, ny, nx)
            assert not (hc & ~cells).any()  # holes lie within exterior
            cells &= ~hc
        count += cells
        owner[cells] = p
        ncell = int(cells.sum())
        assert area == ncell, (area, ncell)
    for j in range(ny):
        for i in range(nx):
            m = True if mask is None else bool(mask[j, i])
            if not m:
                assert count[j, i] == 0
            else:
                assert count[j, i] == 1, (j, i, count[j, i])
                v = column[owner[j, i]]
                if exact:
                    assert v == values[j, i]
                else:
                    assert close(v, values[j, i]) or close(values[j, i], v)


def cases():
    # exhaustive small rasters
    for (ny, nx) in [(1, 1), (1, 2), (2, 1), (1, 3), (3, 1), (2, 2), (2, 3),
                     (3, 2), (1, 5), (5, 1)]:
        for cells in itertools.product((0, 1), repeat=ny * nx):
            yield np.array(cells, dtype=np.int64).reshape(ny, nx), None
    for cells in itertools.product((0, 1, 2), repeat=6):
        yield np.array(cells, dtype=np.int32).reshape(2, 3), None
    for cells in itertools.product((0, 1), repeat=9):
        v = np.array(cells, dtype=np.int64).reshape(3, 3)
        yield v, None
        yield np.ones((3, 3), dtype=np.int64) * 7, v.astype(bool)
    for cells in itertools.product((0, 1), repeat=4):
        m = np.array(cells).reshape(4, 1)
        yield np.arange(4).reshape(4, 1) // 2, m.astype(bool)
        yield (np.arange(4).reshape(1, 4) // 2).astype(np.float32), m.T.astype(np.int8)

    rng = np.random.default_rng(20240915)
    dtypes = [np.int8, np.uint8, np.int16, np.int32, np.int64, np.uint32,
              np.float32, np.float64]
    shapes = [(4, 4), (5, 7), (7, 5), (1, 9), (9, 1), (6, 6), (10, 12),
              (13, 3), (3, 13), (16, 16), (25, 31)]
    for k in range(130):
        ny, nx = shapes[k % len(shapes)]
        dt = dtypes[k % len(dtypes)]
        nval = [2, 3, 5][k % 3]
        v = rng.integers(0, nval, size=(ny, nx)).astype(dt)
        if np.issubdtype(dt, np.floating) and k % 4 == 0:
            v = v * dt(0.37) - dt(0.5)
        mk = k % 5
        if (mk == 2 and dt is not np.int32) or (mk == 3 and dt is not np.float64):
            mk = 1  # keep the number of numba specialisations moderate
        if mk == 0:
            m = None
        elif mk == 1:
            m = rng.random((ny, nx)) < 0.7
        elif mk == 2:
            m = (rng.random((ny, nx)) < 0.5).astype(np.int32)
        elif mk == 3:
            m = (rng.random((ny, nx)) < 0.85).astype(np.float64)
        else:
            m = np.zeros((ny, nx), dtype=bool)
        yield v, m

    # float rasters with NaN, masked by validity
    for k in range(12):
        ny, nx = shapes[(k + 3) % len(shapes)]
        v = rng.integers(0, 3, size=(ny, nx)).astype(np.float64)
        v[rng.random((ny, nx)) < 0.2] = np.nan
        yield v, ~np.isnan(v)
        yield v.astype(np.float32), None  # unmasked NaNs: digest only

    # nested holes (concentric squares)
    n = 13
    jj, ii = np.mgrid[0:n, 0:n]
    ring = np.minimum(np.minimum(ii, jj), np.minimum(n - 1 - ii, n - 1 - jj))
    yield ring.astype(np.int64), None
    yield (ring % 2).astype(np.int64), None
    yield (ring % 2).astype(np.float64), (ring != 3)
    # spiral
    s = np.zeros((11, 11), dtype=np.int32)
    j = i = 0
    dj, di = 0, 1
    for _ in range(200):
        s[j, i] = 1
        nj, ni = j + dj, i + di
        nnj, nni = nj + dj, ni + di
        blocked = not (0 <= nj < 11 and 0 <= ni < 11) or s[nj, ni] == 1 or \
            (0 <= nnj < 11 and 0 <= nni < 11 and s[nnj, nni] == 1)
        if blocked:
            dj, di = di, -dj
            nj, ni = j + dj, i + di
            nnj, nni = nj + dj, ni + di
            if not (0 <= nj < 11 and 0 <= ni < 11) or s[nj, ni] == 1 or \
                    (0 <= nnj < 11 and 0 <= nni < 11 and s[nnj, nni] == 1):
                break
        j, i = nj, ni
    yield s, None
    yield s.T.copy(), None
    yield s[::-1].copy(), None
    # diagonal pinches / checkerboards
    cb = ((ii + jj) % 2).astype(np.int64)
    yield cb, None
    yield cb[:6, :9].copy(), None
    yield np.eye(8, dtype=np.int64), None
    yield np.eye(8, dtype=np.int64)[::-1].copy(), None
    yield (np.eye(9) + np.eye(9)[::-1]).astype(np.float64), None
    # many provisional region IDs (forces lookup growth + chained merges)
    comb = np.zeros((40, 151), dtype=np.int64)
    comb[:-1, ::2] = 1
    comb[-1, :] = 1
    yield comb, None
    comb2 = comb.copy()
    comb2[5:30:3, 1::4] = 1
    yield comb2, None
    yield comb[::-1].copy(), None
    stair = ((ii // 2 + jj // 3) % 3).astype(np.int16)
    yield stair, None
    # nearly-equal floats (isclose semantics)
    f = np.array([[1.0, 1.0 + 5e-6, 1.0 + 2e-5, 2.0],
                  [1.0 + 1e-5, 3.0, 2.0 + 1e-5, 2.0],
                  [0.0, 1e-9, 2e-8, 1.0]])
    # isclose chains are not transitive: digest only (NaN marker skips check)
    g = f.copy()
    g[2, 3] = np.nan
    yield g, None
    yield g.astype(np.float32), None


TRANSFORMS = [None,
              np.array([2.0, 0.0, 10.0, 0.0, -3.0, 50.0]),
              [0.5, 0.25, -1.0, -0.125, 2.0, 7.0],
              np.array([1, 0, 0, 0, 1, 0])]


def main():
    record = "--record" in sys.argv
    print("xrspatial from", xrspatial.__file__)
    h = hashlib.sha256()
    ncases = 0
    for idx, (v, m) in enumerate(cases()):
        da = xr.DataArray(v)
        dm = None if m is None else xr.DataArray(m)
        for conn in (4, 8):
            tr = TRANSFORMS[(idx + conn) % 4] if idx % 3 == 0 else None
            if tr is not None and not isinstance(tr, list) and tr.dtype != np.float64 \
                    and v.dtype != np.int64:
                tr = TRANSFORMS[1]
            vin = v.copy()
            min_ = None if m is None else m.copy()
            column, polys = polygonize(da, mask=dm, connectivity=conn)
            assert np.array_equal(v, vin, equal_nan=True)  # inputs untouched
            assert m is None or np.array_equal(m, min_)
            h.update(repr((idx, conn, v.shape, str(v.dtype))).encode())
            h.update(repr([type(c).__name__ for c in column]).encode())
            h.update(np.asarray(column, dtype=np.float64).tobytes())
            for rings in polys:
                h.update(b"P%d" % len(rings))
                for ring in rings:
                    h.update(str(ring.dtype).encode() + repr(ring.shape).encode())
                    h.update(np.ascontiguousarray(ring).tobytes())
            has_unmasked_nan = (np.issubdtype(v.dtype, np.floating) and np.isnan(
                np.where(np.ones(v.shape, bool) if m is None else m.astype(bool), v, 0)).any())
            if not has_unmasked_nan:
                check_lossless(v, m, column, polys,
                               exact=np.issubdtype(v.dtype, np.integer))
            if tr is not None:
                c2, p2 = polygonize(da, mask=dm, connectivity=conn, transform=tr)
                t = np.asarray(tr)
                assert len(c2) == len(column) and list(c2) == list(column) or has_unmasked_nan
                assert len(p2) == len(polys)
                for r0, r1 in zip(polys, p2):
                    assert len(r0) == len(r1)
                    for a, b in zip(r0, r1):
                        ex = np.empty_like(a)
                        ex[:, 0] = t[0] * a[:, 0] + t[1] * a[:, 1] + t[2]
                        ex[:, 1] = t[3] * a[:, 0] + t[4] * a[:, 1] + t[5]
                        assert b.dtype == np.float64 and np.array_equal(ex, b)
                        h.update(b.tobytes())
            ncases += 1

    # error behaviour and order of raised errors
    def err(**kw):
        try:
            polygonize(**kw)
        except Exception as e:  # noqa
            return type(e).__name__ + ":" + str(e)
        return "no error"
    r2 = xr.DataArray(np.zeros((2, 3), dtype=np.int64))
    errs = [
        err(raster=xr.DataArray(np.zeros(3))),
        err(raster=xr.DataArray(np.zeros((0, 3)))),
        err(raster=xr.DataArray(np.zeros(3)), connectivity=5),
        err(raster=r2, mask=xr.DataArray(np.ones((3, 2), bool)), connectivity=5),
        err(raster=r2, connectivity=5, transform=[1, 2]),
        err(raster=r2, transform=[1, 2], return_type="bogus"),
        err(raster=r2, transform=[1, 2, 3, 4, 5, 6, 7]),
        err(raster=r2, return_type="bogus"),
    ]
    try:
        import dask.array as dsk
        rd = xr.DataArray(dsk.from_array(np.zeros((2, 3)), chunks=(1, 3)))
        e = err(raster=rd)
        assert e.startswith("TypeError:Unsupported array type"), e
        e = err(raster=r2, mask=xr.DataArray(dsk.ones((2, 3), chunks=(2, 3))))
        assert e.startswith("TypeError:raster and mask have different"), e
        e = err(raster=rd, connectivity=3)
        assert e.startswith("ValueError:connectivity"), e
    except ImportError:
        pass
    h.update(repr(errs).encode())

    digest = h.hexdigest()
    print("cases:", ncases, "digest:", digest)
    if record:
        return 0
    if digest != EXPECTED_DIGEST or ncases != EXPECTED_NCASES:
        print("MISMATCH: expected", EXPECTED_NCASES, EXPECTED_DIGEST)
        return 1
    print("OK identical")
    return 0


if __name__ == "__main__":
    sys.exit(main())
