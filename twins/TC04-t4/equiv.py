"""Differential test for zonal.crosstab (property C04) and zonal.stats (shares _strides).

Run from inside the worktree:
    cd /tmp/t3/TC04 && PYTHONPATH=/tmp/t3/TC04 /venv/bin/python /tmp/t3/out/TC04-tK/equiv.py

Two independent checks:
  1. every crosstab result is compared with a brute-force contingency table
     computed here with plain Python loops (oracle),
  2. a canonical text dump of *all* results (values, dtypes, column labels,
     exception types/messages) is hashed and compared with the digest recorded
     on the unmodified tree (RECORDED_DIGEST below).
`--record` prints the digest instead of comparing.
"""
import hashlib
import itertools
import math
import sys
import warnings

import dask
import dask.array as da
import numpy as np
import pandas as pd
import xarray as xr

import xrspatial
from xrspatial import zonal_crosstab as crosstab
from xrspatial import zonal_stats as stats

warnings.filterwarnings("ignore")
# single-threaded scheduler: same graph, same results, far less overhead
dask.config.set(scheduler="synchronous")

RECORDED_DIGEST = "ee249d2c1c42dc9c519c17b42905f007be7b7aed68475c136b38d2be94235e78"

failures = []
dump = []


def canon_scalar(v):
    if isinstance(v, (float, np.floating)):
        if math.isnan(v):
            return "nan"
        return repr(float(v))
    if isinstance(v, (int, np.integer)):
        return repr(int(v))
    return repr(v)


def canon_df(df):
    out = ["type=%s" % type(df).__name__]
    if not isinstance(df, pd.DataFrame):
        df = df.compute()
        out.append("computed=%s" % type(df).__name__)
    out.append("columns=" + ",".join(
        "%s:%s" % (type(c).__name__, canon_scalar(c)) for c in df.columns))
    out.append("dtypes=" + ",".join(str(t) for t in df.dtypes))
    out.append("index=" + ",".join(canon_scalar(i) for i in df.index))
    for row in df.itertuples(index=False):
        out.append("|".join(canon_scalar(v) for v in row))
    return df, "\n".join(out)


def run(label, fn, *args, **kwargs):
    try:
        res = fn(*args, **kwargs)
        df, text = canon_df(res)
    except Exception as e:  # noqa
        # first line only: numba error texts embed source line numbers
        msg = (str(e).splitlines() or [''])[0]
        dump.append("## %s\nEXC %s: %s" % (label, type(e).__name__, msg))
        return None
    dump.append("## %s\n%s" % (label, text))
    return df


def same(a, b):
    # the oracle works in double precision; float32 results get a float32 tolerance
    # (exact identity with the unmodified tree is checked by the digest)
    tol = 1e-5 if isinstance(a, np.float32) else 1e-9
    a = float(a)
    b = float(b)
    if math.isnan(a) and math.isnan(b):
        return True
    return a == b or abs(a - b) <= tol * max(abs(a), abs(b))


# ---------------------------------------------------------------- oracle ----
def valid(v, nodata):
    v = float(v)
    if not math.isfinite(v):
        return False
    if nodata is not None and v == nodata:
        return False
    return True


def oracle_2d(zones, values, zone_ids, cat_ids, nodata, agg):
    zl = zones.ravel().tolist()
    vl = values.ravel().tolist()
    all_z = sorted({z for z in zl if math.isfinite(z)})
    all_c = sorted({v for v in vl if valid(v, nodata)})
    rows = all_z if zone_ids is None else [z for z in all_z if z in zone_ids]
    cols = all_c if cat_ids is None else [c for c in cat_ids if c in all_c]
    table = []
    for z in rows:
        cells = [v for zz, v in zip(zl, vl) if zz == z and valid(v, nodata)]
        total = len(cells)
        r = []
        for c in cols:
            n = sum(1 for v in cells if v == c)
            if agg == 'percentage':
                r.append(float('nan') if total == 0 else n / total * 100)
            else:
                r.append(n)
        table.append(r)
    return rows, cols, table


_AGG = dict(
    mean=lambda x: sum(x) / len(x),
    max=max, min=min, sum=sum, count=len,
    var=lambda x: sum((i - sum(x) / len(x)) ** 2 for i in x) / len(x),
    std=lambda x: math.sqrt(sum((i - sum(x) / len(x)) ** 2 for i in x) / len(x)),
)


def oracle_3d(zones, values3, layer_labels, zone_ids, cat_ids, nodata, agg):
    zl = zones.ravel().tolist()
    all_z = sorted({z for z in zl if math.isfinite(z)})
    rows = all_z if zone_ids is None else [z for z in all_z if z in zone_ids]
    labels = list(layer_labels)
    cols = labels if cat_ids is None else [c for c in cat_ids if c in labels]
    table = []
    for z in rows:
        r = []
        for c in cols:
            lay = values3[labels.index(c)].ravel().tolist()
            cells = [float(v) for zz, v in zip(zl, lay) if zz == z and valid(v, nodata)]
            if agg == 'count':
                r.append(len(cells))
            else:
                r.append(_AGG[agg](cells) if cells else None)
        table.append(r)
    return rows, cols, table


def check(label, df, rows, cols, table):
    if df is None:
        failures.append("%s: raised unexpectedly" % label)
        return
    got_cols = list(df.columns)
    if got_cols[0] != 'zone' or len(got_cols) != len(cols) + 1 or any(
            not (a == b) for a, b in zip(got_cols[1:], cols)):
        failures.append("%s: columns %r != %r" % (label, got_cols, cols))
        return
    got_rows = df['zone'].tolist()
    if len(got_rows) != len(rows) or any(not same(a, b) for a, b in zip(got_rows, rows)):
        failures.append("%s: row labels %r != %r" % (label, got_rows, rows))
        return
    for i, r in enumerate(table):
        for j, exp in enumerate(r):
            if exp is None:
                continue
            got = df.iloc[i, j + 1]
            if not same(got, exp):
                failures.append("%s: zone %r cat %r got %r expected %r" % (
                    label, rows[i], cols[j], got, exp))


# ---------------------------------------------------------------- inputs ----
def mk(arr, chunks=None, dims=None, coords=None):
    data = arr if chunks is None else da.from_array(arr, chunks=chunks)
    return xr.DataArray(data, dims=dims, coords=coords)


rng = np.random.RandomState(20240)

cases_2d = []
# (name, zones ndarray, values ndarray, chunk specs)
z = rng.randint(0, 5, size=(7, 9))
v = rng.randint(0, 4, size=(7, 9))
cases_2d.append(("int64_7x9", z.astype(np.int64), v.astype(np.int64), [(3, 4), (7, 9), (2, 2)]))
cases_2d.append(("int32_int16", z.astype(np.int32) * 3 - 2, v.astype(np.int16) - 1, [(4, 5)]))
zf = z.astype(np.float64)
zf[0, 0] = np.nan
zf[3, 4] = np.inf
zf[6, 8] = -np.inf
vf = v.astype(np.float32)
vf[1, 1] = np.nan
vf[2, 7] = np.inf
vf[5, 5] = np.nan
cases_2d.append(("f64zones_f32values_nonfinite", zf, vf, [(3, 4), (5, 2)]))
z2 = rng.randint(10, 13, size=(1, 13)).astype(np.uint8)
v2 = (rng.randint(0, 3, size=(1, 13)) * 0.5).astype(np.float64)
cases_2d.append(("uint8_row_1x13", z2, v2, [(1, 5)]))
z3 = rng.randint(-2, 2, size=(11, 1)).astype(np.int8)
v3 = rng.randint(5, 8, size=(11, 1)).astype(np.uint16)
cases_2d.append(("int8_col_11x1", z3, v3, [(4, 1)]))
# a zone whose cells are all nodata / nan -> empty row under percentage
z4 = np.array([[1, 1, 2, 2], [1, 1, 2, 2], [3, 3, 3, 3]], dtype=np.int64)
v4 = np.array([[0, 0, 1, 2], [0, 0, 1, 1], [np.nan, np.nan, np.nan, np.nan]], dtype=np.float64)
cases_2d.append(("empty_zone", z4, v4, [(2, 2), (3, 4)]))
cases_2d.append(("single_cell", np.array([[4]], dtype=np.int64), np.array([[2.5]]), [(1, 1)]))

zone_sel = [None, [3, 1], [1, 3], [0, 99, 2], [99], [2, 2, 4], [4.0, 0.0, 1.0]]
cat_sel = [None, [2, 0], [0, 2], [3, 77, 1], [77], [1.0, 0.5], [2.5]]
nodatas = [None, 0, 1, 2.0, -9999]


def do_2d():
    ndask = 0
    for name, zz, vv, chunkspecs in cases_2d:
        k = 0
        for nodata, agg in itertools.product(nodatas, ['count', 'percentage']):
            for zi, ci in itertools.product(zone_sel, cat_sel):
                k += 1
                rows, cols, table = oracle_2d(zz, vv, zi, ci, nodata, agg)
                kw = dict(zone_ids=zi, cat_ids=ci, nodata_values=nodata, agg=agg)
                label = "2d/%s/np/nodata=%r/%s/z=%r/c=%r" % (name, nodata, agg, zi, ci)
                df = run(label, crosstab, mk(zz), mk(vv), **kw)
                check(label, df, rows, cols, table)
                # dask is slow (graph + meta computation): sample the grid
                if (k + len(name)) % 61:
                    continue
                ch = chunkspecs[ndask % len(chunkspecs)]
                ndask += 1
                label = "2d/%s/dask%r/nodata=%r/%s/z=%r/c=%r" % (name, ch, nodata, agg, zi, ci)
                df = run(label, crosstab, mk(zz, ch), mk(vv, ch), **kw)
                check(label, df, rows, cols, table)
        # values chunked differently from zones
        ch = chunkspecs[0]
        label = "2d/%s/dask-mismatched-chunks" % name
        df = run(label, crosstab, mk(zz, ch), mk(vv, zz.shape), agg='percentage')
        rows, cols, table = oracle_2d(zz, vv, None, None, None, 'percentage')
        check(label, df, rows, cols, table)


def do_3d():
    zz = rng.randint(0, 4, size=(6, 8)).astype(np.int64)
    zzf = zz.astype(np.float32)
    zzf[0, 3] = np.nan
    base = rng.randint(0, 6, size=(3, 6, 8))
    vals = [
        ("int64", base.astype(np.int64)),
        ("float64", base.astype(np.float64) * 1.25),
        ("float32_nan", None),
    ]
    f = base.astype(np.float32)
    f[0, 0, 0] = np.nan
    f[1, 2, 3] = np.inf
    f[2, 5, 7] = np.nan
    vals[2] = ("float32_nan", f)
    labels = ['a', 'b', 'c']
    aggs = ['mean', 'max', 'min', 'sum', 'std', 'var', 'count']
    zsel = [None, [2, 0], [0, 2], [3, 42], [1.0]]
    csel = [None, ['c', 'a'], ['a', 'c'], ['b', 'zz'], ['zz']]
    k3 = [0]
    dask_chunks = [((3, 4), (3, 3, 4)), ((4, 3), (1, 6, 8)), ((6, 8), (2, 2, 5))]
    for (vname, vv), (zname, zarr) in itertools.product(vals, [("i64", zz), ("f32nan", zzf)]):
        for nodata in [None, 0, 3]:
            for zi, ci in itertools.product(zsel, csel):
                for agg in aggs:
                    kw = dict(zone_ids=zi, cat_ids=ci, nodata_values=nodata, agg=agg, layer=0)
                    label = "3d/%s/%s/np/nodata=%r/%s/z=%r/c=%r" % (
                        vname, zname, nodata, agg, zi, ci)
                    zda = mk(zarr, dims=['y', 'x'])
                    vda = mk(vv, dims=['lay', 'y', 'x'], coords={'lay': labels})
                    df = run(label, crosstab, zda, vda, **kw)
                    if df is not None:
                        rows, cols, table = oracle_3d(zarr, vv, labels, zi, ci, nodata, agg)
                        check(label, df, rows, cols, table)
                # dask: only count; sampled because each call is slow
                k3[0] += 1
                if k3[0] % 11:
                    continue
                zch, vch = dask_chunks[(k3[0] // 11) % 3]
                kw = dict(zone_ids=zi, cat_ids=ci, nodata_values=nodata, agg='count')
                label = "3d/%s/%s/dask%r%r/nodata=%r/z=%r/c=%r" % (
                    vname, zname, zch, vch, nodata, zi, ci)
                zda = mk(zarr, zch, dims=['y', 'x'])
                vda = mk(vv, vch, dims=['lay', 'y', 'x'], coords={'lay': labels})
                df = run(label, crosstab, zda, vda, **kw)
                rows, cols, table = oracle_3d(zarr, vv, labels, zi, ci, nodata, 'count')
                check(label, df, rows, cols, table)
    # layer given as last / negative / middle dimension, numeric layer labels
    vv = np.moveaxis(vals[1][1], 0, 2)  # (y, x, lay)
    for layer in [2, -1]:
        for chunks in [None, ((3, 4), (3, 4, 2))]:
            zda = mk(zz, None if chunks is None else chunks[0], dims=['y', 'x'])
            vda = mk(vv, None if chunks is None else chunks[1], dims=['y', 'x', 'lay'],
                     coords={'lay': [10, 20, 30]})
            label = "3d/layer=%r/chunks=%r" % (layer, chunks)
            df = run(label, crosstab, zda, vda, layer=layer, agg='count', cat_ids=[30, 10, 5])
            rows, cols, table = oracle_3d(zz, vals[1][1], [10, 20, 30], None, [30, 10, 5],
                                          None, 'count')
            check(label, df, rows, cols, table)
    vm = np.moveaxis(vals[0][1], 0, 1)  # (y, lay, x)
    zda = mk(zz, dims=['y', 'x'])
    vda = mk(vm, dims=['y', 'lay', 'x'], coords={'lay': [1.5, 2.5, 3.5]})
    label = "3d/layer=1"
    df = run(label, crosstab, zda, vda, layer=1, agg='sum')
    rows, cols, table = oracle_3d(zz, vals[0][1], [1.5, 2.5, 3.5], None, None, None, 'sum')
    check(label, df, rows, cols, table)


def do_errors():
    zz = np.arange(12).reshape(3, 4)
    vv = np.arange(12).reshape(3, 4) % 3
    v3 = np.arange(24).reshape(2, 3, 4)
    d3 = dict(dims=['l', 'y', 'x'], coords={'l': [0, 1]})
    run("err/zones-not-da", crosstab, zz, mk(vv))
    run("err/values-not-da", crosstab, mk(zz), vv)
    run("err/zones-3d", crosstab, mk(v3), mk(vv))
    run("err/zones-bool", crosstab, mk(zz > 3), mk(vv))
    run("err/values-bool", crosstab, mk(zz), mk(vv > 1))
    run("err/values-1d", crosstab, mk(zz), mk(np.arange(4)))
    run("err/values-4d", crosstab, mk(zz), mk(np.zeros((1, 2, 3, 4))))
    run("err/agg2d", crosstab, mk(zz), mk(vv), agg='mean')
    run("err/agg2d-dask", crosstab, mk(zz, (2, 2)), mk(vv, (2, 2)), agg='sum')
    run("err/agg3d", crosstab, mk(zz), mk(v3, **d3), agg='percentage')
    run("err/agg3d-dask", crosstab, mk(zz, (2, 2)), mk(v3, (2, 2, 2), **d3), agg='mean')
    run("err/layer", crosstab, mk(zz), mk(v3, **d3), layer=5)
    run("err/layer-nocoord", crosstab, mk(zz), mk(v3, dims=['l', 'y', 'x']), layer=0)
    run("err/shape3d", crosstab, mk(zz[:2]), mk(v3, **d3))
    run("err/shape2d-np", crosstab, mk(zz[:2]), mk(vv))
    run("err/shape2d-dask", crosstab, mk(zz[:2], (2, 2)), mk(vv, (2, 2)))
    run("err/mixed-backend", crosstab, mk(zz), mk(vv, (2, 2)))
    run("err/mixed-backend2", crosstab, mk(zz, (2, 2)), mk(vv))
    run("err/3d-empty-max", crosstab, mk(zz), mk(v3.astype(float) * np.nan, **d3), agg='max')


def do_stats():
    # zonal stats shares the _strides / _sort_and_stride helpers
    for n, (name, zz, vv, chunkspecs) in enumerate(cases_2d):
        for m, (zi, nodata) in enumerate([(None, None), ([3, 1, 99], 0), ([2], 1)]):
            label = "stats/%s/np/z=%r/nodata=%r" % (name, zi, nodata)
            run(label, stats, mk(zz), mk(vv), zone_ids=zi, nodata_values=nodata)
            if (n + m) % 3:
                continue
            ch = chunkspecs[0]
            label = "stats/%s/dask/z=%r/nodata=%r" % (name, zi, nodata)
            run(label, stats, mk(zz, ch), mk(vv, ch), zone_ids=zi, nodata_values=nodata)


def main():
    assert xrspatial.__file__.startswith('/tmp/t3/TC04/'), xrspatial.__file__
    do_2d()
    do_3d()
    do_errors()
    do_stats()
    text = "\n".join(dump)
    digest = hashlib.sha256(text.encode()).hexdigest()
    if '--dump' in sys.argv:
        print(text)
    if '--record' in sys.argv:
        print(digest, len(dump))
        return 0
    for f in failures[:40]:
        print("ORACLE MISMATCH:", f)
    if failures:
        print("%d oracle mismatches" % len(failures))
        return 1
    if digest != RECORDED_DIGEST:
        print("digest mismatch: %s != recorded %s" % (digest, RECORDED_DIGEST))
        return 2
    print("OK: %d results identical to recorded baseline and to brute-force oracle" % len(dump))
    return 0


if __name__ == '__main__':
    sys.exit(main())
