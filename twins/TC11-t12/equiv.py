"""Differential test for TC11-t12 (terrain: generator-expression of noise layers -> explicit loop,
boolean-mask assignment -> np.where).

generate_terrain() is run on numpy and dask templates of several dtypes, shapes (odd, 2xN, Nx2, 1xN,
Fortran order), chunkings, seeds, extents and zfactors, interleaved with perlin() calls, in two call
orders and every call twice.  The digest (dtype, shape, raw bytes) of each result, its coords /
attrs, the backend of the result and the state the global NumPy RNG is left in are compared with a
table recorded on the unmodified tree.  Independently, numpy and dask results of the same call are
required to agree and the "water" threshold / range invariants are checked.
Usage: equiv.py [--record]
"""
import hashlib
import sys

import dask.array as da
import numpy as np
import xarray as xr

import xrspatial
from xrspatial import generate_terrain, perlin


def digest(a):
    a = np.ascontiguousarray(a)
    h = hashlib.sha256()
    h.update(str(a.dtype).encode())
    h.update(str(a.shape).encode())
    h.update(a.tobytes())
    return h.hexdigest()[:16]


CHUNKS = {(7, 11): (3, 4), (2, 13): (1, 5), (9, 2): (4, 1), (16, 16): (16, 16), (5, 8): (2, 8), (2, 2): (2, 2), (1, 6): (1, 3)}


def template(shape, dtype, backend, order):
    v = np.full(shape, 3, dtype=dtype, order=order)     # content must not matter
    if np.issubdtype(np.dtype(dtype), np.floating):
        v.flat[0] = 1.5
    if backend == 'dask':
        v = da.from_array(v, chunks=CHUNKS[shape])
    return xr.DataArray(v, dims=['y', 'x'], attrs={'junk': 1})


def cases():
    out = []
    for shape in CHUNKS:
        for dtype in ('float32', 'float64', 'int32', 'uint8'):
            for backend in ('numpy', 'dask'):
                for seed in (10, 0, 12345):
                    for ext in (((0, 500), (0, 500), None), ((-20e6, 20e6), (-1e6, 3e6), None),
                                ((0, 250), (100, 300), (0, 0, 500, 500))):
                        for zfactor in (4000, 1, 2.5):
                            for order in ('C', 'F'):
                                key = (shape, dtype, backend, seed, ext, zfactor, order)
                                if int(hashlib.md5(repr(key).encode()).hexdigest(), 16) % 36:
                                    continue
                                out.append(key)
    return out


def run(key, values=False):
    shape, dtype, backend, seed, ext, zfactor, order = key
    t = template(shape, dtype, backend, order)
    keep = np.asarray(t.values).copy()
    try:
        res = generate_terrain(t, x_range=ext[0], y_range=ext[1], seed=seed, zfactor=zfactor, full_extent=ext[2])
        kind = type(res.data).__module__.split('.')[0]
        arr = res.values
        if values:
            return arr
        co = digest(np.concatenate([res['x'].values, res['y'].values]))
        r = '%s|%s|%s|%s|%s|%s' % (kind, digest(arr), res.name, res.dims, co, sorted(res.attrs.items()))
    except Exception as e:
        if values:
            return None
        r = 'EXC %s: %s' % (type(e).__name__, str(e)[:70])
    rng_after = digest(np.random.get_state()[1])
    return '%s|rng=%s|template_untouched=%s' % (r, rng_after, np.array_equal(keep, t.values))


def table(order):
    keys = cases()
    if order == 'shuffled':
        rng = np.random.RandomState(11)
        keys = [keys[i] for i in rng.permutation(len(keys))]
    t = {}
    for n, k in enumerate(keys):
        if order == 'shuffled' and n % 3 == 0:
            # unrelated library / RNG activity in between
            perlin(xr.DataArray(np.zeros((4, 5), dtype=np.float32), dims=['y', 'x']), seed=n)
            np.random.rand(n + 1)
        a = run(k)
        b = run(k)
        t[repr(k)] = a if a == b else 'UNSTABLE %s / %s' % (a, b)
    return t


def independent_check():
    bad = 0
    for key in cases()[::5]:
        shape, dtype, backend, seed, ext, zfactor, order = key
        a = run((shape, dtype, 'numpy', seed, ext, zfactor, order), values=True)
        b = run((shape, dtype, 'dask', seed, ext, zfactor, order), values=True)
        if a is None or b is None:
            continue
        if a.shape != shape or not np.issubdtype(a.dtype, np.floating):
            print('bad shape/dtype', key, a.shape, a.dtype)
            bad += 1
        fin = a[np.isfinite(a)]
        # normalised to [0, 1], water (< 0.3) flattened to exactly 0, then scaled by zfactor
        if fin.size and (fin.min() < 0 or fin.max() > zfactor * (1 + 1e-6) or
                         np.any((fin > 0) & (fin < 0.3 * zfactor * (1 - 1e-5)))):
            print('range invariant violated', key)
            bad += 1
        if a.shape[0] * a.shape[1] > 1 and not np.allclose(a, b, rtol=1e-5, atol=1e-4 * zfactor, equal_nan=True):
            # the two backends differ by float32 rounding only; a cell sitting exactly on the
            # water threshold may flip, allow a handful
            diff = ~np.isclose(a, b, rtol=1e-5, atol=1e-4 * zfactor, equal_nan=True)
            if diff.sum() > max(1, a.size // 50):
                print('numpy / dask disagree', key, int(diff.sum()))
                bad += 1
    return bad


# recorded with `equiv.py --record` on the unmodified tree
EXPECTED = {"((1, 6), 'float32', 'dask', 0, ((-20000000.0, 20000000.0), (-1000000.0, 3000000.0), None), 4000, 'C')": 'EXC ZeroDivisionError: float division by zero|rng=a4225f6cd3b478a0|template_untouched=True',
 "((1, 6), 'float32', 'dask', 10, ((0, 250), (100, 300), (0, 0, 500, 500)), 4000, 'C')": 'EXC ZeroDivisionError: float division by zero|rng=7b1bf3057ea8324f|template_untouched=True',
 "((1, 6), 'float32', 'dask', 12345, ((-20000000.0, 20000000.0), (-1000000.0, 3000000.0), None), 1, 'F')": 'EXC ZeroDivisionError: float division by zero|rng=833e10142d061a3d|template_untouched=True',
 "((1, 6), 'float32', 'dask', 12345, ((-20000000.0, 20000000.0), (-1000000.0, 3000000.0), None), 2.5, 'F')": 'EXC ZeroDivisionError: float division by zero|rng=833e10142d061a3d|template_untouched=True',
 "((1, 6), 'float64', 'dask', 12345, ((0, 250), (100, 300), (0, 0, 500, 500)), 1, 'F')": 'EXC ZeroDivisionError: float division by zero|rng=833e10142d061a3d|template_untouched=True',
 "((1, 6), 'float64', 'dask', 12345, ((0, 250), (100, 300), (0, 0, 500, 500)), 4000, 'C')": 'EXC ZeroDivisionError: float division by zero|rng=833e10142d061a3d|template_untouched=True',
 "((1, 6), 'float64', 'numpy', 10, ((-20000000.0, 20000000.0), (-1000000.0, 3000000.0), None), 2.5, 'C')": 'EXC ZeroDivisionError: float division by zero|rng=7b1bf3057ea8324f|template_untouched=True',
 "((1, 6), 'float64', 'numpy', 10, ((0, 500), (0, 500), None), 4000, 'F')": 'EXC ZeroDivisionError: float division by zero|rng=7b1bf3057ea8324f|template_untouched=True',
 "((1, 6), 'float64', 'numpy', 12345, ((-20000000.0, 20000000.0), (-1000000.0, 3000000.0), None), 2.5, 'F')": 'EXC ZeroDivisionError: float division by zero|rng=833e10142d061a3d|template_untouched=True',
 "((1, 6), 'float64', 'numpy', 12345, ((0, 500), (0, 500), None), 2.5, 'F')": 'EXC ZeroDivisionError: float division by zero|rng=833e10142d061a3d|template_untouched=True',
 "((1, 6), 'int32', 'dask', 0, ((-20000000.0, 20000000.0), (-1000000.0, 3000000.0), None), 4000, 'C')": 'EXC ZeroDivisionError: float division by zero|rng=a4225f6cd3b478a0|template_untouched=True',
 "((1, 6), 'int32', 'dask', 10, ((0, 250), (100, 300), (0, 0, 500, 500)), 1, 'F')": 'EXC ZeroDivisionError: float division by zero|rng=7b1bf3057ea8324f|template_untouched=True',
 "((1, 6), 'int32', 'numpy', 0, ((0, 250), (100, 300), (0, 0, 500, 500)), 1, 'C')": 'EXC ZeroDivisionError: float division by zero|rng=a4225f6cd3b478a0|template_untouched=True',
 "((1, 6), 'uint8', 'dask', 0, ((-20000000.0, 20000000.0), (-1000000.0, 3000000.0), None), 2.5, 'C')": 'EXC ZeroDivisionError: float division by zero|rng=a4225f6cd3b478a0|template_untouched=True',
 "((1, 6), 'uint8', 'dask', 0, ((0, 500), (0, 500), None), 4000, 'F')": 'EXC ZeroDivisionError: float division by zero|rng=a4225f6cd3b478a0|template_untouched=True',
 "((1, 6), 'uint8', 'numpy', 12345, ((0, 500), (0, 500), None), 4000, 'F')": 'EXC ZeroDivisionError: float division by zero|rng=833e10142d061a3d|template_untouched=True',
 "((16, 16), 'float32', 'dask', 0, ((0, 500), (0, 500), None), 1, 'C')": "dask|56489d885aa65edb|terrain|('y', 'x')|81f2dd6da53ed83a|[('res', (31.25, 31.25))]|rng=a4225f6cd3b478a0|template_untouched=True",
 "((16, 16), 'float32', 'dask', 12345, ((0, 250), (100, 300), (0, 0, 500, 500)), 4000, 'C')": "dask|d1dadb4cb3c973d4|terrain|('y', 'x')|76ce08585cdea007|[('res', (15.625, 12.5))]|rng=833e10142d061a3d|template_untouched=True",
 "((16, 16), 'float64', 'dask', 0, ((0, 500), (0, 500), None), 2.5, 'C')": "dask|7663dca296deaee4|terrain|('y', 'x')|81f2dd6da53ed83a|[('res', (31.25, 31.25))]|rng=a4225f6cd3b478a0|template_untouched=True",
 "((16, 16), 'float64', 'dask', 12345, ((-20000000.0, 20000000.0), (-1000000.0, 3000000.0), None), 1, 'C')": "dask|5bfda068b44db3c0|terrain|('y', 'x')|3b6cde0f8128ffab|[('res', (2500000.0, 250000.0))]|rng=833e10142d061a3d|template_untouched=True",
 "((16, 16), 'float64', 'numpy', 10, ((-20000000.0, 20000000.0), (-1000000.0, 3000000.0), None), 4000, 'C')": "numpy|2ff40b9eb8511d3d|terrain|('y', 'x')|3b6cde0f8128ffab|[('res', (2500000.0, 250000.0))]|rng=7b1bf3057ea8324f|template_untouched=True",
 "((16, 16), 'int32', 'dask', 0, ((0, 250), (100, 300), (0, 0, 500, 500)), 1, 'C')": "dask|cff8bcf9833064a5|terrain|('y', 'x')|76ce08585cdea007|[('res', (15.625, 12.5))]|rng=a4225f6cd3b478a0|template_untouched=True",
 "((16, 16), 'int32', 'numpy', 0, ((0, 250), (100, 300), (0, 0, 500, 500)), 1, 'C')": "numpy|cff8bcf9833064a5|terrain|('y', 'x')|76ce08585cdea007|[('res', (15.625, 12.5))]|rng=a4225f6cd3b478a0|template_untouched=True",
 "((16, 16), 'int32', 'numpy', 12345, ((-20000000.0, 20000000.0), (-1000000.0, 3000000.0), None), 4000, 'C')": "numpy|6041cf3c19761665|terrain|('y', 'x')|3b6cde0f8128ffab|[('res', (2500000.0, 250000.0))]|rng=833e10142d061a3d|template_untouched=True",
 "((16, 16), 'uint8', 'dask', 0, ((0, 250), (100, 300), (0, 0, 500, 500)), 4000, 'F')": "dask|e143f0238c436698|terrain|('y', 'x')|76ce08585cdea007|[('res', (15.625, 12.5))]|rng=a4225f6cd3b478a0|template_untouched=True",
 "((16, 16), 'uint8', 'dask', 12345, ((-20000000.0, 20000000.0), (-1000000.0, 3000000.0), None), 2.5, 'C')": "dask|b95bb636d68a76f9|terrain|('y', 'x')|3b6cde0f8128ffab|[('res', (2500000.0, 250000.0))]|rng=833e10142d061a3d|template_untouched=True",
 "((16, 16), 'uint8', 'numpy', 0, ((-20000000.0, 20000000.0), (-1000000.0, 3000000.0), None), 2.5, 'F')": "numpy|10695533c6447974|terrain|('y', 'x')|3b6cde0f8128ffab|[('res', (2500000.0, 250000.0))]|rng=a4225f6cd3b478a0|template_untouched=True",
 "((16, 16), 'uint8', 'numpy', 12345, ((-20000000.0, 20000000.0), (-1000000.0, 3000000.0), None), 1, 'C')": "numpy|77c98ec923ba2528|terrain|('y', 'x')|3b6cde0f8128ffab|[('res', (2500000.0, 250000.0))]|rng=833e10142d061a3d|template_untouched=True",
 "((2, 13), 'float32', 'dask', 10, ((0, 500), (0, 500), None), 4000, 'F')": "dask|5fa72fbf36077f5f|terrain|('y', 'x')|7acdffcb1d0b412d|[('res', (38.46153846153846, 250.0))]|rng=7b1bf3057ea8324f|template_untouched=True",
 "((2, 13), 'float32', 'dask', 12345, ((-20000000.0, 20000000.0), (-1000000.0, 3000000.0), None), 4000, 'C')": "dask|17654d7152339a18|terrain|('y', 'x')|bc2229948c75d22e|[('res', (3076923.0769230765, 2000000.0))]|rng=833e10142d061a3d|template_untouched=True",
 "((2, 13), 'float32', 'numpy', 0, ((-20000000.0, 20000000.0), (-1000000.0, 3000000.0), None), 1, 'F')": "numpy|41505872beeb5244|terrain|('y', 'x')|bc2229948c75d22e|[('res', (3076923.0769230765, 2000000.0))]|rng=a4225f6cd3b478a0|template_untouched=True",
 "((2, 13), 'float32', 'numpy', 10, ((-20000000.0, 20000000.0), (-1000000.0, 3000000.0), None), 4000, 'C')": "numpy|ca2fc65894b30bc4|terrain|('y', 'x')|bc2229948c75d22e|[('res', (3076923.0769230765, 2000000.0))]|rng=7b1bf3057ea8324f|template_untouched=True",
 "((2, 13), 'float32', 'numpy', 10, ((0, 500), (0, 500), None), 2.5, 'C')": "numpy|05f1149e883abac2|terrain|('y', 'x')|7acdffcb1d0b412d|[('res', (38.46153846153846, 250.0))]|rng=7b1bf3057ea8324f|template_untouched=True",
 "((2, 13), 'float32', 'numpy', 12345, ((0, 250), (100, 300), (0, 0, 500, 500)), 1, 'F')": "numpy|fa1b2663614cb0e0|terrain|('y', 'x')|dfbec074ef79a7b3|[('res', (19.23076923076923, 100.0))]|rng=833e10142d061a3d|template_untouched=True",
 "((2, 13), 'float32', 'numpy', 12345, ((0, 500), (0, 500), None), 1, 'C')": "numpy|b16281cbdf2941cc|terrain|('y', 'x')|7acdffcb1d0b412d|[('res', (38.46153846153846, 250.0))]|rng=833e10142d061a3d|template_untouched=True",
 "((2, 13), 'float64', 'dask', 10, ((-20000000.0, 20000000.0), (-1000000.0, 3000000.0), None), 1, 'C')": "dask|7b2c222cd600bec5|terrain|('y', 'x')|bc2229948c75d22e|[('res', (3076923.0769230765, 2000000.0))]|rng=7b1bf3057ea8324f|template_untouched=True",
 "((2, 13), 'float64', 'dask', 10, ((0, 500), (0, 500), None), 1, 'C')": "dask|7b2c222cd600bec5|terrain|('y', 'x')|7acdffcb1d0b412d|[('res', (38.46153846153846, 250.0))]|rng=7b1bf3057ea8324f|template_untouched=True",
 "((2, 13), 'float64', 'dask', 10, ((0, 500), (0, 500), None), 2.5, 'F')": "dask|3d01b804ea9ecb24|terrain|('y', 'x')|7acdffcb1d0b412d|[('res', (38.46153846153846, 250.0))]|rng=7b1bf3057ea8324f|template_untouched=True",
 "((2, 13), 'float64', 'dask', 12345, ((-20000000.0, 20000000.0), (-1000000.0, 3000000.0), None), 4000, 'C')": "dask|46abb1ad99db2f8a|terrain|('y', 'x')|bc2229948c75d22e|[('res', (3076923.0769230765, 2000000.0))]|rng=833e10142d061a3d|template_untouched=True",
 "((2, 13), 'float64', 'numpy', 0, ((0, 250), (100, 300), (0, 0, 500, 500)), 2.5, 'F')": "numpy|c545745bfc7da628|terrain|('y', 'x')|dfbec074ef79a7b3|[('res', (19.23076923076923, 100.0))]|rng=a4225f6cd3b478a0|template_untouched=True",
 "((2, 13), 'float64', 'numpy', 10, ((0, 250), (100, 300), (0, 0, 500, 500)), 4000, 'F')": "numpy|d245ad98c34c5032|terrain|('y', 'x')|dfbec074ef79a7b3|[('res', (19.23076923076923, 100.0))]|rng=7b1bf3057ea8324f|template_untouched=True",
 "((2, 13), 'int32', 'dask', 10, ((-20000000.0, 20000000.0), (-1000000.0, 3000000.0), None), 1, 'C')": "dask|7b2c222cd600bec5|terrain|('y', 'x')|bc2229948c75d22e|[('res', (3076923.0769230765, 2000000.0))]|rng=7b1bf3057ea8324f|template_untouched=True",
 "((2, 13), 'int32', 'dask', 10, ((-20000000.0, 20000000.0), (-1000000.0, 3000000.0), None), 4000, 'F')": "dask|addf70169585dc7a|terrain|('y', 'x')|bc2229948c75d22e|[('res', (3076923.0769230765, 2000000.0))]|rng=7b1bf3057ea8324f|template_untouched=True",
 "((2, 13), 'int32', 'dask', 12345, ((-20000000.0, 20000000.0), (-1000000.0, 3000000.0), None), 4000, 'F')": "dask|46abb1ad99db2f8a|terrain|('y', 'x')|bc2229948c75d22e|[('res', (3076923.0769230765, 2000000.0))]|rng=833e10142d061a3d|template_untouched=True",
 "((2, 13), 'uint8', 'numpy', 0, ((-20000000.0, 20000000.0), (-1000000.0, 3000000.0), None), 4000, 'C')": "numpy|3b9110b58db81dee|terrain|('y', 'x')|bc2229948c75d22e|[('res', (3076923.0769230765, 2000000.0))]|rng=a4225f6cd3b478a0|template_untouched=True",
 "((2, 13), 'uint8', 'numpy', 0, ((0, 500), (0, 500), None), 1, 'C')": "numpy|41505872beeb5244|terrain|('y', 'x')|7acdffcb1d0b412d|[('res', (38.46153846153846, 250.0))]|rng=a4225f6cd3b478a0|template_untouched=True",
 "((2, 13), 'uint8', 'numpy', 0, ((0, 500), (0, 500), None), 4000, 'C')": "numpy|3b9110b58db81dee|terrain|('y', 'x')|7acdffcb1d0b412d|[('res', (38.46153846153846, 250.0))]|rng=a4225f6cd3b478a0|template_untouched=True",
 "((2, 13), 'uint8', 'numpy', 10, ((0, 500), (0, 500), None), 1, 'F')": "numpy|2145562305499fe7|terrain|('y', 'x')|7acdffcb1d0b412d|[('res', (38.46153846153846, 250.0))]|rng=7b1bf3057ea8324f|template_untouched=True",
 "((2, 13), 'uint8', 'numpy', 12345, ((-20000000.0, 20000000.0), (-1000000.0, 3000000.0), None), 2.5, 'C')": "numpy|f1fc9e8d97035817|terrain|('y', 'x')|bc2229948c75d22e|[('res', (3076923.0769230765, 2000000.0))]|rng=833e10142d061a3d|template_untouched=True",
 "((2, 13), 'uint8', 'numpy', 12345, ((0, 500), (0, 500), None), 1, 'F')": "numpy|b16281cbdf2941cc|terrain|('y', 'x')|7acdffcb1d0b412d|[('res', (38.46153846153846, 250.0))]|rng=833e10142d061a3d|template_untouched=True",
 "((2, 13), 'uint8', 'numpy', 12345, ((0, 500), (0, 500), None), 4000, 'F')": "numpy|1b988e6dd8400277|terrain|('y', 'x')|7acdffcb1d0b412d|[('res', (38.46153846153846, 250.0))]|rng=833e10142d061a3d|template_untouched=True",
 "((2, 2), 'float32', 'dask', 0, ((0, 250), (100, 300), (0, 0, 500, 500)), 1, 'F')": "dask|ad38bbf3856fd94a|terrain|('y', 'x')|0d64d2d25211d64d|[('res', (125.0, 100.0))]|rng=a4225f6cd3b478a0|template_untouched=True",
 "((2, 2), 'float32', 'dask', 10, ((0, 250), (100, 300), (0, 0, 500, 500)), 2.5, 'F')": "dask|22c91f7499103cb7|terrain|('y', 'x')|0d64d2d25211d64d|[('res', (125.0, 100.0))]|rng=7b1bf3057ea8324f|template_untouched=True",
 "((2, 2), 'float32', 'numpy', 12345, ((0, 250), (100, 300), (0, 0, 500, 500)), 2.5, 'C')": "numpy|5f420e754cb56d9d|terrain|('y', 'x')|0d64d2d25211d64d|[('res', (125.0, 100.0))]|rng=833e10142d061a3d|template_untouched=True",
 "((2, 2), 'float32', 'numpy', 12345, ((0, 250), (100, 300), (0, 0, 500, 500)), 2.5, 'F')": "numpy|5f420e754cb56d9d|terrain|('y', 'x')|0d64d2d25211d64d|[('res', (125.0, 100.0))]|rng=833e10142d061a3d|template_untouched=True",
 "((2, 2), 'float64', 'dask', 0, ((-20000000.0, 20000000.0), (-1000000.0, 3000000.0), None), 4000, 'F')": "dask|df5e94724443e593|terrain|('y', 'x')|d9e5f1b276d5273e|[('res', (20000000.0, 2000000.0))]|rng=a4225f6cd3b478a0|template_untouched=True",
 "((2, 2), 'float64', 'dask', 0, ((0, 250), (100, 300), (0, 0, 500, 500)), 4000, 'C')": "dask|2927b781c53cfc03|terrain|('y', 'x')|0d64d2d25211d64d|[('res', (125.0, 100.0))]|rng=a4225f6cd3b478a0|template_untouched=True",
 "((2, 2), 'float64', 'dask', 0, ((0, 500), (0, 500), None), 4000, 'F')": "dask|df5e94724443e593|terrain|('y', 'x')|ec7eb1ab30e1e1a6|[('res', (250.0, 250.0))]|rng=a4225f6cd3b478a0|template_untouched=True",
 "((2, 2), 'float64', 'dask', 10, ((0, 250), (100, 300), (0, 0, 500, 500)), 4000, 'F')": "dask|a8c5eb167078b04c|terrain|('y', 'x')|0d64d2d25211d64d|[('res', (125.0, 100.0))]|rng=7b1bf3057ea8324f|template_untouched=True",
 "((2, 2), 'float64', 'numpy', 0, ((-20000000.0, 20000000.0), (-1000000.0, 3000000.0), None), 1, 'C')": "numpy|1df113051ab1ac25|terrain|('y', 'x')|d9e5f1b276d5273e|[('res', (20000000.0, 2000000.0))]|rng=a4225f6cd3b478a0|template_untouched=True",
 "((2, 2), 'float64', 'numpy', 0, ((0, 500), (0, 500), None), 1, 'F')": "numpy|1df113051ab1ac25|terrain|('y', 'x')|ec7eb1ab30e1e1a6|[('res', (250.0, 250.0))]|rng=a4225f6cd3b478a0|template_untouched=True",
 "((2, 2), 'uint8', 'dask', 12345, ((0, 250), (100, 300), (0, 0, 500, 500)), 1, 'F')": "dask|228ac3153217d193|terrain|('y', 'x')|0d64d2d25211d64d|[('res', (125.0, 100.0))]|rng=833e10142d061a3d|template_untouched=True",
 "((2, 2), 'uint8', 'numpy', 10, ((-20000000.0, 20000000.0), (-1000000.0, 3000000.0), None), 4000, 'F')": "numpy|fb54b5ff85a2d6c2|terrain|('y', 'x')|d9e5f1b276d5273e|[('res', (20000000.0, 2000000.0))]|rng=7b1bf3057ea8324f|template_untouched=True",
 "((5, 8), 'float32', 'dask', 10, ((0, 500), (0, 500), None), 4000, 'C')": "dask|22d9b505f26f5f80|terrain|('y', 'x')|17743a2c71f4de94|[('res', (62.5, 100.0))]|rng=7b1bf3057ea8324f|template_untouched=True",
 "((5, 8), 'float32', 'dask', 12345, ((0, 250), (100, 300), (0, 0, 500, 500)), 2.5, 'C')": "dask|c550dc45c22cc538|terrain|('y', 'x')|b66ab25ebf30765e|[('res', (31.25, 40.0))]|rng=833e10142d061a3d|template_untouched=True",
 "((5, 8), 'float64', 'dask', 0, ((0, 250), (100, 300), (0, 0, 500, 500)), 2.5, 'F')": "dask|1f8b902f86c8e9ee|terrain|('y', 'x')|b66ab25ebf30765e|[('res', (31.25, 40.0))]|rng=a4225f6cd3b478a0|template_untouched=True",
 "((5, 8), 'float64', 'dask', 0, ((0, 500), (0, 500), None), 4000, 'F')": "dask|414227408f801041|terrain|('y', 'x')|17743a2c71f4de94|[('res', (62.5, 100.0))]|rng=a4225f6cd3b478a0|template_untouched=True",
 "((5, 8), 'float64', 'dask', 10, ((0, 500), (0, 500), None), 4000, 'F')": "dask|4be91a6c7a132473|terrain|('y', 'x')|17743a2c71f4de94|[('res', (62.5, 100.0))]|rng=7b1bf3057ea8324f|template_untouched=True",
 "((5, 8), 'float64', 'dask', 12345, ((-20000000.0, 20000000.0), (-1000000.0, 3000000.0), None), 2.5, 'F')": "dask|9ed14b0a36772142|terrain|('y', 'x')|8485e928638c5ca9|[('res', (5000000.0, 800000.0))]|rng=833e10142d061a3d|template_untouched=True",
 "((5, 8), 'int32', 'dask', 0, ((0, 250), (100, 300), (0, 0, 500, 500)), 4000, 'F')": "dask|ba91e6fa5e229eba|terrain|('y', 'x')|b66ab25ebf30765e|[('res', (31.25, 40.0))]|rng=a4225f6cd3b478a0|template_untouched=True",
 "((5, 8), 'int32', 'dask', 12345, ((-20000000.0, 20000000.0), (-1000000.0, 3000000.0), None), 2.5, 'C')": "dask|9ed14b0a36772142|terrain|('y', 'x')|8485e928638c5ca9|[('res', (5000000.0, 800000.0))]|rng=833e10142d061a3d|template_untouched=True",
 "((5, 8), 'uint8', 'dask', 10, ((0, 250), (100, 300), (0, 0, 500, 500)), 1, 'F')": "dask|0b3b550540c16d73|terrain|('y', 'x')|b66ab25ebf30765e|[('res', (31.25, 40.0))]|rng=7b1bf3057ea8324f|template_untouched=True",
 "((5, 8), 'uint8', 'dask', 12345, ((0, 500), (0, 500), None), 2.5, 'F')": "dask|4fc5765fc35f899e|terrain|('y', 'x')|17743a2c71f4de94|[('res', (62.5, 100.0))]|rng=833e10142d061a3d|template_untouched=True",
 "((5, 8), 'uint8', 'numpy', 0, ((-20000000.0, 20000000.0), (-1000000.0, 3000000.0), None), 4000, 'F')": "numpy|511abdac957de7ed|terrain|('y', 'x')|8485e928638c5ca9|[('res', (5000000.0, 800000.0))]|rng=a4225f6cd3b478a0|template_untouched=True",
 "((5, 8), 'uint8', 'numpy', 10, ((0, 250), (100, 300), (0, 0, 500, 500)), 4000, 'C')": "numpy|aafe180b424b51a5|terrain|('y', 'x')|b66ab25ebf30765e|[('res', (31.25, 40.0))]|rng=7b1bf3057ea8324f|template_untouched=True",
 "((7, 11), 'float32', 'numpy', 10, ((0, 500), (0, 500), None), 2.5, 'C')": "numpy|bb3a0ee9f37458f9|terrain|('y', 'x')|b7dbca9926f24855|[('res', (45.45454545454545, 71.42857142857143))]|rng=7b1bf3057ea8324f|template_untouched=True",
 "((7, 11), 'float32', 'numpy', 10, ((0, 500), (0, 500), None), 4000, 'C')": "numpy|67f10acf02ede66f|terrain|('y', 'x')|b7dbca9926f24855|[('res', (45.45454545454545, 71.42857142857143))]|rng=7b1bf3057ea8324f|template_untouched=True",
 "((7, 11), 'float64', 'dask', 0, ((0, 500), (0, 500), None), 1, 'C')": "dask|3aeebb8a657fa228|terrain|('y', 'x')|b7dbca9926f24855|[('res', (45.45454545454545, 71.42857142857143))]|rng=a4225f6cd3b478a0|template_untouched=True",
 "((7, 11), 'float64', 'dask', 10, ((-20000000.0, 20000000.0), (-1000000.0, 3000000.0), None), 2.5, 'C')": "dask|7c0163b4fa56ddf3|terrain|('y', 'x')|50bc27275d7dc8b2|[('res', (3636363.636363636, "
                                                                                                           '571428.5714285715))]|rng=7b1bf3057ea8324f|template_untouched=True',
 "((7, 11), 'float64', 'dask', 12345, ((0, 500), (0, 500), None), 4000, 'F')": "dask|785cbf76cb9da4a8|terrain|('y', 'x')|b7dbca9926f24855|[('res', (45.45454545454545, 71.42857142857143))]|rng=833e10142d061a3d|template_untouched=True",
 "((7, 11), 'int32', 'numpy', 10, ((0, 250), (100, 300), (0, 0, 500, 500)), 4000, 'F')": "numpy|c3da9252ea1ffdb2|terrain|('y', 'x')|5db673da9e529400|[('res', (22.727272727272727, 28.571428571428566))]|rng=7b1bf3057ea8324f|template_untouched=True",
 "((7, 11), 'uint8', 'numpy', 0, ((0, 500), (0, 500), None), 1, 'F')": "numpy|b666bf519c3cb796|terrain|('y', 'x')|b7dbca9926f24855|[('res', (45.45454545454545, 71.42857142857143))]|rng=a4225f6cd3b478a0|template_untouched=True",
 "((7, 11), 'uint8', 'numpy', 12345, ((0, 250), (100, 300), (0, 0, 500, 500)), 2.5, 'F')": "numpy|db2221cc0191cc8c|terrain|('y', 'x')|5db673da9e529400|[('res', (22.727272727272727, 28.571428571428566))]|rng=833e10142d061a3d|template_untouched=True",
 "((9, 2), 'float32', 'dask', 10, ((0, 250), (100, 300), (0, 0, 500, 500)), 4000, 'F')": "dask|2cb21da07a49db6f|terrain|('y', 'x')|65c5b8b14f9b366d|[('res', (125.0, 22.222222222222225))]|rng=7b1bf3057ea8324f|template_untouched=True",
 "((9, 2), 'float32', 'dask', 10, ((0, 500), (0, 500), None), 4000, 'C')": "dask|cf6f8f23268e6b77|terrain|('y', 'x')|bfe09dc2b7baed8a|[('res', (250.0, 55.555555555555564))]|rng=7b1bf3057ea8324f|template_untouched=True",
 "((9, 2), 'float32', 'dask', 12345, ((0, 500), (0, 500), None), 1, 'C')": "dask|039391e237782950|terrain|('y', 'x')|bfe09dc2b7baed8a|[('res', (250.0, 55.555555555555564))]|rng=833e10142d061a3d|template_untouched=True",
 "((9, 2), 'float32', 'numpy', 0, ((-20000000.0, 20000000.0), (-1000000.0, 3000000.0), None), 4000, 'C')": "numpy|ac3c9d8da78e3d6c|terrain|('y', 'x')|7b3af5f949bc03d0|[('res', (20000000.0, 444444.4444444444))]|rng=a4225f6cd3b478a0|template_untouched=True",
 "((9, 2), 'float32', 'numpy', 0, ((0, 250), (100, 300), (0, 0, 500, 500)), 4000, 'C')": "numpy|2e9165620acc3ffa|terrain|('y', 'x')|65c5b8b14f9b366d|[('res', (125.0, 22.222222222222225))]|rng=a4225f6cd3b478a0|template_untouched=True",
 "((9, 2), 'float32', 'numpy', 12345, ((-20000000.0, 20000000.0), (-1000000.0, 3000000.0), None), 4000, 'C')": "numpy|7cddd10a88e0ef9d|terrain|('y', 'x')|7b3af5f949bc03d0|[('res', (20000000.0, 444444.4444444444))]|rng=833e10142d061a3d|template_untouched=True",
 "((9, 2), 'float64', 'dask', 0, ((0, 250), (100, 300), (0, 0, 500, 500)), 4000, 'F')": "dask|583b8fa3f9387cf2|terrain|('y', 'x')|65c5b8b14f9b366d|[('res', (125.0, 22.222222222222225))]|rng=a4225f6cd3b478a0|template_untouched=True",
 "((9, 2), 'float64', 'dask', 0, ((0, 500), (0, 500), None), 4000, 'C')": "dask|67480503cbcbe835|terrain|('y', 'x')|bfe09dc2b7baed8a|[('res', (250.0, 55.555555555555564))]|rng=a4225f6cd3b478a0|template_untouched=True",
 "((9, 2), 'float64', 'dask', 10, ((-20000000.0, 20000000.0), (-1000000.0, 3000000.0), None), 4000, 'C')": "dask|7d727fb28f73fea1|terrain|('y', 'x')|7b3af5f949bc03d0|[('res', (20000000.0, 444444.4444444444))]|rng=7b1bf3057ea8324f|template_untouched=True",
 "((9, 2), 'float64', 'dask', 12345, ((0, 500), (0, 500), None), 4000, 'C')": "dask|2aba38839e11e00e|terrain|('y', 'x')|bfe09dc2b7baed8a|[('res', (250.0, 55.555555555555564))]|rng=833e10142d061a3d|template_untouched=True",
 "((9, 2), 'float64', 'numpy', 10, ((-20000000.0, 20000000.0), (-1000000.0, 3000000.0), None), 4000, 'C')": "numpy|7d727fb28f73fea1|terrain|('y', 'x')|7b3af5f949bc03d0|[('res', (20000000.0, 444444.4444444444))]|rng=7b1bf3057ea8324f|template_untouched=True",
 "((9, 2), 'float64', 'numpy', 10, ((0, 500), (0, 500), None), 4000, 'F')": "numpy|7d727fb28f73fea1|terrain|('y', 'x')|bfe09dc2b7baed8a|[('res', (250.0, 55.555555555555564))]|rng=7b1bf3057ea8324f|template_untouched=True",
 "((9, 2), 'int32', 'dask', 0, ((-20000000.0, 20000000.0), (-1000000.0, 3000000.0), None), 4000, 'C')": "dask|67480503cbcbe835|terrain|('y', 'x')|7b3af5f949bc03d0|[('res', (20000000.0, 444444.4444444444))]|rng=a4225f6cd3b478a0|template_untouched=True",
 "((9, 2), 'int32', 'dask', 12345, ((0, 500), (0, 500), None), 4000, 'C')": "dask|2aba38839e11e00e|terrain|('y', 'x')|bfe09dc2b7baed8a|[('res', (250.0, 55.555555555555564))]|rng=833e10142d061a3d|template_untouched=True",
 "((9, 2), 'uint8', 'dask', 0, ((0, 250), (100, 300), (0, 0, 500, 500)), 1, 'C')": "dask|342bf0a333cb0988|terrain|('y', 'x')|65c5b8b14f9b366d|[('res', (125.0, 22.222222222222225))]|rng=a4225f6cd3b478a0|template_untouched=True",
 "((9, 2), 'uint8', 'dask', 0, ((0, 250), (100, 300), (0, 0, 500, 500)), 4000, 'C')": "dask|d07b77fd6fff1f34|terrain|('y', 'x')|65c5b8b14f9b366d|[('res', (125.0, 22.222222222222225))]|rng=a4225f6cd3b478a0|template_untouched=True",
 "((9, 2), 'uint8', 'dask', 12345, ((0, 500), (0, 500), None), 1, 'F')": "dask|039391e237782950|terrain|('y', 'x')|bfe09dc2b7baed8a|[('res', (250.0, 55.555555555555564))]|rng=833e10142d061a3d|template_untouched=True",
 "((9, 2), 'uint8', 'numpy', 0, ((0, 500), (0, 500), None), 4000, 'F')": "numpy|ac3c9d8da78e3d6c|terrain|('y', 'x')|bfe09dc2b7baed8a|[('res', (250.0, 55.555555555555564))]|rng=a4225f6cd3b478a0|template_untouched=True"}


def main():
    t1 = table('forward')
    if '--record' in sys.argv:
        import pprint
        pprint.pprint(t1, width=260)
        return 0
    t2 = table('shuffled')
    bad = independent_check()
    if t1 != t2:
        print('results depend on call order')
        bad += 1
    for k, v in EXPECTED.items():
        if t1.get(k) != v:
            print('MISMATCH', k, t1.get(k), v)
            bad += 1
    if set(t1) != set(EXPECTED):
        print('case set differs')
        bad += 1
    print('xrspatial from', xrspatial.__file__, '-', len(t1), 'cases,', bad, 'mismatches')
    return 1 if bad else 0


if __name__ == '__main__':
    sys.exit(main())
