"""Differential test for property C13 (spectral indices / true_color).

Run from inside the worktree:
    cd /tmp/t3/TC13 && PYTHONPATH=/tmp/t3/TC13 /venv/bin/python /tmp/t3/out/TC13-tK/equiv.py

Two independent checks are made for every input case:
  1. the result equals (bit for bit, NaN == NaN) an independent numpy
     evaluation of the published band formula that mimics the kernel typing
     (float32 bands, float64 scalars, float32 store);
  2. a sha256 digest over dtype/shape/bytes of every result equals the digest
     recorded from the UNMODIFIED tree (EXPECTED_DIGEST below).
`--record` prints the digest instead of comparing it.
Exit code 0 iff everything is identical.
"""
import hashlib
import sys
import warnings

import dask.array as da
import numpy as np
import xarray as xr

import xrspatial
from xrspatial import multispectral as ms

EXPECTED_DIGEST = "be534eb341a4cdaa6fcc580f6fe7525c9373c8e80347a199f9839bfe75afb186"

failures = []
hasher = hashlib.sha256()


def feed(tag, arr):
    arr = np.ascontiguousarray(arr)
    hasher.update(tag.encode())
    hasher.update(str(arr.dtype).encode())
    hasher.update(str(arr.shape).encode())
    hasher.update(arr.tobytes())


def same(a, b):
    return (a.dtype == b.dtype and a.shape == b.shape
            and np.array_equal(a, b, equal_nan=True))


def check(tag, got, want):
    if not same(got, want):
        failures.append(tag)
        print("MISMATCH", tag)


# ---------------------------------------------------------------- inputs
def make_bands(dtype, shape, seed, nbands=3):
    rng = np.random.RandomState(seed)
    bands = []
    for k in range(nbands):
        if np.issubdtype(dtype, np.integer):
            hi = min(np.iinfo(dtype).max, 4000)
            a = rng.randint(0, hi + 1, size=shape).astype(dtype)
        else:
            a = (rng.rand(*shape) * 3000).astype(dtype)
        bands.append(a)
    n = bands[0].size
    flat = [b.reshape(-1) for b in bands]
    # zeros everywhere at cell 0, equal bands at cell 1, zero in one band
    flat[0][0] = 0
    for f in flat[1:]:
        f[0] = 0
    if n > 1:
        for f in flat[1:]:
            f[1] = flat[0][1]
    if n > 2:
        flat[1][2] = 0
    if n > 3:
        flat[0][3] = 0
    if n > 6 and nbands > 2:
        # nir + blue == 2 * red  /  swir + tir == 0 style degeneracies
        flat[0][6] = 4
        flat[1][6] = 4
        flat[2][6] = 4
    if np.issubdtype(dtype, np.floating):
        if n > 4:
            flat[0][4] = np.nan
        if n > 5:
            flat[1][5] = np.nan
        if n > 7 and nbands > 2:
            flat[2][7] = np.nan
        if n > 8:
            for f in flat:
                f[8] = np.nan
        if n > 9:
            flat[0][9] = -5.5  # negative band value
            flat[1][9] = 5.5   # denominators cancelling exactly
    return bands


def wrap(a, chunks=None):
    h, w = a.shape
    data = a if chunks is None else da.from_array(a, chunks=chunks)
    return xr.DataArray(data, dims=['y', 'x'],
                        coords={'y': np.arange(h)[::-1] * 1.5, 'x': np.arange(w) * 2.0},
                        attrs={'res': 1, 'crs': 'x'}, name='band')


# ------------------------------------------------- independent references
def _store(num, den):
    """float32 store of num/den where den != 0 (NaN den stores NaN)."""
    out = np.full(num.shape, np.nan, dtype=np.float32)
    with np.errstate(all='ignore'):
        q = num / den
    m = den != 0.0
    out[m] = q[m].astype(np.float32)
    return out


def f4(a):
    return a.astype('f4')


def ref_norm(a, b):
    a, b = f4(a), f4(b)
    with np.errstate(all='ignore'):
        return _store(a - b, a + b)


def ref_arvi(nir, red, blue):
    nir, red, blue = f4(nir), f4(red), f4(blue)
    with np.errstate(all='ignore'):
        r2 = 2.0 * red.astype('f8')
        return _store(nir.astype('f8') - r2 + blue.astype('f8'),
                      nir.astype('f8') + r2 + blue.astype('f8'))


def ref_evi(nir, red, blue, c1, c2, sf, gain):
    nir, red, blue = f4(nir), f4(red), f4(blue)
    with np.errstate(all='ignore'):
        num = (nir - red).astype('f8')
        den = (nir.astype('f8') + np.float64(c1) * red.astype('f8')) \
            - np.float64(c2) * blue.astype('f8') + np.float64(sf)
        out = np.full(nir.shape, np.nan, dtype=np.float32)
        q = np.float64(gain) * (num / den)
        m = den != 0.0
        out[m] = q[m].astype(np.float32)
    return out


def ref_gci(nir, green):
    nir, green = f4(nir), f4(green)
    out = np.full(nir.shape, np.nan, dtype=np.float32)
    with np.errstate(all='ignore'):
        q = (nir / green).astype('f8') - 1
    m = green != 0
    out[m] = q[m].astype(np.float32)
    return out


def ref_savi(nir, red, sf):
    nir, red = f4(nir), f4(red)
    with np.errstate(all='ignore'):
        num = (nir - red).astype('f8')
        den = ((nir + red).astype('f8') + np.float64(sf)) * (1.0 + np.float64(sf))
        return _store(num, den)


def ref_sipi(nir, red, blue):
    nir, red, blue = f4(nir), f4(red), f4(blue)
    with np.errstate(all='ignore'):
        return _store(nir - blue, nir - red)


def ref_ebbi(red, swir, tir):
    red, swir, tir = f4(red), f4(swir), f4(tir)
    with np.errstate(all='ignore'):
        num = (swir - red).astype('f8')
        den = 10 * np.sqrt(swir + tir).astype('f8')
        return _store(num, den)


def ref_alpha(r, nodata):
    r = np.asarray(r)
    with np.errstate(all='ignore'):
        bad = np.isnan(r.astype('f8')) | (r <= nodata)
    return np.where(bad, 0, 255).astype(np.uint8)


# ---------------------------------------------------------------- driver
def run(tag, func, ref, arrays, kwargs, chunks, ref_args=()):
    np_aggs = [wrap(a) for a in arrays]
    out_np = func(*np_aggs, **kwargs)
    assert isinstance(out_np.data, np.ndarray), tag
    res = out_np.data
    feed(tag, res)
    if res.dtype != np.float32:
        failures.append(tag + ':dtype')
    if np.isinf(res).any():
        failures.append(tag + ':inf')
    if ref is not None:
        check(tag + ':ref', res, ref(*arrays, *ref_args))
    # metadata preserved from the documented template band
    hasher.update(repr((out_np.name, out_np.dims, sorted(out_np.attrs.items()),
                        [(k, v.values.tolist()) for k, v in out_np.coords.items()])).encode())
    for ch in chunks:
        dk_aggs = [wrap(a, ch) for a in arrays]
        out_dk = func(*dk_aggs, **kwargs)
        if not isinstance(out_dk.data, da.Array):
            failures.append(tag + ':notdask')
        got = out_dk.data.compute()
        check(tag + ':dask%s' % (ch,), got, res)
        feed(tag + ':dask', got)
    return res


SHAPES = [(1, 1), (3, 5), (7, 4), (13, 17), (2, 33)]
DTYPES = [np.uint8, np.uint16, np.int32, np.int64, np.float32, np.float64]
CHUNKS = {(1, 1): [(1, 1)], (3, 5): [(2, 3), (3, 5)], (7, 4): [(3, 3)],
          (13, 17): [(5, 7), (13, 4)], (2, 33): [(1, 10)]}


def main():
    print("xrspatial from", xrspatial.__file__)
    seed = 0
    for dtype in DTYPES:
        for shape in SHAPES:
            seed += 1
            b3 = make_bands(dtype, shape, seed, 3)
            b2 = b3[:2]
            ch = CHUNKS[shape]
            t = "%s-%s" % (np.dtype(dtype).name, shape)

            # normalised-difference family
            for nm, fn in (('nbr', ms.nbr), ('nbr2', ms.nbr2),
                           ('ndvi', ms.ndvi), ('ndmi', ms.ndmi)):
                res = run(nm + t, fn, ref_norm, b2, {}, ch)
                with np.errstate(all='ignore'):
                    nonneg = (b2[0] >= 0) & (b2[1] >= 0)
                ok = res[nonneg & ~np.isnan(res)]
                if ((ok < -1) | (ok > 1)).any():
                    failures.append(nm + t + ':range')
                swapped = fn(wrap(b2[1]), wrap(b2[0])).data
                feed(nm + t + ':swap', swapped)
                check(nm + t + ':antisym', swapped, -res)
                if np.issubdtype(dtype, np.floating):
                    scaled = fn(wrap(b2[0] * dtype(4)), wrap(b2[1] * dtype(4))).data
                    check(nm + t + ':scale', scaled, res)
                # explicit name, keyword call
                named = fn(wrap(b2[0]), wrap(b2[1]), name='custom')
                if named.name != 'custom':
                    failures.append(nm + t + ':name')

            run('arvi' + t, ms.arvi, ref_arvi, b3, {}, ch)
            run('sipi' + t, ms.sipi, ref_sipi, b3, {}, ch)
            run('ebbi' + t, ms.ebbi, ref_ebbi, b3, {}, ch)
            run('gci' + t, ms.gci, ref_gci, b2, {}, ch)
            for sf in (-1.0, -0.5, 0.0, 0.25, 1.0, 1, 0, -1):
                run('savi%s%s' % (sf, t), ms.savi, ref_savi, b2,
                    {'soil_factor': sf}, ch[:1], ref_args=(sf,))
            run('savi-default' + t, ms.savi, None, b2, {}, ch)
            for (c1, c2, sf, gain) in ((6.0, 7.5, 1.0, 2.5), (0.0, 0.0, 0.0, 0.0),
                                       (1.0, 2.0, -1.0, 1.0), (3.5, 0.5, 0.5, 10.0),
                                       (6, 7, 1, 2)):
                kw = dict(c1=c1, c2=c2, soil_factor=sf, gain=gain)
                run('evi%s%s' % ((c1, c2, sf, gain), t), ms.evi,
                    ref_evi if all(isinstance(v, float) for v in (c1, c2, sf, gain)) else None,
                    b3, kw, ch[:1], ref_args=(c1, c2, sf, gain))
            run('evi-default' + t, ms.evi, None, b3, {}, ch)

            # true_color
            if shape == (1, 1):
                continue
            for nodata in (1, 0, 100.5, -1):
                for (c, th) in ((10.0, 0.125), (3.0, 0.5)):
                    tag = 'tc%s%s%s%s' % (nodata, c, th, t)
                    aggs = [wrap(a) for a in b3]
                    out = ms.true_color(*aggs, nodata=nodata, c=c, th=th)
                    img = np.asarray(out.data)
                    feed(tag, img)
                    hasher.update(repr((out.name, out.dims, sorted(out.attrs.items()),
                                        [(k, v.values.tolist())
                                         for k, v in out.coords.items()])).encode())
                    if img.dtype != np.uint8 or img.shape != shape + (4,):
                        failures.append(tag + ':type')
                    check(tag + ':alpha', img[:, :, 3], ref_alpha(b3[0], nodata))
                    for chk in ch:
                        daggs = [wrap(a, chk) for a in b3]
                        outd = ms.true_color(*daggs, nodata=nodata, c=c, th=th)
                        if not isinstance(outd.data, da.Array):
                            failures.append(tag + ':notdask')
                        with warnings.catch_warnings():
                            warnings.simplefilter('ignore')
                            imgd = outd.data.compute()
                        feed(tag + ':dask', imgd)
                        check(tag + ':dask%s' % (chk,), imgd, img)

    # validation behaviour unchanged
    a = wrap(np.ones((3, 3)))
    b = wrap(np.ones((3, 4)))
    for tag, call in (
        ('savi-hi', lambda: ms.savi(a, a, soil_factor=1.5)),
        ('savi-lo', lambda: ms.savi(a, a, soil_factor=-1.0001)),
        ('savi-nan', lambda: ms.savi(a, a, soil_factor=float('nan'))),
        ('evi-sf', lambda: ms.evi(a, a, a, soil_factor=2.0)),
        ('evi-gain', lambda: ms.evi(a, a, a, gain=-1.0)),
        ('evi-c1', lambda: ms.evi(a, a, a, c1='x')),
        ('ndvi-shape', lambda: ms.ndvi(a, b)),
        ('nbr-shape', lambda: ms.nbr(a, b)),
        ('nbr2-shape', lambda: ms.nbr2(a, b)),
        ('ndmi-shape', lambda: ms.ndmi(a, b)),
        ('ndvi-mixed', lambda: ms.ndvi(a, wrap(np.ones((3, 3)), (2, 2)))),
        ('gci-shape', lambda: ms.gci(a, b)),
    ):
        try:
            call()
            outcome = 'ok'
        except Exception as e:  # noqa
            outcome = type(e).__name__ + ':' + str(e)
        hasher.update((tag + '=' + outcome).encode())

    digest = hasher.hexdigest()
    if '--record' in sys.argv:
        print("DIGEST", digest)
    elif digest != EXPECTED_DIGEST:
        failures.append('digest %s != recorded %s' % (digest, EXPECTED_DIGEST))

    if failures:
        print("FAILED:", len(failures), failures[:20])
        return 1
    print("OK: all results identical")
    return 0


if __name__ == '__main__':
    sys.exit(main())
