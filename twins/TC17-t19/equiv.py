"""Differential test for xrspatial.local (property C17).

Runs every local operator on a deterministic family of datasets and compares
  (a) against an independent per-cell oracle (values, dtype, shape, attrs), and
  (b) against a sha256 digest recorded from the unmodified tree.
Exit code 0 iff everything is identical.
"""
import hashlib
import itertools
import math
import sys
import warnings

import numpy as np
import xarray as xr

import xrspatial
from xrspatial import local as L

warnings.filterwarnings('ignore')

RECORDED_DIGEST = '8959e79fb4269e30014c6eaa07d002c3dedf57da564c631231c02c3710be4245'

FAILS = []


def fail(msg):
    FAILS.append(msg)
    if len(FAILS) <= 20:
        print('MISMATCH:', msg)


# ----------------------------------------------------------------------------
# inputs
# ----------------------------------------------------------------------------
SHAPES = [(1, 1), (1, 5), (5, 1), (3, 4), (7, 3), (2, 9), (6, 8)]
DTYPES = [np.int8, np.int32, np.int64, np.uint8, np.uint16, np.float32,
          np.float64, np.bool_]


def make_layer(rng, shape, dtype, mode):
    n = shape[0] * shape[1]
    if dtype is np.bool_:
        return rng.integers(0, 2, size=shape).astype(bool)
    if mode == 'binary':
        # heavy ties: many repeated value tuples across cells
        a = rng.integers(0, 2, size=shape).astype(dtype)
        if np.issubdtype(dtype, np.floating) and n > 3:
            a.reshape(-1)[rng.choice(n, size=max(1, n // 8), replace=False)] = np.nan
        return a
    if np.issubdtype(dtype, np.integer):
        lo = 0 if np.issubdtype(dtype, np.unsignedinteger) else -3
        hi = 4 if mode != 'wide' else 100
        return rng.integers(lo, hi, size=shape).astype(dtype)
    # floats
    if mode == 'ties':
        a = rng.integers(-2, 3, size=shape).astype(dtype)
    elif mode == 'wide':
        a = (rng.standard_normal(shape) * 1e3).astype(dtype)
    else:
        a = np.round(rng.standard_normal(shape), 1).astype(dtype)
    flat = a.reshape(-1)
    if mode in ('nan', 'ties') and n > 1:
        k = max(1, n // 4)
        flat[rng.choice(n, size=k, replace=False)] = np.nan
    if mode == 'special' and n > 2:
        flat[0] = np.inf
        flat[1] = -np.inf
        flat[2] = -0.0
    if mode == 'allnan':
        flat[:] = np.nan
    return flat.reshape(shape)


def layout(arr, how):
    if how == 'F':
        return np.asfortranarray(arr)
    if how == 'strided':
        big = np.zeros((arr.shape[0] * 2, arr.shape[1] * 2), dtype=arr.dtype)
        big[::2, ::2] = arr
        return big[::2, ::2]
    return arr


def datasets():
    rng = np.random.default_rng(20260117)
    modes = ['plain', 'ties', 'nan', 'binary', 'wide', 'special', 'binary',
             'allnan']
    case = 0
    for shape in SHAPES:
        for nlayers in (2, 3, 4, 5, 6):
            for rep in range(4):
                case += 1
                mode = modes[int(rng.integers(len(modes)))]
                lay = ['C', 'F', 'strided'][int(rng.integers(3))]
                names = ['v%d' % i for i in range(nlayers)]
                if rep == 0 or rep == 3:
                    dts = [np.float64] * nlayers
                elif rep == 1:
                    dts = [np.int64] * nlayers
                else:
                    dts = [DTYPES[rng.integers(len(DTYPES))]
                           for _ in range(nlayers)]
                data = {}
                for nm, dt in zip(names, dts):
                    arr = make_layer(rng, shape, dt, mode)
                    arr = layout(arr, lay)
                    data[nm] = (('y', 'x'), arr)
                ref = rng.integers(1, nlayers + 1, size=shape)
                if case % 4 == 0:
                    ref = ref.astype(np.int32)
                data['ref'] = (('y', 'x'), ref)
                yield case, xr.Dataset(data), names


def var_choices(rng, names):
    out = [None, list(names), list(reversed(names))]
    if len(names) > 2:
        k = int(rng.integers(2, len(names)))
        sub = [names[i] for i in rng.permutation(len(names))[:k]]
        out.append(sub)
    return out


# ----------------------------------------------------------------------------
# independent oracle: straight from the definitions, one cell at a time
# ----------------------------------------------------------------------------
def cells(ds, names):
    arrs = [np.asarray(ds[n].data) for n in names]
    ny, nx = arrs[0].shape
    for i in range(ny):
        for j in range(nx):
            yield tuple(a[i, j].item() for a in arrs)


def has_nan(vals):
    return any(isinstance(v, float) and math.isnan(v) for v in vals)


def finish(vals, shape):
    # list of python / numpy scalars -> array; dtype rule: integer unless a
    # float (NaN included) is present
    return np.array(vals).reshape(shape)


NPF = {'max': np.max, 'mean': np.mean, 'median': np.median, 'min': np.min,
       'std': np.std, 'sum': np.sum}


def o_cell_stats(ds, names, func):
    shape = ds[names[0]].shape
    return finish([NPF[func](np.array(v)) for v in cells(ds, names)], shape)


def o_freq(ds, names, refname, op):
    shape = ds[names[0]].shape
    refs = np.asarray(ds[refname].data).reshape(-1)
    out = []
    for r, v in zip(refs, cells(ds, names)):
        if has_nan(v):
            out.append(float('nan'))
        else:
            out.append(sum(1 for x in v if op(r.item(), x)))
    return finish(out, shape)


def o_position(ds, names, lowest):
    shape = ds[names[0]].shape
    out = []
    for v in cells(ds, names):
        if has_nan(v):
            out.append(float('nan'))
            continue
        best = 0
        for k in range(1, len(v)):
            if (v[k] < v[best]) if lowest else (v[k] > v[best]):
                best = k
        out.append(best + 1)
    return finish(out, shape)


def o_rank(ds, names, refname):
    shape = ds[names[0]].shape
    refs = np.asarray(ds[refname].data).reshape(-1)
    out = []
    for r, v in zip(refs, cells(ds, names)):
        if has_nan(v) or r - 1 >= len(v):
            out.append(float('nan'))
        else:
            out.append(sorted(v)[int(r) - 1])
    return finish(out, shape)


def o_combine(ds, names):
    shape = ds[names[0]].shape
    ids, key, out = {}, {}, []
    for v in cells(ds, names):
        if has_nan(v):
            out.append(float('nan'))
            continue
        if v not in ids:
            ids[v] = len(ids) + 1
            key[ids[v]] = v
        out.append(ids[v])
    return finish(out, shape), key


# ----------------------------------------------------------------------------
# comparison / digest
# ----------------------------------------------------------------------------
H = hashlib.sha256()


def record(tag, res):
    if not isinstance(res, xr.DataArray):
        fail('%s: result is %r' % (tag, type(res)))
        return None
    arr = res.data
    if not isinstance(arr, np.ndarray):
        fail('%s: backing array is %r' % (tag, type(arr)))
        arr = np.asarray(arr)
    H.update(tag.encode())
    H.update(str(arr.dtype).encode())
    H.update(repr(arr.shape).encode())
    H.update(repr(res.dims).encode())
    H.update(np.ascontiguousarray(arr).tobytes())
    H.update(repr(sorted(res.attrs.items(), key=repr)).encode())
    H.update(repr([(k, [type(x).__name__ for x in v])
                   for k, v in res.attrs.get('key', {}).items()]).encode())
    return arr


def same(tag, got, exp):
    if got is None:
        return
    if got.dtype != exp.dtype:
        fail('%s: dtype %s != %s' % (tag, got.dtype, exp.dtype))
    if got.shape != exp.shape:
        fail('%s: shape %s != %s' % (tag, got.shape, exp.shape))
        return
    if np.ascontiguousarray(got).tobytes() != \
            np.ascontiguousarray(exp.astype(got.dtype)).tobytes():
        # allow -0.0 / 0.0 only if numerically identical? no: demand bit identity
        fail('%s: values differ\n%r\n%r' % (tag, got, exp))


def expect_error(tag, fn, *a, **k):
    try:
        fn(*a, **k)
    except Exception as e:  # noqa
        H.update((tag + ':' + type(e).__name__).encode())
    else:
        H.update((tag + ':noerror').encode())


def main():
    import operator
    if '/tmp/t5/TC17/' not in xrspatial.__file__:
        print('WARNING: xrspatial imported from', xrspatial.__file__)
    rng = np.random.default_rng(7)
    ncalls = 0
    for case, ds, names in datasets():
        for dv in var_choices(rng, names):
            eff = dv if dv is not None else names
            tag0 = 'c%d:%s' % (case, ','.join(eff) if dv else 'None')
            # operators without reference layer; data_vars=None uses all
            # variables of the dataset, so drop 'ref' for those calls
            ds_noref = ds.drop_vars('ref')
            for f in NPF:
                t = tag0 + ':cell_stats:' + f
                same(t, record(t, L.cell_stats(ds_noref, dv, f)),
                     o_cell_stats(ds, eff, f))
                ncalls += 1
            t = tag0 + ':lowest'
            same(t, record(t, L.lowest_position(ds_noref, dv)),
                 o_position(ds, eff, True))
            t = tag0 + ':highest'
            same(t, record(t, L.highest_position(ds_noref, dv)),
                 o_position(ds, eff, False))
            t = tag0 + ':combine'
            res = L.combine(ds_noref, dv)
            exp, key = o_combine(ds, eff)
            same(t, record(t, res), exp)
            if res.attrs.get('key') != key or \
                    list(res.attrs['key'].items()) != list(key.items()):
                fail(t + ': key differs')
            ncalls += 3
            # operators with a reference layer: dedicated int layer ...
            refs = ['ref']
            # ... and, for explicit data_vars, any unused data layer
            if dv is not None:
                refs += [n for n in names if n not in dv][:1]
            for refname in refs:
                lt = L.lesser_frequency(ds, refname, dv)
                eq = L.equal_frequency(ds, refname, dv)
                gt = L.greater_frequency(ds, refname, dv)
                if dv is None and refname == 'ref':
                    eff_r = names
                else:
                    eff_r = eff
                t = tag0 + ':ref=' + refname
                a = record(t + ':lt', lt)
                b = record(t + ':eq', eq)
                c = record(t + ':gt', gt)
                same(t + ':lt', a, o_freq(ds, eff_r, refname, operator.gt))
                same(t + ':eq', b, o_freq(ds, eff_r, refname, operator.eq))
                same(t + ':gt', c, o_freq(ds, eff_r, refname, operator.lt))
                ncalls += 3
                if refname == 'ref':
                    tot = a + b + c
                    ok = np.isnan(tot) | (tot == len(eff_r))
                    if not ok.all():
                        fail(t + ': frequencies do not sum to layer count')
                    t2 = t + ':rank'
                    same(t2, record(t2, L.rank(ds, refname, dv)),
                         o_rank(ds, eff_r, refname))
                    t3 = t + ':popularity'
                    record(t3, L.popularity(ds, refname, dv))
                    ncalls += 2

    # dask-backed dataset: results must be the same as for numpy
    try:
        import dask.array as da
        for case, ds, names in itertools.islice(datasets(), 20, 32):
            dds = ds.copy()
            for n in list(dds.data_vars):
                dds[n] = (('y', 'x'), da.from_array(np.asarray(ds[n].data),
                                                    chunks=(2, 2)))
            dnr, nr = dds.drop_vars('ref'), ds.drop_vars('ref')
            pairs = [
                ('cs', lambda d, r: L.cell_stats(r, None, 'mean')),
                ('lo', lambda d, r: L.lowest_position(r)),
                ('hi', lambda d, r: L.highest_position(r)),
                ('cb', lambda d, r: L.combine(r)),
                ('lt', lambda d, r: L.lesser_frequency(d, 'ref')),
                ('eq', lambda d, r: L.equal_frequency(d, 'ref')),
                ('gt', lambda d, r: L.greater_frequency(d, 'ref')),
                ('rk', lambda d, r: L.rank(d, 'ref')),
            ]
            for nm, fn in pairs:
                t = 'dask:c%d:%s' % (case, nm)
                try:
                    rd = fn(dds, dnr)
                except Exception as e:  # noqa
                    H.update((t + ':' + type(e).__name__).encode())
                    continue
                rn = fn(ds, nr)
                a = record(t, rd)
                same(t, a, np.asarray(rn.data))
                if rd.attrs != rn.attrs:
                    fail(t + ': attrs differ')
                ncalls += 1
    except ImportError:
        pass

    # error behaviour / degenerate inputs
    _, ds, names = next(datasets())
    ds1 = ds.drop_vars('ref')
    for nm, fn in [('cs', lambda d, v: L.cell_stats(d, v)),
                   ('lo', L.lowest_position), ('hi', L.highest_position),
                   ('cb', L.combine)]:
        expect_error(nm + ':single', fn, ds1, [names[0]])
        expect_error(nm + ':notlist', fn, ds1, 'v0')
        expect_error(nm + ':missing', fn, ds1, ['v0', 'zz'])
        expect_error(nm + ':notds', fn, ds1['v0'], None)
    for nm, fn in [('lt', L.lesser_frequency), ('eq', L.equal_frequency),
                   ('gt', L.greater_frequency), ('rk', L.rank)]:
        expect_error(nm + ':single', fn, ds, 'ref', [names[0]])
        expect_error(nm + ':refin', fn, ds, 'v0', ['v0', 'v1'])
        expect_error(nm + ':refmissing', fn, ds, 'zz', None)
        expect_error(nm + ':refnotstr', fn, ds, 3, None)
    expect_error('cs:badfunc', L.cell_stats, ds1, None, 'mode')
    empty = xr.Dataset({'a': (('y', 'x'), np.zeros((0, 3))),
                        'b': (('y', 'x'), np.zeros((0, 3)))})
    expect_error('lo:empty', L.lowest_position, empty)
    expect_error('cb:empty', L.combine, empty)
    expect_error('cs:empty', L.cell_stats, empty)

    digest = H.hexdigest()
    print('calls:', ncalls, 'digest:', digest)
    if '--record' in sys.argv:
        return 0
    if digest != RECORDED_DIGEST:
        fail('digest %s differs from recorded %s' % (digest, RECORDED_DIGEST))
    if FAILS:
        print('%d mismatches' % len(FAILS))
        return 1
    print('OK: identical')
    return 0


if __name__ == '__main__':
    sys.exit(main())
