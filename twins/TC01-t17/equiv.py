"""Differential test for the perlin / generate_terrain layer refactoring
(shared `_permutation_table` helper in xrspatial/perlin.py imported back into
xrspatial/terrain.py, `_NOISE_LAYERS` built once at import time).

perlin() and generate_terrain() are run on numpy and dask templates (several
dtypes, shapes, chunkings incl. 1-cell chunks, seeds, frequencies, schedulers)
and compared

  * exactly (bit for bit) against a sha256 digest of all results - and of the
    global numpy RNG state left behind by each call - recorded on the
    unmodified tree,
  * exactly between the dask and the numpy backend (same per-cell kernel,
    global min / max are order independent),
  * to float rounding against an independent pure-numpy Perlin implementation
    written in this file.

Exit status 0 when everything is identical, 1 otherwise.
"""
import hashlib
import sys
import warnings

import dask
import dask.array as da
import numpy as np
import xarray as xr

import xrspatial
from xrspatial import generate_terrain, perlin

RECORDED_DIGEST = "090041ef33e7e8c03d5bd9c25d2b4f62cab8795742d63ec916082c268c0dbb99"

warnings.simplefilter("ignore")
failures = []
digest = hashlib.sha256()


def feed(label, arr):
    arr = np.asarray(arr)
    digest.update(label.encode())
    digest.update(str(arr.dtype).encode())
    digest.update(str(arr.shape).encode())
    digest.update(np.ascontiguousarray(arr).tobytes())


def feed_rng_state(label):
    st = np.random.get_state()
    digest.update(label.encode())
    digest.update(np.ascontiguousarray(st[1]).tobytes())
    digest.update(str(st[2:]).encode())


def same(a, b):
    a = np.asarray(a)
    b = np.asarray(b)
    return (a.shape == b.shape and a.dtype == b.dtype
            and bool(np.array_equal(a, b, equal_nan=True)))


# --------------------------------------------------------------------------
# independent reference (plain numpy, no numba, no library code)
# --------------------------------------------------------------------------
def ref_perlin_noise(p, x, y):
    def lerp(a, b, t):
        return a + t * (b - a)

    def fade(t):
        return 6 * t ** 5 - 15 * t ** 4 + 10 * t ** 3

    def gradient(h, gx, gy):
        vectors = np.array([[0, 1], [0, -1], [1, 0], [-1, 0]])
        g = vectors[h % 4]
        return g[..., 0] * gx + g[..., 1] * gy

    xi = x.astype(int)
    yi = y.astype(int)
    xf = x - xi
    yf = y - yi
    u = fade(xf)
    v = fade(yf)
    n00 = gradient(p[p[xi] + yi], xf, yf)
    n01 = gradient(p[p[xi] + yi + 1], xf, yf - 1)
    n11 = gradient(p[p[xi + 1] + yi + 1], xf - 1, yf - 1)
    n10 = gradient(p[p[xi + 1] + yi], xf - 1, yf)
    return lerp(lerp(n00, n10, u), lerp(n01, n11, u), v)


def ref_perlin(shape, freq, seed):
    rs = np.random.RandomState(seed)
    p = rs.permutation(2 ** 20)
    p = np.append(p, p)
    h, w = shape
    linx = np.linspace(0, freq[0], w, endpoint=False, dtype=np.float32)
    liny = np.linspace(0, freq[1], h, endpoint=False, dtype=np.float32)
    x, y = np.meshgrid(linx, liny)
    d = ref_perlin_noise(p, x, y)
    return (d - np.min(d)) / np.ptp(d)


def ref_terrain(shape, seed, zfactor):
    # x_range == full extent -> scaled range (0, 1)
    h, w = shape
    linx = np.linspace(0.0, 1.0, w, endpoint=False, dtype=np.float32)
    liny = np.linspace(0.0, 1.0, h, endpoint=False, dtype=np.float32)
    x, y = np.meshgrid(linx, liny)
    hm = np.zeros(shape, dtype=np.float64)
    for i in range(16):
        rs = np.random.RandomState(seed + i)
        p = rs.permutation(np.arange(2 ** 20, dtype=np.int32))
        p = np.append(p, p)
        hm += ref_perlin_noise(p, x * 2 ** i, y * 2 ** i) * (1 / 2 ** i)
    hm /= (1.00 + 0.50 + 0.25 + 0.13 + 0.06 + 0.03)
    hm = hm ** 3
    hm = (hm - np.min(hm)) / np.ptp(hm)
    hm[hm < 0.3] = 0
    return hm * zfactor


# --------------------------------------------------------------------------
def chunkings(shape):
    h, w = shape
    out = [(1, 1), (h, w), (max(1, h // 2), max(1, w - 1))]
    if h > 2 and w > 2:
        out.append(((1, h - 1), (2, w - 2)))
    seen = []
    for c in out:
        if c not in seen:
            seen.append(c)
    return seen


SCHEDULERS = (('synchronous', {}), ('threads', {'num_workers': 1}), ('threads', {'num_workers': 4}))


def run_perlin():
    cases = [
        ((3, 4), np.float32, (1, 1), 5),
        ((3, 4), np.float64, (1, 1), 5),
        ((5, 7), np.float32, (2, 3), 0),
        ((6, 5), np.int32, (4, 1), 11),
        ((2, 9), np.int64, (1.5, 2.5), 2023),
        ((4, 4), np.uint8, (8, 8), 1),
        ((1, 6), np.float64, (3, 3), 7),
        ((7, 1), np.float32, (3, 2), 7),
    ]
    for shape, dt, freq, seed in cases:
        label = 'perlin/%s/%s/%s/%s' % (shape, np.dtype(dt), freq, seed)
        template = np.zeros(shape, dtype=dt)
        template[0, 0] = 1          # the input only provides the shape
        np.random.seed(99)
        got = perlin(xr.DataArray(template, dims=['y', 'x'], attrs={'a': 1}), freq=freq, seed=seed)
        feed_rng_state(label + '/rng')
        if got.name != 'perlin' or got.attrs != {'a': 1} or got.dims != ('y', 'x'):
            failures.append(label + '/metadata')
        feed(label, got.data)
        ref = ref_perlin(shape, freq, seed)
        if not np.allclose(got.data, ref, rtol=0, atol=5e-5, equal_nan=True):
            failures.append(label + '/reference')
        for c in chunkings(shape):
            dagg = xr.DataArray(da.from_array(template, chunks=c), dims=['y', 'x'], attrs={'a': 1})
            np.random.seed(99)
            res = perlin(dagg, freq=freq, seed=seed)
            feed_rng_state(label + '/dask-rng')
            if not isinstance(res.data, da.Array):
                failures.append(label + '/notlazy')
            for sched, kw in SCHEDULERS:
                with dask.config.set(scheduler=sched, **kw):
                    val = res.data.compute()
                feed(label + '/dask/%s' % (c,), val)
                if not np.allclose(val, ref, rtol=0, atol=5e-5, equal_nan=True):
                    failures.append(label + '/dask-reference/%s' % (c,))
                # same kernel per cell; min / max do not depend on the order
                if not np.allclose(val, got.data, rtol=1e-6, atol=1e-7, equal_nan=True):
                    failures.append(label + '/dask-vs-numpy/%s' % (c,))


def run_terrain():
    cases = [
        ((4, 5), np.float32, 10, 4000),
        ((4, 5), np.float64, 10, 4000),
        ((3, 3), np.int32, 3, 100),
        ((6, 4), np.int64, 0, 7),
        ((2, 7), np.float32, 42, 1.5),
    ]
    for shape, dt, seed, zfactor in cases:
        label = 'terrain/%s/%s/%s/%s' % (shape, np.dtype(dt), seed, zfactor)
        template = np.ones(shape, dtype=dt)
        np.random.seed(3)
        got = generate_terrain(xr.DataArray(template.copy(), dims=['y', 'x']),
                               seed=seed, zfactor=zfactor)
        feed_rng_state(label + '/rng')
        feed(label, got.data)
        feed(label + '/y', got['y'].values)
        feed(label + '/x', got['x'].values)
        if got.name != 'terrain':
            failures.append(label + '/name')
        ref = ref_terrain(shape, seed, zfactor)
        # cells at the 0.3 water threshold may flip under rounding: ignore those
        stable = np.abs(ref / zfactor - 0.3) > 1e-4
        if not np.allclose(np.asarray(got.data)[stable], ref[stable], rtol=1e-3, atol=1e-4 * zfactor):
            failures.append(label + '/reference')
        # sub-extent and explicit ranges
        got2 = generate_terrain(xr.DataArray(template.copy(), dims=['y', 'x']),
                                x_range=(100, 300), y_range=(-50, 80), seed=seed,
                                zfactor=zfactor, full_extent=(0, -100, 500, 400))
        feed(label + '/sub', got2.data)
        for ci, c in enumerate(chunkings(shape)):
            dagg = xr.DataArray(da.from_array(template.copy(), chunks=c), dims=['y', 'x'])
            np.random.seed(3)
            res = generate_terrain(dagg, seed=seed, zfactor=zfactor)
            feed_rng_state(label + '/dask-rng')
            if not isinstance(res.data, da.Array):
                failures.append(label + '/notlazy')
            for sched, kw in SCHEDULERS[:2] if ci else SCHEDULERS:
                with dask.config.set(scheduler=sched, **kw):
                    val = res.data.compute()
                feed(label + '/dask/%s' % (c,), val)
                ok = np.allclose(np.asarray(val)[stable], np.asarray(got.data)[stable],
                                 rtol=1e-5, atol=1e-6 * zfactor)
                if not ok:
                    failures.append(label + '/dask-vs-numpy/%s' % (c,))
            res2 = generate_terrain(dagg, x_range=(100, 300), y_range=(-50, 80), seed=seed,
                                    zfactor=zfactor, full_extent=(0, -100, 500, 400))
            with dask.config.set(scheduler='synchronous'):
                feed(label + '/dask-sub/%s' % (c,), res2.data.compute())


if __name__ == '__main__':
    if '/tmp/t5/TC01' not in xrspatial.__file__:
        print('warning: library not imported from the worktree:', xrspatial.__file__)
    run_perlin()
    run_terrain()
    hexd = digest.hexdigest()
    if '--record' in sys.argv:
        print(hexd, len(failures), failures[:10])
        sys.exit(0)
    if failures:
        print('MISMATCH in %d cases, e.g. %s' % (len(failures), failures[:10]))
        sys.exit(1)
    if hexd != RECORDED_DIGEST:
        print('digest differs from the one recorded on the unmodified tree:', hexd)
        sys.exit(1)
    print('OK (digest %s)' % hexd[:16])
    sys.exit(0)
