"""Differential test for property C03 (zonal tables do not depend on chunking).

Refactoring under test (t17, code moved between layers): the per-zone
tabulation loop that was written twice - in `_crosstab_numpy` (numpy backend)
and in the delayed `_single_chunk_crosstab` (one dask block) - now lives in one
module-level helper `_crosstab_by_zone` used by both layers.  zonal.stats is
exercised as well as a control (it shares `_sort_and_stride` / `_strides`).

Three layers of checking, on xrspatial.zonal.stats and xrspatial.zonal.crosstab:
  1. every table is compared against an independent brute-force reference
     (boolean masks per zone, no sorting / striding);
  2. every dask table (several chunkings of zones and values chosen
     independently, two schedulers) is compared against the numpy table;
  3. a sha256 digest over the raw bytes / dtypes / column labels of every table
     produced is compared against the digest recorded on the unmodified tree
     (bit-for-bit equality, dtypes included).

Run:  cd <worktree> && PYTHONPATH=<worktree> /venv/bin/python equiv.py
      (--record prints the digest instead of checking it)
Exit status 0 iff everything is identical.
"""
import hashlib
import sys
import warnings

import dask
import dask.array as da
import numpy as np
import pandas as pd
import xarray as xr

import xrspatial
from xrspatial.zonal import crosstab, stats

warnings.filterwarnings('ignore')

EXPECTED_DIGEST = "ef5ed8e70e673dc29336d49dd2fe832ed4aa0172422f5437663fc21d4e8a5e7e"

ALL_STATS = ['mean', 'max', 'min', 'sum', 'std', 'var', 'count']
EXACT = ('zone', 'count', 'min', 'max')

failures = []
H = hashlib.sha256()


def fail(msg):
    failures.append(msg)
    print('FAIL:', msg)


def feed(tag, obj):
    """Add an object to the running digest (values, dtype, labels)."""
    H.update(repr(tag).encode())
    if isinstance(obj, pd.DataFrame):
        H.update(repr([str(c) for c in obj.columns]).encode())
        H.update(repr([str(t) for t in obj.dtypes]).encode())
        H.update(repr(list(obj.index)).encode())
        for c in obj.columns:
            a = np.ascontiguousarray(obj[c].to_numpy())
            H.update(a.tobytes())
    elif isinstance(obj, np.ndarray):
        H.update(str(obj.dtype).encode())
        H.update(repr(obj.shape).encode())
        H.update(np.ascontiguousarray(obj).tobytes())
    else:
        H.update(repr(obj).encode())


# --------------------------------------------------------------------------
# inputs
# --------------------------------------------------------------------------
def make_zones(rng, shape, dtype, nzones):
    z = rng.integers(0, nzones, size=shape)
    # zone ids are not contiguous and include a negative one
    lut = np.array([-3, 0, 2, 5, 11, 12, 40, 41, 100])[:nzones]
    z = lut[z].astype(dtype)
    if np.issubdtype(dtype, np.floating) and z.size > 3:
        flat = z.ravel()
        idx = rng.choice(flat.size, size=max(1, flat.size // 8), replace=False)
        flat[idx[0::3]] = np.nan
        flat[idx[1::3]] = np.inf
        flat[idx[2::3]] = -np.inf
    return z


def make_values(rng, shape, dtype):
    if np.issubdtype(dtype, np.integer):
        return rng.integers(-4, 9, size=shape).astype(dtype)
    v = np.round(rng.normal(3.0, 10.0, size=shape), 2).astype(dtype)
    if v.size > 3:
        flat = v.ravel()
        idx = rng.choice(flat.size, size=max(1, flat.size // 6), replace=False)
        flat[idx[0::4]] = np.nan
        flat[idx[1::4]] = np.inf
        flat[idx[2::4]] = -np.inf
        flat[idx[3::4]] = 7.0       # nodata
    return v


def chunkings(shape):
    """A few chunk decompositions; block counts stay small (the dask paths
    build one task per block and statistic, which is slow)."""
    h, w = shape
    if h * w <= 7:
        return [(h, w), (1, 1)]
    return [
        (h, w),                                   # one block
        ((h + 1) // 2, (w + 1) // 2),             # 2 x 2 blocks
        (2 if h <= 7 else 5, w),                  # row bands
        ((1, h - 3, 2), (3, w - 3)),              # irregular 3 x 2
        (h, 3 if w <= 9 else 4),                  # column bands
    ]


# --------------------------------------------------------------------------
# brute-force references
# --------------------------------------------------------------------------
def ref_stats(z, v, zone_ids, stat_names, nodata):
    uz = np.unique(z[np.isfinite(z)])
    if zone_ids is not None:
        uz = np.array([u for u in uz if u in zone_ids])
    rows = []
    for u in uz:
        vals = v[z == u]
        keep = np.isfinite(vals)
        if nodata is not None:
            keep &= vals != nodata
        vals = vals[keep].astype(np.float64)
        row = {'zone': u}
        for s in stat_names:
            if vals.size == 0:
                row[s] = np.nan
            elif s == 'count':
                row[s] = vals.size
            else:
                row[s] = getattr(np, s)(vals)
        rows.append(row)
    return pd.DataFrame(rows, columns=['zone'] + list(stat_names))


def ref_crosstab(z, v, zone_ids, cat_ids, nodata, agg):
    uz = np.unique(z[np.isfinite(z)])
    if zone_ids is not None:
        uz = np.array([u for u in uz if u in zone_ids])
    ok = np.isfinite(v)
    if nodata is not None:
        ok &= v != nodata
    ucats = np.unique(v[ok])
    cats = list(ucats) if cat_ids is None else [c for c in cat_ids if c in ucats]
    rows = []
    for u in uz:
        m = (z == u) & ok
        total = m.sum()
        row = {'zone': u}
        for c in cats:
            n = (m & (v == c)).sum()
            if agg == 'percentage':
                row[c] = n / total * 100 if total else np.nan
            else:
                row[c] = n
        rows.append(row)
    return pd.DataFrame(rows, columns=['zone'] + cats)


def compare(tag, got, want, rtol, exact_cols=EXACT, all_exact=False):
    if [str(c) for c in got.columns] != [str(c) for c in want.columns]:
        fail(f'{tag}: columns {list(got.columns)} != {list(want.columns)}')
        return
    if len(got) != len(want):
        fail(f'{tag}: {len(got)} rows, expected {len(want)}')
        return
    for cg, cw in zip(got.columns, want.columns):
        a = got[cg].to_numpy().astype(np.float64)
        b = want[cw].to_numpy().astype(np.float64)
        if all_exact or str(cg) in exact_cols:
            same = np.array_equal(a, b, equal_nan=True)
        else:
            scale = max(1.0, np.nanmax(np.abs(b[np.isfinite(b)]), initial=0.0))
            same = np.allclose(a, b, rtol=rtol, atol=rtol * scale, equal_nan=True)
        if not same:
            fail(f'{tag}: column {cg}: {a} != {b}')


# --------------------------------------------------------------------------
# stats
# --------------------------------------------------------------------------
def check_stats():
    rng = np.random.default_rng(20240607)
    shapes = [(1, 1), (1, 7), (5, 1), (7, 9), (13, 11)]
    zdtypes = [np.int32, np.int64, np.float32, np.float64]
    vdtypes = [np.int16, np.int64, np.float32, np.float64]
    combos = [(0, 0), (1, 3), (2, 2), (3, 3), (3, 1), (0, 2)]
    case = 0
    for shi, shape in enumerate(shapes):
        for coi, (zi, vi) in enumerate(combos):
            case += 1
            zdt, vdt = zdtypes[zi], vdtypes[vi]
            z = make_zones(rng, shape, zdt, 6)
            v = make_values(rng, shape, vdt)
            if not np.isfinite(z).any():
                z.ravel()[0] = 5
            uz = np.unique(z[np.isfinite(z)])
            selections = [None, [uz[0], 999], list(uz[::2][::-1]) + [-77]]
            subsets = [ALL_STATS, ['count', 'max'], ['std', 'min'], ['mean']]
            nodata = 7 if case % 2 else None
            rtol = 1e-9 if np.dtype(vdt).itemsize == 8 else 2e-4
            for si, zone_ids in enumerate(selections):
                names = subsets[(case + si) % len(subsets)]
                tag = f'stats[{shape},{zdt.__name__},{vdt.__name__},ids={zone_ids},{names}]'
                np_df = stats(xr.DataArray(z), xr.DataArray(v), zone_ids=zone_ids,
                              stats_funcs=list(names), nodata_values=nodata)
                feed(tag, np_df)
                want = ref_stats(z, v, zone_ids, names, nodata)
                compare(tag + ' numpy-vs-ref', np_df, want, rtol)

                # the raster form of the same table (numpy only)
                ras = stats(xr.DataArray(z, dims=['y', 'x']), xr.DataArray(v, dims=['y', 'x']),
                            zone_ids=zone_ids, stats_funcs=list(names),
                            nodata_values=nodata, return_type='xarray.DataArray')
                feed(tag + ' raster', ras.data)
                feed(tag + ' raster-coords', list(ras['stats'].values))
                for k, s in enumerate(names):
                    for _, row in np_df.iterrows():
                        cell = ras.data[k][z == row['zone']]
                        if not np.array_equal(cell, np.full(cell.shape, row[s]), equal_nan=True):
                            fail(f'{tag}: raster of {s} differs from table in zone {row["zone"]}')

                if (shi + coi) % 2 or si == 2:      # half of the cases also run on dask
                    continue
                chs = chunkings(shape)
                picks = [(case + si) % len(chs)]
                if zone_ids is None:
                    picks.append((case + 2) % len(chs))
                for ci in dict.fromkeys(picks):
                    zc = chs[ci]
                    vc = chs[(ci + 1) % len(chs)] if (case + ci) % 2 else zc
                    sched = dict(scheduler='synchronous') if ci % 2 else \
                        dict(scheduler='threads', num_workers=3)
                    zd = xr.DataArray(da.from_array(z, chunks=zc))
                    vd = xr.DataArray(da.from_array(v, chunks=vc))
                    ddf = stats(zd, vd, zone_ids=zone_ids, stats_funcs=list(names),
                                nodata_values=nodata)
                    if isinstance(ddf, pd.DataFrame):
                        fail(f'{tag}: dask result is eager')
                    with dask.config.set(**sched):
                        dk = ddf.compute()
                    feed((tag, 'dask', zc, vc), dk)
                    if zone_ids is not None and len(want) == 0:
                        continue
                    compare(f'{tag} dask{zc}/{vc}-vs-numpy', dk.reset_index(drop=True),
                            np_df, rtol)

    # custom callables (numpy only), dict order defines column order
    z = make_zones(rng, (6, 5), np.int64, 4)
    v = make_values(rng, (6, 5), np.float64)
    custom = {'rng': lambda a: a.max() - a.min(), 'dsum': lambda a: a.sum() * 2}
    df = stats(xr.DataArray(z), xr.DataArray(v), stats_funcs=custom, nodata_values=7)
    feed('custom', df)
    if list(df.columns) != ['zone', 'rng', 'dsum']:
        fail(f'custom stats columns {list(df.columns)}')
    r = ref_stats(z, v, None, ['max', 'min', 'sum'], 7)
    if not np.allclose(df['rng'], r['max'] - r['min'], equal_nan=True) or \
            not np.allclose(df['dsum'], r['sum'] * 2, equal_nan=True):
        fail('custom stats values')

    # messages of the validation errors
    def message(fn):
        try:
            fn()
        except Exception as e:  # noqa
            return type(e).__name__ + ': ' + str(e)
        return 'no error'

    zb = xr.DataArray(z)
    vb = xr.DataArray(v)
    msgs = [
        message(lambda: stats(xr.DataArray(z > 2), vb)),
        message(lambda: stats(zb, xr.DataArray(v > 2))),
        message(lambda: stats(zb, xr.DataArray(v.astype(complex)))),
        message(lambda: stats(zb, vb, stats_funcs=['mean', 'median'])),
        message(lambda: stats(xr.DataArray(da.from_array(z, chunks=2)),
                              xr.DataArray(da.from_array(v, chunks=2)), stats_funcs=custom)),
        message(lambda: stats(zb, xr.DataArray(v[:-1]))),
        message(lambda: crosstab(xr.DataArray(z > 2), vb)),
        message(lambda: crosstab(zb, xr.DataArray(v > 2))),
        message(lambda: crosstab(zb, vb, agg='mean')),
        message(lambda: crosstab(z, vb)),
        message(lambda: crosstab(zb, v)),
        message(lambda: crosstab(zb, xr.DataArray(np.stack([v, v]), dims=['c', 'y', 'x']),
                                 agg='median')),
        message(lambda: crosstab(zb, xr.DataArray(np.stack([v, v]), dims=['c', 'y', 'x']),
                                 layer=5)),
    ]
    feed('messages', msgs)
    expected_msgs = [
        "ValueError: `zones` must be an array of integers or floats.",
        "ValueError: `values` must be an array of integers or floats.",
        "ValueError: `values` must be an array of integers or floats.",
        "ValueError: Invalid stat name. median option not supported.",
        "ValueError: Got dask-backed DataArray as `values` aggregate. `stats_funcs` must be a "
        "subset of default supported stats `['mean', 'max', 'min', 'sum', 'std', 'var', 'count']`",
        "ValueError: input arrays must have equal shapes",
        "ValueError: `zones` must be an xarray of integers or floats",
        "ValueError: `values` must be an xarray of integers or floats",
        "ValueError: `agg` method for 2D data array must be one of following "
        "['percentage', 'count']",
        "TypeError: zones must be instance of DataArray",
        "TypeError: values must be instance of DataArray",
        "ValueError: `agg` method for 3D numpy backed data array must be one of following "
        "dict_keys(['mean', 'max', 'min', 'sum', 'std', 'var', 'count'])",
        "ValueError: Invalid `layer`",
    ]
    if msgs != expected_msgs:
        for a, b in zip(msgs, expected_msgs):
            if a != b:
                fail(f'message {a!r} != {b!r}')


# --------------------------------------------------------------------------
# crosstab
# --------------------------------------------------------------------------
def check_crosstab():
    rng = np.random.default_rng(977)
    shapes = [(1, 1), (1, 6), (4, 1), (6, 8), (11, 7)]
    combos = [(np.int32, np.int16), (np.int64, np.float64), (np.float32, np.float32),
              (np.float64, np.float64), (np.float64, np.int64)]
    case = 0
    for shape in shapes:
        for zdt, vdt in combos:
            case += 1
            z = make_zones(rng, shape, zdt, 5)
            if not np.isfinite(z).any():
                z.ravel()[0] = 5
            v = make_values(rng, shape, vdt)
            if np.issubdtype(vdt, np.floating):
                # categories: few distinct finite values, keep nan/inf/nodata
                fin = np.isfinite(v) & (v != 7.0)
                v[fin] = np.round(np.abs(v[fin]) % 4)
            nodata = 7 if case % 2 else None
            ok = np.isfinite(v) if nodata is None else np.isfinite(v) & (v != nodata)
            if not ok.any():
                v.ravel()[0] = 1
                ok = np.isfinite(v) if nodata is None else np.isfinite(v) & (v != nodata)
            uz = np.unique(z[np.isfinite(z)])
            ucat = np.unique(v[ok])
            zsel = [None, list(dict.fromkeys([uz[-1], uz[0], 555])), None]
            csel = [None, None, list(dict.fromkeys([ucat[-1], 321, ucat[0]]))]
            for si in range(3):
                agg = 'percentage' if (case + si) % 2 else 'count'
                zone_ids, cat_ids = zsel[si], csel[si]
                tag = f'crosstab[{shape},{zdt.__name__},{vdt.__name__},z={zone_ids},c={cat_ids},{agg}]'
                np_df = crosstab(xr.DataArray(z), xr.DataArray(v), zone_ids=zone_ids,
                                 cat_ids=cat_ids, agg=agg, nodata_values=nodata)
                feed(tag, np_df)
                want = ref_crosstab(z, v, zone_ids, cat_ids, nodata, agg)
                compare(tag + ' numpy-vs-ref', np_df, want, 1e-12,
                        all_exact=(agg == 'count'))
                if (case + shape[0]) % 5 in (1, 3):
                    continue        # numpy only
                chs = chunkings(shape)
                picks = [(case + si) % len(chs)]
                if si == 0:
                    picks.append((case + 3) % len(chs))
                for ci in dict.fromkeys(picks):
                    zc = chs[ci]
                    vc = chs[(ci + 2) % len(chs)] if (case + ci) % 2 else zc
                    sched = dict(scheduler='threads', num_workers=4) if ci % 2 else \
                        dict(scheduler='synchronous')
                    zd = xr.DataArray(da.from_array(z, chunks=zc))
                    vd = xr.DataArray(da.from_array(v, chunks=vc))
                    ddf = crosstab(zd, vd, zone_ids=zone_ids, cat_ids=cat_ids, agg=agg,
                                   nodata_values=nodata)
                    if isinstance(ddf, pd.DataFrame):
                        fail(f'{tag}: dask result is eager')
                    with dask.config.set(**sched):
                        dk = ddf.compute()
                    feed((tag, 'dask', zc, vc), dk)
                    compare(f'{tag} dask{zc}/{vc}-vs-numpy', dk.reset_index(drop=True),
                            np_df, 1e-6, all_exact=(agg == 'count'))

    # 3D values: one layer per category
    for shape, zdt in [((5, 6), np.int64), ((9, 4), np.float64)]:
        z = make_zones(rng, shape, zdt, 4)
        layers = np.stack([make_values(rng, shape, np.float64) for _ in range(3)])
        cube = xr.DataArray(layers, dims=['cat', 'y', 'x'],
                            coords={'cat': ['a', 'b', 'c']})
        zx = xr.DataArray(z, dims=['y', 'x'])
        uz = np.unique(z[np.isfinite(z)])
        for agg in ['count', 'min', 'max', 'mean', 'sum', 'std', 'var']:
            for zone_ids, cat_ids in [(None, None), ([uz[-1], uz[0]], ['c', 'a'])]:
                with np.errstate(all='ignore'):
                    try:
                        df = crosstab(zx, cube, zone_ids=zone_ids, cat_ids=cat_ids, agg=agg,
                                      nodata_values=7)
                    except ValueError as e:
                        # an empty selection has no min / max: part of the behaviour
                        feed((shape, agg, zone_ids, cat_ids, 'error'), str(e))
                        continue
                feed(('3d', shape, agg, zone_ids, cat_ids), df)
                # independent check
                zz = uz if zone_ids is None else [u for u in uz if u in zone_ids]
                cc = ['a', 'b', 'c'] if cat_ids is None else cat_ids
                if list(df.columns) != ['zone'] + list(cc) or list(df['zone']) != list(zz):
                    fail(f'3d {agg}: labels {list(df.columns)} {list(df["zone"])}')
                    continue
                for r, u in enumerate(zz):
                    for c in cc:
                        lay = layers['abc'.index(c)]
                        vals = lay[z == u]
                        vals = vals[np.isfinite(vals) & (vals != 7)]
                        w = vals.size if agg == 'count' else getattr(np, agg)(vals)
                        g = df[c].iloc[r]
                        if not np.isclose(g, w, rtol=1e-9, atol=1e-9, equal_nan=True):
                            fail(f'3d {agg} zone {u} cat {c}: {g} != {w}')
        # dask 3D (count only), zones and values chunked differently
        np_df = crosstab(zx, cube, nodata_values=7)
        for zc, vc in [((2, 3), (1, 2, 3)), ((1, 1), (3, 4, 2)), (shape, (2, 2, 5))]:
            zd = xr.DataArray(da.from_array(z, chunks=zc), dims=['y', 'x'])
            vd = xr.DataArray(da.from_array(layers, chunks=vc), dims=['cat', 'y', 'x'],
                              coords={'cat': ['a', 'b', 'c']})
            dk = crosstab(zd, vd, nodata_values=7).compute()
            feed(('3d-dask', shape, zc, vc), dk)
            compare(f'3d dask {zc}/{vc}', dk.reset_index(drop=True), np_df, 0, all_exact=True)


def main():
    print('xrspatial from', xrspatial.__file__)
    check_stats()
    check_crosstab()
    digest = H.hexdigest()
    if '--record' in sys.argv:
        print('DIGEST', digest)
    elif digest != EXPECTED_DIGEST:
        fail(f'digest {digest} differs from the one recorded on the unmodified tree '
             f'{EXPECTED_DIGEST}')
    if failures:
        print(f'{len(failures)} failure(s)')
        return 1
    print('OK: all tables identical')
    return 0


if __name__ == '__main__':
    sys.exit(main())
