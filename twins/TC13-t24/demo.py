"""Demo for C13: spectral indices vs. an independent brute-force oracle."""
import math
import sys
import warnings

import numpy as np
import xarray as xr

from xrspatial.multispectral import (arvi, evi, gci, nbr, nbr2, ndmi, ndvi, savi, sipi, ebbi,
                                     true_color)

warnings.simplefilter('ignore')
FAIL = []


def check(cond, msg):
    if not cond:
        FAIL.append(msg)
        print('FAIL', msg)


def da_(a, **attrs):
    h, w = a.shape
    return xr.DataArray(a, dims=['y', 'x'],
                        coords={'y': np.arange(h)[::-1] * 2.5, 'x': np.arange(w) * 0.5 + 3},
                        attrs=dict(res=(0.5, 2.5), **attrs))


def cell_oracle(num, den):
    """per-cell python-float oracle: NaN on zero denominator"""
    if den == 0.0:
        return math.nan
    if math.isnan(num) or math.isnan(den):
        return math.nan
    if math.isinf(num) and math.isinf(den):
        return math.nan
    return num / den


def brute(formula, *bands):
    h, w = bands[0].shape
    out = np.empty((h, w), dtype=np.float64)
    for i in range(h):
        for j in range(w):
            vals = [float(b[i, j]) for b in bands]
            num, den = formula(*vals)
            out[i, j] = cell_oracle(num, den)
    return out


def compare(name, got, want, src):
    check(isinstance(got, xr.DataArray), f'{name}: not a DataArray')
    check(got.dtype == np.float32, f'{name}: dtype {got.dtype}')
    check(got.shape == want.shape, f'{name}: shape')
    check(got.dims == src.dims, f'{name}: dims')
    check(got.attrs == src.attrs, f'{name}: attrs')
    for d in src.dims:
        check(np.array_equal(got[d].values, src[d].values), f'{name}: coord {d}')
    g = got.values
    check(np.array_equal(np.isnan(g), np.isnan(want)), f'{name}: NaN placement')
    check(not np.isinf(g[~np.isnan(want)]).any() or np.isinf(want).any(), f'{name}: inf')
    m = ~np.isnan(want)
    check(np.allclose(g[m].astype(np.float64), want[m], rtol=3e-6, atol=1e-7),
          f'{name}: values max err {np.max(np.abs(g[m] - want[m])) if m.any() else 0}')


def make_bands(shape, dtype, seed, nb=3):
    rng = np.random.default_rng(seed)
    bands = []
    for k in range(nb):
        if np.issubdtype(dtype, np.integer):
            a = rng.integers(0, 9, size=shape).astype(dtype)
        else:
            a = (rng.integers(0, 40, size=shape) / 8.0).astype(dtype)
        bands.append(a)
    # ties: equal bands in first row, zeros in the last column
    bands[1][0, :] = bands[0][0, :]
    for a in bands:
        a[:, -1] = 0
    if np.issubdtype(dtype, np.floating):
        h, w = shape
        bands[0][min(1, h - 1), 0] = np.nan
        bands[1][-1, 0] = np.nan
        bands[2][min(1, h - 1), min(1, w - 1)] = np.nan
    return bands


SHAPES = [(3, 7), (6, 2), (1, 5), (5, 1), (4, 4)]
DTYPES = [np.uint8, np.uint16, np.int32, np.int64, np.float32, np.float64]

for shape in SHAPES:
    for dt in DTYPES:
        a, b, c = make_bands(shape, dt, seed=17 * SHAPES.index(shape) + DTYPES.index(dt))
        A, B, C = da_(a, k='A'), da_(b, k='B'), da_(c, k='C')
        tag = f'{shape}-{np.dtype(dt).name}'
        nd = lambda p, q: (p - q, p + q)  # noqa
        # normalised-difference family (shared kernel)
        for fname, fn in (('ndvi', ndvi), ('nbr', nbr), ('nbr2', nbr2), ('ndmi', ndmi)):
            want = brute(nd, a, b)
            got = fn(A, B)
            compare(f'{fname}-{tag}', got, want, A)
            m = ~np.isnan(want)
            check(np.all(np.abs(got.values[m]) <= 1.0), f'{fname}-{tag}: range')
            # antisymmetry under band swap
            sw = fn(B, A).values
            check(np.array_equal(np.isnan(sw), np.isnan(got.values)), f'{fname}-{tag}: swap nan')
            check(np.array_equal(sw[m], -got.values[m]), f'{fname}-{tag}: swap sign')
            # invariance under power-of-two scaling (float only, exact)
            if np.issubdtype(dt, np.floating):
                sc = fn(da_(a * dt(4)), da_(b * dt(4))).values
                check(np.array_equal(sc, got.values, equal_nan=True), f'{fname}-{tag}: scale')
        # savi over several soil factors, including the singular ones
        for L in (-1.0, -0.5, 0.0, 0.25, 1.0):
            want = brute(lambda p, q: (p - q, (p + q + L) * (1.0 + L)), a, b)
            compare(f'savi{L}-{tag}', savi(A, B, soil_factor=L), want, A)
        compare(f'arvi-{tag}', arvi(A, B, C),
                brute(lambda n, r, bl: (n - 2.0 * r + bl, n + 2.0 * r + bl), a, b, c), A)
        compare(f'gci-{tag}', gci(A, B),
                brute(lambda n, g: (n - g, g), a, b), A)
        compare(f'sipi-{tag}', sipi(A, B, C),
                brute(lambda n, r, bl: (n - bl, n - r), a, b, c), A)
        compare(f'evi-{tag}', evi(A, B, C),
                brute(lambda n, r, bl: (2.5 * (n - r), n + 6.0 * r - 7.5 * bl + 1.0), a, b, c), A)
        want = brute(lambda r, s, t: (s - r, 10.0 * math.sqrt(s + t) if s + t >= 0 else math.nan),
                     a, b, c)
        compare(f'ebbi-{tag}', ebbi(A, B, C), want, A)

        # true_color: alpha rule + independent per-cell sigmoid oracle
        for nodata in (1, 0, 2.5):
            tc = true_color(A, B, C, nodata=nodata, name='tc')
            check(tc.dtype == np.uint8 and tc.shape == shape + (4,), f'tc-{tag}: dtype/shape')
            check(tc.dims == ('y', 'x', 'band') and tc.name == 'tc', f'tc-{tag}: dims/name')
            check(tc.attrs == A.attrs, f'tc-{tag}: attrs')
            af = a.astype(np.float64)
            want_alpha = np.where(np.isnan(af) | (af <= nodata), 0, 255)
            check(np.array_equal(tc.values[:, :, 3], want_alpha), f'tc-{tag}-{nodata}: alpha')
            for ch, band in enumerate((a, b, c)):
                f = band.astype(np.float32)
                if np.all(np.isnan(f)):
                    continue
                lo, hi = np.nanmin(f), np.nanmax(f)
                got = tc.values[:, :, ch]
                for i in range(shape[0]):
                    for j in range(shape[1]):
                        v = f[i, j]
                        if hi == lo or np.isnan(v):
                            continue  # cast of NaN to uint8 is platform defined
                        n = (float(v) - float(lo)) / (float(hi) - float(lo))
                        e = 255.0 / (1.0 + math.exp(10.0 * (0.125 - n)))
                        # allow for float32 rounding just below an integer boundary
                        check(abs(int(got[i, j]) - e) < 1.0 + 1e-3 and int(got[i, j]) <= e + 1e-3,
                              f'tc-{tag}-ch{ch}[{i},{j}]: {got[i, j]} vs {e}')

# hand-picked exact cases for the shared kernel
n = da_(np.array([[0., 1., 3., np.nan, -2., 5., np.inf]], dtype=np.float64))
r = da_(np.array([[0., 1., 1., 1., 2., np.nan, 1.]], dtype=np.float64))
v = ndvi(n, r).values
check(np.isnan(v[0, 0]) and v[0, 1] == 0 and v[0, 2] == np.float32(0.5) and np.isnan(v[0, 3])
      and np.isnan(v[0, 4]) and np.isnan(v[0, 5]) and np.isnan(v[0, 6]), f'hand ndvi {v}')
s = savi(n, r, soil_factor=-1.0).values
check(np.all(np.isnan(s)), f'hand savi L=-1 {s}')
s = savi(n, r, soil_factor=0.0).values
check(np.isnan(s[0, 0]) and s[0, 2] == np.float32(0.5) and np.isnan(s[0, 4]), f'hand savi L=0 {s}')

print('checks failed:', len(FAIL))
sys.exit(1 if FAIL else 0)
