"""Differential test for xrspatial.multispectral (property C13).

Refactoring t7 (signature level): parameters of the private true_color normalisation helpers
(_normalize_data, _normalize_data_cpu, _normalize_data_numpy, _normalize_data_dask, ...) renamed
and re-ordered, pixel_max given a default, call sites switched to keyword arguments.

Every public spectral index and true_color is run on a deterministic family of
inputs (dtypes uint8..float64, odd shapes, zeros, equal bands, NaN, inf,
numpy and dask backends).  The results are compared
  (a) against the band formulas evaluated independently with plain numpy, and
  (b) against SHA-256 digests recorded from the unmodified tree.
Exit status 0 iff everything is identical.
"""
import hashlib
import sys
import warnings

import dask.array as da
import numpy as np
import xarray as xr

import xrspatial
from xrspatial import multispectral as ms

warnings.simplefilter('ignore')
np.seterr(all='ignore')

FAILS = []


def fail(msg):
    FAILS.append(msg)
    if len(FAILS) <= 25:
        print('FAIL:', msg)


# ----------------------------------------------------------------- inputs
SHAPES = [(1, 1), (1, 7), (5, 1), (7, 9), (16, 13)]
DTYPES = [np.uint8, np.uint16, np.int16, np.int32, np.int64, np.float32, np.float64]


def make_band(rng, shape, dtype, kind):
    n = shape[0] * shape[1]
    if kind == 'zeros':
        a = np.zeros(n)
    elif kind == 'small':
        a = rng.integers(0, 4, n).astype(float)
    else:
        a = rng.integers(0, 200, n).astype(float)
        if np.issubdtype(dtype, np.signedinteger) or np.issubdtype(dtype, np.floating):
            if kind == 'signed':
                a = a - 100.0
    if np.issubdtype(dtype, np.floating):
        if kind != 'zeros':
            a = a + rng.integers(0, 8, n) / 8.0
        if kind == 'nan':
            a[rng.random(n) < 0.3] = np.nan
        if kind == 'huge' and dtype == np.float64:
            a[rng.random(n) < 0.3] = 1e39
            a[rng.random(n) < 0.2] = -1e39
    return a.reshape(shape).astype(dtype)


def band_sets():
    """yield (label, [b0, b1, b2]) numpy band triples."""
    rng = np.random.default_rng(20240613)
    for shape in SHAPES:
        for dtype in DTYPES:
            kinds = ['plain', 'small', 'zeros', 'signed']
            if np.issubdtype(dtype, np.floating):
                kinds += ['nan', 'huge']
            for kind in kinds:
                bands = [make_band(rng, shape, dtype, kind) for _ in range(3)]
                yield '%s-%s-%s' % (shape, np.dtype(dtype).name, kind), bands
            b = make_band(rng, shape, dtype, 'plain')
            yield '%s-%s-equal' % (shape, np.dtype(dtype).name), [b, b.copy(), b.copy()]
    # mixed dtypes and a non C-contiguous band
    b0 = make_band(rng, (6, 5), np.uint8, 'plain')
    b1 = make_band(rng, (6, 5), np.float64, 'nan')
    b2 = np.asfortranarray(make_band(rng, (6, 5), np.int16, 'signed'))
    yield 'mixed', [b0, b1, b2]
    big = make_band(rng, (12, 10), np.float32, 'plain')
    yield 'strided', [big[::2, ::2], big[1::2, ::2], big[::2, 1::2]]


def to_agg(a, backend):
    h, w = a.shape
    data = a
    if backend == 'dask':
        data = da.from_array(a, chunks=(max(1, min(3, h)), max(1, min(4, w))))
    return xr.DataArray(data, dims=['y', 'x'],
                        coords={'y': np.arange(h)[::-1] * 2.0, 'x': np.arange(w) * 0.5},
                        attrs={'res': 1, 'tag': 'abc'})


# ------------------------------------------------- independent formulas
def f4(a):
    return np.asarray(a).astype('f4')


def f8(a):
    return np.asarray(a).astype('f8')


def _guard(num, den):
    q = num / den
    return np.where(den == 0, np.nan, q).astype('f4')


def exp_nd(a, b):
    a, b = f4(a), f4(b)
    return _guard(a - b, a + b)


def exp_arvi(nir, red, blue):
    nir, red, blue = f8(f4(nir)), f8(f4(red)), f8(f4(blue))
    return _guard(nir - 2.0 * red + blue, nir + 2.0 * red + blue)


def exp_evi(nir, red, blue, c1, c2, soil, gain):
    n4, r4, b4 = f4(nir), f4(red), f4(blue)
    num = f8(n4 - r4)
    den = f8(n4) + np.float64(c1) * f8(r4) - np.float64(c2) * f8(b4) + np.float64(soil)
    q = np.float64(gain) * (num / den)
    return np.where(den == 0, np.nan, q).astype('f4')


def exp_gci(nir, green):
    nir, green = f4(nir), f4(green)
    q = f8(nir / green) - 1
    return np.where(green == 0, np.nan, q).astype('f4')


def exp_savi(nir, red, soil):
    n4, r4 = f4(nir), f4(red)
    num = f8(n4 - r4)
    soma = f8(n4 + r4) + np.float64(soil)
    den = soma * (1.0 + np.float64(soil))
    return _guard(num, den)


def exp_sipi(nir, red, blue):
    nir, red, blue = f4(nir), f4(red), f4(blue)
    return _guard(nir - blue, nir - red)


def exp_ebbi(red, swir, tir):
    red, swir, tir = f4(red), f4(swir), f4(tir)
    num = f8(swir - red)
    den = 10 * f8(np.sqrt(swir + tir))
    return _guard(num, den)


def exp_alpha(r, nodata):
    r = np.asarray(r)
    return np.where(np.isnan(r.astype('f8')) | (r <= nodata), 0, 255).astype(np.uint8)


# ------------------------------------------------------------ comparison
DIGESTS = {}


def canon_bytes(a):
    a = np.ascontiguousarray(a)
    if a.dtype.kind == 'f':
        a = np.where(np.isnan(a), np.array(np.nan, dtype=a.dtype), a).astype(a.dtype)
        a = a + np.zeros((), dtype=a.dtype)  # -0.0 stays -0.0; no-op, keeps dtype
    return a.tobytes()


def record(func, label, arr):
    h = DIGESTS.setdefault(func, hashlib.sha256())
    h.update(('%s|%s|%s|' % (label, arr.dtype.str, arr.shape)).encode())
    h.update(canon_bytes(arr))


def same(a, b):
    return (a.dtype == b.dtype and a.shape == b.shape
            and np.array_equal(a, b, equal_nan=(a.dtype.kind == 'f'))
            and (a.dtype.kind != 'f' or np.array_equal(np.signbit(np.nan_to_num(a)),
                                                       np.signbit(np.nan_to_num(b)))))


def run(func, label, aggs_np, expected, src_idx=0, **kw):
    """run func on numpy and dask backends, check against expected, record digest."""
    fn = getattr(ms, func)
    res = {}
    for backend in ('numpy', 'dask'):
        aggs = [to_agg(a, backend) for a in aggs_np]
        out = fn(*aggs, **kw)
        if not isinstance(out, xr.DataArray):
            fail('%s %s %s: not a DataArray' % (func, label, backend))
            continue
        if backend == 'dask' and not isinstance(out.data, da.Array):
            fail('%s %s: dask input did not give dask output' % (func, label))
        if backend == 'numpy' and not isinstance(out.data, np.ndarray):
            fail('%s %s: numpy input did not give numpy output' % (func, label))
        val = np.asarray(out.data.compute() if backend == 'dask' else out.data)
        res[backend] = val
        src = aggs[src_idx]
        if out.name != kw.get('name', func):
            fail('%s %s %s: name %r' % (func, label, backend, out.name))
        if out.attrs != src.attrs:
            fail('%s %s %s: attrs' % (func, label, backend))
        if func != 'true_color':
            if out.dims != src.dims or not all(
                    np.array_equal(out[d].values, src[d].values) for d in src.dims):
                fail('%s %s %s: dims/coords' % (func, label, backend))
        if expected is not None and not same(val, expected):
            fail('%s %s %s kw=%r: differs from band formula' % (func, label, backend, kw))
        record(func, '%s|%s|%r' % (label, backend, sorted(kw.items())), val)
    if len(res) == 2 and not same(res['numpy'], res['dask']):
        fail('%s %s: numpy and dask disagree' % (func, label))
    return res.get('numpy')


SOILS = [-1.0, -0.5, 0.0, 0.25, 1.0, 1, 0, -1]
EVI_PARAMS = [
    dict(),
    dict(c1=6, c2=7, soil_factor=1, gain=2),
    dict(c1=0.0, c2=0.0, soil_factor=0.0, gain=0.0),
    dict(c1=1.5, c2=0.5, soil_factor=-1.0, gain=3.25),
    dict(c1=2, c2=3.0, soil_factor=-0.5, gain=1),
]
TC_PARAMS = [dict(), dict(nodata=0), dict(nodata=50, c=3.0, th=0.5), dict(nodata=-1.5, c=0.0, th=0.0)]


def check_errors():
    a = to_agg(np.ones((3, 4), 'f4'), 'numpy')
    b = to_agg(np.ones((4, 3), 'f4'), 'numpy')
    cases = [
        (lambda: ms.evi(a, b, a), ValueError, 'input layers expected to have equal shapes'),
        (lambda: ms.evi(a, b, a, c1='x'), ValueError, 'input layers expected to have equal shapes'),
        (lambda: ms.evi(a, a, a, c1='x', c2='y', soil_factor=5, gain=-1), ValueError, 'c1 must be numeric'),
        (lambda: ms.evi(a, a, a, c2='y', soil_factor=5, gain=-1), ValueError, 'c2 must be numeric'),
        (lambda: ms.evi(a, a, a, soil_factor=5, gain=-1), ValueError, 'soil factor must be between [-1.0, 1.0]'),
        (lambda: ms.evi(a, a, a, soil_factor=-1.5), ValueError, 'soil factor must be between [-1.0, 1.0]'),
        (lambda: ms.evi(a, a, a, gain=-1), ValueError, 'gain must be greater than 0'),
        (lambda: ms.savi(a, a, soil_factor=1.5), ValueError, 'soil factor must be between [-1.0, 1.0]'),
        (lambda: ms.savi(a, a, soil_factor=-1.01), ValueError, 'soil factor must be between [-1.0, 1.0]'),
    ]
    for i, (f, exc, msg) in enumerate(cases):
        try:
            f()
        except exc as e:
            if str(e) != msg:
                fail('error case %d: message %r' % (i, str(e)))
        except Exception as e:  # noqa
            fail('error case %d: raised %r' % (i, e))
        else:
            fail('error case %d: nothing raised' % i)
    # errors raised by validate_arrays: only type + message recorded
    for i, f in enumerate([lambda: ms.savi(a, b), lambda: ms.savi(a, b, soil_factor=3),
                           lambda: ms.ndvi(a, b), lambda: ms.arvi(a, a, b), lambda: ms.gci(b, a),
                           lambda: ms.sipi(a, b, a), lambda: ms.ebbi(a, a, b), lambda: ms.nbr(a, b),
                           lambda: ms.evi(a, a, a, c1=True, gain=0),
                           lambda: ms.ndmi(a, to_agg(np.ones((3, 4), 'f4'), 'dask'))]):
        try:
            r = f()
            txt = 'ok:%s' % (r.shape,)
        except Exception as e:  # noqa
            txt = '%s:%s' % (type(e).__name__, e)
        DIGESTS.setdefault('errors', hashlib.sha256()).update(('%d|%s;' % (i, txt)).encode())


def main():
    root = xrspatial.__file__
    print('xrspatial from', root)

    for label, (b0, b1, b2) in band_sets():
        nonneg = all(np.nanmin(np.where(np.isnan(f8(b)), 0, f8(b))) >= 0 for b in (b0, b1))
        # normalised differences
        for func in ('ndvi', 'nbr', 'nbr2', 'ndmi'):
            out = run(func, label, [b0, b1], exp_nd(b0, b1))
            swapped = run(func, label + '-swap', [b1, b0], exp_nd(b1, b0))
            if out is not None and swapped is not None:
                if not same(out, -swapped) and not np.array_equal(out, -swapped, equal_nan=True):
                    fail('%s %s: not antisymmetric' % (func, label))
                fin = out[np.isfinite(out)]
                if nonneg and fin.size and (fin.min() < -1 or fin.max() > 1):
                    fail('%s %s: out of [-1, 1]' % (func, label))
                if np.isinf(out).any():
                    d = f4(b0) + f4(b1)
                    if np.isinf(out[np.isfinite(d)]).any():
                        fail('%s %s: inf for finite denominator' % (func, label))
            if b0.dtype.kind == 'f' and 'huge' not in label:
                scaled = run(func, label + '-x4', [b0 * 4, b1 * 4], exp_nd(b0 * 4, b1 * 4))
                if out is not None and scaled is not None and not same(out, scaled):
                    fail('%s %s: not scale invariant' % (func, label))
        run('ndvi', label + '-named', [b0, b1], exp_nd(b0, b1), name='foo')
        # three band indices
        run('arvi', label, [b0, b1, b2], exp_arvi(b0, b1, b2))
        run('sipi', label, [b0, b1, b2], exp_sipi(b0, b1, b2))
        run('ebbi', label, [b0, b1, b2], exp_ebbi(b0, b1, b2))
        run('gci', label, [b0, b1], exp_gci(b0, b1))
        run('gci', label + '-b', [b2, b0], exp_gci(b2, b0))
        for kw in EVI_PARAMS:
            p = dict(c1=6.0, c2=7.5, soil_factor=1.0, gain=2.5)
            p.update(kw)
            run('evi', label, [b0, b1, b2],
                exp_evi(b0, b1, b2, p['c1'], p['c2'], p['soil_factor'], p['gain']), **kw)
        for s in SOILS:
            run('savi', label, [b0, b1], exp_savi(b0, b1, s), soil_factor=s)
        run('savi', label + '-default', [b0, b1], exp_savi(b0, b1, 1.0))
        # true colour
        for kw in TC_PARAMS:
            out = run('true_color', label, [b0, b1, b2], None, **kw)
            if out is None:
                continue
            if out.dtype != np.uint8 or out.shape != b0.shape + (4,):
                fail('true_color %s: dtype/shape %s %s' % (label, out.dtype, out.shape))
            elif not np.array_equal(out[:, :, 3], exp_alpha(b0, kw.get('nodata', 1))):
                fail('true_color %s %r: alpha' % (label, kw))
        tc = ms.true_color(to_agg(b0, 'numpy'), to_agg(b1, 'numpy'), to_agg(b2, 'numpy'))
        if tc.dims != ('y', 'x', 'band') or list(tc['band'].values) != [0, 1, 2, 3]:
            fail('true_color %s: dims' % label)

    check_errors()

    got = {k: v.hexdigest() for k, v in sorted(DIGESTS.items())}
    if '--record' in sys.argv:
        print('RECORDED = {')
        for k, v in got.items():
            print('    %r: %r,' % (k, v))
        print('}')
        return 0
    for k in sorted(set(got) | set(RECORDED)):
        if got.get(k) != RECORDED.get(k):
            fail('digest of %s results differs from the unmodified tree: %s != %s'
                 % (k, got.get(k), RECORDED.get(k)))
    if FAILS:
        print('%d FAILURES' % len(FAILS))
        return 1
    print('OK: %d result groups identical to formulas and recorded digests' % len(got))
    return 0


# digests recorded from the unmodified tree (python equiv.py --record)
RECORDED = {
    'arvi': 'd0e13b13b8f9fd6145479d7a320fa5948aa75ff203203099501fa0828d77fff1',
    'ebbi': 'a0dd53f14a6543df21d24e2affd4f3cc4528a71ccb4b62eb0182278997c7db34',
    'errors': '4de124d806da49e323d45f6aa06d12697fe9f7cf92e0e177d83a1a6dab42303b',
    'evi': '94dce33f15f977a6194b4ca6e1ccb0aa22d62074200134c017fbe61b8a9d6b97',
    'gci': '1e7cbe1c5d1050e4ee04dae20c6b3076c56ac199cdc75271723a2072fb7af152',
    'nbr': 'ed12ccbee871d4eeb4489552501b9cdf5e560f669de13d8925f2fffa43d57fc2',
    'nbr2': 'ed12ccbee871d4eeb4489552501b9cdf5e560f669de13d8925f2fffa43d57fc2',
    'ndmi': 'ed12ccbee871d4eeb4489552501b9cdf5e560f669de13d8925f2fffa43d57fc2',
    'ndvi': 'dff566b1aa481beb224f6fd91b449723b16a9458fe7440d308ebc7b058c7b05a',
    'savi': '44247d816bd9bdeddc6cd18326afed85be907e51803f3674c8cf4f8d156682e5',
    'sipi': '92fc81c1393dcd2c4168a6d35c217c39042bf211ab900720f1c249b8cf2b1066',
    'true_color': '7a30372201a04335afa405ea999f97a22d4769b8aee45a024e7777f61f35d37a',
}

if __name__ == '__main__':
    sys.exit(main())
