"""Differential test for xrspatial.zonal.trim / crop (property C18).

Expected windows are computed by an independent pure-numpy reference
(`ref_bounds`), which reproduces the scan semantics of the original kernels
(including the degenerate "nothing kept" case).  Results must agree in values,
dtype, dims, coords, attrs and name.  Inputs the original rejects (dask arrays,
heterogeneous / empty value lists) must still be rejected with the same
exception class.  Exit code 0 iff everything is identical.
"""
import sys
import warnings

import numpy as np
import xarray as xr
import dask.array as da

import xrspatial
from xrspatial.zonal import trim, crop

warnings.filterwarnings("ignore")
FAILS = []


def ref_bounds(keep):
    """keep: 2-D bool mask of cells that stop the scan."""
    rows, cols = keep.shape
    r = np.flatnonzero(keep.any(axis=1))
    c = np.flatnonzero(keep.any(axis=0))
    if r.size == 0:
        # original kernels run every scan to the end
        return rows - 1, 0, cols - 1, 0
    return int(r[0]), int(r[-1]), int(c[0]), int(c[-1])


def keep_trim(a, excludes):
    ex = np.zeros(a.shape, dtype=bool)
    for e in excludes:
        ex |= (a == e)
        if isinstance(e, float) and np.isnan(e) and a.dtype.kind == 'f':
            ex |= np.isnan(a)
    return ~ex


def keep_crop(z, ids):
    k = np.zeros(z.shape, dtype=bool)
    for v in ids:
        k |= (z == v)
    return k


def mk(a, name='src', dims=('lat', 'lon')):
    rows, cols = a.shape
    return xr.DataArray(
        a, dims=list(dims), name=name,
        coords={dims[0]: np.linspace(50.0, 40.0, rows) if rows > 1 else np.array([50.0]),
                dims[1]: np.arange(cols) * 2.5 - 3.0,
                'band': 7},
        attrs={'res': (2.5, 1.0), 'crs': 'EPSG:4326', 'nodata': -1})


def same(got, src, b, name, tag):
    t, bo, l, r = b
    exp = src.data[t:bo + 1, l:r + 1]
    ok = True
    ok &= isinstance(got, xr.DataArray)
    ok &= type(got.data) is type(src.data)
    ok &= got.shape == exp.shape and got.dtype == exp.dtype
    ok &= got.dims == src.dims
    ok &= got.name == name
    ok &= dict(got.attrs) == dict(src.attrs)
    if ok:
        ok &= np.array_equal(got.data, exp, equal_nan=(exp.dtype.kind == 'f'))
        ok &= set(got.coords) == set(src.coords)
        d0, d1 = src.dims
        ok &= np.array_equal(got[d0].values, src[d0].values[t:bo + 1])
        ok &= np.array_equal(got[d1].values, src[d1].values[l:r + 1])
        ok &= got[d0].dtype == src[d0].dtype and got[d1].dtype == src[d1].dtype
        ok &= int(got['band']) == 7
    if not ok:
        FAILS.append(tag)


def outcome(f, *a, **k):
    try:
        res = f(*a, **k)
        return 'ok', res
    except Exception as e:  # noqa
        return type(e).__name__, None


rng = np.random.default_rng(1234)
shapes = [(1, 1), (1, 5), (6, 1), (2, 2), (3, 4), (5, 5), (7, 3), (9, 11)]
dtypes = [np.float64, np.float32, np.int64, np.int32, np.uint8, np.int16]

# ---------------------------------------------------------------- trim
ncase = 0
for shp in shapes:
    for dt in dtypes:
        for rep in range(6):
            base = rng.integers(0, 4, size=shp)
            a = base.astype(dt)
            # blank a random frame so the window is interior / touches borders
            t, l = rng.integers(0, 3, 2)
            bo, r = rng.integers(0, 3, 2)
            fill = 0
            if t: a[:t, :] = fill
            if bo: a[-bo:, :] = fill
            if l: a[:, :l] = fill
            if r: a[:, -r:] = fill
            isf = np.dtype(dt).kind == 'f'
            if isf and rep % 2:
                a[a == 0] = np.nan
                if rep == 3:
                    a[rng.random(shp) < 0.2] = 0
            if rep == 5:
                a[...] = np.nan if isf else 0   # nothing kept
            src = mk(a)
            if isf:
                excl_sets = [(np.nan,), (0.0,), (np.nan, 0.0), [np.nan, 0.0, 3.0],
                             (np.float32(0),), [1.0, 2.0]]
            else:
                excl_sets = [(0,), [0], (0, 1), [0, 3, 2], (np.nan,), (5,),
                             (0, 1, 2, 3)]
            for ex in excl_sets:
                tag = 'trim %s %s rep%d ex=%r' % (shp, np.dtype(dt).name, rep, ex)
                st, got = outcome(trim, src, values=ex)
                if st != 'ok':
                    FAILS.append(tag + ' raised ' + st)
                    continue
                same(got, src, ref_bounds(keep_trim(a, ex)), 'trim', tag)
                ncase += 1
            # defaults + custom name + positional args
            st, got = outcome(trim, src)
            if st != 'ok':
                FAILS.append('trim default raised ' + st)
            else:
                same(got, src, ref_bounds(keep_trim(a, (np.nan,))), 'trim', 'trim default %s' % (shp,))
            if isf:
                st, got = outcome(trim, src, (0.0,), 'abc')
                if st != 'ok':
                    FAILS.append('trim positional raised ' + st)
                else:
                    same(got, src, ref_bounds(keep_trim(a, (0.0,))), 'abc', 'trim positional')
            # input must be untouched
            if src.name != 'src' or not np.array_equal(src.data, a, equal_nan=isf):
                FAILS.append('trim mutated input')

# ---------------------------------------------------------------- crop
for shp in shapes:
    for zdt in [np.int64, np.int32, np.float64, np.uint8]:
        for vdt in [np.float64, np.float32, np.int32]:
            for rep in range(4):
                z = rng.integers(0, 5, size=shp).astype(zdt)
                t, l = rng.integers(0, 3, 2)
                bo, r = rng.integers(0, 3, 2)
                if t: z[:t, :] = 0
                if bo: z[-bo:, :] = 0
                if l: z[:, :l] = 0
                if r: z[:, -r:] = 0
                if np.dtype(zdt).kind == 'f' and rep == 2:
                    z[z == 0] = np.nan
                v = (rng.random(shp) * 100).astype(vdt)
                if np.dtype(vdt).kind == 'f':
                    v[rng.random(shp) < 0.3] = np.nan
                zs = mk(z, name='zones')
                vs = mk(v, name='vals', dims=('y', 'x'))
                if np.dtype(zdt).kind == 'f':
                    id_sets = [(1.0,), [1.0, 3.0], (4.0, 2.0), (9.0,), (0.0,), (np.nan,)]
                else:
                    id_sets = [(1,), [1, 3], (4, 2), (9,), (0,), [0, 1, 2, 3, 4], (2.0,)]
                for ids in id_sets:
                    tag = 'crop %s z=%s v=%s rep%d ids=%r' % (
                        shp, np.dtype(zdt).name, np.dtype(vdt).name, rep, ids)
                    st, got = outcome(crop, zs, vs, ids)
                    if st != 'ok':
                        FAILS.append(tag + ' raised ' + st)
                        continue
                    same(got, vs, ref_bounds(keep_crop(z, ids)), 'crop', tag)
                    ncase += 1
                st, got = outcome(crop, zones=zs, values=vs, zones_ids=(1,), name='nm')
                if st != 'ok':
                    FAILS.append('crop kw raised ' + st)
                else:
                    same(got, vs, ref_bounds(keep_crop(z, (1,))), 'nm', 'crop kw')
                if vs.name != 'vals' or zs.name != 'zones':
                    FAILS.append('crop mutated input name')

# ------------------------------------------------ fixed hand-written cases
arr = np.array([[0, 0, 0, 0],
                [0, 4, 0, 0],
                [0, 4, 4, 0],
                [0, 1, 1, 0],
                [0, 0, 0, 0]], dtype=np.int64)
g = trim(mk(arr), values=(0,))
if not np.array_equal(g.data, [[4, 0], [4, 4], [1, 1]]):
    FAILS.append('hand trim')
g = crop(mk(arr), mk(arr * 10), zones_ids=(1,))
if not np.array_equal(g.data, [[10, 10]]) or list(g['lon'].values) != [-0.5, 2.0]:
    FAILS.append('hand crop')
nan_a = np.full((4, 5), np.nan); nan_a[2, 3] = np.inf; nan_a[1, 1] = -np.inf
g = trim(mk(nan_a))
if g.shape != (2, 3):
    FAILS.append('hand inf')
g = trim(mk(nan_a), values=(np.nan, np.inf))
if g.shape != (1, 1) or g.data[0, 0] != -np.inf:
    FAILS.append('hand inf2')

# -------------------------------------- inputs the original tree rejects
# (recorded from the unmodified tree)
fa = np.array([[np.nan, np.nan, np.nan], [np.nan, 1, 0], [np.nan, np.nan, np.nan]])
fr = mk(fa)
dk = mk(da.from_array(fa, chunks=(2, 2)))
recorded = [
    ('trim hetero tuple', lambda: trim(fr, values=(np.nan, 0)), 'TypingError'),
    ('trim hetero list', lambda: trim(fr, values=[np.nan, 0]), 'TypeError'),
    ('trim empty tuple', lambda: trim(fr, values=()), 'TypingError'),
    ('trim empty list', lambda: trim(fr, values=[]), 'ValueError'),
    ('trim dask', lambda: trim(dk), 'TypingError'),
    ('crop dask zones', lambda: crop(dk, fr, (1.0,)), 'TypingError'),
    ('crop empty list', lambda: crop(fr, fr, []), 'ValueError'),
    ('crop empty tuple', lambda: crop(fr, fr, ()), 'TypingError'),
    ('trim 1d', lambda: trim(xr.DataArray(np.arange(4.0))), 'TypingError'),
    ('trim 3d', lambda: trim(xr.DataArray(np.zeros((2, 2, 2)))), 'TypingError'),
]
for tag, f, exp in recorded:
    st, _ = outcome(f)
    if st != exp:
        FAILS.append('%s: expected %s got %s' % (tag, exp, st))

# crop with numpy zones and dask-backed values works lazily on the original
st, got = outcome(crop, fr, dk, (1.0,))
if st != 'ok' or not isinstance(got.data, da.Array) or got.shape != (1, 1) \
        or float(got.compute().data[0, 0]) != 1.0 or got.name != 'crop':
    FAILS.append('crop numpy zones + dask values: ' + st)

print('xrspatial from', xrspatial.__file__)
print('cases checked:', ncase)
if FAILS:
    print('FAILURES (%d):' % len(FAILS))
    for f in FAILS[:40]:
        print('  ', f)
    sys.exit(1)
print('OK')
sys.exit(0)
