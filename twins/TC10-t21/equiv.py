"""Differential test for the TC10-t21 refactoring (classify.natural_breaks phases).

Runs xrspatial.classify.natural_breaks on a range of rasters (all integer and
float dtypes, NaN / +-inf cells, odd shapes, few unique values, sampling on and
off, C / F / strided-view / read-only layouts, numpy and - unsupported - dask)
and compares a digest of every result (dtype + shape + bytes), the warnings
emitted, or the exception type, with those recorded on the unmodified tree.  It
also checks the C10 invariants: inputs (values incl. their order, coords, attrs)
untouched, output shares no memory with the input, output keeps shape / dims /
coords / attrs / backend.

    python equiv.py            -> exit 0 when everything is identical
    python equiv.py --record   -> print the digest table (used once, on the unmodified tree)
"""
import copy
import hashlib
import sys
import warnings

import dask.array as da
import numpy as np
import xarray as xr

import xrspatial
from xrspatial.classify import natural_breaks

EXPECTED = {
    '(6, 7)|int8|uniform|C|p0|numpy': 'f0026413047f79d53ac97946|natural_breaks',
    '(6, 7)|int8|uniform|C|p2|numpy': '4f9d3fe52ef00b21170331c8|natural_breaks',
    '(6, 7)|int16|lumpy|C|p1|numpy': '2b88cf45e12c00ae822efe68|natural_breaks',
    '(6, 7)|int16|lumpy|C|p3|numpy': '98e5e3820be59a233e460cfe|natural_breaks',
    '(6, 7)|int32|few|C|p2|numpy': '43550895b23d9f35a92e51ae|natural_breaks|W:fee39c40efb7',
    '(6, 7)|int32|few|C|p4|numpy': 'fc4d7183db3fda3a3c528f64|natural_breaks',
    '(6, 7)|int64|uniform|F|p3|numpy': 'f3ed5f937d938468c6ea77b9|natural_breaks',
    '(6, 7)|int64|uniform|F|p0|numpy': 'c02747b427b8cb19b0d9271a|natural_breaks',
    '(6, 7)|uint8|lumpy|F|p4|numpy': '1613a82d125f5a2d31fdb5c8|natural_breaks',
    '(6, 7)|uint8|lumpy|F|p1|numpy': 'bd467549c8e762e1b3d8d29a|natural_breaks',
    '(6, 7)|uint16|few|F|p0|numpy': '54a98d0e4a385c01a6ecfa18|natural_breaks|W:3ca9a65aa020',
    '(6, 7)|uint16|few|F|p2|numpy': '54a98d0e4a385c01a6ecfa18|natural_breaks|W:fee39c40efb7',
    '(6, 7)|uint32|uniform|view|p1|numpy': 'deadeb38409aeef9f6c49f25|natural_breaks',
    '(6, 7)|uint32|uniform|view|p3|numpy': 'e868b6e7d60cc82790286e5d|natural_breaks',
    '(6, 7)|uint64|lumpy|view|p2|numpy': '784fc85397e89d6aa76e2174|natural_breaks',
    '(6, 7)|uint64|lumpy|view|p4|numpy': '935dcdc4842cbafdd4a40a38|natural_breaks',
    '(6, 7)|float32|few|view|p3|numpy': '7252f1f9a7f45abd0d98fb88|natural_breaks|W:611831642979',
    '(6, 7)|float32|few|view|p0|numpy': '7252f1f9a7f45abd0d98fb88|natural_breaks|W:3ca9a65aa020',
    '(6, 7)|float64|uniform|ro|p4|numpy': '209ce1710d2723f513e95da6|natural_breaks',
    '(6, 7)|float64|uniform|ro|p1|numpy': '41ad8a1ff0368de7197db577|natural_breaks',
    '(11, 5)|int8|lumpy|ro|p0|numpy': '11b8210a3ed1560ea7eeb53e|natural_breaks',
    '(11, 5)|int8|lumpy|ro|p2|numpy': '16a7cfa9baafb6f4834f54dc|natural_breaks',
    '(11, 5)|int16|few|ro|p1|numpy': '6681ce062ede56e2f1cbdf28|natural_breaks',
    '(11, 5)|int16|few|ro|p3|numpy': '6681ce062ede56e2f1cbdf28|natural_breaks|W:611831642979',
    '(11, 5)|int32|uniform|C|p2|numpy': 'aab3f92c19dec76c061ba55c|natural_breaks',
    '(11, 5)|int32|uniform|C|p4|numpy': '2927d15785ee104c790fffa2|natural_breaks',
    '(11, 5)|int64|lumpy|C|p3|numpy': '1d28f3f4c635ceab9e6101ff|natural_breaks',
    '(11, 5)|int64|lumpy|C|p0|numpy': '15b1d00c8cd01410573720c5|natural_breaks',
    '(11, 5)|uint8|few|C|p4|numpy': 'cc43881e45398e06cbe8e431|natural_breaks',
    '(11, 5)|uint8|few|C|p1|numpy': '4d8308f209a0d79b77d05ab4|natural_breaks',
    '(11, 5)|uint16|uniform|F|p0|numpy': 'd6c8b36785f03902a37b207d|natural_breaks',
    '(11, 5)|uint16|uniform|F|p2|numpy': 'bacc93eb0f7770a6235e8383|natural_breaks',
    '(11, 5)|uint32|lumpy|F|p1|numpy': '5e49158dabf394e96145dece|natural_breaks',
    '(11, 5)|uint32|lumpy|F|p3|numpy': '67b6d47e5a7832e8ba0002e0|natural_breaks',
    '(11, 5)|uint64|few|F|p2|numpy': 'ed473e8a8a69e461accd1961|natural_breaks|W:fee39c40efb7',
    '(11, 5)|uint64|few|F|p4|numpy': '0f74231464a7916d8b9464ef|natural_breaks',
    '(11, 5)|float32|uniform|view|p3|numpy': '898fa89e3ac010370d6c8604|natural_breaks',
    '(11, 5)|float32|uniform|view|p0|numpy': '2feea44f36035807a7706552|natural_breaks',
    '(11, 5)|float64|lumpy|view|p4|numpy': '9dec7830dd8e71e114c31b01|natural_breaks',
    '(11, 5)|float64|lumpy|view|p1|numpy': '51c0911f50975d59d5e862a6|natural_breaks',
    '(1, 9)|int8|few|view|p0|numpy': '42ed6b08375cf5154a20db44|natural_breaks|W:3ca9a65aa020',
    '(1, 9)|int8|few|view|p2|numpy': '42ed6b08375cf5154a20db44|natural_breaks|W:fee39c40efb7',
    '(1, 9)|int16|uniform|ro|p1|numpy': '2dee2df3164649c251efcc0b|natural_breaks',
    '(1, 9)|int16|uniform|ro|p3|numpy': '589bedf9ccf6dc6b59cf744f|natural_breaks',
    '(1, 9)|int32|lumpy|ro|p2|numpy': 'ddab487b2140e37fc2c0a843|natural_breaks',
    '(1, 9)|int32|lumpy|ro|p4|numpy': '8f872f3e86bb14c02b5ce1f1|natural_breaks',
    '(1, 9)|int64|few|ro|p3|numpy': 'a4c9558476e1c91562c935c4|natural_breaks|W:611831642979',
    '(1, 9)|int64|few|ro|p0|numpy': 'a4c9558476e1c91562c935c4|natural_breaks|W:3ca9a65aa020',
    '(1, 9)|uint8|uniform|C|p4|numpy': '5cfc1d6b98cee2cbe6a73c68|natural_breaks',
    '(1, 9)|uint8|uniform|C|p1|numpy': '498d855331c2b77a46c0b624|natural_breaks',
    '(1, 9)|uint16|lumpy|C|p0|numpy': '258af61c98fe6b4f4cfe1420|natural_breaks',
    '(1, 9)|uint16|lumpy|C|p2|numpy': '6e2fdb4b978b4631fa914119|natural_breaks',
    '(1, 9)|uint32|few|C|p1|numpy': '9743262bc6cc8f94e4427a16|natural_breaks',
    '(1, 9)|uint32|few|C|p3|numpy': '9743262bc6cc8f94e4427a16|natural_breaks|W:611831642979',
    '(1, 9)|uint64|uniform|F|p2|numpy': 'df4a6a8e1e1861e3a6f127cd|natural_breaks',
    '(1, 9)|uint64|uniform|F|p4|numpy': '3428cc16aec7449e19fae38b|natural_breaks',
    '(1, 9)|float32|lumpy|F|p3|numpy': '9607e5516873e2b1d8b66f92|natural_breaks|W:223259269fc2',
    '(1, 9)|float32|lumpy|F|p0|numpy': '4c956311836e56d09359ecbb|natural_breaks',
    '(1, 9)|float64|few|F|p4|numpy': '4784a0f18d7d94cb8167f858|natural_breaks',
    '(1, 9)|float64|few|F|p1|numpy': '4444139af3c426242e7a3672|natural_breaks',
    '(8, 1)|int8|uniform|view|p0|numpy': '7aee6543422d5d87f685942a|natural_breaks',
    '(8, 1)|int8|uniform|view|p2|numpy': '5ff319f75c7d706b2eba7b17|natural_breaks',
    '(8, 1)|int16|lumpy|view|p1|numpy': 'a14243c799063ee13fd87698|natural_breaks',
    '(8, 1)|int16|lumpy|view|p3|numpy': '4d42afe13ba1074c25f63368|natural_breaks|W:223259269fc2',
    '(8, 1)|int32|few|view|p2|numpy': 'd91010126990abad70690365|natural_breaks|W:fee39c40efb7',
    '(8, 1)|int32|few|view|p4|numpy': '22f570dbeda55ccc6245ebe2|natural_breaks',
    '(8, 1)|int64|uniform|ro|p3|numpy': '0f439e19cb6c34408267e067|natural_breaks',
    '(8, 1)|int64|uniform|ro|p0|numpy': 'a74f85474d9f43e54ff159e7|natural_breaks',
    '(8, 1)|uint8|lumpy|ro|p4|numpy': '6caed6f8bcb1c327b7f5bd68|natural_breaks',
    '(8, 1)|uint8|lumpy|ro|p1|numpy': 'b841a81accfea388423b446a|natural_breaks',
    '(8, 1)|uint16|few|ro|p0|numpy': 'd128a1232a94fdf7fb6d282c|natural_breaks|W:c5dbdbcb79ec',
    '(8, 1)|uint16|few|ro|p2|numpy': 'd128a1232a94fdf7fb6d282c|natural_breaks|W:33a617467fa8',
    '(8, 1)|uint32|uniform|C|p1|numpy': '2e79f962e598a31ff0dd7512|natural_breaks',
    '(8, 1)|uint32|uniform|C|p3|numpy': '3c682ea496939717fa36980f|natural_breaks',
    '(8, 1)|uint64|lumpy|C|p2|numpy': '8d338e62192e913635a6bbbb|natural_breaks',
    '(8, 1)|uint64|lumpy|C|p4|numpy': 'd9bd6f705df9eedf5f0003a2|natural_breaks',
    '(8, 1)|float32|few|C|p3|numpy': '8af12f3ee8bf5a6e300be764|natural_breaks|W:611831642979',
    '(8, 1)|float32|few|C|p0|numpy': '8af12f3ee8bf5a6e300be764|natural_breaks|W:3ca9a65aa020',
    '(8, 1)|float64|uniform|F|p4|numpy': 'bc64084a4bc0c66649e36927|natural_breaks',
    '(8, 1)|float64|uniform|F|p1|numpy': '2a9f526089cfdbfbc967312a|natural_breaks',
    '(13, 14)|int8|lumpy|F|p0|numpy': '5c32016c593993e3996f7773|natural_breaks',
    '(13, 14)|int8|lumpy|F|p2|numpy': 'c3537e175e17c7d4455a36bb|natural_breaks',
    '(13, 14)|int16|few|F|p1|numpy': '3bfd968046548864ad1f8ddc|natural_breaks',
    '(13, 14)|int16|few|F|p3|numpy': '3bfd968046548864ad1f8ddc|natural_breaks|W:611831642979',
    '(13, 14)|int32|uniform|view|p2|numpy': '4db26861a08b79de1cac29a9|natural_breaks',
    '(13, 14)|int32|uniform|view|p4|numpy': 'a9519675b48faddd428d90d5|natural_breaks',
    '(13, 14)|int64|lumpy|view|p3|numpy': '70f4d314fbcce75791a8243b|natural_breaks',
    '(13, 14)|int64|lumpy|view|p0|numpy': 'f041c13a9b08434da2439f5d|natural_breaks',
    '(13, 14)|uint8|few|view|p4|numpy': '5129d4f25bf97a0921c916bd|natural_breaks',
    '(13, 14)|uint8|few|view|p1|numpy': '83c592a90cb20716dafe3ec4|natural_breaks',
    '(13, 14)|uint16|uniform|ro|p0|numpy': '5b6efe8b491d5c73e59a94cb|natural_breaks',
    '(13, 14)|uint16|uniform|ro|p2|numpy': '0270d06941e12dcc4876bd55|natural_breaks',
    '(13, 14)|uint32|lumpy|ro|p1|numpy': 'aef1dd0408950645c7d92f3d|natural_breaks',
    '(13, 14)|uint32|lumpy|ro|p3|numpy': '5bc9b95c69aedf28395c8725|natural_breaks',
    '(13, 14)|uint64|few|ro|p2|numpy': '1a76a99a20635d9156c79c46|natural_breaks|W:fee39c40efb7',
    '(13, 14)|uint64|few|ro|p4|numpy': 'c0cc6567cf2c1f4677ce7fe1|natural_breaks',
    '(13, 14)|float32|uniform|C|p3|numpy': '8b7c191701b9044e98388e1e|natural_breaks',
    '(13, 14)|float32|uniform|C|p0|numpy': '24b1aedd646c55507ac55a91|natural_breaks',
    '(13, 14)|float64|lumpy|C|p4|numpy': '490312c5c8b4352b7896410e|natural_breaks',
    '(13, 14)|float64|lumpy|C|p1|numpy': '6eb55ba2b382e6b0524ae84c|natural_breaks',
    'dask': 'EXC:NotImplementedError:natural_breaks() does not support dask with numpy backed Dat',
    'big|sampled': 'd740d2c242779847a72ec9c5|natural_breaks',
    'big|name': '3095b9099552a463d9a57534|nb',
}


def digest(arr):
    arr = np.ascontiguousarray(arr)
    h = hashlib.sha256()
    h.update(str(arr.dtype).encode())
    h.update(str(arr.shape).encode())
    h.update(arr.tobytes())
    return h.hexdigest()[:24]


def make_data(shape, dtype, seed, kind):
    rng = np.random.RandomState(seed)
    dtype = np.dtype(dtype)
    if kind == 'few':
        base = rng.choice([3., 7., 11.], size=shape)
    elif kind == 'lumpy':
        base = np.concatenate([rng.normal(m, 2, size=shape[0] * shape[1] // 3 + 1)
                               for m in (10, 40, 90)])[:shape[0] * shape[1]]
        rng.shuffle(base)
        base = base.reshape(shape)
    else:
        base = rng.uniform(0, 120, size=shape)
    if dtype.kind == 'f':
        data = base.astype(dtype)
        if data.size > 8:
            pos = rng.choice(data.size, 3, replace=False)
            data.ravel()[pos[0]] = np.nan
            data.ravel()[pos[1]] = np.inf
            data.ravel()[pos[2]] = -np.inf
        return data
    info = np.iinfo(dtype)
    if dtype.kind == 'i' and kind != 'few':
        base = base - 30
    return np.clip(base, info.min, info.max).astype(dtype)


def layouts(data):
    big = np.zeros((data.shape[0] * 2, data.shape[1] * 2), dtype=data.dtype)
    big[::2, ::2] = data
    ro = data.copy()
    ro.setflags(write=False)
    return {
        'C': np.ascontiguousarray(data),
        'F': np.asfortranarray(data),
        'view': big[::2, ::2],
        'ro': ro,
    }


def make_raster(arr, backend, chunks):
    h, w = arr.shape
    data = da.from_array(arr, chunks=chunks) if backend == 'dask' else arr
    scalar = xr.DataArray(7, attrs={'k': 'v'})
    return xr.DataArray(
        data, dims=['lat', 'lon'],
        coords={'lat': np.linspace(5, 4, h), 'lon': np.arange(w) * 2.5, 'band': scalar},
        attrs={'res': (1, 1), 'nested': {'a': [1, 2]}, 'unit': 'm'},
    )


def snapshot(raster):
    return (
        np.array(raster.data, copy=True),
        {k: np.array(v.values, copy=True) for k, v in raster.coords.items()},
        repr(raster.attrs), raster.dims, raster.shape, str(raster.dtype),
    )


def same_snapshot(a, b):
    if a[3:] != b[3:] or a[2] != b[2]:
        return False
    if a[0].dtype != b[0].dtype or not np.array_equal(a[0], b[0], equal_nan=True):
        return False
    if a[1].keys() != b[1].keys():
        return False
    return all(a[1][k].dtype == b[1][k].dtype and np.array_equal(a[1][k], b[1][k])
               for k in a[1])


def cases():
    shapes = [(6, 7), (11, 5), (1, 9), (8, 1), (13, 14)]
    dtypes = [np.int8, np.int16, np.int32, np.int64, np.uint8, np.uint16, np.uint32,
              np.uint64, np.float32, np.float64]
    lays = ['C', 'F', 'view', 'ro']
    kinds = ['uniform', 'lumpy', 'few']
    params = [
        dict(),
        dict(k=3),
        dict(k=4, num_sample=20),
        dict(k=7, num_sample=None),
        dict(k=2, num_sample=5),
    ]
    i = 0
    for shape in shapes:
        for dtype in dtypes:
            kind = kinds[i % len(kinds)]
            lay = lays[(i // 3) % len(lays)]
            data = make_data(shape, dtype, seed=i, kind=kind)
            arr = layouts(data)[lay]
            for pi in (i % len(params), (i + 2) % len(params)):
                key = '%s|%s|%s|%s|p%d|numpy' % (shape, np.dtype(dtype).name, kind, lay, pi)
                yield key, arr, params[pi], 'numpy', None
            i += 1
    # dask is not supported: the error must stay the same
    data = make_data((6, 7), np.float64, seed=99, kind='uniform')
    yield 'dask', data, dict(k=3), 'dask', (3, 4)
    # more than 40000 sampled points would only warn; keep k tiny, sample tiny
    big = make_data((60, 50), np.float32, seed=5, kind='lumpy')
    yield 'big|sampled', big, dict(k=5, num_sample=150), 'numpy', None
    yield 'big|name', big[:20, :20], dict(k=4, num_sample=100, name='nb'), 'numpy', None


def main():
    record = '--record' in sys.argv
    assert '/tmp/t5/TC10/' in xrspatial.__file__, xrspatial.__file__
    got = {}
    failures = []
    for key, arr, kw, backend, chunks in cases():
        raster = make_raster(arr, backend, chunks)
        before = snapshot(raster)
        attrs_before = copy.deepcopy(raster.attrs)
        arr_before = arr.copy()
        with warnings.catch_warnings(record=True) as caught:
            warnings.simplefilter('always')
            try:
                out = natural_breaks(raster, **kw)
                is_dask = isinstance(out.data, da.Array)
                values = out.values
                d = digest(values) + '|' + str(out.name)
                # C10 invariants
                if is_dask != (backend == 'dask'):
                    failures.append((key, 'backend changed'))
                if out.shape != raster.shape or out.dims != raster.dims:
                    failures.append((key, 'shape/dims changed'))
                if out.attrs != attrs_before:
                    failures.append((key, 'attrs changed'))
                if set(out.coords) != set(raster.coords) or not all(
                        np.array_equal(out.coords[c].values, raster.coords[c].values)
                        and out.coords[c].dtype == raster.coords[c].dtype
                        for c in raster.coords):
                    failures.append((key, 'coords changed'))
                if out.coords['band'].attrs != {'k': 'v'}:
                    failures.append((key, 'scalar coord attrs changed'))
                if backend == 'numpy':
                    if np.shares_memory(out.data, arr):
                        failures.append((key, 'output shares memory with input'))
                    out.data[...] = 77
            except Exception as e:  # recorded too: errors must stay the same
                d = 'EXC:' + type(e).__name__ + ':' + str(e)[:60]
        msgs = sorted('%s:%s' % (w.category.__name__, str(w.message)) for w in caught
                      if 'natural_breaks' in str(w.message))
        if msgs:
            d += '|W:' + hashlib.sha256('\n'.join(msgs).encode()).hexdigest()[:12]
        if raster.attrs != attrs_before:
            failures.append((key, 'input attrs modified'))
        if not same_snapshot(before, snapshot(raster)):
            failures.append((key, 'input raster modified'))
        if not (arr.dtype == arr_before.dtype
                and np.array_equal(arr, arr_before, equal_nan=arr.dtype.kind == 'f')):
            failures.append((key, 'input array modified (values or their order)'))
        got[key] = d

    if record:
        print('EXPECTED = {')
        for k in got:
            print('    %r: %r,' % (k, got[k]))
        print('}')
        return 0

    if set(got) != set(EXPECTED):
        failures.append(('keys', 'case table differs from the recorded one'))
    for k, v in got.items():
        if EXPECTED.get(k) != v:
            failures.append((k, '%s != recorded %s' % (v, EXPECTED.get(k))))
    for f in failures[:40]:
        print('FAIL', f)
    print('%d cases, %d failures' % (len(got), len(failures)))
    return 1 if failures else 0


if __name__ == '__main__':
    sys.exit(main())
