"""Differential test for the proximity / allocation / direction refactoring (C11).

Every call is hashed (dtype + shape + raw bytes -> bit-exact, NaNs included)
and compared with the hash recorded from the unmodified tree.  The call list is
executed forward and then (every third call) backward under different numba /
dask thread settings, so a dependence on earlier calls (targets, max_distance,
metric, output mode, dtype, backend) or on thread timing shows up too.

    RECORD=1 python equiv.py    # print the table of expected hashes
"""
import hashlib
import os
import sys
import warnings

import dask
import dask.array as da
import numba
import numpy as np
import xarray as xr

import xrspatial
from xrspatial import allocation, direction, proximity
from xrspatial.proximity import (euclidean_distance, great_circle_distance,
                                 manhattan_distance)

warnings.filterwarnings("ignore")

FUNCS = {"prox": proximity, "alloc": allocation, "dir": direction}


def digest(a):
    a = np.ascontiguousarray(a)
    h = hashlib.sha256()
    h.update(str(a.dtype).encode())
    h.update(str(a.shape).encode())
    h.update(a.tobytes())
    return h.hexdigest()[:20]


def make_raster(kind, chunks=None):
    rng = np.random.RandomState(42)
    if kind == "A":      # float64 with NaN / inf, unit cells, descending y
        d = np.zeros((6, 9))
        d[1, 2] = 1; d[4, 7] = 2; d[5, 0] = 3; d[0, 8] = 2; d[3, 4] = np.nan; d[2, 6] = np.inf
        xs = np.arange(9.); ys = np.arange(6.)[::-1]
    elif kind == "B":    # int32, integer coords
        d = np.zeros((5, 5), dtype=np.int32)
        d[0, 0] = 1; d[2, 3] = 3; d[4, 1] = 2
        xs = np.arange(5); ys = np.arange(5)[::-1]
    elif kind == "C":    # single row, float32
        d = np.array([[0, 0, 2, 0, 0, 1, 0]], dtype=np.float32)
        xs = np.linspace(10, 16, 7); ys = np.array([3.0])
    elif kind == "D":    # lon / lat grid for GREAT_CIRCLE
        d = (rng.rand(8, 11) > 0.85).astype(np.float64) * rng.randint(1, 4, (8, 11))
        xs = np.linspace(-170, 170, 11); ys = np.linspace(80, -80, 8)
    elif kind == "E":    # anisotropic cells, int64, many targets
        d = (rng.rand(13, 7) > 0.8).astype(np.int64) * rng.randint(1, 4, (13, 7))
        xs = np.arange(7) * 0.5; ys = np.arange(13)[::-1] * 2.0
    elif kind == "F":    # single column uint8
        d = np.array([[0], [0], [1], [0], [0], [0], [3]], dtype=np.uint8)
        xs = np.array([0.0]); ys = np.arange(7.)
    elif kind == "G":    # no targets at all, float32 with NaN
        d = np.zeros((4, 6), dtype=np.float32); d[1, 1] = np.nan
        xs = np.arange(6.); ys = np.arange(4.)[::-1]
    if chunks is not None:
        d = da.from_array(d, chunks=chunks)
    r = xr.DataArray(d, dims=["y", "x"], attrs={"res": 1, "tag": kind})
    r["x"] = xs
    r["y"] = ys
    return r


def cases():
    out = []
    spec = [
        # kind, chunks, metric, targets, max_distance
        ("A", None, "EUCLIDEAN", [], np.inf),
        ("A", None, "EUCLIDEAN", [2], np.inf),
        ("A", None, "EUCLIDEAN", [1, 3], 3),
        ("A", None, "MANHATTAN", [], 2.5),
        ("A", None, "MANHATTAN", [2.0, 3.0], np.inf),
        ("A", None, "EUCLIDEAN", [99], np.inf),
        ("A", None, "EUCLIDEAN", [], 0),
        ("A", None, "NOT_A_METRIC", [], 4),
        ("A", None, "EUCLIDEAN", [], None),
        ("A", (3, 4), "EUCLIDEAN", [], np.inf),
        ("A", (3, 4), "EUCLIDEAN", [2], 2),
        ("A", (2, 9), "MANHATTAN", [], 3),
        ("A", (6, 9), "EUCLIDEAN", [1, 2], 1.5),
        ("A", (4, 5), "EUCLIDEAN", [], 1000.0),
        ("B", None, "EUCLIDEAN", [], np.inf),
        ("B", None, "EUCLIDEAN", [3], 2),
        ("B", None, "MANHATTAN", [1, 2], 10),
        ("B", (2, 3), "EUCLIDEAN", [], 2),
        ("B", (5, 5), "MANHATTAN", [2], np.inf),
        ("C", None, "EUCLIDEAN", [], np.inf),
        ("C", None, "MANHATTAN", [1], 2),
        ("D", None, "GREAT_CIRCLE", [], np.inf),
        ("D", None, "GREAT_CIRCLE", [2], 5e6),
        ("D", None, "EUCLIDEAN", [], 60),
        ("D", (4, 6), "GREAT_CIRCLE", [], np.inf),
        ("D", (3, 5), "GREAT_CIRCLE", [1, 3], 5e7),
        ("E", None, "EUCLIDEAN", [], np.inf),
        ("E", None, "EUCLIDEAN", [1], 3.0),
        ("E", None, "MANHATTAN", [2, 3], 4),
        ("E", (5, 3), "EUCLIDEAN", [], 3.0),
        ("E", (13, 2), "MANHATTAN", [3], 2),
        ("F", None, "EUCLIDEAN", [], np.inf),
        ("F", None, "MANHATTAN", [3], 3),
        ("G", None, "EUCLIDEAN", [], np.inf),
        ("G", (2, 3), "EUCLIDEAN", [], 2),
    ]
    for n, (kind, chunks, metric, targets, md) in enumerate(spec):
        # rotate the output mode so that neighbouring calls differ in mode too
        modes = ["prox", "alloc", "dir"]
        modes = modes[n % 3:] + modes[:n % 3]
        if n % 4 == 3:
            modes = modes[:2]
        for mode in modes:
            name = "%s-%s-%s-%s-%s-%s" % (mode, kind, chunks, metric, targets, md)

            def fn(mode=mode, kind=kind, chunks=chunks, metric=metric, targets=targets, md=md):
                r = make_raster(kind, chunks)
                res = FUNCS[mode](r, target_values=targets, max_distance=md,
                                  distance_metric=metric)
                lazy = isinstance(res.data, da.Array)
                info = (str(res.dtype), type(res.data).__name__,
                        res.data.chunks if lazy else None,
                        r.data.chunks if lazy else None,     # input may be rechunked
                        tuple(res.dims), tuple(sorted(res.coords)),
                        tuple(sorted(res.attrs.items())),
                        # dask key names carry a per-process random token: keep the prefix
                        res.name.rsplit('-', 1)[0] if res.name else res.name)
                ok_coords = all(np.array_equal(res[c].values, r[c].values) for c in ("x", "y"))
                return (digest(res.values), info, ok_coords)
            out.append((name, fn))
    return out


def scalar_and_error_checks(failures):
    # public distance helpers, exact values (recorded from the unmodified tree / docstrings)
    if euclidean_distance(142.32, 312.54, 23.23, 432.01) != 442.80462599209596:
        failures.append("euclidean_distance changed")
    if manhattan_distance(142.32, 312.54, 23.23, 432.01) != 579.0:
        failures.append("manhattan_distance changed")
    if great_circle_distance(123.2, 178.0, 82.32, 65.09) != 2378290.489801402:
        failures.append("great_circle_distance changed")
    # wrong coordinate names -> ValueError, for each public wrapper
    r = make_raster("A").rename({"x": "lon", "y": "lat"})
    for f in FUNCS.values():
        try:
            f(r)
            failures.append("%s: no ValueError for wrong dims" % f.__name__)
        except ValueError as e:
            if "raster.coords should be named as coordinates:(y, x)" not in str(e):
                failures.append("%s: message changed: %s" % (f.__name__, e))
    # ... while passing the names works and keeps them
    res = proximity(r, x="lon", y="lat", target_values=[2])
    if res.dims != ("lat", "lon"):
        failures.append("renamed dims not preserved")
    # GREAT_CIRCLE with coordinates outside lon/lat range -> ValueError
    bad = make_raster("A")
    bad["x"] = np.arange(9.) * 100
    try:
        proximity(bad, distance_metric="GREAT_CIRCLE")
        failures.append("no ValueError for out-of-range GREAT_CIRCLE coords")
    except ValueError:
        pass
    # positional calling convention of the public API
    a = proximity(make_raster("A"), "x", "y", [2], 3, "MANHATTAN")
    b = proximity(make_raster("A"), target_values=[2], max_distance=3, distance_metric="MANHATTAN")
    if digest(a.values) != digest(b.values):
        failures.append("positional != keyword call")


EXPECTED = {
    'prox-A-None-EUCLIDEAN-[]-inf': ('d0f10155056e1dad6a9f', ('float32', 'ndarray', None, None, ('y', 'x'), ('x', 'y'), (('res', 1), ('tag', 'A')), None), True),
    'alloc-A-None-EUCLIDEAN-[]-inf': ('b14812fc117267b9e183', ('float32', 'ndarray', None, None, ('y', 'x'), ('x', 'y'), (('res', 1), ('tag', 'A')), None), True),
    'dir-A-None-EUCLIDEAN-[]-inf': ('bb7e8b4a79f406cb205d', ('float32', 'ndarray', None, None, ('y', 'x'), ('x', 'y'), (('res', 1), ('tag', 'A')), None), True),
    'alloc-A-None-EUCLIDEAN-[2]-inf': ('3c15ed64d8a13479c824', ('float32', 'ndarray', None, None, ('y', 'x'), ('x', 'y'), (('res', 1), ('tag', 'A')), None), True),
    'dir-A-None-EUCLIDEAN-[2]-inf': ('494a8c0ddd71283b6562', ('float32', 'ndarray', None, None, ('y', 'x'), ('x', 'y'), (('res', 1), ('tag', 'A')), None), True),
    'prox-A-None-EUCLIDEAN-[2]-inf': ('501c64726a9a7c51c67e', ('float32', 'ndarray', None, None, ('y', 'x'), ('x', 'y'), (('res', 1), ('tag', 'A')), None), True),
    'dir-A-None-EUCLIDEAN-[1, 3]-3': ('0f838d062fb703d95a3b', ('float32', 'ndarray', None, None, ('y', 'x'), ('x', 'y'), (('res', 1), ('tag', 'A')), None), True),
    'prox-A-None-EUCLIDEAN-[1, 3]-3': ('984656f9dbeebd41cc00', ('float32', 'ndarray', None, None, ('y', 'x'), ('x', 'y'), (('res', 1), ('tag', 'A')), None), True),
    'alloc-A-None-EUCLIDEAN-[1, 3]-3': ('225e49bc3f7061b4a18a', ('float32', 'ndarray', None, None, ('y', 'x'), ('x', 'y'), (('res', 1), ('tag', 'A')), None), True),
    'prox-A-None-MANHATTAN-[]-2.5': ('804d70dc84af7f0b0cdc', ('float32', 'ndarray', None, None, ('y', 'x'), ('x', 'y'), (('res', 1), ('tag', 'A')), None), True),
    'alloc-A-None-MANHATTAN-[]-2.5': ('bb4abad2245824c71c81', ('float32', 'ndarray', None, None, ('y', 'x'), ('x', 'y'), (('res', 1), ('tag', 'A')), None), True),
    'alloc-A-None-MANHATTAN-[2.0, 3.0]-inf': ('8e0bb415d7575c200d35', ('float32', 'ndarray', None, None, ('y', 'x'), ('x', 'y'), (('res', 1), ('tag', 'A')), None), True),
    'dir-A-None-MANHATTAN-[2.0, 3.0]-inf': ('d569a568bf9f88d99019', ('float32', 'ndarray', None, None, ('y', 'x'), ('x', 'y'), (('res', 1), ('tag', 'A')), None), True),
    'prox-A-None-MANHATTAN-[2.0, 3.0]-inf': ('895bdf8f61452555f25a', ('float32', 'ndarray', None, None, ('y', 'x'), ('x', 'y'), (('res', 1), ('tag', 'A')), None), True),
    'dir-A-None-EUCLIDEAN-[99]-inf': ('0b22e9c184acecc4c1ae', ('float32', 'ndarray', None, None, ('y', 'x'), ('x', 'y'), (('res', 1), ('tag', 'A')), None), True),
    'prox-A-None-EUCLIDEAN-[99]-inf': ('0b22e9c184acecc4c1ae', ('float32', 'ndarray', None, None, ('y', 'x'), ('x', 'y'), (('res', 1), ('tag', 'A')), None), True),
    'alloc-A-None-EUCLIDEAN-[99]-inf': ('0b22e9c184acecc4c1ae', ('float32', 'ndarray', None, None, ('y', 'x'), ('x', 'y'), (('res', 1), ('tag', 'A')), None), True),
    'prox-A-None-EUCLIDEAN-[]-0': ('5f6e427f90d4f93995e7', ('float32', 'ndarray', None, None, ('y', 'x'), ('x', 'y'), (('res', 1), ('tag', 'A')), None), True),
    'alloc-A-None-EUCLIDEAN-[]-0': ('0816b7e0820f43238c1d', ('float32', 'ndarray', None, None, ('y', 'x'), ('x', 'y'), (('res', 1), ('tag', 'A')), None), True),
    'dir-A-None-EUCLIDEAN-[]-0': ('5f6e427f90d4f93995e7', ('float32', 'ndarray', None, None, ('y', 'x'), ('x', 'y'), (('res', 1), ('tag', 'A')), None), True),
    'alloc-A-None-NOT_A_METRIC-[]-4': ('b14812fc117267b9e183', ('float32', 'ndarray', None, None, ('y', 'x'), ('x', 'y'), (('res', 1), ('tag', 'A')), None), True),
    'dir-A-None-NOT_A_METRIC-[]-4': ('bb7e8b4a79f406cb205d', ('float32', 'ndarray', None, None, ('y', 'x'), ('x', 'y'), (('res', 1), ('tag', 'A')), None), True),
    'dir-A-None-EUCLIDEAN-[]-None': ('bb7e8b4a79f406cb205d', ('float32', 'ndarray', None, None, ('y', 'x'), ('x', 'y'), (('res', 1), ('tag', 'A')), None), True),
    'prox-A-None-EUCLIDEAN-[]-None': ('d0f10155056e1dad6a9f', ('float32', 'ndarray', None, None, ('y', 'x'), ('x', 'y'), (('res', 1), ('tag', 'A')), None), True),
    'alloc-A-None-EUCLIDEAN-[]-None': ('b14812fc117267b9e183', ('float32', 'ndarray', None, None, ('y', 'x'), ('x', 'y'), (('res', 1), ('tag', 'A')), None), True),
    'prox-A-(3, 4)-EUCLIDEAN-[]-inf': ('d0f10155056e1dad6a9f', ('float64', 'Array', ((6,), (9,)), ((6,), (9,)), ('y', 'x'), ('x', 'y'), (('res', 1), ('tag', 'A')), '_process_numpy'), True),
    'alloc-A-(3, 4)-EUCLIDEAN-[]-inf': ('b14812fc117267b9e183', ('float64', 'Array', ((6,), (9,)), ((6,), (9,)), ('y', 'x'), ('x', 'y'), (('res', 1), ('tag', 'A')), '_process_numpy'), True),
    'dir-A-(3, 4)-EUCLIDEAN-[]-inf': ('bb7e8b4a79f406cb205d', ('float64', 'Array', ((6,), (9,)), ((6,), (9,)), ('y', 'x'), ('x', 'y'), (('res', 1), ('tag', 'A')), '_process_numpy'), True),
    'alloc-A-(3, 4)-EUCLIDEAN-[2]-2': ('c69a76d314f8f320aa8d', ('float64', 'Array', ((3, 3), (4, 3, 2)), ((3, 3), (4, 4, 1)), ('y', 'x'), ('x', 'y'), (('res', 1), ('tag', 'A')), '_trim'), True),
    'dir-A-(3, 4)-EUCLIDEAN-[2]-2': ('444e27c6966f0ff64796', ('float64', 'Array', ((3, 3), (4, 3, 2)), ((3, 3), (4, 4, 1)), ('y', 'x'), ('x', 'y'), (('res', 1), ('tag', 'A')), '_trim'), True),
    'prox-A-(3, 4)-EUCLIDEAN-[2]-2': ('dce72d31b884ec4f7005', ('float64', 'Array', ((3, 3), (4, 3, 2)), ((3, 3), (4, 4, 1)), ('y', 'x'), ('x', 'y'), (('res', 1), ('tag', 'A')), '_trim'), True),
    'dir-A-(2, 9)-MANHATTAN-[]-3': ('d45e97a5d42d5fbe3e0b', ('float64', 'Array', ((6,), (9,)), ((2, 2, 2), (9,)), ('y', 'x'), ('x', 'y'), (('res', 1), ('tag', 'A')), '_trim'), True),
    'prox-A-(2, 9)-MANHATTAN-[]-3': ('f4d4504dbe826cca6259', ('float64', 'Array', ((6,), (9,)), ((2, 2, 2), (9,)), ('y', 'x'), ('x', 'y'), (('res', 1), ('tag', 'A')), '_trim'), True),
    'prox-A-(6, 9)-EUCLIDEAN-[1, 2]-1.5': ('9b0e5a5a7ffdba9e12b7', ('float64', 'Array', ((6,), (9,)), ((6,), (9,)), ('y', 'x'), ('x', 'y'), (('res', 1), ('tag', 'A')), '_trim'), True),
    'alloc-A-(6, 9)-EUCLIDEAN-[1, 2]-1.5': ('7bbdd606a027de6478aa', ('float64', 'Array', ((6,), (9,)), ((6,), (9,)), ('y', 'x'), ('x', 'y'), (('res', 1), ('tag', 'A')), '_trim'), True),
    'dir-A-(6, 9)-EUCLIDEAN-[1, 2]-1.5': ('1c24e017b8dc2006b8e9', ('float64', 'Array', ((6,), (9,)), ((6,), (9,)), ('y', 'x'), ('x', 'y'), (('res', 1), ('tag', 'A')), '_trim'), True),
    'alloc-A-(4, 5)-EUCLIDEAN-[]-1000.0': ('b14812fc117267b9e183', ('float64', 'Array', ((6,), (9,)), ((6,), (9,)), ('y', 'x'), ('x', 'y'), (('res', 1), ('tag', 'A')), '_process_numpy'), True),
    'dir-A-(4, 5)-EUCLIDEAN-[]-1000.0': ('bb7e8b4a79f406cb205d', ('float64', 'Array', ((6,), (9,)), ((6,), (9,)), ('y', 'x'), ('x', 'y'), (('res', 1), ('tag', 'A')), '_process_numpy'), True),
    'prox-A-(4, 5)-EUCLIDEAN-[]-1000.0': ('d0f10155056e1dad6a9f', ('float64', 'Array', ((6,), (9,)), ((6,), (9,)), ('y', 'x'), ('x', 'y'), (('res', 1), ('tag', 'A')), '_process_numpy'), True),
    'dir-B-None-EUCLIDEAN-[]-inf': ('eab4e89d2cd775246fd8', ('float32', 'ndarray', None, None, ('y', 'x'), ('x', 'y'), (('res', 1), ('tag', 'B')), None), True),
    'prox-B-None-EUCLIDEAN-[]-inf': ('88cc6d0b14fe55f400aa', ('float32', 'ndarray', None, None, ('y', 'x'), ('x', 'y'), (('res', 1), ('tag', 'B')), None), True),
    'alloc-B-None-EUCLIDEAN-[]-inf': ('a8da67068b0b772e871e', ('float32', 'ndarray', None, None, ('y', 'x'), ('x', 'y'), (('res', 1), ('tag', 'B')), None), True),
    'prox-B-None-EUCLIDEAN-[3]-2': ('4f923647b25f064f6bf9', ('float32', 'ndarray', None, None, ('y', 'x'), ('x', 'y'), (('res', 1), ('tag', 'B')), None), True),
    'alloc-B-None-EUCLIDEAN-[3]-2': ('b2e9941837265de2e744', ('float32', 'ndarray', None, None, ('y', 'x'), ('x', 'y'), (('res', 1), ('tag', 'B')), None), True),
    'alloc-B-None-MANHATTAN-[1, 2]-10': ('7caccdfd3470afe32a5f', ('float32', 'ndarray', None, None, ('y', 'x'), ('x', 'y'), (('res', 1), ('tag', 'B')), None), True),
    'dir-B-None-MANHATTAN-[1, 2]-10': ('5c349e684f961420e24d', ('float32', 'ndarray', None, None, ('y', 'x'), ('x', 'y'), (('res', 1), ('tag', 'B')), None), True),
    'prox-B-None-MANHATTAN-[1, 2]-10': ('b19bdb550e0efc37edda', ('float32', 'ndarray', None, None, ('y', 'x'), ('x', 'y'), (('res', 1), ('tag', 'B')), None), True),
    'dir-B-(2, 3)-EUCLIDEAN-[]-2': ('b7addbc0b1acc9496c1b', ('float64', 'Array', ((2, 3), (3, 2)), ((2, 2, 1), (3, 2)), ('y', 'x'), ('x', 'y'), (('res', 1), ('tag', 'B')), '_trim'), True),
    'prox-B-(2, 3)-EUCLIDEAN-[]-2': ('42ec45c60aa333fb7c08', ('float64', 'Array', ((2, 3), (3, 2)), ((2, 2, 1), (3, 2)), ('y', 'x'), ('x', 'y'), (('res', 1), ('tag', 'B')), '_trim'), True),
    'alloc-B-(2, 3)-EUCLIDEAN-[]-2': ('05b6e4fea5eb2b5b1910', ('float64', 'Array', ((2, 3), (3, 2)), ((2, 2, 1), (3, 2)), ('y', 'x'), ('x', 'y'), (('res', 1), ('tag', 'B')), '_trim'), True),
    'prox-B-(5, 5)-MANHATTAN-[2]-inf': ('33f5ce81182084b48dc4', ('float64', 'Array', ((5,), (5,)), ((5,), (5,)), ('y', 'x'), ('x', 'y'), (('res', 1), ('tag', 'B')), '_process_numpy'), True),
    'alloc-B-(5, 5)-MANHATTAN-[2]-inf': ('2d9402079215bb069e32', ('float64', 'Array', ((5,), (5,)), ((5,), (5,)), ('y', 'x'), ('x', 'y'), (('res', 1), ('tag', 'B')), '_process_numpy'), True),
    'dir-B-(5, 5)-MANHATTAN-[2]-inf': ('586200358bc6f32b1b27', ('float64', 'Array', ((5,), (5,)), ((5,), (5,)), ('y', 'x'), ('x', 'y'), (('res', 1), ('tag', 'B')), '_process_numpy'), True),
    'alloc-C-None-EUCLIDEAN-[]-inf': ('b12cde32a7eb9f045c4c', ('float32', 'ndarray', None, None, ('y', 'x'), ('x', 'y'), (('res', 1), ('tag', 'C')), None), True),
    'dir-C-None-EUCLIDEAN-[]-inf': ('a27822067e0c8de6e064', ('float32', 'ndarray', None, None, ('y', 'x'), ('x', 'y'), (('res', 1), ('tag', 'C')), None), True),
    'dir-C-None-MANHATTAN-[1]-2': ('c93ec39ec7ae22368897', ('float32', 'ndarray', None, None, ('y', 'x'), ('x', 'y'), (('res', 1), ('tag', 'C')), None), True),
    'prox-C-None-MANHATTAN-[1]-2': ('0f99ff6e9c528f6e8233', ('float32', 'ndarray', None, None, ('y', 'x'), ('x', 'y'), (('res', 1), ('tag', 'C')), None), True),
    'alloc-C-None-MANHATTAN-[1]-2': ('2a41eaf42909f8b7a006', ('float32', 'ndarray', None, None, ('y', 'x'), ('x', 'y'), (('res', 1), ('tag', 'C')), None), True),
    'prox-D-None-GREAT_CIRCLE-[]-inf': ('d1f15979d4e1245b3f70', ('float32', 'ndarray', None, None, ('y', 'x'), ('x', 'y'), (('res', 1), ('tag', 'D')), None), True),
    'alloc-D-None-GREAT_CIRCLE-[]-inf': ('df2b76c6bd7575b99c05', ('float32', 'ndarray', None, None, ('y', 'x'), ('x', 'y'), (('res', 1), ('tag', 'D')), None), True),
    'dir-D-None-GREAT_CIRCLE-[]-inf': ('17b8cd4ad34813bfc003', ('float32', 'ndarray', None, None, ('y', 'x'), ('x', 'y'), (('res', 1), ('tag', 'D')), None), True),
    'alloc-D-None-GREAT_CIRCLE-[2]-5000000.0': ('39b2f2568d35ad556ff7', ('float32', 'ndarray', None, None, ('y', 'x'), ('x', 'y'), (('res', 1), ('tag', 'D')), None), True),
    'dir-D-None-GREAT_CIRCLE-[2]-5000000.0': ('2ad05f823b5ee8b69d57', ('float32', 'ndarray', None, None, ('y', 'x'), ('x', 'y'), (('res', 1), ('tag', 'D')), None), True),
    'prox-D-None-GREAT_CIRCLE-[2]-5000000.0': ('f28f23f50e7e7ebe1ccb', ('float32', 'ndarray', None, None, ('y', 'x'), ('x', 'y'), (('res', 1), ('tag', 'D')), None), True),
    'dir-D-None-EUCLIDEAN-[]-60': ('039000ddd2413b853123', ('float32', 'ndarray', None, None, ('y', 'x'), ('x', 'y'), (('res', 1), ('tag', 'D')), None), True),
    'prox-D-None-EUCLIDEAN-[]-60': ('3742ca08d792bea2470f', ('float32', 'ndarray', None, None, ('y', 'x'), ('x', 'y'), (('res', 1), ('tag', 'D')), None), True),
    'prox-D-(4, 6)-GREAT_CIRCLE-[]-inf': ('d1f15979d4e1245b3f70', ('float64', 'Array', ((8,), (11,)), ((8,), (11,)), ('y', 'x'), ('x', 'y'), (('res', 1), ('tag', 'D')), '_process_numpy'), True),
    'alloc-D-(4, 6)-GREAT_CIRCLE-[]-inf': ('df2b76c6bd7575b99c05', ('float64', 'Array', ((8,), (11,)), ((8,), (11,)), ('y', 'x'), ('x', 'y'), (('res', 1), ('tag', 'D')), '_process_numpy'), True),
    'dir-D-(4, 6)-GREAT_CIRCLE-[]-inf': ('17b8cd4ad34813bfc003', ('float64', 'Array', ((8,), (11,)), ((8,), (11,)), ('y', 'x'), ('x', 'y'), (('res', 1), ('tag', 'D')), '_process_numpy'), True),
    'alloc-D-(3, 5)-GREAT_CIRCLE-[1, 3]-50000000.0': ('1e1f683192089932b64b', ('float64', 'Array', ((8,), (11,)), ((8,), (11,)), ('y', 'x'), ('x', 'y'), (('res', 1), ('tag', 'D')), '_process_numpy'), True),
    'dir-D-(3, 5)-GREAT_CIRCLE-[1, 3]-50000000.0': ('4f100a9de6d3db14a3f1', ('float64', 'Array', ((8,), (11,)), ((8,), (11,)), ('y', 'x'), ('x', 'y'), (('res', 1), ('tag', 'D')), '_process_numpy'), True),
    'prox-D-(3, 5)-GREAT_CIRCLE-[1, 3]-50000000.0': ('71612b48a0588a217c1d', ('float64', 'Array', ((8,), (11,)), ((8,), (11,)), ('y', 'x'), ('x', 'y'), (('res', 1), ('tag', 'D')), '_process_numpy'), True),
    'dir-E-None-EUCLIDEAN-[]-inf': ('33171fa3255ea7e000a6', ('float32', 'ndarray', None, None, ('y', 'x'), ('x', 'y'), (('res', 1), ('tag', 'E')), None), True),
    'prox-E-None-EUCLIDEAN-[]-inf': ('46435ba4f299ea5d0f5c', ('float32', 'ndarray', None, None, ('y', 'x'), ('x', 'y'), (('res', 1), ('tag', 'E')), None), True),
    'alloc-E-None-EUCLIDEAN-[]-inf': ('23959b9a5bcfffce9425', ('float32', 'ndarray', None, None, ('y', 'x'), ('x', 'y'), (('res', 1), ('tag', 'E')), None), True),
    'prox-E-None-EUCLIDEAN-[1]-3.0': ('ae379e4fa3e160b2bf68', ('float32', 'ndarray', None, None, ('y', 'x'), ('x', 'y'), (('res', 1), ('tag', 'E')), None), True),
    'alloc-E-None-EUCLIDEAN-[1]-3.0': ('ea1e861f4f2b48201f7a', ('float32', 'ndarray', None, None, ('y', 'x'), ('x', 'y'), (('res', 1), ('tag', 'E')), None), True),
    'alloc-E-None-MANHATTAN-[2, 3]-4': ('2b0398fffd7ce92ab1e9', ('float32', 'ndarray', None, None, ('y', 'x'), ('x', 'y'), (('res', 1), ('tag', 'E')), None), True),
    'dir-E-None-MANHATTAN-[2, 3]-4': ('3c2dde07ac4ca312cf6a', ('float32', 'ndarray', None, None, ('y', 'x'), ('x', 'y'), (('res', 1), ('tag', 'E')), None), True),
    'prox-E-None-MANHATTAN-[2, 3]-4': ('93d13a22e6847091700a', ('float32', 'ndarray', None, None, ('y', 'x'), ('x', 'y'), (('res', 1), ('tag', 'E')), None), True),
    'dir-E-(5, 3)-EUCLIDEAN-[]-3.0': ('96c4d7203dcdd2e98aff', ('float64', 'Array', ((5, 5, 3), (3, 4)), ((5, 5, 3), (3, 3, 1)), ('y', 'x'), ('x', 'y'), (('res', 1), ('tag', 'E')), '_trim'), True),
    'prox-E-(5, 3)-EUCLIDEAN-[]-3.0': ('9b084044af3da0bbbdf4', ('float64', 'Array', ((5, 5, 3), (3, 4)), ((5, 5, 3), (3, 3, 1)), ('y', 'x'), ('x', 'y'), (('res', 1), ('tag', 'E')), '_trim'), True),
    'alloc-E-(5, 3)-EUCLIDEAN-[]-3.0': ('8c2ae33785054612a1cf', ('float64', 'Array', ((5, 5, 3), (3, 4)), ((5, 5, 3), (3, 3, 1)), ('y', 'x'), ('x', 'y'), (('res', 1), ('tag', 'E')), '_trim'), True),
    'prox-E-(13, 2)-MANHATTAN-[3]-2': ('9d6a333db838bd2d9948', ('float64', 'Array', ((13,), (2, 2, 3)), ((13,), (2, 2, 2, 1)), ('y', 'x'), ('x', 'y'), (('res', 1), ('tag', 'E')), '_trim'), True),
    'alloc-E-(13, 2)-MANHATTAN-[3]-2': ('b9ab78235518aefbed5d', ('float64', 'Array', ((13,), (2, 2, 3)), ((13,), (2, 2, 2, 1)), ('y', 'x'), ('x', 'y'), (('res', 1), ('tag', 'E')), '_trim'), True),
    'dir-E-(13, 2)-MANHATTAN-[3]-2': ('9d8930073f34df15b2a5', ('float64', 'Array', ((13,), (2, 2, 3)), ((13,), (2, 2, 2, 1)), ('y', 'x'), ('x', 'y'), (('res', 1), ('tag', 'E')), '_trim'), True),
    'alloc-F-None-EUCLIDEAN-[]-inf': ('a5cc7250f38eecc356fc', ('float32', 'ndarray', None, None, ('y', 'x'), ('x', 'y'), (('res', 1), ('tag', 'F')), None), True),
    'dir-F-None-EUCLIDEAN-[]-inf': ('4a51f247ac226a2096db', ('float32', 'ndarray', None, None, ('y', 'x'), ('x', 'y'), (('res', 1), ('tag', 'F')), None), True),
    'dir-F-None-MANHATTAN-[3]-3': ('7121447060702055aaa0', ('float32', 'ndarray', None, None, ('y', 'x'), ('x', 'y'), (('res', 1), ('tag', 'F')), None), True),
    'prox-F-None-MANHATTAN-[3]-3': ('8088bdc36d40dcedc687', ('float32', 'ndarray', None, None, ('y', 'x'), ('x', 'y'), (('res', 1), ('tag', 'F')), None), True),
    'alloc-F-None-MANHATTAN-[3]-3': ('39d95a2eceeddbf3b055', ('float32', 'ndarray', None, None, ('y', 'x'), ('x', 'y'), (('res', 1), ('tag', 'F')), None), True),
    'prox-G-None-EUCLIDEAN-[]-inf': ('45c88fac68a438dbde36', ('float32', 'ndarray', None, None, ('y', 'x'), ('x', 'y'), (('res', 1), ('tag', 'G')), None), True),
    'alloc-G-None-EUCLIDEAN-[]-inf': ('45c88fac68a438dbde36', ('float32', 'ndarray', None, None, ('y', 'x'), ('x', 'y'), (('res', 1), ('tag', 'G')), None), True),
    'dir-G-None-EUCLIDEAN-[]-inf': ('45c88fac68a438dbde36', ('float32', 'ndarray', None, None, ('y', 'x'), ('x', 'y'), (('res', 1), ('tag', 'G')), None), True),
    'alloc-G-(2, 3)-EUCLIDEAN-[]-2': ('45c88fac68a438dbde36', ('float64', 'Array', ((2, 2), (3, 3)), ((2, 2), (3, 3)), ('y', 'x'), ('x', 'y'), (('res', 1), ('tag', 'G')), '_trim'), True),
    'dir-G-(2, 3)-EUCLIDEAN-[]-2': ('45c88fac68a438dbde36', ('float64', 'Array', ((2, 2), (3, 3)), ((2, 2), (3, 3)), ('y', 'x'), ('x', 'y'), (('res', 1), ('tag', 'G')), '_trim'), True),
    'prox-G-(2, 3)-EUCLIDEAN-[]-2': ('45c88fac68a438dbde36', ('float64', 'Array', ((2, 2), (3, 3)), ((2, 2), (3, 3)), ('y', 'x'), ('x', 'y'), (('res', 1), ('tag', 'G')), '_trim'), True),
}


def run(order, label, failures):
    got = {}
    for name, fn in order:
        got[name] = fn()
    if os.environ.get("RECORD"):
        return got
    for name, val in got.items():
        if EXPECTED.get(name) != val:
            failures.append("%s [%s]: expected %r got %r" % (name, label, EXPECTED.get(name), val))
    return got


def main():
    print("xrspatial from", xrspatial.__file__)
    cs = cases()
    failures = []
    got = run(cs, "forward", failures)
    if os.environ.get("RECORD"):
        print("EXPECTED = {")
        for k, v in got.items():
            print("    %r: %r," % (k, v))
        print("}")
        return 0
    scalar_and_error_checks(failures)
    numba.set_num_threads(1)
    with dask.config.set(scheduler="threads", num_workers=5):
        run(cs[::-3], "backward-threads-1/5", failures)
    numba.set_num_threads(min(numba.config.NUMBA_NUM_THREADS, 3))
    with dask.config.set(scheduler="synchronous"):
        run(cs[1::8], "sync", failures)
    if failures:
        print("%d MISMATCHES" % len(failures))
        for f in failures[:20]:
            print("  ", f)
        return 1
    print("OK: %d cases identical in every order / thread setting" % len(cs))
    return 0


if __name__ == "__main__":
    sys.exit(main())
