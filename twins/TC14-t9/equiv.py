"""Differential test for a_star_search (property C14).

Run from inside the worktree:
    cd /tmp/t4/TC14 && PYTHONPATH=/tmp/t4/TC14 /venv/bin/python /tmp/t4/out/TC14-t9/equiv.py

Two independent checks:
  1. every result (values, dtype, shape, coords, attrs, warnings, raised errors)
     is folded into a sha256 digest which must equal the digest recorded from
     the unmodified tree (EXPECTED_DIGEST below);
  2. wherever the inputs are inside the property's domain, the result is checked
     against an independent pure-python Dijkstra / chain validator.
Exit code 0 when everything is identical, 1 otherwise.
`--record` prints the digest instead of comparing.
"""
import hashlib
import heapq
import itertools
import sys
import warnings

import numpy as np
import xarray as xr

import xrspatial
from xrspatial import a_star_search

EXPECTED_DIGEST = "102501eacd11def66d5fcf6ee4832f9ec9c25e096ac161e0119c44e6a31e3aa9"
EXPECTED_NCASES = 40895

SQRT2 = np.sqrt(2.0)
NB8 = [(-1, -1), (-1, 0), (-1, 1), (0, -1), (0, 1), (1, -1), (1, 0), (1, 1)]
NB4 = [(-1, 0), (1, 0), (0, -1), (0, 1)]

failures = []
hasher = hashlib.sha256()
ncases = 0


def crossable(v, barriers):
    if v != v:
        return False
    return not any(v == b for b in barriers)


def dijkstra(data, barriers, s, g, conn):
    h, w = data.shape
    if not crossable(data[s], barriers) or not crossable(data[g], barriers):
        return None
    nbs = NB8 if conn == 8 else NB4
    dist = {s: 0.0}
    heap = [(0.0, s)]
    done = set()
    while heap:
        d, c = heapq.heappop(heap)
        if c in done:
            continue
        done.add(c)
        if c == g:
            return d
        for dy, dx in nbs:
            n = (c[0] + dy, c[1] + dx)
            if not (0 <= n[0] < h and 0 <= n[1] < w):
                continue
            if not crossable(data[n], barriers):
                continue
            nd = d + (SQRT2 if dy and dx else 1.0)
            if nd < dist.get(n, np.inf) - 1e-12:
                dist[n] = nd
                heapq.heappush(heap, (nd, n))
    return None


def validate(res, data, barriers, s, g, conn, tag):
    """independent check of the chain property"""
    best = dijkstra(data, barriers, s, g, conn)
    cells = [tuple(c) for c in np.argwhere(~np.isnan(res))]
    if best is None:
        if cells:
            failures.append((tag, "expected all NaN"))
        return
    if not cells:
        failures.append((tag, "expected a path"))
        return
    cells.sort(key=lambda c: res[c])
    if cells[0] != s or res[s] != 0 or cells[-1] != g:
        failures.append((tag, "end points wrong"))
        return
    if abs(res[g] - best) > 1e-9:
        failures.append((tag, "not shortest %r vs %r" % (res[g], best)))
    for a, b in zip(cells[:-1], cells[1:]):
        dy, dx = abs(a[0] - b[0]), abs(a[1] - b[1])
        if max(dy, dx) != 1 or (conn == 4 and dy + dx != 1):
            failures.append((tag, "not a neighbour step"))
            return
        step = SQRT2 if dy and dx else 1.0
        if abs(res[b] - res[a] - step) > 1e-9:
            failures.append((tag, "step length wrong"))
            return
    for c in cells:
        if not crossable(data[c], barriers):
            failures.append((tag, "enters barrier"))
            return


def fold(*parts):
    for p in parts:
        if isinstance(p, np.ndarray):
            hasher.update(str(p.dtype).encode())
            hasher.update(str(p.shape).encode())
            hasher.update(np.ascontiguousarray(p).tobytes())
        else:
            hasher.update(repr(p).encode())
        hasher.update(b"|")


def run(agg, start, goal, barriers, conn, snap_start=False, snap_goal=False,
        xname='x', yname='y', positional=False):
    """call the library, fold everything observable into the digest"""
    global ncases
    ncases += 1
    with warnings.catch_warnings(record=True) as wlist:
        warnings.simplefilter("always")
        try:
            if positional:
                res = a_star_search(agg, start, goal, barriers, xname, yname,
                                    conn, snap_start, snap_goal)
            else:
                res = a_star_search(agg, start, goal, barriers=barriers,
                                    x=xname, y=yname, connectivity=conn,
                                    snap_start=snap_start, snap_goal=snap_goal)
        except Exception as e:  # noqa
            msgs = sorted(str(w.message) for w in wlist
                          if w.category is Warning)
            fold("EXC", type(e).__name__,
                 str(e) if isinstance(e, ValueError) else "", msgs)
            return None
    msgs = [str(w.message) for w in wlist if w.category is Warning]
    fold("OK", res.values, res.dims, dict(res.attrs), msgs,
         type(res.data).__name__)
    for d in res.dims:
        if d in res.coords:
            fold(res.coords[d].values)
    return res.values


def make(data, ys=None, xs=None, dims=('y', 'x'), attrs=None):
    h, w = data.shape
    if ys is None:
        ys = np.arange(h, dtype=float)
    if xs is None:
        xs = np.arange(w, dtype=float)
    return xr.DataArray(data, dims=dims,
                        coords={dims[0]: ys, dims[1]: xs},
                        attrs=attrs or {'res': 1, 'name': 'surf'})


def nearest(coords, p):
    return int(np.argmin(np.abs(np.asarray(coords) - p)))


def nearest_crossable(data, barriers, c):
    # independent re-statement of snapping (row-major first minimum)
    if crossable(data[c], barriers):
        return c
    best, bd = None, np.inf
    for y in range(data.shape[0]):
        for x in range(data.shape[1]):
            if crossable(data[y, x], barriers):
                d = np.sqrt((x - c[1]) ** 2 + (y - c[0]) ** 2)
                if d < bd:
                    bd, best = d, (y, x)
    return best


# ---------------------------------------------------------------- 1 exhaustive
def exhaustive(h, w, pair_stride=1):
    cells = list(itertools.product(range(h), range(w)))
    pairs = list(itertools.product(cells, cells))
    n = h * w
    k = 0
    for layout in range(2 ** n):
        bits = np.array([(layout >> i) & 1 for i in range(n)])
        data = bits.reshape(h, w).astype(np.float64)
        agg = make(data)
        for s, g in pairs:
            k += 1
            if k % pair_stride:
                continue
            for conn in (4, 8):
                r = run(agg, (float(s[0]), float(s[1])),
                        (float(g[0]), float(g[1])), [0], conn)
                validate(r, data, [0], s, g, conn,
                         ("exh", h, w, layout, s, g, conn))


exhaustive(2, 2)
exhaustive(2, 3)
exhaustive(3, 2)
exhaustive(3, 3, pair_stride=7)
exhaustive(2, 4, pair_stride=5)

# ------------------------------------------------- 2 random surfaces / coords
rng = np.random.RandomState(1234)
shapes = [(2, 7), (7, 2), (5, 5), (4, 9), (9, 6), (11, 13), (3, 3)]
dtypes = [np.float64, np.float32, np.int32, np.int64, np.uint8, np.int16]
for it in range(260):
    h, w = shapes[it % len(shapes)]
    dt = dtypes[it % len(dtypes)]
    vals = rng.randint(0, 5, size=(h, w))
    data = vals.astype(dt)
    if np.issubdtype(dt, np.floating) and it % 3:
        data[rng.rand(h, w) < 0.15] = np.nan
    barriers = [[0], [0, 3], [], [1, 2, 4], [0.0, 2.0]][it % 5]
    # coordinates: ascending/descending, fractional step, offsets
    sy = [1.0, 0.5, 0.1, 2.5, 30.0, 1 / 3.][it % 6]
    sx = [1.0, 0.25, 0.3, 10.0, 0.7][it % 5]
    oy = [0.0, 100.3, -17.25, 5e5 + 0.1][it % 4]
    ox = [0.0, -3.7, 1234.5][it % 3]
    ys = oy + sy * np.arange(h)
    xs = ox + sx * np.arange(w)
    if it % 2:
        ys = ys[::-1].copy()
    if it % 4 >= 2:
        xs = xs[::-1].copy()
    dims = [('y', 'x'), ('lat', 'lon')][it % 2]
    layout = it % 4
    if layout == 1:
        data = np.asfortranarray(data)
    elif layout == 2:
        big = np.full((2 * h, 2 * w), 7, dtype=dt)
        big[::2, ::2] = data
        data = big[::2, ::2]       # non-contiguous view
    agg = make(data, ys, xs, dims=dims, attrs={'it': it})
    for rep in range(6):
        s = (rng.randint(h), rng.randint(w))
        g = (rng.randint(h), rng.randint(w))
        # a cell's own coordinates, or a point within 0.4 cell of its centre
        js = rng.uniform(-0.4, 0.4, 4) if rep % 2 else np.zeros(4)
        start = (ys[s[0]] + js[0] * sy, xs[s[1]] + js[1] * sx)
        goal = (ys[g[0]] + js[2] * sy, xs[g[1]] + js[3] * sx)
        if rep == 5:
            start, goal = list(start), np.array(goal)
        for conn in (4, 8):
            for ss, sg in ((False, False), (True, False), (False, True),
                           (True, True)):
                r = run(agg, start, goal, barriers, conn, ss, sg,
                        xname=dims[1], yname=dims[0],
                        positional=(rep == 3))
                if r is None:
                    failures.append((("rnd", it, rep), "unexpected error"))
                    continue
                s2 = nearest_crossable(data, barriers, s) if ss else s
                g2 = nearest_crossable(data, barriers, g) if sg else g
                if s2 is None or g2 is None:
                    if not np.all(np.isnan(r)):
                        failures.append((("rnd", it, rep), "expected NaN"))
                    continue
                validate(r, np.asarray(data), barriers, s2, g2, conn,
                         ("rnd", it, rep, conn, ss, sg))

# ---------------------------------------------------------- 3 special cases
# everything is a barrier, snapping finds nothing
allb = make(np.zeros((4, 5)))
for ss, sg in itertools.product((False, True), repeat=2):
    for conn in (4, 8):
        r = run(allb, (1.0, 1.0), (3.0, 4.0), [0], conn, ss, sg)
        if r is None or not np.all(np.isnan(r)):
            failures.append(("allb", "expected NaN"))
alln = make(np.full((3, 4), np.nan))
for ss, sg in itertools.product((False, True), repeat=2):
    r = run(alln, (0.0, 0.0), (2.0, 3.0), [], 8, ss, sg)
    if r is None or not np.all(np.isnan(r)):
        failures.append(("alln", "expected NaN"))
# only one crossable cell, snap both
one = np.zeros((5, 6))
one[3, 2] = 1
for conn in (4, 8):
    r = run(make(one), (0.0, 0.0), (4.0, 5.0), [0], conn, True, True)
    validate(r, one, [0], (3, 2), (3, 2), conn, ("one", conn))
    run(make(one), (0.0, 0.0), (4.0, 5.0), [0], conn, True, False)
    run(make(one), (0.0, 0.0), (4.0, 5.0), [0], conn, False, True)
# long serpentine maze, large costs
hh, ww = 15, 15
maze = np.ones((hh, ww))
for r_ in range(1, hh, 2):
    maze[r_, :] = 0
    maze[r_, (ww - 1) if (r_ // 2) % 2 == 0 else 0] = 1
for conn in (4, 8):
    r = run(make(maze), (0.0, 0.0), (float(hh - 1), float(ww - 1)), [0], conn)
    validate(r, maze, [0], (0, 0), (hh - 1, ww - 1), conn, ("maze", conn))
# narrow strips
strip = np.array([[1, 1, 0, 1, 1, 1, np.nan, 1]], dtype=float)
for sx_, gx_ in itertools.product(range(8), repeat=2):
    for conn in (4, 8):
        run(make(strip, ys=np.array([5.0]), xs=np.arange(8.0)),
            (5.0, float(sx_)), (5.0, float(gx_)), [0], conn, sx_ % 2 == 0,
            gx_ % 3 == 0)
        run(make(strip.T.copy(), ys=np.arange(8.0), xs=np.array([5.0])),
            (float(sx_), 5.0), (float(gx_), 5.0), [0], conn)
# errors: outside the surface, wrong names, wrong connectivity, ndim
base = make(np.ones((4, 4)))
run(base, (10.0, 0.0), (1.0, 1.0), [0], 8)
run(base, (0.0, 0.0), (1.0, 99.0), [0], 8)
run(base, (10.0, 0.0), (1.0, 99.0), [0], 8)
run(base, (-9.0, -9.0), (1.0, 1.0), [0], 4)
run(base, (0.0, 0.0), (1.0, 1.0), [0], 5)
run(base, (0.0, 0.0), (1.0, 1.0), [0], 8, xname='lon', yname='lat')
run(base, (0.0, 0.0), (1.0, 1.0), [0], 8, xname='y', yname='x')
run(xr.DataArray(np.ones((2, 3, 3)), dims=('b', 'y', 'x')), (0.0, 0.0),
    (1.0, 1.0), [0], 8)
run(xr.DataArray(np.ones(5), dims=('x',)), (0.0, 0.0), (1.0, 1.0), [0], 8)
# default-argument call
ncases += 1
with warnings.catch_warnings():
    warnings.simplefilter("ignore")
    rdef = a_star_search(base, (0.0, 0.0), (3.0, 2.0))
fold("DEF", rdef.values)
validate(rdef.values, np.ones((4, 4)), [], (0, 0), (3, 2), 8, ("default",))
# docstring example
doc = xr.DataArray(np.array([[0, 1, 0, 0], [1, 1, 0, 0], [0, 1, 2, 2],
                             [1, 0, 2, 0], [0, 2, 2, 2]]),
                   dims=['lat', 'lon'])
doc['lon'] = np.linspace(0, 3, 4)
doc['lat'] = np.linspace(4, 0, 5)
rdoc = run(doc, (3, 0), (0, 1), [0], 8, xname='lon', yname='lat',
           positional=True)
exp = np.full((5, 4), np.nan)
exp[1, 0], exp[2, 1], exp[3, 2], exp[4, 1] = 0, SQRT2, 2 * SQRT2, 3 * SQRT2
if rdoc is None or not np.allclose(rdoc, exp, equal_nan=True):
    failures.append(("doc", "docstring example differs"))

digest = hasher.hexdigest()
print("xrspatial from", xrspatial.__file__)
print("cases:", ncases, "digest:", digest)
if "--record" in sys.argv:
    sys.exit(0)
ok = True
if failures:
    ok = False
    print("INDEPENDENT CHECK FAILURES:", len(failures))
    for f in failures[:10]:
        print("  ", f)
if digest != EXPECTED_DIGEST or ncases != EXPECTED_NCASES:
    ok = False
    print("DIGEST MISMATCH: expected", EXPECTED_NCASES, EXPECTED_DIGEST)
print("IDENTICAL" if ok else "DIFFERENT")
sys.exit(0 if ok else 1)
