"""Differential test for TC11-t15 (perlin / generate_terrain dask glue: the
per-block function is built by a shared helper `_perlin_dask_blocks` with a
closure instead of functools.partial at each call site).

Runs perlin and generate_terrain on numpy and dask rasters (several dtypes,
odd shapes, chunkings, seeds, frequencies, extents), interleaving seeds,
repeating calls, computing dask results under several schedulers / worker
counts and after disturbing the global numpy RNG, and compares bit-level
digests (plus dtype, chunks, dims, coords) with values recorded on the
unmodified tree.

    python equiv.py            -> compare with EXPECTED, exit 0 if identical
    python equiv.py --record   -> print the digests (run on the unmodified tree)
"""
import hashlib
import sys
import warnings

import dask
import dask.array as da
import numpy as np
import xarray as xr

import xrspatial
from xrspatial import generate_terrain, perlin

warnings.filterwarnings('ignore')


def digest(arr):
    a = np.ascontiguousarray(np.asarray(arr))
    h = hashlib.sha256()
    h.update(str(a.dtype).encode())
    h.update(str(a.shape).encode())
    h.update(a.tobytes())
    return h.hexdigest()[:16]


def template(shape, dtype, chunks=None, fill=0):
    data = np.full(shape, fill).astype(dtype)
    if np.issubdtype(data.dtype, np.floating) and fill:
        data[0, 0] = np.nan  # the template only gives the shape
    if chunks is not None:
        data = da.from_array(data, chunks=chunks)
    return xr.DataArray(data, dims=['y', 'x'], attrs={'a': 1})


SCHEDULERS = [dict(scheduler='synchronous'),
              dict(scheduler='threads', num_workers=1),
              dict(scheduler='threads', num_workers=4),
              dict(scheduler='threads', num_workers=16)]


def finish(res, backend, k):
    if backend == 'dask':
        assert isinstance(res.data, da.Array), type(res.data)
        extra = str(res.data.chunks) + str(res.data.dtype)
        vals = []
        for j in range(2):
            with dask.config.set(**SCHEDULERS[(k + j) % len(SCHEDULERS)]):
                np.random.seed(k + j)  # computing must not depend on the global RNG
                vals.append(res.data.compute())
        assert digest(vals[0]) == digest(vals[1]), 'depends on scheduler'
        val = vals[0]
    else:
        assert isinstance(res.data, np.ndarray)
        extra = ''
        val = res.data
    coords = ''.join(digest(res.coords[c].values) for c in sorted(res.coords))
    return digest(val) + extra + str(res.dims) + str(res.name) + coords + str(sorted(res.attrs))


def cases():
    out = []
    shapes = [((8, 10), (4, 5)), ((1, 6), (1, 3)), ((7, 1), (3, 1)), ((13, 9), (5, 9)),
              ((16, 16), (16, 16))]
    dtypes = [np.float32, np.float64, np.int32, np.uint8]
    k = 0
    for shape, chunks in shapes:
        for dt in dtypes:
            for backend in ('numpy', 'dask'):
                k += 1
                out.append(('perlin', shape, chunks, dt, backend,
                            dict(freq=[(1, 1), (3, 2), (0.5, 7)][k % 3],
                                 seed=[5, 0, 123][k % 3])))
                if k % 2 == 0:
                    out.append(('perlin', shape, chunks, dt, backend, dict()))
    # terrain is expensive (16 permutations of 2**20 per call): fewer cases
    tparams = [
        dict(),
        dict(seed=3, zfactor=10),
        dict(x_range=(-20e6, 20e6), y_range=(-20e6, 20e6), seed=2, zfactor=100),
        dict(x_range=(0, 100), y_range=(50, 100), full_extent=(0, 0, 200, 200), seed=10),
        dict(seed=3, zfactor=10),  # the same as the second one: interleaved seeds
    ]
    k = 0
    for shape, chunks in [((8, 10), (4, 5)), ((1, 6), (1, 3)), ((13, 9), (5, 9))]:
        for dt in (np.float32, np.float64, np.int32):
            for backend in ('numpy', 'dask'):
                k += 1
                out.append(('terrain', shape, chunks, dt, backend, tparams[k % len(tparams)]))
    return out


def run_case(c, idx):
    what, shape, chunks, dt, backend, params = c
    t = template(shape, dt, chunks if backend == 'dask' else None, fill=idx % 3)
    np.random.seed(1000 + idx)
    np.random.rand(idx % 4)  # disturb the global RNG before the call
    try:
        if what == 'perlin':
            res = perlin(t, **params)
        else:
            res = generate_terrain(t, **params)
        return finish(res, backend, idx)
    except Exception as e:  # noqa
        return 'raised ' + type(e).__name__ + ':' + str(e)[:50]


def collect():
    got = {}
    cs = cases()
    for idx, c in enumerate(cs):
        got['case%03d' % idx] = run_case(c, idx)
    # again in reverse order: repeated, interleaved calls give the same results
    for idx in reversed(range(len(cs))):
        if cs[idx][0] == 'terrain' and idx % 2:
            continue
        assert run_case(cs[idx], idx) == got['case%03d' % idx], ('not repeatable', idx)
    # several lazy results alive at once, computed together afterwards
    t = template((9, 12), np.float32, (4, 6))
    lazies = [perlin(t, seed=s, freq=(2, 2)) for s in (1, 2, 1)]
    lazies += [generate_terrain(t, seed=s) for s in (7, 8)]
    vals = dask.compute(*[r.data for r in lazies])
    assert digest(vals[0]) == digest(vals[2]) != digest(vals[1])
    assert digest(vals[3]) != digest(vals[4])
    got['together'] = ''.join(digest(v) for v in vals)
    return got


EXPECTED = {'case000': "ac10b7a5738767a9('y', 'x')perlin['a']", 'case001': "be7f98e966215d71((8,), (10,))float32('y', 'x')perlin['a']", 'case002': "ebb423d4bb920be1((8,), (10,))float32('y', 'x')perlin['a']", 'case003': "2dc82bd97d720458('y', 'x')perlin['a']", 'case004': "582e9edebf8a24d6((8,), (10,))float32('y', 'x')perlin['a']", 'case005': "ebb423d4bb920be1((8,), (10,))float32('y', 'x')perlin['a']", 'case006': "c22aebb37e002d0b('y', 'x')perlin['a']", 'case007': "ebb423d4bb920be1((8,), (10,))float32('y', 'x')perlin['a']", 'case008': "ebb423d4bb920be1((8,), (10,))float32('y', 'x')perlin['a']", 'case009': "ac10b7a5738767a9('y', 'x')perlin['a']", 'case010': "be7f98e966215d71((8,), (10,))float32('y', 'x')perlin['a']", 'case011': "ebb423d4bb920be1((8,), (10,))float32('y', 'x')perlin['a']", 'case012': "43bd7e03ac41dc95('y', 'x')perlin['a']", 'case013': "e8751b2081b910df((1,), (6,))float32('y', 'x')perlin['a']", 'case014': "7f401dd322a8c1b3((1,), (6,))float32('y', 'x')perlin['a']", 'case015': "1ad6440a79717160('y', 'x')perlin['a']", 'case016': "7f401dd322a8c1b3((1,), (6,))float32('y', 'x')perlin['a']", 'case017': "7f401dd322a8c1b3((1,), (6,))float32('y', 'x')perlin['a']", 'case018': "91b5ad821f5a4478('y', 'x')perlin['a']", 'case019': "b983ce1311a040fa((1,), (6,))float32('y', 'x')perlin['a']", 'case020': "7f401dd322a8c1b3((1,), (6,))float32('y', 'x')perlin['a']", 'case021': "43bd7e03ac41dc95('y', 'x')perlin['a']", 'case022': "e8751b2081b910df((1,), (6,))float32('y', 'x')perlin['a']", 'case023': "7f401dd322a8c1b3((1,), (6,))float32('y', 'x')perlin['a']", 'case024': "562cc7f37bb46273('y', 'x')perlin['a']", 'case025': "0e04cd583bf1f921((7,), (1,))float32('y', 'x')perlin['a']", 'case026': "0e04cd583bf1f921((7,), (1,))float32('y', 'x')perlin['a']", 'case027': "5d72a8763549ef27('y', 'x')perlin['a']", 'case028': "fca56a6a4ffe8406((7,), (1,))float32('y', 'x')perlin['a']", 'case029': "0e04cd583bf1f921((7,), (1,))float32('y', 'x')perlin['a']", 'case030': "0d729a81593d8d77('y', 'x')perlin['a']", 'case031': "4bc1823029eeb29e((7,), (1,))float32('y', 'x')perlin['a']", 'case032': "0e04cd583bf1f921((7,), (1,))float32('y', 'x')perlin['a']", 'case033': "562cc7f37bb46273('y', 'x')perlin['a']", 'case034': "0e04cd583bf1f921((7,), (1,))float32('y', 'x')perlin['a']", 'case035': "0e04cd583bf1f921((7,), (1,))float32('y', 'x')perlin['a']", 'case036': "dccbcf592e09dcf4('y', 'x')perlin['a']", 'case037': "1ee8b7f7e021b357((13,), (9,))float32('y', 'x')perlin['a']", 'case038': "2fbe2ef928e5e2fc((13,), (9,))float32('y', 'x')perlin['a']", 'case039': "3dfa71acbb4e7a01('y', 'x')perlin['a']", 'case040': "34c83e5c400a1ce1((13,), (9,))float32('y', 'x')perlin['a']", 'case041': "2fbe2ef928e5e2fc((13,), (9,))float32('y', 'x')perlin['a']", 'case042': "9ea7d88cb4f91dcc('y', 'x')perlin['a']", 'case043': "2fbe2ef928e5e2fc((13,), (9,))float32('y', 'x')perlin['a']", 'case044': "2fbe2ef928e5e2fc((13,), (9,))float32('y', 'x')perlin['a']", 'case045': "dccbcf592e09dcf4('y', 'x')perlin['a']", 'case046': "1ee8b7f7e021b357((13,), (9,))float32('y', 'x')perlin['a']", 'case047': "2fbe2ef928e5e2fc((13,), (9,))float32('y', 'x')perlin['a']", 'case048': "35a3b2dbda9406b4('y', 'x')perlin['a']", 'case049': "c2bdcdcd42ae9ea6((16,), (16,))float32('y', 'x')perlin['a']", 'case050': "e103727c6c04beb8((16,), (16,))float32('y', 'x')perlin['a']", 'case051': "f675558ce72603ab('y', 'x')perlin['a']", 'case052': "e103727c6c04beb8((16,), (16,))float32('y', 'x')perlin['a']", 'case053': "e103727c6c04beb8((16,), (16,))float32('y', 'x')perlin['a']", 'case054': "d093ca785f52f730('y', 'x')perlin['a']", 'case055': "539a18f56c39c74b((16,), (16,))float32('y', 'x')perlin['a']", 'case056': "e103727c6c04beb8((16,), (16,))float32('y', 'x')perlin['a']", 'case057': "35a3b2dbda9406b4('y', 'x')perlin['a']", 'case058': "c2bdcdcd42ae9ea6((16,), (16,))float32('y', 'x')perlin['a']", 'case059': "e103727c6c04beb8((16,), (16,))float32('y', 'x')perlin['a']", 'case060': "cc8575dcd6ad6a97('y', 'x')terrain5feb90e18c379bfc89bb6d87575e7b2c['res']", 'case061': "e023d675b724f199((4, 4), (5, 5))float32('y', 'x')terraina13b9f2cbfbdde49061df2fbcabeee60['res']", 'case062': "2c40d175a5f4c017('y', 'x')terrain285c1bdcd81c5c6ecd0d0fe37dee2948['res']", 'case063': "ef30608726889370((4, 4), (5, 5))float64('y', 'x')terrain5feb90e18c379bfc89bb6d87575e7b2c['res']", 'case064': "469cece36d9d4956('y', 'x')terrain5feb90e18c379bfc89bb6d87575e7b2c['res']", 'case065': "ef30608726889370((4, 4), (5, 5))float64('y', 'x')terrain5feb90e18c379bfc89bb6d87575e7b2c['res']", 'case066': 'raised ZeroDivisionError:float division by zero', 'case067': 'raised ZeroDivisionError:float division by zero', 'case068': 'raised ZeroDivisionError:float division by zero', 'case069': 'raised ZeroDivisionError:float division by zero', 'case070': 'raised ZeroDivisionError:float division by zero', 'case071': 'raised ZeroDivisionError:float division by zero', 'case072': "fc9ccdf990216bbb('y', 'x')terrainb0beea2c8865020e244b4b149aff5abd['res']", 'case073': "581ebcb33f3b45e7((5, 5, 3), (9,))float32('y', 'x')terraincac8689a550d37fe9632a41828f968f1['res']", 'case074': "37e943564747ab1d('y', 'x')terraincac8689a550d37fe9632a41828f968f1['res']", 'case075': "6e6a7e4f7ca4d8eb((5, 5, 3), (9,))float64('y', 'x')terraincac8689a550d37fe9632a41828f968f1['res']", 'case076': "a02415782d745081('y', 'x')terrain4e02761c97812c3c8e9f1eb980da5618['res']", 'case077': "53d0a422c3c20926((5, 5, 3), (9,))float64('y', 'x')terrainb0beea2c8865020e244b4b149aff5abd['res']", 'together': '0b4bc6c1a1097947ac5b4b9ab6e36b9f0b4bc6c1a10979476a23f9d33e8ae502224e6ba6ca23eaeb'}  # RECORDED


def main():
    assert xrspatial.__file__.startswith('/tmp/t5/TC11/'), xrspatial.__file__
    got = collect()
    if '--record' in sys.argv:
        print('EXPECTED = ' + repr(got) + '  # RECORDED')
        return 0
    bad = [k for k in EXPECTED if got.get(k) != EXPECTED[k]]
    bad += [k for k in got if k not in EXPECTED]
    if bad:
        print('MISMATCH', bad[:10], len(bad))
        return 1
    print('OK', len(got), 'digests identical')
    return 0


if __name__ == '__main__':
    sys.exit(main())
