"""Differential test for refactoring t2 (equivalent expressions in _run_equal_interval and _run_quantile) of xrspatial/classify.py (property C12).

Runs the public classifiers on a deterministic family of rasters (float32/float64/
int32/int64, NaN/inf, ties, values not representable in float32, odd shapes, numpy and
dask backends, many k / bin lists), and

  (a) compares a digest (dtype, shape, raw bytes / exception type) of every result with
      digests recorded from the UNMODIFIED tree, and
  (b) checks binary / reclassify / equal_interval / quantile(numpy) against references
      computed independently with plain numpy.

Exit status 0 iff everything is identical.
Usage:  cd <worktree> && PYTHONPATH=<worktree> /venv/bin/python equiv.py [--record]
"""
import hashlib
import io
import sys
import warnings
from contextlib import redirect_stderr, redirect_stdout

import dask.array as da
import numpy as np
import xarray as xr

import xrspatial
from xrspatial.classify import (binary, equal_interval, natural_breaks, quantile,
                                reclassify)

FUNCS = ('equal_interval','quantile')
EXPECTED = {'equal_interval': '1c8fcd5f645f5822d3958d35b94764f6', 'quantile': '91b678ef5c102705b3645f4bc12ad4e2', '__n__': 2015, '__exc__': 167}


def rasters():
    rng = np.random.RandomState(20240607)
    out = {}
    shapes = [(1, 1), (1, 7), (5, 1), (4, 5), (13, 17), (9, 32)]
    for shape in shapes:
        n = shape[0] * shape[1]
        base = rng.uniform(-50, 50, size=n)
        ties = np.round(rng.uniform(0, 6, size=n))
        big = rng.randint(-5, 5, size=n) * 16777217.0 + rng.randint(0, 3, size=n)
        ramp = np.arange(n, dtype=np.float64)
        for nm, arr in (('unif', base), ('ties', ties), ('big', big), ('ramp', ramp)):
            for dt in (np.float32, np.float64):
                a = arr.astype(dt).reshape(shape)
                out['%s-%s-%dx%d' % (nm, np.dtype(dt).name, shape[0], shape[1])] = a
                if n >= 5:
                    b = a.copy()
                    b.flat[0] = np.nan
                    b.flat[n // 2] = np.inf
                    b.flat[n - 1] = -np.inf
                    b.flat[n // 3] = np.nan
                    out['%s-%s-%dx%d-nf' % (nm, np.dtype(dt).name, shape[0], shape[1])] = b
            if nm != 'unif':
                for dt in (np.int32, np.int64):
                    if nm == 'big' and dt == np.int32:
                        continue
                    a = arr.astype(dt).reshape(shape)
                    out['%s-%s-%dx%d' % (nm, np.dtype(dt).name, shape[0], shape[1])] = a
    const = np.full((3, 4), 2.5)
    out['const-float64-3x4'] = const
    allnan = np.full((3, 3), np.nan)
    out['allnan-float64-3x3'] = allnan
    return out


def chunks_for(shape):
    return (max(1, shape[0] // 2 + 1), max(1, shape[1] // 3 + 1))


def digest(res):
    if isinstance(res, BaseException):
        return 'EXC:' + type(res).__name__
    data = res.data
    if isinstance(data, da.Array):
        data = data.compute()
    data = np.ascontiguousarray(data)
    h = hashlib.sha256()
    h.update(str(data.dtype).encode())
    h.update(str(data.shape).encode())
    # canonicalise NaN payloads
    if data.dtype.kind == 'f':
        data = np.where(np.isnan(data), np.array(np.nan, dtype=data.dtype), data)
        data = np.ascontiguousarray(data)
    h.update(data.tobytes())
    h.update(str(res.name).encode())
    h.update(str(tuple(res.dims)).encode())
    h.update(str(sorted(res.attrs.items())).encode())
    return h.hexdigest()[:20]


def call(f, *args, **kw):
    buf = io.StringIO()
    try:
        with warnings.catch_warnings():
            warnings.simplefilter('ignore')
            with redirect_stdout(buf), redirect_stderr(io.StringIO()):
                r = f(*args, **kw)
                if isinstance(r.data, da.Array):
                    r = r.copy(data=r.data.compute())
        return r, buf.getvalue()
    except BaseException as e:  # noqa
        return e, buf.getvalue()


BIN_SETS = [
    ([0.0], [7]),
    ([-10, 10], [1, 2]),
    ([-20.5, 0, 2, 3, 40], [5, 4, 3, 2, 1]),
    ([1, 2, 3, 4, 5, 6, np.inf], [10, 20, 30, 40, 50, 60, 70]),
    ([-np.inf, 0, 3], [1.5, 2.5, 3.5]),
    ([2, 2, 4], [1, 2, 3]),
    ([-33554434.0, -16777217.0, 0.0, 16777217.0, 16777218.0, 33554434.0, 50331651.0],
     [0, 1, 2, 3, 4, 5, 6]),
    (list(range(-3, 12)), list(range(15))),
]
VALUE_SETS = [[1, 2, 3], [0.0], [2.5, 16777217.0, -16777217.0], [], [np.nan, 4], [np.inf, 5.0]]
KS = [2, 3, 4, 5, 7, 11]


def ref_binary(a, values):
    out = np.full(a.shape, np.nan, dtype=a.dtype) if a.dtype.kind == 'f' else None
    if out is None:
        return None  # integer rasters: digest comparison only
    fin = np.isfinite(a)
    vals = np.asarray(values, dtype=np.float64)
    hit = np.zeros(a.shape, dtype=bool)
    for v in vals:
        hit |= (a.astype(np.float64) == v)
    out[fin] = 0
    out[hit] = 1
    return out


def ref_reclassify(a, bins, new_values):
    bins = np.asarray(bins, dtype=np.float64)
    nv = np.asarray(new_values)
    af = a.astype(np.float64)
    out = np.full(a.shape, np.nan, dtype=np.float32)
    for idx in np.ndindex(a.shape):
        v = af[idx]
        if not np.isfinite(v):
            continue
        for b in range(len(bins)):
            if v <= bins[b]:
                out[idx] = nv[b]
                break
    return out


def ref_equal_interval(a, k):
    d = a.ravel()
    d = np.where(np.isinf(d), np.nan, d)
    mx = np.nanmax(d)
    mn = np.nanmin(d)
    width = (mx - mn) * 1.0 / k
    cuts = np.arange(mn + width, mx + width, width)
    n = cuts.shape[0]
    if n > k:
        cuts = cuts[:k]
    cuts[-1] = mx
    return ref_reclassify(a, cuts, np.arange(n))


def ref_quantile(a, k):
    w = 100.0 / k
    p = np.arange(w, 100 + w, w)
    if p[-1] > 100.0:
        p[-1] = 100.0
    q = np.unique(np.percentile(a[np.isfinite(a)], p))
    return ref_reclassify(a, q, np.arange(min(k, q.shape[0])))


def same(x, y):
    return (x.dtype == y.dtype and x.shape == y.shape
            and np.array_equal(x, y, equal_nan=True))


def main():
    record = '--record' in sys.argv
    print('xrspatial from', xrspatial.__file__)
    got = {}
    ref_fail = []
    R = rasters()
    for rname, arr in R.items():
        small = arr.size <= 221
        for backend in ('np', 'da'):
            if backend == 'da' and not (rname.endswith('4x5-nf') or rname.endswith('13x17')
                                        or rname.endswith('1x7') or rname.startswith('const')):
                continue
            def mk():
                a = arr.copy()
                if backend == 'da':
                    a = da.from_array(a, chunks=chunks_for(a.shape))
                return xr.DataArray(a, dims=['y', 'x'], attrs={'res': (1.0, 2.0)}, name='src')
            if 'binary' in FUNCS:
                for i, vs in enumerate(VALUE_SETS):
                    r, o = call(binary, mk(), vs)
                    got['binary|%s|%s|%d' % (rname, backend, i)] = digest(r) + '|' + o
                    if not isinstance(r, BaseException):
                        ref = ref_binary(arr, vs)
                        if ref is not None and not same(np.asarray(r.data), ref):
                            ref_fail.append(('binary', rname, backend, i))
            if 'reclassify' in FUNCS:
                for i, (b, nv) in enumerate(BIN_SETS):
                    r, o = call(reclassify, mk(), b, nv)
                    got['reclassify|%s|%s|%d' % (rname, backend, i)] = digest(r) + '|' + o
                    if not isinstance(r, BaseException) and arr.size <= 80:
                        if not same(np.asarray(r.data), ref_reclassify(arr, b, nv)):
                            ref_fail.append(('reclassify', rname, backend, i))
                r, o = call(reclassify, mk(), [1, 2], [1])
                got['reclassify|%s|%s|mismatch' % (rname, backend)] = digest(r) + '|' + o
            if 'equal_interval' in FUNCS:
                for k in KS:
                    r, o = call(equal_interval, mk(), k)
                    got['equal_interval|%s|%s|%d' % (rname, backend, k)] = digest(r) + '|' + o
                    if (not isinstance(r, BaseException) and backend == 'np'
                            and arr.size <= 80):
                        if not same(np.asarray(r.data), ref_equal_interval(arr, k)):
                            ref_fail.append(('equal_interval', rname, backend, k))
                r, o = call(equal_interval, mk(), name='ei')
                got['equal_interval|%s|%s|default' % (rname, backend)] = digest(r) + '|' + o
            if 'quantile' in FUNCS:
                for k in KS:
                    r, o = call(quantile, mk(), k)
                    got['quantile|%s|%s|%d' % (rname, backend, k)] = digest(r) + '|' + o
                    if (not isinstance(r, BaseException) and backend == 'np'
                            and arr.size <= 80):
                        if not same(np.asarray(r.data), ref_quantile(arr, k)):
                            ref_fail.append(('quantile', rname, backend, k))
            if 'natural_breaks' in FUNCS and small:
                for k in KS:
                    r, o = call(natural_breaks, mk(), k=k)
                    got['natural_breaks|%s|%s|%d' % (rname, backend, k)] = digest(r) + '|' + o
                if backend == 'np':
                    for ns in (None, 5, 40):
                        r, o = call(natural_breaks, mk(), ns, 'nb', 3)
                        got['natural_breaks|%s|%s|ns%s' % (rname, backend, ns)] = \
                            digest(r) + '|' + o

    h = hashlib.sha256()
    per_func = {}
    for key in sorted(got):
        f = key.split('|')[0]
        per_func.setdefault(f, hashlib.sha256()).update((key + '=' + got[key] + '\n').encode())
        h.update((key + '=' + got[key] + '\n').encode())
    summary = {f: (per_func[f].hexdigest()[:32]) for f in sorted(per_func)}
    summary['__n__'] = len(got)
    summary['__exc__'] = sum(1 for v in got.values() if v.startswith('EXC:'))
    if record:
        print('EXPECTED = %r' % (summary,))
        print('ref failures:', ref_fail[:10], len(ref_fail))
        exc = {}
        for k_, v_ in got.items():
            if v_.startswith('EXC:'):
                kk = k_.split('|')[0] + ':' + v_.split('|')[0]
                exc[kk] = exc.get(kk, 0) + 1
        print(exc)
        return 0
    ok = True
    for f in sorted(set(summary) | set(EXPECTED)):
        if summary.get(f) != EXPECTED.get(f):
            ok = False
            print('MISMATCH', f, summary.get(f), '!= recorded', EXPECTED.get(f))
    if ref_fail:
        ok = False
        print('independent-reference failures (%d):' % len(ref_fail), ref_fail[:10])
    print('cases: %d (exceptions: %d)' % (summary['__n__'], summary['__exc__']))
    print('IDENTICAL' if ok else 'DIFFERENT')
    return 0 if ok else 1


if __name__ == '__main__':
    sys.exit(main())
