"""Differential test for C13 refactorings of xrspatial/multispectral.py.

Runs every spectral index + true_color on deterministic inputs (several
dtypes, NaNs, zeros, equal bands, odd shapes, numpy and dask) and compares
(a) sha256 digests of the raw result bytes with digests recorded from the
unmodified tree, and (b) an independent numpy evaluation of the formulas
that mimics the kernels' type promotion.  Exit 0 iff everything is identical.

usage: equiv.py            -> check
       equiv.py --record   -> print digests (run on the unmodified tree)
"""
import hashlib
import json
import sys
import warnings

import dask.array as da
import numpy as np
import xarray as xr

import xrspatial
from xrspatial import multispectral as ms

warnings.simplefilter('ignore')

EXPECTED = json.loads(r'''
{
"n": 1325,
"all": "ad5bb08f970c08b53e6438998cd6f4a1c82bfa2fd411ab547b7492e6032c47b9",
"errs": {
"err|ndvi": "input arrays must have equal shapes",
"err|nbr": "input arrays must have equal shapes",
"err|nbr2": "input arrays must have equal shapes",
"err|ndmi": "input arrays must have equal shapes",
"err|savi": "input arrays must have equal shapes",
"err|arvi": "input arrays must have equal shapes",
"err|savi|1.5": "soil factor must be between [-1.0, 1.0]",
"err|savi|-1.01": "soil factor must be between [-1.0, 1.0]",
"err|mixed": "input arrays must have same type"
},
"per_fn": {
"arvi": "9369cb73ada957e3a09480995c281fbd1f5025b35ee57127519a90158e1f930f",
"ebbi": "60a9552c2be30fc1a514d90ed63f4a5f11a066c5fe933f49d50960f7273dbd8c",
"evi": "3ac7905c188417a6428258e7ee01795c67412590680007bdee5056fca179c5a6",
"gci": "7475be5a2e43a075ad3215fac3394f788d0957b938b14bed3d3ba06f784881bd",
"nbr2": "ec28883aeb9305ef162825273f9197d17182c7ff96d9f7640acc1fb4947be322",
"nbr": "ad9a1567d3b9130c7ec0a0af29b60489ad508a5fb3f350e5c242ea4d6a0c97fb",
"ndmi": "b71e346bf1bacdc2f0db6c6ded2be4e845f5df17670c02f73c41fcc88f721fa5",
"ndvi": "4f335ba8f34bddcb2b0e7893e6ee6af5f2bb3ba3d4b5f313e8f81c585aecd995",
"savi": "50f66b71065ab6973abed5f9cc5a61d548f590acb48cd3a996a00609bf47acc0",
"sipi": "67ebe2c63e090eea8372179710da470ebc61100e185b73ce444f1d72ca9bd56a",
"true_color": "0f2906beaae572f1a68269de912b5bf37ec71921c4b7f286bf63e25f5ebcd6b3"
}
}
''')

DTYPES = ['uint8', 'uint16', 'int32', 'int64', 'float32', 'float64']
SHAPES = [(1, 1), (3, 7), (5, 4), (11, 13)]


def make_band(rng, shape, dtype, kind):
    n = shape[0] * shape[1]
    if np.dtype(dtype).kind == 'f':
        a = rng.uniform(0, 3000, size=n).astype(dtype)
        if kind == 'signed':
            a = a - np.asarray(1500, dtype=dtype)
        # sprinkle special values
        idx = rng.permutation(n)
        k = max(1, n // 6)
        a[idx[:k]] = np.nan
        a[idx[k:2 * k]] = 0
        if n > 4:
            a[idx[2 * k]] = np.inf
    else:
        hi = min(np.iinfo(dtype).max, 4000)
        a = rng.integers(0, hi + 1, size=n).astype(dtype)
        idx = rng.permutation(n)
        a[idx[:max(1, n // 5)]] = 0
    return a.reshape(shape)


def bands(seed, shape, dtype, kind, nb):
    rng = np.random.default_rng(seed)
    out = [make_band(rng, shape, dtype, kind) for _ in range(nb)]
    # force some equal cells between band 0 and the others (zero denominators)
    flat0 = out[0].reshape(-1)
    for b in out[1:]:
        fb = b.reshape(-1)
        fb[::3] = flat0[::3]
    if np.dtype(dtype).kind == 'f' and kind == 'signed':
        # a - a, and a + (-a) denominators
        fb = out[1].reshape(-1)
        fb[1::4] = -flat0[1::4]
    return out


def wrap(arr, backend, shape):
    ys = np.arange(shape[0], dtype='f8')
    xs = np.arange(shape[1], dtype='f8') * 2.0
    if backend == 'dask':
        ch = (max(1, shape[0] // 2), max(1, shape[1] // 3))
        arr = da.from_array(arr, chunks=ch)
    return xr.DataArray(arr, dims=['y', 'x'], coords={'y': ys, 'x': xs},
                        attrs={'res': 1, 'tag': 'b'})


def digest(res):
    data = res.data
    if isinstance(data, da.Array):
        data = data.compute()
    data = np.ascontiguousarray(data)
    h = hashlib.sha256()
    h.update(str(data.dtype).encode())
    h.update(str(data.shape).encode())
    h.update(data.tobytes())
    h.update(str(res.name).encode())
    h.update(str(res.dims).encode())
    h.update(json.dumps(sorted((k, str(v)) for k, v in res.attrs.items())).encode())
    for c in res.dims:
        h.update(np.ascontiguousarray(res[c].values).tobytes())
    return h.hexdigest(), data


# ---- independent numpy model of the kernels (float32 bands; python-float
# literals promote to float64 exactly like in numba; result stored as f4) ----
def _store(num, den):
    with np.errstate(all='ignore'):
        q = num / den
    out = np.full(num.shape, np.nan, dtype=np.float32)
    ok = den != 0.0
    out[ok] = q[ok].astype(np.float32)
    return out


def model(fn, arrs, kw):
    f = [a.astype('f4') for a in arrs]
    with np.errstate(all='ignore'):
        if fn in ('ndvi', 'nbr', 'nbr2', 'ndmi'):
            return _store(f[0] - f[1], f[0] + f[1])
        if fn == 'arvi':
            n, r, b = (x.astype('f8') for x in f)
            return _store(n - 2.0 * r + b, n + 2.0 * r + b)
        if fn == 'evi':
            n, r, b = f
            c1, c2, sf, g = (float(kw[k]) for k in ('c1', 'c2', 'soil_factor', 'gain'))
            num = n - r
            den = n.astype('f8') + c1 * r.astype('f8') - c2 * b.astype('f8') + sf
            out = np.full(n.shape, np.nan, dtype=np.float32)
            ok = den != 0.0
            out[ok] = (g * (num.astype('f8') / den))[ok].astype('f4')
            return out
        if fn == 'gci':
            n, g = f
            out = np.full(n.shape, np.nan, dtype=np.float32)
            ok = g != 0
            out[ok] = ((n / g) - np.float32(1))[ok]
            return out
        if fn == 'savi':
            n, r = f
            sf = float(kw['soil_factor'])
            num = n - r
            den = ((n + r).astype('f8') + sf) * (1.0 + sf)
            return _store(num.astype('f8'), den)
        if fn == 'sipi':
            n, r, b = f
            return _store(n - b, n - r)
        if fn == 'ebbi':
            return None  # int64 * f4 promotion is numba specific: digest only
    return None


CASES = []
for fn, nbands, kws in [
    ('ndvi', 2, [{}]), ('nbr', 2, [{}]), ('nbr2', 2, [{}]), ('ndmi', 2, [{}]),
    ('gci', 2, [{}]), ('arvi', 3, [{}]), ('sipi', 3, [{}]), ('ebbi', 3, [{}]),
    ('savi', 2, [{}, {'soil_factor': 0.0}, {'soil_factor': -1.0},
                 {'soil_factor': 0.5}, {'soil_factor': -0.3}, {'soil_factor': 1},
                 {'soil_factor': 0}, {'soil_factor': -1}]),
    ('evi', 3, [{}, {'c1': 0, 'c2': 0, 'soil_factor': 0.0, 'gain': 0},
                {'c1': 2.4, 'c2': 0.0, 'soil_factor': -1.0, 'gain': 1.0},
                {'c1': 6, 'c2': 7.5, 'soil_factor': 0.25, 'gain': 3}]),
]:
    for kw in kws:
        CASES.append((fn, nbands, kw))


def run_all():
    got = {}
    bad = []
    seed = 0
    for fn, nbands, kw in CASES:
        for dtype in DTYPES:
            kinds = ['pos', 'signed'] if np.dtype(dtype).kind == 'f' else ['pos']
            for kind in kinds:
                for shape in SHAPES:
                    seed += 1
                    arrs = bands(seed, shape, dtype, kind, nbands)
                    res = {}
                    for backend in ('numpy', 'dask'):
                        aggs = [wrap(a.copy(), backend, shape) for a in arrs]
                        kwargs = dict(kw)
                        if seed % 2:
                            kwargs['name'] = 'custom_%s' % fn
                        r = getattr(ms, fn)(*aggs, **kwargs)
                        if backend == 'dask' and not isinstance(r.data, da.Array):
                            bad.append(('not lazy', fn, dtype, shape))
                        d, data = digest(r)
                        res[backend] = data
                        key = '|'.join([fn, json.dumps(kw, sort_keys=True), dtype,
                                        kind, str(shape), backend])
                        got[key] = d
                        if data.dtype != np.float32:
                            bad.append(('dtype', key))
                        if np.isinf(data).any() and not any(
                                np.isinf(a.astype('f8')).any() for a in arrs):
                            bad.append(('inf', key))
                    if res['numpy'].tobytes() != res['dask'].tobytes():
                        bad.append(('numpy!=dask', fn, dtype, shape))
                    m = model(fn, arrs, {**dict(c1=6.0, c2=7.5, soil_factor=1.0,
                                                gain=2.5), **kw})
                    if m is not None and m.tobytes() != res['numpy'].tobytes():
                        # NaN payload/sign may differ: compare values
                        if not np.array_equal(m, res['numpy'], equal_nan=True):
                            bad.append(('model', fn, kw, dtype, kind, shape))

    # error paths keep behaving
    a = wrap(np.ones((2, 3), 'f4'), 'numpy', (2, 3))
    b = wrap(np.ones((3, 3), 'f4'), 'numpy', (3, 3))
    for fn, nb_ in [('ndvi', 2), ('nbr', 2), ('nbr2', 2), ('ndmi', 2), ('savi', 2),
                    ('arvi', 3)]:
        try:
            getattr(ms, fn)(*([a] + [b] * (nb_ - 1)))
            bad.append(('no error', fn))
        except ValueError as e:
            got['err|' + fn] = str(e)
    for sf in (1.5, -1.01):
        try:
            ms.savi(a, a, soil_factor=sf)
            bad.append(('no error savi', sf))
        except ValueError as e:
            got['err|savi|%s' % sf] = str(e)
    # mixed numpy/dask -> ValueError
    try:
        ms.ndvi(a, wrap(np.ones((2, 3), 'f4'), 'dask', (2, 3)))
        bad.append(('no error mixed',))
    except ValueError as e:
        got['err|mixed'] = str(e)

    # true_color
    for dtype in ['uint16', 'float32', 'float64']:
        for shape in [(3, 7), (6, 5)]:
            for nodata in (1, 0, 500.5):
                seed += 1
                arrs = bands(seed, shape, dtype, 'pos', 3)
                if np.dtype(dtype).kind == 'f':
                    arrs = [np.where(np.isinf(x), 7.0, x).astype(dtype) for x in arrs]
                res = {}
                for backend in ('numpy', 'dask'):
                    aggs = [wrap(x.copy(), backend, shape) for x in arrs]
                    r = ms.true_color(*aggs, nodata=nodata)
                    d, data = digest(r)
                    res[backend] = data
                    got['|'.join(['true_color', dtype, str(shape), str(nodata),
                                  backend])] = d
                    rr = arrs[0].astype('f8')
                    alpha = np.where(np.isnan(rr) | (rr <= nodata), 0, 255)
                    if data.dtype != np.uint8 or not np.array_equal(data[..., 3], alpha):
                        bad.append(('alpha', dtype, shape, nodata, backend))
                if res['numpy'].tobytes() != res['dask'].tobytes():
                    bad.append(('tc numpy!=dask', dtype, shape, nodata))
    return got, bad


def main():
    print('xrspatial from', xrspatial.__file__)
    got, bad = run_all()
    if '--record' in sys.argv:
        h = hashlib.sha256(json.dumps(got, sort_keys=True).encode()).hexdigest()
        print(json.dumps({'n': len(got), 'all': h,
                          'errs': {k: v for k, v in got.items() if k.startswith('err|')},
                          'per_fn': per_fn(got)}, indent=0))
        print('bad:', bad)
        return 0
    rc = 0
    if bad:
        print('FAILED internal checks:', bad[:20])
        rc = 1
    exp = EXPECTED
    if len(got) != exp['n']:
        print('case count differs', len(got), exp['n'])
        rc = 1
    pf = per_fn(got)
    for k in sorted(exp['per_fn']):
        if pf.get(k) != exp['per_fn'][k]:
            print('DIFF in results of', k)
            rc = 1
    for k, v in exp['errs'].items():
        if got.get(k) != v:
            print('DIFF in error message', k, got.get(k))
            rc = 1
    h = hashlib.sha256(json.dumps(got, sort_keys=True).encode()).hexdigest()
    if h != exp['all']:
        print('overall digest differs')
        rc = 1
    print('OK: %d cases identical' % len(got) if rc == 0 else 'NOT IDENTICAL')
    return rc


def per_fn(got):
    groups = {}
    for k in sorted(got):
        if k.startswith('err|'):
            continue
        groups.setdefault(k.split('|')[0], hashlib.sha256()).update(
            (k + got[k]).encode())
    return {k: v.hexdigest() for k, v in groups.items()}


if __name__ == '__main__':
    sys.exit(main())
