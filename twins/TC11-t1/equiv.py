"""Differential test for the perlin() refactoring (C11).

Runs perlin() over several shapes / dtypes / freqs / seeds on numpy and dask,
in a call sequence that interleaves differing parameters, repeats calls and
perturbs the global numpy RNG in between.  Every result (dtype, shape, raw
bytes) is hashed and compared with digests recorded from the unmodified tree.
Also checks independently that a call is a function of its arguments only
(repeat == first, and == the same call after unrelated calls).

Usage: cd <worktree> && PYTHONPATH=<worktree> python equiv.py      (exit 0 = identical)
       RECORD=1 ... python equiv.py                              (print digests)
"""
import hashlib
import os
import sys
import warnings

import numpy as np
import xarray as xr
import dask
import dask.array as da

import xrspatial
from xrspatial import perlin, generate_terrain

warnings.simplefilter('ignore')


def digest(a):
    a = np.asarray(a)
    h = hashlib.sha256()
    h.update(str(a.dtype).encode())
    h.update(str(a.shape).encode())
    h.update(np.ascontiguousarray(a).tobytes())
    return h.hexdigest()[:20]


def rng_digest():
    st = np.random.get_state()
    return digest(st[1]) + ':%d' % st[2]


SHAPES = [(5, 7), (16, 16), (1, 9), (33, 2), (40, 25)]
DTYPES = [np.float32, np.float64, np.int32, np.uint8]
FREQS = [(1, 1), (2, 3), (0.5, 7), (10, 1)]
SEEDS = [5, 0, 12345, 2**31 - 1]


def cases():
    n = 0
    for shape in SHAPES:
        for dt in DTYPES:
            freq = FREQS[n % len(FREQS)]
            seed = SEEDS[(n // 2) % len(SEEDS)]
            n += 1
            yield shape, dt, freq, seed


def run_np(shape, dt, freq, seed):
    agg = xr.DataArray(np.zeros(shape, dtype=dt), dims=['y', 'x'])
    return perlin(agg, freq=freq, seed=seed)


def run_da(shape, dt, freq, seed, chunks):
    agg = xr.DataArray(da.from_array(np.zeros(shape, dtype=dt), chunks=chunks),
                       dims=['y', 'x'])
    r = perlin(agg, freq=freq, seed=seed)
    assert isinstance(r.data, da.Array)
    return r


def main():
    got = {}
    ok = True
    prev = None
    for i, (shape, dt, freq, seed) in enumerate(cases()):
        key = 'np|%s|%s|%s|%s' % (shape, np.dtype(dt).name, freq, seed)
        # perturb global RNG state differently each time
        np.random.seed(i * 7 + 1)
        np.random.rand(i + 1)
        r1 = run_np(shape, dt, freq, seed)
        got[key] = digest(r1.data) + '|' + r1.name + '|' + str(r1.dims)
        got[key + '|rng'] = rng_digest()
        # interleave: an unrelated generator call and the previous case again
        if i % 5 == 0:
            t = generate_terrain(xr.DataArray(np.zeros((6, 5)), dims=['y', 'x']), seed=i)
            got[key + '|terrain'] = digest(t.data)
        if prev is not None:
            run_np(*prev)
        r2 = run_np(shape, dt, freq, seed)
        if digest(r1.data) != digest(r2.data):
            print('REPEAT MISMATCH', key)
            ok = False
        prev = (shape, dt, freq, seed)

        chunks = (max(1, shape[0] // 2 + 1), max(1, shape[1] // 3 + 1))
        for sched, nw in (('synchronous', None), ('threads', 1), ('threads', 4), ('threads', 16)):
            kw = {'scheduler': sched}
            if nw:
                kw['num_workers'] = nw
            with dask.config.set(**kw):
                d = run_da(shape, dt, freq, seed, chunks)
                dk = 'da|%s|%s|%s|%s|%s' % (shape, np.dtype(dt).name, freq, seed, chunks)
                val = digest(d.data.compute())
                if dk in got and got[dk] != val:
                    print('THREAD-COUNT MISMATCH', dk, sched, nw)
                    ok = False
                got[dk] = val

    # independent check: perlin output range is [0, 1] and float
    for shape, dt, freq, seed in cases():
        r = run_np(shape, dt, freq, seed).data
        if not (r.dtype.kind == 'f' and np.nanmin(r) == 0.0 and np.nanmax(r) == 1.0):
            print('RANGE FAIL', shape, dt, freq, seed)
            ok = False

    if os.environ.get('RECORD'):
        print('EXPECTED = {')
        for k in got:
            print('    %r: %r,' % (k, got[k]))
        print('}')
        return 0
    for k, v in EXPECTED.items():
        if got.get(k) != v:
            print('MISMATCH', k, got.get(k), v)
            ok = False
    if set(got) != set(EXPECTED):
        print('KEY SET DIFFERS', set(got) ^ set(EXPECTED))
        ok = False
    print('xrspatial from', xrspatial.__file__)
    print('OK' if ok else 'FAIL', len(EXPECTED), 'digests')
    return 0 if ok else 1


EXPECTED = {
    'np|(5, 7)|float32|(1, 1)|5': "9a06f30319de66d1df6c|perlin|('y', 'x')",
    'np|(5, 7)|float32|(1, 1)|5|rng': 'b54daa1b5bcea11203df:307',
    'np|(5, 7)|float32|(1, 1)|5|terrain': '374d138195ca3958ce17',
    'da|(5, 7)|float32|(1, 1)|5|(3, 3)': '11a001591ee60b40d3b5',
    'np|(5, 7)|float64|(2, 3)|5': "a2d8714c91f0dba5dfd3|perlin|('y', 'x')",
    'np|(5, 7)|float64|(2, 3)|5|rng': 'b54daa1b5bcea11203df:307',
    'da|(5, 7)|float64|(2, 3)|5|(3, 3)': '6f3ffd3db071c55d38d1',
    'np|(5, 7)|int32|(0.5, 7)|0': "8d907b4b47787b35b70a|perlin|('y', 'x')",
    'np|(5, 7)|int32|(0.5, 7)|0|rng': 'b3e656adcff2c69ca1e5:551',
    'da|(5, 7)|int32|(0.5, 7)|0|(3, 3)': '22f9a962c60c5ef24465',
    'np|(5, 7)|uint8|(10, 1)|0': "0cab6504a5c96540ff80|perlin|('y', 'x')",
    'np|(5, 7)|uint8|(10, 1)|0|rng': 'b3e656adcff2c69ca1e5:551',
    'da|(5, 7)|uint8|(10, 1)|0|(3, 3)': '70682c77fbab5c720832',
    'np|(16, 16)|float32|(1, 1)|12345': "de3fe4326b02179e2592|perlin|('y', 'x')",
    'np|(16, 16)|float32|(1, 1)|12345|rng': '5ae30f28ed125ab8d80f:616',
    'da|(16, 16)|float32|(1, 1)|12345|(9, 6)': '17196d47b6f5b97c7a5f',
    'np|(16, 16)|float64|(2, 3)|12345': "b5300d059f4f9da6596a|perlin|('y', 'x')",
    'np|(16, 16)|float64|(2, 3)|12345|rng': '5ae30f28ed125ab8d80f:616',
    'np|(16, 16)|float64|(2, 3)|12345|terrain': '9ed173d71dacf2bb9780',
    'da|(16, 16)|float64|(2, 3)|12345|(9, 6)': 'b21168ccb3cdc708bc70',
    'np|(16, 16)|int32|(0.5, 7)|2147483647': "d4dd9f81b1d3fd06bac1|perlin|('y', 'x')",
    'np|(16, 16)|int32|(0.5, 7)|2147483647|rng': '0025fc3fc45dbc23d16b:315',
    'da|(16, 16)|int32|(0.5, 7)|2147483647|(9, 6)': '43efe8b15d10f2656f92',
    'np|(16, 16)|uint8|(10, 1)|2147483647': "ddf4344c94aa6e639cfb|perlin|('y', 'x')",
    'np|(16, 16)|uint8|(10, 1)|2147483647|rng': '0025fc3fc45dbc23d16b:315',
    'da|(16, 16)|uint8|(10, 1)|2147483647|(9, 6)': '63ea4076fb2168e16160',
    'np|(1, 9)|float32|(1, 1)|5': "5edae876466cbead20a6|perlin|('y', 'x')",
    'np|(1, 9)|float32|(1, 1)|5|rng': 'b54daa1b5bcea11203df:307',
    'da|(1, 9)|float32|(1, 1)|5|(1, 4)': '1a2aa21835ba9fdb2b3e',
    'np|(1, 9)|float64|(2, 3)|5': "9219b36ad7bbb177e64f|perlin|('y', 'x')",
    'np|(1, 9)|float64|(2, 3)|5|rng': 'b54daa1b5bcea11203df:307',
    'da|(1, 9)|float64|(2, 3)|5|(1, 4)': '3b17ba912837779d2012',
    'np|(1, 9)|int32|(0.5, 7)|0': "aae636672c6727e08084|perlin|('y', 'x')",
    'np|(1, 9)|int32|(0.5, 7)|0|rng': 'b3e656adcff2c69ca1e5:551',
    'np|(1, 9)|int32|(0.5, 7)|0|terrain': 'ae9c80f5dc53098b9c4c',
    'da|(1, 9)|int32|(0.5, 7)|0|(1, 4)': '9ed59b326bc9ef74af5b',
    'np|(1, 9)|uint8|(10, 1)|0': "25aefca197d42ee858fe|perlin|('y', 'x')",
    'np|(1, 9)|uint8|(10, 1)|0|rng': 'b3e656adcff2c69ca1e5:551',
    'da|(1, 9)|uint8|(10, 1)|0|(1, 4)': 'eb33509f6c39501b2dfa',
    'np|(33, 2)|float32|(1, 1)|12345': "9aaaca30fcdb47c521c7|perlin|('y', 'x')",
    'np|(33, 2)|float32|(1, 1)|12345|rng': '5ae30f28ed125ab8d80f:616',
    'da|(33, 2)|float32|(1, 1)|12345|(17, 1)': '0adb8e0c92343c79b688',
    'np|(33, 2)|float64|(2, 3)|12345': "bf2e31ce1b6bfdc2c400|perlin|('y', 'x')",
    'np|(33, 2)|float64|(2, 3)|12345|rng': '5ae30f28ed125ab8d80f:616',
    'da|(33, 2)|float64|(2, 3)|12345|(17, 1)': '2d005eaba980cd8d3b5e',
    'np|(33, 2)|int32|(0.5, 7)|2147483647': "0b26336352ca00c87971|perlin|('y', 'x')",
    'np|(33, 2)|int32|(0.5, 7)|2147483647|rng': '0025fc3fc45dbc23d16b:315',
    'da|(33, 2)|int32|(0.5, 7)|2147483647|(17, 1)': 'cae114e924d914b26c1d',
    'np|(33, 2)|uint8|(10, 1)|2147483647': "3ab5fc818964ee1538c8|perlin|('y', 'x')",
    'np|(33, 2)|uint8|(10, 1)|2147483647|rng': '0025fc3fc45dbc23d16b:315',
    'np|(33, 2)|uint8|(10, 1)|2147483647|terrain': '4a5319bb8c966d3e05f2',
    'da|(33, 2)|uint8|(10, 1)|2147483647|(17, 1)': 'b969c43325ca17a59520',
    'np|(40, 25)|float32|(1, 1)|5': "2394e55d6881a830f1a6|perlin|('y', 'x')",
    'np|(40, 25)|float32|(1, 1)|5|rng': 'b54daa1b5bcea11203df:307',
    'da|(40, 25)|float32|(1, 1)|5|(21, 9)': '249fcbeada2454eff354',
    'np|(40, 25)|float64|(2, 3)|5': "aa84f72589ebe29666a4|perlin|('y', 'x')",
    'np|(40, 25)|float64|(2, 3)|5|rng': 'b54daa1b5bcea11203df:307',
    'da|(40, 25)|float64|(2, 3)|5|(21, 9)': 'a766fea3face0a621b7d',
    'np|(40, 25)|int32|(0.5, 7)|0': "82e374d574e36cb820a5|perlin|('y', 'x')",
    'np|(40, 25)|int32|(0.5, 7)|0|rng': 'b3e656adcff2c69ca1e5:551',
    'da|(40, 25)|int32|(0.5, 7)|0|(21, 9)': 'fdaf1be06fe22a420565',
    'np|(40, 25)|uint8|(10, 1)|0': "51ef8f2053791d539e4c|perlin|('y', 'x')",
    'np|(40, 25)|uint8|(10, 1)|0|rng': 'b3e656adcff2c69ca1e5:551',
    'da|(40, 25)|uint8|(10, 1)|0|(21, 9)': 'cfcf31cda080f7543298',
}

if __name__ == '__main__':
    sys.exit(main())
