"""Differential test for C18 (zonal.trim / zonal.crop).

Compares the library against an independent pure-Python/numpy oracle of the
edge scan, on many rasters (ints, floats, NaN, odd shapes, single row/column,
kept cells touching any subset of the borders), several exclusion / zone-id
sets, and checks cells, coordinates, dims, attrs, dtype and name of the
returned window.  Error behaviour (exception class) on inputs the kernels do
not accept was recorded on the unmodified tree and is embedded below.
Exit status 0 iff everything is identical.
"""
import inspect
import itertools
import sys
import warnings

import numpy as np
import xarray as xr

warnings.filterwarnings("ignore")

import xrspatial  # noqa: E402
from xrspatial.zonal import crop, trim  # noqa: E402

print("xrspatial from", xrspatial.__file__)

FAIL = []


def check(cond, msg):
    if not cond:
        FAIL.append(msg)
        print("FAIL:", msg)


# ---------------------------------------------------------------- oracle
def _same(e, v):
    e = float(e) if not isinstance(e, complex) else e
    return e == v or (np.isnan(e) and np.isnan(v))


def ref_bounds(keep):
    """keep: 2D bool array of cells that stop the scan."""
    rows, cols = keep.shape
    rk = keep.any(axis=1)
    ck = keep.any(axis=0)
    if rows == 0 or cols == 0 or not keep.any():
        # scans run to the end without finding anything
        return max(rows - 1, 0), 0, max(cols - 1, 0), 0
    r = np.flatnonzero(rk)
    c = np.flatnonzero(ck)
    return int(r[0]), int(r[-1]), int(c[0]), int(c[-1])


def ref_trim_keep(data, excludes):
    keep = np.ones(data.shape, dtype=bool)
    for e in excludes:
        if isinstance(e, float) and np.isnan(e):
            if data.dtype.kind == 'f':
                keep &= ~np.isnan(data)
        else:
            keep &= ~(data == e)
    return keep


def ref_crop_keep(data, ids):
    keep = np.zeros(data.shape, dtype=bool)
    for e in ids:
        keep |= (data == e)
    return keep


def make_da(data, seed=0, name='src'):
    rows, cols = data.shape
    rs = np.random.RandomState(seed)
    ys = np.sort(rs.uniform(-50, 50, rows))[::-1].copy()
    xs = np.sort(rs.uniform(100, 200, cols))
    da = xr.DataArray(
        data, dims=['lat', 'lon'], coords={'lat': ys, 'lon': xs},
        attrs={'res': (1.5, 2.5), 'units': 'km', 'nodata': -1}, name=name)
    da = da.assign_coords(aux=(('lat', 'lon'), rs.rand(rows, cols)))
    return da


def check_window(out, src, bounds, name, tag):
    t, b, l, r = bounds
    exp = src.values[t:b + 1, l:r + 1]
    check(isinstance(out, xr.DataArray), tag + ": type")
    check(out.name == name, tag + ": name %r" % (out.name,))
    check(out.dims == src.dims, tag + ": dims")
    check(out.dtype == src.dtype, tag + ": dtype")
    check(out.shape == exp.shape, tag + ": shape %s vs %s" % (out.shape, exp.shape))
    if out.shape == exp.shape:
        check(np.array_equal(out.values, exp, equal_nan=(exp.dtype.kind == 'f')),
              tag + ": values")
        check(np.array_equal(out['lat'].values, src['lat'].values[t:b + 1]), tag + ": lat")
        check(np.array_equal(out['lon'].values, src['lon'].values[l:r + 1]), tag + ": lon")
        check(np.array_equal(out['aux'].values, src['aux'].values[t:b + 1, l:r + 1]),
              tag + ": aux coord")
    check(dict(out.attrs) == dict(src.attrs), tag + ": attrs")
    check(type(out.data) is type(src.data), tag + ": backing array type")


# ---------------------------------------------------------------- rasters
def rasters():
    rs = np.random.RandomState(1234)
    shapes = [(1, 1), (1, 6), (7, 1), (2, 2), (3, 5), (6, 4), (9, 11)]
    out = []
    for shp in shapes:
        rows, cols = shp
        # border subsets: kept block placed against any subset of 4 borders
        for tb, bb, lb, rb in itertools.product([0, 1], repeat=4):
            t = 0 if tb else min(1, rows - 1)
            b = rows - 1 if bb else max(rows - 2, t)
            l = 0 if lb else min(1, cols - 1)
            r = cols - 1 if rb else max(cols - 2, l)
            base = np.zeros(shp)
            blk = rs.randint(1, 4, size=(b - t + 1, r - l + 1)).astype(float)
            # make sure the corners of the block rows/cols are hit somewhere
            blk[0, rs.randint(blk.shape[1])] = 2
            blk[-1, rs.randint(blk.shape[1])] = 3
            blk[rs.randint(blk.shape[0]), 0] = 2
            blk[rs.randint(blk.shape[0]), -1] = 1
            base[t:b + 1, l:r + 1] = blk
            out.append(base)
        # random sparse
        for k in range(4):
            a = rs.choice([0., 0., 0., 1., 2., 5.], size=shp)
            out.append(a)
        out.append(np.zeros(shp))       # nothing kept for excludes [0]
        out.append(np.full(shp, 7.))    # everything kept
    return out


def variants(a):
    """yield (tag, data) in several dtypes, with NaN variants for floats"""
    yield 'f8', a.astype(np.float64)
    yield 'f4', a.astype(np.float32)
    yield 'i8', a.astype(np.int64)
    yield 'i4', a.astype(np.int32)
    yield 'u1', a.astype(np.uint8)
    n = a.astype(np.float64).copy()
    n[n == 0] = np.nan
    yield 'f8nan', n
    yield 'f4nan', n.astype(np.float32)
    m = a.astype(np.float64).copy()
    m[m == 1] = np.nan      # NaN inside the kept area / mixed with zeros
    yield 'f8mix', m


TRIM_SETS = [
    ('default', None),
    ('nan_t', (np.nan,)),
    ('nan_l', [np.nan]),
    ('zero_l', [0]),
    ('zero_t', (0,)),
    ('zerof_l', [0.0]),
    ('nan0_l', [np.nan, 0.0]),
    ('nan0_t', (np.nan, 0.0)),
    ('0nan1_t', (0.0, np.nan, 1.0)),
    ('012_l', [0, 1, 2]),
    ('5_t', (5,)),
    ('neg_l', [-3]),
]

CROP_SETS = [
    ('1_l', [1]), ('1_t', (1,)), ('12_l', [1, 2]), ('5_t', (5,)), ('0_l', [0]),
    ('2f_l', [2.0]), ('235_t', (2, 3, 5)), ('9_l', [9]), ('7_t', (7,)),
    ('dup_l', [3, 3, 1]),
]


def run_numpy():
    n = 0
    for i, a in enumerate(rasters()):
        for vt, data in variants(a):
            src = make_da(data, seed=i)
            snapshot = src.copy(deep=True)
            for st, ex in TRIM_SETS:
                tag = "trim[%d %s %s %s]" % (i, a.shape, vt, st)
                try:
                    if ex is None:
                        out = trim(src)
                        ex_eff = (np.nan,)
                        nm = 'trim'
                    else:
                        out = trim(src, ex, name='T' + st)
                        ex_eff = ex
                        nm = 'T' + st
                except Exception as e:  # noqa
                    check(False, tag + ": raised %s %s" % (type(e).__name__, e))
                    continue
                bounds = ref_bounds(ref_trim_keep(data, ex_eff))
                check_window(out, src, bounds, nm, tag)
                n += 1
            # crop: zones = this raster, values = another raster of same shape
            vals = make_da((np.arange(data.size, dtype=np.float32).reshape(data.shape) * 1.5),
                           seed=100 + i, name='vals')
            if vt in ('i8', 'u1'):
                vals = vals.astype(np.int16)
            for st, ids in CROP_SETS:
                tag = "crop[%d %s %s %s]" % (i, a.shape, vt, st)
                try:
                    if st.endswith('_t'):
                        out = crop(src, vals, ids)
                        nm = 'crop'
                    else:
                        out = crop(zones=src, values=vals, zones_ids=ids, name='C' + st)
                        nm = 'C' + st
                except Exception as e:  # noqa
                    check(False, tag + ": raised %s %s" % (type(e).__name__, e))
                    continue
                bounds = ref_bounds(ref_crop_keep(data, ids))
                check_window(out, vals, bounds, nm, tag)
                n += 1
            # inputs untouched (name of the source must not change either)
            check(src.identical(snapshot), "input mutated [%d %s]" % (i, vt))
            check(src.name == 'src', "input renamed [%d %s]" % (i, vt))
    print("numpy cases checked:", n)


# --------------------------------------------------- recorded error behaviour
def exc_name(f):
    try:
        r = f()
    except Exception as e:  # noqa
        return type(e).__name__
    return "OK:%s:%s" % (type(r).__name__, getattr(r, 'shape', None))


def run_errors():
    import dask.array as da
    a = np.array([[0, 0, 0, 0], [0, 1., 2, 0], [0, np.nan, 3, 0], [0, 0, 0, 0]])
    src = make_da(a)
    dsk = src.copy()
    dsk.data = da.from_array(a, chunks=(2, 2))
    d3 = xr.DataArray(np.zeros((2, 3, 4)))
    d1 = xr.DataArray(np.zeros(5))
    got = {
        'trim_empty_list': exc_name(lambda: trim(src, [])),
        'trim_empty_tuple': exc_name(lambda: trim(src, ())),
        'trim_hetero_tuple': exc_name(lambda: trim(src, (np.nan, 0))),
        'trim_hetero_list': exc_name(lambda: trim(src, [np.nan, 0])),
        'trim_ndarray_values': exc_name(lambda: trim(src, np.array([0.0]))),
        'trim_scalar_values': exc_name(lambda: trim(src, 0)),
        'trim_none_values': exc_name(lambda: trim(src, None)),
        'trim_str_values': exc_name(lambda: trim(src, ['a'])),
        'trim_dask': exc_name(lambda: trim(dsk, [0])),
        'trim_3d': exc_name(lambda: trim(d3, [0])),
        'trim_1d': exc_name(lambda: trim(d1, [0])),
        'trim_ndarray_raster': exc_name(lambda: trim(a, [0])),
        'trim_name_none': exc_name(lambda: trim(src, [0], name=None)),
        'crop_empty_list': exc_name(lambda: crop(src, src, [])),
        'crop_empty_tuple': exc_name(lambda: crop(src, src, ())),
        'crop_hetero_tuple': exc_name(lambda: crop(src, src, (1, 2.0))),
        'crop_nan_id': exc_name(lambda: crop(src, src, [np.nan])),
        'crop_ndarray_ids': exc_name(lambda: crop(src, src, np.array([1.0]))),
        'crop_scalar_ids': exc_name(lambda: crop(src, src, 1)),
        'crop_none_ids': exc_name(lambda: crop(src, src, None)),
        'crop_dask_zones': exc_name(lambda: crop(dsk, src, [1])),
        'crop_dask_values': exc_name(lambda: crop(src, dsk, [1])),
        'crop_3d_zones': exc_name(lambda: crop(d3, src, [0])),
        'crop_ndarray_zones': exc_name(lambda: crop(a, src, [1])),
        'crop_ndarray_values': exc_name(lambda: crop(src, a, [1])),
        'crop_smaller_values': exc_name(lambda: crop(src, src[:2, :2], [3])),
        'crop_missing_ids': exc_name(lambda: crop(src, src)),
    }
    if '--record' in sys.argv:
        import pprint
        pprint.pprint(got)
        return
    for k in sorted(set(got) | set(RECORDED)):
        check(got.get(k) == RECORDED.get(k),
              "error behaviour %s: got %r, recorded %r" % (k, got.get(k), RECORDED.get(k)))
    # dask-backed *values* raster in crop stays lazy and gives the same window
    out = crop(src, dsk, [1, 3])
    check(isinstance(out.data, da.Array), "crop dask values: lazy")
    check(out.data.chunks == ((1, 1), (1, 1)), "crop dask values: chunks %s" % (out.data.chunks,))
    check(np.array_equal(out.values, a[1:3, 1:3], equal_nan=True), "crop dask values: cells")
    check(out.name == 'crop', "crop dask values: name")


def run_signature():
    s = inspect.signature(trim)
    check(list(s.parameters) == ['raster', 'values', 'name'], "trim signature names")
    d = s.parameters['values'].default
    check(isinstance(d, tuple) and len(d) == 1 and isinstance(d[0], float) and np.isnan(d[0]),
          "trim default values %r" % (d,))
    check(s.parameters['name'].default == 'trim', "trim default name")
    s = inspect.signature(crop)
    check(list(s.parameters) == ['zones', 'values', 'zones_ids', 'name'], "crop signature names")
    check(s.parameters['name'].default == 'crop', "crop default name")
    check(s.parameters['zones_ids'].default is inspect.Parameter.empty, "crop zones_ids required")
    check(all(p.kind == p.POSITIONAL_OR_KEYWORD for p in s.parameters.values()), "crop kinds")


# recorded on the unmodified tree
RECORDED = {'crop_3d_zones': 'TypingError',
 'crop_dask_values': 'OK:DataArray:(1, 1)',
 'crop_dask_zones': 'TypingError',
 'crop_empty_list': 'ValueError',
 'crop_empty_tuple': 'TypingError',
 'crop_hetero_tuple': 'TypingError',
 'crop_missing_ids': 'TypeError',
 'crop_nan_id': 'OK:DataArray:(0, 0)',
 'crop_ndarray_ids': 'OK:DataArray:(1, 1)',
 'crop_ndarray_values': 'AttributeError',
 'crop_ndarray_zones': 'OK:DataArray:(1, 1)',
 'crop_none_ids': 'TypingError',
 'crop_scalar_ids': 'TypingError',
 'crop_smaller_values': 'OK:DataArray:(0, 0)',
 'trim_1d': 'TypingError',
 'trim_3d': 'TypingError',
 'trim_dask': 'TypingError',
 'trim_empty_list': 'ValueError',
 'trim_empty_tuple': 'TypingError',
 'trim_hetero_list': 'TypeError',
 'trim_hetero_tuple': 'TypingError',
 'trim_name_none': 'OK:DataArray:(2, 2)',
 'trim_ndarray_raster': 'AttributeError',
 'trim_ndarray_values': 'OK:DataArray:(2, 2)',
 'trim_none_values': 'TypingError',
 'trim_scalar_values': 'TypingError',
 'trim_str_values': 'TypingError'}

if __name__ == '__main__':
    run_signature()
    run_errors()
    if '--record' not in sys.argv:
        run_numpy()
    if FAIL:
        print("%d FAILURES" % len(FAIL))
        sys.exit(1)
    print("OK: identical")
    sys.exit(0)
