"""Differential test for C18 (trim / crop return the minimal window).

Runs xrspatial.trim and xrspatial.crop on a battery of rasters and compares
every result against
  (a) an independent NumPy reference of the edge scans, and
  (b) a digest recorded on the unmodified tree.
Exit code 0 iff everything is identical.
"""
import hashlib
import sys
import warnings

import numpy as np
import xarray as xr

warnings.filterwarnings("ignore")

import xrspatial  # noqa: E402
from xrspatial import crop, trim  # noqa: E402
from xrspatial import zonal as _zonal  # noqa: E402

# digest of all outputs, recorded on the unmodified tree
RECORDED_DIGEST = "59576b89d2dbe57aad7224261d95c5a3b9c08f45ae2e4e50362917f9cf4923e5"

FAILURES = []
_digest = hashlib.sha256()


def fail(msg):
    FAILURES.append(msg)
    print("FAIL:", msg)


# ---------------------------------------------------------------- reference
def ref_window(keep):
    """Window found by the four edge scans, given the boolean `keep` mask.

    When no cell is kept, the forward scans end at the last index and the
    backward scans end at index 0 (this yields an empty slice unless the
    axis has length 1).
    """
    rows, cols = keep.shape
    r = np.flatnonzero(keep.any(axis=1))
    c = np.flatnonzero(keep.any(axis=0))
    if r.size:
        top, bottom = int(r[0]), int(r[-1])
    else:
        top, bottom = rows - 1, 0
    if c.size:
        left, right = int(c[0]), int(c[-1])
    else:
        left, right = cols - 1, 0
    return top, bottom, left, right


def ref_keep_trim(data, excludes):
    excluded = np.zeros(data.shape, dtype=bool)
    for e in excludes:
        excluded |= (data == e)
        if isinstance(e, float) and np.isnan(e) and data.dtype.kind == "f":
            excluded |= np.isnan(data)
    return ~excluded


def ref_keep_crop(zones, ids):
    keep = np.zeros(zones.shape, dtype=bool)
    for i in ids:
        keep |= (zones == i)
    return keep


# ------------------------------------------------------------------ helpers
def make_raster(data, name="src"):
    rows, cols = data.shape
    return xr.DataArray(
        data,
        dims=("lat", "lon"),
        coords={
            "lat": np.linspace(50.0, 40.0, rows) if rows > 1 else np.array([50.0]),
            "lon": np.arange(cols, dtype=np.float64) * 0.25 - 3.0,
            "row_id": ("lat", np.arange(rows) * 7),
        },
        attrs={"res": (0.25, 1.0), "crs": "EPSG:4326", "nodata": -1},
        name=name,
    )


def feed(arr):
    a = np.asarray(arr)
    _digest.update(str(a.dtype).encode())
    _digest.update(str(a.shape).encode())
    _digest.update(np.ascontiguousarray(a).tobytes())


def check(tag, result, source, window, name):
    top, bottom, left, right = window
    expected = source[top: bottom + 1, left: right + 1]
    if not isinstance(result, xr.DataArray):
        fail(f"{tag}: result is {type(result)}")
        return
    if result.name != name:
        fail(f"{tag}: name {result.name!r} != {name!r}")
    if result.dims != source.dims:
        fail(f"{tag}: dims {result.dims}")
    if result.shape != expected.shape:
        fail(f"{tag}: shape {result.shape} != {expected.shape}")
        return
    if result.dtype != source.dtype:
        fail(f"{tag}: dtype {result.dtype} != {source.dtype}")
    if type(result.data) is not type(source.data):
        fail(f"{tag}: backing array type {type(result.data)}")
    if not np.array_equal(result.data, expected.data, equal_nan=result.dtype.kind == "f"):
        fail(f"{tag}: values differ")
    if result.data.tobytes() != np.ascontiguousarray(expected.data).tobytes():
        fail(f"{tag}: bytes differ")
    if set(result.coords) != set(source.coords):
        fail(f"{tag}: coords {set(result.coords)}")
    for c in source.coords:
        if not np.array_equal(result[c].data, expected[c].data):
            fail(f"{tag}: coord {c} differs")
        feed(result[c].data)
    if dict(result.attrs) != dict(source.attrs):
        fail(f"{tag}: attrs {result.attrs}")
    feed(result.data)
    _digest.update(repr((tag, result.name, result.dims, sorted(result.attrs.items()))).encode())


# -------------------------------------------------------------------- cases
def base_patterns(rng):
    """Integer label patterns (0 == background) of many shapes."""
    pats = []
    pats.append(np.array([[0, 0, 0, 0],
                          [0, 4, 0, 0],
                          [0, 4, 4, 0],
                          [0, 1, 1, 0],
                          [0, 0, 0, 0]]))
    pats.append(np.array([[0, 4, 0, 3],
                          [0, 4, 4, 3],
                          [0, 1, 1, 3],
                          [0, 1, 1, 3],
                          [0, 0, 0, 0]]))
    # kept cells touching every subset of the four borders
    for mask in range(16):
        t, b, l, r = [(mask >> k) & 1 for k in range(4)]
        p = np.zeros((7, 9), dtype=np.int64)
        p[3, 4] = 2
        if t:
            p[0, 5] = 1
        if b:
            p[6, 2] = 3
        if l:
            p[2, 0] = 4
        if r:
            p[4, 8] = 1
        pats.append(p)
    # single row / column, 1x1, all background, no background
    pats.append(np.array([[0, 0, 2, 0, 3, 0, 0]]))
    pats.append(np.array([[0], [0], [5], [1], [0]]))
    pats.append(np.array([[0, 0, 0, 0, 0, 7]]))
    pats.append(np.array([[7], [0], [0]]))
    pats.append(np.array([[0]]))
    pats.append(np.array([[3]]))
    pats.append(np.zeros((4, 5), dtype=np.int64))
    pats.append(np.zeros((1, 5), dtype=np.int64))
    pats.append(np.zeros((5, 1), dtype=np.int64))
    pats.append(np.full((3, 4), 2))
    # diagonal / corner only
    p = np.zeros((6, 6), dtype=np.int64)
    p[5, 0] = 1
    pats.append(p)
    p = np.zeros((6, 6), dtype=np.int64)
    p[0, 5] = 1
    p[5, 0] = 2
    pats.append(p)
    # random sparse rasters of odd shapes
    for shape in [(2, 3), (3, 2), (5, 11), (13, 4), (9, 9), (1, 8), (8, 1), (17, 23)]:
        for density in (0.03, 0.2, 0.7):
            p = rng.integers(1, 6, size=shape)
            p[rng.random(shape) > density] = 0
            pats.append(p)
    return pats


def run():
    rng = np.random.default_rng(1818)
    pats = base_patterns(rng)
    n = 0

    # ---- trim ----
    for i, p in enumerate(pats):
        for dt in (np.int64, np.int32, np.uint8, np.float64, np.float32):
            data = p.astype(dt)
            variants = [("bg0", data, [(0,), (0, 1), [0, 3, 4], (9,)])]
            if np.dtype(dt).kind == "f":
                nan_data = data.copy()
                nan_data[p == 0] = np.nan
                mixed = data.copy()
                mixed[(p == 0) & (rng.random(p.shape) < 0.5)] = np.nan
                variants = [
                    ("bg0", data, [(0.0,), (0.0, 1.0), [0.0, 3.0, 4.0], (np.nan,), (0,)]),
                    ("bgnan", nan_data, [None, (np.nan,), (np.nan, 1.0), [np.nan, 2.0, 3.0],
                                         (0.0,), (1.0, 2.0, 3.0, 4.0, 5.0)]),
                    ("bgmix", mixed, [None, (np.nan, 0.0), (0.0, np.nan), [0.0], (0.0, np.nan, 1.0)]),
                ]
            else:
                variants[0][2].extend([None, (np.nan,)])
            for vtag, d, exsets in variants:
                raster = make_raster(d)
                for ex in exsets:
                    tag = f"trim[{i}]{np.dtype(dt).name}/{vtag}/{ex!r}"
                    if ex is None:
                        res = trim(raster)
                        used, nm = (np.nan,), "trim"
                    elif n % 3 == 0:
                        res = trim(raster, values=ex, name="t_named")
                        used, nm = ex, "t_named"
                    else:
                        res = trim(raster, ex)
                        used, nm = ex, "trim"
                    check(tag, res, raster, ref_window(ref_keep_trim(d, used)), nm)
                    n += 1

    # non-contiguous / Fortran-ordered backing arrays
    big = rng.integers(0, 3, size=(12, 14)).astype(np.float64)
    big[rng.random(big.shape) < 0.5] = np.nan
    big[:3] = np.nan
    big[:, -4:] = np.nan
    for tag, d in [("T", big.T), ("F", np.asfortranarray(big)), ("step", big[::2, 1::3]),
                   ("rev", big[::-1, ::-1])]:
        raster = make_raster(d)
        for ex in [None, (np.nan, 0.0), (np.nan, 0.0, 1.0, 2.0)]:
            used = (np.nan,) if ex is None else ex
            res = trim(raster) if ex is None else trim(raster, values=ex)
            check(f"trim-layout-{tag}/{ex!r}", res, raster,
                  ref_window(ref_keep_trim(d, used)), "trim")
            n += 1

    # the input must not be modified and its name must be untouched
    src = make_raster(pats[0].astype(np.float64), name="keepme")
    before = src.copy(deep=True)
    out = trim(src, values=(0.0,))
    if not src.identical(before) or src.name != "keepme":
        fail("trim modified its input")
    if not np.shares_memory(out.data, src.data):
        fail("trim result is no longer a view of the input")

    # ---- crop ----
    for i, p in enumerate(pats):
        for zdt in (np.int64, np.int32, np.uint8, np.float64):
            zones_data = p.astype(zdt)
            zones = make_raster(zones_data, name="zones")
            vals_data = rng.normal(size=p.shape).astype(np.float32 if i % 2 else np.float64)
            vals_data[rng.random(p.shape) < 0.2] = np.nan
            if i % 5 == 0:
                vals_data = (vals_data * 0 + np.arange(p.size).reshape(p.shape)).astype(np.int16)
            values = make_raster(vals_data, name="vals")
            values.attrs["extra"] = i
            if np.dtype(zdt).kind == "f":
                idsets = [(1.0,), (1.0, 3.0), [2.0, 4.0, 5.0], (0.0,), (9.0,), (1,)]
            else:
                idsets = [(1,), (1, 3), [2, 4, 5], (0,), (9,), (3, 3, 1)]
            for ids in idsets:
                tag = f"crop[{i}]{np.dtype(zdt).name}/{ids!r}"
                if n % 2:
                    res = crop(zones, values, ids)
                    nm = "crop"
                else:
                    res = crop(zones=zones, values=values, zones_ids=ids, name="c_named")
                    nm = "c_named"
                check(tag, res, values, ref_window(ref_keep_crop(zones_data, ids)), nm)
                n += 1

    # crop with a values raster smaller than the zones raster (docstring use)
    zones_data = pats[1].astype(np.int64)
    zones = make_raster(zones_data)
    values = make_raster(rng.normal(size=(5, 2)))
    for ids in [(4,), (3,), (1, 3), (0,)]:
        res = crop(zones, values, ids)
        check(f"crop-small/{ids!r}", res, values, ref_window(ref_keep_crop(zones_data, ids)), "crop")
        n += 1

    # crop on NaN-holding zones: NaN never matches an id
    zd = pats[1].astype(np.float64)
    zd[zd == 0] = np.nan
    zones = make_raster(zd)
    values = make_raster(np.arange(20, dtype=np.float64).reshape(5, 4))
    for ids in [(np.nan,), (np.nan, 4.0), (1.0, 3.0)]:
        res = crop(zones, values, ids)
        keep = np.zeros(zd.shape, dtype=bool)
        for k in ids:
            keep |= (zd == k)
        check(f"crop-nan/{ids!r}", res, values, ref_window(keep), "crop")
        n += 1

    # unsupported inputs keep failing the same way
    import dask.array as da
    dr = xr.DataArray(da.from_array(np.arange(12.0).reshape(3, 4), chunks=2), dims=("lat", "lon"))
    nr = make_raster(np.arange(12.0).reshape(3, 4))
    for tag, fn in [
        ("trim-dask", lambda: trim(dr)),
        ("crop-dask", lambda: crop(dr, dr, (1.0,))),
        ("trim-hetero", lambda: trim(nr, (np.nan, 0))),
        ("trim-empty", lambda: trim(nr, ())),
        ("crop-empty", lambda: crop(nr, nr, ())),
        ("trim-3d", lambda: trim(xr.DataArray(np.zeros((2, 3, 4))), (0.0,))),
    ]:
        try:
            fn()
            outcome = "ok"
        except Exception as exc:  # noqa: BLE001
            outcome = type(exc).__name__
        _digest.update(f"{tag}:{outcome}".encode())
        if outcome != "TypingError" and tag not in ("trim-3d",):
            fail(f"{tag}: outcome {outcome}")

    # public API intact
    import inspect
    sig_t = inspect.signature(trim)
    sig_c = inspect.signature(crop)
    if list(sig_t.parameters) != ["raster", "values", "name"]:
        fail(f"trim signature {sig_t}")
    if list(sig_c.parameters) != ["zones", "values", "zones_ids", "name"]:
        fail(f"crop signature {sig_c}")
    dv = sig_t.parameters["values"].default
    if not (isinstance(dv, tuple) and len(dv) == 1 and np.isnan(dv[0])):
        fail(f"trim default values {dv!r}")
    if sig_t.parameters["name"].default != "trim" or sig_c.parameters["name"].default != "crop":
        fail("default names changed")
    if xrspatial.trim is not _zonal.trim or xrspatial.crop is not _zonal.crop:
        fail("package exports changed")
    return n


if __name__ == "__main__":
    print("xrspatial from", xrspatial.__file__)
    count = run()
    got = _digest.hexdigest()
    print(f"{count} cases, digest {got}")
    if "--record" in sys.argv:
        sys.exit(0)
    if got != RECORDED_DIGEST:
        fail(f"digest {got} != recorded {RECORDED_DIGEST}")
    if FAILURES:
        print(f"{len(FAILURES)} failure(s)")
        sys.exit(1)
    print("OK: identical")
    sys.exit(0)
