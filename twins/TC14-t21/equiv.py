"""Differential test for xrspatial.pathfinding.a_star_search (property C14).

Two independent checks are made for every input:

  1. an oracle written here from scratch (pure-Python Dijkstra + chain
     validation) says what a correct answer looks like;
  2. the raw bytes / dtype / dims / coords / attrs / warnings of every result
     are folded into a SHA-256 digest which must equal the digest recorded
     on the UNMODIFIED tree (tie-breaking between equally short paths is
     deterministic, so a behaviour-preserving refactoring reproduces it).

Exit status 0 if everything is identical, 1 otherwise.
"""
import hashlib
import heapq
import itertools
import math
import sys
import warnings

import numpy as np
import xarray as xr

import xrspatial
from xrspatial import a_star_search

# digest recorded from the unmodified tree (see __main__)
EXPECTED_DIGEST = "e2de174847951b17cc87f2df3cdf6fb08b12409b5e73a4b97e05519a601f3184"
EXPECTED_NCASES = 26524

SQRT2 = math.sqrt(2.0)
N4 = [(0, -1), (-1, 0), (1, 0), (0, 1)]
N8 = N4 + [(-1, -1), (-1, 1), (1, -1), (1, 1)]


def crossable(v, barriers):
    v = float(v)
    if math.isnan(v):
        return False
    return all(v != float(b) for b in barriers)


def dijkstra(ok, start, goal, conn):
    """Shortest distance start->goal over cells with ok[y, x] True."""
    h, w = ok.shape
    if not ok[start] or not ok[goal]:
        return None
    nb = N8 if conn == 8 else N4
    dist = {start: 0.0}
    heap = [(0.0, start)]
    done = set()
    while heap:
        d, cell = heapq.heappop(heap)
        if cell in done:
            continue
        done.add(cell)
        if cell == goal:
            return d
        for dy, dx in nb:
            n = (cell[0] + dy, cell[1] + dx)
            if not (0 <= n[0] < h and 0 <= n[1] < w) or not ok[n]:
                continue
            nd = d + (SQRT2 if dy and dx else 1.0)
            if nd < dist.get(n, math.inf):
                dist[n] = nd
                heapq.heappush(heap, (nd, n))
    return None


def nearest_cell(coords, value):
    # cell whose centre is nearest to `value`
    return int(np.argmin(np.abs(np.asarray(coords, dtype=np.float64) - value)))


def snap(ok, cell):
    # nearest crossable cell (euclidean, pixel space); itself if crossable
    if ok[cell]:
        return cell, 0.0
    best = None
    bestd = math.inf
    h, w = ok.shape
    for yy in range(h):
        for xx in range(w):
            if ok[yy, xx]:
                d = math.hypot(yy - cell[0], xx - cell[1])
                if d < bestd:
                    bestd = d
                    best = (yy, xx)
    return best, bestd


def check_against_oracle(tag, data, ys, xs, start, goal, barriers, conn,
                         snap_start, snap_goal, res):
    """Return list of error strings (empty when the result is correct)."""
    errs = []
    h, w = data.shape
    ok = np.zeros((h, w), dtype=bool)
    for yy in range(h):
        for xx in range(w):
            ok[yy, xx] = crossable(data[yy, xx], barriers)

    s = (nearest_cell(ys, start[0]), nearest_cell(xs, start[1]))
    g = (nearest_cell(ys, goal[0]), nearest_cell(xs, goal[1]))
    s_candidates = None
    g_candidates = None
    if snap_start:
        s2, sd = snap(ok, s)
        if s2 is None:
            s = None
        else:
            # all crossable cells at the same (minimal) distance are valid
            s_candidates = {(yy, xx) for yy in range(h) for xx in range(w)
                            if ok[yy, xx] and
                            math.hypot(yy - s[0], xx - s[1]) == sd}
    if snap_goal:
        g2, gd = snap(ok, g)
        if g2 is None:
            g = None
        else:
            g_candidates = {(yy, xx) for yy in range(h) for xx in range(w)
                            if ok[yy, xx] and
                            math.hypot(yy - g[0], xx - g[1]) == gd}

    vals = np.asarray(res.values)
    if vals.dtype != np.float64 or vals.shape != data.shape:
        errs.append("%s: dtype/shape %s %s" % (tag, vals.dtype, vals.shape))
        return errs
    cells = [(int(a), int(b)) for a, b in zip(*np.nonzero(~np.isnan(vals)))]

    if s is None or g is None:
        if cells:
            errs.append("%s: expected all-NaN (nothing crossable)" % tag)
        return errs

    # identify actual start: the cell with value 0
    zeros = [c for c in cells if vals[c] == 0.0]
    if not cells:
        # must be because no route exists for (every admissible) end points
        ss = s_candidates if s_candidates is not None else {s}
        gs = g_candidates if g_candidates is not None else {g}
        # the library picks one candidate; a route for *all* candidate pairs
        # would make all-NaN certainly wrong
        if all(dijkstra(ok, a, b, conn) is not None for a in ss for b in gs):
            errs.append("%s: all-NaN although a route exists" % tag)
        return errs
    if len(zeros) != 1:
        errs.append("%s: %d cells with value 0" % (tag, len(zeros)))
        return errs
    s_act = zeros[0]
    g_act = max(cells, key=lambda c: vals[c])
    if s_candidates is not None:
        if s_act not in s_candidates:
            errs.append("%s: start snapped to %s" % (tag, (s_act,)))
    elif s_act != s:
        errs.append("%s: start %s != %s" % (tag, s_act, s))
    if g_candidates is not None:
        if g_act not in g_candidates:
            errs.append("%s: goal snapped to %s" % (tag, (g_act,)))
    elif g_act != g:
        errs.append("%s: goal %s != %s" % (tag, g_act, g))

    # chain: sort by value, consecutive cells are neighbours, step lengths
    chain = sorted(cells, key=lambda c: vals[c])
    for a, b in zip(chain[:-1], chain[1:]):
        dy, dx = abs(a[0] - b[0]), abs(a[1] - b[1])
        if max(dy, dx) != 1 or (conn == 4 and dy + dx != 1):
            errs.append("%s: %s -> %s is not a step" % (tag, a, b))
            break
        step = SQRT2 if dy and dx else 1.0
        if not math.isclose(vals[b] - vals[a], step, rel_tol=0, abs_tol=1e-9):
            errs.append("%s: step length %r" % (tag, vals[b] - vals[a]))
            break
    for c in cells:
        if not ok[c]:
            errs.append("%s: path enters non crossable %s" % (tag, (c,)))
            break
    best = dijkstra(ok, s_act, g_act, conn)
    if best is None or not math.isclose(vals[g_act], best, rel_tol=0,
                                        abs_tol=1e-9):
        errs.append("%s: goal value %r, shortest %r" % (tag, vals[g_act], best))
    return errs


class Recorder:
    def __init__(self):
        self.h = hashlib.sha256()
        self.n = 0
        self.errors = []

    def run(self, tag, data, ys, xs, start, goal, barriers, conn,
            snap_start=False, snap_goal=False, dims=('y', 'x'), attrs=None,
            oracle=True, positional=False):
        raster = xr.DataArray(data, coords={dims[0]: ys, dims[1]: xs},
                              dims=dims, attrs=attrs or {})
        before = raster.copy(deep=True)
        with warnings.catch_warnings(record=True) as wlist:
            warnings.simplefilter("always")
            try:
                if positional:
                    res = a_star_search(raster, start, goal, barriers,
                                        dims[1], dims[0], conn,
                                        snap_start, snap_goal)
                else:
                    res = a_star_search(raster, start, goal, barriers=barriers,
                                        x=dims[1], y=dims[0],
                                        connectivity=conn,
                                        snap_start=snap_start,
                                        snap_goal=snap_goal)
            except Exception as e:  # recorded, exceptions must be preserved
                self.h.update(("EXC %s %s|" % (type(e).__name__, e)).encode())
                self.n += 1
                return None
        msgs = sorted(str(w.message) for w in wlist
                      if "crossable" in str(w.message))
        self.n += 1
        self.h.update(tag.encode())
        self.h.update(str(res.dtype).encode())
        self.h.update(str(res.dims).encode())
        self.h.update(str(type(res.data).__name__).encode())
        self.h.update(np.ascontiguousarray(res.values).tobytes())
        self.h.update(repr(sorted(res.attrs.items())).encode())
        for d in dims:
            self.h.update(np.ascontiguousarray(res[d].values).tobytes())
        self.h.update("|".join(msgs).encode())
        # input must not be modified
        if not before.identical(raster):
            self.errors.append("%s: input raster modified" % tag)
        if oracle:
            self.errors.extend(check_against_oracle(
                tag, np.asarray(data), ys, xs, start, goal, list(barriers),
                conn, snap_start, snap_goal, res))
        return res


def exhaustive(rec):
    # every barrier layout on 2x3 (every start/goal pair) and 3x3 grids
    # (a rotating fourteenth of the pairs per layout), snap off and on
    for (h, w) in [(2, 3), (3, 3)]:
        ys = np.arange(h, dtype=np.float64)[::-1]      # descending
        xs = np.arange(w, dtype=np.float64) * 2 + 10   # ascending, step 2
        cells = list(itertools.product(range(h), range(w)))
        for layout in range(2 ** (h * w)):
            data = np.array([(layout >> k) & 1 for k in range(h * w)],
                            dtype=np.float64).reshape(h, w)
            for s, g in itertools.product(cells, cells):
                start = (ys[s[0]], xs[s[1]])
                goal = (ys[g[0]], xs[g[1]])
                for conn in (4, 8):
                    k = layout + s[0] * 3 + s[1] + 2 * g[0] + g[1] + conn
                    if (h, w) == (2, 3):
                        modes = [(False, False), (True, True),
                                 (True, False) if k % 2 else (False, True)]
                    elif k % 14 == 0:
                        # 3x3: every layout, one fourteenth of the pairs
                        modes = [(False, False), (True, True)]
                    else:
                        continue
                    for ss, sg in modes:
                        rec.run("ex%d%d-%d-%s-%s-%d-%d%d" % (h, w, layout, s, g,
                                                            conn, ss, sg),
                                data, ys, xs, start, goal, [1], conn, ss, sg)


def randomised(rec):
    rng = np.random.RandomState(20261003)
    shapes = [(5, 7), (8, 6), (1, 9), (7, 1), (4, 4), (11, 5), (2, 2), (6, 13)]
    dtypes = [np.float64, np.float32, np.int32, np.int64, np.uint8, np.int16]
    for it in range(700):
        h, w = shapes[it % len(shapes)]
        dt = dtypes[(it // 3) % len(dtypes)]
        vals = rng.randint(0, 4, size=(h, w))
        data = vals.astype(dt)
        if np.issubdtype(dt, np.floating) and it % 2 == 0:
            data[rng.rand(h, w) < 0.15] = np.nan
        if it % 11 == 0:
            data = np.asfortranarray(data)
        # coordinates: fractional steps, offsets, ascending or descending
        sy = [0.5, 1.0, 0.1, 30.0, 1 / 3.0, 2.5][it % 6]
        sx = [1.0, 0.25, 0.3, 7.0, 1e-3, 0.7][(it // 2) % 6]
        oy = [0.0, -17.3, 1000.1, 0.05][it % 4]
        ox = [0.0, 5.55, -0.9, 123456.7][(it // 5) % 4]
        ys = oy + sy * np.arange(h)
        xs = ox + sx * np.arange(w)
        if it % 2:
            ys = ys[::-1].copy()
        if it % 3 == 0:
            xs = xs[::-1].copy()
        attrs = {'foo': 'bar', 'n': it}
        if h == 1 or w == 1 or it % 7 == 0:
            attrs['res'] = (float(sx), float(sy))
        elif it % 13 == 0:
            attrs['res'] = float(sx)
            ys = oy + sx * np.arange(h)
            sy = sx
        barriers = [[], [0], [0, 3], [1.0], [2, 0, 5]][it % 5]
        conn = 8 if it % 4 < 2 else 4
        s = (rng.randint(h), rng.randint(w))
        g = (rng.randint(h), rng.randint(w))
        # point inside the cell, away from its centre (nearest centre rule)
        jy, jx = rng.uniform(-0.4, 0.4, size=2) if it % 3 else (0.0, 0.0)
        start = (ys[s[0]] + jy * sy, xs[s[1]] + jx * sx)
        goal = (ys[g[0]] - jx * sy, xs[g[1]] - jy * sx)
        if it % 9 == 0:
            start = np.array(start)
            goal = list(goal)
        dims = [('y', 'x'), ('lat', 'lon'), ('row', 'col')][it % 3]
        ss = bool((it // 2) % 2)
        sg = bool((it // 4) % 2)
        rec.run("rnd%d" % it, data, ys, xs, start, goal, barriers, conn,
                ss, sg, dims=dims, attrs=attrs, positional=(it % 5 == 0))


def special(rec):
    # doc example
    agg = np.array([[0, 1, 0, 0], [1, 1, 0, 0], [0, 1, 2, 2],
                    [1, 0, 2, 0], [0, 2, 2, 2]])
    ys = np.linspace(4, 0, 5)
    xs = np.linspace(0, 3, 4)
    for conn in (4, 8):
        for s in itertools.product(range(5), range(4)):
            for g in [(0, 1), (4, 3), (2, 2)]:
                rec.run("doc-%d-%s-%s" % (conn, s, g), agg, ys, xs,
                        (ys[s[0]], xs[s[1]]), (ys[g[0]], xs[g[1]]), [0], conn,
                        dims=('lat', 'lon'))
    # all cells blocked + snapping (nothing to snap to)
    blk = np.full((3, 4), np.nan)
    for ss, sg in itertools.product([False, True], repeat=2):
        rec.run("blocked-%d%d" % (ss, sg), blk, np.arange(3.), np.arange(4.),
                (0., 0.), (2., 3.), [], 8, ss, sg)
    zer = np.zeros((3, 4))
    for ss, sg in itertools.product([False, True], repeat=2):
        rec.run("allbar-%d%d" % (ss, sg), zer, np.arange(3.), np.arange(4.),
                (0., 0.), (2., 3.), [0], 4, ss, sg)
    # snapping to the opposite corner
    far = np.zeros((6, 9))
    far[5, 8] = 1
    rec.run("far", far, np.arange(6.), np.arange(9.), (0., 0.), (5., 8.),
            [0], 8, True, True)
    # a maze on a larger grid
    rng = np.random.RandomState(7)
    maze = (rng.rand(25, 31) > 0.3).astype(np.float32)
    maze[0, 0] = maze[24, 30] = 1
    for conn in (4, 8):
        rec.run("maze-%d" % conn, maze, np.arange(25.)[::-1] * 0.5,
                100 + np.arange(31.) * 0.5, (12.0, 100.0), (0.0, 115.0), [0],
                conn)
    # errors: outside the raster, wrong dims, wrong connectivity, 3D
    ok = np.ones((3, 3))
    c = np.arange(3.)
    rec.run("err-out-start", ok, c, c, (7., 0.), (1., 1.), [], 8, oracle=False)
    rec.run("err-out-goal", ok, c, c, (0., 0.), (1., 9.), [], 8, oracle=False)
    rec.run("err-conn", ok, c, c, (0., 0.), (1., 1.), [], 6, oracle=False)
    try:
        a_star_search(xr.DataArray(ok, dims=('a', 'b')), (0, 0), (1, 1))
        rec.h.update(b"noerr")
    except Exception as e:
        rec.h.update(("EXC %s %s|" % (type(e).__name__, e)).encode())
    try:
        a_star_search(xr.DataArray(np.ones((2, 2, 2)), dims=('z', 'y', 'x')),
                      (0, 0), (1, 1))
        rec.h.update(b"noerr")
    except Exception as e:
        rec.h.update(("EXC %s %s|" % (type(e).__name__, e)).encode())


def main():
    rec = Recorder()
    special(rec)
    randomised(rec)
    exhaustive(rec)
    digest = rec.h.hexdigest()
    print("xrspatial from", xrspatial.__file__)
    print("cases:", rec.n, "digest:", digest)
    if "--record" in sys.argv:
        return 0
    status = 0
    if rec.errors:
        status = 1
        print("%d ORACLE FAILURES" % len(rec.errors))
        for e in rec.errors[:20]:
            print("  ", e)
    if rec.n != EXPECTED_NCASES or digest != EXPECTED_DIGEST:
        status = 1
        print("DIGEST MISMATCH: expected", EXPECTED_NCASES, EXPECTED_DIGEST)
    print("OK" if status == 0 else "FAILED")
    return status


if __name__ == "__main__":
    sys.exit(main())
