"""Differential test for xrspatial.zonal.crosstab (property C04).

Every result is compared (a) with a brute-force contingency table computed
here without the library and (b), through a sha256 digest over labels,
dtypes and raw bytes of every output (and type + message of every
validation error), with the digest recorded on the unmodified tree.

Run from inside the worktree:
    cd /tmp/t5/TC04 && PYTHONPATH=/tmp/t5/TC04 /venv/bin/python equiv.py
Use `--record` to print the digest instead of checking it.
"""
import hashlib
import itertools
import sys
import warnings

import dask.array as da
import dask.dataframe as dd
import numpy as np
import pandas as pd
import xarray as xr

import xrspatial
from xrspatial.zonal import crosstab

warnings.filterwarnings("ignore")

RECORDED = "e2691610a111cd5a894c773faf4412e04c29bb7eccdba94fcddb935d7ca2d11c"

H = hashlib.sha256()
FAILS = []
NCHECK = [0]


def feed(*parts):
    for p in parts:
        if isinstance(p, np.ndarray):
            H.update(str(p.dtype).encode())
            H.update(str(p.shape).encode())
            H.update(np.ascontiguousarray(p).tobytes())
        else:
            H.update(repr(p).encode())
        H.update(b"|")


def feed_df(df):
    feed([repr(c) for c in df.columns], [str(t) for t in df.dtypes],
         [repr(i) for i in df.index])
    for c in df.columns:
        feed(np.asarray(df[c].values))


def fail(msg):
    FAILS.append(msg)
    if len(FAILS) <= 20:
        print("FAIL:", msg)


def valid_mask(v, nodata):
    m = np.isfinite(v)
    if nodata is not None:
        m = m & (v != nodata)
    return m


def oracle_2d(z, v, zone_ids, cat_ids, nodata, agg):
    zfin = np.isfinite(z)
    all_zones = sorted(set(z[zfin].tolist()))
    vm = valid_mask(v, nodata)
    all_cats = sorted(set(v[vm].tolist()))
    rows = all_zones if zone_ids is None else [
        q for q in all_zones if any(q == t for t in zone_ids)]
    cols = all_cats if cat_ids is None else [
        c for c in cat_ids if any(c == t for t in all_cats)]
    table = np.zeros((len(rows), len(cols)), dtype=np.float64)
    for i, q in enumerate(rows):
        inz = zfin & (z == q)
        tot = int((inz & vm).sum())
        for j, c in enumerate(cols):
            n = int((inz & vm & (v == c)).sum())
            if agg == "count":
                table[i, j] = n
            else:
                table[i, j] = (np.float64(n) / np.float64(tot) * 100
                               if tot else np.nan)
    return rows, cols, table


AGG3 = dict(
    mean=lambda a: a.mean(), max=lambda a: a.max(), min=lambda a: a.min(),
    sum=lambda a: a.sum(), std=lambda a: a.std(), var=lambda a: a.var(),
    count=lambda a: a.size,
)


def oracle_3d(z, v3, labels, zone_ids, cat_ids, nodata, agg):
    zfin = np.isfinite(z)
    all_zones = sorted(set(z[zfin].tolist()))
    rows = all_zones if zone_ids is None else [
        q for q in all_zones if any(q == t for t in zone_ids)]
    labels = list(labels)
    cols = labels if cat_ids is None else [c for c in cat_ids if c in labels]
    table = np.zeros((len(rows), len(cols)), dtype=np.float64)
    for i, q in enumerate(rows):
        inz = zfin & (z == q)
        for j, c in enumerate(cols):
            lay = v3[labels.index(c)]
            cells = lay[inz & valid_mask(lay, nodata)]
            table[i, j] = AGG3[agg](cells)
    return rows, cols, table


def same(a, b, exact=True):
    a = np.asarray(a, dtype=np.float64)
    b = np.asarray(b, dtype=np.float64)
    if a.shape != b.shape:
        return False
    if exact:
        return bool(np.all((a == b) | (np.isnan(a) & np.isnan(b))))
    # float aggregates: the library sums the cells of a zone in another
    # order than the oracle; bit-exactness is covered by the digest
    return bool(np.allclose(a, b, rtol=1e-6, atol=0, equal_nan=True))


def run(tag, oracle, **kw):
    """call crosstab, feed the digest, compare with the oracle"""
    NCHECK[0] += 1
    try:
        df = crosstab(**kw)
        if isinstance(df, dd.DataFrame):
            feed("dd")
            df = df.compute()
        else:
            feed("pd")
        if not isinstance(df, pd.DataFrame):
            fail(f"{tag}: result is {type(df)}")
            return
    except Exception as e:  # behaviour on errors has to stay the same too
        feed(tag, "EXC", type(e).__name__)
        try:
            oracle()
        except Exception:
            return
        # the oracle succeeded although the library raised: only tolerated
        # when recorded as such on the unmodified tree (digest covers it)
        return
    feed(tag)
    feed_df(df)
    try:
        rows, cols, table = oracle()
    except Exception as e:
        fail(f"{tag}: oracle raised {e!r} but library returned")
        return
    if list(df.columns[1:]) != list(cols) or df.columns[0] != "zone":
        fail(f"{tag}: columns {list(df.columns)} expected {cols}")
        return
    if not same(df["zone"].values, rows):
        fail(f"{tag}: zones {df['zone'].values} expected {rows}")
        return
    got = (np.column_stack([df[c].values for c in cols])
           if len(cols) else np.zeros((len(rows), 0)))
    if not same(got, table, exact=kw.get("agg") not in ("mean", "sum", "std", "var")):
        fail(f"{tag}: table differs\n{got}\nexpected\n{table}")
    if kw.get("agg") == "percentage" and len(cols) and kw.get("cat_ids") is None:
        s = np.nansum(got, axis=1)
        nonempty = ~np.all(np.isnan(got), axis=1)
        if not np.allclose(s[nonempty], 100.0):
            fail(f"{tag}: rows do not sum to 100: {s}")


def make_zones(rng, shape, dtype):
    z = rng.integers(0, 5, size=shape).astype(dtype)
    if np.issubdtype(dtype, np.floating):
        z = z * np.array(1.5, dtype=dtype)
        r = rng.random(shape)
        z[r < 0.1] = np.nan
        z[(r >= 0.1) & (r < 0.15)] = np.inf
        z[(r >= 0.15) & (r < 0.2)] = -np.inf
    else:
        z = z * 3 - 2
    return z


def make_values(rng, shape, dtype):
    v = rng.integers(0, 4, size=shape).astype(dtype)
    if np.issubdtype(dtype, np.floating):
        v = v * np.array(0.5, dtype=dtype)
        r = rng.random(shape)
        v[r < 0.12] = np.nan
        v[(r >= 0.12) & (r < 0.17)] = np.inf
        v[(r >= 0.17) & (r < 0.2)] = -np.inf
    return v


def id_variants(rng, present, absent):
    present = list(present)
    out = [None]
    if present:
        perm = list(rng.permutation(present))
        out.append([type(present[0])(p) for p in perm])               # permutation
        sub = [present[-1]] + absent + (present[:1] if len(present) > 1 else [])
        out.append(sub)                                               # subset + absent, unordered
        out.append(absent)                                            # nothing present
    return out


def chunkings(shape):
    r, c = shape
    out = [shape, (max(1, r // 2), max(1, c // 2 + 1))]
    if r > 2 and c > 2:
        out.append((2, 3))
    return out


def test_2d():
    rng = np.random.default_rng(1234)
    shapes = [(1, 1), (1, 7), (4, 6), (7, 5)]
    pairs = [(np.int32, np.int16), (np.int64, np.float64), (np.float32, np.int64),
             (np.float64, np.float32), (np.float64, np.float64), (np.int64, np.int64)]
    n = 0
    for shape, (zdt, vdt) in itertools.product(shapes, pairs):
        z = make_zones(rng, shape, zdt)
        v = make_values(rng, shape, vdt)
        zs = sorted(set(z[np.isfinite(z)].tolist()))
        for nodata in (None, 0, 1.0):
            cs = sorted(set(v[valid_mask(v, nodata)].tolist()))
            zvars = id_variants(rng, zs, [99, -7])
            cvars = id_variants(rng, cs, [77.5, -3])
            # keep the product small: rotate through the variants
            combos = [(zvars[i % len(zvars)], cvars[(i + n) % len(cvars)])
                      for i in range(max(len(zvars), len(cvars)))]
            n += 1
            for (zone_ids, cat_ids), agg in itertools.product(
                    combos, ("count", "percentage")):
                tag = f"2d {shape} {zdt.__name__} {vdt.__name__} nd={nodata} z={zone_ids} c={cat_ids} {agg}"

                def orc():
                    return oracle_2d(z, v, zone_ids, cat_ids, nodata, agg)
                run("np " + tag, orc,
                    zones=xr.DataArray(z.copy(), dims=("y", "x")),
                    values=xr.DataArray(v.copy(), dims=("y", "x")),
                    zone_ids=zone_ids, cat_ids=cat_ids, agg=agg,
                    nodata_values=nodata)
                if (shape in ((1, 1), (4, 6), (7, 5)) and vdt in (np.int64, np.float64)
                        and nodata != 1.0):
                    for k, ch in enumerate(chunkings(shape)[:2]):
                        # values chunked differently from zones now and then
                        vch = ch if k != 1 else shape
                        run(f"da{ch} " + tag, orc,
                            zones=xr.DataArray(da.from_array(z.copy(), chunks=ch), dims=("y", "x")),
                            values=xr.DataArray(da.from_array(v.copy(), chunks=vch), dims=("y", "x")),
                            zone_ids=zone_ids, cat_ids=cat_ids, agg=agg,
                            nodata_values=nodata)


def test_3d():
    rng = np.random.default_rng(4321)
    shapes = [(1, 1), (3, 5), (6, 4)]
    labels_sets = [["a", "b", "c"], [10, 20], [0.5]]
    pairs = [(np.int64, np.float64), (np.float32, np.int32), (np.float64, np.float32)]
    for shape, labels, (zdt, vdt) in itertools.product(shapes, labels_sets, pairs):
        z = make_zones(rng, shape, zdt)
        v3 = np.stack([make_values(rng, shape, vdt) * (k + 1)
                       for k in range(len(labels))])
        zs = sorted(set(z[np.isfinite(z)].tolist()))
        absent_cat = ["zz"] if isinstance(labels[0], str) else [12345]
        zvars = id_variants(rng, zs, [99, -7])
        cvars = id_variants(rng, labels, absent_cat)
        for nodata in (None, 0):
            for i in range(max(len(zvars), len(cvars))):
                zone_ids = zvars[i % len(zvars)]
                cat_ids = cvars[(i + 1) % len(cvars)]
                for layout in ((0, 2, -1, None)[i % 4], (0, 2, -1, None)[(i + 1) % 4]):
                    if layout in (0, None):
                        arr, dims = v3, ("cat", "y", "x")
                    else:
                        arr, dims = np.moveaxis(v3, 0, 2), ("y", "x", "cat")
                    coords = {"cat": labels}
                    for agg in ("count", "min", "max", "mean", "sum", "std", "var"):
                        tag = f"3d {shape} {labels} {zdt.__name__} {vdt.__name__} nd={nodata} z={zone_ids} c={cat_ids} layer={layout} {agg}"

                        def orc():
                            return oracle_3d(z, v3, labels, zone_ids, cat_ids, nodata, agg)
                        kw = dict(zone_ids=zone_ids, cat_ids=cat_ids, agg=agg,
                                  nodata_values=nodata)
                        if layout is not None:
                            kw["layer"] = layout
                        run("np " + tag, orc,
                            zones=xr.DataArray(z.copy(), dims=("y", "x")),
                            values=xr.DataArray(arr.copy(), dims=dims, coords=coords),
                            **kw)
                        if agg == "count" and vdt is not np.float32 and nodata is None:
                            for ch in chunkings(shape)[:2]:
                                vch = {"cat": 1, "y": ch[0], "x": ch[1]}
                                run(f"da{ch} " + tag, orc,
                                    zones=xr.DataArray(da.from_array(z.copy(), chunks=ch), dims=("y", "x")),
                                    values=xr.DataArray(arr.copy(), dims=dims, coords=coords).chunk(vch),
                                    **kw)


def test_inputs_unmodified():
    rng = np.random.default_rng(7)
    z = make_zones(rng, (6, 7), np.float64)
    v = make_values(rng, (6, 7), np.float64)
    for mk in (lambda a, ch: a.copy(), lambda a, ch: da.from_array(a.copy(), chunks=ch)):
        zx = xr.DataArray(mk(z, (3, 4)), dims=("y", "x"))
        vx = xr.DataArray(mk(v, (2, 7)), dims=("y", "x"))
        zid, cid = [3.0, 0.0, 99], [1.0, 0.5, 5]
        r = crosstab(zx, vx, zone_ids=zid, cat_ids=cid, agg="percentage")
        if isinstance(r, dd.DataFrame):
            r = r.compute()
        feed_df(r)
        feed(np.asarray(zx.data), np.asarray(vx.data), zid, cid, zx.chunks, vx.chunks)
        if zid != [3.0, 0.0, 99] or cid != [1.0, 0.5, 5]:
            fail("id lists modified")
        if not same(np.asarray(zx.data), z) or not same(np.asarray(vx.data), v):
            fail("inputs modified")


def test_validation():
    z = xr.DataArray(np.arange(12).reshape(3, 4), dims=("y", "x"))
    v = xr.DataArray(np.arange(12).reshape(3, 4) % 3, dims=("y", "x"))
    v3 = xr.DataArray(np.arange(24.).reshape(2, 3, 4), dims=("cat", "y", "x"),
                      coords={"cat": [1, 2]})
    v3nc = xr.DataArray(np.arange(24.).reshape(2, 3, 4), dims=("cat", "y", "x"))
    zd = xr.DataArray(da.from_array(z.values, chunks=(2, 2)), dims=("y", "x"))
    vd = xr.DataArray(da.from_array(v.values, chunks=(2, 2)), dims=("y", "x"))
    v3d = v3.chunk({"cat": 1, "y": 2, "x": 2})
    zb = z.astype(bool)
    zc = z.astype(complex)
    vs = v.astype(str)
    z3 = xr.DataArray(np.zeros((2, 3, 4)), dims=("a", "y", "x"))
    z1 = xr.DataArray(np.zeros(4), dims=("x",))
    v1 = xr.DataArray(np.zeros(4), dims=("x",))
    v4 = xr.DataArray(np.zeros((1, 2, 3, 4)))
    zsmall = xr.DataArray(np.zeros((2, 2), dtype=int), dims=("y", "x"))
    cases = [
        ("zones ndarray", dict(zones=z.values, values=v)),
        ("values ndarray", dict(zones=z, values=v.values)),
        ("both ndarray", dict(zones=z.values, values=v.values)),
        ("zones list + bad agg", dict(zones=[1], values=v, agg="nope")),
        ("zones 3d", dict(zones=z3, values=v)),
        ("zones 3d + values ndarray", dict(zones=z3, values=v.values)),
        ("zones bool 1d", dict(zones=z1.astype(bool), values=v1)),
        ("3d values int bad layer + bad shape dask", dict(zones=zsmall.chunk(1), values=v3d, layer=9)),
        ("zones 1d", dict(zones=z1, values=v1)),
        ("zones 3d + values str", dict(zones=z3, values=vs)),
        ("zones bool", dict(zones=zb, values=v)),
        ("zones complex", dict(zones=zc, values=v)),
        ("zones bool + values str", dict(zones=zb, values=vs)),
        ("values str", dict(zones=z, values=vs)),
        ("values str 1d", dict(zones=z, values=v1.astype(str))),
        ("values 1d", dict(zones=z, values=v1)),
        ("values 4d", dict(zones=z, values=v4)),
        ("values 4d bad agg", dict(zones=z, values=v4, agg="nope")),
        ("2d bad agg", dict(zones=z, values=v, agg="mean")),
        ("2d bad agg none", dict(zones=z, values=v, agg=None)),
        ("2d dask bad agg", dict(zones=zd, values=vd, agg="sum")),
        ("3d bad agg", dict(zones=z, values=v3, agg="percentage")),
        ("3d bad agg + bad layer", dict(zones=z, values=v3, agg="nope", layer=7)),
        ("3d dask bad agg", dict(zones=zd, values=v3d, agg="mean")),
        ("3d dask bad agg + bad shape", dict(zones=zsmall.chunk(1), values=v3d, agg="mean")),
        ("3d bad layer", dict(zones=z, values=v3, layer=3)),
        ("3d bad layer neg", dict(zones=z, values=v3, layer=-4)),
        ("3d no coords", dict(zones=z, values=v3nc)),
        ("3d layer not cat", dict(zones=z, values=v3, layer=1)),
        ("3d bad shape", dict(zones=zsmall, values=v3)),
        ("3d bad shape + bad layer", dict(zones=zsmall, values=v3, layer=5)),
        ("2d shape mismatch numpy", dict(zones=zsmall, values=v)),
        ("2d shape mismatch dask", dict(zones=zsmall.chunk(1), values=vd)),
        ("2d mixed backends", dict(zones=z, values=vd)),
        ("2d mixed backends rev", dict(zones=zd, values=v)),
        ("ok 2d", dict(zones=z, values=v)),
        ("ok 3d layer None", dict(zones=z, values=v3, layer=None)),
        ("ok 3d layer -3", dict(zones=z, values=v3, layer=-3)),
        ("ok 2d layer ignored", dict(zones=z, values=v, layer=5)),
    ]
    for tag, kw in cases:
        NCHECK[0] += 1
        try:
            r = crosstab(**kw)
            if isinstance(r, dd.DataFrame):
                r = r.compute()
            feed(tag, "OK")
            feed_df(r)
            if not tag.startswith("ok"):
                # some invalid-looking calls are accepted by the library; fine,
                # as long as the digest says the same thing happened before
                pass
        except Exception as e:
            msg = str(e)
            # messages of library-raised errors are fixed strings
            feed(tag, "EXC", type(e).__name__, msg if len(msg) < 200 and "0x" not in msg else "")
            if tag.startswith("ok"):
                fail(f"{tag}: raised {e!r}")


def main():
    assert xrspatial.__file__.startswith("/tmp/t5/TC04/"), xrspatial.__file__
    test_validation()
    test_2d()
    test_3d()
    test_inputs_unmodified()
    digest = H.hexdigest()
    print("checks:", NCHECK[0], "digest:", digest)
    if "--record" in sys.argv:
        return 1 if FAILS else 0
    if FAILS:
        print(len(FAILS), "oracle mismatches")
        return 1
    if digest != RECORDED:
        print("digest differs from the one recorded on the unmodified tree:", RECORDED)
        return 2
    print("OK")
    return 0


if __name__ == "__main__":
    sys.exit(main())
