"""Differential test for property C13 (spectral indices / true_color).

Runs the public functions of xrspatial.multispectral on a deterministic grid of
inputs (several dtypes, NaN / inf / zeros / equal bands, odd shapes, numpy and
dask with odd chunking, parameter sweeps, error paths) and compares every
result (values with NaN == NaN, dtype, shape, name, dims, laziness) with the
results recorded from the unmodified tree (embedded below as one SHA-256 digest
per backend / function / call signature; error messages verbatim).  In addition the
index results are checked against the band formulas evaluated independently
with numpy.  Exit status 0 iff everything is identical.

usage: equiv.py            compare against the embedded record
       equiv.py --record F write the record (json) to F   (unmodified tree)
"""
import hashlib
import json
import sys
import warnings

import dask.array as da
import numpy as np
import xarray as xr

import xrspatial
from xrspatial import multispectral as ms

FUNCS = ['nbr', 'nbr2', 'ndvi', 'ndmi']
RECORD = r"""{
"#entries": "8476",
"H dask|nbr2|0": "7f61ec538e0e9edde2e8",
"H dask|nbr2|1": "e453606af6ddd71bbfd2",
"H dask|nbr|0": "09792f26229a46a273d4",
"H dask|nbr|1": "89204adfe212d7dba5a8",
"H dask|ndmi|0": "a465ef26c75e8da6803d",
"H dask|ndmi|1": "2b5017bbca97fc9b55c1",
"H dask|ndvi|0": "d3f52038aefbccfe3c45",
"H dask|ndvi|1": "9361a08e9d593160b929",
"H numpy|nbr2|0": "61b749ab4902130af159",
"H numpy|nbr2|1": "f20e9ffb268e73adae70",
"H numpy|nbr|0": "17b878bb74d4fbc0b056",
"H numpy|nbr|1": "75c2cf0b03719a7e3fdf",
"H numpy|ndmi|0": "2842165812b8b3eb77d0",
"H numpy|ndmi|1": "4ef44dd5cce6cada68b9",
"H numpy|ndvi|0": "0570b37b927a612c3a3b",
"H numpy|ndvi|1": "2ad5d7b450a81f9fb28a",
"err|dask|nbr-shape": "ValueError :: input arrays must have equal shapes",
"err|dask|nbr2-shape": "ValueError :: input arrays must have equal shapes",
"err|dask|ndmi-shape": "ValueError :: input arrays must have equal shapes",
"err|dask|ndvi-badtype": "noerror :: DataArray",
"err|dask|ndvi-shape": "ValueError :: input arrays must have equal shapes",
"err|dask|ndvi-type": "noerror :: DataArray",
"err|numpy|nbr-shape": "ValueError :: input arrays must have equal shapes",
"err|numpy|nbr2-shape": "ValueError :: input arrays must have equal shapes",
"err|numpy|ndmi-shape": "ValueError :: input arrays must have equal shapes",
"err|numpy|ndvi-badtype": "noerror :: DataArray",
"err|numpy|ndvi-shape": "ValueError :: input arrays must have equal shapes",
"err|numpy|ndvi-type": "ValueError :: input arrays must have same type"
}"""

DTYPES = [np.uint8, np.int16, np.uint16, np.int32, np.float32, np.float64]
SHAPES = [(1, 1), (3, 5), (7, 4), (1, 6), (5, 1)]


def make_band(rs, shape, dtype, kind):
    if np.issubdtype(dtype, np.integer):
        hi = 200 if dtype == np.uint8 else 3000
        a = rs.randint(0, hi, size=shape).astype(dtype)
        if kind == 1:
            a.flat[::3] = 0
        return a
    a = (rs.rand(*shape) * 3000).astype(dtype)
    if kind == 1:
        a.flat[::3] = 0
        a.flat[1::4] = np.nan
    elif kind == 2:
        a.flat[::5] = np.inf
        a.flat[2::7] = -a.flat[2::7]
        a.flat[3::6] = np.nan
    return a


def cases():
    """yield (tag, list of 3 numpy bands)"""
    rs = np.random.RandomState(1234)
    for dt in DTYPES:
        for si, shape in enumerate(SHAPES):
            for kind in (0, 1, 2):
                if kind == 2 and np.issubdtype(dt, np.integer):
                    continue
                b1 = make_band(rs, shape, dt, kind)
                b2 = make_band(rs, shape, dt, kind)
                b3 = make_band(rs, shape, dt, kind)
                yield '%s-%d-%d' % (np.dtype(dt).name, si, kind), [b1, b2, b3]
                if kind == 1:
                    # equal bands / all zero bands
                    yield '%s-%d-eq' % (np.dtype(dt).name, si), [b1, b1.copy(), b1.copy()]
                    z = np.zeros(shape, dtype=dt)
                    yield '%s-%d-zero' % (np.dtype(dt).name, si), [z, z.copy(), z.copy()]
    # mixed dtypes
    b1 = make_band(rs, (4, 6), np.uint16, 1)
    b2 = make_band(rs, (4, 6), np.float64, 1)
    b3 = make_band(rs, (4, 6), np.int32, 0)
    yield 'mixed', [b1, b2, b3]
    # all NaN
    n = np.full((3, 4), np.nan)
    yield 'allnan', [n, n.copy(), n.copy()]


def wrap(arr, backend, chunks=(2, 3)):
    h, w = arr.shape
    data = arr.copy()
    if backend == 'dask':
        data = da.from_array(data, chunks=chunks)
    return xr.DataArray(data, dims=['y', 'x'],
                        coords={'y': np.arange(h)[::-1] * 1.5, 'x': np.arange(w) * 2.0},
                        attrs={'res': 1, 'crs': 'x'})


CALLS = {
    'arvi': [lambda b: (ms.arvi(b[0], b[1], b[2]),)],
    'evi': [lambda b: (ms.evi(b[0], b[1], b[2]),),
            lambda b: (ms.evi(b[0], b[1], b[2], c1=0, c2=0.5, soil_factor=-1.0, gain=0),),
            lambda b: (ms.evi(b[0], b[1], b[2], 3, 2.25, 0, 1, 'e'),),
            lambda b: (ms.evi(b[0], b[1], b[2], soil_factor=0.3, gain=7.5),)],
    'gci': [lambda b: (ms.gci(b[0], b[1]),), lambda b: (ms.gci(b[2], b[0], name='g'),)],
    'nbr': [lambda b: (ms.nbr(b[0], b[1]),), lambda b: (ms.nbr(b[1], b[0], name='q'),)],
    'nbr2': [lambda b: (ms.nbr2(b[0], b[1]),), lambda b: (ms.nbr2(b[2], b[1], 'q2'),)],
    'ndvi': [lambda b: (ms.ndvi(b[0], b[1]),), lambda b: (ms.ndvi(b[1], b[2], name='v'),)],
    'ndmi': [lambda b: (ms.ndmi(b[0], b[1]),), lambda b: (ms.ndmi(b[2], b[0], name='m'),)],
    'savi': [lambda b: (ms.savi(b[0], b[1]),),
             lambda b: (ms.savi(b[0], b[1], soil_factor=-1.0),),
             lambda b: (ms.savi(b[0], b[1], soil_factor=-0.5),),
             lambda b: (ms.savi(b[0], b[1], 0),),
             lambda b: (ms.savi(b[0], b[1], 0.3, 's'),),
             lambda b: (ms.savi(b[0], b[1], soil_factor=1),)],
    'sipi': [lambda b: (ms.sipi(b[0], b[1], b[2]),)],
    'ebbi': [lambda b: (ms.ebbi(b[0], b[1], b[2]),)],
    'true_color': [lambda b: (ms.true_color(b[0], b[1], b[2]),),
                   lambda b: (ms.true_color(b[0], b[1], b[2], nodata=100, c=5.0, th=0.3,
                                            name='tc'),),
                   lambda b: (ms.true_color(b[2], b[0], b[1], 0, 20, 0.0),)],
}

ERROR_CALLS = [
    ('evi-c1', lambda b: ms.evi(b[0], b[1], b[2], c1='a')),
    ('evi-c2', lambda b: ms.evi(b[0], b[1], b[2], c2=None)),
    ('evi-c1-np', lambda b: ms.evi(b[0], b[1], b[2], c1=np.float32(2))),
    ('evi-c1-bool', lambda b: ms.evi(b[0], b[1], b[2], c1=True).data),
    ('evi-sf-hi', lambda b: ms.evi(b[0], b[1], b[2], soil_factor=1.5)),
    ('evi-sf-lo', lambda b: ms.evi(b[0], b[1], b[2], soil_factor=-1.5)),
    ('evi-sf-nan', lambda b: ms.evi(b[0], b[1], b[2], soil_factor=float('nan')).data),
    ('evi-gain', lambda b: ms.evi(b[0], b[1], b[2], gain=-1)),
    ('evi-shape', lambda b: ms.evi(b[0], b[1][:1], b[2])),
    ('savi-sf-hi', lambda b: ms.savi(b[0], b[1], soil_factor=1.01)),
    ('savi-sf-lo', lambda b: ms.savi(b[0], b[1], soil_factor=-2)),
    ('savi-sf-nan', lambda b: ms.savi(b[0], b[1], soil_factor=float('nan'))),
    ('ndvi-shape', lambda b: ms.ndvi(b[0], b[1][:, :2])),
    ('nbr-shape', lambda b: ms.nbr(b[0][:2], b[1])),
    ('nbr2-shape', lambda b: ms.nbr2(b[0][:2], b[1])),
    ('ndmi-shape', lambda b: ms.ndmi(b[0], b[1][:1])),
    ('gci-shape', lambda b: ms.gci(b[0], b[1][:1])),
    ('arvi-shape', lambda b: ms.arvi(b[0], b[1], b[2][:1])),
    ('sipi-shape', lambda b: ms.sipi(b[0], b[1][:1], b[2])),
    ('ebbi-shape', lambda b: ms.ebbi(b[0], b[1][:1], b[2])),
    ('ndvi-type', lambda b: ms.ndvi(b[0], b[1].copy(data=da.from_array(np.asarray(b[1].data),
                                                                       chunks=2)))),
    ('ndvi-badtype', lambda b: ms.ndvi(b[0].copy(data=np.asarray(b[0].data).tolist()),
                                       b[1].copy(data=np.asarray(b[1].data).tolist()))),
    ('tc-badtype', lambda b: ms.true_color(*[q.copy(data=np.asarray(q.data).tolist())
                                             for q in b])),
]


def canon(a):
    a = np.array(a)
    if a.dtype.kind == 'f':
        a = a.copy()
        a[np.isnan(a)] = np.nan      # one NaN bit pattern
    return a


def describe(res, backend):
    lazy = isinstance(res.data, da.Array)
    meta = [type(res).__name__, str(res.dtype), str(res.shape), str(res.name),
            str(tuple(res.dims)), str(lazy), str(sorted(res.attrs.items())),
            str(sorted(res.coords))]
    if lazy:
        meta.append(str(res.data.chunks))
    vals = canon(res.data.compute() if lazy else res.data)
    cvals = [canon(np.asarray(res.coords[k].values, dtype='f8')) for k in sorted(res.coords)]
    return meta, vals, cvals


def run_all():
    out = {}
    with warnings.catch_warnings():
        warnings.simplefilter('ignore')
        for tag, bands in cases():
            for backend in ('numpy', 'dask'):
                for fname in FUNCS:
                    for ci, call in enumerate(CALLS[fname]):
                        aggs = [wrap(x, backend) for x in bands]
                        key = '%s|%s|%s|%d' % (tag, backend, fname, ci)
                        try:
                            res = call(aggs)[0]
                            meta, vals, cvals = describe(res, backend)
                        except Exception as e:   # recorded as well
                            out[key + '|exc'] = np.array([type(e).__name__, str(e)])
                            continue
                        out[key + '|meta'] = np.array(meta)
                        out[key + '|vals'] = vals
                        for i, c in enumerate(cvals):
                            out[key + '|coord%d' % i] = c
                        # inputs must not be modified
                        for i, (a, x) in enumerate(zip(aggs, bands)):
                            cur = np.asarray(a.data)
                            assert cur.dtype == x.dtype
                            assert np.array_equal(cur, x, equal_nan=cur.dtype.kind == 'f'), key
        # mismatched dask chunks (validate_arrays rechunks)
        rs = np.random.RandomState(7)
        bands = [make_band(rs, (6, 7), np.float64, 1) for _ in range(3)]
        for fname in FUNCS:
            for ci, call in enumerate(CALLS[fname]):
                aggs = [wrap(bands[0], 'dask', (2, 3)), wrap(bands[1], 'dask', (4, 4)),
                        wrap(bands[2], 'dask', (6, 1))]
                key = 'rechunk|dask|%s|%d' % (fname, ci)
                try:
                    res = call(aggs)[0]
                    meta, vals, cvals = describe(res, 'dask')
                    meta.append(str([a.data.chunks for a in aggs]))
                except Exception as e:
                    out[key + '|exc'] = np.array([type(e).__name__, str(e)])
                    continue
                out[key + '|meta'] = np.array(meta)
                out[key + '|vals'] = vals
        # error paths
        for backend in ('numpy', 'dask'):
            for etag, call in ERROR_CALLS:
                if not any(etag.startswith(f.replace('true_color', 'tc') + '-') for f in FUNCS):
                    continue
                aggs = [wrap(x, backend) for x in bands]
                key = 'err|%s|%s' % (backend, etag)
                try:
                    r = call(aggs)
                    out[key] = np.array(['noerror', type(r).__name__])
                except Exception as e:
                    out[key] = np.array([type(e).__name__, str(e)])
    return out


def f32(x):
    return np.asarray(x).astype('f4')


def nd(a, b):
    with np.errstate(all='ignore'):
        a, b = f32(a), f32(b)
        den = a + b
        r = (a - b) / den
        r[den == 0] = np.nan
        return r


def formula_check():
    """independent numpy evaluation of the band formulas (float32 bands)."""
    bad = []
    with warnings.catch_warnings(), np.errstate(all='ignore'):
        warnings.simplefilter('ignore')
        for tag, bands in cases():
            for backend in ('numpy', 'dask'):
                A = [wrap(x, backend) for x in bands]
                a, b, c = [f32(x) for x in bands]
                exp = {}
                if 'ndvi' in FUNCS:
                    exp['ndvi'] = (ms.ndvi(A[0], A[1]), nd(a, b))
                if 'nbr' in FUNCS:
                    exp['nbr'] = (ms.nbr(A[0], A[1]), nd(a, b))
                if 'nbr2' in FUNCS:
                    exp['nbr2'] = (ms.nbr2(A[0], A[1]), nd(a, b))
                if 'ndmi' in FUNCS:
                    exp['ndmi'] = (ms.ndmi(A[0], A[1]), nd(a, b))
                if 'gci' in FUNCS:
                    r = a / b - np.float32(1)
                    r[b == 0] = np.nan
                    exp['gci'] = (ms.gci(A[0], A[1]), r)
                if 'sipi' in FUNCS:
                    r = (a - c) / (a - b)
                    r[(a - b) == 0] = np.nan
                    exp['sipi'] = (ms.sipi(A[0], A[1], A[2]), r)
                if 'savi' in FUNCS:
                    for sf in (-1.0, -0.5, 0.3, 1.0):
                        den = ((a + b).astype('f8') + sf) * (1.0 + sf)
                        r = ((a - b).astype('f8') / den).astype('f4')
                        r[den == 0] = np.nan
                        exp['savi%s' % sf] = (ms.savi(A[0], A[1], soil_factor=sf), r)
                if 'arvi' in FUNCS:
                    num = (a.astype('f8') - 2.0 * b.astype('f8')) + c.astype('f8')
                    den = (a.astype('f8') + 2.0 * b.astype('f8')) + c.astype('f8')
                    r = (num / den).astype('f4')
                    r[den == 0] = np.nan
                    exp['arvi'] = (ms.arvi(A[0], A[1], A[2]), r)
                for k, (got, want) in exp.items():
                    g = np.asarray(got.data)
                    if g.dtype != np.float32 or not np.array_equal(canon(g), canon(want),
                                                                   equal_nan=True):
                        bad.append('formula %s %s %s' % (k, tag, backend))
                    if np.isinf(g[np.isfinite(a) & np.isfinite(b) & np.isfinite(c)]).any() \
                            and k.startswith(('nd', 'nb')):
                        bad.append('inf %s %s %s' % (k, tag, backend))
                if 'true_color' in FUNCS:
                    for nodata in (1, 100):
                        t = ms.true_color(A[0], A[1], A[2], nodata=nodata)
                        g = np.asarray(t.data)
                        r0 = np.asarray(bands[0])
                        alpha = np.where(np.isnan(r0.astype('f8')) | (r0 <= nodata), 0, 255)
                        if g.dtype != np.uint8 or g.shape != r0.shape + (4,) or \
                                not np.array_equal(g[..., 3], alpha):
                            bad.append('alpha %s %s' % (tag, backend))
    return bad


def digest(got):
    """group the entries per backend|function|call and hash them; error texts kept verbatim"""
    hs, txt = {}, {}
    for k in sorted(got):
        v = got[k]
        parts = k.split('|')
        if parts[0] == 'err' or parts[-1] == 'exc':
            txt[k] = ' :: '.join(v.tolist())
            continue
        g = '|'.join(parts[1:4])
        h = hs.setdefault(g, hashlib.sha256())
        h.update(k.encode())
        if v.dtype.kind in 'US':
            h.update('\n'.join(v.tolist()).encode())
        else:
            h.update(('%s%s' % (v.dtype, v.shape)).encode())
            h.update(np.ascontiguousarray(v).tobytes())
    d = dict(('H ' + g, h.hexdigest()[:20]) for g, h in hs.items())
    d.update(txt)
    d['#entries'] = str(len(got))
    return d


def main():
    assert xrspatial.__file__.startswith('/tmp/t5/TC13/'), xrspatial.__file__
    got = digest(run_all())
    if len(sys.argv) > 2 and sys.argv[1] == '--record':
        json.dump(got, open(sys.argv[2], 'w'), indent=0, sort_keys=True)
        print('recorded', len(got), 'groups')
        return 0
    rec = json.loads(RECORD)
    bad = []
    for k in sorted(set(rec) | set(got)):
        if rec.get(k) != got.get(k):
            bad.append('%s: recorded %r, got %r' % (k, rec.get(k), got.get(k)))
    bad += formula_check()
    for b in bad[:40]:
        print('MISMATCH', b)
    print('%s entries in %d groups compared, %d mismatches' % (got['#entries'], len(rec), len(bad)))
    return 1 if bad else 0


if __name__ == '__main__':
    sys.exit(main())
