"""Differential test for proximity / allocation / direction (property C07).

Runs the three public functions on a deterministic family of rasters
(several dtypes, NaN/inf cells, odd shapes, ascending/descending and
non-unit coordinates, all three metrics, max_distance from a fraction of a
cell to inf/None, numpy and dask with several chunkings and schedulers) and
compares a digest of every result (dtype, shape, raw bytes, backend type,
chunks of the result and of the *input* after the call, or the exception type
and message) with digests recorded from the unmodified tree.  In addition,
inside the documented domain the dask result must be bit-identical to the
numpy result.

    python equiv.py            -> compare with EXPECTED, exit 0 iff identical
    python equiv.py --record   -> print a fresh EXPECTED dict
"""
import hashlib
import sys
import warnings

import dask
import dask.array as da
import numpy as np
import xarray as xr

import xrspatial
from xrspatial import allocation, direction, proximity

warnings.filterwarnings("ignore")

FUNCS = {"prox": proximity, "alloc": allocation, "dir": direction}


def make_data(shape, dtype, seed, density=0.2, specials=False):
    rng = np.random.RandomState(seed)
    h, w = shape
    mask = rng.rand(h, w) < density
    vals = rng.randint(1, 4, size=(h, w))
    data = np.where(mask, vals, 0).astype(dtype)
    if specials and np.issubdtype(np.dtype(dtype), np.floating):
        flat = data.ravel()
        n = flat.size
        idx = rng.permutation(n)
        flat[idx[0]] = np.nan
        if n > 3:
            flat[idx[1]] = np.inf
            flat[idx[2]] = -np.inf
            flat[idx[3]] = np.nan
        data = flat.reshape(h, w)
    return data


def make_raster(data, x0=0.0, dx=1.0, y0=0.0, dy=1.0, y_desc=True,
                dims=("y", "x"), attrs=None):
    h, w = data.shape
    xs = x0 + dx * np.arange(w)
    ys = y0 + dy * np.arange(h)
    if y_desc:
        ys = ys[::-1]
    r = xr.DataArray(data, dims=list(dims), name="r",
                     attrs=attrs if attrs is not None else {"res": (dx, dy)})
    r[dims[0]] = ys
    r[dims[1]] = xs
    return r


def digest(fn, raster, scheduler=None, **kw):
    """Return (digest string, computed ndarray or None)."""
    try:
        out = fn(raster, **kw)
        backend = type(out.data).__name__
        out_chunks = getattr(out.data, "chunks", None)
        in_chunks = getattr(raster.data, "chunks", None)
        if isinstance(out.data, da.Array):
            with dask.config.set(scheduler=scheduler or "synchronous"):
                arr = out.data.compute()
        else:
            arr = out.data
        arr = np.asarray(arr)
        hsh = hashlib.sha256()
        hsh.update(np.ascontiguousarray(arr).tobytes())
        meta = (
            backend, str(arr.dtype), arr.shape, out_chunks, in_chunks,
            tuple(out.dims), sorted(out.attrs.items()) == sorted(
                raster.attrs.items()),
            all(np.array_equal(out[c].values, raster[c].values)
                for c in raster.coords),
        )
        return "OK|%r|%s" % (meta, hsh.hexdigest()[:20]), arr
    except Exception as e:  # noqa
        return "EXC|%s|%s" % (type(e).__name__, str(e)[:160]), None


def same(a, b):
    return (a.dtype == b.dtype and a.shape == b.shape
            and a.tobytes() == b.tobytes())


def run():
    got = {}
    mismatches = []

    def one(key, fname, data, chunkings=(), in_domain=True,
            schedulers=("synchronous",), rkw=None, **kw):
        rkw = rkw or {}
        fn = FUNCS[fname]
        d_np, a_np = digest(fn, make_raster(data.copy(), **rkw), **kw)
        got["%s/%s/numpy" % (key, fname)] = d_np
        for ch in chunkings:
            for sch in schedulers:
                r = make_raster(da.from_array(data.copy(), chunks=ch), **rkw)
                d_da, a_da = digest(fn, r, scheduler=sch, **kw)
                k = "%s/%s/dask%r/%s" % (key, fname, ch, sch)
                got[k] = d_da
                if in_domain:
                    if a_np is None or a_da is None or not same(a_np, a_da):
                        mismatches.append(k)

    # ---- A: dtypes, default arguments (max_distance = inf -> one block) ----
    for i, dt in enumerate(["float32", "float64", "int32", "int64", "uint8"]):
        data = make_data((7, 9), dt, seed=10 + i, specials=True)
        fname = ["prox", "alloc", "dir", "alloc", "prox"][i]
        one("A-%s" % dt, fname, data, chunkings=[(3, 4)])

    # ---- B: finite max_distance relative to the cell size -------------------
    data = make_data((12, 11), "float64", seed=3, density=0.08, specials=True)
    for j, md in enumerate([0, 0.4, 0.5, 1, 1.49, 1.5, 2.5, 3.0]):
        fname = ["prox", "alloc", "dir"][j % 3]
        one("B-md%s" % md, fname, data, chunkings=[(4, 4), (5, 11)],
            max_distance=md)
    # all three functions on one halo configuration, two schedulers
    for fname in ["prox", "alloc", "dir"]:
        one("B2", fname, data, chunkings=[(3, 5)],
            schedulers=("synchronous", "threads"), max_distance=2)

    # ---- C: non-unit, anisotropic cells; ascending y; offsets ---------------
    data = make_data((10, 13), "float32", seed=5, density=0.06)
    rkw = dict(x0=-3.0, dx=0.5, y0=100.0, dy=2.0, y_desc=False)
    for j, md in enumerate([0.6, 1.0, 2.0, 4.1]):
        fname = ["dir", "prox", "alloc", "prox"][j]
        one("C-md%s" % md, fname, data, chunkings=[(5, 7), (10, 4)], rkw=rkw,
            max_distance=md)
    # no 'res' attribute -> resolution derived from coords
    rkw2 = dict(rkw, attrs={"unit": "m"})
    one("C-nores", "prox", data, chunkings=[(4, 5)], rkw=rkw2,
        max_distance=1.2)

    # ---- D: metrics ----------------------------------------------------------
    data = make_data((9, 8), "int64", seed=7, density=0.1)
    one("D-manh", "prox", data, chunkings=[(3, 3)], max_distance=2,
        distance_metric="MANHATTAN")
    one("D-manh", "dir", data, chunkings=[(4, 8)], max_distance=3,
        distance_metric="MANHATTAN")
    one("D-manh-inf", "alloc", data, chunkings=[(2, 5)],
        distance_metric="MANHATTAN")
    one("D-unknown", "prox", data, chunkings=[(3, 3)], max_distance=2,
        distance_metric="CHEBYSHEV")
    rkw = dict(x0=-20.0, dx=0.01, y0=40.0, dy=0.01)
    # great circle: one cell is ~1.1 km in y, ~0.85 km in x
    one("D-gc-inf", "prox", data, chunkings=[(3, 3)], rkw=rkw,
        distance_metric="GREAT_CIRCLE")
    one("D-gc-big", "alloc", data, chunkings=[(3, 3)], rkw=rkw,
        max_distance=1e9, distance_metric="GREAT_CIRCLE")
    one("D-gc-np", "dir", data, rkw=rkw, max_distance=2500.0,
        distance_metric="GREAT_CIRCLE")
    one("D-gc-badlon", "prox", data, chunkings=[(3, 3)],
        rkw=dict(x0=175.0, dx=1.0, y0=0.0, dy=1.0),
        in_domain=False, distance_metric="GREAT_CIRCLE")

    # ---- E: target_values ----------------------------------------------------
    data = make_data((8, 10), "float64", seed=11, density=0.15, specials=True)
    one("E-t1", "prox", data, chunkings=[(4, 5)], max_distance=2,
        target_values=[1])
    one("E-t23", "alloc", data, chunkings=[(3, 10)], max_distance=2.5,
        target_values=[2, 3])
    one("E-tnan", "dir", data, chunkings=[(4, 5)], max_distance=2,
        target_values=[np.nan])
    one("E-tinf", "alloc", data, chunkings=[(4, 5)], target_values=[np.inf])
    one("E-t0", "prox", data, chunkings=[(8, 3)], max_distance=1,
        target_values=(0,))
    one("E-none", "prox", data, chunkings=[(4, 5)], max_distance=None)
    one("E-notarget", "alloc", np.zeros((6, 6)), chunkings=[(3, 3)],
        max_distance=2)

    # ---- F: odd shapes, edge / out-of-domain situations -----------------------
    one("F-1row", "prox", make_data((1, 9), "float64", 2), chunkings=[(1, 3)],
        in_domain=False, max_distance=2)
    one("F-1col", "dir", make_data((9, 1), "float64", 4), chunkings=[(3, 1)],
        in_domain=False, max_distance=2)
    one("F-1row-inf", "alloc", make_data((1, 9), "float64", 2),
        chunkings=[(1, 3)], in_domain=False)
    one("F-2x3", "prox", make_data((2, 3), "int32", 6, density=0.4),
        chunkings=[(1, 2)], in_domain=False, max_distance=1)
    one("F-halo-too-big", "prox", make_data((6, 20), "float64", 8),
        chunkings=[(3, 5)], in_domain=False, max_distance=9)
    # max_distance exactly the raster diagonal / just below
    data = make_data((4, 5), "float64", 9, density=0.1)
    one("F-diag", "prox", data, chunkings=[(2, 2)], max_distance=5.0)
    one("F-diag-", "alloc", data, chunkings=[(2, 5)], in_domain=False,
        max_distance=4.99)
    # wrong dims
    one("F-dims", "prox", data, chunkings=[(2, 2)], in_domain=False,
        rkw=dict(dims=("lat", "lon")))
    one("F-dims-ok", "dir", data, chunkings=[(2, 2)], max_distance=2,
        rkw=dict(dims=("lat", "lon")), x="lon", y="lat")
    # negative max_distance
    one("F-neg", "prox", data, chunkings=[(2, 2)], in_domain=False,
        max_distance=-1)

    # ---- G: targets just inside / outside the halo ---------------------------
    data = np.zeros((9, 12), dtype="float64")
    data[4, 3] = 5.0       # last column of chunk 0 (chunks of 4 columns)
    data[0, 11] = 7.0
    for md in [2.0, 2.2, 2.9, 3.0]:
        for fname in (["prox", "alloc"] if md in (2.0, 3.0) else ["dir"]):
            one("G-md%s" % md, fname, data, chunkings=[(3, 4)],
                max_distance=md)

    # ---- H: preparation / validation order on the dask path ----------------
    nores = dict(attrs={"unit": "m"})
    one("H-nores-1col", "prox", make_data((9, 1), "float64", 4),
        chunkings=[(3, 1)], in_domain=False, rkw=nores, max_distance=2)
    one("H-nores-1row", "alloc", make_data((1, 9), "float64", 2),
        chunkings=[(1, 3)], in_domain=False, rkw=nores, max_distance=2)
    one("H-nores-1row-inf", "dir", make_data((1, 9), "float64", 2),
        chunkings=[(1, 3)], in_domain=False, rkw=nores)
    data = make_data((10, 11), "float64", 21, density=0.1, specials=True)
    for fname in ["prox", "alloc", "dir"]:
        one("H-uneven", fname, data, chunkings=[((2, 5, 3), (4, 1, 6))],
            max_distance=1)
    one("H-uneven-inf", "prox", data, chunkings=[((2, 5, 3), (4, 1, 6))])
    one("H-md-nan", "prox", data, chunkings=[(5, 6)], in_domain=False,
        max_distance=np.nan)
    one("H-badlon-dims", "prox", data, chunkings=[(5, 6)], in_domain=False,
        rkw=dict(x0=175.0, dims=("lat", "lon")),
        distance_metric="GREAT_CIRCLE")
    one("H-badlon-1col", "prox", make_data((9, 1), "float64", 4),
        chunkings=[(3, 1)], in_domain=False,
        rkw=dict(x0=200.0, attrs={"unit": "m"}), max_distance=2,
        distance_metric="GREAT_CIRCLE")

    return got, mismatches


EXPECTED = {
    'A-float32/prox/dask(3, 4)/synchronous':
        "OK|('Array', 'float32', (7, 9), ((7,), (9,)), ((7,), (9,)), ('y', 'x'), True, True)|1c972e3e023fcb0de146",
    'A-float32/prox/numpy':
        "OK|('ndarray', 'float32', (7, 9), None, None, ('y', 'x'), True, True)|1c972e3e023fcb0de146",
    'A-float64/alloc/dask(3, 4)/synchronous':
        "OK|('Array', 'float32', (7, 9), ((7,), (9,)), ((7,), (9,)), ('y', 'x'), True, True)|2d5994e77c46a9049fc8",
    'A-float64/alloc/numpy':
        "OK|('ndarray', 'float32', (7, 9), None, None, ('y', 'x'), True, True)|2d5994e77c46a9049fc8",
    'A-int32/dir/dask(3, 4)/synchronous':
        "OK|('Array', 'float32', (7, 9), ((7,), (9,)), ((7,), (9,)), ('y', 'x'), True, True)|d90ace34ccb27a6df2d2",
    'A-int32/dir/numpy':
        "OK|('ndarray', 'float32', (7, 9), None, None, ('y', 'x'), True, True)|d90ace34ccb27a6df2d2",
    'A-int64/alloc/dask(3, 4)/synchronous':
        "OK|('Array', 'float32', (7, 9), ((7,), (9,)), ((7,), (9,)), ('y', 'x'), True, True)|c525a0584b68a6a51516",
    'A-int64/alloc/numpy':
        "OK|('ndarray', 'float32', (7, 9), None, None, ('y', 'x'), True, True)|c525a0584b68a6a51516",
    'A-uint8/prox/dask(3, 4)/synchronous':
        "OK|('Array', 'float32', (7, 9), ((7,), (9,)), ((7,), (9,)), ('y', 'x'), True, True)|86c835cac3bfb73ff7fa",
    'A-uint8/prox/numpy':
        "OK|('ndarray', 'float32', (7, 9), None, None, ('y', 'x'), True, True)|86c835cac3bfb73ff7fa",
    'B-md0.4/alloc/dask(4, 4)/synchronous':
        "OK|('Array', 'float32', (12, 11), ((4, 4, 4), (4, 4, 3)), ((4, 4, 4), (4, 4, 3)), ('y', 'x'), True, True)|6e1b4469b50ad8d6079c",
    'B-md0.4/alloc/dask(5, 11)/synchronous':
        "OK|('Array', 'float32', (12, 11), ((5, 5, 2), (11,)), ((5, 5, 2), (11,)), ('y', 'x'), True, True)|6e1b4469b50ad8d6079c",
    'B-md0.4/alloc/numpy':
        "OK|('ndarray', 'float32', (12, 11), None, None, ('y', 'x'), True, True)|6e1b4469b50ad8d6079c",
    'B-md0.5/dir/dask(4, 4)/synchronous':
        "OK|('Array', 'float32', (12, 11), ((4, 4, 4), (4, 4, 3)), ((4, 4, 4), (4, 4, 3)), ('y', 'x'), True, True)|05a9e504e253098992be",
    'B-md0.5/dir/dask(5, 11)/synchronous':
        "OK|('Array', 'float32', (12, 11), ((5, 5, 2), (11,)), ((5, 5, 2), (11,)), ('y', 'x'), True, True)|05a9e504e253098992be",
    'B-md0.5/dir/numpy':
        "OK|('ndarray', 'float32', (12, 11), None, None, ('y', 'x'), True, True)|05a9e504e253098992be",
    'B-md0/prox/dask(4, 4)/synchronous':
        "OK|('Array', 'float32', (12, 11), ((4, 4, 4), (4, 4, 3)), ((4, 4, 4), (4, 4, 3)), ('y', 'x'), True, True)|05a9e504e253098992be",
    'B-md0/prox/dask(5, 11)/synchronous':
        "OK|('Array', 'float32', (12, 11), ((5, 5, 2), (11,)), ((5, 5, 2), (11,)), ('y', 'x'), True, True)|05a9e504e253098992be",
    'B-md0/prox/numpy':
        "OK|('ndarray', 'float32', (12, 11), None, None, ('y', 'x'), True, True)|05a9e504e253098992be",
    'B-md1.49/alloc/dask(4, 4)/synchronous':
        "OK|('Array', 'float32', (12, 11), ((4, 4, 4), (4, 4, 3)), ((4, 4, 4), (4, 4, 3)), ('y', 'x'), True, True)|792f2857cb97590bd7f5",
    'B-md1.49/alloc/dask(5, 11)/synchronous':
        "OK|('Array', 'float32', (12, 11), ((5, 5, 2), (11,)), ((5, 5, 2), (11,)), ('y', 'x'), True, True)|792f2857cb97590bd7f5",
    'B-md1.49/alloc/numpy':
        "OK|('ndarray', 'float32', (12, 11), None, None, ('y', 'x'), True, True)|792f2857cb97590bd7f5",
    'B-md1.5/dir/dask(4, 4)/synchronous':
        "OK|('Array', 'float32', (12, 11), ((4, 4, 4), (4, 4, 3)), ((4, 4, 4), (4, 4, 3)), ('y', 'x'), True, True)|474b9f5731b02d44120b",
    'B-md1.5/dir/dask(5, 11)/synchronous':
        "OK|('Array', 'float32', (12, 11), ((5, 5, 2), (11,)), ((5, 5, 2), (11,)), ('y', 'x'), True, True)|474b9f5731b02d44120b",
    'B-md1.5/dir/numpy':
        "OK|('ndarray', 'float32', (12, 11), None, None, ('y', 'x'), True, True)|474b9f5731b02d44120b",
    'B-md1/prox/dask(4, 4)/synchronous':
        "OK|('Array', 'float32', (12, 11), ((4, 4, 4), (4, 4, 3)), ((4, 4, 4), (4, 4, 3)), ('y', 'x'), True, True)|0037c78e63bea3ad8951",
    'B-md1/prox/dask(5, 11)/synchronous':
        "OK|('Array', 'float32', (12, 11), ((5, 5, 2), (11,)), ((5, 5, 2), (11,)), ('y', 'x'), True, True)|0037c78e63bea3ad8951",
    'B-md1/prox/numpy':
        "OK|('ndarray', 'float32', (12, 11), None, None, ('y', 'x'), True, True)|0037c78e63bea3ad8951",
    'B-md2.5/prox/dask(4, 4)/synchronous':
        "OK|('Array', 'float32', (12, 11), ((4, 4, 4), (4, 4, 3)), ((4, 4, 4), (4, 4, 3)), ('y', 'x'), True, True)|adb039932d8756ddb801",
    'B-md2.5/prox/dask(5, 11)/synchronous':
        "OK|('Array', 'float32', (12, 11), ((5, 4, 3), (11,)), ((5, 5, 2), (11,)), ('y', 'x'), True, True)|adb039932d8756ddb801",
    'B-md2.5/prox/numpy':
        "OK|('ndarray', 'float32', (12, 11), None, None, ('y', 'x'), True, True)|adb039932d8756ddb801",
    'B-md3.0/alloc/dask(4, 4)/synchronous':
        "OK|('Array', 'float32', (12, 11), ((4, 4, 4), (4, 4, 3)), ((4, 4, 4), (4, 4, 3)), ('y', 'x'), True, True)|1a59a0e94e0146aacaee",
    'B-md3.0/alloc/dask(5, 11)/synchronous':
        "OK|('Array', 'float32', (12, 11), ((5, 4, 3), (11,)), ((5, 5, 2), (11,)), ('y', 'x'), True, True)|1a59a0e94e0146aacaee",
    'B-md3.0/alloc/numpy':
        "OK|('ndarray', 'float32', (12, 11), None, None, ('y', 'x'), True, True)|1a59a0e94e0146aacaee",
    'B2/alloc/dask(3, 5)/synchronous':
        "OK|('Array', 'float32', (12, 11), ((3, 3, 3, 3), (5, 4, 2)), ((3, 3, 3, 3), (5, 5, 1)), ('y', 'x'), True, True)|d174c05e9765d6ef8e97",
    'B2/alloc/dask(3, 5)/threads':
        "OK|('Array', 'float32', (12, 11), ((3, 3, 3, 3), (5, 4, 2)), ((3, 3, 3, 3), (5, 5, 1)), ('y', 'x'), True, True)|d174c05e9765d6ef8e97",
    'B2/alloc/numpy':
        "OK|('ndarray', 'float32', (12, 11), None, None, ('y', 'x'), True, True)|d174c05e9765d6ef8e97",
    'B2/dir/dask(3, 5)/synchronous':
        "OK|('Array', 'float32', (12, 11), ((3, 3, 3, 3), (5, 4, 2)), ((3, 3, 3, 3), (5, 5, 1)), ('y', 'x'), True, True)|59dea20cdbdb207b23c2",
    'B2/dir/dask(3, 5)/threads':
        "OK|('Array', 'float32', (12, 11), ((3, 3, 3, 3), (5, 4, 2)), ((3, 3, 3, 3), (5, 5, 1)), ('y', 'x'), True, True)|59dea20cdbdb207b23c2",
    'B2/dir/numpy':
        "OK|('ndarray', 'float32', (12, 11), None, None, ('y', 'x'), True, True)|59dea20cdbdb207b23c2",
    'B2/prox/dask(3, 5)/synchronous':
        "OK|('Array', 'float32', (12, 11), ((3, 3, 3, 3), (5, 4, 2)), ((3, 3, 3, 3), (5, 5, 1)), ('y', 'x'), True, True)|1708f78f2e2de3904f14",
    'B2/prox/dask(3, 5)/threads':
        "OK|('Array', 'float32', (12, 11), ((3, 3, 3, 3), (5, 4, 2)), ((3, 3, 3, 3), (5, 5, 1)), ('y', 'x'), True, True)|1708f78f2e2de3904f14",
    'B2/prox/numpy':
        "OK|('ndarray', 'float32', (12, 11), None, None, ('y', 'x'), True, True)|1708f78f2e2de3904f14",
    'C-md0.6/dir/dask(10, 4)/synchronous':
        "OK|('Array', 'float32', (10, 13), ((10,), (4, 4, 4, 1)), ((10,), (4, 4, 4, 1)), ('y', 'x'), True, True)|8af89229c3cd4c0b4bff",
    'C-md0.6/dir/dask(5, 7)/synchronous':
        "OK|('Array', 'float32', (10, 13), ((5, 5), (7, 6)), ((5, 5), (7, 6)), ('y', 'x'), True, True)|8af89229c3cd4c0b4bff",
    'C-md0.6/dir/numpy':
        "OK|('ndarray', 'float32', (10, 13), None, None, ('y', 'x'), True, True)|8af89229c3cd4c0b4bff",
    'C-md1.0/prox/dask(10, 4)/synchronous':
        "OK|('Array', 'float32', (10, 13), ((10,), (4, 4, 3, 2)), ((10,), (4, 4, 4, 1)), ('y', 'x'), True, True)|6b2d53428cd4d0745c49",
    'C-md1.0/prox/dask(5, 7)/synchronous':
        "OK|('Array', 'float32', (10, 13), ((5, 5), (7, 6)), ((5, 5), (7, 6)), ('y', 'x'), True, True)|6b2d53428cd4d0745c49",
    'C-md1.0/prox/numpy':
        "OK|('ndarray', 'float32', (10, 13), None, None, ('y', 'x'), True, True)|6b2d53428cd4d0745c49",
    'C-md2.0/alloc/dask(10, 4)/synchronous':
        "OK|('Array', 'float32', (10, 13), ((10,), (4, 4, 5)), ((10,), (4, 4, 4, 1)), ('y', 'x'), True, True)|18b9a694c58afb9690b0",
    'C-md2.0/alloc/dask(5, 7)/synchronous':
        "OK|('Array', 'float32', (10, 13), ((5, 5), (7, 6)), ((5, 5), (7, 6)), ('y', 'x'), True, True)|18b9a694c58afb9690b0",
    'C-md2.0/alloc/numpy':
        "OK|('ndarray', 'float32', (10, 13), None, None, ('y', 'x'), True, True)|18b9a694c58afb9690b0",
    'C-md4.1/prox/dask(10, 4)/synchronous':
        "OK|('Array', 'float32', (10, 13), ((10,), (13,)), ((10,), (4, 4, 4, 1)), ('y', 'x'), True, True)|f82cddbc1fa177c5da76",
    'C-md4.1/prox/dask(5, 7)/synchronous':
        "OK|('Array', 'float32', (10, 13), ((5, 5), (13,)), ((5, 5), (7, 6)), ('y', 'x'), True, True)|f82cddbc1fa177c5da76",
    'C-md4.1/prox/numpy':
        "OK|('ndarray', 'float32', (10, 13), None, None, ('y', 'x'), True, True)|f82cddbc1fa177c5da76",
    'C-nores/prox/dask(4, 5)/synchronous':
        "OK|('Array', 'float32', (10, 13), ((4, 4, 2), (5, 5, 3)), ((4, 4, 2), (5, 5, 3)), ('y', 'x'), True, True)|6b2d53428cd4d0745c49",
    'C-nores/prox/numpy':
        "OK|('ndarray', 'float32', (10, 13), None, None, ('y', 'x'), True, True)|6b2d53428cd4d0745c49",
    'D-gc-badlon/prox/dask(3, 3)/synchronous':
        'EXC|ValueError|Invalid x-coordinate of the second point.Must be in the range [-180, 180]',
    'D-gc-badlon/prox/numpy':
        'EXC|ValueError|Invalid x-coordinate of the second point.Must be in the range [-180, 180]',
    'D-gc-big/alloc/dask(3, 3)/synchronous':
        "OK|('Array', 'float32', (9, 8), ((9,), (8,)), ((9,), (8,)), ('y', 'x'), True, True)|c89aaea45fca3ff0dc4c",
    'D-gc-big/alloc/numpy':
        "OK|('ndarray', 'float32', (9, 8), None, None, ('y', 'x'), True, True)|c89aaea45fca3ff0dc4c",
    'D-gc-inf/prox/dask(3, 3)/synchronous':
        "OK|('Array', 'float32', (9, 8), ((9,), (8,)), ((9,), (8,)), ('y', 'x'), True, True)|8d7b432693804b344835",
    'D-gc-inf/prox/numpy':
        "OK|('ndarray', 'float32', (9, 8), None, None, ('y', 'x'), True, True)|8d7b432693804b344835",
    'D-gc-np/dir/numpy':
        "OK|('ndarray', 'float32', (9, 8), None, None, ('y', 'x'), True, True)|f963617dd60ac83d0cfc",
    'D-manh-inf/alloc/dask(2, 5)/synchronous':
        "OK|('Array', 'float32', (9, 8), ((9,), (8,)), ((9,), (8,)), ('y', 'x'), True, True)|0e612827250b0aef1156",
    'D-manh-inf/alloc/numpy':
        "OK|('ndarray', 'float32', (9, 8), None, None, ('y', 'x'), True, True)|0e612827250b0aef1156",
    'D-manh/dir/dask(4, 8)/synchronous':
        "OK|('Array', 'float32', (9, 8), ((4, 5), (8,)), ((4, 4, 1), (8,)), ('y', 'x'), True, True)|d2680d09fc5278131c9c",
    'D-manh/dir/numpy':
        "OK|('ndarray', 'float32', (9, 8), None, None, ('y', 'x'), True, True)|d2680d09fc5278131c9c",
    'D-manh/prox/dask(3, 3)/synchronous':
        "OK|('Array', 'float32', (9, 8), ((3, 3, 3), (3, 3, 2)), ((3, 3, 3), (3, 3, 2)), ('y', 'x'), True, True)|037c765f1a675d767dda",
    'D-manh/prox/numpy':
        "OK|('ndarray', 'float32', (9, 8), None, None, ('y', 'x'), True, True)|037c765f1a675d767dda",
    'D-unknown/prox/dask(3, 3)/synchronous':
        "OK|('Array', 'float32', (9, 8), ((3, 3, 3), (3, 3, 2)), ((3, 3, 3), (3, 3, 2)), ('y', 'x'), True, True)|c97e49ea2a2c2f83600b",
    'D-unknown/prox/numpy':
        "OK|('ndarray', 'float32', (9, 8), None, None, ('y', 'x'), True, True)|c97e49ea2a2c2f83600b",
    'E-none/prox/dask(4, 5)/synchronous':
        "OK|('Array', 'float32', (8, 10), ((8,), (10,)), ((8,), (10,)), ('y', 'x'), True, True)|5232ad6c6395e47fdf1b",
    'E-none/prox/numpy':
        "OK|('ndarray', 'float32', (8, 10), None, None, ('y', 'x'), True, True)|5232ad6c6395e47fdf1b",
    'E-notarget/alloc/dask(3, 3)/synchronous':
        "OK|('Array', 'float32', (6, 6), ((3, 3), (3, 3)), ((3, 3), (3, 3)), ('y', 'x'), True, True)|6ae8a23160928b634172",
    'E-notarget/alloc/numpy':
        "OK|('ndarray', 'float32', (6, 6), None, None, ('y', 'x'), True, True)|6ae8a23160928b634172",
    'E-t0/prox/dask(8, 3)/synchronous':
        "OK|('Array', 'float32', (8, 10), ((8,), (3, 3, 3, 1)), ((8,), (3, 3, 3, 1)), ('y', 'x'), True, True)|2b5eeebfb305c6579e4f",
    'E-t0/prox/numpy':
        "OK|('ndarray', 'float32', (8, 10), None, None, ('y', 'x'), True, True)|2b5eeebfb305c6579e4f",
    'E-t1/prox/dask(4, 5)/synchronous':
        "OK|('Array', 'float32', (8, 10), ((4, 4), (5, 5)), ((4, 4), (5, 5)), ('y', 'x'), True, True)|fb401f96c88f1e1ae8be",
    'E-t1/prox/numpy':
        "OK|('ndarray', 'float32', (8, 10), None, None, ('y', 'x'), True, True)|fb401f96c88f1e1ae8be",
    'E-t23/alloc/dask(3, 10)/synchronous':
        "OK|('Array', 'float32', (8, 10), ((3, 5), (10,)), ((3, 3, 2), (10,)), ('y', 'x'), True, True)|69df4d115a6be88bd6fe",
    'E-t23/alloc/numpy':
        "OK|('ndarray', 'float32', (8, 10), None, None, ('y', 'x'), True, True)|69df4d115a6be88bd6fe",
    'E-tinf/alloc/dask(4, 5)/synchronous':
        "OK|('Array', 'float32', (8, 10), ((8,), (10,)), ((8,), (10,)), ('y', 'x'), True, True)|fa0ad6a8ec29418ece74",
    'E-tinf/alloc/numpy':
        "OK|('ndarray', 'float32', (8, 10), None, None, ('y', 'x'), True, True)|fa0ad6a8ec29418ece74",
    'E-tnan/dir/dask(4, 5)/synchronous':
        "OK|('Array', 'float32', (8, 10), ((4, 4), (5, 5)), ((4, 4), (5, 5)), ('y', 'x'), True, True)|caaabdd7f31572ef4e17",
    'E-tnan/dir/numpy':
        "OK|('ndarray', 'float32', (8, 10), None, None, ('y', 'x'), True, True)|caaabdd7f31572ef4e17",
    'F-1col/dir/dask(3, 1)/synchronous':
        'EXC|ValueError|The overlapping depth 2 is larger than your array 1.',
    'F-1col/dir/numpy':
        "OK|('ndarray', 'float32', (9, 1), None, None, ('y', 'x'), True, True)|96fc6ee89d6a425e436b",
    'F-1row-inf/alloc/dask(1, 3)/synchronous':
        "OK|('Array', 'float32', (1, 9), ((1,), (9,)), ((1,), (9,)), ('y', 'x'), True, True)|535918286916675b94b0",
    'F-1row-inf/alloc/numpy':
        "OK|('ndarray', 'float32', (1, 9), None, None, ('y', 'x'), True, True)|535918286916675b94b0",
    'F-1row/prox/dask(1, 3)/synchronous':
        'EXC|ValueError|The overlapping depth 2 is larger than your array 1.',
    'F-1row/prox/numpy':
        "OK|('ndarray', 'float32', (1, 9), None, None, ('y', 'x'), True, True)|f3d49b4c8beb1e8b0183",
    'F-2x3/prox/dask(1, 2)/synchronous':
        "OK|('Array', 'float32', (2, 3), ((1, 1), (2, 1)), ((1, 1), (2, 1)), ('y', 'x'), True, True)|81e5bd2ad736b785c26f",
    'F-2x3/prox/numpy':
        "OK|('ndarray', 'float32', (2, 3), None, None, ('y', 'x'), True, True)|81e5bd2ad736b785c26f",
    'F-diag-/alloc/dask(2, 5)/synchronous':
        'EXC|ValueError|The overlapping depth 5 is larger than your array 4.',
    'F-diag-/alloc/numpy':
        "OK|('ndarray', 'float32', (4, 5), None, None, ('y', 'x'), True, True)|24c58ba85f2061969593",
    'F-diag/prox/dask(2, 2)/synchronous':
        "OK|('Array', 'float32', (4, 5), ((4,), (5,)), ((4,), (5,)), ('y', 'x'), True, True)|ca454f06ad2018eb5bb2",
    'F-diag/prox/numpy':
        "OK|('ndarray', 'float32', (4, 5), None, None, ('y', 'x'), True, True)|ca454f06ad2018eb5bb2",
    'F-dims-ok/dir/dask(2, 2)/synchronous':
        "OK|('Array', 'float32', (4, 5), ((2, 2), (2, 3)), ((2, 2), (2, 2, 1)), ('lat', 'lon'), True, True)|9522e0c2a2438402a652",
    'F-dims-ok/dir/numpy':
        "OK|('ndarray', 'float32', (4, 5), None, None, ('lat', 'lon'), True, True)|9522e0c2a2438402a652",
    'F-dims/prox/dask(2, 2)/synchronous':
        'EXC|ValueError|raster.coords should be named as coordinates:(y, x)',
    'F-dims/prox/numpy':
        'EXC|ValueError|raster.coords should be named as coordinates:(y, x)',
    'F-halo-too-big/prox/dask(3, 5)/synchronous':
        'EXC|ValueError|The overlapping depth 9 is larger than your array 6.',
    'F-halo-too-big/prox/numpy':
        "OK|('ndarray', 'float32', (6, 20), None, None, ('y', 'x'), True, True)|cd7a3326129f7120ba74",
    'F-neg/prox/dask(2, 2)/synchronous':
        "OK|('Array', 'float32', (4, 5), ((2, 2), (2, 2, 1)), ((2, 2), (2, 2, 1)), ('y', 'x'), True, True)|3569f8f44e1cc227a6d7",
    'F-neg/prox/numpy':
        "OK|('ndarray', 'float32', (4, 5), None, None, ('y', 'x'), True, True)|7e5159955fef075fb93e",
    'G-md2.0/alloc/dask(3, 4)/synchronous':
        "OK|('Array', 'float32', (9, 12), ((3, 3, 3), (4, 4, 4)), ((3, 3, 3), (4, 4, 4)), ('y', 'x'), True, True)|df030bb4343bbb8c1a4f",
    'G-md2.0/alloc/numpy':
        "OK|('ndarray', 'float32', (9, 12), None, None, ('y', 'x'), True, True)|df030bb4343bbb8c1a4f",
    'G-md2.0/prox/dask(3, 4)/synchronous':
        "OK|('Array', 'float32', (9, 12), ((3, 3, 3), (4, 4, 4)), ((3, 3, 3), (4, 4, 4)), ('y', 'x'), True, True)|9a4a72cfeb6284203f70",
    'G-md2.0/prox/numpy':
        "OK|('ndarray', 'float32', (9, 12), None, None, ('y', 'x'), True, True)|9a4a72cfeb6284203f70",
    'G-md2.2/dir/dask(3, 4)/synchronous':
        "OK|('Array', 'float32', (9, 12), ((3, 3, 3), (4, 4, 4)), ((3, 3, 3), (4, 4, 4)), ('y', 'x'), True, True)|a1ec5900bf26d3b14c62",
    'G-md2.2/dir/numpy':
        "OK|('ndarray', 'float32', (9, 12), None, None, ('y', 'x'), True, True)|a1ec5900bf26d3b14c62",
    'G-md2.9/dir/dask(3, 4)/synchronous':
        "OK|('Array', 'float32', (9, 12), ((3, 3, 3), (4, 4, 4)), ((3, 3, 3), (4, 4, 4)), ('y', 'x'), True, True)|c1ba94ee24b1a8a763b4",
    'G-md2.9/dir/numpy':
        "OK|('ndarray', 'float32', (9, 12), None, None, ('y', 'x'), True, True)|c1ba94ee24b1a8a763b4",
    'G-md3.0/alloc/dask(3, 4)/synchronous':
        "OK|('Array', 'float32', (9, 12), ((3, 3, 3), (4, 4, 4)), ((3, 3, 3), (4, 4, 4)), ('y', 'x'), True, True)|f931d1d1f7bd969fe90a",
    'G-md3.0/alloc/numpy':
        "OK|('ndarray', 'float32', (9, 12), None, None, ('y', 'x'), True, True)|f931d1d1f7bd969fe90a",
    'G-md3.0/prox/dask(3, 4)/synchronous':
        "OK|('Array', 'float32', (9, 12), ((3, 3, 3), (4, 4, 4)), ((3, 3, 3), (4, 4, 4)), ('y', 'x'), True, True)|6b5847e8756cc0233fd3",
    'G-md3.0/prox/numpy':
        "OK|('ndarray', 'float32', (9, 12), None, None, ('y', 'x'), True, True)|6b5847e8756cc0233fd3",
    'H-badlon-1col/prox/dask(3, 1)/synchronous':
        'EXC|ValueError|Invalid x-coordinate of the first point.Must be in the range [-180, 180]',
    'H-badlon-1col/prox/numpy':
        'EXC|ValueError|Invalid x-coordinate of the first point.Must be in the range [-180, 180]',
    'H-badlon-dims/prox/dask(5, 6)/synchronous':
        'EXC|ValueError|raster.coords should be named as coordinates:(y, x)',
    'H-badlon-dims/prox/numpy':
        'EXC|ValueError|raster.coords should be named as coordinates:(y, x)',
    'H-md-nan/prox/dask(5, 6)/synchronous':
        'EXC|ValueError|cannot convert float NaN to integer',
    'H-md-nan/prox/numpy':
        "OK|('ndarray', 'float32', (10, 11), None, None, ('y', 'x'), True, True)|ec1f0b2fbfa2af0a9eed",
    'H-nores-1col/prox/dask(3, 1)/synchronous':
        'EXC|ZeroDivisionError|float division by zero',
    'H-nores-1col/prox/numpy':
        "OK|('ndarray', 'float32', (9, 1), None, None, ('y', 'x'), True, True)|a7a61695b435d83c36ed",
    'H-nores-1row-inf/dir/dask(1, 3)/synchronous':
        "OK|('Array', 'float32', (1, 9), ((1,), (9,)), ((1,), (9,)), ('y', 'x'), True, True)|ffb3e7b29ce7e5b113de",
    'H-nores-1row-inf/dir/numpy':
        "OK|('ndarray', 'float32', (1, 9), None, None, ('y', 'x'), True, True)|ffb3e7b29ce7e5b113de",
    'H-nores-1row/alloc/dask(1, 3)/synchronous':
        'EXC|ZeroDivisionError|float division by zero',
    'H-nores-1row/alloc/numpy':
        "OK|('ndarray', 'float32', (1, 9), None, None, ('y', 'x'), True, True)|24c6b5fd4c1581221bdb",
    'H-uneven-inf/prox/dask((2, 5, 3), (4, 1, 6))/synchronous':
        "OK|('Array', 'float32', (10, 11), ((10,), (11,)), ((10,), (11,)), ('y', 'x'), True, True)|bd3d4469197276c185f3",
    'H-uneven-inf/prox/numpy':
        "OK|('ndarray', 'float32', (10, 11), None, None, ('y', 'x'), True, True)|bd3d4469197276c185f3",
    'H-uneven/alloc/dask((2, 5, 3), (4, 1, 6))/synchronous':
        "OK|('Array', 'float32', (10, 11), ((2, 5, 3), (4, 1, 6)), ((2, 5, 3), (4, 1, 6)), ('y', 'x'), True, True)|b6cd156b6b6543c324c4",
    'H-uneven/alloc/numpy':
        "OK|('ndarray', 'float32', (10, 11), None, None, ('y', 'x'), True, True)|b6cd156b6b6543c324c4",
    'H-uneven/dir/dask((2, 5, 3), (4, 1, 6))/synchronous':
        "OK|('Array', 'float32', (10, 11), ((2, 5, 3), (4, 1, 6)), ((2, 5, 3), (4, 1, 6)), ('y', 'x'), True, True)|a7f152651b01bb05170b",
    'H-uneven/dir/numpy':
        "OK|('ndarray', 'float32', (10, 11), None, None, ('y', 'x'), True, True)|a7f152651b01bb05170b",
    'H-uneven/prox/dask((2, 5, 3), (4, 1, 6))/synchronous':
        "OK|('Array', 'float32', (10, 11), ((2, 5, 3), (4, 1, 6)), ((2, 5, 3), (4, 1, 6)), ('y', 'x'), True, True)|018a02ce79c8a4b27c56",
    'H-uneven/prox/numpy':
        "OK|('ndarray', 'float32', (10, 11), None, None, ('y', 'x'), True, True)|018a02ce79c8a4b27c56",
}


def main():
    assert "/verif" not in xrspatial.__file__
    got, mismatches = run()
    if "--record" in sys.argv:
        print("EXPECTED = {")
        for k in sorted(got):
            print("    %r:\n        %r," % (k, got[k]))
        print("}")
        print("# dask!=numpy in domain:", mismatches, file=sys.stderr)
        return 0
    bad = 0
    for k in sorted(set(got) | set(EXPECTED)):
        if got.get(k) != EXPECTED.get(k):
            bad += 1
            print("DIFF", k, "\n   got     ", got.get(k),
                  "\n   expected", EXPECTED.get(k))
    for k in mismatches:
        bad += 1
        print("DASK != NUMPY", k)
    print("xrspatial:", xrspatial.__file__)
    print("%d results compared, %d differences" % (len(got), bad))
    return 1 if bad else 0


if __name__ == "__main__":
    sys.exit(main())
