"""Differential test for TC19-t14 (data representation inside _ellipse_kernel /
circle_kernel / annulus_kernel of xrspatial.convolution).

Every kernel is compared bit-for-bit (values, dtype, shape, flags that matter) with an
independent pure-Python integer construction of the ellipse mask, and the whole run is
compared with a digest recorded on the unmodified tree.  --record prints the digest.
"""
import hashlib
import sys

import numpy as np
import xarray as xr

import xrspatial
from xrspatial import convolution as cv
from xrspatial.focal import apply, focal_stats


def ref_circle(cx, cy, r_m):
    hw = int(r_m / cx)
    hh = int(r_m / cy)
    out = np.empty((2 * hh + 1, 2 * hw + 1), dtype='<f8')
    for i in range(-hh, hh + 1):
        for j in range(-hw, hw + 1):
            out[i + hh, j + hw] = 1.0 if (j * hh) ** 2 + (i * hw) ** 2 <= (hw * hh) ** 2 else 0.0
    return out


def ref_annulus(cx, cy, ro, ri):
    o = ref_circle(cx, cy, ro)
    i = ref_circle(cx, cy, ri)
    pr = (o.shape[0] - i.shape[0]) // 2
    pc = (o.shape[1] - i.shape[1]) // 2
    if pr < 0 or pc < 0:
        return 'ValueError'
    p = np.zeros_like(o)
    p[pr:pr + i.shape[0], pc:pc + i.shape[1]] = i
    return o - p


def desc(a):
    if isinstance(a, str):
        return a
    return (a.dtype.str, a.shape, a.flags['C_CONTIGUOUS'], a.flags['WRITEABLE'],
            type(a).__name__, hashlib.sha256(np.ascontiguousarray(a).tobytes()).hexdigest())


def call(f, *a):
    try:
        return f(*a)
    except Exception as e:  # noqa
        return type(e).__name__


CELLS = [(1, 1), (1, 2), (2, 1), (0.5, 0.25), (3, 3), (0.3, 0.7), (np.float32(0.3), 2),
         (10, 1), (1, 10), (7, 7), (0.1, 0.1), (np.int64(2), np.float64(1.5))]
RADII = [0.05, 0.5, 1, 2, 2.5, 3, 4, 5, 7.999, 10, 12.5, 25]
UNIT_RADII = [('3m', 3.0), ('0.01km', 0.01 * 1000), ('10 ft', 10.0 * 0.3048),
              ('0.002 miles', 0.002 * 1609.344), ('15', 15.0), (np.float32(2.5), 2.5)]


def compute():
    out = []
    bad = 0
    for cx, cy in CELLS:
        for r, rm in [(r, float(r)) for r in RADII] + UNIT_RADII:
            k = call(cv.circle_kernel, cx, cy, r)
            e = ref_circle(cx, cy, rm)
            ok = (not isinstance(k, str) and k.dtype == e.dtype and k.shape == e.shape
                  and k.tobytes() == e.tobytes())
            if ok:
                # stated shape properties
                ok = (k.shape[0] % 2 == 1 and k.shape[1] % 2 == 1
                      and np.array_equal(k, k[::-1]) and np.array_equal(k, k[:, ::-1])
                      and set(np.unique(k)) <= {0.0, 1.0})
            if not ok:
                print('MISMATCH circle', cx, cy, r)
                bad += 1
            out.append(('c', repr((cx, cy, r)), desc(k)))
        for ro, ri in [(3, 1), (5, 2), (2, 2), (1, 3), (10, 0.5), (4.5, 1.2), (12.5, 7.999),
                       ('0.01km', '3m'), ('20ft', '2ft'), (25, 10), (0.05, 0.05), (2, 5)]:
            rom = cv._get_distance(str(ro))
            rim = cv._get_distance(str(ri))
            k = call(cv.annulus_kernel, cx, cy, ro, ri)
            e = ref_annulus(cx, cy, rom, rim)
            if isinstance(e, str) or isinstance(k, str):
                ok = isinstance(e, str) and isinstance(k, str) and e == k
            else:
                ok = (k.dtype == e.dtype and k.shape == e.shape and k.tobytes() == e.tobytes()
                      and k.min() >= 0)
            if not ok:
                print('MISMATCH annulus', cx, cy, ro, ri, k if isinstance(k, str) else '')
                bad += 1
            out.append(('a', repr((cx, cy, ro, ri)), desc(k)))
    # internal helper, incl. degenerate half sizes and numpy integer arguments
    for hw in [0, 1, 2, 5, np.int64(3), np.int32(4)]:
        for hh in [0, 1, 3, 6, np.int64(2)]:
            out.append(('e', repr((hw, hh)), desc(cv._ellipse_kernel(hw, hh))))
    # kernels used downstream (numpy and dask), several dtypes, NaNs
    rng = np.random.RandomState(19)
    base = rng.rand(9, 11) * 100
    base[2, 3] = np.nan
    base[8, 10] = np.nan
    for dt in ['f4', 'f8', 'i4', 'u1']:
        data = np.nan_to_num(base).astype(dt) if dt[0] != 'f' else base.astype(dt)
        for kern in [cv.circle_kernel(1, 1, 2), cv.annulus_kernel(1, 2, 4, 1)]:
            a = xr.DataArray(data, dims=['y', 'x'])
            out.append(('conv-np', dt, desc(np.asarray(cv.convolution_2d(a, kern).data))))
            import dask.array as da
            d = xr.DataArray(da.from_array(data, chunks=(4, 5)), dims=['y', 'x'])
            r = cv.convolution_2d(d, kern)
            out.append(('conv-da', dt, repr(r.data.chunks), desc(np.asarray(r.data.compute()))))
            if dt[0] == 'f':
                out.append(('stats', dt, desc(np.asarray(
                    focal_stats(a, kern, stats_funcs=['mean', 'max']).data))))
    digest = hashlib.sha256(repr(out).encode()).hexdigest()
    return bad, len(out), digest


EXPECTED = (410, 'cb520fbf2215795064062d0a33caf326817f0e29757971d48164ebae404ce1f8')

if __name__ == '__main__':
    print('xrspatial from', xrspatial.__file__)
    bad, n, digest = compute()
    if '--record' in sys.argv:
        print((n, digest))
        sys.exit(0)
    if bad:
        print('FAIL: %d mismatches against the independent construction' % bad)
        sys.exit(1)
    if (n, digest) != EXPECTED:
        print('FAIL: digest differs from the one recorded on the unmodified tree', (n, digest))
        sys.exit(1)
    print('OK: %d cases identical' % n)
