"""Differential test for refactoring t9 (iteration rewrite):
  * xrspatial/convolution.py: _convolve_2d_numpy - kernel indices iii/jjj, previously
    recomputed from the data indices in every iteration, are now counted by hand in step
    with the data loops (`range(a, b, 1)` -> `range(a, b)`),
  * xrspatial/focal.py: _apply_numpy - window loops use enumerate(range(...)) for the
    kernel indices and early `continue` for out-of-raster rows / columns.

Affected public functions: convolution_2d, hotspots (via convolve_2d), focal.apply,
focal_stats.  Checks:
  1. sha256 digests of numpy-backed results equal digests recorded on the UNMODIFIED tree
     (float/int dtypes, NaN/inf, odd shapes, rasters smaller than the kernel,
     square and non-square odd kernels, float64/float32/int kernels),
  2. convolution_2d equals an independent pure-python reference bit for bit, focal.apply
     equals an independent numpy reference (tight tolerance + identical NaN pattern),
  3. dask results for many chunkings (1-cell chunks, chunks smaller than the kernel) and
     two schedulers are bit-identical to the numpy result (NaN payload bits canonicalised)
     and stay lazy until computed; rasters smaller than the overlap depth raise the same
     dask ValueError as before (recorded in the table).

Run:  cd <worktree> && PYTHONPATH=<worktree> python equiv.py          (exit 0 == identical)
"""
import hashlib
import sys
import warnings

import dask
import dask.array as da
import numpy as np
import xarray as xr

import xrspatial
from xrspatial import focal
from xrspatial.convolution import annulus_kernel, circle_kernel, convolution_2d, custom_kernel
from xrspatial.focal import apply, focal_stats, hotspots
from xrspatial.utils import ngjit

warnings.simplefilter('ignore')

FAILS = []
DIGESTS = {}


def canon(arr):
    # NaN sign / payload bits carry no meaning (e.g. inf * 0 gives -nan on x86 while the dask
    # boundary fill is +nan): map every NaN to the canonical quiet NaN, keep all other bits
    arr = np.ascontiguousarray(arr)
    if arr.dtype.kind == 'f':
        arr = arr.copy()
        arr[np.isnan(arr)] = np.nan
    return arr


def digest(arr):
    arr = canon(arr)
    h = hashlib.sha256()
    h.update(str(arr.dtype).encode())
    h.update(str(arr.shape).encode())
    h.update(arr.tobytes())
    return h.hexdigest()[:24]


def same(a, b):
    if a.dtype != b.dtype or a.shape != b.shape:
        return False
    return canon(a).tobytes() == canon(b).tobytes()


def check(cond, msg):
    if not cond:
        FAILS.append(msg)
        print('FAIL', msg)


def rasters():
    rng = np.random.RandomState(4321)
    out = {}
    base = rng.uniform(-100, 100, size=(7, 9))
    out['f64_7x9'] = base
    out['f32_7x9'] = base.astype(np.float32)
    out['i32_7x9'] = np.round(base * 7).astype(np.int32)
    out['i64_6x5'] = rng.randint(-1000, 1000, size=(6, 5)).astype(np.int64)
    out['u8_5x8'] = rng.randint(0, 255, size=(5, 8)).astype(np.uint8)
    n = rng.uniform(0, 50, size=(8, 6))
    n[0, 0] = np.nan
    n[3, 2] = np.nan
    n[5, 5] = np.inf
    n[7, 1] = -np.inf
    out['f64_nan_8x6'] = n
    out['f32_nan_8x6'] = n.astype(np.float32)
    out['f64_3x3'] = rng.uniform(0, 1, size=(3, 3))
    out['f64_2x7'] = rng.uniform(0, 1, size=(2, 7))
    out['f64_1x1'] = rng.uniform(0, 1, size=(1, 1))
    out['f64_5x1'] = rng.uniform(0, 1, size=(5, 1))
    return out


def kernels():
    rng = np.random.RandomState(5)
    return {
        'circle3x3': circle_kernel(1, 1, 1),
        'ones3x3': np.ones((3, 3)),
        'row1x3': np.array([[1., 1., 0.]]),
        'col3x1': np.array([[1.], [0.], [1.]]),
        'rect3x5': np.array([[1., 0., 1., 1., 0.], [0., 1., 1., 1., 1.], [1., 1., 0., 0., 1.]]),
        'rect5x3': np.array([[1., 0., 1.], [1., 1., 0.], [0., 1., 1.], [1., 1., 1.], [0., 0., 1.]]),
        'annulus5x5': annulus_kernel(1, 1, 2, 1),
        'one1x1': np.array([[1.]]),
        'w_f64_3x5': rng.uniform(-2, 2, size=(3, 5)),
        'w_f32_3x3': rng.uniform(-2, 2, size=(3, 3)).astype(np.float32),
        'w_i64_5x3': rng.randint(-3, 4, size=(5, 3)).astype(np.int64),
        'row1x7': np.array([[1., 1., 0., 1., 0., 0., 1.]]),
    }


def chunkings(h, w):
    c = [(1, 1), (h, w), (2, 3), (3, 2), (1, w), (h, 1), (4, 4)]
    if h >= 4 and w >= 4:
        c.append(((1, 2, h - 3), (2, 1, w - 3)))
    return c


def conv_reference(data, kernel):
    d = data.astype(np.float32)
    nx, ny = d.shape
    wkx, wky = kernel.shape[0] // 2, kernel.shape[1] // 2
    out = np.full(d.shape, np.nan, dtype=np.float32)
    with np.errstate(all='ignore'):
        for i in range(wkx, nx - wkx):
            for j in range(wky, ny - wky):
                num = 0.0
                for a in range(kernel.shape[0]):
                    for b in range(kernel.shape[1]):
                        kv = kernel[a, b]
                        dv = d[i - wkx + a, j - wky + b]
                        if kernel.dtype == np.float32:
                            prod = float(np.float32(kv) * np.float32(dv))
                        else:
                            prod = float(kv) * float(dv)
                        num += prod
                out[i, j] = num
    return out


def apply_reference(data, kernel, npfunc):
    d = data.astype(np.float32)
    rows, cols = d.shape
    hr, hc = kernel.shape[0] // 2, kernel.shape[1] // 2
    pad = np.full((rows + 2 * hr, cols + 2 * hc), np.nan, dtype=np.float32)
    pad[hr:hr + rows, hc:hc + cols] = d
    out = np.zeros(d.shape, dtype=np.float32)
    with warnings.catch_warnings(), np.errstate(all='ignore'):
        warnings.simplefilter('ignore')
        for y in range(rows):
            for x in range(cols):
                win = pad[y:y + kernel.shape[0], x:x + kernel.shape[1]].astype(np.float64)
                win = np.where(kernel == 1, win, np.nan)
                if np.all(np.isnan(win)):
                    out[y, x] = np.nan if npfunc is not np.nansum else 0.0
                else:
                    out[y, x] = npfunc(win)
    return out


@ngjit
def _weighted(kernel_data):
    # depends on the POSITION of each value inside the window
    total = 0.0
    rows, cols = kernel_data.shape
    for r in range(rows):
        for c in range(cols):
            v = kernel_data[r, c]
            if not np.isnan(v):
                total += v * (1 + r * cols + c)
    return total


def weighted_reference(data, kernel):
    d = data.astype(np.float32)
    rows, cols = d.shape
    kr, kc = kernel.shape
    hr, hc = kr // 2, kc // 2
    out = np.zeros(d.shape, dtype=np.float32)
    with np.errstate(all='ignore'):
        for y in range(rows):
            for x in range(cols):
                total = 0.0
                for r in range(kr):
                    for c in range(kc):
                        yy, xx = y - hr + r, x - hc + c
                        if 0 <= yy < rows and 0 <= xx < cols and kernel[r, c] == 1:
                            v = d[yy, xx]
                            if not np.isnan(v):
                                total += float(v) * (1 + r * kc + c)
                out[y, x] = total
    return out


def dask_variants(data, call, rn, key):
    for ch in chunkings(*data.shape):
        for sched, kw in (('synchronous', {}), ('threads', {'num_workers': 3})):
            dagg = xr.DataArray(da.from_array(data, chunks=ch), dims=['y', 'x'])
            try:
                rd = call(dagg)
            except ValueError as e:
                # dask refuses an overlap depth larger than the raster (unchanged behaviour)
                check('overlapping depth' in str(e), key + ' unexpected ValueError %s' % e)
                DIGESTS['%s/dask%s/raises' % (key, ch)] = 'ValueError'
                continue
            check(isinstance(rd.data, da.Array), key + ' dask stays lazy')
            with dask.config.set(scheduler=sched, **kw):
                got = rd.data.compute()
            check(same(got, rn), '%s dask chunks=%s sched=%s' % (key, ch, sched))


def run_convolution():
    for rname, data in rasters().items():
        for kname, kernel in kernels().items():
            key = 'conv/%s/%s' % (rname, kname)
            agg = xr.DataArray(data, dims=['y', 'x'])
            r = convolution_2d(agg, kernel)
            rn = r.data
            check(isinstance(rn, np.ndarray) and rn.dtype == np.float32, key + ' numpy/f32')
            DIGESTS[key] = digest(rn)
            ref = conv_reference(data, kernel)
            check(same(rn, ref) or (np.array_equal(np.isnan(rn), np.isnan(ref)) and
                                    np.array_equal(rn[~np.isnan(rn)], ref[~np.isnan(ref)])),
                  key + ' independent reference (exact)')
            if kname in ('circle3x3', 'rect3x5', 'rect5x3', 'w_f64_3x5', 'row1x7', 'w_i64_5x3'):
                dask_variants(data, lambda a: convolution_2d(a, kernel), rn, key)


def run_apply():
    funcs = {'mean': (focal._calc_mean, np.nanmean), 'sum': (focal._calc_sum, np.nansum),
             'min': (focal._calc_min, np.nanmin), 'max': (focal._calc_max, np.nanmax),
             'std': (focal._calc_std, np.nanstd)}
    kk = kernels()
    binary_kernels = [k for k in kk if not k.startswith('w_')]
    for rname, data in rasters().items():
        for kname in binary_kernels:
            kernel = kk[kname]
            for fname, (nbf, npf) in funcs.items():
                if fname in ('min', 'max', 'std') and kname not in ('circle3x3', 'rect3x5'):
                    continue
                key = 'apply/%s/%s/%s' % (rname, kname, fname)
                agg = xr.DataArray(data, dims=['y', 'x'])
                rn = apply(agg, kernel, nbf).data
                check(isinstance(rn, np.ndarray) and rn.dtype == np.float32, key + ' numpy/f32')
                DIGESTS[key] = digest(rn)
                ref = apply_reference(data, kernel, npf)
                ok = np.array_equal(np.isnan(rn), np.isnan(ref)) and \
                    np.allclose(rn, ref, rtol=1e-5, atol=1e-4, equal_nan=True)
                check(ok, key + ' independent reference')
                if fname == 'mean' and kname in ('circle3x3', 'rect3x5', 'rect5x3', 'row1x7'):
                    dask_variants(data, lambda a: apply(a, kernel, nbf), rn, key)
            # position-dependent user function
            key = 'apply/%s/%s/weighted' % (rname, kname)
            rn = apply(xr.DataArray(data, dims=['y', 'x']), kernel, _weighted).data
            DIGESTS[key] = digest(rn)
            ref = weighted_reference(data, kernel)
            check(np.array_equal(np.isnan(rn), np.isnan(ref)) and
                  np.allclose(rn, ref, rtol=1e-6, atol=0, equal_nan=True),
                  key + ' independent reference')
            if kname in ('rect3x5', 'rect5x3'):
                dask_variants(data, lambda a: apply(a, kernel, _weighted), rn, key)


def run_focal_stats_and_hotspots():
    rs = rasters()
    kk = kernels()
    for rname in ('f64_7x9', 'i32_7x9', 'f32_nan_8x6', 'u8_5x8', 'f64_2x7'):
        data = rs[rname]
        for kname in ('circle3x3', 'rect3x5', 'col3x1'):
            kernel = kk[kname]
            key = 'focal_stats/%s/%s' % (rname, kname)
            r = focal_stats(xr.DataArray(data, dims=['y', 'x']), kernel)
            check(list(r['stats'].values) == ['mean', 'max', 'min', 'range', 'std', 'var', 'sum'],
                  key + ' stats coord')
            DIGESTS[key] = digest(r.data)
            for ch in chunkings(*data.shape)[:4]:
                rd = focal_stats(xr.DataArray(da.from_array(data, chunks=ch), dims=['y', 'x']),
                                 kernel)
                check(isinstance(rd.data, da.Array), key + ' dask lazy')
                check(same(rd.data.compute(), r.data), '%s dask chunks=%s' % (key, ch))
    for rname in ('f64_7x9', 'i32_7x9', 'i64_6x5', 'u8_5x8'):
        data = rs[rname]
        for kname in ('circle3x3', 'row1x3', 'rect3x5', 'rect5x3'):
            key = 'hotspots/%s/%s' % (rname, kname)
            r = hotspots(xr.DataArray(data, dims=['y', 'x']), kk[kname])
            check(r.data.dtype == np.int8, key + ' int8')
            DIGESTS[key] = digest(r.data)
            for ch in ((3, 4), (2, 2)):
                rd = hotspots(xr.DataArray(da.from_array(data, chunks=ch), dims=['y', 'x']),
                              kk[kname])
                check(isinstance(rd.data, da.Array), key + ' dask lazy')
                DIGESTS['%s/dask%s' % (key, ch)] = digest(rd.data.compute())


EXPECTED = {
'apply/f32_7x9/annulus5x5/mean': 'b5b89b902fe4d3585b74f335',
    'apply/f32_7x9/annulus5x5/sum': 'd82ed7c32d47ced79aff9407',
    'apply/f32_7x9/annulus5x5/weighted': '15e353d132a9d385143ed0c7',
    'apply/f32_7x9/circle3x3/max': '92c147bbaddd8fb7d01775c1',
    'apply/f32_7x9/circle3x3/mean': '30487cf43cf6c77d5a70fd65',
    'apply/f32_7x9/circle3x3/min': 'e67e887ccfdf1f237b710d69',
    'apply/f32_7x9/circle3x3/std': '857f50597678ad76220458b9',
    'apply/f32_7x9/circle3x3/sum': 'bd3bd9ae09c5c9cc3a073a65',
    'apply/f32_7x9/circle3x3/weighted': '4f4f060b3681e4d16ff21f96',
    'apply/f32_7x9/col3x1/mean': 'f4613e0242984587b8fe9b92',
    'apply/f32_7x9/col3x1/sum': '623af5a9e44a0108d4c6e5ae',
    'apply/f32_7x9/col3x1/weighted': '5de444226204d8b3652030f7',
    'apply/f32_7x9/one1x1/mean': 'a756dc3becc99d8825f4de13',
    'apply/f32_7x9/one1x1/sum': 'a756dc3becc99d8825f4de13',
    'apply/f32_7x9/one1x1/weighted': 'a756dc3becc99d8825f4de13',
    'apply/f32_7x9/ones3x3/mean': '249b0f7a95d6f4cd22d50d26',
    'apply/f32_7x9/ones3x3/sum': 'd4d1323dc1a7850415023bae',
    'apply/f32_7x9/ones3x3/weighted': '494a05f672f61d98c0396a34',
    'apply/f32_7x9/rect3x5/max': '9f3ccfd7d69074de6e56dab8',
    'apply/f32_7x9/rect3x5/mean': 'f2c1ec79947ef83343c5dcfa',
    'apply/f32_7x9/rect3x5/min': 'd04f6e61cdaccbcc665d25c7',
    'apply/f32_7x9/rect3x5/std': 'eb9b029fe4f509b44f95154e',
    'apply/f32_7x9/rect3x5/sum': 'c28564125fb3c2a25bae14f3',
    'apply/f32_7x9/rect3x5/weighted': '7d7bbbbb8d6ce164eca53721',
    'apply/f32_7x9/rect5x3/mean': 'b3c43c2933f83fc18a94a62b',
    'apply/f32_7x9/rect5x3/sum': '124a0ba50970348f1ba270a5',
    'apply/f32_7x9/rect5x3/weighted': '509636e89b2aaa72bb6de124',
    'apply/f32_7x9/row1x3/mean': '12e8854338e247e9f39544f8',
    'apply/f32_7x9/row1x3/sum': 'dd1ce298c35402bf9ac68f72',
    'apply/f32_7x9/row1x3/weighted': 'fa3195a1e9ac6d5416b0a786',
    'apply/f32_7x9/row1x7/mean': '7bebf309a330e373f6c898de',
    'apply/f32_7x9/row1x7/sum': 'c59f376543d807835fd79f1d',
    'apply/f32_7x9/row1x7/weighted': '07ba3f5aa557d386675dca62',
    'apply/f32_nan_8x6/annulus5x5/mean': '468d66b40707c508a02772bd',
    'apply/f32_nan_8x6/annulus5x5/sum': '11c8595976ed487b03a7703e',
    'apply/f32_nan_8x6/annulus5x5/weighted': '303a33e21ef64a6753b84d9e',
    'apply/f32_nan_8x6/circle3x3/max': '005c9ced03fa993bf5a9f329',
    'apply/f32_nan_8x6/circle3x3/mean': '21820cbc4cae894a5f39d13c',
    'apply/f32_nan_8x6/circle3x3/min': '684b15be59087d9e646791b7',
    'apply/f32_nan_8x6/circle3x3/std': 'b129454517037c1d81990b23',
    'apply/f32_nan_8x6/circle3x3/sum': '037ccbcc1602e6bdc1d02486',
    'apply/f32_nan_8x6/circle3x3/weighted': '41e721e61ed8780a9dd94368',
    'apply/f32_nan_8x6/col3x1/mean': '642450fb29628e00209d42b1',
    'apply/f32_nan_8x6/col3x1/sum': '97c9e772ecb396d49372d610',
    'apply/f32_nan_8x6/col3x1/weighted': '6525b6df400ae62eda640c2f',
    'apply/f32_nan_8x6/one1x1/mean': '31fc59d1e1910ac569e657bc',
    'apply/f32_nan_8x6/one1x1/sum': 'efe67ac2c86f300a80c53a3c',
    'apply/f32_nan_8x6/one1x1/weighted': 'efe67ac2c86f300a80c53a3c',
    'apply/f32_nan_8x6/ones3x3/mean': '5f35d56b4fce417d1a1362e5',
    'apply/f32_nan_8x6/ones3x3/sum': '89360bf2d6188afa5fb82ab0',
    'apply/f32_nan_8x6/ones3x3/weighted': '1341033693b19a24dcf73771',
    'apply/f32_nan_8x6/rect3x5/max': '6da523804f72e248eb8b83cd',
    'apply/f32_nan_8x6/rect3x5/mean': 'c144c9ad2892285428d81ab1',
    'apply/f32_nan_8x6/rect3x5/min': '2228e047a1c7bf228cfd8402',
    'apply/f32_nan_8x6/rect3x5/std': 'b2e1918213921bbe02ef6afb',
    'apply/f32_nan_8x6/rect3x5/sum': 'dfbe0371226b2b0dec22f17e',
    'apply/f32_nan_8x6/rect3x5/weighted': '5ea95613c47c2c9675a552d8',
    'apply/f32_nan_8x6/rect5x3/mean': '530917c8aed07c1134b7c988',
    'apply/f32_nan_8x6/rect5x3/sum': 'b69feeb4ce62f3903c1ea8df',
    'apply/f32_nan_8x6/rect5x3/weighted': '006ef8b27667b0bf8b53994d',
    'apply/f32_nan_8x6/row1x3/mean': 'bdadf6596faddc43ee82c6e4',
    'apply/f32_nan_8x6/row1x3/sum': '43334593717b7823045e20b4',
    'apply/f32_nan_8x6/row1x3/weighted': 'a7c3ce44017cdde92ec30871',
    'apply/f32_nan_8x6/row1x7/mean': '9835d7e1de8a594a4f0481c7',
    'apply/f32_nan_8x6/row1x7/sum': '9be47141e3a7834318a7247f',
    'apply/f32_nan_8x6/row1x7/weighted': '8995ef3ecc3698056b586fbf',
    'apply/f64_1x1/annulus5x5/mean': '3d8106d92e9af40a72494b9e',
    'apply/f64_1x1/annulus5x5/sum': '5d73d8bac17f2753f34fffd2',
    'apply/f64_1x1/annulus5x5/weighted': '5d73d8bac17f2753f34fffd2',
    'apply/f64_1x1/circle3x3/max': '43c096fe27f3820d9134bb68',
    'apply/f64_1x1/circle3x3/mean': '43c096fe27f3820d9134bb68',
    'apply/f64_1x1/circle3x3/min': '43c096fe27f3820d9134bb68',
    'apply/f64_1x1/circle3x3/std': '5d73d8bac17f2753f34fffd2',
    'apply/f64_1x1/circle3x3/sum': '43c096fe27f3820d9134bb68',
    'apply/f64_1x1/circle3x3/weighted': '67f80f44656859b75c879511',
    'apply/f64_1x1/col3x1/mean': '3d8106d92e9af40a72494b9e',
    'apply/f64_1x1/col3x1/sum': '5d73d8bac17f2753f34fffd2',
    'apply/f64_1x1/col3x1/weighted': '5d73d8bac17f2753f34fffd2',
    'apply/f64_1x1/one1x1/mean': '43c096fe27f3820d9134bb68',
    'apply/f64_1x1/one1x1/sum': '43c096fe27f3820d9134bb68',
    'apply/f64_1x1/one1x1/weighted': '43c096fe27f3820d9134bb68',
    'apply/f64_1x1/ones3x3/mean': '43c096fe27f3820d9134bb68',
    'apply/f64_1x1/ones3x3/sum': '43c096fe27f3820d9134bb68',
    'apply/f64_1x1/ones3x3/weighted': '67f80f44656859b75c879511',
    'apply/f64_1x1/rect3x5/max': '43c096fe27f3820d9134bb68',
    'apply/f64_1x1/rect3x5/mean': '43c096fe27f3820d9134bb68',
    'apply/f64_1x1/rect3x5/mean/dask(1, 1)/raises': 'ValueError',
    'apply/f64_1x1/rect3x5/mean/dask(2, 3)/raises': 'ValueError',
    'apply/f64_1x1/rect3x5/mean/dask(3, 2)/raises': 'ValueError',
    'apply/f64_1x1/rect3x5/mean/dask(4, 4)/raises': 'ValueError',
    'apply/f64_1x1/rect3x5/min': '43c096fe27f3820d9134bb68',
    'apply/f64_1x1/rect3x5/std': '5d73d8bac17f2753f34fffd2',
    'apply/f64_1x1/rect3x5/sum': '43c096fe27f3820d9134bb68',
    'apply/f64_1x1/rect3x5/weighted': '5aeb3b54733ed1d2522740fe',
    'apply/f64_1x1/rect3x5/weighted/dask(1, 1)/raises': 'ValueError',
    'apply/f64_1x1/rect3x5/weighted/dask(2, 3)/raises': 'ValueError',
    'apply/f64_1x1/rect3x5/weighted/dask(3, 2)/raises': 'ValueError',
    'apply/f64_1x1/rect3x5/weighted/dask(4, 4)/raises': 'ValueError',
    'apply/f64_1x1/rect5x3/mean': '43c096fe27f3820d9134bb68',
    'apply/f64_1x1/rect5x3/mean/dask(1, 1)/raises': 'ValueError',
    'apply/f64_1x1/rect5x3/mean/dask(2, 3)/raises': 'ValueError',
    'apply/f64_1x1/rect5x3/mean/dask(3, 2)/raises': 'ValueError',
    'apply/f64_1x1/rect5x3/mean/dask(4, 4)/raises': 'ValueError',
    'apply/f64_1x1/rect5x3/sum': '43c096fe27f3820d9134bb68',
    'apply/f64_1x1/rect5x3/weighted': '5aeb3b54733ed1d2522740fe',
    'apply/f64_1x1/rect5x3/weighted/dask(1, 1)/raises': 'ValueError',
    'apply/f64_1x1/rect5x3/weighted/dask(2, 3)/raises': 'ValueError',
    'apply/f64_1x1/rect5x3/weighted/dask(3, 2)/raises': 'ValueError',
    'apply/f64_1x1/rect5x3/weighted/dask(4, 4)/raises': 'ValueError',
    'apply/f64_1x1/row1x3/mean': '43c096fe27f3820d9134bb68',
    'apply/f64_1x1/row1x3/sum': '43c096fe27f3820d9134bb68',
    'apply/f64_1x1/row1x3/weighted': 'e472b4f221ff81220b6dedec',
    'apply/f64_1x1/row1x7/mean': '43c096fe27f3820d9134bb68',
    'apply/f64_1x1/row1x7/mean/dask(1, 1)/raises': 'ValueError',
    'apply/f64_1x1/row1x7/mean/dask(2, 3)/raises': 'ValueError',
    'apply/f64_1x1/row1x7/mean/dask(3, 2)/raises': 'ValueError',
    'apply/f64_1x1/row1x7/mean/dask(4, 4)/raises': 'ValueError',
    'apply/f64_1x1/row1x7/sum': '43c096fe27f3820d9134bb68',
    'apply/f64_1x1/row1x7/weighted': '8701f4d2ccdbe926c75047d3',
    'apply/f64_2x7/annulus5x5/mean': '33f50f7f289f9982187e8ce0',
    'apply/f64_2x7/annulus5x5/sum': 'a942ee8e2a43b5850d858a9c',
    'apply/f64_2x7/annulus5x5/weighted': 'cfcf37d9db28de15f8cd66aa',
    'apply/f64_2x7/circle3x3/max': '5b78d8dd0b72cfce230e4c3f',
    'apply/f64_2x7/circle3x3/mean': 'b9b95a26b690929008d7b146',
    'apply/f64_2x7/circle3x3/min': 'cce3a114238b1a2abd5dd0e9',
    'apply/f64_2x7/circle3x3/std': '50d8214d85efa8e3f920b2fc',
    'apply/f64_2x7/circle3x3/sum': '47c8ea3ccb60c794a80567c4',
    'apply/f64_2x7/circle3x3/weighted': '67faf2c3337ea1f24f2c0663',
    'apply/f64_2x7/col3x1/mean': 'd29ff2ff47c7ddedf3f7c431',
    'apply/f64_2x7/col3x1/sum': 'd29ff2ff47c7ddedf3f7c431',
    'apply/f64_2x7/col3x1/weighted': '2cc910a0ae74c67c839284a3',
    'apply/f64_2x7/one1x1/mean': '4b582572c7123b2b6d1e25b0',
    'apply/f64_2x7/one1x1/sum': '4b582572c7123b2b6d1e25b0',
    'apply/f64_2x7/one1x1/weighted': '4b582572c7123b2b6d1e25b0',
    'apply/f64_2x7/ones3x3/mean': 'e207d55e2398664e480b227e',
    'apply/f64_2x7/ones3x3/sum': '684bf0ec1bfe0a5d9d678d49',
    'apply/f64_2x7/ones3x3/weighted': 'bc0fad78e3d989fd7d0a0260',
    'apply/f64_2x7/rect3x5/max': 'b50f0ba6a3a196b2e9a5f098',
    'apply/f64_2x7/rect3x5/mean': '7bdb72b032e45932f5f68a84',
    'apply/f64_2x7/rect3x5/min': '41cc184d3bdb7a2966f6fcd3',
    'apply/f64_2x7/rect3x5/std': '36057a9430f2cc40f08ea3aa',
    'apply/f64_2x7/rect3x5/sum': '63dc5d9ed6cff70cf9219293',
    'apply/f64_2x7/rect3x5/weighted': 'ee3b31bdf2353dda7e871522',
    'apply/f64_2x7/rect5x3/mean': '80f96effa3198324ef2aa32e',
    'apply/f64_2x7/rect5x3/sum': '2839036286f2bdc68878d776',
    'apply/f64_2x7/rect5x3/weighted': '561463851d809a0ce4097f18',
    'apply/f64_2x7/row1x3/mean': '0227da6a5513096590a80937',
    'apply/f64_2x7/row1x3/sum': 'c9d22bdc3d98794abf49e5d9',
    'apply/f64_2x7/row1x3/weighted': 'd7ec6956ba2db8b7e63a2279',
    'apply/f64_2x7/row1x7/mean': '19f8da96fe9e9670c3a945e4',
    'apply/f64_2x7/row1x7/sum': '28d7cc4861e3645d634a172b',
    'apply/f64_2x7/row1x7/weighted': '8f851985bd0c7629093873a8',
    'apply/f64_3x3/annulus5x5/mean': '041e7522cbd107a39c02bac5',
    'apply/f64_3x3/annulus5x5/sum': 'da02285cddaf36c0ca4fd0f0',
    'apply/f64_3x3/annulus5x5/weighted': 'd101fceda0ac0e96bc1b008f',
    'apply/f64_3x3/circle3x3/max': 'cb42e1bb3493fce1e556a476',
    'apply/f64_3x3/circle3x3/mean': '69049fbf7cea4d1d97435bfb',
    'apply/f64_3x3/circle3x3/min': '867b055ba705beb7b024a2d4',
    'apply/f64_3x3/circle3x3/std': '20c8608f156b73a6d65b63e4',
    'apply/f64_3x3/circle3x3/sum': '9c09fdc9d3e2ea32d92470c7',
    'apply/f64_3x3/circle3x3/weighted': '4f780b11a4ff9396bc6e93f6',
    'apply/f64_3x3/col3x1/mean': '16303ac8738c4391fcaca33e',
    'apply/f64_3x3/col3x1/sum': '139d1ba9933ade6a605ad2ce',
    'apply/f64_3x3/col3x1/weighted': '3e6221cb4b1df01977feb7c8',
    'apply/f64_3x3/one1x1/mean': '7fc70402d82413d4377b8041',
    'apply/f64_3x3/one1x1/sum': '7fc70402d82413d4377b8041',
    'apply/f64_3x3/one1x1/weighted': '7fc70402d82413d4377b8041',
    'apply/f64_3x3/ones3x3/mean': '723ff4119af3bd5397140dc0',
    'apply/f64_3x3/ones3x3/sum': 'd117597aec5d4e31c8f3a0d1',
    'apply/f64_3x3/ones3x3/weighted': 'aaf3c06af3f4e732912b8247',
    'apply/f64_3x3/rect3x5/max': '3311c97a1c756ba185dcf9fe',
    'apply/f64_3x3/rect3x5/mean': '5a3de6318f88a10830c97829',
    'apply/f64_3x3/rect3x5/min': '61fdf6154422682823579902',
    'apply/f64_3x3/rect3x5/std': '9f9b7e429664566eb946b8cf',
    'apply/f64_3x3/rect3x5/sum': '5a0815f7d6552c8c0a683152',
    'apply/f64_3x3/rect3x5/weighted': '8f9fdb30ce2137b85dbe9ab4',
    'apply/f64_3x3/rect5x3/mean': 'a8bb638aaa7d495f45f7b887',
    'apply/f64_3x3/rect5x3/sum': 'e18f1370440f64af783d4fac',
    'apply/f64_3x3/rect5x3/weighted': '8dc60774bb097cea84ff6df1',
    'apply/f64_3x3/row1x3/mean': '338c02dd6b343c72469dfd88',
    'apply/f64_3x3/row1x3/sum': '2c722da514c98777319a76d1',
    'apply/f64_3x3/row1x3/weighted': '933f2784de8df873972ab086',
    'apply/f64_3x3/row1x7/mean': '545693ce34b499391b46fb51',
    'apply/f64_3x3/row1x7/sum': 'a9ba54ed0fdbea996731c40c',
    'apply/f64_3x3/row1x7/weighted': '4a1daaf8608354d339f08108',
    'apply/f64_5x1/annulus5x5/mean': 'b4f9eea4834cbca22eb49642',
    'apply/f64_5x1/annulus5x5/sum': '7121a3a156ab9fd78d800e7b',
    'apply/f64_5x1/annulus5x5/weighted': 'c7a0b68849081aab1a4c648a',
    'apply/f64_5x1/circle3x3/max': '2c7dc86c47c949906b13c661',
    'apply/f64_5x1/circle3x3/mean': 'afe869f0a0e859ebca41ac1f',
    'apply/f64_5x1/circle3x3/min': '135a1f32538ff4d7991281ff',
    'apply/f64_5x1/circle3x3/std': 'cc06e3e49ae61c9533776e63',
    'apply/f64_5x1/circle3x3/sum': '24a8469fa12c7f676440430b',
    'apply/f64_5x1/circle3x3/weighted': 'ca70243301f4e6de1628d62a',
    'apply/f64_5x1/col3x1/mean': '4ce889770596c2942b03d028',
    'apply/f64_5x1/col3x1/sum': '4226cd6b4d862ef888756fc5',
    'apply/f64_5x1/col3x1/weighted': '2d11d5b11205050e34999045',
    'apply/f64_5x1/one1x1/mean': 'f5132bcca84402fa930f128e',
    'apply/f64_5x1/one1x1/sum': 'f5132bcca84402fa930f128e',
    'apply/f64_5x1/one1x1/weighted': 'f5132bcca84402fa930f128e',
    'apply/f64_5x1/ones3x3/mean': 'afe869f0a0e859ebca41ac1f',
    'apply/f64_5x1/ones3x3/sum': '24a8469fa12c7f676440430b',
    'apply/f64_5x1/ones3x3/weighted': 'ca70243301f4e6de1628d62a',
    'apply/f64_5x1/rect3x5/max': '3b8a5cef2f9e3786ca10c094',
    'apply/f64_5x1/rect3x5/mean': '7e02618a9b02794703883d99',
    'apply/f64_5x1/rect3x5/mean/dask(1, 1)/raises': 'ValueError',
    'apply/f64_5x1/rect3x5/mean/dask(2, 3)/raises': 'ValueError',
    'apply/f64_5x1/rect3x5/mean/dask(3, 2)/raises': 'ValueError',
    'apply/f64_5x1/rect3x5/mean/dask(4, 4)/raises': 'ValueError',
    'apply/f64_5x1/rect3x5/mean/dask(5, 1)/raises': 'ValueError',
    'apply/f64_5x1/rect3x5/min': 'b362ac2d5ec0ca0c57c8dc03',
    'apply/f64_5x1/rect3x5/std': '199cbbe30f45ae9c4fc0ce1e',
    'apply/f64_5x1/rect3x5/sum': '80cac87146922cbde31947cb',
    'apply/f64_5x1/rect3x5/weighted': 'dfd4b75e08f14a3720ba7aec',
    'apply/f64_5x1/rect3x5/weighted/dask(1, 1)/raises': 'ValueError',
    'apply/f64_5x1/rect3x5/weighted/dask(2, 3)/raises': 'ValueError',
    'apply/f64_5x1/rect3x5/weighted/dask(3, 2)/raises': 'ValueError',
    'apply/f64_5x1/rect3x5/weighted/dask(4, 4)/raises': 'ValueError',
    'apply/f64_5x1/rect3x5/weighted/dask(5, 1)/raises': 'ValueError',
    'apply/f64_5x1/rect5x3/mean': 'afe869f0a0e859ebca41ac1f',
    'apply/f64_5x1/rect5x3/sum': '24a8469fa12c7f676440430b',
    'apply/f64_5x1/rect5x3/weighted': 'c6f871a66c67ae631b384190',
    'apply/f64_5x1/row1x3/mean': 'f5132bcca84402fa930f128e',
    'apply/f64_5x1/row1x3/sum': 'f5132bcca84402fa930f128e',
    'apply/f64_5x1/row1x3/weighted': '85c2012b253c19526538bbfc',
    'apply/f64_5x1/row1x7/mean': 'f5132bcca84402fa930f128e',
    'apply/f64_5x1/row1x7/mean/dask(1, 1)/raises': 'ValueError',
    'apply/f64_5x1/row1x7/mean/dask(2, 3)/raises': 'ValueError',
    'apply/f64_5x1/row1x7/mean/dask(3, 2)/raises': 'ValueError',
    'apply/f64_5x1/row1x7/mean/dask(4, 4)/raises': 'ValueError',
    'apply/f64_5x1/row1x7/mean/dask(5, 1)/raises': 'ValueError',
    'apply/f64_5x1/row1x7/sum': 'f5132bcca84402fa930f128e',
    'apply/f64_5x1/row1x7/weighted': '641a81659864f1c605c85146',
    'apply/f64_7x9/annulus5x5/mean': 'b5b89b902fe4d3585b74f335',
    'apply/f64_7x9/annulus5x5/sum': 'd82ed7c32d47ced79aff9407',
    'apply/f64_7x9/annulus5x5/weighted': '15e353d132a9d385143ed0c7',
    'apply/f64_7x9/circle3x3/max': '92c147bbaddd8fb7d01775c1',
    'apply/f64_7x9/circle3x3/mean': '30487cf43cf6c77d5a70fd65',
    'apply/f64_7x9/circle3x3/min': 'e67e887ccfdf1f237b710d69',
    'apply/f64_7x9/circle3x3/std': '857f50597678ad76220458b9',
    'apply/f64_7x9/circle3x3/sum': 'bd3bd9ae09c5c9cc3a073a65',
    'apply/f64_7x9/circle3x3/weighted': '4f4f060b3681e4d16ff21f96',
    'apply/f64_7x9/col3x1/mean': 'f4613e0242984587b8fe9b92',
    'apply/f64_7x9/col3x1/sum': '623af5a9e44a0108d4c6e5ae',
    'apply/f64_7x9/col3x1/weighted': '5de444226204d8b3652030f7',
    'apply/f64_7x9/one1x1/mean': 'a756dc3becc99d8825f4de13',
    'apply/f64_7x9/one1x1/sum': 'a756dc3becc99d8825f4de13',
    'apply/f64_7x9/one1x1/weighted': 'a756dc3becc99d8825f4de13',
    'apply/f64_7x9/ones3x3/mean': '249b0f7a95d6f4cd22d50d26',
    'apply/f64_7x9/ones3x3/sum': 'd4d1323dc1a7850415023bae',
    'apply/f64_7x9/ones3x3/weighted': '494a05f672f61d98c0396a34',
    'apply/f64_7x9/rect3x5/max': '9f3ccfd7d69074de6e56dab8',
    'apply/f64_7x9/rect3x5/mean': 'f2c1ec79947ef83343c5dcfa',
    'apply/f64_7x9/rect3x5/min': 'd04f6e61cdaccbcc665d25c7',
    'apply/f64_7x9/rect3x5/std': 'eb9b029fe4f509b44f95154e',
    'apply/f64_7x9/rect3x5/sum': 'c28564125fb3c2a25bae14f3',
    'apply/f64_7x9/rect3x5/weighted': '7d7bbbbb8d6ce164eca53721',
    'apply/f64_7x9/rect5x3/mean': 'b3c43c2933f83fc18a94a62b',
    'apply/f64_7x9/rect5x3/sum': '124a0ba50970348f1ba270a5',
    'apply/f64_7x9/rect5x3/weighted': '509636e89b2aaa72bb6de124',
    'apply/f64_7x9/row1x3/mean': '12e8854338e247e9f39544f8',
    'apply/f64_7x9/row1x3/sum': 'dd1ce298c35402bf9ac68f72',
    'apply/f64_7x9/row1x3/weighted': 'fa3195a1e9ac6d5416b0a786',
    'apply/f64_7x9/row1x7/mean': '7bebf309a330e373f6c898de',
    'apply/f64_7x9/row1x7/sum': 'c59f376543d807835fd79f1d',
    'apply/f64_7x9/row1x7/weighted': '07ba3f5aa557d386675dca62',
    'apply/f64_nan_8x6/annulus5x5/mean': '468d66b40707c508a02772bd',
    'apply/f64_nan_8x6/annulus5x5/sum': '11c8595976ed487b03a7703e',
    'apply/f64_nan_8x6/annulus5x5/weighted': '303a33e21ef64a6753b84d9e',
    'apply/f64_nan_8x6/circle3x3/max': '005c9ced03fa993bf5a9f329',
    'apply/f64_nan_8x6/circle3x3/mean': '21820cbc4cae894a5f39d13c',
    'apply/f64_nan_8x6/circle3x3/min': '684b15be59087d9e646791b7',
    'apply/f64_nan_8x6/circle3x3/std': 'b129454517037c1d81990b23',
    'apply/f64_nan_8x6/circle3x3/sum': '037ccbcc1602e6bdc1d02486',
    'apply/f64_nan_8x6/circle3x3/weighted': '41e721e61ed8780a9dd94368',
    'apply/f64_nan_8x6/col3x1/mean': '642450fb29628e00209d42b1',
    'apply/f64_nan_8x6/col3x1/sum': '97c9e772ecb396d49372d610',
    'apply/f64_nan_8x6/col3x1/weighted': '6525b6df400ae62eda640c2f',
    'apply/f64_nan_8x6/one1x1/mean': '31fc59d1e1910ac569e657bc',
    'apply/f64_nan_8x6/one1x1/sum': 'efe67ac2c86f300a80c53a3c',
    'apply/f64_nan_8x6/one1x1/weighted': 'efe67ac2c86f300a80c53a3c',
    'apply/f64_nan_8x6/ones3x3/mean': '5f35d56b4fce417d1a1362e5',
    'apply/f64_nan_8x6/ones3x3/sum': '89360bf2d6188afa5fb82ab0',
    'apply/f64_nan_8x6/ones3x3/weighted': '1341033693b19a24dcf73771',
    'apply/f64_nan_8x6/rect3x5/max': '6da523804f72e248eb8b83cd',
    'apply/f64_nan_8x6/rect3x5/mean': 'c144c9ad2892285428d81ab1',
    'apply/f64_nan_8x6/rect3x5/min': '2228e047a1c7bf228cfd8402',
    'apply/f64_nan_8x6/rect3x5/std': 'b2e1918213921bbe02ef6afb',
    'apply/f64_nan_8x6/rect3x5/sum': 'dfbe0371226b2b0dec22f17e',
    'apply/f64_nan_8x6/rect3x5/weighted': '5ea95613c47c2c9675a552d8',
    'apply/f64_nan_8x6/rect5x3/mean': '530917c8aed07c1134b7c988',
    'apply/f64_nan_8x6/rect5x3/sum': 'b69feeb4ce62f3903c1ea8df',
    'apply/f64_nan_8x6/rect5x3/weighted': '006ef8b27667b0bf8b53994d',
    'apply/f64_nan_8x6/row1x3/mean': 'bdadf6596faddc43ee82c6e4',
    'apply/f64_nan_8x6/row1x3/sum': '43334593717b7823045e20b4',
    'apply/f64_nan_8x6/row1x3/weighted': 'a7c3ce44017cdde92ec30871',
    'apply/f64_nan_8x6/row1x7/mean': '9835d7e1de8a594a4f0481c7',
    'apply/f64_nan_8x6/row1x7/sum': '9be47141e3a7834318a7247f',
    'apply/f64_nan_8x6/row1x7/weighted': '8995ef3ecc3698056b586fbf',
    'apply/i32_7x9/annulus5x5/mean': '91aa2ee52f1a64b943195128',
    'apply/i32_7x9/annulus5x5/sum': '91ba985f8a5e5ff472885da9',
    'apply/i32_7x9/annulus5x5/weighted': '0a51bc810a678a5b8d2764c8',
    'apply/i32_7x9/circle3x3/max': '1991e4e554194234cc3b1179',
    'apply/i32_7x9/circle3x3/mean': '691c8deb01cf405efc1b2697',
    'apply/i32_7x9/circle3x3/min': 'fb37757bb9cf4565fa840c24',
    'apply/i32_7x9/circle3x3/std': '4902a2a9c5be292f3c80eef6',
    'apply/i32_7x9/circle3x3/sum': 'cce00b62158352099c009b73',
    'apply/i32_7x9/circle3x3/weighted': '24505fc62396a4d4b7975d4a',
    'apply/i32_7x9/col3x1/mean': 'c1f8ca119afa82fc44f9b2dc',
    'apply/i32_7x9/col3x1/sum': '73b223b06b9e25c3133159fb',
    'apply/i32_7x9/col3x1/weighted': '0eab0063ed6262db21001432',
    'apply/i32_7x9/one1x1/mean': '97199ee6ce68dd93b4205bdb',
    'apply/i32_7x9/one1x1/sum': '97199ee6ce68dd93b4205bdb',
    'apply/i32_7x9/one1x1/weighted': '97199ee6ce68dd93b4205bdb',
    'apply/i32_7x9/ones3x3/mean': 'c72f8124c0f787e0f63f18b2',
    'apply/i32_7x9/ones3x3/sum': '29e8e32c21b03caf69c51b80',
    'apply/i32_7x9/ones3x3/weighted': '1a76af6ff89aa22b9fb1f896',
    'apply/i32_7x9/rect3x5/max': '4135b0d14fc9dfe1123fbf61',
    'apply/i32_7x9/rect3x5/mean': 'f6dcaaef22756cabb2bc5d1b',
    'apply/i32_7x9/rect3x5/min': 'a03716e3c7f11f8313279f89',
    'apply/i32_7x9/rect3x5/std': 'f7650dbd5554ffc428237dd5',
    'apply/i32_7x9/rect3x5/sum': '4bc45b39d419324d7620fad7',
    'apply/i32_7x9/rect3x5/weighted': '1de95641a99338d4c1164fd5',
    'apply/i32_7x9/rect5x3/mean': 'e0205f72c1d50a6ac9784145',
    'apply/i32_7x9/rect5x3/sum': 'e001dd83719e4f7033823990',
    'apply/i32_7x9/rect5x3/weighted': '1951d8625a97d039358a3283',
    'apply/i32_7x9/row1x3/mean': '288b3ad3909c6776d322f394',
    'apply/i32_7x9/row1x3/sum': 'cef2b2da6ab297fc6e9f1def',
    'apply/i32_7x9/row1x3/weighted': '22c1d4204b44a0b8108c2a4b',
    'apply/i32_7x9/row1x7/mean': '04e26ca8c2544657d410bc14',
    'apply/i32_7x9/row1x7/sum': 'e42825d7627a3f9d2bdf7b14',
    'apply/i32_7x9/row1x7/weighted': '37f39d0106bdc5fb02a5a30e',
    'apply/i64_6x5/annulus5x5/mean': 'afa3939924f44d0e6bed9f5f',
    'apply/i64_6x5/annulus5x5/sum': 'a4bd8924b628769c36cdfa22',
    'apply/i64_6x5/annulus5x5/weighted': 'a4b501d735d6f68fe2c4d4eb',
    'apply/i64_6x5/circle3x3/max': '471839f1fd6abff69b017f47',
    'apply/i64_6x5/circle3x3/mean': '4183d435d4eab35e61ca4af9',
    'apply/i64_6x5/circle3x3/min': '662dafd01859f9c422eff65a',
    'apply/i64_6x5/circle3x3/std': '1f85a861399d9bf7cb6632e3',
    'apply/i64_6x5/circle3x3/sum': 'f99d23f9f1ea3916ae61b5bb',
    'apply/i64_6x5/circle3x3/weighted': 'b4e2e691288ca60c35973cd4',
    'apply/i64_6x5/col3x1/mean': '86f8e463606e0fd5bbeacfe8',
    'apply/i64_6x5/col3x1/sum': '819b053365519191af89b732',
    'apply/i64_6x5/col3x1/weighted': '958d3622a1fa7553fe03df52',
    'apply/i64_6x5/one1x1/mean': '51fc9fb3877e790e2002b9dd',
    'apply/i64_6x5/one1x1/sum': '51fc9fb3877e790e2002b9dd',
    'apply/i64_6x5/one1x1/weighted': '51fc9fb3877e790e2002b9dd',
    'apply/i64_6x5/ones3x3/mean': '484130e9921b8862e6bf8094',
    'apply/i64_6x5/ones3x3/sum': '3865836ed993f80c92186094',
    'apply/i64_6x5/ones3x3/weighted': 'b08a720b545fe1bd8c1e7f2b',
    'apply/i64_6x5/rect3x5/max': 'b3f9ade033f76b017285d719',
    'apply/i64_6x5/rect3x5/mean': '478ce4b2355aeddbcc1c60d5',
    'apply/i64_6x5/rect3x5/min': '700716a0c56e2e98cce782c8',
    'apply/i64_6x5/rect3x5/std': 'cf1484baa665efb146d9a611',
    'apply/i64_6x5/rect3x5/sum': 'c27038002bef8caf524d9ce1',
    'apply/i64_6x5/rect3x5/weighted': '90f07e499eda00a34355be01',
    'apply/i64_6x5/rect5x3/mean': 'fd254deba436ab1ac5901484',
    'apply/i64_6x5/rect5x3/sum': 'f00c7c3bb99ec3e23c927274',
    'apply/i64_6x5/rect5x3/weighted': '8cc56b9bec2a3cee543ea8d9',
    'apply/i64_6x5/row1x3/mean': '96f57c89b978f0d5b0a1e559',
    'apply/i64_6x5/row1x3/sum': '3ede5db44bb00e6bc1c0e306',
    'apply/i64_6x5/row1x3/weighted': '947eed1f1531a29b49151ed0',
    'apply/i64_6x5/row1x7/mean': 'dad2586bc28600d846b8d97a',
    'apply/i64_6x5/row1x7/sum': '17ebc5cf5332c6c9dc148eb1',
    'apply/i64_6x5/row1x7/weighted': '0461128c1e974e51d13734da',
    'apply/u8_5x8/annulus5x5/mean': '85f2603e07dacdba83eee492',
    'apply/u8_5x8/annulus5x5/sum': 'ea31c2dfba84227c01597c05',
    'apply/u8_5x8/annulus5x5/weighted': '5016e507a13042d3eb3bdac4',
    'apply/u8_5x8/circle3x3/max': 'c2ad8a8589d5dee6c22cded1',
    'apply/u8_5x8/circle3x3/mean': 'f44aba2ae181ca67e345fff7',
    'apply/u8_5x8/circle3x3/min': '59f37fc6475c55053c955ea2',
    'apply/u8_5x8/circle3x3/std': '76975c84967c14a3b7997f14',
    'apply/u8_5x8/circle3x3/sum': 'e081f5fffd8c3805b9ebf203',
    'apply/u8_5x8/circle3x3/weighted': '2a510d6b5666840ff9f3e807',
    'apply/u8_5x8/col3x1/mean': 'c374177936acc496c90b5934',
    'apply/u8_5x8/col3x1/sum': 'ab68796d91e7d7fb4aaec6bc',
    'apply/u8_5x8/col3x1/weighted': '390190e1115f1aab56d9eea6',
    'apply/u8_5x8/one1x1/mean': '7b14f28849fe46acb622824d',
    'apply/u8_5x8/one1x1/sum': '7b14f28849fe46acb622824d',
    'apply/u8_5x8/one1x1/weighted': '7b14f28849fe46acb622824d',
    'apply/u8_5x8/ones3x3/mean': '834495b4973e3dc0e29a180c',
    'apply/u8_5x8/ones3x3/sum': 'fc44bc62eca8639d13305454',
    'apply/u8_5x8/ones3x3/weighted': '48f1e94bfe2178780765444d',
    'apply/u8_5x8/rect3x5/max': 'f75ea8139eb689dbc3d4265c',
    'apply/u8_5x8/rect3x5/mean': '0334459512078baf250e031e',
    'apply/u8_5x8/rect3x5/min': 'c0fca55d4e8a8056b61152da',
    'apply/u8_5x8/rect3x5/std': '29b8139f00bfcb950d9107d4',
    'apply/u8_5x8/rect3x5/sum': 'e1fc230deaabdaf35f2ef15c',
    'apply/u8_5x8/rect3x5/weighted': '0f2cea23cf443419d92f07d6',
    'apply/u8_5x8/rect5x3/mean': '5c6c33b8381c156e202be757',
    'apply/u8_5x8/rect5x3/sum': '09f53c7242440048b6435ec8',
    'apply/u8_5x8/rect5x3/weighted': '6461347e41b047faaf94ddda',
    'apply/u8_5x8/row1x3/mean': 'b2be17f6ab0fc2fdbe8a27ca',
    'apply/u8_5x8/row1x3/sum': 'ac7533dd8e087d9654d4982b',
    'apply/u8_5x8/row1x3/weighted': '19c51eae45f15b262da052f7',
    'apply/u8_5x8/row1x7/mean': '8b7d0ac9373cf123f11a9e33',
    'apply/u8_5x8/row1x7/sum': 'a8bc4752bdc40ec3c98fd74e',
    'apply/u8_5x8/row1x7/weighted': 'f8c4ec381b3daabe72441899',
    'conv/f32_7x9/annulus5x5': '8ffa1c5765bd8c54bea44669',
    'conv/f32_7x9/circle3x3': '9b777da6a74d5a5c6220235b',
    'conv/f32_7x9/col3x1': '5e67d4929df1f4b2914dd78a',
    'conv/f32_7x9/one1x1': 'a756dc3becc99d8825f4de13',
    'conv/f32_7x9/ones3x3': '9c5e91b18a030cc4384e86fc',
    'conv/f32_7x9/rect3x5': '6541c863554cdfaddcd73c29',
    'conv/f32_7x9/rect5x3': 'ec1dd61c9d85f75f17e8c93f',
    'conv/f32_7x9/row1x3': 'ddd13bcdb139e8749efeb8ba',
    'conv/f32_7x9/row1x7': 'efd6762b76768db8297fa644',
    'conv/f32_7x9/w_f32_3x3': '0f1d2bca162cf0423fc55893',
    'conv/f32_7x9/w_f64_3x5': 'a73d7d1933ab35992c759c5d',
    'conv/f32_7x9/w_i64_5x3': '3bb2788c300589ea3b6cebc8',
    'conv/f32_nan_8x6/annulus5x5': '444934edd9b664c025c7c025',
    'conv/f32_nan_8x6/circle3x3': '4485d5a864d36763e4de7f61',
    'conv/f32_nan_8x6/col3x1': 'e778900f38db525a412fda15',
    'conv/f32_nan_8x6/one1x1': '31fc59d1e1910ac569e657bc',
    'conv/f32_nan_8x6/ones3x3': '3ddc2416a99ffe4f096a558e',
    'conv/f32_nan_8x6/rect3x5': 'ee115d009b80a67f494346ac',
    'conv/f32_nan_8x6/rect5x3': '6acfd61dd031d82126f382bc',
    'conv/f32_nan_8x6/row1x3': '4fca81026e76056166ea9539',
    'conv/f32_nan_8x6/row1x7': '444934edd9b664c025c7c025',
    'conv/f32_nan_8x6/w_f32_3x3': 'efd93d71a7d0af6792bd02a4',
    'conv/f32_nan_8x6/w_f64_3x5': '5d7f57c5b0cd15d6dd7683aa',
    'conv/f32_nan_8x6/w_i64_5x3': 'a24e56e79d83993beb3ca311',
    'conv/f64_1x1/annulus5x5': '3d8106d92e9af40a72494b9e',
    'conv/f64_1x1/circle3x3': '3d8106d92e9af40a72494b9e',
    'conv/f64_1x1/col3x1': '3d8106d92e9af40a72494b9e',
    'conv/f64_1x1/one1x1': '43c096fe27f3820d9134bb68',
    'conv/f64_1x1/ones3x3': '3d8106d92e9af40a72494b9e',
    'conv/f64_1x1/rect3x5': '3d8106d92e9af40a72494b9e',
    'conv/f64_1x1/rect3x5/dask(1, 1)/raises': 'ValueError',
    'conv/f64_1x1/rect3x5/dask(2, 3)/raises': 'ValueError',
    'conv/f64_1x1/rect3x5/dask(3, 2)/raises': 'ValueError',
    'conv/f64_1x1/rect3x5/dask(4, 4)/raises': 'ValueError',
    'conv/f64_1x1/rect5x3': '3d8106d92e9af40a72494b9e',
    'conv/f64_1x1/rect5x3/dask(1, 1)/raises': 'ValueError',
    'conv/f64_1x1/rect5x3/dask(2, 3)/raises': 'ValueError',
    'conv/f64_1x1/rect5x3/dask(3, 2)/raises': 'ValueError',
    'conv/f64_1x1/rect5x3/dask(4, 4)/raises': 'ValueError',
    'conv/f64_1x1/row1x3': '3d8106d92e9af40a72494b9e',
    'conv/f64_1x1/row1x7': '3d8106d92e9af40a72494b9e',
    'conv/f64_1x1/row1x7/dask(1, 1)/raises': 'ValueError',
    'conv/f64_1x1/row1x7/dask(2, 3)/raises': 'ValueError',
    'conv/f64_1x1/row1x7/dask(3, 2)/raises': 'ValueError',
    'conv/f64_1x1/row1x7/dask(4, 4)/raises': 'ValueError',
    'conv/f64_1x1/w_f32_3x3': '3d8106d92e9af40a72494b9e',
    'conv/f64_1x1/w_f64_3x5': '3d8106d92e9af40a72494b9e',
    'conv/f64_1x1/w_f64_3x5/dask(1, 1)/raises': 'ValueError',
    'conv/f64_1x1/w_f64_3x5/dask(2, 3)/raises': 'ValueError',
    'conv/f64_1x1/w_f64_3x5/dask(3, 2)/raises': 'ValueError',
    'conv/f64_1x1/w_f64_3x5/dask(4, 4)/raises': 'ValueError',
    'conv/f64_1x1/w_i64_5x3': '3d8106d92e9af40a72494b9e',
    'conv/f64_1x1/w_i64_5x3/dask(1, 1)/raises': 'ValueError',
    'conv/f64_1x1/w_i64_5x3/dask(2, 3)/raises': 'ValueError',
    'conv/f64_1x1/w_i64_5x3/dask(3, 2)/raises': 'ValueError',
    'conv/f64_1x1/w_i64_5x3/dask(4, 4)/raises': 'ValueError',
    'conv/f64_2x7/annulus5x5': '6e6b82b580d67c71befe34d6',
    'conv/f64_2x7/circle3x3': '6e6b82b580d67c71befe34d6',
    'conv/f64_2x7/col3x1': '6e6b82b580d67c71befe34d6',
    'conv/f64_2x7/one1x1': '4b582572c7123b2b6d1e25b0',
    'conv/f64_2x7/ones3x3': '6e6b82b580d67c71befe34d6',
    'conv/f64_2x7/rect3x5': '6e6b82b580d67c71befe34d6',
    'conv/f64_2x7/rect5x3': '6e6b82b580d67c71befe34d6',
    'conv/f64_2x7/row1x3': 'a05f9c8de69116a9b4ed8092',
    'conv/f64_2x7/row1x7': '04e814f973e9cf185944c542',
    'conv/f64_2x7/w_f32_3x3': '6e6b82b580d67c71befe34d6',
    'conv/f64_2x7/w_f64_3x5': '6e6b82b580d67c71befe34d6',
    'conv/f64_2x7/w_i64_5x3': '6e6b82b580d67c71befe34d6',
    'conv/f64_3x3/annulus5x5': '1a875ff48d092440ec53e6ea',
    'conv/f64_3x3/circle3x3': '0c977bb6a77d9c769dff0cdc',
    'conv/f64_3x3/col3x1': '5476f7f6b86dfca6595f4603',
    'conv/f64_3x3/one1x1': '7fc70402d82413d4377b8041',
    'conv/f64_3x3/ones3x3': 'e8ca8373530dd3e8a3bb2e9f',
    'conv/f64_3x3/rect3x5': '1a875ff48d092440ec53e6ea',
    'conv/f64_3x3/rect5x3': '1a875ff48d092440ec53e6ea',
    'conv/f64_3x3/row1x3': '97488fc095aba59ff256a230',
    'conv/f64_3x3/row1x7': '1a875ff48d092440ec53e6ea',
    'conv/f64_3x3/w_f32_3x3': '5e26682f0813c36bfe97bada',
    'conv/f64_3x3/w_f64_3x5': '1a875ff48d092440ec53e6ea',
    'conv/f64_3x3/w_i64_5x3': '1a875ff48d092440ec53e6ea',
    'conv/f64_5x1/annulus5x5': '1e59735f4d4cf8f278ed4d4f',
    'conv/f64_5x1/circle3x3': '1e59735f4d4cf8f278ed4d4f',
    'conv/f64_5x1/col3x1': 'cf267eb45d272c6e672bd15b',
    'conv/f64_5x1/one1x1': 'f5132bcca84402fa930f128e',
    'conv/f64_5x1/ones3x3': '1e59735f4d4cf8f278ed4d4f',
    'conv/f64_5x1/rect3x5': '1e59735f4d4cf8f278ed4d4f',
    'conv/f64_5x1/rect3x5/dask(1, 1)/raises': 'ValueError',
    'conv/f64_5x1/rect3x5/dask(2, 3)/raises': 'ValueError',
    'conv/f64_5x1/rect3x5/dask(3, 2)/raises': 'ValueError',
    'conv/f64_5x1/rect3x5/dask(4, 4)/raises': 'ValueError',
    'conv/f64_5x1/rect3x5/dask(5, 1)/raises': 'ValueError',
    'conv/f64_5x1/rect5x3': '1e59735f4d4cf8f278ed4d4f',
    'conv/f64_5x1/row1x3': '1e59735f4d4cf8f278ed4d4f',
    'conv/f64_5x1/row1x7': '1e59735f4d4cf8f278ed4d4f',
    'conv/f64_5x1/row1x7/dask(1, 1)/raises': 'ValueError',
    'conv/f64_5x1/row1x7/dask(2, 3)/raises': 'ValueError',
    'conv/f64_5x1/row1x7/dask(3, 2)/raises': 'ValueError',
    'conv/f64_5x1/row1x7/dask(4, 4)/raises': 'ValueError',
    'conv/f64_5x1/row1x7/dask(5, 1)/raises': 'ValueError',
    'conv/f64_5x1/w_f32_3x3': '1e59735f4d4cf8f278ed4d4f',
    'conv/f64_5x1/w_f64_3x5': '1e59735f4d4cf8f278ed4d4f',
    'conv/f64_5x1/w_f64_3x5/dask(1, 1)/raises': 'ValueError',
    'conv/f64_5x1/w_f64_3x5/dask(2, 3)/raises': 'ValueError',
    'conv/f64_5x1/w_f64_3x5/dask(3, 2)/raises': 'ValueError',
    'conv/f64_5x1/w_f64_3x5/dask(4, 4)/raises': 'ValueError',
    'conv/f64_5x1/w_f64_3x5/dask(5, 1)/raises': 'ValueError',
    'conv/f64_5x1/w_i64_5x3': '1e59735f4d4cf8f278ed4d4f',
    'conv/f64_7x9/annulus5x5': '8ffa1c5765bd8c54bea44669',
    'conv/f64_7x9/circle3x3': '9b777da6a74d5a5c6220235b',
    'conv/f64_7x9/col3x1': '5e67d4929df1f4b2914dd78a',
    'conv/f64_7x9/one1x1': 'a756dc3becc99d8825f4de13',
    'conv/f64_7x9/ones3x3': '9c5e91b18a030cc4384e86fc',
    'conv/f64_7x9/rect3x5': '6541c863554cdfaddcd73c29',
    'conv/f64_7x9/rect5x3': 'ec1dd61c9d85f75f17e8c93f',
    'conv/f64_7x9/row1x3': 'ddd13bcdb139e8749efeb8ba',
    'conv/f64_7x9/row1x7': 'efd6762b76768db8297fa644',
    'conv/f64_7x9/w_f32_3x3': '0f1d2bca162cf0423fc55893',
    'conv/f64_7x9/w_f64_3x5': 'a73d7d1933ab35992c759c5d',
    'conv/f64_7x9/w_i64_5x3': '3bb2788c300589ea3b6cebc8',
    'conv/f64_nan_8x6/annulus5x5': '444934edd9b664c025c7c025',
    'conv/f64_nan_8x6/circle3x3': '4485d5a864d36763e4de7f61',
    'conv/f64_nan_8x6/col3x1': 'e778900f38db525a412fda15',
    'conv/f64_nan_8x6/one1x1': '31fc59d1e1910ac569e657bc',
    'conv/f64_nan_8x6/ones3x3': '3ddc2416a99ffe4f096a558e',
    'conv/f64_nan_8x6/rect3x5': 'ee115d009b80a67f494346ac',
    'conv/f64_nan_8x6/rect5x3': '6acfd61dd031d82126f382bc',
    'conv/f64_nan_8x6/row1x3': '4fca81026e76056166ea9539',
    'conv/f64_nan_8x6/row1x7': '444934edd9b664c025c7c025',
    'conv/f64_nan_8x6/w_f32_3x3': 'efd93d71a7d0af6792bd02a4',
    'conv/f64_nan_8x6/w_f64_3x5': '5d7f57c5b0cd15d6dd7683aa',
    'conv/f64_nan_8x6/w_i64_5x3': 'a24e56e79d83993beb3ca311',
    'conv/i32_7x9/annulus5x5': '4c00f9b6129beca33c521660',
    'conv/i32_7x9/circle3x3': '2f9d7b07756e5cfd1d315daa',
    'conv/i32_7x9/col3x1': 'a4479bb211d75d8e7492ced9',
    'conv/i32_7x9/one1x1': '97199ee6ce68dd93b4205bdb',
    'conv/i32_7x9/ones3x3': '4f317a2f6b96a682e10e22d2',
    'conv/i32_7x9/rect3x5': '43e163ba18b7e87f1f7e4398',
    'conv/i32_7x9/rect5x3': '1fbb534e609475ecd385dbe3',
    'conv/i32_7x9/row1x3': 'c939c9069f0c464b5e730188',
    'conv/i32_7x9/row1x7': 'd7bce6830bb8f2a371b6d23d',
    'conv/i32_7x9/w_f32_3x3': '584756dd3ff2c84e4592c9a6',
    'conv/i32_7x9/w_f64_3x5': 'b636c597d8f508769911f068',
    'conv/i32_7x9/w_i64_5x3': '7b97ea821a65e46864fc4f05',
    'conv/i64_6x5/annulus5x5': 'a032997ccbb9362ccd0d7102',
    'conv/i64_6x5/circle3x3': 'd2860b92371697f49f2d0203',
    'conv/i64_6x5/col3x1': '1481e034293587ed06c21cf9',
    'conv/i64_6x5/one1x1': '51fc9fb3877e790e2002b9dd',
    'conv/i64_6x5/ones3x3': '972decb79bfe06b0ee668446',
    'conv/i64_6x5/rect3x5': '2b949301643b8a275cb3cdf1',
    'conv/i64_6x5/rect5x3': '265569e1d3ef8735b7cd23b8',
    'conv/i64_6x5/row1x3': '315b9e6483ad8adc33f369ea',
    'conv/i64_6x5/row1x7': '42d80eb0c97eaa7ff190ffb9',
    'conv/i64_6x5/w_f32_3x3': '3a5a263ba60d135f3eb1a14e',
    'conv/i64_6x5/w_f64_3x5': 'fcdf77a23a3237fa1400dc60',
    'conv/i64_6x5/w_i64_5x3': 'b244b3d07604b4467a5e580b',
    'conv/u8_5x8/annulus5x5': '23f7cf37fac1ed36688274f6',
    'conv/u8_5x8/circle3x3': '1d91f6738cc0ff1584c57d92',
    'conv/u8_5x8/col3x1': '87073cf9a62c1ccdd32089d3',
    'conv/u8_5x8/one1x1': '7b14f28849fe46acb622824d',
    'conv/u8_5x8/ones3x3': 'd1ee97154ce45bda16d5ba36',
    'conv/u8_5x8/rect3x5': 'bea9385928d5cc3114f1ac4c',
    'conv/u8_5x8/rect5x3': '63523f0eec59295dc2b60bf7',
    'conv/u8_5x8/row1x3': '8fa075ad8543bbcea56b892e',
    'conv/u8_5x8/row1x7': '1075bf6f83d70c2a681127ce',
    'conv/u8_5x8/w_f32_3x3': 'ccf25131f3efbe68add22787',
    'conv/u8_5x8/w_f64_3x5': '54a6a4b2db79d122cb53bce4',
    'conv/u8_5x8/w_i64_5x3': '890eb20299a7f94a6d468694',
    'focal_stats/f32_nan_8x6/circle3x3': '26694c58f705941576a1fc9b',
    'focal_stats/f32_nan_8x6/col3x1': '10b9756b9d69162730dce75c',
    'focal_stats/f32_nan_8x6/rect3x5': '4a9ba629ea43dc3066d840be',
    'focal_stats/f64_2x7/circle3x3': '7ab6f58c83ee157b8f9a0dec',
    'focal_stats/f64_2x7/col3x1': 'ad2d7435e1ac3c0091ba2107',
    'focal_stats/f64_2x7/rect3x5': '40053e18a8ea09fd7848a6c0',
    'focal_stats/f64_7x9/circle3x3': '095e0eeda0cf2568770a47c5',
    'focal_stats/f64_7x9/col3x1': '809f24b3c4a4781cec17c150',
    'focal_stats/f64_7x9/rect3x5': 'bfd55e3d683af0f9d28a5d7b',
    'focal_stats/i32_7x9/circle3x3': 'e3b91cd7df59db85bc594c8c',
    'focal_stats/i32_7x9/col3x1': '96dea51dfba0634027b5f2af',
    'focal_stats/i32_7x9/rect3x5': '55b12ba878b433c1267b1783',
    'focal_stats/u8_5x8/circle3x3': '63775d74f7759629b3a308db',
    'focal_stats/u8_5x8/col3x1': '7f1feb1aa5b05bd4dc938139',
    'focal_stats/u8_5x8/rect3x5': 'a0da237e53f92a0c9587add6',
    'hotspots/f64_7x9/circle3x3': '90f73da7fa25dd640ed5f0cd',
    'hotspots/f64_7x9/circle3x3/dask(2, 2)': '90f73da7fa25dd640ed5f0cd',
    'hotspots/f64_7x9/circle3x3/dask(3, 4)': '90f73da7fa25dd640ed5f0cd',
    'hotspots/f64_7x9/rect3x5': '90f73da7fa25dd640ed5f0cd',
    'hotspots/f64_7x9/rect3x5/dask(2, 2)': '90f73da7fa25dd640ed5f0cd',
    'hotspots/f64_7x9/rect3x5/dask(3, 4)': '90f73da7fa25dd640ed5f0cd',
    'hotspots/f64_7x9/rect5x3': '90f73da7fa25dd640ed5f0cd',
    'hotspots/f64_7x9/rect5x3/dask(2, 2)': '90f73da7fa25dd640ed5f0cd',
    'hotspots/f64_7x9/rect5x3/dask(3, 4)': '90f73da7fa25dd640ed5f0cd',
    'hotspots/f64_7x9/row1x3': '90f73da7fa25dd640ed5f0cd',
    'hotspots/f64_7x9/row1x3/dask(2, 2)': '90f73da7fa25dd640ed5f0cd',
    'hotspots/f64_7x9/row1x3/dask(3, 4)': '90f73da7fa25dd640ed5f0cd',
    'hotspots/i32_7x9/circle3x3': '90f73da7fa25dd640ed5f0cd',
    'hotspots/i32_7x9/circle3x3/dask(2, 2)': '90f73da7fa25dd640ed5f0cd',
    'hotspots/i32_7x9/circle3x3/dask(3, 4)': '90f73da7fa25dd640ed5f0cd',
    'hotspots/i32_7x9/rect3x5': '90f73da7fa25dd640ed5f0cd',
    'hotspots/i32_7x9/rect3x5/dask(2, 2)': '90f73da7fa25dd640ed5f0cd',
    'hotspots/i32_7x9/rect3x5/dask(3, 4)': '90f73da7fa25dd640ed5f0cd',
    'hotspots/i32_7x9/rect5x3': '90f73da7fa25dd640ed5f0cd',
    'hotspots/i32_7x9/rect5x3/dask(2, 2)': '90f73da7fa25dd640ed5f0cd',
    'hotspots/i32_7x9/rect5x3/dask(3, 4)': '90f73da7fa25dd640ed5f0cd',
    'hotspots/i32_7x9/row1x3': '90f73da7fa25dd640ed5f0cd',
    'hotspots/i32_7x9/row1x3/dask(2, 2)': '90f73da7fa25dd640ed5f0cd',
    'hotspots/i32_7x9/row1x3/dask(3, 4)': '90f73da7fa25dd640ed5f0cd',
    'hotspots/i64_6x5/circle3x3': '3561ac8da1002f548b4481f8',
    'hotspots/i64_6x5/circle3x3/dask(2, 2)': '3561ac8da1002f548b4481f8',
    'hotspots/i64_6x5/circle3x3/dask(3, 4)': '3561ac8da1002f548b4481f8',
    'hotspots/i64_6x5/rect3x5': '3561ac8da1002f548b4481f8',
    'hotspots/i64_6x5/rect3x5/dask(2, 2)': '3561ac8da1002f548b4481f8',
    'hotspots/i64_6x5/rect3x5/dask(3, 4)': '3561ac8da1002f548b4481f8',
    'hotspots/i64_6x5/rect5x3': '3561ac8da1002f548b4481f8',
    'hotspots/i64_6x5/rect5x3/dask(2, 2)': '3561ac8da1002f548b4481f8',
    'hotspots/i64_6x5/rect5x3/dask(3, 4)': '3561ac8da1002f548b4481f8',
    'hotspots/i64_6x5/row1x3': '3561ac8da1002f548b4481f8',
    'hotspots/i64_6x5/row1x3/dask(2, 2)': '3561ac8da1002f548b4481f8',
    'hotspots/i64_6x5/row1x3/dask(3, 4)': '3561ac8da1002f548b4481f8',
    'hotspots/u8_5x8/circle3x3': '23961c55d329186537aeba93',
    'hotspots/u8_5x8/circle3x3/dask(2, 2)': '23961c55d329186537aeba93',
    'hotspots/u8_5x8/circle3x3/dask(3, 4)': '23961c55d329186537aeba93',
    'hotspots/u8_5x8/rect3x5': '23961c55d329186537aeba93',
    'hotspots/u8_5x8/rect3x5/dask(2, 2)': '23961c55d329186537aeba93',
    'hotspots/u8_5x8/rect3x5/dask(3, 4)': '23961c55d329186537aeba93',
    'hotspots/u8_5x8/rect5x3': '23961c55d329186537aeba93',
    'hotspots/u8_5x8/rect5x3/dask(2, 2)': '23961c55d329186537aeba93',
    'hotspots/u8_5x8/rect5x3/dask(3, 4)': '23961c55d329186537aeba93',
    'hotspots/u8_5x8/row1x3': '7fdb06786cb70ba440876db8',
    'hotspots/u8_5x8/row1x3/dask(2, 2)': '7fdb06786cb70ba440876db8',
    'hotspots/u8_5x8/row1x3/dask(3, 4)': '7fdb06786cb70ba440876db8',
}


def main():
    print('xrspatial from', xrspatial.__file__)
    run_convolution()
    run_apply()
    run_focal_stats_and_hotspots()
    if '--record' in sys.argv:
        for k in sorted(DIGESTS):
            print("    %r: %r," % (k, DIGESTS[k]))
        return 1 if FAILS else 0
    check(set(EXPECTED) == set(DIGESTS), 'digest key sets differ')
    for k in sorted(DIGESTS):
        check(EXPECTED.get(k) == DIGESTS[k], 'digest mismatch vs unmodified tree: ' + k)
    print('%d cases, %d failures' % (len(DIGESTS), len(FAILS)))
    return 1 if FAILS else 0


if __name__ == '__main__':
    sys.exit(main())
