"""Differential test for euclidean/manhattan/great_circle distance (C19) and the
proximity wrappers that dispatch to them.  Compares against an independent
math-module reference (tolerance) and against a digest recorded on the unmodified
tree (bitwise).  Exit 0 if identical.
"""
import hashlib
import itertools
import math
import sys
import warnings

import numpy as np
import xarray as xr
import dask.array as da

import xrspatial
from xrspatial import (allocation, direction, euclidean_distance, great_circle_distance,
                       manhattan_distance, proximity)

warnings.filterwarnings('ignore')
print('xrspatial from', xrspatial.__file__)

RECORDED = '419c1ead2fafcfaf0c0a6811760bf0acdd487a842b92180d960e622c2f481bf5'
fails = []
log = []


def enc(v):
    if isinstance(v, np.ndarray):
        return ('arr', str(v.dtype), v.shape, v.tobytes().hex())
    if isinstance(v, (float, np.floating)):
        return (type(v).__name__, np.float64(v).tobytes().hex())
    return (type(v).__name__, repr(v))


def run(tag, f, *a, **k):
    try:
        r = f(*a, **k)
        out = ('ok', enc(r))
    except Exception as e:  # noqa
        r = e
        out = ('exc', type(e).__name__, str(e))
    log.append((tag, out))
    return r


def ref_gc(x1, x2, y1, y2, radius=6378137):
    lat1, lon1, lat2, lon2 = map(math.radians, (y1, x1, y2, x2))
    a = math.sin((lat2 - lat1) / 2.0) ** 2 + \
        math.cos(lat1) * math.cos(lat2) * math.sin((lon2 - lon1) / 2.0) ** 2
    return radius * 2 * math.asin(math.sqrt(a))


def ref_err(x1, x2, y1, y2):
    if x1 > 180 or x1 < -180:
        return "Invalid x-coordinate of the first point.Must be in the range [-180, 180]"
    if x2 > 180 or x2 < -180:
        return "Invalid x-coordinate of the second point.Must be in the range [-180, 180]"
    if y1 > 90 or y1 < -90:
        return "Invalid y-coordinate of the first point.Must be in the range [-90, 90]"
    if y2 > 90 or y2 < -90:
        return "Invalid y-coordinate of the second point.Must be in the range [-90, 90]"
    return None


lons = [-180, -180.0, -179.999, -90, -45.5, 0, 0.0, 1e-9, 33.3, 90, 179.999, 180, 180.0,
        -180.0000001, 180.0000001, 181, -200, 1e6, float('nan'), float('inf'), -float('inf')]
lats = [-90, -90.0, -89.9999, -45, -1e-9, 0, 0.0, 12.5, 45, 89.9999, 90, 90.0,
        90.0000001, -90.0000001, 91, -100, float('nan'), float('inf')]
pts = list(itertools.product(lons[::2], lats[::2])) + list(itertools.product(lons[1::3], lats[1::3]))
rng = np.random.RandomState(7)
pts += [(float(a), float(b)) for a, b in zip(rng.uniform(-180, 180, 25), rng.uniform(-90, 90, 25))]
pairs = [(p, q) for i, p in enumerate(pts) for j, q in enumerate(pts) if (i * 7 + j * 3) % 11 == 0]
pairs += [(p, p) for p in pts]
# antipodes / antimeridian / poles
pairs += [((0, 0), (180, 0)), ((-180, 0), (180, 0)), ((10, 20), (-170, -20)), ((0, 90), (77, 90)),
          ((0, 90), (0, -90)), ((179.5, 10), (-179.5, 10)), ((45, 45), (-135, -45)),
          ((123.2, 82.32), (178.0, 65.09))]

for (x1, y1), (x2, y2) in pairs:
    d = run(('gc', repr((x1, x2, y1, y2))), great_circle_distance, x1, x2, y1, y2)
    msg = ref_err(x1, x2, y1, y2)
    if msg is not None:
        if not (isinstance(d, ValueError) and str(d) == msg):
            fails.append(('gc-err', x1, x2, y1, y2, repr(d)))
    else:
        if isinstance(d, Exception):
            fails.append(('gc-unexpected-exc', x1, x2, y1, y2, repr(d)))
            continue
        e = ref_gc(x1, x2, y1, y2)
        if not isinstance(d, float):
            fails.append(('gc-type', type(d)))
        if math.isnan(e) != math.isnan(d) or (not math.isnan(e) and abs(e - d) > 1e-9 * max(1, abs(e))):
            fails.append(('gc-ref', x1, x2, y1, y2, d, e))
        if not math.isnan(d):
            if d > math.pi * 6378137 * (1 + 1e-15):
                fails.append(('gc-half', d))
            if (x1, y1) == (x2, y2) and d != 0:
                fails.append(('gc-zero', x1, y1, d))
    for nm, f, rf in (('eu', euclidean_distance, lambda a, b, c, d: math.sqrt((a - b) ** 2 + (c - d) ** 2)),
                      ('mh', manhattan_distance, lambda a, b, c, d: abs(a - b) + abs(c - d))):
        v = run((nm, repr((x1, x2, y1, y2))), f, x1, x2, y1, y2)
        try:
            e = rf(x1, x2, y1, y2)
        except OverflowError:
            e = float('inf')
        if isinstance(v, Exception) or not (v == e or (math.isnan(v) and math.isnan(e))
                                            or abs(v - e) <= 1e-12 * abs(e)):
            fails.append((nm, x1, x2, y1, y2, repr(v), e))

# radius argument: positional, keyword, various types; argument dtypes
valid = [((123.2, 82.32), (178.0, 65.09)), ((0, 0), (180, 0)), ((-73.9, 40.7), (2.35, 48.85)),
         ((10, -90), (20, 90)), ((5.5, 5.5), (5.5, 5.5))]
for (x1, y1), (x2, y2) in valid:
    for rad in [6378137, 6378137.0, 1, 1.0, 0, -2.5, 6371008.8, np.float32(100.5), np.int32(10), 1e300,
                float('nan'), float('inf')]:
        run(('gc-rad-pos', x1, y1, x2, y2, repr(rad)), great_circle_distance, x1, x2, y1, y2, rad)
        run(('gc-rad-kw', x1, y1, x2, y2, repr(rad)), great_circle_distance, x1, x2, y1, y2, radius=rad)
    for cast in [np.float32, np.float64, np.int64, np.int32, int]:
        run(('gc-cast', x1, y1, x2, y2, cast.__name__), great_circle_distance,
            cast(x1), cast(x2), cast(y1), cast(y2))
        run(('gc-cast-mixed', x1, y1, x2, y2, cast.__name__), great_circle_distance,
            cast(x1), x2, y1, cast(y2), np.float32(3.0))
        run(('eu-cast', x1, y1, x2, y2, cast.__name__), euclidean_distance,
            cast(x1), cast(x2), cast(y1), cast(y2))
        run(('mh-cast', x1, y1, x2, y2, cast.__name__), manhattan_distance,
            cast(x1), cast(x2), cast(y1), cast(y2))
    run(('gc-kwargs', x1, y1, x2, y2), lambda: great_circle_distance(x1=x1, x2=x2, y1=y1, y2=y2))

# symmetry + triangle inequality on valid random triples (independent property check)
tri = [(float(a), float(b)) for a, b in zip(rng.uniform(-180, 180, 30), rng.uniform(-90, 90, 30))]
tri += [(180.0, 0.0), (-180.0, 0.0), (0.0, 90.0), (0.0, -90.0), (90.0, 0.0)]
for f, tol in ((great_circle_distance, 1e-6), (euclidean_distance, 1e-9), (manhattan_distance, 1e-9)):
    for a, b, c in itertools.islice(itertools.permutations(tri, 3), 0, None, 97):
        dab = f(a[0], b[0], a[1], b[1])
        dba = f(b[0], a[0], b[1], a[1])
        dbc = f(b[0], c[0], b[1], c[1])
        dac = f(a[0], c[0], a[1], c[1])
        log.append(('tri', enc(dab), enc(dbc), enc(dac)))
        if abs(dab - dba) > tol * 1e-3 or dac > dab + dbc + tol:
            fails.append(('metric', f.__name__, a, b, c))

# wrappers using the metrics: numpy + dask, several dtypes, NaNs, odd shapes
for dt in [np.float64, np.float32, np.int32]:
    for shape in [(7, 9), (1, 6)]:
        h, w = shape
        arr = np.zeros(shape, dtype=dt)
        r2 = np.random.RandomState(h * 31 + w)
        idx = r2.choice(h * w, size=max(1, h * w // 8), replace=False)
        arr.ravel()[idx] = r2.randint(1, 4, size=idx.size)
        if np.issubdtype(dt, np.floating):
            arr.ravel()[(idx[0] + 1) % (h * w)] = np.nan
        for coords in [(np.linspace(-80, 80, h)[::-1], np.linspace(-179, 179, w)),
                       (np.linspace(0, 10, h), np.linspace(170, 180, w)),
                       (np.linspace(-95, 80, h), np.linspace(-100, 190, w))]:
            for chunks in [None, (max(1, h // 2), max(1, w // 2))]:
                d = arr if chunks is None else da.from_array(arr, chunks=chunks)
                ras = xr.DataArray(d, dims=['lat', 'lon'], coords={'lat': coords[0], 'lon': coords[1]})
                for metric in ['GREAT_CIRCLE', 'EUCLIDEAN', 'MANHATTAN']:
                    fns = [(proximity, {})]
                    if dt is np.float64 and shape == (7, 9):
                        fns += [(allocation, {}), (direction, {}), (proximity, {'target_values': [2, 3]})]
                    for fn, kw in fns:
                        run((fn.__name__, str(dt), shape, float(coords[0][0]), float(coords[1][-1]),
                             chunks, metric, repr(kw)),
                            lambda: np.asarray(fn(ras, x='lon', y='lat', distance_metric=metric,
                                                  **kw).values))

digest = hashlib.sha256(repr(log).encode()).hexdigest()
nexc = sum(1 for t in log if len(t) == 2 and t[1][0] == 'exc')
wr = [t for t in log if len(t) == 2 and t[0][0] in ('proximity', 'allocation', 'direction')]
print('wrapper cases: numpy ok', sum(1 for t, o in wr if t[5] is None and o[0] == 'ok'),
      'numpy exc', sum(1 for t, o in wr if t[5] is None and o[0] == 'exc'),
      'dask ok', sum(1 for t, o in wr if t[5] is not None and o[0] == 'ok'),
      'dask exc', sum(1 for t, o in wr if t[5] is not None and o[0] == 'exc'),
      sorted(set(o[2][:60] for t, o in wr if o[0] == 'exc')))
print('cases', len(log), 'exceptions', nexc, 'digest', digest)
if fails:
    print('REFERENCE MISMATCHES', len(fails), fails[:10])
    sys.exit(1)
if digest != RECORDED:
    print('DIGEST MISMATCH, expected', RECORDED)
    sys.exit(2)
print('OK')
