"""Differential test for TC19-t21 (great_circle_distance split into phases).

Runs great_circle_distance (jitted, and in a child process with
NUMBA_DISABLE_JIT=1 as plain Python), the other two metrics, the private
_distance dispatcher and proximity/allocation/direction
with the GREAT_CIRCLE metric on numpy and dask rasters.  Results (float.hex /
raw bytes, dtypes, exception types and messages) are hashed and compared with a
digest recorded from the unmodified tree; metric axioms and agreement with an
independent haversine written with the math module are checked as well.
Exit code 0 when identical.
"""
import hashlib
import importlib
import itertools
import math
import os
import subprocess
import sys
import warnings

import numpy as np
import xarray as xr

import xrspatial
from xrspatial import (allocation, direction, euclidean_distance, great_circle_distance,
                       manhattan_distance, proximity)

px = importlib.import_module('xrspatial.proximity')
warnings.simplefilter('ignore')

NOJIT = os.environ.get('NUMBA_DISABLE_JIT') == '1'
EXPECTED_DIGEST_JIT = "05d2348173976d93fc833b97aeb67030ea5c21b71f1b39c181cd3571c3898fd4"
EXPECTED_DIGEST_NOJIT = "00770bb59b2c3cc559cdd6d939900c83433f1ae8bf732d20c2cfcafeb1c08416"
EXPECTED_DIGEST = EXPECTED_DIGEST_NOJIT if NOJIT else EXPECTED_DIGEST_JIT

h = hashlib.sha256()
fails = []


def enc(obj):
    if isinstance(obj, np.ndarray):
        return ('nd', str(obj.dtype), obj.shape, obj.tobytes())
    if isinstance(obj, (float, np.floating)):
        return (type(obj).__name__, float(obj).hex())
    return (type(obj).__name__, repr(obj))


def call(tag, f, *a, **k):
    try:
        r = f(*a, **k)
    except Exception as e:  # noqa
        h.update(repr((tag, 'EXC', type(e).__name__, str(e))).encode())
        return e
    h.update(repr((tag, enc(r))).encode())
    return r


def ref_gc(x1, x2, y1, y2, radius=6378137):
    la1, lo1, la2, lo2 = map(math.radians, (y1, x1, y2, x2))
    a = math.sin((la2 - la1) / 2.0) ** 2 + \
        math.cos(la1) * math.cos(la2) * math.sin((lo2 - lo1) / 2.0) ** 2
    return radius * 2 * math.asin(math.sqrt(a))


lons = [-180, -179.999, -120.5, -45, -1e-9, 0, 1e-9, 13.37, 90, 123.2, 178.0, 179.999, 180]
lats = [-90, -89.999, -45.5, -1e-9, 0, 1e-9, 23.4, 65.09, 82.32, 89.999, 90]
pts = list(itertools.product(lons, lats))
rng = np.random.RandomState(21)
sel = [pts[i] for i in rng.choice(len(pts), 60, replace=False)]
sel += [(0, 90), (180, 90), (-180, -90), (0, 0), (180, 0), (-180, 0), (90, 0), (-90, 0),
        (45, 45), (-135, -45)]
HALF = math.pi * 6378137

for (xa, ya), (xb, yb) in itertools.product(sel, sel):
    d = call(('gc', xa, ya, xb, yb), great_circle_distance, xa, xb, ya, yb)
    d2 = great_circle_distance(xb, xa, yb, ya)
    if isinstance(d, Exception) or float(d).hex() != float(d2).hex():
        fails.append(('symmetry', xa, ya, xb, yb))
        continue
    if (xa, ya) == (xb, yb) and d != 0.0:
        fails.append(('zero', xa, ya))
    if not (0 <= d <= HALF * (1 + 1e-15)):
        fails.append(('half circumference', xa, ya, xb, yb, d))
    r = ref_gc(xa, xb, ya, yb)
    if abs(d - r) > 1e-6 + 1e-12 * r:
        fails.append(('haversine', xa, ya, xb, yb, d, r))

# triangle inequality on a subset of triples
sub = sel[::5]
for p, q, r in itertools.product(sub, sub, sub):
    dpq = great_circle_distance(p[0], q[0], p[1], q[1])
    dqr = great_circle_distance(q[0], r[0], q[1], r[1])
    dpr = great_circle_distance(p[0], r[0], p[1], r[1])
    # haversine loses ~sqrt(eps)*R (decimetres) next to antipodes
    if dpr > dpq + dqr + 1.0:
        fails.append(('triangle', p, q, r))

# argument types: python ints, floats, numpy scalars of several widths, radius argument
for conv in (int, float, np.float64, np.float32, np.int32, np.int64, np.int8):
    for x1, x2, y1, y2 in [(0, 0, 0, 0), (10, 20, 30, 40), (-120, 120, -60, 60),
                           (180, -180, 90, -90), (1, 2, 3, 4)]:
        a = tuple(conv(v) if abs(v) < 128 or conv is not np.int8 else conv(100)
                  for v in (x1, x2, y1, y2))
        call(('types', conv.__name__, a), great_circle_distance, *a)
        call(('types-radius', conv.__name__, a), great_circle_distance, *a, 1.0)
        call(('types-radius-kw', conv.__name__, a), great_circle_distance, *a, radius=3389500)

# range validation: every argument, both sides, first offending argument wins
bad = [180.0000001, -180.0000001, 181, -181, 1e9, np.inf, -np.inf]
badlat = [90.0000001, -90.0000001, 91, -91, 1e9, np.inf, -np.inf]
for b in bad:
    call(('bad-x1', b), great_circle_distance, b, 0.0, 0.0, 0.0)
    call(('bad-x2', b), great_circle_distance, 0.0, b, 0.0, 0.0)
for b in badlat:
    call(('bad-y1', b), great_circle_distance, 0.0, 0.0, b, 0.0)
    call(('bad-y2', b), great_circle_distance, 0.0, 0.0, 0.0, b)
for combo in itertools.product([0.0, 500.0], repeat=4):
    call(('bad-combo', combo), great_circle_distance, *combo)
for combo in itertools.product([0.0, np.nan], repeat=4):
    call(('nan-combo', combo), great_circle_distance, *combo)

# the other two metrics and the private dispatcher
for (xa, ya), (xb, yb) in itertools.product(sel[::3], sel[::3]):
    call(('eu', xa, ya, xb, yb), euclidean_distance, xa, xb, ya, yb)
    call(('mh', xa, ya, xb, yb), manhattan_distance, xa, xb, ya, yb)
    for metric in (px.EUCLIDEAN, px.GREAT_CIRCLE, px.MANHATTAN):
        call(('_distance', metric, xa, ya, xb, yb), px._distance,
             float(xa), float(xb), float(ya), float(yb), metric)
call('_distance-bad', px._distance, 500.0, 0.0, 0.0, 0.0, px.GREAT_CIRCLE)

if not NOJIT:
    # rasters: proximity / allocation / direction with GREAT_CIRCLE, numpy and dask
    import dask.array as da  # noqa

    rng = np.random.RandomState(5)
    H, W = 14, 19
    for dt in (np.float64, np.float32, np.int32):
        data = np.zeros((H, W), dtype=dt)
        idx = rng.choice(H * W, 9, replace=False)
        data.flat[idx] = rng.randint(1, 5, size=9)
        if np.issubdtype(dt, np.floating):
            data[2, 3] = np.nan
        for xs, ys in [(np.linspace(-180, 180, W), np.linspace(90, -90, H)),
                       (np.linspace(170, 180, W), np.linspace(-5, 5, H)),
                       (np.linspace(-30, 40.5, W), np.linspace(89, 90, H))]:
            for fn in (proximity, allocation, direction):
                for kw in ({}, {'target_values': [2, 3], 'max_distance': 2.0e6}):
                    agg_np = xr.DataArray(data, dims=['y', 'x'], coords={'y': ys, 'x': xs})
                    agg_da = xr.DataArray(da.from_array(data, chunks=(5, 7)), dims=['y', 'x'],
                                          coords={'y': ys, 'x': xs})
                    tag = (fn.__name__, str(dt), float(xs[0]), float(ys[0]), repr(kw))
                    r_np = call(tag + ('np',),
                                lambda: fn(agg_np, distance_metric='GREAT_CIRCLE', **kw).values)
                    r_da = call(tag + ('da',), lambda: fn(
                        agg_da, distance_metric='GREAT_CIRCLE', **kw).compute().values)
                    if kw:
                        # with max_distance the two backends already differ on the
                        # unmodified tree; both are pinned by the digest only
                        continue
                    if isinstance(r_np, Exception) != isinstance(r_da, Exception):
                        fails.append(('np/dask', tag))
                    elif not isinstance(r_np, Exception) and not np.array_equal(
                            r_np, r_da, equal_nan=True):
                        fails.append(('np/dask', tag))
    # out-of-range coordinates must still be rejected through the raster API
    bad_agg = xr.DataArray(np.eye(4), dims=['y', 'x'],
                           coords={'y': np.linspace(100, 0, 4), 'x': np.linspace(0, 200, 4)})
    call('prox-bad', lambda: proximity(bad_agg, distance_metric='GREAT_CIRCLE').values)

digest = h.hexdigest()
print('xrspatial from', xrspatial.__file__)
print('digest', digest)
if fails:
    print('INDEPENDENT CHECK FAILURES:', fails[:20], len(fails))
    sys.exit(1)
if EXPECTED_DIGEST.startswith('@@'):
    print('no digest recorded')
    sys.exit(2)
elif digest != EXPECTED_DIGEST:
    print('DIGEST MISMATCH, expected', EXPECTED_DIGEST)
    sys.exit(1)
print('OK', 'nojit' if NOJIT else 'jit')
if not NOJIT:
    # same scalar checks with numba disabled (the library as plain Python)
    env = dict(os.environ, NUMBA_DISABLE_JIT='1')
    sys.exit(subprocess.call([sys.executable, os.path.abspath(__file__)], env=env))
