"""Differential test for TC19-t13 (validation / argument handling of radius strings
in xrspatial.convolution: _get_distance, circle_kernel, annulus_kernel, calc_cellsize).

Compares the library against (a) an independent reference implementation of the
distance-string parser embedded below and (b) digests recorded on the unmodified tree.
Run with --record to print the digests.
"""
import hashlib
import itertools
import re
import sys

import numpy as np
import xarray as xr

import xrspatial
from xrspatial import convolution as cv

REF_UNITS = {'meter': 1, 'meters': 1, 'm': 1,
             'feet': 0.3048, 'foot': 0.3048, 'ft': 0.3048,
             'miles': 1609.344, 'mls': 1609.344, 'ml': 1609.344,
             'kilometer': 1000, 'kilometers': 1000, 'km': 1000}


def ref_get_distance(s):
    """Independent re-statement of the accepted grammar / error precedence."""
    splits = [x for x in re.split(r'(-?\d*\.?\d+)', s) if x != '']
    if len(splits) != 1 and len(splits) != 2:
        return ('ValueError', 'Invalid distance.')
    unit = splits[1] if len(splits) == 2 else 'meter'
    try:
        d = float(splits[0])
    except ValueError:
        return ('ValueError', 'Distance should be a positive numeric value.\n')
    if d <= 0:
        return ('ValueError', 'Distance should be a positive.\n')
    unit = unit.lower().replace(' ', '')
    if unit not in REF_UNITS:
        return ('ValueError', 'UNIT')
    return ('ok', (d * REF_UNITS[unit]).hex() if isinstance(d * REF_UNITS[unit], float)
            else repr(d * REF_UNITS[unit]))


def outcome(f, *a):
    try:
        r = f(*a)
    except Exception as e:  # noqa
        msg = e.args[0] if e.args else ''
        if isinstance(msg, str) and msg.startswith('Distance unit should be one of'):
            # full text checked through the digest below
            return (type(e).__name__, 'UNIT'), (type(e).__name__, e.args)
        return (type(e).__name__, msg), (type(e).__name__, e.args)
    if isinstance(r, np.ndarray):
        return ('ok', (r.dtype.str, r.shape, hashlib.sha256(r.tobytes()).hexdigest())), None
    if isinstance(r, float):
        return ('ok', r.hex()), None
    return ('ok', repr(r)), None


numbers = ['1', '0', '-1', '2.5', '.5', '5.', '-0', '-.5', '1e3', '10', '007', '3.0.1', '',
           'nan', 'inf', '1 2', '--3', '+4', '0.0', '1609.344', '12345678.9']
units = ['', 'm', 'M', 'meter', 'meters', 'Meters', ' m', 'm ', 'k m', 'km', 'KM', 'kilometer',
         'kilometers', 'ft', 'foot', 'feet', 'Feet', 'ml', 'mls', 'miles', 'mile', 'yard', 'cm',
         ' ', 'm2', 'km5m', '-', 'e', '_']
STRINGS = [n + u for n, u in itertools.product(numbers, units)]
STRINGS += [u + n for n, u in itertools.product(['1', '2.5'], ['km', 'm', ' '])]
STRINGS += ['abc', 'km', '1km2', '1 km 2', '１', '1\n', '\n1', '1\tkm', '1.5e-3km', '5 Miles']


def compute():
    out = []
    bad = 0
    for s in STRINGS:
        got, full = outcome(cv._get_distance, s)
        exp = ref_get_distance(s)
        if got != exp:
            print('MISMATCH vs reference _get_distance(%r): %r != %r' % (s, got, exp))
            bad += 1
        out.append((s, got, full))
    # public wrappers: radius given as int / float / str / other objects, several cell sizes
    radii = [1, 3, 2.5, '3', '3m', '0.01km', '10 ft', '0.002 miles', 0, -1, '-2m', '3 yards',
             'abc', '', None, True, 1e-3, np.float32(2.5), np.int64(4), '1 2 3', (3,), 7.999]
    cells = [(1, 1), (1, 2), (0.5, 0.25), (2, 1), (3, 3), (np.float32(0.3), 0.7), (10, 10)]
    for r in radii:
        for cx, cy in cells:
            out.append(('circle', repr(r), repr((cx, cy)), outcome(cv.circle_kernel, cx, cy, r)))
    for ro, ri in [(3, 1), ('5', '2'), ('0.01km', '3m'), (2, 2), (1, 3), (3, 0), ('x', 1),
                   (3, 'x'), (0, 'x'), ('1 2 3', -1), (4.5, 1.2), ('20ft', '2ft'), (3, 2)]:
        for cx, cy in cells:
            out.append(('annulus', repr(ro), repr(ri), repr((cx, cy)),
                        outcome(cv.annulus_kernel, cx, cy, ro, ri)))
    # calc_cellsize goes through the same unit table
    for attrs in [{}, {'unit': 'km'}, {'unit': 'ft'}, {'unit': 'miles'}, {'unit': 'yard'},
                  {'res': (0.5, 2)}, {'res': 3.0, 'unit': 'km'}, {'unit': 'KM'}]:
        for ny, nx, flip in [(5, 7, False), (4, 3, True)]:
            ys = np.linspace(0, 8, ny)[::-1] if flip else np.linspace(0, 8, ny)
            a = xr.DataArray(np.ones((ny, nx)), dims=['y', 'x'],
                             coords={'y': ys, 'x': np.linspace(0, 3, nx)}, attrs=attrs)
            out.append(('cellsize', repr(attrs), flip, outcome(cv.calc_cellsize, a)))
    digest = hashlib.sha256(repr(out).encode()).hexdigest()
    return bad, len(out), digest


EXPECTED = (886, '49fbb4049f7fb2c500fe3cb67d3867e4efe2d52f2b10e78c887cc2d1f18c76ee')

if __name__ == '__main__':
    print('xrspatial from', xrspatial.__file__)
    bad, n, digest = compute()
    if '--record' in sys.argv:
        print((n, digest))
        sys.exit(0)
    if bad:
        print('FAIL: %d mismatches against the reference parser' % bad)
        sys.exit(1)
    if (n, digest) != EXPECTED:
        print('FAIL: digest differs from the one recorded on the unmodified tree', (n, digest))
        sys.exit(1)
    print('OK: %d cases identical' % n)
