import base64
import io
import os
import sys
import zlib

import numpy as np
import xarray as xr

import xrspatial
from xrspatial import viewshed

WORKTREE = os.environ.get("XRS_WORKTREE", "/tmp/t4/TC05")
assert os.path.realpath(xrspatial.__file__).startswith(os.path.realpath(WORKTREE)), \
    xrspatial.__file__


def make_raster(data, xres=1.0, yres=1.0, x0=0.0, y0=0.0, descending_y=False):
    h, w = data.shape
    xs = x0 + np.arange(w) * xres
    ys = y0 + np.arange(h) * yres
    if descending_y:
        ys = ys[::-1].copy()
    return xr.DataArray(data.copy(), dims=['y', 'x'],
                        coords={'y': ys, 'x': xs}, attrs={'res': (xres, yres)})


def build_cases():
    rng = np.random.RandomState(20240517)
    cases = []
    shapes = [(2, 2), (2, 5), (5, 2), (3, 3), (4, 7), (7, 4), (6, 6), (9, 11),
              (1 + 2, 8), (8, 3), (13, 5)]
    dtypes = [np.float64, np.float32, np.int32, np.int64, np.uint8, np.int16]
    k = 0
    for shape in shapes:
        h, w = shape
        terrains = {
            'rand': rng.uniform(-20, 50, size=shape),
            'ties': rng.randint(0, 3, size=shape).astype(np.float64),
            'flat': np.full(shape, 7.0),
            'ramp': np.add.outer(np.arange(h), 2.0 * np.arange(w)),
            'bowl': np.add.outer((np.arange(h) - h // 2) ** 2,
                                 (np.arange(w) - w // 2) ** 2).astype(float),
        }
        # observers: 4 corners, an edge, an interior / random one
        obs = [(0, 0), (0, w - 1), (h - 1, 0), (h - 1, w - 1),
               (0, w // 2), (h // 2, 0), (h // 2, w // 2),
               (rng.randint(h), rng.randint(w))]
        for tname, t in terrains.items():
            for (r, c) in obs:
                k += 1
                # thin the matrix deterministically to keep runtime small
                if (k % 3) != 0 and shape not in [(2, 2), (3, 3)]:
                    continue
                dt = dtypes[k % len(dtypes)]
                if np.issubdtype(dt, np.unsignedinteger):
                    data = np.abs(t).astype(dt)
                else:
                    data = t.astype(dt)
                xres, yres = [(1.0, 1.0), (2.5, 0.5), (0.25, 3.0), (10.0, 10.0)][k % 4]
                oe = [0, 0.0, 1.7, 5, -2.5, 30.0, -0.5][k % 7]
                te = [0, 0.0, 2.0, 0.3, 10][k % 5]
                desc = (k % 2 == 0)
                cases.append(dict(name='%s-%dx%d-o%d_%d-%s' % (tname, h, w, r, c,
                                                              np.dtype(dt).name),
                                  data=data, r=r, c=c, xres=xres, yres=yres,
                                  oe=oe, te=te, desc=desc, off=0.0))
    # NaN-containing terrains (beyond the quantified domain, still recorded)
    for i in range(6):
        shape = [(5, 5), (4, 9), (7, 3)][i % 3]
        data = rng.uniform(0, 10, size=shape)
        m = rng.uniform(size=shape) < 0.2
        r, c = rng.randint(shape[0]), rng.randint(shape[1])
        m[r, c] = False
        data[m] = np.nan
        if i % 2:
            data = data.astype(np.float32)
        cases.append(dict(name='nan-%d' % i, data=data, r=r, c=c, xres=1.0,
                          yres=2.0, oe=[0, 1.5, -1.0][i % 3], te=[0, 1.0][i % 2],
                          desc=bool(i % 2), off=0.0))
    # observer given off the exact cell centre (nearest-neighbour snapping) and
    # non-zero coordinate origins
    for i in range(5):
        shape = (6, 8)
        data = rng.uniform(-5, 5, size=shape).round(0 if i % 2 else 3)
        r, c = rng.randint(shape[0]), rng.randint(shape[1])
        cases.append(dict(name='snap-%d' % i, data=data, r=r, c=c, xres=3.0,
                          yres=2.0, oe=i * 0.75, te=0.1 * i, desc=bool(i % 2),
                          off=[0.3, -0.3, 0.49, -0.2, 0.1][i]))
    return cases


def run_case(cs):
    ras = make_raster(cs['data'], cs['xres'], cs['yres'], x0=100.0, y0=-40.0,
                      descending_y=cs['desc'])
    x = float(ras.x.values[cs['c']])
    y = float(ras.y.values[cs['r']])
    if cs['off']:
        x = min(max(x + cs['off'] * cs['xres'], ras.x.values.min()), ras.x.values.max())
        y = min(max(y - cs['off'] * cs['yres'], ras.y.values.min()), ras.y.values.max())
    out = viewshed(ras, x=x, y=y, observer_elev=cs['oe'], target_elev=cs['te'])
    assert isinstance(out, xr.DataArray)
    assert out.dims == ('y', 'x')
    assert np.array_equal(out.x.values, ras.x.values)
    assert np.array_equal(out.y.values, ras.y.values)
    assert out.attrs == ras.attrs
    # documented side effect of the cpu path: input raster cast to float64
    return np.asarray(out.values), str(out.dtype), str(ras.dtype)


def independent_checks(cs, res):
    """Checks computed independently from the library: observer cell is 180,
    all other cells are -1 or the vertical angle from observer to cell."""
    data = cs['data'].astype(np.float64)
    if cs['off']:
        return []
    h, w = data.shape
    r0, c0 = cs['r'], cs['c']
    errs = []
    if res[r0, c0] != 180:
        errs.append('observer cell != 180')
    vp = data[r0, c0] + cs['oe']
    te = cs['te'] if cs['te'] > 0 else 0.0
    for r in range(h):
        for c in range(w):
            if (r, c) == (r0, c0):
                continue
            v = res[r, c]
            if v == -1:
                continue
            if np.isnan(data[r, c]):
                continue
            d = np.hypot((c - c0) * cs['xres'], (r - r0) * cs['yres'])
            dz = (data[r, c] + te) - vp
            exp = 90.0 + np.degrees(np.arctan2(dz, d))
            if not (abs(exp - v) < 1e-9):
                errs.append('vertical angle at %s: %r vs %r' % ((r, c), v, exp))
    # immediate 8-neighbours... the 4-neighbours of the observer are always visible
    for dr, dc in [(0, 1), (1, 0), (0, -1), (-1, 0)]:
        r, c = r0 + dr, c0 + dc
        if 0 <= r < h and 0 <= c < w and not np.isnan(data).any():
            if res[r, c] == -1:
                errs.append('4-neighbour of observer invisible at %s' % ((r, c),))
    return errs


def error_behaviour():
    out = []
    ras = make_raster(np.arange(12.0).reshape(3, 4))
    for kw in [dict(x=-1, y=1), dict(x=1, y=7), dict(x=99, y=99)]:
        try:
            viewshed(ras.copy(deep=True), **kw)
            out.append('noerror')
        except Exception as e:  # noqa
            out.append('%s:%s' % (type(e).__name__, e))
    try:
        import dask.array as da
        dr = make_raster(np.arange(12.0).reshape(3, 4))
        dr.data = da.from_array(dr.data, chunks=(2, 2))
        try:
            viewshed(dr, x=1, y=1)
            out.append('dask-noerror')
        except Exception as e:  # noqa
            out.append('%s:%s' % (type(e).__name__, e))
    except ImportError:
        out.append('nodask')
    return out


def docstring_example():
    data = np.array([[0, 0, 1, 0, 0], [1, 3, 0, 0, 0], [10, 2, 5, 2, -1],
                     [11, 1, 2, 9, 0]])
    terrain = xr.DataArray(data, dims=['y', 'x'])
    h, w = data.shape
    terrain['y'] = np.linspace(1, h, h)
    terrain['x'] = np.linspace(1, w, w)
    got = viewshed(terrain, x=3, y=2).values
    exp = np.array([[-1., 90., 135., 90., -1.],
                    [-1., 161.56505118, 180., 90., 90.],
                    [167.39561735, 144.73561032, 168.69006753, 144.73561032, -1.],
                    [165.57993189, -1., -1., 166.0472636, -1.]])
    return np.allclose(got, exp, atol=1e-7, rtol=0)


def pack(arrs):
    buf = io.BytesIO()
    np.savez(buf, **arrs)
    return base64.b64encode(zlib.compress(buf.getvalue(), 9)).decode('ascii')


def unpack(s):
    return dict(np.load(io.BytesIO(zlib.decompress(base64.b64decode(s)))))


def main():
    cases = build_cases()
    results = {}
    meta = []
    fails = []
    for i, cs in enumerate(cases):
        try:
            res, odt, idt = run_case(cs)
        except Exception as e:  # noqa  (recorded: must raise identically)
            results['c%03d' % i] = np.zeros((0,), dtype=np.float64)
            meta.append((cs['name'], 'EXC', '%s:%s' % (type(e).__name__, e)))
            continue
        results['c%03d' % i] = res
        meta.append((cs['name'], odt, idt))
        for e in independent_checks(cs, res):
            fails.append('%s: %s' % (cs['name'], e))
    errs = error_behaviour()
    if not docstring_example():
        fails.append('docstring example mismatch')

    if '--record' in sys.argv:
        with open(sys.argv[sys.argv.index('--record') + 1], 'w') as f:
            f.write('EXPECTED_META = %r\n' % (meta,))
            f.write('EXPECTED_ERRS = %r\n' % (errs,))
            f.write('EXPECTED_BLOB = (\n')
            s = pack(results)
            for j in range(0, len(s), 76):
                f.write('    %r\n' % s[j:j + 76])
            f.write(')\n')
        print('recorded', len(cases), 'cases')
        return 0

    exp = unpack(EXPECTED_BLOB)
    if len(exp) != len(results):
        fails.append('case count %d vs %d' % (len(results), len(exp)))
    for i, cs in enumerate(cases):
        key = 'c%03d' % i
        got, want = results[key], exp[key]
        if got.dtype != want.dtype or got.shape != want.shape:
            fails.append('%s: dtype/shape %s%s vs %s%s' % (
                cs['name'], got.dtype, got.shape, want.dtype, want.shape))
        elif got.tobytes() != want.tobytes():
            fails.append('%s: values differ (max abs diff %r, n differing %d)' % (
                cs['name'], np.nanmax(np.abs(got - want)),
                int((got != want).sum())))
        if tuple(meta[i]) != tuple(EXPECTED_META[i]):
            fails.append('%s: meta %r vs %r' % (cs['name'], meta[i], EXPECTED_META[i]))
    if errs != EXPECTED_ERRS:
        fails.append('error behaviour: %r vs %r' % (errs, EXPECTED_ERRS))
    if fails:
        print('FAIL (%d)' % len(fails))
        for f in fails[:40]:
            print('  ', f)
        return 1
    print('OK: %d cases bit-identical to recorded baseline; independent checks passed'
          % len(cases))
    return 0
EXPECTED_META = [('rand-2x2-o0_0-float32', 'float64', 'float64'), ('rand-2x2-o0_1-int32', 'float64', 'float64'), ('rand-2x2-o1_0-int64', 'float64', 'float64'), ('rand-2x2-o1_1-uint8', 'float64', 'float64'), ('rand-2x2-o0_1-int16', 'float64', 'float64'), ('rand-2x2-o1_0-float64', 'float64', 'float64'), ('rand-2x2-o1_1-float32', 'float64', 'float64'), ('rand-2x2-o0_1-int32', 'float64', 'float64'), ('ties-2x2-o0_0-int64', 'float64', 'float64'), ('ties-2x2-o0_1-uint8', 'float64', 'float64'), ('ties-2x2-o1_0-int16', 'float64', 'float64'), ('ties-2x2-o1_1-float64', 'float64', 'float64'), ('ties-2x2-o0_1-float32', 'float64', 'float64'), ('ties-2x2-o1_0-int32', 'float64', 'float64'), ('ties-2x2-o1_1-int64', 'float64', 'float64'), ('ties-2x2-o0_1-uint8', 'float64', 'float64'), ('flat-2x2-o0_0-int16', 'float64', 'float64'), ('flat-2x2-o0_1-float64', 'float64', 'float64'), ('flat-2x2-o1_0-float32', 'float64', 'float64'), ('flat-2x2-o1_1-int32', 'float64', 'float64'), ('flat-2x2-o0_1-int64', 'float64', 'float64'), ('flat-2x2-o1_0-uint8', 'float64', 'float64'), ('flat-2x2-o1_1-int16', 'float64', 'float64'), ('flat-2x2-o0_1-float64', 'float64', 'float64'), ('ramp-2x2-o0_0-float32', 'float64', 'float64'), ('ramp-2x2-o0_1-int32', 'float64', 'float64'), ('ramp-2x2-o1_0-int64', 'float64', 'float64'), ('ramp-2x2-o1_1-uint8', 'float64', 'float64'), ('ramp-2x2-o0_1-int16', 'float64', 'float64'), ('ramp-2x2-o1_0-float64', 'float64', 'float64'), ('ramp-2x2-o1_1-float32', 'float64', 'float64'), ('ramp-2x2-o0_1-int32', 'float64', 'float64'), ('bowl-2x2-o0_0-int64', 'float64', 'float64'), ('bowl-2x2-o0_1-uint8', 'float64', 'float64'), ('bowl-2x2-o1_0-int16', 'float64', 'float64'), ('bowl-2x2-o1_1-float64', 'float64', 'float64'), ('bowl-2x2-o0_1-float32', 'float64', 'float64'), ('bowl-2x2-o1_0-int32', 'float64', 'float64'), ('bowl-2x2-o1_1-int64', 'float64', 'float64'), ('bowl-2x2-o0_1-uint8', 'float64', 'float64'), ('rand-2x5-o0_4-float64', 'float64', 'float64'), ('rand-2x5-o0_2-int64', 'float64', 'float64'), ('rand-2x5-o0_1-float64', 'float64', 'float64'), ('ties-2x5-o1_0-int64', 'float64', 'float64'), ('ties-2x5-o1_0-float64', 'float64', 'float64'), ('flat-2x5-o0_0-int64', 'float64', 'float64'), ('flat-2x5-o1_4-float64', 'float64', 'float64'), ('flat-2x5-o1_2-int64', 'float64', 'float64'), ('ramp-2x5-o0_4-float64', 'float64', 'float64'), ('ramp-2x5-o0_2-int64', 'float64', 'float64'), ('ramp-2x5-o0_1-float64', 'float64', 'float64'), ('bowl-2x5-o1_0-int64', 'float64', 'float64'), ('bowl-2x5-o1_0-float64', 'float64', 'float64'), ('rand-5x2-o0_0-int64', 'float64', 'float64'), ('rand-5x2-o4_1-float64', 'float64', 'float64'), ('rand-5x2-o2_1-int64', 'float64', 'float64'), ('ties-5x2-o0_1-float64', 'float64', 'float64'), ('ties-5x2-o0_1-int64', 'float64', 'float64'), ('ties-5x2-o2_1-float64', 'float64', 'float64'), ('flat-5x2-o4_0-int64', 'float64', 'float64'), ('flat-5x2-o2_0-float64', 'float64', 'float64'), ('ramp-5x2-o0_0-int64', 'float64', 'float64'), ('ramp-5x2-o4_1-float64', 'float64', 'float64'), ('ramp-5x2-o2_1-int64', 'float64', 'float64'), ('bowl-5x2-o0_1-float64', 'float64', 'float64'), ('bowl-5x2-o0_1-int64', 'float64', 'float64'), ('bowl-5x2-o2_1-float64', 'float64', 'float64'), ('rand-3x3-o0_0-float32', 'float64', 'float64'), ('rand-3x3-o0_2-int32', 'float64', 'float64'), ('rand-3x3-o2_0-int64', 'float64', 'float64'), ('rand-3x3-o2_2-uint8', 'float64', 'float64'), ('rand-3x3-o0_1-int16', 'float64', 'float64'), ('rand-3x3-o1_0-float64', 'float64', 'float64'), ('rand-3x3-o1_1-float32', 'float64', 'float64'), ('rand-3x3-o0_2-int32', 'float64', 'float64'), ('ties-3x3-o0_0-int64', 'float64', 'float64'), ('ties-3x3-o0_2-uint8', 'float64', 'float64'), ('ties-3x3-o2_0-int16', 'float64', 'float64'), ('ties-3x3-o2_2-float64', 'float64', 'float64'), ('ties-3x3-o0_1-float32', 'float64', 'float64'), ('ties-3x3-o1_0-int32', 'float64', 'float64'), ('ties-3x3-o1_1-int64', 'float64', 'float64'), ('ties-3x3-o0_2-uint8', 'float64', 'float64'), ('flat-3x3-o0_0-int16', 'float64', 'float64'), ('flat-3x3-o0_2-float64', 'float64', 'float64'), ('flat-3x3-o2_0-float32', 'float64', 'float64'), ('flat-3x3-o2_2-int32', 'float64', 'float64'), ('flat-3x3-o0_1-int64', 'float64', 'float64'), ('flat-3x3-o1_0-uint8', 'float64', 'float64'), ('flat-3x3-o1_1-int16', 'float64', 'float64'), ('flat-3x3-o0_2-float64', 'float64', 'float64'), ('ramp-3x3-o0_0-float32', 'float64', 'float64'), ('ramp-3x3-o0_2-int32', 'float64', 'float64'), ('ramp-3x3-o2_0-int64', 'float64', 'float64'), ('ramp-3x3-o2_2-uint8', 'float64', 'float64'), ('ramp-3x3-o0_1-int16', 'float64', 'float64'), ('ramp-3x3-o1_0-float64', 'float64', 'float64'), ('ramp-3x3-o1_1-float32', 'float64', 'float64'), ('ramp-3x3-o0_2-int32', 'float64', 'float64'), ('bowl-3x3-o0_0-int64', 'float64', 'float64'), ('bowl-3x3-o0_2-uint8', 'float64', 'float64'), ('bowl-3x3-o2_0-int16', 'float64', 'float64'), ('bowl-3x3-o2_2-float64', 'float64', 'float64'), ('bowl-3x3-o0_1-float32', 'float64', 'float64'), ('bowl-3x3-o1_0-int32', 'float64', 'float64'), ('bowl-3x3-o1_1-int64', 'float64', 'float64'), ('bowl-3x3-o0_2-uint8', 'float64', 'float64'), ('rand-4x7-o0_6-float64', 'float64', 'float64'), ('rand-4x7-o0_3-int64', 'float64', 'float64'), ('rand-4x7-o2_0-float64', 'float64', 'float64'), ('ties-4x7-o3_0-int64', 'float64', 'float64'), ('ties-4x7-o2_0-float64', 'float64', 'float64'), ('flat-4x7-o0_0-int64', 'float64', 'float64'), ('flat-4x7-o3_6-float64', 'float64', 'float64'), ('flat-4x7-o2_3-int64', 'float64', 'float64'), ('ramp-4x7-o0_6-float64', 'float64', 'float64'), ('ramp-4x7-o0_3-int64', 'float64', 'float64'), ('ramp-4x7-o2_0-float64', 'float64', 'float64'), ('bowl-4x7-o3_0-int64', 'float64', 'float64'), ('bowl-4x7-o2_0-float64', 'float64', 'float64'), ('rand-7x4-o0_0-int64', 'float64', 'float64'), ('rand-7x4-o6_3-float64', 'float64', 'float64'), ('rand-7x4-o3_2-int64', 'float64', 'float64'), ('ties-7x4-o0_3-float64', 'float64', 'float64'), ('ties-7x4-o0_2-int64', 'float64', 'float64'), ('ties-7x4-o1_2-float64', 'float64', 'float64'), ('flat-7x4-o6_0-int64', 'float64', 'float64'), ('flat-7x4-o3_0-float64', 'float64', 'float64'), ('ramp-7x4-o0_0-int64', 'float64', 'float64'), ('ramp-7x4-o6_3-float64', 'float64', 'float64'), ('ramp-7x4-o3_2-int64', 'float64', 'float64'), ('bowl-7x4-o0_3-float64', 'float64', 'float64'), ('bowl-7x4-o0_2-int64', 'float64', 'float64'), ('bowl-7x4-o1_2-float64', 'float64', 'float64'), ('rand-6x6-o5_0-int64', 'float64', 'float64'), ('rand-6x6-o3_0-float64', 'float64', 'float64'), ('ties-6x6-o0_0-int64', 'float64', 'float64'), ('ties-6x6-o5_5-float64', 'float64', 'float64'), ('ties-6x6-o3_3-int64', 'float64', 'float64'), ('flat-6x6-o0_5-float64', 'float64', 'float64'), ('flat-6x6-o0_3-int64', 'float64', 'float64'), ('flat-6x6-o1_3-float64', 'float64', 'float64'), ('ramp-6x6-o5_0-int64', 'float64', 'float64'), ('ramp-6x6-o3_0-float64', 'float64', 'float64'), ('bowl-6x6-o0_0-int64', 'float64', 'float64'), ('bowl-6x6-o5_5-float64', 'float64', 'float64'), ('bowl-6x6-o3_3-int64', 'float64', 'float64'), ('rand-9x11-o0_10-float64', 'float64', 'float64'), ('rand-9x11-o0_5-int64', 'float64', 'float64'), ('rand-9x11-o6_9-float64', 'float64', 'float64'), ('ties-9x11-o8_0-int64', 'float64', 'float64'), ('ties-9x11-o4_0-float64', 'float64', 'float64'), ('flat-9x11-o0_0-int64', 'float64', 'float64'), ('flat-9x11-o8_10-float64', 'float64', 'float64'), ('flat-9x11-o4_5-int64', 'float64', 'float64'), ('ramp-9x11-o0_10-float64', 'float64', 'float64'), ('ramp-9x11-o0_5-int64', 'float64', 'float64'), ('ramp-9x11-o6_9-float64', 'float64', 'float64'), ('bowl-9x11-o8_0-int64', 'float64', 'float64'), ('bowl-9x11-o4_0-float64', 'float64', 'float64'), ('rand-3x8-o0_0-int64', 'float64', 'float64'), ('rand-3x8-o2_7-float64', 'float64', 'float64'), ('rand-3x8-o1_4-int64', 'float64', 'float64'), ('ties-3x8-o0_7-float64', 'float64', 'float64'), ('ties-3x8-o0_4-int64', 'float64', 'float64'), ('ties-3x8-o2_5-float64', 'float64', 'float64'), ('flat-3x8-o2_0-int64', 'float64', 'float64'), ('flat-3x8-o1_0-float64', 'float64', 'float64'), ('ramp-3x8-o0_0-int64', 'float64', 'float64'), ('ramp-3x8-o2_7-float64', 'float64', 'float64'), ('ramp-3x8-o1_4-int64', 'float64', 'float64'), ('bowl-3x8-o0_7-float64', 'float64', 'float64'), ('bowl-3x8-o0_4-int64', 'float64', 'float64'), ('bowl-3x8-o2_5-float64', 'float64', 'float64'), ('rand-8x3-o7_0-int64', 'float64', 'float64'), ('rand-8x3-o4_0-float64', 'float64', 'float64'), ('ties-8x3-o0_0-int64', 'float64', 'float64'), ('ties-8x3-o7_2-float64', 'float64', 'float64'), ('ties-8x3-o4_1-int64', 'float64', 'float64'), ('flat-8x3-o0_2-float64', 'float64', 'float64'), ('flat-8x3-o0_1-int64', 'float64', 'float64'), ('flat-8x3-o1_0-float64', 'float64', 'float64'), ('ramp-8x3-o7_0-int64', 'float64', 'float64'), ('ramp-8x3-o4_0-float64', 'float64', 'float64'), ('bowl-8x3-o0_0-int64', 'float64', 'float64'), ('bowl-8x3-o7_2-float64', 'float64', 'float64'), ('bowl-8x3-o4_1-int64', 'float64', 'float64'), ('rand-13x5-o0_4-float64', 'float64', 'float64'), ('rand-13x5-o0_2-int64', 'float64', 'float64'), ('rand-13x5-o7_1-float64', 'float64', 'float64'), ('ties-13x5-o12_0-int64', 'float64', 'float64'), ('ties-13x5-o6_0-float64', 'float64', 'float64'), ('flat-13x5-o0_0-int64', 'float64', 'float64'), ('flat-13x5-o12_4-float64', 'float64', 'float64'), ('flat-13x5-o6_2-int64', 'float64', 'float64'), ('ramp-13x5-o0_4-float64', 'float64', 'float64'), ('ramp-13x5-o0_2-int64', 'float64', 'float64'), ('ramp-13x5-o7_1-float64', 'float64', 'float64'), ('bowl-13x5-o12_0-int64', 'float64', 'float64'), ('bowl-13x5-o6_0-float64', 'float64', 'float64'), ('nan-0', 'float64', 'float64'), ('nan-1', 'float64', 'float64'), ('nan-2', 'float64', 'float64'), ('nan-3', 'float64', 'float64'), ('nan-4', 'float64', 'float64'), ('nan-5', 'EXC', 'ValueError:node not found'), ('snap-0', 'float64', 'float64'), ('snap-1', 'float64', 'float64'), ('snap-2', 'float64', 'float64'), ('snap-3', 'float64', 'float64'), ('snap-4', 'float64', 'float64')]
EXPECTED_ERRS = ['ValueError:x argument outside of raster x_range', 'ValueError:y argument outside of raster y_range', 'ValueError:x argument outside of raster x_range', "TypeError:Unsupported raster array type: <class 'dask.array.core.Array'>"]
EXPECTED_BLOB = (
    'eNrs/Xk8lV/3P44bUiops2ROpszzfJY583TM0xmlCRWlQaFJSLM0EQkZS2guiUKiaKIUUog0Swo/'
    '9/2yr3O7enX3Gt/f8/r87vPPfuyzh+taz7X3tddee621ne3YJymz/PKTYjltJbppdPzHycLPQlVT'
    'U1MJCVvDyjKL5dh4LZTudXR3cPZmZVnFsk6ORl9JXSFnIClnFKQnpyQpFxS6InwFOSQwdAWN/q//'
    'rchLV9LH/l8ZTA6jj+XlNZQkNRSUJKMk//Bv2r9fIjoIttWsT8lstIAFbFbvp2nRYSvpqug8czo4'
    'T6BM1kFiK44ydWalLGhNk0/UeTogChtvFL/vrqPA8yvz3dQs8ZSJy0QRcJRpMCtlCckC1AJNW8ip'
    'CDZ7dcMOo1AnUvDOgrhAHGU8XWs7cJRpMitl08olt0zZaAwN+7mVFG5rw/Jti+oUZPwxCidSdrD9'
    '4DQcZVrMStnoyclsqcH8GCXa/NYBubZCECg6WN2byoqjrGCxtCeOMm1mpWxN9ZLW7gJbeGA845PS'
    'AxOMwnNO95YN+OB5ptgacR5HmQ6zUrbpSKt0u8wCeN3b8X7WeoDQ+UPbVhVa/WA0chD31OIo02VW'
    'ygSfjFydvouKUfJ2yJ67J50G54YCxOYK4ik7sXI7HUeZHrOvZ47HKHIHF9Jgc2MlaxFPEJSZzN74'
    'XoiGo2ze7YRLOMr0mZUyU/qsMq2XkzGeVZkZ7ZWaQYBKsSz17F0GOMqWkhtyJlKmzrQyyGQ/iTsu'
    'bD5APXQq6CCrN0ZhkIzrrMF0LxxlV4zOTsZRxrQyyILwLwsSv00BrxQDKusgC5b++hdk11fKaRxl'
    'TCuDGA8qncl544NRsmdpavKHFh9I9PlWUsrlgqNMS6fhC44yppVBkilJtWmLxr6FGloybWNfEERh'
    '67pRkoADnmc6XjyVOMqYVgY5d/CY3pNYT8jfd9x37WtG+uujsbBU4hmOMqaVQZRe5n1QXs2QPdoD'
    'kz88aTMHvu1U4fOuWjjK6JbH43CU6TD7evby7ZyPol3msC5AaGNpnzR45w2wfFa2wFHWtG7xVRxl'
    'TCuDnKp9M/PiE8b+bB9xu9PxoySQCFPzvH2MhKPsNrfXAhxlTCuDoBWZtDh4y8N0U4zCX1+p016e'
    'uY2jjGllkGP7D6yVD/DF9mX/fX/2NeYUTKRMg8n1IB4YJRPzHvgvSDoX7guiwbQyiPeUb7MU+wIg'
    'aYNzh9PLAIxCrvKy1tHDeD3Izjvz23CUMa0Mkv3Z7+l8QXeoSzfpehdDxNJfH42nmxsTcZQxrQyS'
    'z76BU0CQ8W3UO/XON3UrDdD/Eyk7nDGyHUeZFrOvZ0nbugrhKQV2RSZrPlhHBwv5KQEKNCp+nuWS'
    'JXCUMa0MsjzNorv0xBMCojBcpvZ2saogGDdWhj9PE8JRtsEthwtHGdPKIGgftv9e187ML4z9Wfyc'
    '2eS9SX44yuZHXhLHUca0MsgQT/PLmScMYbrosnUcMXagipMjJ1JWXpuqhqOMaWWQtzlb7+URGbuX'
    't7nZ99q20CCzPrLhrBKeMps4+IajjGllkC4pP47jrAsg5XhGs76BG0bhDfYvFXpbyTjKYtj1SiZS'
    'psm0MsjXtFDj9eAIXOdMjh3f7ABc46Py10djuKNgJI4yppVBrJQ3tPjcYOgbp0xVHHh3lQqKdqnF'
    'Jjr49ezkO3tvHGUazL6ecS9+4GGcxgvZewNZLz9+TViqwDU3nsaLo8xZO/IpjjKmlUH63R58mecV'
    'hPFs6em6fJ5oGiS2GyaoOOE1qQZy8zJwlDGtDDJR78GQ+d2X+GVu4XXHUTZnq5syjjKmlUGCX5wQ'
    'jxei/EJRG2li+t0XxHfzrZU4yphWBhG+vlrQP4Cx01QITu2JVfYCsrzBscZKUxxlK3snLcVRxrQy'
    'iJhPTVHCZnPI3G/x7pULYBRmXHiZZik0CUcZ+9HVxTjKmFYGiYtfLNE9QILYhu6jfG/IWPrro1HH'
    'JLwaRxnTyiAhb28uJB4cxWR9etHQnpUHOKBV27y6YecwYSJlEWZB0hMp08JkkDvjte78RZRp/xXr'
    'Gcvbq/j0vsiKhGQ/xmpAsFm8XHrp+A51rPyeYvHn9Y9pIKyx0q4zkg+srHdFDNrNwcssUndx31It'
    'dWZFQrdKIrIoVQc2nqv1TfdRxyjnt3IYWSkahFF+W8X7att9OshvNxHc2UmHY6a5FN6lQbBNIDeJ'
    'OM8FqzcRiVrbCty5gZYG044J4YiVo0VKGALL0tl8ozbRoN5zXZ+zCQOJotBZfs6eQZBQ5n5wrUsQ'
    'EPtvRh91YZSLupUqbzTGS3vpLJLDOCQ0mRWJQ45nojctdQFigd2t7Puu8Jx4M6hIlgg1vYXUmRfd'
    'YcKsGUMK1W9UvnNOs90NRnWmv3+i4/6DMdFZrCaEQ0KLWZFoT7Yo3DZTArQNQj6WK0rAtGLhpEfr'
    'JMBXzGvtnH1ScMWDV3mrpBQ2ZooaZ+9bf7+ToJXj41Z37yPhY7O25KgfC9z3qJPiasSvcqXn7+Ns'
    'KbS0mfqLOUYhUVxTVkyABOEn2O1sP/jC3IpbHkcMfSB7kP3NfTdvGHF5K/TwCg2e7JkqfJSdBGBQ'
    'fZ7ttS98MGTNSNb3gSYloVMfXb1xSISpbAnCIaHzT1s7Rrt8Z0rcocCEXeCv1MPvEici4fXIfBIO'
    'CV1mRWLZjv5C9dMeoOD6efeN2x6w7euDvV9eM/KovJES9nG0jFGOWWOO51H5RCQ2+Xga4pDQY1Yk'
    '9lcv17VK4QFnc5VZOlozIVVP7IZt2FRA8x9RrDnpgsv5rcpwv1L8ar+KOkydecmj/I4WfHzOV/4l'
    '0wCMOrzrvULNcEg0L29LwyGhz6xIhLwWFK6/TQbJw6UdcSsZmjmk0x81JRipSNCgd+WoQoklBVZQ'
    'dwxZp9HA2k50v7taENRaW2feUKADaJ2coWOK33/PSFFvmoiENtPKmPjTemSNpkNR23aLTIX3M4es'
    'lFyo8Db6gb/ufSdAyF3ZzHG34CAVSg3kJVkzqRB0R8Q+Zg/+zGBy3K5TOCSYVsac9pZDPGmyJhxP'
    '3TdS9lAXWrd9uhM/0xSUUvxiNhOtwCGjrT4+jKEBvOcXz1H+WA3TU5vp1xhzzrUcP1m2xSFRxsN/'
    'EYcE08qY7fSBM6G+fkDj8DXusXQEAaLwziTNBdAbL8SZedARuMSivQ0F/TAkPrErcE1XEICueO/q'
    'a9XiMI/ntpUXlyo0GTxfXJ7vg7fuPnY0AIfE3yNjav91GsWAPQWldU+pQGdZd86/sYeQQm8iXVtF'
    'h3ONfB928bFgq+i561ov+TVo0FxoI5K9Ugn7X8I98VZNoSIOiQjdkzhrA20tZkWiX5UQVOBL/05e'
    'KLmY3m479P3/uTk1DokyY2vJXTU5uzY6LAu+Qt5sJPcDeeLM1HfZOCS0mXpM/Aels+PiVitu8sL0'
    '51s/55gc2MjQ8+35dLsqWomGjSF8+4lIvDgt+BmHhA6zIiEcz52j5cI4GT+zaFJD3GOviZYovyJb'
    '/iidiITZa+7FOCR0mRWJSYGyXXoGDGuHJdcbAucddYRTWzUXJuTZgJcDNfHrcW/YMW6Rmazy4TFH'
    'IhFDaH70lDl654jYKdNEJKbfPmaFQ0KPWZFIcX+0cJSLByIqLUmfts2AupPnaukvJkFJVd+S5wkj'
    'hJ9p6/DtJyKxtjgoF4eEPrMigSypy19khW7q9oad/7KumOMLnB7PR4Sf+2CzZMmLDS95tvph5wNq'
    '2iUVvc6BE62f2vA2eF/SrnZNREJH7Z/yxSR+i/n8yoYC7Ky1bd+sKBil4gld90xExnbvv1b+w+/E'
    'gy3pTjgk1JldnkD6iQVGt2b3KlNB0b2CEBtOxvKI0p/lJyIx7YtGOg4JDaadHZtFRBt5tWHHkqKP'
    'U0/rwdKt5hKh3BpQsCf8kYuNNqzL9TWdek8JTvY39fWkqoEca/KqdXdk4ENPUvy5l3Oh9LRai8eQ'
    '5A/kCf/hR/NxSGj+U2ZHKt3pYNCIGzxY7+RTX+0Ohx8XvJkSwFhb5kncTgoeccc8Mv777Cg/YjaA'
    'Q4JpZczw7BknzjsyzjWag/3kSx2pwDv/5u30BgoExy2xv7mMBDm0WRmqwYHA69uo1mQSCFc/iavu'
    'lQgAzqjLGmbvAiGYLhz1UhHve3l7i9lXHBJMK2OiHRVCguexip5YCB/0XbHceXP3a8Jik644wmM+'
    'yOlwdVxz/BuBPeXgmjeagjBcHPAySGEyND2OiznBNQdW9z3sy/OchUPCLOLLdBwSTCtj2u0o5/q8'
    'nop9GX92qo4vx7efiMQB1XApHBKYjFk9Xqv6r0BCU0lS8y9aO6wMtA5tfsUKQ5+frcq09QaOVb1a'
    'J14NE3ac13dqOS0Bk+bu29S4xBfWt1k/yudg+8n3oeTpZFscAnrMikCTRIDg4Aw+MNpvPX2F/y1M'
    'huRVueorbCcF+rPdCx42iY2PBSvw6vhywahY9icIqN/a9BaHgD6zIqBlL1yU2E3GKCox1d90fyYZ'
    'jl01o0wrJ8OWJY3y4iqBcI1fW+HKc8bpvoHxR+cG0IcO3SIpTmf8/oLecENgIgK6asyKQMmuqC1x'
    '8d/rGyS9rjSL2NB+kZ5n0SBlaYlXlmYQFHMPShEfAWxVK8zV38T9A3lhL3kgAoeAOrMi0KLcvz1W'
    'm7FKzr/3at+g3tju2zWZXiQWBNnu1NCgJUGQIXCoeZduEPy23fa3ODcyDgENZkVgfVf8Iup7GhTb'
    'xyaFeHNB53ph3mbl//BeeuEkbTWdD1xGnc+usA2C/OI5m2y3q4FE9AMCezLfD6Tnz/3qU3AIaDIr'
    'At+qeIzePSLDO41qkTX3FCB2Tq5tkgMF0qeZfM36Dx8g447VYUERVDgtFxRkFO8ytqOqeiPtqwG6'
    'bxtT9aYCbhaAy6JwHAJazIrA6VoTjuzletCgZR7lyNmHrQWjYjesdc7OgUX7H102JnCD67hNWsgj'
    '8UNfrgr+ZC1w3H8cp3PS1WZ2eeDmuK012lMirZzzDJuIg6EU8Od8LZupHQBIN/2E57Su/QAFGt4k'
    'B4iIB+DGgMCxJDEcAjrMigDyV8HrIRFvC2sPX8nRIf1UHzkRgTtFD4JxCDCtTIgsLl1cRXWivc2g'
    '7b57bKCM1fgJrQYYbqV5zx3Vx8oRQg4FK9jJ2ZrY6jgRgYac/Js4BJhWJhw60aU6fx3lFy2aFRmC'
    'bhb3K1QzdEbIuh1v72D7qoWV/w3tB/JAd2KwFw4BppUJ/y3p7GXsgGaPW+ciq1x07oDyCIEJcUe+'
    'mwXrK/QFJyKgx7QyIbLmQVECgo1c5ZfuZvD2lK33Qg+PIFhyRU55oUwQoKgCD8w3+XtdHks1Il7m'
    'UfCn+F6cB3A+93pMKxM2a4/0Zda6Q5/lsXPfzrlCoOk3klMNEcsjJFB+35wACeM6N2DhXJJ+caM7'
    'lp+IAMkrZB0OAaaVCZE/N/LJRxRXn7krtjpMC2K+dYJIsipWrruEO8zGWB9Kq259OatljH0xJyLA'
    'NScfdxqnp8ns8gDy5sS07f+SC0rpINtRydJTT4Hfdwq3J7EEF/1Kj2llwulq71W4W/sJqXX26462'
    'PsVkQtokAS8DqhD4Jrf3ZckKwS221NUuvEJw4GNWMrlXFnbImK1KfiILV231L5x4KIsbA5f0ORbi'
    'EGBamTCoIkWhcqk/XAl1O95U4wcvFzrsCT/gOx4Jhgz3Y/qdek8EYuUIIVSO2k9E4KbfYZztip4O'
    'c88CD/hzKV4e6A+UxdlF6+n+MxAI+sNITERA5uJr3NmSHtPKhAXjPmWaFrfs9Ps8wfJi//7t3YzY'
    'OjXjO6aR422qhcYB8KP6ExGgsR9+jkOAaWXCuMeu4su7XKB4C+1Lp5Yz4PMIiR+Vo/xEBBLIH4wn'
    'IqDPtDJhrOrelaL+dHhxsz004zVjb5ggXtu60pAOfiYPpqw4zSh/5fpYl7WbhpWj9hMR2Eh9fxiH'
    'gDqzywMo2iXnZ4/b1Kp5sGbfgeKLh98Q+N6y9p/eKwAe70lydy/IYlbAfi318UuzhCBnRxGnxbAc'
    'Pi6aUSUuNqu+BlMjMCbR4GVC9L9D8le11TLE36kfuK32cCoOAU1mXwvYuD4Kid70BGSrhrxud7l9'
    'zY/d4A1XzHdqFWYxokkgv4l7v2rBebfatxWHANPKhHvO7X6pRDPAeNurlNzqcXcBlsdHnaDHne89'
    'QjMCpf8afSI8lS0UhwDTyoSnrJNqSLcYnhwmbcPGy27RsCicfrym67eIBUGcxiHNeT1ju+iaR2ua'
    'YWxXPPNsRWI9fWw/EfPq6Uf87lgw5nwhDgEdZt8bWhnLHYlbZwZXL5Wa97rbY4igc0VUD/k3dLIF'
    'GpI07X8gEbEsEdbAIcC0MiHeZgRFj1HcdOqEuq7nd1FkDuSpda1n94K00Eniu1x94WZUd4TwHV+8'
    '1e47e1xcU32mlQnv0Mga7ke4MDtERPHn9MiYouhZ0KXgXnbNfTIWFfTMwNF9xgkC4Dn5tVqsOS9g'
    'vjMTEFB+7TcXh4A+s8sDtTuvP7PwdYfhY83CN6u8MJvUy2a7CI81nKFIa6RYst8dO08YCdlOlwxz'
    'h7YbHnUnL+AjwIreEmedgIC6GtPKhEj/h6KHIkS2BojbxCjSoFHrpb54HxU7KclZnXLbN5UCHhkc'
    'M1T/ZY9YOLNbPp2ClwkbaQtxCKgzuzzg4l8WJf7EHfuyoWgb3atXx91fT8SVM6Jx/PqX0ORLcikO'
    'AaaVCX+Jau8AZ6yWzTp/xxyQPIDyLItM9AdfaWHRSlE5yv+6PCAiHWSEQ4BpZcKicZt0zBt4PI+i'
    'mG4akbOZFC2K5dmW1PFkF9tiGlKUx0WtEqL04BBgWplwkk/h17IyMhblFO8pvovYt2UwlmFj8qP6'
    'ExFoqUhvwCHAtDJhO8fQ6nd85lBsHHtWtcIQ8HlMP/CDcpSfiEDxNGP8d4BpZUJknS/+Tmlh/lkn'
    'jGLzS2G3XLzdYM/aNeFKOZZYOYqHjspRe5zd8d2KZhwCmExIYv2lFkr/FAJaSpK6fxKBtmNrE1ax'
    'OMIyjkMJVZkfCT/a/UbaPbRuEP1AwO+eURr35dpthzAqeAXK0PXqGRYW38LqyBtZ5OFRw1ptlR2W'
    'Pz13IAQGtc/J8vyuXlnf3ZhXfXK/2Zso58qlLXeE8JEQ39ineuM4o8esnKGIaJa3rKKDUpXofoKb'
    'KxZXCfs+jds9DLauVKtJpf8QmTiDmyHr1cekep7I8AD3IKBQ0o+dW0T73X5Z4qqaTrfnBv3udvi0'
    'U9Mx3347Xqe2SirjAY4z+szKmXg9W2GRZwzECQt7ctRk+L5DJlNzcdNRKhVMhCXtO6/TYFal9EBB'
    'Lzts2BR85PF7HpivHMY++uV7zmXGqiac/ECB3aqRSjFLGSfY9MavzzM5RgkuOaHihBnSIBQSlitx'
    'SwOOLJz0Qsf1+34ipHaX3t86BT4+W/HimT4PzJS9F9LPHQAdUw2suDu/HwG11zbo8ffj9/hGd+O2'
    'TOQM494KZuPMF8sS5aW6bnC0J4J36Z2x7zf1+XDpViI4PO8posoT4eMZEZZZtURQq957oqOGCMcf'
    'pW24xOYOlF1f20MLXLDvelj+JLeoGEZ7hNDr5bdexii5g/tNtwMlAe5YXMhf4oq7wOQPZLGSK65w'
    '5+OVG5+BCIv32nuIhBChsfRKz/kEIliPfLJ+8pjhxYE8/dDz/x0ZOt8N7HQraecmMd731+PgDbZr'
    'BOI4o86snHm//Euv8moKDAm9ilt7kwK0pXrZJdOp8P7itZDyMAqIcwZHOF6mwHrHt7c30Rnn0yi2'
    '4WB47aZ9uTTIirz5kncdDdirWmJIqTTYXN8u+Ghslxacn8EzaRsNOqU0HxSuZswZFDPRxXHFzAr5'
    'ILg32ZWewhkEwf11dd136RBySf6N1C46HNOXNWkj0WHt+md1Uvk0WLrIepOvAw2+RfpdfW1Ng6un'
    'R1e3rWA8T1isI/GENw2QxfFEzvA+t72M44wGs3IGITXD/sXoG20vqHLZdbDc1xOopq0+B3k9scgn'
    'l75Nsht+6AG1F7OViTUe2LmZ4rhF0b3ilby5Pp6w7qibq9VYu5Bn/ZEPxtrNCZB26B1rlxtTWWEz'
    '1u7BuDaZGHdva7ugF/hds8vf4OkJqcWUKGceT0jyTn67bKydetfi/aVj7SihuUcUx9qdHI/a43Oh'
    'XoFl0BPKNu8PjHH1hAHVYOdrMz1h1vwc64o+D6gKEejyG2u3VNNh2udq/C61asvVQRxnNJmVM2/E'
    '1mYu11aADpp5/u7ReZjVShVYXHKbLQlr+5ZUnVk0B0b6kyXO8AhD+b8tFwQhcut1a80GObCeOVRH'
    '9pGBD3WXn8/+xKiPtFrIyxZZxaeRP3RE9MmCk6Lr9Ke2c8Hl2NNkDwcJrH9UH3nrIi3aL3HZZLH3'
    'uxT3Qe0VSRx7H9Q/XuuGi6sUiX3MEGe0mJUzM47L7YxN9QCCQebCzqzvowehPCpH9bc83utVk8Eo'
    '/1k0IlQ/wpZ3Sl7mb49OhOr/0edN5MxHezncfoZx7wxTfs1+gxQ6wYc2+rdLtVtY/B8LSfiDZdJF'
    '9Yql5D8tDf+56Aj77u3SxHFGh1k5M/3fspI/ZqmOj4c+QCEqL55CB4/c3c/4ptNA932NpZsfFbh8'
    'jesXdQfA7MDbQ2umUb6Lm57E9lH5jSgdkvLIHzxUabA48KVA6WYqBG1PrDeeQcIs4Fd1yvdVHKUB'
    '20wHwq4uOmRqbGg/NpcOjv2jCj62NFiZkWKzKIsKFWEPQtuTSBA+zcLF4xIFKmdwRX/JpEGZ8aFS'
    'UgEdimsMX0yWpMP0GxqECn8afD1gYO1agfcpDHU6XonjDNPqANDdnsg+HEmzI+2hVoIkH6ja/iLg'
    '1EAAlPtSZnMeIUGa9/38J0ZkUG4bik7iVcLdquMBSckiCm/3BoBTqoStbiUJ82svM7y1WeARGWeT'
    'ZDXx5L2NBPntdc0duWTojnjneYubgkUCQCdz6Dn7RWJm968hgelwhOvaUjJIRH9pFFejYBz/PGDL'
    'Nj0Zr6lvkDlUhuMM0+oAJu9Jnt2h4AWc5hw26o3usJpnftrpc0QIs90/YJFNxKJXfpZUPXBKygPW'
    'GhWyyBI8Ie91+arsx2My2sbOHVXZblDhvUA9rsYViidHsXGqusHFkZlspeJEkFvHu87W0R0MGneq'
    'DR/xwLzNDWKF4rtUXSB8we5j7+xcQGprxJRmF1cQKnh8fX2yG1g2Za0d+USE9f53mx6TGevQqs6X'
    'qUuXO0NhsdO1RX4uMHgw0W1Pgivkb6Pv9nzEiLbpf97mUFIqfp1JjS77gOMM0+oAOsajY3FVnfKv'
    'n+ECfk25pcC9AL7qsVi1F1li0bJeVeqG+cu5wPPW6fKOmn6w+uZbv3cHibAz4sWyhLnG8HDD4Eu/'
    'Lk2Ysu3pQJG2BpTfCvWQTtcCWuey6IJpBEgO9Sq4WsfYMV5btNba/QUrTOecfrvElxNucWvdrdg4'
    'CwYClNk1bIWh1cdhr5eILMQRTI7Xrrf+w8+byJnVDl8n+oKoa/w9OgBdJUmtv2g/86n45fG71O+1'
    'Ikfg4DGzYTo43Z2961uYyHflSYtsPlryMySC/TtYTqkUqMODlvqCO0Iuf3jF54/kfyXKy9C6uJIp'
    'W1dd+A8tjJqzIcXB63daZs94OaSF44w6U3NmjIJVPft8i0O+58zAVd5mU/MfazIpDi++hBfRITFA'
    'hYutnfaHOWGw+fJbOV1Ge8HABefiNRkcD9bImxooEgSSeextm3bQ4Px0YSoYMco7m5IfzW+gQ5b9'
    '28J1Zpo/OA10KKiqw3FGg9k5c3ZWxW0OfQqEpxUu8an47dKt2b/1ZlR4uKIy+Urq2Io9P2VwuvJY'
    'PwqLfSRmU7H1yHVNXUo40fw7SxPUT801KWvpUBIW7WQfcYrZrqMMTm24sW+OlSIV+oZOzxBu8YM/'
    'JjUfWPvVDscZTWblzL9lo07yDy3UJ55aeoCAtXzvQJfLLzJVp8t3Vo4/svPug65ZcgJe4L4p4svR'
    'sdTz+sEzVQJev3uOybNtkOUJ9/yDnJFPM9XDcUaLWTkjY816885VW+i9fWShN5sRxhGULw9pqx0u'
    'tgDbGu5e07VGUDJZ6/SyGfxwM2fxG/HZehDgcem9dbcFDK2X45xsow+Nsy9taOOQBwuJk34P6o2h'
    'ZTu7gDrLAtgm4LrDTdwc3gyktZJ5dLD8h4gVW9YtZ9gw5sQkcUvP0MXyGt2binL0rGAav98zt2ZL'
    'WCS91qqdwxTY3rt+alljBtt47Xaq3bYHDVVSVoWlNUy+d3pTkBVgeVyksbv+vDjOaDP718wvvb3j'
    'owAZ2z+gPD4CGeIc3gIY3a2Jb28Tdnhwxnr///O9/6/PGa9bBnw4zugwK2cIb3gsZkZ6gXHH07k2'
    'y72gVojFfkOAFxTsyacvMvcCtqyIMu3HXrClca/BmQYvaA/bcaPilBekkDnc1231gifOKdXGId4Q'
    'y/JUOdTLG5ykFWZ0SXpj7biWJYRW+PuA/ZS9ufrKPtCgIdybf9kbvs33KV9q4Q2XBuU/R0j7QX+L'
    'W7jzAV+QqHM7lZ/MqMcv3kFS1Bnb4a5qvCgrEoDVQ/1hN06M10P9oefiLKTXs8/BcUaXWTmT269R'
    'knFXHTKNHE4saFIHEDdw1n+kDtMvSxKWt6nD1ZMvRjepyYPz7g2fL2jLg2K1k7uXpTyMFk0qsgyU'
    'h0M8ErutVgmDGudk/rsJwhDTa9r17ZYwlKTxUNdqz8aQ81XNCM4NaCPspmh0EQPeEpQrpfJPJg4S'
    'ftb+Z8//2ftP5Mz2gQQ/HGf0mH0/gywx8Sk+euB/1XSO5fH18OU/a/+j8kuN2a3rZak/fP6qSE8X'
    'OuFnkW8jMuvm4jijz+zrzD8l7Rm368T7BqPUfXxE/fp+Zk/9bpaJnNFU+6dwZoLl6lgene//qBxf'
    'D5WfO3hM70msJ3ZOj1KEGLpZBLW3CQq8OTfK/TtPG/Q/qofKX1UssRCeymjfN6N/fe8HD6y92nRT'
    'fc6reOtr9vST23CcYVodQMuFOv6j9+iQq63SaFZDh2VrdfKSZjCssJHOGL+fwe9XPo9Y2ty55gTZ'
    'p25ZH1a0xyz07ufVaKf2EkElrkRi42ZnWCIlIKCz1hGsHmfuC4p1xtqntJ4qXDbiCsHeBi+CxvZJ'
    'X/91mj3sit35guo1D8c09ycwbJ49Fxz0XLLeD4QsH55SJvtA5uJddyrTvWFeRjNnAhkvAYxcW8SP'
    '4wzT6gDQnQ5I6444gvJu5ym5l7N9gCLZaHbrugOgU1+UJzRGdbcFucIJLh6//k4TWOww5wH/ERks'
    'X5SZSNQVcYbN0zZND3ltCH25sYtMhhWw/FZ1Be2Ww64wPaG8mfesKaycHvk0/6smlv/KldphZ+oD'
    'N5fxnMgud8ZOD1DesuhoLdmcDAXCh+fcWkcCg2+TjW/qk7A8zmNBL4oLxxmm1QEImrDyTwmkwauw'
    'uLPL9GkQVOI4uo3GyD9vpewsDSRj3muIcygf0Ch9M0bOFbNqRztNlEfW8OdmTXeOWD62E6XIs5e5'
    'a2J5NzWtunvlbrAw5O38jWYW2E4R5b/O+CT9xMEf5l2/XeUmRIRJFpUeAVecsfxOHr+Fp96TIZRq'
    'HxhrQYL4WSZz1B4HYHnc+YzIlyM4zjDuLR3nyLG/gjM6SpI6f5MEsL3wxubzO5xB0czt+ItljuCx'
    '+1lPfgxDG9Nws/T6yTwn2KFp/yZwuytkXZRP8Sxf8N360xN2wy3xujOs19v/3D3ZDIT7efZpRgCI'
    'jRxumK22AL5uuhpOzHOFI81nXux54fSbd6SbD61IOi1hC1uuRc+/0GMAKivYh58mwNj6dURizyo7'
    'hm375cOztxdZwQ1ZpVO59Yx1btCqp/WetBFWL+mgwZHMBFMsv/faUsVUJbwOYbHTNJze7T/ubf2H'
    'cPavSiPD0u4fmBsEPrtMIiVv0X8b5/4VHZ1KlRAl/dxeIVQ/tyZHKAjkCdVZp/iC4O/VQajkvRLE'
    'cVaHqTn7H7c8oQhYH9S+dYT6UbDT5xVtc4vWyZIhVWDlkIQR47an2se687WuU4FnRfsW/zQKZFgq'
    '2319zdhPoVgCqwSEn7B8pUH8IZudDbE/3j/t4e3pUt9DBz66b1LVOYaum+tIzP1eOwr8f6tdMqqx'
    'WorjrC6zcnZXmuiC6yt8gH/vtDfzHvjA8oroDXf6vYBtg5SHuZQ3rH3lvjyvxReGxi0XpaXlFp+8'
    '4Yfp85C/O7qL4Uqq0tEdsYGYl4fE09PDGYa+WD0Ta86ihjvemJ0EsntAdzwgRJFfvcrW4XvC1/wB'
    '6RXxdz6g92sbOXZqzqAfnJp1c+uFIhJWb8KdEG0MD6RfZN/Aic9tIwHexmkiZzVmGxviOKvHrJzd'
    'L1kmay/nDvxXhd88ekXE7KvV+cWcF0kTgeVOUeXRYiLohZTPSXFyx9JFxAbhTd+IIGS872LXAGO/'
    '9opFXe9DMhFQlH3UHtVDFjBoVxFGen7WaIcrZh+Onot2DYnj3rPYV3q8HbY/xPWP9pWoHnoe6h9x'
    'Fr0/+h/1h/pBnpq4m2IqzofhOKv/T11n8VZiP6t/KMSwNVzPB7vr85+mo/nvX2MReX+crp9xbzWz'
    'cfbGUf2B445uYH1QpkSr3gViy/2fUTsZuxOUR+XZxVNMac5uIJjcb3WtyQVKEyabcsjZA4uc26tz'
    'VDUsj8pXba3g3Oc+Nhevpp/48NwFnGoWjD5stQe18ZgdKI/Kuf3Fa1kD3CBe1/Ra/LALRA21nF7b'
    '5gClPc35BmUWWB6VN6zx3E1a5AZmUcGV58RdgXTJUlF0khO8HvcFRnlU3tT0SNtptRvMn9Y1I9zS'
    'FUbnNJ/fwO+M0YnyqHwiZzcMzvfFcVadWTm72Zuz1nRQCvJ9zqet2TwbYg5Pjb+uPAtM6bPKtF5O'
    'xvKoXG3u7tjymVKYPTiqh0YCyqPy39u/hucaDdcwGcwuHv2P+kN5VL7hSMtCgY9yWDv0PPSeKI/K'
    'kZ0jsse3PiDdPtteDtOAoDwqn8jZ90sFuXGc1WBWzhoVhgYRMt3hpoqmpbCeB7zxONcsUOkBHYpF'
    'vRuMPCG/nCug4qgn+HAel7rX44nZCyLtWFGGTWz7XE/QCTOSvJjpiUUQub9xsPOmtRf02DuvuMPh'
    'AUivWbOb0LnwlCeEGzq+UlTxAq2Aa8LcG7wgslpxYMdpL/hR5KI+Z0mH/CdemL4USXg/imiU9ZLA'
    'eS/VG2wK5/rO2ucNUu5HAsUTfhzpCK0eSPI7PldA+MIz/E3Q7FGGrTjOav7/634WnZ0vjHu1Nm0R'
    '+bfvZ8dv+/pZfWRvv/CCyIVbPZS/eT9bw0nD7We1tJh9P9s3bndCoo7UlWwE2JJYfOcy2QISkwWo'
    'BZq28KGgcLKmtwtmKWovl5n3bKUyHCjhazBN1oYcuAWR5UZwWlRrrZ6kOZhfuFo3KGILDuuLPFUP'
    'isFe+XmXb76Vg75ivVqJEXW4NynFvjpQDzqnnFjd4QTwQLvhYZSLFRxPSMg+sGsu7As72s4zRR4u'
    'ZqvVlfuqg+2tZmJFgC6s3r7arkedAJcpAq3LbS1hX+X8FU/ElaGC+7WOlb0SFIg3eBzv1wCe4TkP'
    'q17rQX/ftdrKaIBsr0Pn5oZbYXRmhMzcUzJZC2jNsd6D13TBfWNLWfU3Y7DUsHyuFmcOz7fcHTjq'
    'j49QYf3xDc7CSItpdVAT7wD0gB07FNPEqU5Y7A2kecefjTwZjHy+ynwBWLqn0U+xACiYnA2zXmoA'
    'k1R0o+ZYGGJWeKg/VG/Bs+fGVCFtOHx4QNjwvBrsusyW9mGqGlhrXxvyStLCnov6Q/VKhJRNDifK'
    'w725Avd8ROeBj69Lx1VuBez90HNRf6jeGsfE9CcOYlisEfT+6P3Qc1F/E+vh97NVVz+H4zjLtDqo'
    '2pD+Z9O+BMCF/LqPQjcCoHJN9wruywEAL6qnb7vGyKNylJZ/rgtiqwuAa3HcC7NVAiFf7cBOu/WB'
    'WB6Vo/bof2RXiU4KUB6Vo+ei/lA9hDTKo/Lf2//vff+JnM03ft6L4yymg0ph/6UWSv8UZ/WVJNXV'
    '/xRr/7J11ij8LrdsWNDv9k/7WcolXC21bpgOupOWC+52m/+Xr6Ov7zVM1b5q9pf3u+at8gHFIPs/'
    '3e8RwYIv0hlk8J7dcXyzOQnC7rPInfd1+9P9hkc3PkgyosFRr+EeyxEKzILWk/xPAn93v81T0yvi'
    'Lnwv39xbN3Phe3HKP06fofWwhHVqBt4Hy275wRW4Ga33T53R6BYVNFPRaopFMPhP3eB/tCvw11Ea'
    '9FeH4Uf9SSoFmlj5vuPvaQu2aMD+aNnBoRBWOLPY8FRrzwBhr/I5m4MSkt/147R4lF4Q5/Dd/3bZ'
    'cRl+hxj2wCcVORevniMNnauUKKxLJ2P/H3Kfo8fPIv3TkTWat+LTyGnGmd+gURasrbTG8nY0LvPH'
    '/eyMO1cEs/lzXoiCxfJ5BMEIKez/GVXHUnqk5gJhoPP8nvOK3z332c0cy9l96jAYs4z18U5JILon'
    '5F5unol5lY86+mulN2hj7Rp1c6veRipCT7WCZ/R0FVDKO/3OvP3HX7Z97Vld6x8RwFBqRqL6bV6Y'
    'wL//qPfmbI4O/YMrJr1EuOy5nc6mCfbJK7iDZtrC4YsVZ3yWmH7Xzq1Rrmonzzzs/x6XWWpNzxR+'
    '98ydO7I/YmWIw5+e8d5qPsfT7//4i/yRrf9yicv377d1h/H2bQJGvzEecqRgQRZuRuv/v7pGP2h/'
    'QOz1pP1t3+LY3P7i2yG0//Nv/c3LUULL1aj/Z8/d6eugvf0ABQqvayxOvPfH6R2c2fjl/kbGe6to'
    'GldWFX7fn1Zpy7YHrEFgFpkxbwUHDb7ULNUrIAj95ueeEnnLEu9EhSz/IMs7I4y1mOv0npNntotg'
    'K8BMOoeJY8Wk7/pVpOzuTbzOeM97no03qLzfz7DWU/2t2XsUwX9hM7/ru6+ELSzrBh+os8Nw3IsN'
    '/kLs8GDdt+KMrABINWzbenG+D5h1nN/88CJDhll+iUXBIPD7s4994uqKYQdpMOhnkKdRxwsz+2gJ'
    'avLTQTRjv0/yYnxELsvcVzgbaW21/9el7v+l/0v/W4r0wSgO5F/a/9iXA0XiPnlmYH3MHs8/3T8u'
    'Oust79u4Ga3OrDMa2TQ8CY/ItB1LqwO3ZM0rC4TEgpleHHokSNrg3OH0MgAsOtXrVAoDYVftZrXp'
    'uYFwbJ9hFK0lADQs5bYcTgsE6z1TcvUVSXBhaBjoexi2E5d6XvH2rSSB+XkvWvJTEqzInj/N1JgM'
    'n+eN6JBaSCDOfb9s3xISJDb2W/ZokkEtSUFirSoZrq545LBIkYzZKU/WDlZ5e5mE+YjNOqJlFXFs'
    'bE1TG3gk1k4GaXJqkHsrGer3wDo7EwoIdi6f07mTAp51dbdXx1HA9BONVVSOgsWwsO/uvSmzhAIW'
    'G0Peq3NQsFvqUFRqiQ3yn7peUOHUvoz684+p8I2YFL3SkQbRD9Z2txJokL8+9rpoDhUedSsYis2h'
    'QWIIkUiuoo5bDlDhcpyaZdB9hk3I/O1pFkquQZgdNrLP5iovax09zEjR7Zqyp+1GOiTogG7byzEK'
    'sjd4RYN+lb3rDHbSsKjZ+PfdcN7qlJYUDSY7ClVE8dNg2zPVoI2XqOChek8sR4UG3ub+KlefULH3'
    '9WzObtPqp8Ke1ALlhbupGL4oCjeKyn0jsVrK25yC4athDJSnuhTIWjBzFamGjOF7vmRF75RVFGiM'
    'rz5VeZIMpB1z1hoFUmAtp+e1YCDDo2eaV7nH0ut5RWKsBDJ8HHz4rukJCSrMM1bdMSDDpxZbvmJd'
    'MjYeZsWMbhuuJwFtceqy7hoSpEhM5bkkQ8bGA7I+9vGdw1PXG4CNX49Arbut3QFQs+0bW/LpQGz8'
    'CtqemXZLgwSeKT2F9mokbPy23F0w1fNgIDZ+J85o75EeXFwGbQ2mXqPHRtzLt3M+inaZY7ET0f4Y'
    'xTkNePKqy1KSYetCFgv0CeUhYj7h4eMRLVBsRBR1DEWqtnozr/jsPgcIzU95FjvTBfaTgwdjiK7g'
    '8MVA6u1Yv1M531gljfWr1pUmUTTWrxJtyweNsX7Nl24/O/MQERI2S2jJjvWLIl3LnD4i6f7RAtNm'
    'ozgQBVZH3c28XKGJ+8jKPmk3EC+7/OZ8gRuITOMaWsZLhDv+MhVnxvptzyScWDzW7zP5txeDx/pF'
    'UWwEW5aQdIWsoDNh1uxUbkfYJpCbRJznAtVqx/OWBrjCFh2bHk1ZN3jZ+Vk2t8gNtgYOJOTyEUHr'
    'RsWJ7YFEKPc0K2c9TIRblMm+D8f6Rbe4ckTxFViHWIPcbdGIsDBHeLXzo8whXRfMPr9n2FnzoqIb'
    'SGSsVfMpdoNlZhbJFAEiXCqIWnGGRITNh0xI98b6leZQKlh+i4jxq0RU0PnIwwXwWrLJ7MZzR4h3'
    'bjg+w9EFBvfF54Uvd4Xy7U/5Vqq5wUbpuSnXS90A7mWx7xUiApvq03hVChFSfOlH2o8QYfHTCDld'
    'LKKJFVxRaM1/ZmiLnUa0GIhdnRLsAjOzs1d/inKF+vXW3Qt03WAOR7fv0/NuwBpx9rOuCBFm942+'
    '+EolAh+nqqN8KhE8LI7MlrtNBH79/hucZxbA+8ZRtUU77OCb4wmPdT1OY1+Qt2uaN7tAlL+5xPxE'
    'V8hPTbeRI7jBQIedePoVN8juCm63FyPC3dsKQoJBRDjXWcefnTY2Pipzi6Ae8c0WystUiw5U2cOz'
    '1kf7PfSdYfWgfOSD4y6Y/8LI9SfnB6zdQO7c3QDWSje4YDBvV53kWPuUDI91wUQgmGh5+6UT4eLX'
    'kQ+xDXjbrQb6kQ24Ga35P6n7f+n/0j+fIrvbn9309UdtH379XJKVr+IFbkZrMeuMvuPquu6BqgfU'
    'S7qZWczzgG3ZA04+sz2AOvxqt8kMD+BY+mD7dnYPOCvcWVY66o7lUTmqj9qj/kYP3Yz9IscoF15y'
    '+cC0KWP/j4LqqXfukGCYeuB6qzuEz82az3KfkUflqD5qj/qbWpn08pQk4/moProJ2dXv0e6yQ+7A'
    'On7DMcqjclQftUf9+YVpe3vNYdCL3ge1z/7s93S+oDvUpZt0vYshYnlUjuqj9qg/9P4IP0Qvej/U'
    'HxpJKI/KUX3UHvX3d73v34Xv3zUe/q7xO3FGn1t85j1uRmsz64xGNpMOnf6igZEc4Kzy+tyhV+zQ'
    'OJgzPUGPDbvvMafD1XHN8W+EDFn7T+Hig4TmkWv+ccIfCE/6TcI+fXpFWJ5m0V164gkWu3eI4G4z'
    'qs8LWVObDtgSeOF9iQTfc1deyPbsc9ofyQvqnT6Z00t5sVvV6Puuj5jH8wF/ktUOaw1+sC3fZcc9'
    'SwDCZWpvF6sKgnFjZfjzNCGo3yniNvRIHGpNCPXN5ySAu6b/wjdfSWCXKaAdeC0JvmJea+fskwLS'
    '8l12n12lYT5X41oHlblQuWdV5rz5MlDf79lb4DQPHDo+xe07LovFjei9d9ZPah3DVnNGJb/ge015'
    'aH/dsrNbWwE25zXOeuiuCBcvSz/1TJkPO044SA6wKcMh4nr5ZUdU4NWXx1+jdNTgdIqx9WKCOrY7'
    'mJb1KGTzQ2Xotac6G05ShXqDyppgOTXgPP/mcV6rGixbFfTIPlsdPt0p2CWzTQNyTJRpB6M14fnH'
    'eJVrB7Tg6+yQTYl3teGbaVzTsKYuHHpTfiT0hh40T59x9lOeBsRPFingCNEEfzs5Pj0zLVjK1va5'
    'S1Ebhs8+Hr6vqANe/OpVRpa6MCnN40pPlB6c8w/U8W3WB/nJo+ROP0PQ9zbtechtDD07Y6+eGzAB'
    '2wSNuxzLdUCSL8hV3E8XNlKSW6b76YHuw8xon5X68P45X/mXTAOIzYwTcvhoCOVfjD6b0I0hSsK3'
    '3v2bCVgrf7SkBwL0FbzZ5uRtit2St2bWmmA/NQOIqVvrzWdqCGXVwfvzgo3geZJB3cWTxrAzpXGz'
    'xhTC2D69a7GaGcACslhiLK8pbHHbaJc7YAqvNzjasb4zg2McBTOkJlnAXoPnxs80LOFZJlflvTZj'
    'sPtCcpvFR4DFMZ/jr6oALJS+VO3YDmD2+uzz5AxTmCxieFos3AzYlxG+JnmaQ5Uq78hFRwvQmHfW'
    'OcXXEuazWLzWGNttdDYm5Z28gvdMnLfYMA83o3WYex/tgcUa+KNxdVEUiELFlJdNGykwpWFm9MZM'
    'T1icemDKhjyfPxx3d+rjgbDqyVSYsn209X0WBbJack9+vO4FYFB9nu217x+Oy/vyYnuGuSIVTpzR'
    'uCJTS4G1NWWCdc3ecFz3/IKXfP5/OG6v46t1OgY2VIjOdZEq76GAY8FdmlWHDzS8SQ4QEQ+ASTwW'
    '/PlfSfCE57Su/QAFnPWqawbTadj9KxcOpwx2C9CB80ZZFduSMXypcXWGzVSwkJ8SoECjghdpUYTg'
    'GB7Iu8vXeP3bhOmBIKXaWL/JgwwHjfNV3khRoXajx5a5B2mYpo1/2DSSi3OMb490XvqtpEHcZI3S'
    'x71UeG8etnfTOiocWMx2YaUEFc5lVT5xueYHV1w/tWxvDYT9X73kDDLIMHKblFRsRoVD7+7ame6g'
    'wYPrxdXzlegQHtUubz9Ig1uL3XueraYBpeMTV9MQFY5d73x5aicV2jpVV4jrUEFSfZ735v3+EB6p'
    'uknEjgRbX5LOeLaTwYpY5qLvS4Uv5/23skTTwFtM3fL8dDoYrlrg3NRFg471zYNL1tAgoo/XvWgy'
    'DaQF+1bPTKcC4YrUBU9bKvAUXzJ382REE6Y9EI2fJkgBn3h2kU3LqFBtXsLhv4IGtq9aWPnf0GCz'
    '2kC+x0Ma9DWlniuLpMGNkTnvemfS4N7kmVM+FlGB1Ycv3NcPH3/5mabNNdyM1v3fPvp/KTOlKJ7c'
    'ikhhl6sxNFiyl3g7qfjPn/tbKW9o8bnB0PGLHXIJkwim/+l+p0xVHHh3lQqKdqnFJjp0oJ2uWWqr'
    'SIe/C5+JM7o10aoEN6P1mH2N5jHcOurZTQTTmp1gcs0NFrx3TzficsPuCbLgP714di1D532wvMfu'
    'dgnDr1P6rYpPWMj3N3TeO1EWyubsBjN29156IeYKu+69uMIb7gLk/GXR74xdgCW3fLFQkAt0bJjh'
    's6fFBfNfdYwMI51Y4QbK9z5drYgmwoFvppzvC9wxXXur0Hy7SZddgESNnXNqmzNYvJ7aL9PlBJwr'
    'U9nVLznBMf19GqcUnLGYK23xHNr79rqAxT6x0BfJrkAcjxSSban+YHSKO6bTR7fKxul2ChKnOoKc'
    'doBlkpwD8G0slu1wc4CvaaHG68ERSorytbdedILdC3nD0xudwTWWOLnhgwtY3ZhtqqXH8NtFZwa9'
    'Mx/y7qA4wN130g382naAYnL+oumxA4uQqH2iRfZw4sMkj/ooR3C4drjTxsMZHs2MGhXd5wKdFkmp'
    'K9+6AltYe542lYj543qS3is/DLKFo81Ce9uyF2C670gjwvXHHLZQn7v/yKIbdiDbvO5FR48DtO6f'
    'ebZayRl6uZTiz2xyAWQ7pjh1eNblcCJ21oFG9ry0GtdpJ6xgWEAz0bbSGnR4z3M57bcB7WDrLVOv'
    '2cGpR2/L+5Uc4eIJauLChc7w3q5wc1GDCxTR3zystHWDhwfIglGNROz+qHlTtoluv2QB1ddcQzOF'
    'rSDlztTXPMYLwEui8vzrbbagYbu88Po7e8gzvPbee6MTGJZd2BM62wXuR3cXft7sCpvmHBArHRnr'
    'd8BOgSWGceNrt5Qfx3HWBdjtoOh5iB6EF/4MB42n/35jrPyVbRy4Gc20NmPdTy4IvMkhAcHswioz'
    'HW+wrspT1ZZ3AZPCuaOLd9iAvLjE5/ZLluDYLumsXWQBfe/aMg7WWcL6hOtksXwb4C3gaZmt5wJf'
    '+D801Ch6w0Xup4Kx+0lwv13Hjd7hB1URj68e1XWCp6kGb43rzcD8ZLjpioVGkJEXdeZakR40LGTf'
    'OfWMLvTOfs79uVkPgliPCaypNAJ5mwXPw8XNwbuSo6ZtlxNwyZjfZC30g2/LFr0Ue0CEZWLPknsq'
    'CGCSf2vAu0kTYrOqdfhlVGGuG3+rX958OJOXILmlSRFom9iEfcSUYNki7ngCjxoMHVMo5b2iBcIi'
    'Jo7bzwNwVQYXHR0ggoRPTVHCZnMg2gU/z8hThAX9EUmRO6QgqTcwzSlBFLgbCiOFZoiAqurNpRcf'
    'zgbWV7tIj47OAdLFzWumsUkCr1X7rQVXZOBkoup675VqoDkebRaNOE2fUF7eC28Je75Nf79v7gCh'
    'IPLM3LorQwTtaRVn7r4eJWwcurenzJodbO4v+GTxZgqYz7z4uF1hJhgqNyXK8AlCIvdreaNsacxL'
    '6O96378L379rPPxd43fijHbcnfh54ozWwWzGYNz3Bv4KHxxNJUm9v8hv7nL07hn1PnQYEpv1jfvW'
    'b5dmHvCLb2kNCYK6utbDrspB8H8tPU5E/lNBWAwOeXWmRv43UKjroE1e2kqDXAWuuXVGQZDP2kHX'
    'M/rtSCsMjLIp6gQB+GT7r3Imw/7WzYkutr+fU1XTozgTXIN+cL7j8dT3PA55jX8K8m6fjJ6syyJB'
    '8IsT4vFCFBg1JRipSNDAZEWfUPIQALGw8+LdhO+9ebd+zjE5sJGE+UejG4QQQidlvSRuLf/ekjh5'
    '6ZmTL3YzosqH8Jnt4J4egD0f2TDEfOsEkWQCFvPv18f8iTzWWhzymv/0MY9SZF/1R/2/kH3cBN/Q'
    'P2yZiJfcDjxv3odDXuufhrzW3o9pedYMH0fjQaUzOW984Cm3ba3kSt+fIrZnaWryhxYfTH96/5I3'
    'R632778R7kfReH+wC75VloNDXpu5V9gfjD38HRS/YQwOnhRl7RJ1hbz9Xw9aCy/47t4xfH9oVzLh'
    'dncsXpYTZoE0YY5heSt89MJjqo9wyOswK/Lou4ziXyB75dAjomy2a7zGEfQCviSt2RuaPCFfLz/Y'
    'Lt0TYrk/hqxc54lZSCCLCdQPij/cslyFZ4uBF3jBCZFlLz2htnVX4JV8Tyw+Mv5GBWyd6O0oSm71'
    'gu6NeyxYFnhh8TqG2+kxz055ws0Nt6+s3eKJQ15JY5UKDnldZkUe2X0W1h6+kqNDgmPVnC/DlEm/'
    '76swhhyKj4yiFCI7YKTb+1FU9j/7/InIDyV/wd1hpKPH7PI81/g9xkOjPUc/5vvBlo1rPvZ/9Ieu'
    'qyMPNu4IgMV7UjsoLwJgRYuDYaR4IJybe7471ioQyPIGxxorTaFR8WuCsKk/BBCAt6ExAEgly9PZ'
    '7QNhVohdg8jWQChWkX4/LycQ7vUd94m5Egi+m5M4nOoDsdgxZXfuf5NwJmHRbVd8droyaYwjb/s3'
    '2Repj3HissWS60okOGT5jmKuQIL01HMV2bL4nZQyywdWHPL6zIq8kdz6ODMRaaid0WziFSkJXqdX'
    '+guFikFH9smgZaWzoWX3F0nZFgGYW1uSnCvOC7eLS++uC+CG+ot7TFa3c0FHkJXnkiEp2MlSn8Kq'
    'Kwk3yoYf+e8ShcV1wa+d3YRhx3LTgo/FfCDwYff7mRtnwNAWqSVZDezgPbrdtax5mODpy20QoSkN'
    'q2Ie7JcjScL8jJD6vWWiENe6mKVJXxhi2eMGK3X4QGGWbMiV+dOhsK81s6H72w/uIe6OVBKYiLyu'
    '2j9NtvlR3HrB0fqbXIu8sO84Po79z+La49MfPf9Hce/x8ZgmIr/qivEQDnmm3cOar3z5+MVjOgx5'
    'z2DhPMHwj0CnlrQTrOWfv9F+uaWjlA7hsvL63WaMPeQuHu6u8vl07L569D1Hd6tWytsobxUnAaWn'
    '9LI7iQzBJVZBN2lU7H56M78RDxdrGpSejphySJsKSRfudT88QMb8BgpXOVnMmsTwMyiXUTMVzSXD'
    'lFif9vV2+NPSRotj73DIM+0eFsnLakcDu+7qUDC7B5QihPH/o/qchw8Ii5yiQNMWW2GdDjLIewQu'
    'DntMgid7pgofZWdETUV5VI7qi76gc5JaKLD0deuQjSoFu3flbNOjs6/MyFh7lEflqP5E5LOop+bj'
    'kGfaPSyygED3AaNTlV/ixxtD9Zm7YqvDtDBtAJLT0TmnbEclS089BYtvC5efdwqYWmPtjJdGCr99'
    'yLhHXncJd5iNsT52zy9CFvmGOb6b8jRPzh57HmqHRgDytEC+QxORL/J/8wSH/N+zh9VTktT8h9w0'
    'YzC4w2E9B2MvumMwTqv4+Pd72koySZx3OBC4Xoc03IimwjdJ97RnwYw7I1I+ilR9cbUBqmmrz0Fe'
    'vDzPNvDVDYe89j8VeZvc4uC90/+Lz3yGsOpLAzlQi67MFYykQaHzxeBpOwVgG9fJKbVGdAwxXgu5'
    'jJ6FDD3Pg47ZB/eJuMOsbcK9N1/P+67/GYoJ5V9PkSG9Zdb6O7W/VXswYhP2DIe8DlMj/y8PxRXd'
    'IhVfxbAonCgeikz2KuMhbjGwCU09d+aYMsSJV7iriXDCqtO0gIN54jDDZUvp+3RVUE7cOuzKzQt3'
    'H93YvyxZEmQsHZQLTZWx6KDzg7NOh6tJw7Fzy43vzlXBoowJNG3WvsUlA95hU4gVoI5FBz0r373c'
    'eJ08ZJ0klrKYqkHaa4s5d1hl4aFcc+3NNkVg3zLo1V+Pv3HMlsoajENel1mRP1cYILEz3AtQPHU0'
    'lpDUiB9jslUdMHjAF14MCWVKWXlj8dVR3PLyF1mhm7q/lxY5PZ6PCD//Pk4Bajfhfsax/w9qjNz1'
    '8KJiPryoHPmc/ro832a7dTUOeb3/17/z++917cz84g14f3WUR0j9qLx7jdCakz2/P3r2ROQ1pVNf'
    '4pDXZ1bk0Zi9gZMiLS7279/e7QkaFrfs9Ps8sR1N5cPA3p06nqB8p4l7qq4n5rl/zO3zstEvHrBt'
    'eHH03CEPEDpTtEN1LP2yPkVq72MPuHZLnZQxlqIbkXNjKitsajxgpfPmPS5jae3FbGXiWNpC3CMo'
    'eNkDWjs8j4iMpUq7osRFx9Ick7gb/iUe4L38bhppLG2xm7SXXILXz2+cXps+EXk9NWZFHklpeKlt'
    'QV6fKmWSIfadRnmZ5avNUh2MsOjLKD99uu2RaQQTcOpNzGM9o4blL++OXfLcGTApEeWR9hg9D+U7'
    'u3fz3RkxwyzmUZ5X2k+QzccCPjzfs3logymWn4h8yWKxzTjk1ZkV+eD+urruu3Qo2RW1JS5+bC96'
    '+oCP3SjjO4rK23bKc3bJ0uFH9VE5yqNbu5Fdo4exSVjOwrG9sFCDfYIUDVInH7XO6aTC26UzYz/d'
    'pcK85mUrKo5S4f3MISslFyo8flzjLWVOBeHDmX7Sc6gQdLO4X6GaAuKcwRGOlynALxOYwZaKl+cJ'
    'Ju/v4pDXYFbkdz9UTxOUdoc53x7dT0t0h+0eb2pmDbrDdat0kSIZd3h1SN1RP90dbhJ7oyPEPOA4'
    'LN/mIu8O+fLmc9mvuMObhxepHs4ekHq0PKpK2R1kar/2dHa7w5rJLJIHUzxgVGf6+yc67vB5E0f6'
    'Q5Wxenvvt8tN8oTGtQnvuG3cIWRHf6H6aQ8wsHYu3XbSE/PfOrhRhiB9xxPe1O0csjnohY0E1VA2'
    '4aFLYyv4UekNu+PwehvW2atxEc71NJkV+bnifhJZYZqgKlv7iLaT4X/jvEqpNzVWBc729aZ+UFeD'
    'hTscZXUt1OF4RVO4uTHDnwjdO1tSYbteU1QQVFad7ztTIgTJLhdiFEu/v+fW9/6iA8nH3hGQf9PV'
    'Xat5ClbMho3K7qfPXpmD+Sd1+EpyNbIpwrGKW3JrFZUw/6Ko/bRLzvWaEBfNsXtHkDYO+Yw14ri7'
    '0vS0mF2etxy3Fa1y2XWw3NcTZCy401x5eWDLjuX1PS4amMyRknItfkU8H5Y/sH3GWa9EXSCxtR9S'
    'chSClfKeU3WmzYNU6jGJD4maUF1YPPvTVDG4cddgSlTJPCyO9NHzl8QuO8yF0SKV1eVkBZjqK7lN'
    'qVELRrSfyVpdVwLPTJUPyULqIOsXu3J7lAEY119qHd1nCJMIs1Z9UTWGNlfSvDBFSxzyTs6As13U'
    'Y9o9bP9d5Qi5u2TgDBa5Xr2NDOEijdQzH8gwP3qXoV+nL9SvGJHYM+A9rk/xA97S7c1GVs6wR4a6'
    'w7fS7rvz0yOa7+5nqwPEvEwZjGb/PrIg8mELKClU4tA1/KEUWXu2yDGMRWei9civ3Ms+EXlPAm85'
    'Dnmm3cOmvg/iHrnNiOuM8uimqL6mnE1GyYw80qwNLbcxiyIEYvmmyKFeYVsSnDq9462xLvm7PELq'
    'R+Uo/6P+f/Q+E5F/etgFpyXWw/awcWy/1ELpn0JeXVNJUvuv9amR6Jlq/y9rva9uqpyfgn8eVzn4'
    'dXt2s2gQiL7nSy3r+/t8HP6X/l9aSYYsz8PFiNfTY9YRXHparcVjSBK6472rr1WLYyN2f/VyXasU'
    'HqhTe3Mi7TM/jLxmX8y9jgR9XWTzS8NkaNU2r27YOUxA+T+L4DD9iNi3d1Ljd7Is+GF/SCuP4uLg'
    'y5FPC8pLs9/em9ZPgZVl9XJnF5H/P59hycnHBUqWLPjT71FSdjhoIZ0Ef88I3u+f+w03gvX/Kd/g'
    'f2pqn332eFzV92sAxfFImCovYw15njk861GgNMwbCSBkWAXB4Dbu4bWN37dzP2KskrJCH5vR0VdU'
    'lyxKoUOY5aR6rwZG/fzCsJYpOjSYSbxQvX9SELRPtpHYIsYH5+MXybCO1YtMGVyj9pRR/4i06lPz'
    '2Yz3EVr0dP6auLlAb3mtRbD4lTXM7x1/2GeGv6HrVfHdS2N/PhPfik7LMzf67WvixBHcPJjVNHEE'
    '66sx6wh+deCi+EYRN9AZ9HU6yeIGk65knHwxzw2UKhyct2u6wbdp8mWCimPlyw9J5xe5wjX+Q1M3'
    'nnEFh1uLnvq3usKT2Aj2HXdcYZ+9L9tCDjfMT47fq467ZY0rmI7HZEOxzvqqXR5tuegKty6N6n7k'
    'dIW6G9Uh3lqu0Mq+Qita2hUmT9Y8Pg9c4cLK3IKb5q5A2fW1PbTABQhTTr95uMMFogzbLOKjXUCv'
    'YOlCsTsukB+QY+jc6vLL/VZnnCG7Yrt6U58zVGVdUkw1dsH8BgNrermtylzg+cPnL2fMcIa7TgWC'
    '2ZLO0FYadW2DpzOc9KiSu5TtDMu2r3rdyeECLbwLI2RJjlhMvHeVcw33mTthMdzQGoBipjlktNXH'
    'h9lBRJ+WWRqvPeY/FiJRw905hWGJ2Wtt90bosjVUXLfWWCvA8ONDz0P24S6uojrR3mawa+2acKUc'
    'S6jN4sy1SbGBu/FiFp2b7WHaWw7xpMmaoDN+gozqI7+4rRVZVZ1DttgMRDHgUf+bCSbHa9dbY/5u'
    'E0dwXM1UddwIVmfWEdz5Vi1jw3V/OJwomcwh4w+2oRGfOiv8YUN/KN+8sTTqhtqGLil/7MzGu0mh'
    'IHwsjXvjsFW/NwCabVkcThoGYNEgrO1E97vvIoHh3Ca5/fokLK5l+WqSnUlJIGZ3iOJqfmzlW0VL'
    'ZsTVxMdZbaPZiq3uY8RNZWetbftmRQHJzvSLbYcYcT3RGc85DS2ZtoU0CDZylV+6mwaZ8Us4ErbT'
    'wDFHIvHaBtp3cU2XXJFTXigTBEpZm02vDtAxu8rDeg48Dw7QIKd6x7CSGqM/fJxSfFxX9H74uKPo'
    'TArFERWZt7TAZz8jjqhMTud0/d1k+FlcW4Tfvy2w+hj8sBx2NK82CgCrsySRWUmBcOn/1959wDV1'
    'vnsATwQRWSoiKCIgAuJCtmwfQdmbsGSTQBHRSgVFRRQUhEqtE8UqS4uCAuKg4MIBgqAFF+KCirgX'
    'Ig6GeJNXc3JNHj61//be67333374YEy+MTnnl5Nz3nPe53nze9BI4wDqCtu+zIYyD98AGORpQM8Y'
    '5w9ZJ940DJ8dAA/TH//a7c1/JFfhf5Wvv5mRzje9F8Feo392nTz3SivuVSb/PgL6v3wkd2/evPd8'
    'Cdb9thPsCf/+/f/5N/84Zt1v15fxJVjvW03wnfAE34/fe8A5pZVTjEM94H771mKvYN5t7v3bpY0C'
    'qsAD5OSDmZ2aHtR5K+5t7v0rHC6wRGkecGnMb911LQzYfd9LV/4Kg7rNvf8x4+eWwt0M6L12L78z'
    'hAE1Qyri1Kx4t7n3543KfKCpyoAlZYv1nVLcYYPd4M5sbXfqNv/9KbfcFKMeusLBJFZXm54LdZvf'
    'c+/nrkHubf7n/7Pn+9rX97Xv92uX39euj69dv18muFBs9SC+BOv/bxuL4L9mtL/HOab3aC1mr6F/'
    'unbsv3//T+5FeN8xV+ZLsMG3muDhK5xrZ3gGwQHrdeeD6njVncz/+GA2r44F4K0uOeo4EyYNkJ1+'
    'bWgwlJqPWtEhxwI/6RlxSWPCIEVnu67aYxZMPrw2p/gxE7yv3H0Ukx0MZeebltwAFjQO+e1M2u+h'
    '7P3shCfNnSzYbLsnhCbBPkJ6cz37kmQIGCspVQi5s4+MhKFadB37cW/aT3izH3cl09FrvBoLqnsz'
    'C88GhcAK8edHY7xYsOjyOYdF3qFwKRU8Jz9jgUxRmudbAxbU/5hTVJwVAnHSEicGM1gQqXal3HNS'
    'KCQdyWTktLBgTHVuyTsLFqQ8fLZoTX0IWKs6a/o4sODA2zO0W8KhsKV7+4TmBhZs3Hky7wc7FkRc'
    'iywa1BkCjjbfOa5hO+/RRiX777Gg6M397mmnWfBCvPVAlBMLblY2JPYMYcL+3nutl6axQMuu6NH5'
    'cyyoCRY/v6SEBfbnRmrVOrPfT9qFxMVqTNjlYNz1fDILEgfo6cwrZIH1vF2n5XJZMGPLsQxV9uPW'
    'JLk7iBowYdRhA2VQYcGzX88N+5DOPpLMPdjmsol95Gg9fL6wIwu2XU0a1GjBhBW7tc9+YK+PGsXy'
    'zbRVLGirjRwzM4kFecK75tXbskB4oEvtSQcmOAopV4EU+/XFPTSWi2LBjuVyJh8Ws+CHspN1V2ax'
    '+LbBFpIBPXwJ/mbPySlKhh1ZsUuNunIrSco2QV9LA5QZasVb5k8EO71HpyrmTaFqumovOPx8hLAq'
    'TMi62pOUrAaxyWetdevHw8+/jHuj3DERVuSd73i8SRmm7xlrZmAyFsJNmj6GFamATLt4ibyYGtTm'
    'StPiAzUge8xDade9o6kre12zm9M9HZVg+VkRJS11FRB953mRWaUG+QY+6WPuj6Cu7Yi5dccxpW0k'
    'vPLWm1UZqQgf/M+3fmc5DrTMfyrQ6R4CyVpFBUarpMBL5LlWoqU0jH/QWZZ2bSQwFVVtmbJj4UJ+'
    'WW3ofWGY3179HSPj43Sb6C6btN5BoHoKVpyOkoHSi4tfRLgoweGqZ3Pvre2j5qMFKryveZpJp2rn'
    '3k2fWbRmiBI8nOBRetpDBLy3GTPp72kQ8ssbsfMPBkPwjGgVFQNZOOkpPSVZeSz1erhniiqaDZ5l'
    '2I2g+i3reC3RcVugCso/1M1fWCYPZacYfR8DRlOvpzbmYJZk3DhQPKrRUjN5AoyeH3cna6AKNb/i'
    'eGFlxWVjNXg5ZunuKP0JoD7sopW3xFS4q5q2zE1qPKRbSUSuX6MBbfVrs8vsJ0F+0IGl4nlTYXls'
    '9du1L3T4EtygJn2ZL8GG3/qR3IFVQ37KV/UExUktR5cM8oRAXfdLMuM9Beq0vSotXFNUwqDqlr1L'
    'PH24t4IBFR4ep1gavLpr47dUNH60cqd6aOwZbm7wB8sd+hKa8483u1N1tT74/+Ry/wmvrht3RvyJ'
    '8HKt6wVuVB2u8ISkxLG5LvBBPv1ZxnYXULavcnB/wat7xr2io6DtcUtKixM4qkafnvrYCUKDD0ae'
    'OuFMee44bd7QlAPlBQ5w73JtoVKTA1X3jFsXjjtOOjdAWl9sjx3YPLqtrStuD/P2WgpNi3aAEzaO'
    'wt77nKg6Yr2ie0apNNpQdc+4nlsHjlt3jDtDiFuHjTsebHfVWe5sgxM1bsyte8at06YpKu736zEH'
    'SCczh1zAwui8mei4WcCtu8bdG+DWuTPbOdL2/Vk36jv1r9UxK2x/oMSX4G/2nNyJ70+7bWcygcXI'
    'Njs9gQnTs3a8WiXDBF1b3Q9T2bcnXn8nlxzChNAX4gUX2d+q8ZcH7k3dHgKnq7PqY2JDQKVtUWdu'
    'RgjMGqK+VP51CPT9ODwwbH4I9NLkmu82BcOTGzJPRmQGg9XehwqzrwfD1ptFlklzQ2DOxLYYz2uC'
    '55YiDOp2GtcEgea2jguP6gXvbz8aGG503A/OsU6mhacGwKtNr4vezwoG4dlFPaWlwbB9vsmdaEPe'
    'lerTTZ5nOijPBnUTkdbYNf/pypjPyeM+rtlML59Z6UZVRf5Lz/cVr+9r3+/XLr+vXR9fu36/TLBi'
    '4risLxKso0Wdk7P5fC2VzT9xTZX+3w2wslgkwzTS/g1vpF/j5eCYKqTWUFzWpj2+QiwI+X2Nd5n7'
    'Xx8PXkC3l5jTGgT/PUciO85YRPGtAeqcUvbnJZ/9T6wBvcnKRv/Fs1RmLDzZVdcWBDGrXq6/HPev'
    'L0ERvddxhTfc/rIfGRiybWoNE4I6NylOaGFChMXcicJr7eGD5tClbXt457tLZhgqn78tmIzIVZa7'
    '5pX2M6ePnbigCznRPn7Mr5xzN+eB7gm+NUuda9H4vEY1/ok1O+3vX6+Y6GnFYNZ6g8oxpVPSs3i9'
    'vR+OWpYkNpwh8I5PFicd3TXXHBZq+fv/OJ9vTXOOTZeIqZVPMQT3M30hjyMMYYluY2iCyGwY4vsz'
    '0/3Kv37Nz5dL+GluvALfEtb9Vrde090yKxzsnEAkNexIGHvPTr8xrL660gHkqwccG+PH6+GbFzsx'
    'rSvBGpjPtzXcLHGBC6ckfC6vngVeWs7KC7Yx4LZdRGTTHt5VVmUKVboKj+yp267VN2+vUuV9dr6r'
    '1NOZHhkEqr8cNM19qwee9U2nxjzidaVPeju/2TDeBRib2yslynjjYVraO3MMfHWB7hTvSH82DaaK'
    'qJt2q03j+/7oG/fkAN8a0PtWt15PNA/VRVq5QvRu9VWjxe2oJTBArzN0b1YwFL8YG9dwJBhy9w0d'
    '/Cil/zpgK8L9Ng1qcQAx850Zz19ZgmRF5tA7ZQYCn4GY+lTNmbN5n42NHaXnnTbzsu9D37At46Xg'
    'VrKrXq4zdas/nAltjPcst4DW09dMDLoDQFahpWXFwa//PnvvdDeqhB4M7RdUX9UyXeGvfbYMbHwX'
    '8q1Zaox35edHcX//rTWrNfnvrVf2mv3ylVtf0k/me+XU2B7t89447Z/YKzf45+q4tP884/3oHz2g'
    'SMb/5MctDlC8utV4xEML2OKtU7Rp5AyocMu1Sn3jDOpnX7R0lAlWTvu4WjvEg/2p12hMW5uf5Qp2'
    'B4813kp1Bs2rl3MTmnR5e8N3M3Q+KpiBXJkE0J/MpJ5nbsO4imkyXtA8WGtqZY8bqLmvVooe7waS'
    'slLWRw+bg+LyvTs2TDQHq1neZY0hDBjvWfr2tDXve+H7J4kVP8jxtmJhc8rebzBzAjft6qcJaZbU'
    '34tckE2Yc5O39crqrU+WoLmBaeROt6o1vIy+uPV83evDLiCikvU9S84F3o+20/+NvbXUH+rzTl7Y'
    'GQI1nkl6H3CHW726nSouPLdqhsbKyVH9Z/3725d6y3s9+qkreX2UXAdfcqZ9q8m50kUrLQzlLfGl'
    'pdLrhls6ULfrfrbRWVTpDrYLfy0uiHOF1jhfkbw0BvRsXbl6eqMXGA3Pje+RchdYUhWvI4NKFeyA'
    'NWEyqzPLCv6QX9gUXOQCGvcdunSKeWvux+zInV7rPKA6/nXxzq0OMPrVVfU3vzIgZXpPoGO9NTx9'
    'NexIxylews7+aNg8YwCvs/XA47nn9y13g0HjQwPs6E6wb8DGGGl3KzCRfWStdEIL8roqVPdftxN4'
    'fTYJU5fs38CA8LApktmLPSAwTSbf0s8ajpuevLv5nQmVdOWUIVu3RrmDqqjvynwPwY7aqSv1WktG'
    'ucJ6iavmSxrtBP79iiemH3VMjajXR/VCmPiRZXmc/4xYZdHTcXzJMfxWk7O7Kkmn29sLwtXELhvd'
    '8IE7E5Z1vTzCAJawv3DVbd6S6thmaPmYfXutxZHbV3QEZ/EfDRM1zPrIe3yLQWLuDntHmP78kHhx'
    'Hvv5zMNvqcfzjqhlX/7UZxUvWEVANcfK3kDGBwLig86M8LLu97P7k3nD7pyDvG0OpBXGXBnuBll3'
    'H+uLsrcdN5YVnLnmawGpZu7Mmlo3UN7UF5fzB+/fG9+tH+x6hgEyzNdZc0O84NazlrU/dNuCzrWt'
    '6TWvzGD2S4cSORFt0Lk8+bCYkyPAjpkiyx7ztiV28q9Hy6bx3m9Id5tLaY8vLE3tu+h71JJKnqVn'
    'VHNfkzNIa9+9wZgiOJf+y+S4lnec50uO0beanIpzuotK0zz/9pFxa8fUm/uKBY/vFjHeKqi5sbcl'
    'u2eIVK13AZ2A9OQRR/58z8VjPT1LZLEPzLR5UpxwxBikYMuPv92ZAS1SfUOKshjgSvcdtXigN9TM'
    'TgrWMuIl6FQhvd7GnwFRj/KyXs+2BbWUEN9jN40hkSaz5572LOpxVtqvmIcP8bZ9IhvTR7VO8Ab/'
    'ctvt6zI94dHox/uyT/DqiXLn7P/Z695+d98Ll2lu1L9f8Lk2wFr1+Ng5c02A+/rw5NCu137ZA1xH'
    'W+tb389p26m+0NiSty15l3xdQi2P95nyi18za/tyXjIkc3f5ZfR6gda99nVdFd4wcWTjAqthgtsQ'
    'ZdFUeWe52SDVuNcrTd8VnGyK8qbl+0Dyd9qBtZKeIFN/P6lLzrvfNaLiqaF8UY0BIZrG6zcKOcCC'
    'ts3tNvGuEJzQtaixx7Zfl9kaMXXeRt7z9m0MrhAqc4em/FixmRkG0C2b25F0w/JPk1B8o6PUpdAf'
    'phy9L+N6jZcks9WHJoRZB4HBbYmWmQ/7r7v37viGgRGvZ0Og1K6l+VUzwVplk2PUTi9oHFhd3mrA'
    'qTFJHzBFiJedEiuFVdmcYzP2jyiN999KcqzG1Po0Csiv1B2VknF185PSxpSi6vLpuDpMJ0oHU8Me'
    'Lm3F1boBROliKuNuhhiuwoWI0sNUYYSKF64shInSx9TEOzHluFIYSJQBpgYyNtbi6u0nNQ1Tvy5M'
    'DcVVgwhRhphSu7j2OK4KBhFlhKnI4Pq9uFotylHaaDZOmv4mgquAwUSh2VjfE1KCK0MxotBs6BnU'
    'd+FKWpwoNBsG3sMqcfXsk0KzUXREqQVX5ySIQrMROmtXCq6yJYlCs3FlWUQFrpZKEYVm46KUtw2u'
    'GEOIQrOR9eDQRVxpDiUKzUZPwgHAlegwjtJBsxGaI9HP0mj9pNBs/Nww6Q9cHZcmCs1GyY3LabhK'
    'H04Umo1fcvtScbVAhig0G6EFwUq4shtBFJqNePe9ErhSlSUKzcak2OOKuOr7pNBsnKrN1MJVkxxR'
    'aDZsU6AXVwdHEoVmI0HI8DCu0kZxlC6ajWgn2VhchckThWYj/5WDD65gNFFoNlz0Y5txJa9AFJoN'
    '4/Fqubjq/KTQbIxOdp+Cq9/HEIVmw3d13UJc7VUkCs3GwqfCkbhKVCIKzYbQzsUHceWnTBSaDQPz'
    '6BpcGYwlCs1GjEWYSgP7Tw0CaqgKR+nh2Rh7aQqu5McRhWaj1u5MJa5UVYlCs5FDU/6AK001otBs'
    'tB3UksOVoTpRaDaOlF+rxZXFeKLQbCzQTArDlYMGUWg2vJsshXHlOYEoNBurZnuZ4CpoIlFoNm5E'
    '/ZGFq4hJRKHZkNymfQVX0ZM5Sh/NhkjK+gO4ip9CFJqN0mEyx3CVokkUmg3F7J0BuNo4lSg0GzHT'
    '8i/iaocWUWg2Dg1+tQdXedpEodm4XyL7DlcHdIhCs2HxXCoCV0d1iUKzIX4x2wpXlXpEodlYejCs'
    'AFe/6xOFZqMrq+IhrpoMOMoAzUZjUo4zrlqnEYVmQ6xLJwdXzwyJQrPh/6FpEq7eGhGFZuPUDou3'
    'uKKZEIVm42KSRQ+uxEyJQrNhEdMljisZM6LQbGydGj22hv2nGgGlaE4Umo3DzSJ2uFKeThSaDe26'
    'Ve244pyPZCs0G6H150bgSnUGR01Ds7Ep+G0MrtQtiEKz0ZviHowrDUui0Gy8e6E9CFcTZxKFZgNc'
    '50TjavIsotBsOG3ZFYErTSui0GyMyF43Blda1kSh2WgobgzHlY4NUWg26vfur8aVni1RaDYepYV7'
    '48rAjig0G3FnjGRxZWjPUYZoNrxFt7bgytiBKDQbQd7zl+HK1JEoNBsSo/e/w5W5E1FoNjamHfbC'
    'FTgThWbjuNHA73Bl4UIUmo1qv1+O4WqmK1FoNl4Eqn/AlZUbUWg2VI89z8GVjTtRaDZYQr/cw5Ud'
    'gyg0G2uDX5vhysGDo4zQbKxgdvyCKydPovDxDdPK6bhy8SIKzcZFreuDceXmTRSajUs1vndwxfAh'
    'Cs1GdOaA73HlOZsoNBuyCeVFuPL2JQrNBm3uSB1czfYjCs3GoVcOe3Hl508Umo0pz/3G4SoggCg0'
    'Gwp1inRcBQWylTY+LrriMqufz1dIEFFoNsy70o/gihVMFJoNeZUwU1yFhRCFZsNWLuQxrsKZRKHZ'
    'uHkmpx5XESyi0GwcFDPr531FhhKFZsP/0pkbQXQajfPzpZofRhSajZcOmT64Eg0nCs3GorG5jbjK'
    'nUMUmg3TSylJuDKdy1H4uOj7uzqBuGqMJArNhvQ9uxO4WjCfKDQbVUkV73EltoAoNBsLYgM/4mp3'
    'FFFoNjodxvezvswXEoVmY/PV9bq4aoomCs3G9867KnH1wyKi8P0N1e2luJKIJQrNRubK0te4yltC'
    'FJqNxY491biCZRyFj4tKPujWw9XNOKLQbDgWVl3AVXQ8UWg2ti7tsceV1Eqi0GxoZM0wxNXeBKLQ'
    'bHRd8pfGlcUqotBseNcZD8fV7dVEodm4FCc0GleLkolCs5H6dq0froamEIVmI2b3hXG4KkglCs3G'
    'xt830HA1cy1H4eOiQjn5a3DVnEYUmo2+03NkcBW7jig0GwqGyyVwJb2eKDQb9fJdOzjXdmYLqP0b'
    'iEKzEeEsZo+r5E1EodnQ3PdEFldBW4hCs2F63ioSV8ZbiUKzoTPKzARXMhlEodkQP1O+AFcvthOF'
    'ZkNew384rmp2cBQ+Lhr/fpIvrnIziUKz0REpK4WruGyi0GwILTe5gyvPXKLQbJwXZfWzvrR2E4Vm'
    'w7rzpSGuxPKIQrNRVfEuGldte4hCs7Hf7N7TbUI0GufnS3Uynyg0G/ZRGT/gan0hUWg2YmUL83AV'
    'UkIUmo1ZBU/8cKV3hKPwcVHbOp+LuBIpJwrNhk/f42pcNR0nCs1GfeiOeFwVnCIKzQZ9+Jn7uIqr'
    'JArNRlnEoQ5cOdUQhWZDLcJkH66ULxCFZqNF1/Y0rjrqiUKzcSfN6jCuKq8QhWZD4+SagbhKv04U'
    'mg2nDWnvOLWuQSDz4bc4Ch8XfVO4IAFXrbeJQrPB6XOPK79mGtX1XuCKhX30Wlw1ttCoju0Ceyn3'
    'bmzGlctdGtVtXGDJ15XuxVVtK43qlC3wTZQ9tQlXM9toVJdnfsXpSYyrk/dpVIdifsXpp4srw4c0'
    'qruuwDEs7TUdVwcf0ajOsAIjZrGTR+Bq8hMa1dVU4JjopFk3rvKe0qiOnPyK0z8SV8rPaVQ3SX7F'
    '6X2Iq+0vaFQnRH7F6duHK5l2GtXFj19xes7hat0rGtWBTmA/ynZBC65EX9Oo7mn8itPrC1eJnTSq'
    '8xe/4vSpwlXvGxrVtYpfcXos4WrROxrVcUlgpEK8NgdX7e9pVLcggVH9iDGrcRXRTaM63fArTl8W'
    'XLX10KguLQLfDqMWS+Eq4AON6jDCrzj9MHDV1EejumPwK04vB1y50ehUZwd+xelDgKsLdDrVlYBf'
    'cWroc+aCc374xkWF6FRFfX7FqVuOK1EROlXFnF9xakXjqlaUTlWOFjh7+z7vCq7SxOlUtV5+xamJ'
    'iisnKTpVIZVfcepQ4mroMDpVlZJfcWr/4erycDpVCZBfceqt4WqzLJ2qviZwTaDY6kG48hxFpype'
    'CRzD3jFXxtVIBTpVZUjgDJ1kQA+ubirSqcouAmdh1KQv42rHWDpVTUPgfbU/UMJVgCqdqmAgcAY8'
    'cVwWZyaljeB2fjydmjXOrzhzm/s5TtGgUzOd+RVn3ixnXqyG4HHKRDo1i5ZfceaC4q+weRKdmhkq'
    'sJ0f9+RAP8eVU+jUbEaBa2BsfBeu/Dz/je+4ciqdmikncHRzST+ZXI8tsOQ7Pyk0G5w5SbjS1KFT'
    'M5T4FWc+Cq7C9ejU7BR+xZmLgKtcAzo1M0FgVP96bTWubhvSqavSXewHinD+9gr7/8TJNJqsCedS'
    '4/8A0ZgPJg=='
)


if __name__ == "__main__":
    sys.exit(main())
