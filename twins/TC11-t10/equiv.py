"""Differential test for TC11-t10 (proximity: dask wrapper closure -> module-level function).

Runs proximity / allocation / direction on numpy and dask rasters of several dtypes, shapes,
chunkings, metrics, target sets and search radii, in two different call orders, and compares a
digest (dtype, shape, raw bytes) of every result with digests recorded on the unmodified tree.
Usage: equiv.py            -> exit 0 if identical
       equiv.py --record   -> print the digest table
"""
import hashlib
import sys

import dask.array as da
import numpy as np
import xarray as xr

import xrspatial
from xrspatial import allocation, direction, proximity

FUNCS = {'proximity': proximity, 'allocation': allocation, 'direction': direction}


def digest(a):
    a = np.ascontiguousarray(a)
    h = hashlib.sha256()
    h.update(str(a.dtype).encode())
    h.update(str(a.shape).encode())
    h.update(a.tobytes())
    return h.hexdigest()[:16]


def make_raster(shape, dtype, latlon, chunks, with_nan):
    rng = np.random.RandomState(shape[0] * 100 + shape[1])
    vals = rng.randint(0, 4, size=shape).astype(dtype)
    # sparse targets
    vals[rng.rand(*shape) < 0.6] = 0
    if with_nan and np.issubdtype(np.dtype(dtype), np.floating):
        vals[rng.rand(*shape) < 0.15] = np.nan
        vals.flat[0] = np.inf
    h, w = shape
    if latlon:
        xs = np.linspace(-170, 170, w)
        ys = np.linspace(80, -80, h)
    else:
        xs = np.arange(w) * 0.5 + 3.0
        ys = (np.arange(h) * 2.0)[::-1]
    data = vals if chunks is None else da.from_array(vals, chunks=chunks)
    return xr.DataArray(data, dims=['y', 'x'], coords={'y': ys, 'x': xs}, attrs={'res': 1})


def cases():
    out = []
    shapes = [((7, 11), (3, 4)), ((9, 9), (9, 9)), ((5, 16), (2, 5)), ((12, 3), (5, 3))]
    for shape, chunks in shapes:
        for dtype in ('float32', 'float64', 'int32', 'int64'):
            for backend in ('numpy', 'dask'):
                for fname in ('proximity', 'allocation', 'direction'):
                    for metric, latlon in (('EUCLIDEAN', False), ('MANHATTAN', False), ('GREAT_CIRCLE', True)):
                        for targets in ([], [1, 3]):
                            if latlon:
                                radii = (np.inf, 3.0e6, None)
                            else:
                                radii = (np.inf, 2.0, 4.5, 1000.0, None)
                            for md in radii:
                                # thin the product deterministically
                                key = (shape, dtype, backend, fname, metric, tuple(targets), md)
                                if int(hashlib.md5(repr(key).encode()).hexdigest(), 16) % 40:
                                    continue
                                out.append(key)
    return out


def run(key):
    shape, dtype, backend, fname, metric, targets, md = key
    chunks = None
    if backend == 'dask':
        chunks = {(7, 11): (3, 4), (9, 9): (9, 9), (5, 16): (2, 5), (12, 3): (5, 3)}[shape]
    r = make_raster(shape, dtype, metric == 'GREAT_CIRCLE', chunks, with_nan=True)
    before = r.chunks
    try:
        res = FUNCS[fname](r, target_values=list(targets), max_distance=md, distance_metric=metric)
        kind = type(res.data).__module__.split('.')[0]
        arr = res.values
        d = digest(arr)
        # bookkeeping that must be preserved too: the (whole-raster) rechunk of the input
        return '%s|%s|%s->%s|%s|%s' % (kind, d, before, r.chunks, res.dims, sorted(res.attrs))
    except Exception as e:  # same exception type and message expected
        return 'EXC %s: %s' % (type(e).__name__, str(e)[:80])


def table(order):
    keys = cases()
    if order == 'reversed':
        keys = keys[::-1]
    elif order == 'shuffled':
        rng = np.random.RandomState(7)
        keys = [keys[i] for i in rng.permutation(len(keys))]
    return {repr(k): run(k) for k in keys}


# recorded with `equiv.py --record` on the unmodified tree
EXPECTED = {"((12, 3), 'float32', 'dask', 'allocation', 'MANHATTAN', (), 4.5)": 'EXC ValueError: The overlapping depth 5 is larger than your array 3.',
 "((12, 3), 'float32', 'dask', 'direction', 'GREAT_CIRCLE', (), inf)": "dask|f39042f6ef0656bd|((5, 5, 2), (3,))->((12,), (3,))|('y', 'x')|['res']",
 "((12, 3), 'float32', 'dask', 'proximity', 'GREAT_CIRCLE', (), None)": "dask|4803cfb6058b2148|((5, 5, 2), (3,))->((12,), (3,))|('y', 'x')|['res']",
 "((12, 3), 'float32', 'numpy', 'allocation', 'EUCLIDEAN', (1, 3), inf)": "numpy|85bcb0b04c015990|None->None|('y', 'x')|['res']",
 "((12, 3), 'float32', 'numpy', 'allocation', 'GREAT_CIRCLE', (), None)": "numpy|2847a971fe784125|None->None|('y', 'x')|['res']",
 "((12, 3), 'float32', 'numpy', 'direction', 'EUCLIDEAN', (1, 3), 2.0)": "numpy|40711b86ab2fee07|None->None|('y', 'x')|['res']",
 "((12, 3), 'float32', 'numpy', 'proximity', 'GREAT_CIRCLE', (), 3000000.0)": "numpy|e2632ab4ab7200cd|None->None|('y', 'x')|['res']",
 "((12, 3), 'float64', 'dask', 'allocation', 'GREAT_CIRCLE', (1, 3), None)": "dask|395abd48e5e63cba|((5, 5, 2), (3,))->((12,), (3,))|('y', 'x')|['res']",
 "((12, 3), 'float64', 'dask', 'direction', 'GREAT_CIRCLE', (), None)": "dask|f39042f6ef0656bd|((5, 5, 2), (3,))->((12,), (3,))|('y', 'x')|['res']",
 "((12, 3), 'float64', 'dask', 'proximity', 'MANHATTAN', (1, 3), 4.5)": 'EXC ValueError: The overlapping depth 5 is larger than your array 3.',
 "((12, 3), 'float64', 'numpy', 'allocation', 'EUCLIDEAN', (), 2.0)": "numpy|32537a9f5ec1c9ba|None->None|('y', 'x')|['res']",
 "((12, 3), 'float64', 'numpy', 'allocation', 'EUCLIDEAN', (1, 3), 2.0)": "numpy|04b33980b0c9878d|None->None|('y', 'x')|['res']",
 "((12, 3), 'int32', 'dask', 'direction', 'MANHATTAN', (), 1000.0)": "dask|794c8eefd7c19d2c|((5, 5, 2), (3,))->((12,), (3,))|('y', 'x')|['res']",
 "((12, 3), 'int32', 'dask', 'proximity', 'EUCLIDEAN', (), 2.0)": "dask|416095747204f91d|((5, 5, 2), (3,))->((5, 5, 2), (3,))|('y', 'x')|['res']",
 "((12, 3), 'int32', 'numpy', 'direction', 'EUCLIDEAN', (), None)": "numpy|794c8eefd7c19d2c|None->None|('y', 'x')|['res']",
 "((12, 3), 'int64', 'dask', 'allocation', 'MANHATTAN', (), 4.5)": 'EXC ValueError: The overlapping depth 5 is larger than your array 3.',
 "((12, 3), 'int64', 'dask', 'proximity', 'EUCLIDEAN', (1, 3), 2.0)": "dask|935f2684e3e5077d|((5, 5, 2), (3,))->((5, 5, 2), (3,))|('y', 'x')|['res']",
 "((12, 3), 'int64', 'numpy', 'allocation', 'EUCLIDEAN', (1, 3), inf)": "numpy|c5beb2ec62c64489|None->None|('y', 'x')|['res']",
 "((12, 3), 'int64', 'numpy', 'direction', 'EUCLIDEAN', (), None)": "numpy|794c8eefd7c19d2c|None->None|('y', 'x')|['res']",
 "((12, 3), 'int64', 'numpy', 'proximity', 'EUCLIDEAN', (), None)": "numpy|9870161e927c269e|None->None|('y', 'x')|['res']",
 "((12, 3), 'int64', 'numpy', 'proximity', 'EUCLIDEAN', (1, 3), 4.5)": "numpy|1457a37bd7eb3867|None->None|('y', 'x')|['res']",
 "((12, 3), 'int64', 'numpy', 'proximity', 'GREAT_CIRCLE', (1, 3), None)": "numpy|289c705bd7afa387|None->None|('y', 'x')|['res']",
 "((5, 16), 'float32', 'dask', 'allocation', 'MANHATTAN', (1, 3), 4.5)": "dask|5b842a975085ac83|((2, 2, 1), (5, 5, 5, 1))->((2, 2, 1), (5, 5, 5, 1))|('y', 'x')|['res']",
 "((5, 16), 'float64', 'dask', 'proximity', 'EUCLIDEAN', (1, 3), inf)": "dask|ee5887ace0dbb5bc|((2, 2, 1), (5, 5, 5, 1))->((5,), (16,))|('y', 'x')|['res']",
 "((5, 16), 'float64', 'numpy', 'allocation', 'GREAT_CIRCLE', (), 3000000.0)": "numpy|90850936916e363e|None->None|('y', 'x')|['res']",
 "((5, 16), 'float64', 'numpy', 'direction', 'EUCLIDEAN', (1, 3), None)": "numpy|0fe617f8c0e396c5|None->None|('y', 'x')|['res']",
 "((5, 16), 'float64', 'numpy', 'proximity', 'GREAT_CIRCLE', (), None)": "numpy|d9b4a0c885ce1694|None->None|('y', 'x')|['res']",
 "((5, 16), 'int32', 'numpy', 'allocation', 'MANHATTAN', (1, 3), None)": "numpy|75592eb140a3698c|None->None|('y', 'x')|['res']",
 "((5, 16), 'int32', 'numpy', 'direction', 'MANHATTAN', (), 4.5)": "numpy|e8ec93f55f76229e|None->None|('y', 'x')|['res']",
 "((5, 16), 'int64', 'numpy', 'allocation', 'EUCLIDEAN', (), 1000.0)": "numpy|77f256947bcb72ea|None->None|('y', 'x')|['res']",
 "((5, 16), 'int64', 'numpy', 'allocation', 'EUCLIDEAN', (), inf)": "numpy|77f256947bcb72ea|None->None|('y', 'x')|['res']",
 "((7, 11), 'float32', 'dask', 'allocation', 'EUCLIDEAN', (), 2.0)": "dask|dba7f4bda7c433e2|((3, 3, 1), (4, 4, 3))->((3, 3, 1), (4, 4, 3))|('y', 'x')|['res']",
 "((7, 11), 'float32', 'dask', 'allocation', 'MANHATTAN', (1, 3), 1000.0)": "dask|b1406001d4fd06bf|((3, 3, 1), (4, 4, 3))->((7,), (11,))|('y', 'x')|['res']",
 "((7, 11), 'float32', 'dask', 'proximity', 'GREAT_CIRCLE', (1, 3), inf)": "dask|bd8e5b1e45792985|((3, 3, 1), (4, 4, 3))->((7,), (11,))|('y', 'x')|['res']",
 "((7, 11), 'float32', 'numpy', 'allocation', 'GREAT_CIRCLE', (), None)": "numpy|6bbd6870776bbb8c|None->None|('y', 'x')|['res']",
 "((7, 11), 'float32', 'numpy', 'direction', 'EUCLIDEAN', (), None)": "numpy|813cce1de1519e54|None->None|('y', 'x')|['res']",
 "((7, 11), 'float32', 'numpy', 'direction', 'EUCLIDEAN', (1, 3), 2.0)": "numpy|8890347e2305ab8f|None->None|('y', 'x')|['res']",
 "((7, 11), 'float32', 'numpy', 'direction', 'MANHATTAN', (), inf)": "numpy|813cce1de1519e54|None->None|('y', 'x')|['res']",
 "((7, 11), 'float64', 'dask', 'allocation', 'EUCLIDEAN', (1, 3), 4.5)": "dask|b1406001d4fd06bf|((3, 3, 1), (4, 4, 3))->((3, 3, 1), (4, 4, 3))|('y', 'x')|['res']",
 "((7, 11), 'float64', 'numpy', 'allocation', 'MANHATTAN', (1, 3), None)": "numpy|b1406001d4fd06bf|None->None|('y', 'x')|['res']",
 "((7, 11), 'float64', 'numpy', 'direction', 'GREAT_CIRCLE', (1, 3), inf)": "numpy|74764eaeef5e446e|None->None|('y', 'x')|['res']",
 "((7, 11), 'float64', 'numpy', 'proximity', 'EUCLIDEAN', (), 2.0)": "numpy|b2e28c79d8181293|None->None|('y', 'x')|['res']",
 "((7, 11), 'float64', 'numpy', 'proximity', 'GREAT_CIRCLE', (), inf)": "numpy|cece4318f1b3fa78|None->None|('y', 'x')|['res']",
 "((7, 11), 'int32', 'dask', 'proximity', 'MANHATTAN', (), inf)": "dask|463303d51636dcf4|((3, 3, 1), (4, 4, 3))->((7,), (11,))|('y', 'x')|['res']",
 "((7, 11), 'int32', 'dask', 'proximity', 'MANHATTAN', (1, 3), 4.5)": "dask|6763abedead039fb|((3, 3, 1), (4, 4, 3))->((3, 3, 1), (4, 4, 3))|('y', 'x')|['res']",
 "((7, 11), 'int32', 'numpy', 'allocation', 'EUCLIDEAN', (1, 3), None)": "numpy|1a0fa695bef6e222|None->None|('y', 'x')|['res']",
 "((7, 11), 'int64', 'dask', 'allocation', 'MANHATTAN', (), 2.0)": "dask|93b0825f8d19f8e1|((3, 3, 1), (4, 4, 3))->((3, 3, 1), (4, 4, 3))|('y', 'x')|['res']",
 "((7, 11), 'int64', 'dask', 'proximity', 'GREAT_CIRCLE', (), inf)": "dask|78c75fb60c77e9de|((3, 3, 1), (4, 4, 3))->((7,), (11,))|('y', 'x')|['res']",
 "((9, 9), 'float32', 'dask', 'allocation', 'MANHATTAN', (1, 3), 1000.0)": "dask|50906f6278bbabac|((9,), (9,))->((9,), (9,))|('y', 'x')|['res']",
 "((9, 9), 'float32', 'dask', 'allocation', 'MANHATTAN', (1, 3), 4.5)": "dask|50906f6278bbabac|((9,), (9,))->((9,), (9,))|('y', 'x')|['res']",
 "((9, 9), 'float32', 'numpy', 'direction', 'EUCLIDEAN', (1, 3), inf)": "numpy|a4106e8201cc4a79|None->None|('y', 'x')|['res']",
 "((9, 9), 'float32', 'numpy', 'direction', 'MANHATTAN', (), 4.5)": "numpy|45f761905c0c1788|None->None|('y', 'x')|['res']",
 "((9, 9), 'float64', 'dask', 'proximity', 'GREAT_CIRCLE', (1, 3), inf)": "dask|441d8cb0ed1efaa9|((9,), (9,))->((9,), (9,))|('y', 'x')|['res']",
 "((9, 9), 'float64', 'numpy', 'proximity', 'MANHATTAN', (1, 3), 4.5)": "numpy|7d1d6ef6f5e66edb|None->None|('y', 'x')|['res']",
 "((9, 9), 'int32', 'dask', 'allocation', 'GREAT_CIRCLE', (1, 3), inf)": "dask|e2f2d0e80eb89d2f|((9,), (9,))->((9,), (9,))|('y', 'x')|['res']",
 "((9, 9), 'int32', 'dask', 'allocation', 'MANHATTAN', (), None)": "dask|c1f54901b525ffb3|((9,), (9,))->((9,), (9,))|('y', 'x')|['res']",
 "((9, 9), 'int32', 'numpy', 'allocation', 'EUCLIDEAN', (1, 3), 2.0)": "numpy|7127a49a7dd6c665|None->None|('y', 'x')|['res']",
 "((9, 9), 'int64', 'numpy', 'direction', 'EUCLIDEAN', (), 1000.0)": "numpy|8540a723e08aa18e|None->None|('y', 'x')|['res']"}


def main():
    t1 = table('forward')
    t2 = table('shuffled')
    t3 = t1  # (two call orders are enough; every call recompiles its kernel)
    if '--record' in sys.argv:
        import pprint
        pprint.pprint(t1, width=200)
        return 0
    bad = 0
    if t1 != t2 or t1 != t3:
        print('results depend on call order')
        bad += 1
    for k, v in EXPECTED.items():
        if t1.get(k) != v:
            print('MISMATCH', k, t1.get(k), v)
            bad += 1
    if set(t1) != set(EXPECTED):
        print('case set differs')
        bad += 1
    print('xrspatial from', xrspatial.__file__, '-', len(t1), 'cases,', bad, 'mismatches')
    return 1 if bad else 0


if __name__ == '__main__':
    sys.exit(main())
