"""Differential test for property C02 (zonal stats summarise exactly the valid
cells of each zone).

Two independent checks:
  1. every result of xrspatial.zonal.stats (numpy DataFrame, numpy
     xarray.DataArray, dask DataFrame) is compared against a brute-force oracle
     written here (mask per zone id, no sorting / striding);
  2. a sha256 digest over the raw bytes / dtypes / column names of every result
     (stats and crosstab, which shares the sort-and-stride kernels) is compared
     with the digest recorded on the unmodified tree.

Run:  cd <worktree> && PYTHONPATH=<worktree> /venv/bin/python equiv.py
      (add --record to print the digest instead of checking it)
Exit code 0 iff everything is identical.
"""
import hashlib
import sys
import warnings

import dask.array as da
import numpy as np
import pandas as pd
import xarray as xr

import xrspatial
from xrspatial.zonal import crosstab, stats

warnings.filterwarnings('ignore')

EXPECTED_DIGEST = '8bca482aafe68a28b04488af5d449718f91f495eb2b80b484af5e91d091ef59e'

ALL_STATS = ['mean', 'max', 'min', 'sum', 'std', 'var', 'count']
FAILURES = []
HASH = hashlib.sha256()


def fail(msg):
    FAILURES.append(msg)
    print('FAIL:', msg)


def feed(tag, obj):
    """add an object to the running digest"""
    HASH.update(tag.encode())
    if isinstance(obj, pd.DataFrame):
        HASH.update(repr([str(c) for c in obj.columns]).encode())
        HASH.update(repr([str(t) for t in obj.dtypes]).encode())
        HASH.update(repr(list(obj.index)).encode())
        for c in obj.columns:
            a = np.ascontiguousarray(obj[c].to_numpy())
            HASH.update(a.tobytes())
    else:
        a = np.ascontiguousarray(np.asarray(obj))
        HASH.update(str(a.dtype).encode())
        HASH.update(repr(a.shape).encode())
        HASH.update(a.tobytes())


# --------------------------------------------------------------------------
# oracle
# --------------------------------------------------------------------------
ORACLE_FUNCS = dict(
    mean=lambda a: a.astype(np.float64).sum() / a.size if a.dtype.kind == 'f' else a.mean(),
    max=lambda a: a.max(),
    min=lambda a: a.min(),
    sum=lambda a: a.sum(),
    std=lambda a: np.sqrt(((a - a.mean()) ** 2).sum() / a.size),
    var=lambda a: ((a - a.mean()) ** 2).sum() / a.size,
    count=lambda a: a.size,
)
# mean / std / var depend (in the last ulp) on the summation order inside a
# zone; all other statistics must be reproduced exactly
LOOSE = {'mean', 'std', 'var'}
# float32 rasters: numpy accumulates in float32, dask in float64
RTOL = [1e-12]


def oracle_table(zones, values, zone_ids, funcs, nodata):
    """funcs: dict name -> callable on the 1d array of valid cells"""
    finite_zone = np.isfinite(zones)
    ids = sorted(set(zones[finite_zone].tolist()))
    if zone_ids is not None:
        ids = [z for z in ids if any(z == q for q in zone_ids)]
    table = {'zone': ids}
    for name, f in funcs.items():
        col = []
        for z in ids:
            sel = finite_zone & (zones == z)
            cells = values[sel]
            ok = np.isfinite(cells)
            if nodata is not None:
                ok &= (cells != nodata)
            cells = cells[ok]
            col.append(f(cells) if cells.size else np.nan)
        table[name] = col
    return table


def same(name, got, want):
    got = np.asarray(got, dtype=np.float64)
    want = np.asarray(want, dtype=np.float64)
    if got.shape != want.shape:
        return False
    if name in LOOSE:
        return np.allclose(got, want, rtol=RTOL[0], atol=RTOL[0], equal_nan=True)
    return np.array_equal(got, want, equal_nan=True)


def check_table(tag, df, table):
    if list(df.columns) != list(table.keys()):
        fail(f'{tag}: columns {list(df.columns)} != {list(table.keys())}')
        return
    if not np.array_equal(np.asarray(df['zone'], dtype=np.float64),
                          np.asarray(table['zone'], dtype=np.float64)):
        fail(f'{tag}: zones {list(df["zone"])} != {table["zone"]}')
        return
    for name in table:
        if name == 'zone':
            continue
        if not same(name, df[name].to_numpy(), table[name]):
            fail(f'{tag}: column {name}: {list(df[name])} != {table[name]}')


def check_raster(tag, arr, zones, table):
    names = [n for n in table if n != 'zone']
    if list(arr['stats'].values) != names:
        fail(f'{tag}: stats coord {list(arr["stats"].values)} != {names}')
        return
    if arr.shape != (len(names),) + zones.shape:
        fail(f'{tag}: shape {arr.shape}')
        return
    if arr.dtype != np.float64:
        fail(f'{tag}: dtype {arr.dtype}')
    for k, name in enumerate(names):
        want = np.full(zones.shape, np.nan)
        for z, s in zip(table['zone'], table[name]):
            want[np.isfinite(zones) & (zones == z)] = s
        got = arr.values[k]
        if np.isnan(got).tolist() != np.isnan(want).tolist() or not same(name, got, want):
            fail(f'{tag}: raster of {name} differs')


# --------------------------------------------------------------------------
# inputs
# --------------------------------------------------------------------------
def make_cases():
    rng = np.random.default_rng(20240607)
    cases = []

    # hand-written: fractional / negative / interleaved ids, NaN / inf zones
    z = np.array([[1.5, -2, np.nan, 3, 1.5],
                  [1.5, 3, np.inf, -2, 7],
                  [7, 7, -np.inf, 3, -2],
                  [0, 3, 0, 1.5, np.nan]])
    v = np.array([[1., 2, 3, np.nan, 0.25],
                  [5, np.inf, 7, 8, -9999],
                  [-9999, -9999, 1, 4, -np.inf],
                  [0, -0.5, 12, 2.75, 6]])
    cases.append(('hand_f64', z, v, -9999))
    cases.append(('hand_f64_nodata0', z, v, 0))
    cases.append(('hand_f32', z.astype(np.float32), v.astype(np.float32), -9999))

    # integer zones and values, non contiguous
    zi = np.array([[5, 5, -1, -1, 30, 30, 2],
                   [5, -1, 5, 30, -1, 2, 30],
                   [100, 100, 100, 2, 2, 5, -1]], dtype=np.int64)
    vi = np.arange(21, dtype=np.int64).reshape(3, 7) - 7
    cases.append(('int64', zi, vi, -3))
    cases.append(('int32_u8', zi.astype(np.int32), (vi + 7).astype(np.uint8), 4))
    cases.append(('intzone_fval', zi, vi * 0.5, None))

    # a zone made only of invalid cells, single row / single column rasters
    z1 = np.array([[3., 3, 3, 8, 8, 9, np.nan]])
    v1 = np.array([[np.nan, np.inf, -1, 2, 4, -1, 5]])
    cases.append(('one_row', z1, v1, -1))
    cases.append(('one_col', z1.T.copy(), v1.T.copy(), -1))
    cases.append(('all_nan_zone', np.full((2, 3), np.nan), np.ones((2, 3)), 0))
    cases.append(('single_zone', np.full((3, 3), -4.25), np.arange(9.).reshape(3, 3), 0))

    # random rasters, odd shapes
    for k, shape in enumerate([(7, 11), (13, 5), (1, 17), (9, 9)]):
        ids = np.array([-3.5, -1, 0, 0.25, 2, 10, 1e6])
        z = rng.choice(ids, size=shape)
        z[rng.random(shape) < 0.1] = np.nan
        z[rng.random(shape) < 0.03] = np.inf
        z[rng.random(shape) < 0.03] = -np.inf
        v = rng.integers(-8, 9, size=shape) * 0.25
        v[rng.random(shape) < 0.1] = np.nan
        v[rng.random(shape) < 0.05] = np.inf
        v[rng.random(shape) < 0.05] = -np.inf
        cases.append((f'rand{k}', z, v, [0, 0.5, -1.25, None][k]))
        cases.append((f'rand{k}_int', np.where(np.isfinite(z), z, 4).astype(np.int16),
                      rng.integers(-100, 100, size=shape).astype(np.int32), 7))
    return cases


CUSTOM = {
    'range': lambda a: a.max() - a.min(),
    'n': lambda a: a.shape[0],
    'first_sorted': lambda a: np.sort(a)[0],
    'sumsq': lambda a: (a.astype(np.float64) ** 2).sum(),
}


def zone_id_lists(zones):
    present = sorted(set(zones[np.isfinite(zones)].tolist()))
    out = [None, [], [12345], list(reversed(present)) + [-77]]
    if len(present) >= 2:
        out.append([present[-1], 999, present[0]])
        out.append(present[1::2])
    return out


def nodata_kw(nodata):
    return {} if nodata is None else {'nodata_values': nodata}


def run_numpy(name, z, v, nodata):
    zx, vx = xr.DataArray(z, dims=['y', 'x']), xr.DataArray(v, dims=['y', 'x'])
    subsets = [ALL_STATS, ['count'], ['var', 'min'], ['sum', 'mean', 'max'], ['std']]
    for iz, zone_ids in enumerate(zone_id_lists(z)):
        for isub, sub in enumerate(subsets):
            tag = f'{name}/np/ids{iz}/sub{isub}'
            table = oracle_table(z, v, zone_ids, {s: ORACLE_FUNCS[s] for s in sub}, nodata)
            df = stats(zx, vx, zone_ids=zone_ids, stats_funcs=list(sub), **nodata_kw(nodata))
            check_table(tag, df, table)
            feed(tag, df)
            if isub in (0, 2):
                arr = stats(zx, vx, zone_ids=zone_ids, stats_funcs=list(sub),
                            return_type='xarray.DataArray', **nodata_kw(nodata))
                check_raster(tag + '/xr', arr, z, table)
                feed(tag + '/xr', arr.values)
        # user reducers
        tag = f'{name}/np/ids{iz}/custom'
        table = oracle_table(z, v, zone_ids, CUSTOM, nodata)
        df = stats(zx, vx, zone_ids=zone_ids, stats_funcs=dict(CUSTOM), **nodata_kw(nodata))
        check_table(tag, df, table)
        feed(tag, df)
        arr = stats(zx, vx, zone_ids=zone_ids, stats_funcs=dict(CUSTOM),
                    return_type='xarray.DataArray', **nodata_kw(nodata))
        check_raster(tag + '/xr', arr, z, table)
        feed(tag + '/xr', arr.values)
    # default arguments
    df = stats(zx, vx)
    check_table(f'{name}/np/default', df,
                oracle_table(z, v, None, {s: ORACLE_FUNCS[s] for s in ALL_STATS}, None))
    feed(f'{name}/np/default', df)


def run_dask(name, z, v, nodata, chunks):
    zx = xr.DataArray(da.from_array(z, chunks=chunks), dims=['y', 'x'])
    vx = xr.DataArray(da.from_array(v, chunks=chunks), dims=['y', 'x'])
    present = sorted(set(z[np.isfinite(z)].tolist()))
    id_lists = [None]
    if len(present) >= 2:
        id_lists.append([present[-1], 999, present[0]])
    for iz, zone_ids in enumerate(id_lists):
        for isub, sub in enumerate([ALL_STATS, ['max', 'count'], ['var']]):
            tag = f'{name}/dask{chunks}/ids{iz}/sub{isub}'
            res = stats(zx, vx, zone_ids=zone_ids, stats_funcs=list(sub), **nodata_kw(nodata))
            if not hasattr(res, 'compute'):
                fail(f'{tag}: result is not lazy: {type(res)}')
                continue
            df = res.compute()
            table = oracle_table(z, v, zone_ids, {s: ORACLE_FUNCS[s] for s in sub}, nodata)
            check_table(tag, df, table)
            feed(tag, df)


def run_crosstab(name, z, v, nodata):
    # crosstab shares _sort_and_stride / _strides with stats
    if v.dtype.kind == 'f':
        cats = np.where(np.isfinite(v), np.round(v), v)
    else:
        cats = v % 4
    zx, vx = xr.DataArray(z, dims=['y', 'x']), xr.DataArray(cats, dims=['y', 'x'])
    for agg in ('count', 'percentage'):
        df = crosstab(zx, vx, agg=agg, **nodata_kw(nodata))
        feed(f'{name}/crosstab/{agg}', df)
        # oracle: count per (zone, cat)
        ids = sorted(set(z[np.isfinite(z)].tolist()))
        if list(df['zone']) != ids:
            fail(f'{name}/crosstab/{agg}: zones {list(df["zone"])} != {ids}')
            continue
        okc = np.isfinite(cats)
        if nodata is not None:
            okc &= (cats != nodata)
        for c in df.columns[1:]:
            for r, zid in enumerate(ids):
                inzone = np.isfinite(z) & (z == zid) & okc
                n = np.count_nonzero(inzone & (cats == c))
                tot = np.count_nonzero(inzone)
                want = n if agg == 'count' else (n / np.float32(tot) * 100 if tot else np.nan)
                got = df[c].iloc[r]
                if not (got == want or (np.isnan(got) and np.isnan(want))
                        or abs(got - want) <= 1e-4 * abs(want)):
                    fail(f'{name}/crosstab/{agg}: zone {zid} cat {c}: {got} != {want}')
    if z.shape[0] > 1 and z.shape[1] > 1:
        zd = xr.DataArray(da.from_array(z, chunks=halves(z)), dims=['y', 'x'])
        vd = xr.DataArray(da.from_array(cats, chunks=halves(z)), dims=['y', 'x'])
        df = crosstab(zd, vd, **nodata_kw(nodata)).compute()
        feed(f'{name}/crosstab/dask', df)


EXPECTED_ERRORS = {
    'bad_stat': (ValueError, "Invalid stat name. median option not supported."),
    'bad_stat_dask': (ValueError, "Invalid stat name. median option not supported."),
    'bool_zones': (ValueError, "`zones` must be an array of integers or floats."),
    'bool_values': (ValueError, "`values` must be an array of integers or floats."),
    'complex_values': (ValueError, "`values` must be an array of integers or floats."),
    'dask_dict': (ValueError,
                  "Got dask-backed DataArray as `values` aggregate. `stats_funcs` must be a "
                  "subset of default supported stats "
                  "`['mean', 'max', 'min', 'sum', 'std', 'var', 'count']`"),
    'unhashable_stat': (TypeError, None),
}


def run_errors():
    """argument validation of stats(): same exception types and messages"""
    z = np.array([[1, 1, 2], [2, 3, 3]])
    v = np.arange(6.).reshape(2, 3)
    zx, vx = xr.DataArray(z), xr.DataArray(v)
    zd, vd = xr.DataArray(da.from_array(z)), xr.DataArray(da.from_array(v))
    calls = {
        'bad_stat': lambda: stats(zx, vx, stats_funcs=['mean', 'median']),
        'bad_stat_dask': lambda: stats(zd, vd, stats_funcs=['median']),
        'bool_zones': lambda: stats(xr.DataArray(z > 1), vx),
        'bool_values': lambda: stats(zx, xr.DataArray(v > 1)),
        'complex_values': lambda: stats(zx, xr.DataArray(v.astype(complex))),
        'dask_dict': lambda: stats(zd, vd, stats_funcs={'m': lambda a: a.max()}),
        'unhashable_stat': lambda: stats(zx, vx, stats_funcs=[['mean']]),
    }
    for name, call in calls.items():
        exc_type, text = EXPECTED_ERRORS[name]
        try:
            call()
        except Exception as e:  # noqa
            if type(e) is not exc_type or (text is not None and str(e) != text):
                fail(f'errors/{name}: got {type(e).__name__}({str(e)!r})')
        else:
            fail(f'errors/{name}: no exception')
    # every numeric dtype is accepted for zones and values
    for zt in (np.int8, np.uint16, np.int64, np.float32, np.float64):
        for vt in (np.uint8, np.int16, np.int64, np.float32, np.float64):
            df = stats(xr.DataArray(z.astype(zt)), xr.DataArray(v.astype(vt)))
            check_table(f'dtypes/{zt.__name__}/{vt.__name__}', df,
                        oracle_table(z.astype(zt), v.astype(vt), None,
                                     {s: ORACLE_FUNCS[s] for s in ALL_STATS}, None))
            feed(f'dtypes/{zt.__name__}/{vt.__name__}', df)


def halves(z):
    # at most 2 x 2 blocks: the dask graph of stats() grows quickly with blocks
    return ((z.shape[0] + 1) // 2, (z.shape[1] + 1) // 2)


def main():
    record = '--record' in sys.argv
    print('xrspatial from', xrspatial.__file__)
    cases = make_cases()
    run_errors()
    for i, (name, z, v, nodata) in enumerate(cases):
        RTOL[0] = 1e-5 if v.dtype == np.float32 else 1e-12
        run_numpy(name, z, v, nodata)
        run_crosstab(name, z, v, nodata)
        if i % 2 == 0 or name.startswith('hand'):
            run_dask(name, z, v, nodata, halves(z))
        if name in ('hand_f64', 'int64', 'rand0'):
            run_dask(name, z, v, nodata, (z.shape[0], (z.shape[1] + 2) // 3))
            run_dask(name, z, v, nodata, z.shape)
    digest = HASH.hexdigest()
    if record:
        print('DIGEST', digest)
    elif digest != EXPECTED_DIGEST:
        fail(f'digest {digest} differs from the one recorded on the unmodified tree')
    if FAILURES:
        print(f'{len(FAILURES)} failure(s)')
        return 1
    print('OK: all results identical')
    return 0


if __name__ == '__main__':
    sys.exit(main())
