"""Differential test for xrspatial.experimental.polygonize (property C15).

Two independent checks are made on a deterministic corpus of rasters:

1. ORACLE: every result is checked against an independent pure numpy/python
   oracle (flood-fill connected components + even-odd rasterisation of the
   returned rings): losslessness, one polygon per component, areas, ring
   closure / orientation / axis-parallel edges / corner vertices, transform.
2. RECORDED: a sha256 digest of every returned value (column values with
   their python types, every ring's dtype/shape/bytes, in order) and of every
   error type/message is compared with the digest recorded from the
   unmodified tree, so results must be bit-identical including ring order
   and ring start vertex.

Exit status 0 if everything is identical, 1 otherwise.
Run with RECORD=1 in the environment to print the digest instead of checking.
"""
import hashlib
import itertools
import os
import sys

import numpy as np
import xarray as xr

import xrspatial
from xrspatial.experimental import polygonize

EXPECTED_DIGEST = "668f16a365b0ff8aa45376d0f957308935da90c477bd7f37e47f96e99d579912"

H = hashlib.sha256()
NCASES = 0
FAILURES = []


def fail(msg):
    FAILURES.append(msg)
    if len(FAILURES) <= 10:
        print("FAIL:", msg)


# --------------------------------------------------------------------------
# Oracle
# --------------------------------------------------------------------------
def components(values, mask, conn8):
    """Flood fill labelling, -1 for masked cells."""
    ny, nx = values.shape
    lab = -np.ones((ny, nx), dtype=np.int64)
    if conn8:
        nbrs = [(-1, -1), (-1, 0), (-1, 1), (0, -1), (0, 1), (1, -1), (1, 0),
                (1, 1)]
    else:
        nbrs = [(-1, 0), (0, -1), (0, 1), (1, 0)]
    n = 0
    for j0 in range(ny):
        for i0 in range(nx):
            if lab[j0, i0] >= 0 or (mask is not None and not mask[j0, i0]):
                continue
            lab[j0, i0] = n
            stack = [(j0, i0)]
            v = values[j0, i0]
            while stack:
                j, i = stack.pop()
                for dj, di in nbrs:
                    jj, ii = j + dj, i + di
                    if (0 <= jj < ny and 0 <= ii < nx and lab[jj, ii] < 0
                            and (mask is None or mask[jj, ii])
                            and values[jj, ii] == v):
                        lab[jj, ii] = n
                        stack.append((jj, ii))
            n += 1
    return lab, n


def ring_fill(ring, ny, nx):
    """Even-odd rasterisation of an axis-parallel ring on cell centres."""
    par = np.zeros((ny, nx), dtype=bool)
    for k in range(len(ring) - 1):
        x0, y0 = ring[k]
        x1, y1 = ring[k + 1]
        if x0 == x1:
            lo, hi = (int(y0), int(y1)) if y0 < y1 else (int(y1), int(y0))
            par[lo:hi, int(x0):] ^= True
    return par


def signed_area(ring):
    x = ring[:, 0]
    y = ring[:, 1]
    return 0.5 * float(np.sum(x[:-1] * y[1:] - x[1:] * y[:-1]))


def oracle_check(tag, values, mask, conn, column, polys):
    ny, nx = values.shape
    lab, n = components(values, mask, conn == 8)
    if len(polys) != n or len(column) != n:
        fail(f"{tag}: {len(polys)} polygons, {len(column)} values, "
             f"expected {n} components")
        return
    owner = -np.ones((ny, nx), dtype=np.int64)
    count = np.zeros((ny, nx), dtype=np.int64)
    for p, (val, rings) in enumerate(zip(column, polys)):
        inside = None
        area = 0.0
        for r, ring in enumerate(rings):
            if ring.dtype != np.float64 or ring.ndim != 2 or \
                    ring.shape[1] != 2 or len(ring) < 5:
                fail(f"{tag}: bad ring array {ring.dtype} {ring.shape}")
                return
            if not np.array_equal(ring[0], ring[-1]):
                fail(f"{tag}: ring not closed")
            if not np.array_equal(ring, np.round(ring)) or ring.min() < 0 \
                    or ring[:, 0].max() > nx or ring[:, 1].max() > ny:
                fail(f"{tag}: vertices not on cell corners")
            d = np.diff(ring, axis=0)
            if not np.all((d[:, 0] == 0) ^ (d[:, 1] == 0)):
                fail(f"{tag}: edges not axis-parallel / degenerate")
            a = signed_area(ring)
            if r == 0 and not a > 0:
                fail(f"{tag}: exterior not anticlockwise")
            if r > 0 and not a < 0:
                fail(f"{tag}: hole not clockwise")
            area += a
            f = ring_fill(ring, ny, nx)
            inside = f if r == 0 else inside & ~f
        if area != inside.sum():
            fail(f"{tag}: polygon {p} area {area} != cells {inside.sum()}")
        count += inside
        owner[inside] = p
        cellvals = values[inside]
        same = (cellvals == val) | ((cellvals != cellvals) & (val != val))
        if not np.all(same):
            fail(f"{tag}: polygon {p} value {val} does not reproduce raster")
        labs = np.unique(lab[inside])
        if len(labs) != 1 or labs[0] < 0 or \
                (lab == labs[0]).sum() != inside.sum():
            fail(f"{tag}: polygon {p} is not exactly one component")
    unmasked = lab >= 0
    if not np.all(count[unmasked] == 1) or not np.all(count[~unmasked] == 0):
        fail(f"{tag}: cells not covered exactly once / masked cell covered")


# --------------------------------------------------------------------------
# Driver
# --------------------------------------------------------------------------
def digest_result(column, polys):
    H.update(repr(len(column)).encode())
    for c in column:
        H.update(type(c).__name__.encode())
        H.update(np.asarray(c).tobytes())
    for rings in polys:
        H.update(b"P%d" % len(rings))
        for ring in rings:
            H.update(str(ring.dtype).encode() + repr(ring.shape).encode())
            H.update(np.ascontiguousarray(ring).tobytes())


def run(tag, values, mask=None, conn=4, transform=None, oracle=True):
    global NCASES
    NCASES += 1
    raster = xr.DataArray(values.copy())
    m = None if mask is None else xr.DataArray(mask.copy())
    v_before = values.copy()
    column, polys = polygonize(raster, mask=m, connectivity=conn)
    if not np.array_equal(raster.data, v_before, equal_nan=True) or \
            raster.data.dtype != v_before.dtype:
        fail(f"{tag}: input raster modified")
    digest_result(column, polys)
    if oracle:
        oracle_check(tag, values, mask, conn, column, polys)
    if transform is not None:
        for tr in (np.asarray(transform, dtype=np.float64), list(transform)):
            column_t, polys_t = polygonize(
                raster, m, conn, tr, "DN", "numpy")
            digest_result(column_t, polys_t)
            t = np.asarray(transform, dtype=np.float64)
            if list(column_t) != list(column) and not (
                    np.array_equal(column_t, column, equal_nan=True)):
                fail(f"{tag}: transform changed the values")
            for rings, rings_t in zip(polys, polys_t):
                if len(rings) != len(rings_t):
                    fail(f"{tag}: transform changed ring count")
                    continue
                for ring, ring_t in zip(rings, rings_t):
                    ex = t[0] * ring[:, 0] + t[1] * ring[:, 1] + t[2]
                    ey = t[3] * ring[:, 0] + t[4] * ring[:, 1] + t[5]
                    if ring_t.shape != ring.shape or \
                            not np.allclose(ring_t[:, 0], ex, rtol=1e-14,
                                            atol=1e-12) or \
                            not np.allclose(ring_t[:, 1], ey, rtol=1e-14,
                                            atol=1e-12):
                        fail(f"{tag}: transform not applied to every vertex")


def run_error(tag, *args, **kwargs):
    global NCASES
    NCASES += 1
    try:
        polygonize(*args, **kwargs)
    except Exception as e:  # noqa
        H.update(f"{tag}:{type(e).__name__}:{e}".encode())
    else:
        H.update(f"{tag}:no error".encode())
        fail(f"{tag}: expected an error")


def spiral(n):
    a = np.zeros((n, n), dtype=np.int64)
    j = i = 0
    dj, di = 0, 1
    a[0, 0] = 1
    for _ in range(4 * n * n):
        jj, ii = j + dj, i + di
        ok = (0 <= jj < n and 0 <= ii < n and a[jj, ii] == 0)
        if ok:
            j2, i2 = jj + dj, ii + di
            if 0 <= j2 < n and 0 <= i2 < n and a[j2, i2] == 1:
                ok = False
        if ok:
            j, i = jj, ii
            a[j, i] = 1
        else:
            dj, di = di, -dj
            jj, ii = j + dj, i + di
            if not (0 <= jj < n and 0 <= ii < n) or a[jj, ii] == 1:
                break
            j2, i2 = jj + dj, ii + di
            if 0 <= j2 < n and 0 <= i2 < n and a[j2, i2] == 1:
                break
    return a


def nested(n):
    a = np.zeros((n, n), dtype=np.int64)
    for k in range(n // 2 + 1):
        a[k:n - k, k:n - k] = k % 3
    return a


def main():
    print("xrspatial from", xrspatial.__file__)
    transform = (2.5, 0.25, -7.0, -0.5, 3.0, 11.0)

    # 1. Exhaustive over small alphabets.
    for shape in [(1, 1), (1, 2), (2, 1), (1, 5), (5, 1), (2, 2), (2, 3),
                  (3, 2), (3, 3), (2, 5), (3, 4)]:
        ncell = shape[0] * shape[1]
        for cells in itertools.product((0, 1), repeat=ncell):
            v = np.array(cells, dtype=np.int64).reshape(shape)
            for conn in (4, 8):
                run(f"ex2{shape}{cells}c{conn}", v, None, conn)
    # alphabet {0, 1, masked}
    for shape in [(1, 1), (1, 4), (4, 1), (2, 2), (2, 3), (3, 3)]:
        ncell = shape[0] * shape[1]
        for cells in itertools.product((0, 1, 2), repeat=ncell):
            c = np.array(cells).reshape(shape)
            v = np.where(c == 2, 1, c).astype(np.float64)
            m = c != 2
            for conn in (4, 8):
                run(f"ex3{shape}{cells}c{conn}", v, m, conn)

    # 2. Random larger rasters, several dtypes / masks / transforms.
    rng = np.random.RandomState(20240515)
    shapes = [(7, 9), (12, 5), (1, 17), (17, 1), (1, 1), (2, 30), (30, 2),
              (20, 20), (33, 41)]
    dtypes = [np.int32, np.int64, np.uint8, np.int16, np.float32, np.float64]
    k = 0
    for shape in shapes:
        for dtype in dtypes:
            for nalpha in (2, 3, 5):
                k += 1
                v = rng.randint(0, nalpha, size=shape).astype(dtype)
                if np.issubdtype(dtype, np.floating):
                    v = v * dtype(1.5) - dtype(1.5)
                mk = k % 4
                if mk == 0:
                    m = None
                elif mk == 1:
                    m = rng.rand(*shape) < 0.8
                elif mk == 2:
                    m = (rng.rand(*shape) < 0.7).astype(np.int32) * 3
                else:
                    m = (rng.rand(*shape) < 0.6).astype(np.float64) * 0.5
                for conn in (4, 8):
                    run(f"rnd{shape}{np.dtype(dtype).name}a{nalpha}m{mk}"
                        f"c{conn}", v, m, conn,
                        transform if k % 3 == 0 else None)

    # 3. Structured cases: spirals, nested holes, diagonal pinches, many
    #    regions (forces growth of the region lookup table and long merge
    #    chains), NaNs, nearly-equal floats.
    for n in (5, 8, 13, 21):
        for conn in (4, 8):
            run(f"spiral{n}c{conn}", spiral(n), None, conn, transform)
            run(f"spiralT{n}c{conn}", spiral(n).T.copy(), None, conn)
            run(f"spiralF{n}c{conn}", spiral(n)[::-1, ::-1].copy(), None,
                conn)
            run(f"nested{n}c{conn}", nested(n), None, conn, transform)
            chk = (np.add.outer(np.arange(n), np.arange(n + 1)) % 2)
            run(f"check{n}c{conn}", chk.astype(np.int32), None, conn)
            cm = np.add.outer(np.arange(n), 2 * np.arange(n + 1)) % 3 != 0
            run(f"checkf{n}c{conn}", chk.astype(np.float32), cm, conn)
    for seed in range(6):
        r = np.random.RandomState(seed)
        v = (r.rand(45, 52) < 0.55).astype(np.int64)
        m = r.rand(45, 52) < 0.9
        for conn in (4, 8):
            run(f"big{seed}c{conn}", v, None if seed % 2 else m, conn)
        # comb: many vertical teeth joined late -> many merges
        comb = np.zeros((9, 150), dtype=np.int32)
        comb[: 8 - seed, ::2] = 1
        comb[8 - seed, :] = 1
        run(f"comb{seed}", comb, None, 4)
        run(f"combflip{seed}", comb[::-1].copy(), None, 8, transform)
    vn = np.array([[1.0, np.nan, 1.0, 1.0],
                   [np.nan, np.nan, 2.0, 1.0],
                   [1.0, 2.0, 2.0, np.nan]])
    for conn in (4, 8):
        run(f"nan c{conn}", vn, None, conn)
        run(f"nan32 c{conn}", vn.astype(np.float32), vn != 2.0, conn)
        run(f"nanmask c{conn}", vn, ~np.isnan(vn), conn)
    # values closer than the float tolerance (digest only, the oracle uses ==)
    vc = np.array([[1.0, 1.0 + 1e-7, 1.0 + 2e-5, 3.0],
                   [1e-9, 0.0, -1e-9, 3.0 + 1e-5],
                   [1e5, 1e5 + 0.5, 1e5 + 1.5, 2e-8]])
    for conn in (4, 8):
        run(f"close c{conn}", vc, None, conn, transform, oracle=False)
        run(f"close32 c{conn}", vc.astype(np.float32), None, conn,
            oracle=False)
        run(f"closeT c{conn}", vc.T.copy(), vc.T > 1e-8, conn, oracle=False)
    # the float comparison is asymmetric (tolerance is relative to the current
    # pixel, the later one in scan order): 1.0 <= 1e-8 + 1e-5*100000 but
    # 1.0 > 1e-8 + 1e-5*99999.
    va = np.array([[99999.0, 100000.0, 99999.0, 7.0],
                   [100000.0, 7.0, 100000.0, 99999.0],
                   [99999.0, 100000.0, 7.0, 100000.0]])
    for conn in (4, 8):
        for k, w in enumerate((va, va[::-1].copy(), va[:, ::-1].copy(),
                               va.T.copy())):
            run(f"asym{k} c{conn}", w, None, conn, oracle=False)
            run(f"asymm{k} c{conn}", w, w != 7.0, conn, transform,
                oracle=False)
    # mixed int raster / float tolerance does not apply to ints
    vi = np.array([[100000, 100001, 100001], [100000, 100000, 100002]])
    run("ints", vi, None, 4)
    run("ints8", vi.astype(np.int32), None, 8)

    # 4. Error paths.
    r2 = xr.DataArray(np.zeros((3, 4), dtype=np.int64))
    run_error("ndim1", xr.DataArray(np.zeros(4)))
    run_error("ndim3", xr.DataArray(np.zeros((2, 2, 2))))
    run_error("empty", xr.DataArray(np.zeros((0, 4))))
    run_error("empty2", xr.DataArray(np.zeros((4, 0))))
    run_error("maskshape", r2, xr.DataArray(np.ones((4, 3), dtype=bool)))
    run_error("conn", r2, connectivity=6)
    run_error("conn+mask", r2, xr.DataArray(np.ones((4, 3), dtype=bool)),
              connectivity=5)
    run_error("transform", r2, transform=np.arange(5.0))
    run_error("transform+conn", r2, transform=np.arange(5.0), connectivity=3)
    run_error("return_type", r2, return_type="nope")
    run_error("conn+return_type", r2, connectivity=1, return_type="nope")
    try:
        import dask.array as da
        rd = xr.DataArray(da.zeros((3, 4), chunks=2))
        run_error("dask", rd)
        run_error("dask+mask", rd, xr.DataArray(np.ones((3, 4), dtype=bool)))
        run_error("np+daskmask", r2,
                  xr.DataArray(da.ones((3, 4), chunks=2, dtype=bool)))
    except ImportError:
        pass

    digest = H.hexdigest()
    print(f"{NCASES} cases, digest {digest}")
    if os.environ.get("RECORD"):
        return 1 if FAILURES else 0
    if digest != EXPECTED_DIGEST:
        fail("digest differs from the one recorded on the unmodified tree: "
             f"{digest} != {EXPECTED_DIGEST}")
    if FAILURES:
        print(f"{len(FAILURES)} failures")
        return 1
    print("OK: identical")
    return 0


if __name__ == "__main__":
    sys.exit(main())
