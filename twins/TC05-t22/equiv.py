"""Differential test for property C05 (viewshed).

Runs xrspatial.viewshed on a deterministic family of inputs (several dtypes,
plateaus / ties, NaN cells, odd shapes, all observer positions incl. corners
and edges, negative / positive observer heights, target heights, square and
non-square cells, ascending and descending coordinates) and compares

  * the bytes of the result (values + dtype + shape),
  * the dtype / bytes of the input raster after the call (the function
    converts it to float64 in place),
  * the text printed by the kernel to stdout,

against digests recorded from the UNMODIFIED tree, plus two small literal
expected arrays.  Exit status 0 if everything is identical, 1 otherwise.

Usage:  python equiv.py            (check)
        python equiv.py --record   (print the digest table of the current tree)
"""
import contextlib
import hashlib
import io
import sys
import warnings

import numpy as np
import xarray as xr

import xrspatial
from xrspatial import viewshed

warnings.filterwarnings("ignore")


def make_raster(data, xs, ys):
    return xr.DataArray(data, coords={"y": ys, "x": xs}, dims=["y", "x"],
                        attrs={"res": 1, "tag": "t"})


def terrains():
    rng = np.random.RandomState(20240517)
    out = []
    for (h, w) in [(2, 2), (2, 5), (3, 3), (5, 3), (4, 7), (7, 7), (9, 6),
                   (11, 13)]:
        out.append(("rand_f64_%dx%d" % (h, w), rng.rand(h, w) * 50.0))
        out.append(("ties_i64_%dx%d" % (h, w),
                    rng.randint(0, 3, size=(h, w)).astype(np.int64)))
    out.append(("plateau_f64", np.full((6, 5), 7.0)))
    out.append(("plateau_zero_i32", np.zeros((5, 8), dtype=np.int32)))
    out.append(("rand_f32", (rng.rand(6, 9) * 10).astype(np.float32)))
    out.append(("rand_u8", rng.randint(0, 255, size=(8, 5)).astype(np.uint8)))
    out.append(("neg_i16", rng.randint(-40, 40, size=(5, 6)).astype(np.int16)))
    out.append(("ridge", np.maximum(0, 10 - np.abs(np.arange(9) - 4))[None, :]
                * np.ones((7, 1))))
    out.append(("cone", -np.hypot(*np.meshgrid(np.arange(9) - 4.0,
                                                np.arange(8) - 3.0))))
    nan1 = rng.rand(7, 8) * 20
    nan1[rng.rand(7, 8) < 0.2] = np.nan
    out.append(("nan_sparse", nan1))
    nan2 = rng.randint(0, 4, size=(6, 6)).astype(np.float64)
    nan2[0, :] = np.nan
    nan2[:, -1] = np.nan
    nan2[3, 3] = np.nan
    out.append(("nan_border_ties", nan2))
    nan3 = rng.rand(5, 5).astype(np.float32)
    nan3[-1, :] = np.nan
    nan3[2, 1] = np.nan
    out.append(("nan_lastrow_f32", nan3))
    return out


def coord_sets(h, w):
    return [
        ("unit", np.arange(w, dtype=np.float64), np.arange(h, dtype=np.float64)),
        ("nonsq_desc", 100.0 + 2.5 * np.arange(w),
         (50.0 + 0.75 * np.arange(h))[::-1].copy()),
    ]


def observers(h, w, full):
    if full:
        return [(r, c) for r in range(h) for c in range(w)]
    cand = [(0, 0), (0, w - 1), (h - 1, 0), (h - 1, w - 1), (0, w // 2),
            (h // 2, 0), (h - 1, w // 2), (h // 2, w - 1), (h // 2, w // 2),
            (1 % h, 1 % w)]
    seen = []
    for p in cand:
        if p not in seen:
            seen.append(p)
    return seen


HEIGHTS = [(0, 0), (1.5, 0), (-2.0, 0), (3, 2), (0.25, 0.5), (-1, 4.0),
           (10, -3)]


def cases():
    for name, data in terrains():
        h, w = data.shape
        full = h * w <= 25
        for cname, xs, ys in coord_sets(h, w):
            obs = observers(h, w, full)
            for k, (r, c) in enumerate(obs):
                # all height pairs at a few observers, a rotating pair elsewhere
                hs = HEIGHTS if k < 3 else [HEIGHTS[k % len(HEIGHTS)]]
                for (oe, te) in hs:
                    yield ("%s|%s|%d,%d|%r,%r" % (name, cname, r, c, oe, te),
                           data, xs, ys, r, c, oe, te)


def run_case(data, xs, ys, r, c, oe, te):
    raster = make_raster(data.copy(), xs, ys)
    buf = io.StringIO()
    m = hashlib.sha256()
    try:
        with contextlib.redirect_stdout(buf):
            res = viewshed(raster, x=xs[c], y=ys[r], observer_elev=oe,
                           target_elev=te)
    except Exception as exc:  # errors are behaviour too: record them
        m.update(("EXC %s %s" % (type(exc).__name__, exc)).encode())
        m.update(buf.getvalue().encode())
        return "E" + m.hexdigest(), None
    assert isinstance(res, xr.DataArray)
    v = np.ascontiguousarray(res.values)
    m.update(str(v.dtype).encode() + str(v.shape).encode() + v.tobytes())
    m.update(repr(res.dims).encode() + repr(sorted(res.attrs.items())).encode())
    for k in res.dims:
        m.update(np.ascontiguousarray(res[k].values).tobytes())
    rv = np.ascontiguousarray(raster.values)
    m.update(str(rv.dtype).encode() + rv.tobytes())
    m.update(buf.getvalue().encode())
    return m.hexdigest(), res


def total_digest():
    m = hashlib.sha256()
    per_group = {}
    n = 0
    n_exc = 0
    for key, data, xs, ys, r, c, oe, te in cases():
        d, _ = run_case(data, xs, ys, r, c, oe, te)
        n_exc += d.startswith("E")
        m.update(key.encode() + d.encode())
        g = key.split("|")[0]
        per_group.setdefault(g, hashlib.sha256()).update(key.encode()
                                                         + d.encode())
        n += 1
    print("cases raising an exception (also compared):", n_exc)
    return n, m.hexdigest(), {g: v.hexdigest()[:16]
                              for g, v in per_group.items()}


# literal expected values (docstring example and a NaN / tie example),
# recorded from the unmodified tree
LIT1_IN = np.array([[0, 0, 1, 0, 0],
                    [1, 3, 0, 0, 0],
                    [10, 2, 5, 2, -1],
                    [11, 1, 2, 9, 0]])
LIT1_OUT = np.array([[ -1.              ,  90.              , 135.              ,  90.              ,
         -1.              ],
       [ -1.              , 161.56505117707798, 180.              ,  90.              ,
         90.              ],
       [167.39561735162084, 144.73561031724535, 168.69006752597977, 144.73561031724535,
         -1.              ],
       [165.57993189352723,  -1.              ,  -1.              , 166.0472636044633 ,
         -1.              ]])
LIT2_IN = np.array([[1., 1., 1., 1.],
                    [1., np.nan, 2., 1.],
                    [1., 1., 1., 1.],
                    [0., 1., 3., 1.],
                    [1., 1., 1., np.nan]])
LIT2_OUT = np.array([[ -1.              ,  -1.              ,  -1.              ,  -1.              ],
       [ -1.              ,  -1.              , 121.74584254363648,  -1.              ],
       [126.86989764584402, 117.93835272960236,  -1.              ,  -1.              ],
       [180.              , 126.86989764584402, 143.9726266148964 ,  -1.              ],
       [126.86989764584402, 117.93835272960236,  -1.              ,  -1.              ]])

# --- RECORDED ---
EXPECTED_N = 1478
EXPECTED_TOTAL = '80df8d78bf648936183344d1a5fca9be3582de9fd02729d1b76377d966f830f8'
EXPECTED_GROUPS = {'rand_f64_2x2': 'd94c567d0dac486d', 'ties_i64_2x2': '90335e4fb89dfc7e', 'rand_f64_2x5': '52f71d64384c3ec8', 'ties_i64_2x5': '473cdc2e765c6ff6', 'rand_f64_3x3': '74b193979b51690c', 'ties_i64_3x3': '65d997b5e5e200b9', 'rand_f64_5x3': '54a37a089a3e0d73', 'ties_i64_5x3': '1d66efcad78fd8d0', 'rand_f64_4x7': '55412303c6042943', 'ties_i64_4x7': 'e0db6d8e4c1a2778', 'rand_f64_7x7': 'bf27d58653935f2b', 'ties_i64_7x7': 'c5a8b15a7ad9a310', 'rand_f64_9x6': '130dc2cfb184d20b', 'ties_i64_9x6': '8151f5a4ece50779', 'rand_f64_11x13': '548d7d6a2d0f0243', 'ties_i64_11x13': 'f53d201f563de5a2', 'plateau_f64': '4940c60cc285c81f', 'plateau_zero_i32': '66419e6c8106bf0f', 'rand_f32': '90066851a52be304', 'rand_u8': 'f531293484d354c5', 'neg_i16': '22b039920f624378', 'ridge': 'b58f3eb536c34467', 'cone': '73a37584061d665b', 'nan_sparse': '949a11e043e94cf6', 'nan_border_ties': '9fec9c51c181aa66', 'nan_lastrow_f32': '36ae7d28aa4e4f4a'}
# --- END RECORDED ---


def literal_results():
    xs = np.linspace(1, 5, 5)
    ys = np.linspace(1, 4, 4)
    r1 = viewshed(make_raster(LIT1_IN.copy(), xs, ys), x=3, y=2).values
    xs = np.arange(4.0)
    ys = np.arange(5.0)
    buf = io.StringIO()
    with contextlib.redirect_stdout(buf):
        r2 = viewshed(make_raster(LIT2_IN.copy(), xs, ys), x=0, y=3,
                      observer_elev=0.5, target_elev=0.25).values
    return r1, r2


def same(a, b):
    return (a.dtype == b.dtype and a.shape == b.shape
            and a.tobytes() == b.tobytes())


def main():
    print("xrspatial from", xrspatial.__file__)
    if "--record" in sys.argv:
        n, tot, groups = total_digest()
        r1, r2 = literal_results()
        np.set_printoptions(precision=17, floatmode="unique", linewidth=100)
        print("EXPECTED_N = %d" % n)
        print("EXPECTED_TOTAL = %r" % tot)
        print("EXPECTED_GROUPS = %r" % groups)
        print("LIT1_OUT = np.%r" % r1)
        print("LIT2_OUT = np.%r" % r2)
        return 0

    ok = True
    r1, r2 = literal_results()
    for nm, got, exp in (("lit1", r1, LIT1_OUT), ("lit2", r2, LIT2_OUT)):
        exp = np.asarray(exp, dtype=np.float64)
        if not same(got, exp):
            ok = False
            print("MISMATCH literal", nm)
            print(got)
    n, tot, groups = total_digest()
    if n != EXPECTED_N:
        ok = False
        print("case count differs", n, EXPECTED_N)
    for g, d in groups.items():
        if EXPECTED_GROUPS.get(g) != d:
            ok = False
            print("MISMATCH in terrain group", g)
    if tot != EXPECTED_TOTAL:
        ok = False
        print("MISMATCH total digest", tot)
    print("%d cases; %s" % (n, "IDENTICAL" if ok else "DIFFERENT"))
    return 0 if ok else 1


if __name__ == "__main__":
    sys.exit(main())
