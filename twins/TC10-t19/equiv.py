"""Differential test for the TC10-t19 refactoring (proximity._process coordinate grids).

Runs proximity / allocation / direction on a range of rasters (dtypes, coords of
several dtypes and orders, NaN/inf cells, odd shapes, memory layouts, numpy and
dask) and compares a digest of every result (dtype + shape + bytes) with digests
recorded on the unmodified tree.  It also checks the C10 invariants: inputs
(values, coords, attrs) untouched, output shares no memory with the input, output
keeps shape / dims / coords / attrs / backend.

    python equiv.py            -> exit 0 when everything is identical
    python equiv.py --record   -> print the digest table (used once, on the unmodified tree)
"""
import hashlib
import sys

import dask.array as da
import numpy as np
import xarray as xr

import xrspatial
from xrspatial import allocation, direction, proximity

EXPECTED = {
    'prox|(4, 6)|float64|lin|C|numpy': '8269b09406733ff1177986cb',
    'prox_man|(4, 6)|float64|lin|C|numpy': 'cc88f07355d6222c62b1866f',
    'prox_md|(4, 6)|float64|lin|C|numpy': '3a6e336a48932c092241f94b',
    'alloc_md|(4, 6)|float64|lin|C|numpy': '8f7dd4771f6f8d9f98a89b95',
    'prox|(4, 6)|float64|lin|C|dask': '8269b09406733ff1177986cb',
    'prox_man|(4, 6)|float64|lin|C|dask': 'cc88f07355d6222c62b1866f',
    'prox_md|(4, 6)|float64|lin|C|dask': 'EXC:ValueError',
    'alloc_md|(4, 6)|float64|lin|C|dask': 'EXC:ValueError',
    'prox_t|(4, 6)|float32|f32|C|numpy': 'b78b7e7038bdeda8d9c29d32',
    'prox_gc|(4, 6)|float32|f32|C|numpy': 'fc9dbaef9ee5d18b67811d79',
    'alloc|(4, 6)|float32|f32|C|numpy': 'd7fe47c4604d8e6b1478f420',
    'dir|(4, 6)|float32|f32|C|numpy': 'dfa0018b8dbecf63eda66428',
    'prox_t|(4, 6)|float32|f32|C|dask': 'b78b7e7038bdeda8d9c29d32',
    'prox_gc|(4, 6)|float32|f32|C|dask': 'fc9dbaef9ee5d18b67811d79',
    'alloc|(4, 6)|float32|f32|C|dask': 'd7fe47c4604d8e6b1478f420',
    'dir|(4, 6)|float32|f32|C|dask': 'dfa0018b8dbecf63eda66428',
    'prox_man|(4, 6)|int8|int|F|numpy': '9c06b4c8a22f5879fd533b61',
    'prox_md|(4, 6)|int8|int|F|numpy': '991f70fc02ed3b03acec6f55',
    'alloc_md|(4, 6)|int8|int|F|numpy': '5fd3813f12e103be7f7c2d59',
    'dir_md|(4, 6)|int8|int|F|numpy': '8a33660f8d020c21afe7b1f7',
    'prox_man|(4, 6)|int8|int|F|dask': '9c06b4c8a22f5879fd533b61',
    'prox_md|(4, 6)|int8|int|F|dask': 'EXC:ValueError',
    'alloc_md|(4, 6)|int8|int|F|dask': 'EXC:ValueError',
    'dir_md|(4, 6)|int8|int|F|dask': 'EXC:ValueError',
    'alloc|(4, 6)|int32|irregular|F|numpy': '225ac3e1f32cf36326d02013',
    'dir|(4, 6)|int32|irregular|F|numpy': '8f7badbdb4e75c44dff9da79',
    'prox|(4, 6)|int32|irregular|F|numpy': '31662e13c29132c8ace11dea',
    'alloc|(4, 6)|int32|irregular|F|dask': '225ac3e1f32cf36326d02013',
    'dir|(4, 6)|int32|irregular|F|dask': '8f7badbdb4e75c44dff9da79',
    'prox|(4, 6)|int32|irregular|F|dask': '31662e13c29132c8ace11dea',
    'prox_md|(7, 3)|uint16|lin|view|numpy': 'c88513ad555ebf3c87960540',
    'alloc_md|(7, 3)|uint16|lin|view|numpy': 'e7116769c28b7f15fce9d9c7',
    'dir_md|(7, 3)|uint16|lin|view|numpy': '8537af9b6ac464c3eb677bf7',
    'prox_t|(7, 3)|uint16|lin|view|numpy': '103ce4de8781b56834029739',
    'prox_md|(7, 3)|uint16|lin|view|dask': 'EXC:ValueError',
    'alloc_md|(7, 3)|uint16|lin|view|dask': 'EXC:ValueError',
    'dir_md|(7, 3)|uint16|lin|view|dask': 'EXC:ValueError',
    'prox_t|(7, 3)|uint16|lin|view|dask': '103ce4de8781b56834029739',
    'alloc|(7, 3)|uint64|f32|view|numpy': 'bd0049fcb6f2388bf07612bd',
    'dir|(7, 3)|uint64|f32|view|numpy': '554a619febde5af1ad630c27',
    'prox|(7, 3)|uint64|f32|view|numpy': '536de7933a6e4b71bb047b56',
    'prox_man|(7, 3)|uint64|f32|view|numpy': 'd60d7b6ff9d7a4537e0faa71',
    'alloc|(7, 3)|uint64|f32|view|dask': 'bd0049fcb6f2388bf07612bd',
    'dir|(7, 3)|uint64|f32|view|dask': '554a619febde5af1ad630c27',
    'prox|(7, 3)|uint64|f32|view|dask': '536de7933a6e4b71bb047b56',
    'prox_man|(7, 3)|uint64|f32|view|dask': 'd60d7b6ff9d7a4537e0faa71',
    'alloc_md|(7, 3)|float64|int|ro|numpy': '72c666989db62544a7afef6a',
    'dir_md|(7, 3)|float64|int|ro|numpy': 'cdaab309b036841aac029b70',
    'prox_t|(7, 3)|float64|int|ro|numpy': 'baa64922b5e38b5008d46121',
    'alloc_md|(7, 3)|float64|int|ro|dask': 'EXC:ValueError',
    'dir_md|(7, 3)|float64|int|ro|dask': 'EXC:ValueError',
    'prox_t|(7, 3)|float64|int|ro|dask': 'baa64922b5e38b5008d46121',
    'dir|(7, 3)|float32|irregular|ro|numpy': '555bce4a75fa42d727d215f3',
    'prox|(7, 3)|float32|irregular|ro|numpy': '353c9a66fcf912942daee8f0',
    'prox_man|(7, 3)|float32|irregular|ro|numpy': '36f6ce4269aa64867dbc23d0',
    'prox_md|(7, 3)|float32|irregular|ro|numpy': 'de3e1dc2e882a43bb6331a15',
    'dir|(7, 3)|float32|irregular|ro|dask': '555bce4a75fa42d727d215f3',
    'prox|(7, 3)|float32|irregular|ro|dask': '353c9a66fcf912942daee8f0',
    'prox_man|(7, 3)|float32|irregular|ro|dask': '36f6ce4269aa64867dbc23d0',
    'prox_md|(7, 3)|float32|irregular|ro|dask': 'EXC:ValueError',
    'dir_md|(1, 5)|int8|lin|C|numpy': 'd0a19eef29b812e642eecaee',
    'prox_t|(1, 5)|int8|lin|C|numpy': 'ab4ee385e69720f1e6d105ec',
    'prox_gc|(1, 5)|int8|lin|C|numpy': 'f8324d61130227c65c5a310c',
    'alloc|(1, 5)|int8|lin|C|numpy': 'ce2d52813eedeca9a40f2d5e',
    'dir_md|(1, 5)|int8|lin|C|dask': 'EXC:ValueError',
    'prox_t|(1, 5)|int8|lin|C|dask': 'ab4ee385e69720f1e6d105ec',
    'prox_gc|(1, 5)|int8|lin|C|dask': 'f8324d61130227c65c5a310c',
    'alloc|(1, 5)|int8|lin|C|dask': 'ce2d52813eedeca9a40f2d5e',
    'prox|(1, 5)|int32|f32|C|numpy': 'a33afd3c6afbf1231d12b65b',
    'prox_man|(1, 5)|int32|f32|C|numpy': 'a33afd3c6afbf1231d12b65b',
    'prox_md|(1, 5)|int32|f32|C|numpy': 'a33afd3c6afbf1231d12b65b',
    'alloc_md|(1, 5)|int32|f32|C|numpy': 'da8a88f85003d25beb95613e',
    'prox|(1, 5)|int32|f32|C|dask': 'a33afd3c6afbf1231d12b65b',
    'prox_man|(1, 5)|int32|f32|C|dask': 'a33afd3c6afbf1231d12b65b',
    'prox_md|(1, 5)|int32|f32|C|dask': 'a33afd3c6afbf1231d12b65b',
    'alloc_md|(1, 5)|int32|f32|C|dask': 'da8a88f85003d25beb95613e',
    'prox_t|(1, 5)|uint16|int|F|numpy': 'af4e079385bd31302bc014c3',
    'alloc|(1, 5)|uint16|int|F|numpy': 'da8a88f85003d25beb95613e',
    'dir|(1, 5)|uint16|int|F|numpy': '3ec37ee2a604edb1b3bef904',
    'prox_t|(1, 5)|uint16|int|F|dask': 'af4e079385bd31302bc014c3',
    'alloc|(1, 5)|uint16|int|F|dask': 'da8a88f85003d25beb95613e',
    'dir|(1, 5)|uint16|int|F|dask': '3ec37ee2a604edb1b3bef904',
    'prox_man|(1, 5)|uint64|irregular|F|numpy': 'c63456d95fa1997b76dda6db',
    'prox_md|(1, 5)|uint64|irregular|F|numpy': 'c63456d95fa1997b76dda6db',
    'alloc_md|(1, 5)|uint64|irregular|F|numpy': '133c46835fe9d44d70827b4b',
    'dir_md|(1, 5)|uint64|irregular|F|numpy': '3ec37ee2a604edb1b3bef904',
    'prox_man|(1, 5)|uint64|irregular|F|dask': 'c63456d95fa1997b76dda6db',
    'prox_md|(1, 5)|uint64|irregular|F|dask': 'c63456d95fa1997b76dda6db',
    'alloc_md|(1, 5)|uint64|irregular|F|dask': '133c46835fe9d44d70827b4b',
    'dir_md|(1, 5)|uint64|irregular|F|dask': '3ec37ee2a604edb1b3bef904',
    'prox_gc|(5, 1)|float64|lin|view|numpy': '6d8f454462aac147aff6d638',
    'alloc|(5, 1)|float64|lin|view|numpy': '95cb01e89d7e7bd8ea3e2e55',
    'dir|(5, 1)|float64|lin|view|numpy': '27057828c9e4cc33c75c4d3f',
    'prox|(5, 1)|float64|lin|view|numpy': 'bd982812cf5b19ff22770934',
    'prox_gc|(5, 1)|float64|lin|view|dask': '6d8f454462aac147aff6d638',
    'alloc|(5, 1)|float64|lin|view|dask': '95cb01e89d7e7bd8ea3e2e55',
    'dir|(5, 1)|float64|lin|view|dask': '27057828c9e4cc33c75c4d3f',
    'prox|(5, 1)|float64|lin|view|dask': 'bd982812cf5b19ff22770934',
    'prox_md|(5, 1)|float32|f32|view|numpy': 'c0b5395e5a1a2d30c1a3845c',
    'alloc_md|(5, 1)|float32|f32|view|numpy': '1e59735f4d4cf8f278ed4d4f',
    'dir_md|(5, 1)|float32|f32|view|numpy': '8baa4ce34b37b187526e390b',
    'prox_t|(5, 1)|float32|f32|view|numpy': 'c0b5395e5a1a2d30c1a3845c',
    'prox_md|(5, 1)|float32|f32|view|dask': 'EXC:ValueError',
    'alloc_md|(5, 1)|float32|f32|view|dask': '1e59735f4d4cf8f278ed4d4f',
    'dir_md|(5, 1)|float32|f32|view|dask': '8baa4ce34b37b187526e390b',
    'prox_t|(5, 1)|float32|f32|view|dask': 'c0b5395e5a1a2d30c1a3845c',
    'alloc|(5, 1)|int8|int|ro|numpy': '95cb01e89d7e7bd8ea3e2e55',
    'dir|(5, 1)|int8|int|ro|numpy': '6d074f1d4649c69d1e6980b3',
    'prox|(5, 1)|int8|int|ro|numpy': '590529d1c57f3936e3e95814',
    'prox_man|(5, 1)|int8|int|ro|numpy': '590529d1c57f3936e3e95814',
    'alloc|(5, 1)|int8|int|ro|dask': '95cb01e89d7e7bd8ea3e2e55',
    'dir|(5, 1)|int8|int|ro|dask': '6d074f1d4649c69d1e6980b3',
    'prox|(5, 1)|int8|int|ro|dask': '590529d1c57f3936e3e95814',
    'prox_man|(5, 1)|int8|int|ro|dask': '590529d1c57f3936e3e95814',
    'alloc_md|(5, 1)|int32|irregular|ro|numpy': '76a9c3efa5353383ab8f9526',
    'dir_md|(5, 1)|int32|irregular|ro|numpy': '5572933d005e99955bda011c',
    'prox_t|(5, 1)|int32|irregular|ro|numpy': '1e59735f4d4cf8f278ed4d4f',
    'alloc_md|(5, 1)|int32|irregular|ro|dask': 'EXC:ValueError',
    'dir_md|(5, 1)|int32|irregular|ro|dask': '5572933d005e99955bda011c',
    'prox_t|(5, 1)|int32|irregular|ro|dask': '1e59735f4d4cf8f278ed4d4f',
    'dir|(9, 11)|uint16|lin|C|numpy': '096394116d37275b644fa317',
    'prox|(9, 11)|uint16|lin|C|numpy': '1672c0b174121dc3748098aa',
    'prox_man|(9, 11)|uint16|lin|C|numpy': '37257959032434ef09c3fbf1',
    'prox_md|(9, 11)|uint16|lin|C|numpy': '4b0b500cacdf06da93c05352',
    'dir|(9, 11)|uint16|lin|C|dask': '096394116d37275b644fa317',
    'prox|(9, 11)|uint16|lin|C|dask': '1672c0b174121dc3748098aa',
    'prox_man|(9, 11)|uint16|lin|C|dask': '37257959032434ef09c3fbf1',
    'prox_md|(9, 11)|uint16|lin|C|dask': '4b0b500cacdf06da93c05352',
    'dir_md|(9, 11)|uint64|f32|C|numpy': '890f4b96b99cb33193c886c6',
    'prox_t|(9, 11)|uint64|f32|C|numpy': '87cbff5d2107c4a7b986dd3e',
    'prox_gc|(9, 11)|uint64|f32|C|numpy': '6405db05eda728df6940e3de',
    'alloc|(9, 11)|uint64|f32|C|numpy': '5c217f495f5e1affc9c0d1a8',
    'dir_md|(9, 11)|uint64|f32|C|dask': '890f4b96b99cb33193c886c6',
    'prox_t|(9, 11)|uint64|f32|C|dask': '87cbff5d2107c4a7b986dd3e',
    'prox_gc|(9, 11)|uint64|f32|C|dask': '6405db05eda728df6940e3de',
    'alloc|(9, 11)|uint64|f32|C|dask': '5c217f495f5e1affc9c0d1a8',
    'prox|(9, 11)|float64|int|F|numpy': 'b806d612c1dc9653c80f9d8e',
    'prox_man|(9, 11)|float64|int|F|numpy': 'e0a9c1a7c3754902599ff458',
    'prox_md|(9, 11)|float64|int|F|numpy': '5072fa3c9c890d9f967f58c8',
    'alloc_md|(9, 11)|float64|int|F|numpy': '8708110f848c3fdef20db996',
    'prox|(9, 11)|float64|int|F|dask': 'b806d612c1dc9653c80f9d8e',
    'prox_man|(9, 11)|float64|int|F|dask': 'e0a9c1a7c3754902599ff458',
    'prox_md|(9, 11)|float64|int|F|dask': '5072fa3c9c890d9f967f58c8',
    'alloc_md|(9, 11)|float64|int|F|dask': '8708110f848c3fdef20db996',
    'prox_t|(9, 11)|float32|irregular|F|numpy': '6d987f836974b627404cdce0',
    'alloc|(9, 11)|float32|irregular|F|numpy': 'a1f8396874612f8fd316b3db',
    'dir|(9, 11)|float32|irregular|F|numpy': '8e079521328c35885762f6fa',
    'prox_t|(9, 11)|float32|irregular|F|dask': '6d987f836974b627404cdce0',
    'alloc|(9, 11)|float32|irregular|F|dask': 'a1f8396874612f8fd316b3db',
    'dir|(9, 11)|float32|irregular|F|dask': '8e079521328c35885762f6fa',
}


def digest(arr):
    arr = np.ascontiguousarray(arr)
    h = hashlib.sha256()
    h.update(str(arr.dtype).encode())
    h.update(str(arr.shape).encode())
    h.update(arr.tobytes())
    return h.hexdigest()[:24]


def make_data(shape, dtype, seed):
    rng = np.random.RandomState(seed)
    h, w = shape
    data = np.zeros(shape, dtype=np.float64)
    n_targets = max(1, (h * w) // 6)
    idx = rng.choice(h * w, size=n_targets, replace=False)
    data.ravel()[idx] = rng.randint(1, 6, size=n_targets)
    if np.issubdtype(dtype, np.floating):
        data = data.astype(dtype)
        if h * w > 4:
            free = np.flatnonzero(data.ravel() == 0)
            data.ravel()[free[0]] = np.nan
            data.ravel()[free[-1]] = np.inf
        return data
    return data.astype(dtype)


def coords_variants(h, w):
    return {
        'lin': (np.linspace(-20, 20, w), np.linspace(20, -20, h)),
        'f32': (np.linspace(0, 3, w).astype(np.float32),
                np.linspace(-1, 5, h).astype(np.float32)),
        'int': (np.arange(w) * 3 - 4, np.arange(h)[::-1] * 2),
        'irregular': (np.cumsum(np.arange(1, w + 1) ** 1.5) / 10.,
                      -np.cumsum(np.arange(1, h + 1) ** 0.5)),
    }


def layouts(data):
    big = np.zeros((data.shape[0] * 2, data.shape[1] * 2), dtype=data.dtype)
    big[::2, ::2] = data
    ro = data.copy()
    ro.setflags(write=False)
    return {
        'C': np.ascontiguousarray(data),
        'F': np.asfortranarray(data),
        'view': big[::2, ::2],
        'ro': ro,
    }


def make_raster(data, xc, yc, backend, chunks):
    if backend == 'dask':
        data = da.from_array(data, chunks=chunks)
    scalar = xr.DataArray(7, attrs={'k': 'v'})
    return xr.DataArray(
        data, dims=['y', 'x'],
        coords={'y': yc.copy(), 'x': xc.copy(), 'band': scalar},
        attrs={'res': (1, 1), 'nested': {'a': [1, 2]}},
    )


def snapshot(raster):
    return (
        np.array(raster.data, copy=True),
        {k: np.array(v.values, copy=True) for k, v in raster.coords.items()},
        repr(raster.attrs), raster.dims, raster.shape, str(raster.dtype),
    )


def same_snapshot(a, b):
    if a[3:] != b[3:] or a[2] != b[2]:
        return False
    if a[0].dtype != b[0].dtype or not np.array_equal(a[0], b[0], equal_nan=True):
        return False
    if a[1].keys() != b[1].keys():
        return False
    return all(a[1][k].dtype == b[1][k].dtype and np.array_equal(a[1][k], b[1][k])
               for k in a[1])


def cases():
    calls = [
        ('prox', proximity, {}),
        ('prox_t', proximity, {'target_values': [2, 3]}),
        ('prox_man', proximity, {'distance_metric': 'MANHATTAN'}),
        ('prox_gc', proximity, {'distance_metric': 'GREAT_CIRCLE'}),
        ('prox_md', proximity, {'max_distance': 4.5}),
        ('alloc', allocation, {}),
        ('alloc_md', allocation, {'max_distance': 6, 'target_values': [1, 2, 5]}),
        ('dir', direction, {}),
        ('dir_md', direction, {'max_distance': 7.5}),
    ]
    shapes = [(4, 6), (7, 3), (1, 5), (5, 1), (9, 11)]
    dtypes = [np.float64, np.float32, np.int8, np.int32, np.uint16, np.uint64]
    lays = ['C', 'F', 'view', 'ro']
    i = 0
    for shape in shapes:
        cvs = coords_variants(*shape)
        for cname, (xc, yc) in cvs.items():
            # keep the run short: rotate dtypes / layouts / calls over the rasters
            dtype = dtypes[i % len(dtypes)]
            lay = lays[(i // 2) % len(lays)]
            data = make_data(shape, dtype, seed=i)
            arr = layouts(data)[lay]
            chosen = [calls[(i + j) % len(calls)] for j in (0, 2, 4, 6)]
            for backend in ('numpy', 'dask'):
                for name, func, kw in chosen:
                    if name == 'prox_gc' and cname in ('irregular', 'int'):
                        continue  # coords outside the lon/lat range
                    key = '%s|%s|%s|%s|%s|%s' % (
                        name, shape, np.dtype(dtype).name, cname, lay, backend)
                    chunks = (max(1, shape[0] // 2), max(1, shape[1] // 2))
                    yield key, func, kw, arr, xc, yc, backend, chunks
            i += 1


def main():
    record = '--record' in sys.argv
    assert '/tmp/t5/TC10/' in xrspatial.__file__, xrspatial.__file__
    got = {}
    failures = []
    for key, func, kw, arr, xc, yc, backend, chunks in cases():
        raster = make_raster(arr, xc, yc, backend, chunks)
        before = snapshot(raster)
        arr_before = arr.copy()
        try:
            out = func(raster, x='x', y='y', **kw)
            is_dask = isinstance(out.data, da.Array)
            values = out.values
            d = digest(values)
            # C10 invariants
            if is_dask != (backend == 'dask'):
                failures.append((key, 'backend changed'))
            if out.shape != raster.shape or out.dims != raster.dims:
                failures.append((key, 'shape/dims changed'))
            if repr(out.attrs) != repr(raster.attrs):
                failures.append((key, 'attrs changed'))
            if set(out.coords) != set(raster.coords) or not all(
                    np.array_equal(out.coords[c].values, raster.coords[c].values)
                    and out.coords[c].dtype == raster.coords[c].dtype
                    for c in raster.coords):
                failures.append((key, 'coords changed'))
            if backend == 'numpy':
                if np.shares_memory(out.data, arr):
                    failures.append((key, 'output shares memory with input'))
                if out.data.flags.writeable:
                    out.data[...] = 123
            if not same_snapshot(before, snapshot(raster)):
                failures.append((key, 'input raster modified'))
            if not (arr.dtype == arr_before.dtype
                    and np.array_equal(arr, arr_before, equal_nan=arr.dtype.kind == 'f')):
                failures.append((key, 'input array modified'))
        except Exception as e:  # recorded too: errors must stay the same
            d = 'EXC:' + type(e).__name__
        got[key] = d

    if record:
        print('EXPECTED = {')
        for k in got:
            print('    %r: %r,' % (k, got[k]))
        print('}')
        return 0

    if set(got) != set(EXPECTED):
        failures.append(('keys', 'case table differs from the recorded one'))
    for k, v in got.items():
        if EXPECTED.get(k) != v:
            failures.append((k, 'digest %s != recorded %s' % (v, EXPECTED.get(k))))
    for f in failures[:40]:
        print('FAIL', f)
    print('%d cases, %d failures' % (len(got), len(failures)))
    return 1 if failures else 0


if __name__ == '__main__':
    sys.exit(main())
